(* proof/PromqlAggProofs.v — lemmas and proofs about model/PromqlAgg.v (property C29). *)
From Coq Require Import List ZArith NArith QArith Qabs Bool Lia Permutation.
From Verif Require Import model.PromqlAgg.
Import ListNotations.
Open Scope Z_scope.

(* ------------------------------------------------------------------ equality tests *)
Lemma str_eqb_eq : forall a b, str_eqb a b = true <-> a = b.
Proof.
  induction a as [|x a IH]; destruct b as [|y b]; simpl; split; intro H; try easy.
  - apply andb_true_iff in H as [H1 H2]. apply N.eqb_eq in H1. apply IH in H2. now subst.
  - inversion H; subst. apply andb_true_iff. split; [apply N.eqb_refl | now apply IH].
Qed.

Lemma labels_eqb_eq : forall a b, labels_eqb a b = true <-> a = b.
Proof.
  induction a as [|[n v] a IH]; destruct b as [|[n' v'] b]; simpl; split; intro H; try easy.
  - unfold label_eqb in H; simpl in H.
    apply andb_true_iff in H as [H1 H2]. apply andb_true_iff in H1 as [Hn Hv].
    apply str_eqb_eq in Hn, Hv. apply IH in H2. now subst.
  - inversion H; subst. unfold label_eqb; simpl.
    apply andb_true_iff; split; [apply andb_true_iff; split; now apply str_eqb_eq | now apply IH].
Qed.

Lemma labels_eqb_refl : forall a, labels_eqb a a = true.
Proof. intro a. now apply labels_eqb_eq. Qed.

Lemma labels_eqb_neq : forall a b, labels_eqb a b = false <-> a <> b.
Proof.
  intros a b. split; intro H.
  - intro E. apply labels_eqb_eq in E. congruence.
  - destruct (labels_eqb a b) eqn:E; [apply labels_eqb_eq in E; contradiction | reflexivity].
Qed.

Lemma mem_labels_In : forall l ls, mem_labels l ls = true <-> In l ls.
Proof.
  intros l ls. unfold mem_labels. rewrite existsb_exists. split.
  - intros [x [Hin Hx]]. apply labels_eqb_eq in Hx. now subst.
  - intro H. exists l. split; [assumption | apply labels_eqb_refl].
Qed.

Lemma mem_labels_not_In : forall l ls, mem_labels l ls = false <-> ~ In l ls.
Proof.
  intros l ls. split; intro H.
  - intro Hin. apply mem_labels_In in Hin. congruence.
  - destruct (mem_labels l ls) eqn:E; [apply mem_labels_In in E; contradiction | reflexivity].
Qed.

(* ------------------------------------------------------------------ grouping *)
Section Groups.
Context {A : Type}.
Variable key : A -> labels.

Lemma groups_of_snoc : forall v s,
  groups_of key (v ++ [s]) = add_to_group (groups_of key v) (key s) s.
Proof. intros. unfold groups_of. now rewrite fold_left_app. Qed.

Lemma add_to_group_keys : forall (acc : list (labels * list A)) k s,
  map fst (add_to_group acc k s) =
  if mem_labels k (map fst acc) then map fst acc else map fst acc ++ [k].
Proof.
  induction acc as [|[k' m] acc IH]; intros k s; simpl; [reflexivity|].
  destruct (labels_eqb k k') eqn:E; simpl; [reflexivity|].
  rewrite IH. now destruct (mem_labels k (map fst acc)).
Qed.

Lemma uniq_keys_snoc : forall ks k,
  uniq_keys (ks ++ [k]) = if mem_labels k (uniq_keys ks) then uniq_keys ks else uniq_keys ks ++ [k].
Proof. intros. unfold uniq_keys. now rewrite fold_left_app. Qed.

Lemma groups_of_keys : forall v, map fst (groups_of key v) = uniq_keys (map key v).
Proof.
  induction v as [|s v IH] using rev_ind; [reflexivity|].
  rewrite groups_of_snoc, add_to_group_keys, IH.
  replace (map key (v ++ [s])) with (map key v ++ [key s]) by (now rewrite map_app).
  now rewrite uniq_keys_snoc.
Qed.

Lemma add_to_group_In : forall (acc : list (labels * list A)) k0 s0 k ms,
  NoDup (map fst acc) ->
  In (k, ms) (add_to_group acc k0 s0) ->
  (k <> k0 /\ In (k, ms) acc) \/
  (k = k0 /\ ((exists ms0, In (k0, ms0) acc /\ ms = ms0 ++ [s0]) \/
              (~ In k0 (map fst acc) /\ ms = [s0]))).
Proof.
  induction acc as [|[k' m] acc IH]; intros k0 s0 k ms Hnd Hin; simpl in *.
  - destruct Hin as [Hin|[]]. inversion Hin; subst. right. split; [reflexivity|]. right. now split.
  - inversion Hnd as [|? ? Hnotin Hnd']; subst.
    destruct (labels_eqb k0 k') eqn:E.
    + apply labels_eqb_eq in E; subst k'.
      destruct Hin as [Hin|Hin].
      * inversion Hin; subst. right. split; [reflexivity|]. left. exists m. split; [now left | reflexivity].
      * left. split; [|now right].
        intro; subst. apply Hnotin. change k0 with (fst (k0, ms)). now apply in_map.
    + apply labels_eqb_neq in E.
      destruct Hin as [Hin|Hin].
      * inversion Hin; subst. left. split; [congruence | now left].
      * destruct (IH _ _ _ _ Hnd' Hin) as [[Hne Hin']|[Heq [[ms0 [Hin' Hms]]|[Hnot Hms]]]].
        -- left. split; [assumption | now right].
        -- right. split; [assumption|]. left. exists ms0. split; [now right | assumption].
        -- right. split; [assumption|]. right. split; [|assumption].
           intros [Hk|Hk]; [simpl in Hk; congruence | contradiction].
Qed.

Lemma uniq_keys_NoDup : forall ks, NoDup (uniq_keys ks).
Proof.
  induction ks as [|k ks IH] using rev_ind; [constructor|].
  rewrite uniq_keys_snoc. destruct (mem_labels k (uniq_keys ks)) eqn:E; [assumption|].
  apply mem_labels_not_In in E.
  apply NoDup_rev in IH. rewrite <- (rev_involutive (uniq_keys ks ++ [k])).
  apply NoDup_rev. rewrite rev_app_distr. simpl. constructor; [|assumption].
  now rewrite <- in_rev.
Qed.

Lemma uniq_keys_In : forall ks k, In k (uniq_keys ks) <-> In k ks.
Proof.
  induction ks as [|k0 ks IH] using rev_ind; intro k; [reflexivity|].
  rewrite uniq_keys_snoc, in_app_iff. simpl.
  destruct (mem_labels k0 (uniq_keys ks)) eqn:E.
  - apply mem_labels_In in E. rewrite IH in *. split; [tauto|].
    intros [H|[H|[]]]; [assumption | now subst].
  - rewrite in_app_iff, IH. simpl. tauto.
Qed.

(* the groups are exactly the classes of the projected label set, each with its members in
   input order, and the groups appear in the order of their first member *)
Lemma groups_of_partition : forall v,
  let gs := groups_of key v in
  NoDup (map fst gs) /\
  map fst gs = uniq_keys (map key v) /\
  (forall s, In s v -> In (key s) (map fst gs)) /\
  (forall k ms, In (k, ms) gs ->
     ms <> [] /\ ms = filter (fun s => labels_eqb (key s) k) v).
Proof.
  intro v. simpl.
  assert (Hk := groups_of_keys v).
  assert (Hnd : NoDup (map fst (groups_of key v))) by (rewrite Hk; apply uniq_keys_NoDup).
  split; [assumption|]. split; [assumption|]. split.
  - intros s Hs. rewrite Hk. apply uniq_keys_In. now apply in_map.
  - clear Hk Hnd. induction v as [|s0 v IH] using rev_ind; intros k ms Hin; [destruct Hin|].
    rewrite groups_of_snoc in Hin.
    assert (Hnd : NoDup (map fst (groups_of key v))) by (rewrite groups_of_keys; apply uniq_keys_NoDup).
    rewrite filter_app. simpl.
    destruct (add_to_group_In _ _ _ _ _ Hnd Hin) as [[Hne Hin']|[Heq [[ms0 [Hin' Hms]]|[Hnot Hms]]]].
    + destruct (IH _ _ Hin') as [Hnz Hf]. split; [assumption|].
      assert (E : labels_eqb (key s0) k = false) by (apply labels_eqb_neq; congruence).
      rewrite E, app_nil_r. assumption.
    + subst k. destruct (IH _ _ Hin') as [Hnz Hf]. split.
      * subst ms. intro Habs. apply app_eq_nil in Habs as [_ Habs]. discriminate.
      * rewrite labels_eqb_refl. subst ms. now rewrite <- Hf.
    + subst k ms. split; [discriminate|]. rewrite labels_eqb_refl.
      assert (Hf : filter (fun s => labels_eqb (key s) (key s0)) v = []).
      { rewrite groups_of_keys in Hnot.
        clear -Hnot. induction v as [|a v IHv]; [reflexivity|]. simpl.
        destruct (labels_eqb (key a) (key s0)) eqn:E.
        - apply labels_eqb_eq in E. exfalso. apply Hnot. apply (proj2 (uniq_keys_In _ _)). simpl. now left.
        - apply IHv. intro H. apply Hnot. apply (proj2 (uniq_keys_In _ _)).
          apply (proj1 (uniq_keys_In _ _)) in H. simpl. right. exact H. }
      now rewrite Hf.
Qed.
End Groups.

(* ------------------------------------------------------------------ float arithmetic *)
Section Arith.
Variable ovf : Q -> bool.

Lemma rnd_cases : forall q, (exists s, rnd ovf q = FInf s) \/ rnd ovf q = FFin (Qred q).
Proof. intro q. unfold rnd. destruct (ovf q); [left; eauto | now right]. Qed.

Lemma rnd_fin : forall q r, rnd ovf q = FFin r -> r == q.
Proof.
  intros q r H. destruct (rnd_cases q) as [[s Hs]|Hs]; rewrite Hs in H; [discriminate|].
  inversion H. apply Qred_correct.
Qed.

Lemma fadd_fin : forall x y r, fadd ovf (FFin x) (FFin y) = FFin r -> r == x + y.
Proof. intros x y r H. simpl in H. now apply rnd_fin. Qed.

Lemma fsub_fin : forall x y r, fsub ovf (FFin x) (FFin y) = FFin r -> r == x - y.
Proof. intros x y r H. unfold fsub in H. simpl in H. apply rnd_fin in H. rewrite H. reflexivity. Qed.

Lemma fmul_fin : forall x y r, fmul ovf (FFin x) (FFin y) = FFin r -> r == x * y.
Proof. intros x y r H. simpl in H. now apply rnd_fin. Qed.

Lemma fdiv_fin : forall x y r, ~ y == 0 -> fdiv ovf (FFin x) (FFin y) = FFin r -> r == x / y.
Proof.
  intros x y r Hy H. simpl in H.
  destruct (Qeq_bool y 0) eqn:E; [apply Qeq_bool_eq in E; contradiction|].
  now apply rnd_fin.
Qed.

Lemma fadd_nonfin_l : forall a b, is_fin a = false -> is_fin (fadd ovf a b) = false.
Proof. intros [| s | x] [| t | y] H; simpl in *; try reflexivity; try discriminate. now destruct (Bool.eqb s t). Qed.
Lemma fadd_nonfin_r : forall a b, is_fin b = false -> is_fin (fadd ovf a b) = false.
Proof. intros [| s | x] [| t | y] H; simpl in *; try reflexivity; try discriminate. now destruct (Bool.eqb s t). Qed.
Lemma fmul_nonfin_r : forall a b, is_fin b = false -> is_fin (fmul ovf a b) = false.
Proof.
  intros [| s | x] [| t | y] H; simpl in *; try reflexivity; try discriminate.
  now destruct (Qeq_bool x 0).
Qed.
Lemma fdiv_nonfin_l : forall a y, is_fin a = false -> is_fin (fdiv ovf a (FFin y)) = false.
Proof. intros [| s | x] y H; simpl in *; try reflexivity; discriminate. Qed.

(* a finite value or not *)
Lemma fin_dec : forall a, (exists q, a = FFin q) \/ is_fin a = false.
Proof. intros [| s | q]; [now right | now right | left; eauto]. Qed.

Definition bad (st : fval * fval) : Prop := is_fin (fst st) && is_fin (snd st) = false.
Definition good (st : fval * fval) (a : Q) : Prop := exists t c, st = (FFin t, FFin c) /\ t + c == a.

Lemma fadd_fin_inv : forall a b r, fadd ovf a b = FFin r ->
  exists x y, a = FFin x /\ b = FFin y /\ r == x + y.
Proof.
  intros [| s | x] [| t | y] r H; simpl in H; try discriminate.
  - destruct (Bool.eqb s t); discriminate.
  - exists x, y. repeat split. now apply rnd_fin.
Qed.

Lemma fsub_fin_inv : forall a b r, fsub ovf a b = FFin r ->
  exists x y, a = FFin x /\ b = FFin y /\ r == x - y.
Proof.
  intros a b r H. unfold fsub in H. apply fadd_fin_inv in H as [x [y [Ha [Hb Hr]]]].
  destruct b as [| t | y']; simpl in Hb; try discriminate.
  inversion Hb; subst. exists x, y'. repeat split. rewrite Hr. reflexivity.
Qed.

(* kahansum.Inc on finite arguments: when both results are finite, sum + compensation is
   exactly the old sum + compensation + increment *)
Lemma kahan_inc_fin : forall inc sum c t' c',
  kahan_inc ovf (FFin inc) (FFin sum) (FFin c) = (FFin t', FFin c') -> t' + c' == sum + c + inc.
Proof.
  intros inc sum c t' c' H. unfold kahan_inc in H.
  remember (fadd ovf (FFin sum) (FFin inc)) as t0 eqn:Et.
  pose proof (f_equal fst H) as Ht0. pose proof (f_equal snd H) as Hc. cbn [fst snd] in Ht0, Hc.
  clear H. subst t0. rewrite Ht0 in Hc. cbn [is_inf] in Hc.
  assert (Ht := Ht0). apply fadd_fin_inv in Ht as [x [y [Hx [Hy Ht]]]]. inversion Hx; inversion Hy; subst x y.
  destruct (fge (fabs (FFin sum)) (fabs (FFin inc))).
  - apply fadd_fin_inv in Hc as [x [y [Hx' [Hy' Hc]]]]. inversion Hx'; subst x.
    apply fadd_fin_inv in Hy' as [d [e [Hd [He Hy']]]]. inversion He; subst e.
    apply fsub_fin_inv in Hd as [u [v [Hu [Hv Hd]]]]. inversion Hu; inversion Hv; subst u v.
    rewrite Hc, Hy', Hd, Ht. ring.
  - apply fadd_fin_inv in Hc as [x [y [Hx' [Hy' Hc]]]]. inversion Hx'; subst x.
    apply fadd_fin_inv in Hy' as [d [e [Hd [He Hy']]]]. inversion He; subst e.
    apply fsub_fin_inv in Hd as [u [v [Hu [Hv Hd]]]]. inversion Hu; inversion Hv; subst u v.
    rewrite Hc, Hy', Hd, Ht. ring.
Qed.

(* once the sum or the compensation is not finite, they never both become finite again *)
Lemma kahan_inc_bad : forall inc sum c,
  is_fin sum && is_fin c = false -> bad (kahan_inc ovf inc sum c).
Proof.
  intros inc sum c H. unfold bad, kahan_inc. simpl fst. simpl snd.
  apply andb_false_iff in H as [H|H].
  - rewrite (fadd_nonfin_l _ _ H). reflexivity.
  - apply andb_false_iff.
    destruct (is_inf (fadd ovf sum inc)) eqn:Ei.
    + left. now destruct (fadd ovf sum inc).
    + right. destruct (fge (fabs sum) (fabs inc)); now apply fadd_nonfin_l.
Qed.

Lemma kahan_inc_good : forall inc st a,
  good st a ->
  good (kahan_inc ovf (FFin inc) (fst st) (snd st)) (a + inc) \/ bad (kahan_inc ovf (FFin inc) (fst st) (snd st)).
Proof.
  intros inc st a [t [c [Hst Ha]]]. subst st. simpl fst. simpl snd.
  destruct (kahan_inc ovf (FFin inc) (FFin t) (FFin c)) as [t' c'] eqn:E.
  destruct (fin_dec t') as [[qt Hqt]|Hnt]; [|right; unfold bad; simpl; now rewrite Hnt].
  destruct (fin_dec c') as [[qc Hqc]|Hnc]; [|right; unfold bad; simpl; rewrite Hnc; apply andb_false_r].
  subst. left. exists qt, qc. split; [reflexivity|].
  rewrite (kahan_inc_fin _ _ _ _ _ E), <- Ha. ring.
Qed.

(* ---- SUM: the Kahan-compensated sum is the exact sum whenever it is finite ---- *)
Lemma sum_fold_bad : forall vs st, bad st -> bad (fold_left (sum_step ovf) vs st).
Proof.
  induction vs as [|v vs IH]; intros st H; [assumption|]. simpl. apply IH.
  unfold sum_step. now apply kahan_inc_bad.
Qed.

Lemma sum_fold_good : forall xs st a,
  good st a ->
  good (fold_left (sum_step ovf) (map FFin xs) st) (a + qsum xs) \/
  bad (fold_left (sum_step ovf) (map FFin xs) st).
Proof.
  induction xs as [|x xs IH]; intros st a H; simpl.
  - left. destruct H as [t [c [Hst Ha]]]. exists t, c. split; [assumption|]. rewrite Ha. ring.
  - destruct (kahan_inc_good x st a H) as [Hg|Hb].
    + destruct (IH _ _ Hg) as [Hg'|Hb'].
      * left. destruct Hg' as [t [c [Hst Ha]]]. exists t, c. split; [exact Hst|]. rewrite Ha. ring.
      * now right.
    + right. now apply sum_fold_bad.
Qed.

Lemma agg_sum_exact : forall x xs r,
  agg_sum ovf (FFin x) (map FFin xs) = FFin r -> r == qsum (x :: xs).
Proof.
  intros x xs r H. unfold agg_sum in H. cbv zeta in H.
  assert (Hg : good (FFin x, f0) x) by (exists x, 0%Q; split; [reflexivity | ring]).
  set (st := fold_left (sum_step ovf) (map FFin xs) (FFin x, f0)) in *.
  destruct (sum_fold_good xs _ _ Hg) as [[t [c [Hst Ha]]]|Hb]; fold st in Hst || fold st in Hb.
  - rewrite Hst in H. cbn [fst snd] in H. apply fadd_fin in H.
    rewrite H, Ha. simpl. ring.
  - exfalso. unfold bad in Hb. apply andb_false_iff in Hb as [Hb|Hb].
    + pose proof (fadd_nonfin_l (fst st) (snd st) Hb) as Hn. rewrite H in Hn. discriminate.
    + pose proof (fadd_nonfin_r (fst st) (snd st) Hb) as Hn. rewrite H in Hn. discriminate.
Qed.

(* ---- AVG: direct Kahan sum, switching to the incremental mean when the sum would overflow:
   whenever the result is finite it is the exact mean, wherever the switch happened ---- *)
Lemma fmul_nonfin_l : forall a b, is_fin a = false -> is_fin (fmul ovf a b) = false.
Proof.
  intros [| s | x] [| t | y] H; simpl in *; try reflexivity; try discriminate.
  now destruct (Qeq_bool y 0).
Qed.

Lemma kahan_inc_bad_inc : forall inc sum c, is_fin inc = false -> bad (kahan_inc ovf inc sum c).
Proof.
  intros inc sum c H. unfold bad, kahan_inc. cbn [fst snd].
  rewrite (fadd_nonfin_r _ _ H). reflexivity.
Qed.

Lemma good_eq : forall st a a', good st a -> a == a' -> good st a'.
Proof. intros st a a' [t [c [Hst Ha]]] E. exists t, c. split; [assumption | now rewrite Ha]. Qed.

Lemma injZ_nonzero : forall n, 1 <= n -> ~ inject_Z n == 0.
Proof. intros n Hn E. unfold Qeq in E. simpl in E. lia. Qed.

Lemma incr_core_bad : forall inc q mean0 c0,
  is_fin mean0 && is_fin c0 = false ->
  bad (kahan_inc ovf inc (fmul ovf q mean0) (fmul ovf q c0)).
Proof.
  intros inc q mean0 c0 H. apply kahan_inc_bad.
  apply andb_false_iff in H as [H|H]; apply andb_false_iff;
    [left | right]; now apply fmul_nonfin_r.
Qed.

Lemma incr_core_good : forall n x m c A, 1 <= n -> m + c == A ->
  let q := fdiv ovf (fz n) (fz (n + 1)) in
  let r := kahan_inc ovf (fdiv ovf (FFin x) (fz (n + 1))) (fmul ovf q (FFin m)) (fmul ovf q (FFin c)) in
  good r (A * (inject_Z n / inject_Z (n + 1)) + x / inject_Z (n + 1)) \/ bad r.
Proof.
  intros n x m c A Hn HA q r.
  assert (Hn1 : ~ inject_Z (n + 1) == 0) by (apply injZ_nonzero; lia).
  destruct (fin_dec q) as [[qq Hq]|Hq].
  2:{ right. subst r. apply kahan_inc_bad. apply andb_false_iff. left. now apply fmul_nonfin_l. }
  destruct (fin_dec (fdiv ovf (FFin x) (fz (n + 1)))) as [[i Hi]|Hi].
  2:{ right. subst r. now apply kahan_inc_bad_inc. }
  destruct (fin_dec (fmul ovf q (FFin m))) as [[a Ha]|Ha].
  2:{ right. subst r. apply kahan_inc_bad. now rewrite Ha. }
  destruct (fin_dec (fmul ovf q (FFin c))) as [[b Hb]|Hb].
  2:{ right. subst r. apply kahan_inc_bad. rewrite Hb. apply andb_false_r. }
  subst r. rewrite Hi, Ha, Hb.
  assert (Hg : good (FFin a, FFin b) (a + b)) by (exists a, b; split; reflexivity).
  destruct (kahan_inc_good i _ _ Hg) as [Hg'|Hb']; cbn [fst snd] in *; [left | now right].
  eapply good_eq; [exact Hg'|].
  rewrite Hq in Ha, Hb. apply fmul_fin in Ha, Hb.
  unfold q in Hq. unfold fz in Hq, Hi. apply fdiv_fin in Hq; [|assumption]. apply fdiv_fin in Hi; [|assumption].
  rewrite Ha, Hb, Hi, Hq, <- HA. field. assumption.
Qed.

Definition avg_good (st : avgst) (n : Z) (S : Q) : Prop :=
  a_cnt st = n /\
  ((a_incr st = false /\ exists t c, a_val st = FFin t /\ a_c st = FFin c /\ t + c == S) \/
   (a_incr st = true /\ exists m c, a_mean st = FFin m /\ a_c st = FFin c /\ m + c == S / inject_Z n)).
Definition avg_bad (st : avgst) (n : Z) : Prop :=
  a_cnt st = n /\
  ((a_incr st = false /\ is_fin (a_val st) && is_fin (a_c st) = false) \/
   (a_incr st = true /\ is_fin (a_mean st) && is_fin (a_c st) = false)).

Lemma avg_step_bad : forall st n f, 1 <= n -> avg_bad st n -> avg_bad (avg_step ovf st f) (n + 1).
Proof.
  intros st n f Hn [Hc [[Hi Hb]|[Hi Hb]]]; unfold avg_step; rewrite Hi, Hc.
  - pose proof (kahan_inc_bad f _ _ Hb) as Hk.
    destruct (is_inf (fst (kahan_inc ovf f (a_val st) (a_c st)))).
    + split; [reflexivity|]. right. split; [reflexivity|]. cbn [a_mean a_c].
      replace (n + 1 - 1) with n by lia.
      apply incr_core_bad.
      apply andb_false_iff in Hb as [Hb|Hb]; apply andb_false_iff; [left | right];
        now apply fdiv_nonfin_l.
    + split; [reflexivity|]. left. split; [reflexivity|]. exact Hk.
  - split; [reflexivity|]. right. split; [reflexivity|]. cbn [a_mean a_c].
    now apply incr_core_bad.
Qed.

Lemma avg_step_good : forall st n S x, 1 <= n -> avg_good st n S ->
  avg_good (avg_step ovf st (FFin x)) (n + 1) (S + x) \/ avg_bad (avg_step ovf st (FFin x)) (n + 1).
Proof.
  intros st n S x Hn [Hc [[Hi [t [c [Hv [Hcc HS]]]]]|[Hi [m [c [Hm [Hcc HS]]]]]]];
    unfold avg_step; rewrite Hi, Hc.
  - rewrite Hv, Hcc.
    assert (Hg : good (FFin t, FFin c) S) by (exists t, c; split; [reflexivity | assumption]).
    destruct (is_inf (fst (kahan_inc ovf (FFin x) (FFin t) (FFin c)))) eqn:Einf.
    + replace (n + 1 - 1) with n by lia.
      assert (Hnz : ~ inject_Z n == 0) by (now apply injZ_nonzero).
      destruct (fin_dec (fdiv ovf (FFin t) (fz n))) as [[m0 Hm0]|Hm0].
      2:{ right. split; [reflexivity|]. right. split; [reflexivity|]. cbn [a_mean a_c].
          apply incr_core_bad. now rewrite Hm0. }
      destruct (fin_dec (fdiv ovf (FFin c) (fz n))) as [[c0 Hc0]|Hc0].
      2:{ right. split; [reflexivity|]. right. split; [reflexivity|]. cbn [a_mean a_c].
          apply incr_core_bad. rewrite Hc0. apply andb_false_r. }
      rewrite Hm0, Hc0.
      unfold fz in Hm0, Hc0. apply fdiv_fin in Hm0; [|assumption]. apply fdiv_fin in Hc0; [|assumption].
      assert (HA : m0 + c0 == S / inject_Z n) by (rewrite Hm0, Hc0, <- HS; field; assumption).
      destruct (incr_core_good n x m0 c0 _ Hn HA) as [[t' [c' [Hr Ht']]]|Hb].
      * left. split; [reflexivity|]. right. split; [reflexivity|]. cbn [a_mean a_c].
        exists t', c'. rewrite Hr. cbn [fst snd]. repeat split.
        rewrite Ht'. field. split; [apply injZ_nonzero; lia | assumption].
      * right. split; [reflexivity|]. right. split; [reflexivity|]. exact Hb.
    + destruct (kahan_inc_good x _ _ Hg) as [[t' [c' [Hr Ht']]]|Hb]; cbn [fst snd] in *.
      * left. split; [reflexivity|]. left. split; [reflexivity|]. cbn [a_val a_c].
        exists t', c'. rewrite Hr. cbn [fst snd]. repeat split. assumption.
      * right. split; [reflexivity|]. left. split; [reflexivity|]. exact Hb.
  - rewrite Hm, Hcc. replace (n + 1 - 1) with n by lia.
    destruct (incr_core_good n x m c _ Hn HS) as [[t' [c' [Hr Ht']]]|Hb].
    + left. split; [reflexivity|]. right. split; [reflexivity|]. cbn [a_mean a_c].
      exists t', c'. rewrite Hr. cbn [fst snd]. repeat split.
      rewrite Ht'. field. split; [apply injZ_nonzero; lia | now apply injZ_nonzero].
    + right. split; [reflexivity|]. right. split; [reflexivity|]. exact Hb.
Qed.

Lemma avg_fold_bad : forall vs st n, 1 <= n -> avg_bad st n ->
  avg_bad (fold_left (avg_step ovf) vs st) (n + Z.of_nat (length vs)).
Proof.
  induction vs as [|v vs IH]; intros st n Hn H.
  - simpl. now rewrite Z.add_0_r.
  - cbn [fold_left length]. replace (n + Z.of_nat (S (length vs))) with ((n + 1) + Z.of_nat (length vs)) by lia.
    apply IH; [lia | now apply avg_step_bad].
Qed.

Lemma avg_fold_good : forall xs st n Sq, 1 <= n -> avg_good st n Sq ->
  avg_good (fold_left (avg_step ovf) (map FFin xs) st) (n + Z.of_nat (length xs)) (Sq + qsum xs) \/
  avg_bad (fold_left (avg_step ovf) (map FFin xs) st) (n + Z.of_nat (length xs)).
Proof.
  induction xs as [|x xs IH]; intros st n Sq Hn H.
  - simpl. rewrite Z.add_0_r. left. destruct H as [Hc H]. split; [assumption|].
    destruct H as [[Hi [t [c [Hv [Hcc HS]]]]]|[Hi [m [c [Hm [Hcc HS]]]]]].
    + left. split; [assumption|]. exists t, c. repeat split; try assumption. rewrite HS. ring.
    + right. split; [assumption|]. exists m, c. repeat split; try assumption.
      rewrite HS. apply Qmult_comp; [ring | reflexivity].
  - cbn [map fold_left length].
    replace (n + Z.of_nat (S (length xs))) with ((n + 1) + Z.of_nat (length xs)) by lia.
    destruct (avg_step_good st n Sq x Hn H) as [Hg|Hb].
    + assert (Hn' : 1 <= n + 1) by lia.
      destruct (IH _ _ _ Hn' Hg) as [Hg'|Hb'].
      * left. destruct Hg' as [Hc Hg']. split; [assumption|].
        destruct Hg' as [[Hi [t [c [Hv [Hcc HS]]]]]|[Hi [m [c [Hm [Hcc HS]]]]]].
        -- left. split; [assumption|]. exists t, c. repeat split; try assumption. rewrite HS. simpl. ring.
        -- right. split; [assumption|]. exists m, c. repeat split; try assumption.
           rewrite HS. apply Qmult_comp; [simpl; ring | reflexivity].
      * now right.
    + right. rewrite <- (map_length FFin xs). apply avg_fold_bad; [lia | assumption].
Qed.

Lemma agg_avg_exact : forall x xs r,
  agg_avg ovf (FFin x) (map FFin xs) = FFin r -> r == qmean (x :: xs).
Proof.
  intros x xs r H. unfold agg_avg in H.
  assert (Hg : avg_good (avg_init (FFin x)) 1 x).
  { split; [reflexivity|]. left. split; [reflexivity|]. exists x, 0%Q. repeat split. ring. }
  set (st := fold_left (avg_step ovf) (map FFin xs) (avg_init (FFin x))) in *.
  assert (Hlen : qlen (x :: xs) == inject_Z (1 + Z.of_nat (length xs))).
  { unfold qlen. cbn [length]. rewrite Nat2Z.inj_succ. replace (Z.succ (Z.of_nat (length xs))) with (1 + Z.of_nat (length xs)) by lia. reflexivity. }
  assert (Hnz : ~ inject_Z (1 + Z.of_nat (length xs)) == 0) by (apply injZ_nonzero; lia).
  unfold qmean. rewrite Hlen. cbn [qsum fold_right]. fold (qsum xs).
  destruct (avg_fold_good xs _ 1 x (Z.le_refl 1) Hg) as [[Hc Hgood]|[Hc Hbad]]; fold st in Hc, Hgood || fold st in Hc, Hbad.
  - unfold avg_final in H.
    destruct Hgood as [[Hi [t [c [Hv [Hcc HS]]]]]|[Hi [m [c [Hm [Hcc HS]]]]]]; rewrite Hi in H.
    + rewrite Hv, Hcc, Hc in H.
      apply fadd_fin_inv in H as [a [b [Ha [Hb Hr]]]].
      unfold fz in Ha, Hb. apply fdiv_fin in Ha; [|assumption]. apply fdiv_fin in Hb; [|assumption].
      rewrite Hr, Ha, Hb, <- HS. field. assumption.
    + rewrite Hm, Hcc in H. apply fadd_fin in H. rewrite H, HS. reflexivity.
  - exfalso. unfold avg_final in H.
    destruct Hbad as [[Hi Hb]|[Hi Hb]]; rewrite Hi in H; apply andb_false_iff in Hb as [Hb|Hb].
    + pose proof (fadd_nonfin_l _ (fdiv ovf (a_c st) (FFin (inject_Z (a_cnt st)))) (fdiv_nonfin_l _ (inject_Z (a_cnt st)) Hb)) as Hn.
      unfold fz in H. rewrite H in Hn. discriminate.
    + pose proof (fadd_nonfin_r (fdiv ovf (a_val st) (FFin (inject_Z (a_cnt st)))) _ (fdiv_nonfin_l _ (inject_Z (a_cnt st)) Hb)) as Hn.
      unfold fz in H. rewrite H in Hn. discriminate.
    + pose proof (fadd_nonfin_l _ (a_c st) Hb) as Hn. rewrite H in Hn. discriminate.
    + pose proof (fadd_nonfin_r (a_mean st) _ Hb) as Hn. rewrite H in Hn. discriminate.
Qed.
End Arith.

(* ------------------------------------------------------------------ set operators *)
Lemma mem_labels_map : forall {A} (f : A -> labels) x l,
  mem_labels x (map f l) = existsb (fun t => labels_eqb x (f t)) l.
Proof. intros A f x l. unfold mem_labels. induction l as [|a l IH]; simpl; [reflexivity | now rewrite IH]. Qed.

Lemma filter_false : forall {A} (l : list A), filter (fun _ => false) l = [].
Proof. induction l; simpl; auto. Qed.

Lemma filter_true : forall {A} (l : list A), filter (fun _ => true) l = l.
Proof. induction l; simpl; [reflexivity | now f_equal]. Qed.

(* VectorAnd / VectorOr / VectorUnless (including their empty-operand short-circuits) compute
   exactly the documented set operations on join signatures *)
Lemma vector_set_spec : forall op on names lhs rhs,
  vector_set op on names lhs rhs = check_same (spec_set op on names lhs rhs).
Proof.
  intros op on names lhs rhs. unfold vector_set, spec_set. f_equal.
  destruct op.
  - destruct lhs as [|l lhs]; [reflexivity|]. destruct rhs as [|r rhs].
    + simpl existsb. now rewrite filter_false.
    + apply filter_ext. intro s. apply mem_labels_map.
  - destruct lhs as [|l lhs].
    + simpl. now rewrite filter_true.
    + destruct rhs as [|r rhs]; [simpl; now rewrite app_nil_r|].
      f_equal. apply filter_ext. intro s. f_equal. apply mem_labels_map.
  - destruct lhs as [|l lhs]; [reflexivity|]. destruct rhs as [|r rhs].
    + simpl existsb. simpl negb. now rewrite filter_true.
    + apply filter_ext. intro s. f_equal. apply mem_labels_map.
Qed.

(* ------------------------------------------------------------------ counts *)
Lemma agg_count_exact : forall ovf param (vals : list fval),
  vals <> [] ->
  agg_value ovf ACount param vals = fz (Z.of_nat (length vals)) /\
  agg_value ovf AGroup param vals = f1.
Proof. intros ovf param [|v vals] H; [contradiction | split; reflexivity]. Qed.

(* ------------------------------------------------------------------ vector matching *)
Section Binop.
Variable ovf : Q -> bool.

(* the rightSigs map: built only if no two right-hand series share a signature, and then it
   lists the right-hand series with their signatures, in order *)
Lemma assoc_labels_None : forall {A} k (l : list (labels * A)),
  assoc_labels k l = None <-> ~ In k (map fst l).
Proof.
  intros A k l. induction l as [|[k' a] l IH]; simpl; [tauto|].
  destruct (labels_eqb k k') eqn:E.
  - apply labels_eqb_eq in E. subst. split; [discriminate | intro H; exfalso; apply H; now left].
  - apply labels_eqb_neq in E. rewrite IH. split; [intros H [H1|H1]; [congruence | contradiction] | tauto].
Qed.

Lemma assoc_labels_Some_In : forall {A} k (l : list (labels * A)) a,
  assoc_labels k l = Some a -> In k (map fst l).
Proof.
  intros A k l a. induction l as [|[k' a'] l IH]; simpl; [discriminate|].
  destruct (labels_eqb k k') eqn:E.
  - apply labels_eqb_eq in E. subst. intros _. now left.
  - intro H. right. now apply IH.
Qed.

Lemma build_right_spec : forall sigf rhs acc rmap,
  build_right sigf rhs acc = Some rmap ->
  NoDup (map fst acc) ->
  rmap = acc ++ map (fun r : sample => (sigf (fst r), r)) rhs /\ NoDup (map fst rmap).
Proof.
  induction rhs as [|r rhs IH]; intros acc rmap H Hnd; simpl in H.
  - inversion H; subst. rewrite app_nil_r. now split.
  - destruct (assoc_labels (sigf (fst r)) acc) eqn:E; [discriminate|].
    apply assoc_labels_None in E.
    apply IH in H.
    + destruct H as [H1 H2]. split; [|assumption]. rewrite H1, <- app_assoc. reflexivity.
    + rewrite map_app. simpl.
      apply NoDup_rev in Hnd. rewrite <- (rev_involutive (map fst acc ++ [sigf (fst r)])).
      apply NoDup_rev. rewrite rev_app_distr. simpl. constructor; [now rewrite <- in_rev | assumption].
Qed.

Lemma build_right_None : forall sigf rhs acc,
  build_right sigf rhs acc = None ->
  has_dup_labels (map fst acc ++ map (fun r : sample => sigf (fst r)) rhs) = true.
Proof.
  induction rhs as [|r rhs IH]; intros acc H; simpl in H; [discriminate|].
  destruct (assoc_labels (sigf (fst r)) acc) eqn:E.
  - clear H IH. assert (Hin : In (sigf (fst r)) (map fst acc)) by (eapply assoc_labels_Some_In; exact E).
    clear E. induction acc as [|[k a] acc IHa]; [destruct Hin|]. simpl in *.
    destruct Hin as [Hk|Hk].
    + subst k. apply orb_true_iff. left. apply mem_labels_In. apply in_or_app. right. now left.
    + apply orb_true_iff. right. now apply IHa.
  - apply IH in H. rewrite map_app in H. simpl in H. now rewrite <- app_assoc in H.
Qed.

(* in a duplicate-free association list built from the right-hand side, the lookup finds
   exactly the right-hand series with that signature *)
Lemma assoc_filter : forall (sigf : labels -> labels) sg (rhs : list sample),
  NoDup (map (fun r : sample => sigf (fst r)) rhs) ->
  filter (fun r : sample => labels_eqb sg (sigf (fst r))) rhs =
  match assoc_labels sg (map (fun r : sample => (sigf (fst r), r)) rhs) with
  | Some r => [r] | None => [] end.
Proof.
  induction rhs as [|r rhs IH]; intro Hnd; [reflexivity|]. simpl in *.
  inversion Hnd as [|? ? Hnot Hnd']; subst.
  destruct (labels_eqb sg (sigf (fst r))) eqn:E.
  - apply labels_eqb_eq in E. subst sg. f_equal.
    clear -Hnot. induction rhs as [|a rhs IHr]; [reflexivity|]. simpl in *.
    destruct (labels_eqb (sigf (fst r)) (sigf (fst a))) eqn:E.
    + apply labels_eqb_eq in E. exfalso. apply Hnot. now left.
    + apply IHr. tauto.
  - now apply IH.
Qed.

(* documented output of one left-hand element, given the right-hand lookup *)
Definition doc_out (op : bop) (rb : bool) (m : matching) (sigf : labels -> labels)
           (rmap : list (labels * sample)) (ls : sample) : list sample :=
  match assoc_labels (sigf (fst ls)) rmap with
  | None => []
  | Some rs =>
      let x := spec_pair_out ovf op rb m (ls, rs) in
      if snd x then [(snd (fst (fst x)), snd (fst x))] else []
  end.

Lemma do_binop_out : forall op rb m st ls rs sg st',
  m_card m <> OneToMany ->
  do_binop ovf op rb m st ls rs sg = inr st' ->
  b_out st' = b_out st ++
    (let x := spec_pair_out ovf op rb m (ls, rs) in
     if snd x then [(snd (fst (fst x)), snd (fst x))] else []).
Proof.
  intros op rb m st ls rs sg st' Hcard H. unfold do_binop in H. unfold spec_pair_out. cbn [fst snd].
  destruct (m_card m) eqn:Ec; try contradiction.
  - destruct (mem_labels sg (b_matched1 st)); [discriminate|]. cbn [b_out b_matched1 b_matchedN] in H.
    destruct (snd (elem_binop ovf op (snd ls) (snd rs))) eqn:Ek; destruct rb; cbn [negb andb orb] in *;
      inversion H; subst; cbn [b_out]; try reflexivity; now rewrite app_nil_r.
  - destruct (mem_labels _ _); [discriminate|]. cbn [b_out b_matched1 b_matchedN] in H.
    destruct (snd (elem_binop ovf op (snd ls) (snd rs))) eqn:Ek; destruct rb; cbn [negb andb orb] in *;
      inversion H; subst; cbn [b_out]; try reflexivity; now rewrite app_nil_r.
Qed.

Lemma lhs_loop_out : forall op rb m sigf rmap lhs st st',
  m_card m <> OneToMany ->
  lhs_loop ovf op rb m sigf rmap None lhs st = inr st' ->
  b_out st' = b_out st ++ flat_map (doc_out op rb m sigf rmap) lhs.
Proof.
  induction lhs as [|ls lhs IH]; intros st st' Hcard H; simpl in H.
  - inversion H. now rewrite app_nil_r.
  - cbn [flat_map]. unfold doc_out at 1.
    destruct (assoc_labels (sigf (fst ls)) rmap) as [rs|] eqn:E.
    + destruct (do_binop ovf op rb m st ls rs (sigf (fst ls))) as [e|st1] eqn:Ed; [discriminate|].
      apply IH in H; [|assumption]. rewrite H, (do_binop_out _ _ _ _ _ _ _ _ Hcard Ed), <- app_assoc.
      reflexivity.
    + apply IH in H; [|assumption]. rewrite H. reflexivity.
Qed.

(* One-to-one and group_left matching without fill modifiers: whenever the engine returns a
   vector it is exactly the documented one — one element per pair (l, r) of equal signature,
   in left-hand order, with the documented labels and value, comparison-filtered — and the
   right-hand side then has no two series with the same signature (unless an operand is
   empty). *)
Lemma vector_binop_pairs : forall op rb m lhs rhs out,
  m_card m <> OneToMany -> m_fill_l m = None -> m_fill_r m = None ->
  vector_binop ovf op rb m lhs rhs = RVec out ->
  out = spec_binop_out ovf op rb m lhs rhs /\
  has_dup_labels (map fst out) = false /\
  (lhs = [] \/ rhs = [] \/
   NoDup (map (fun r : sample => signature (m_on m) (m_labels m) (fst r)) rhs)).
Proof.
  intros op rb m lhs rhs out Hcard Hfl Hfr H. unfold vector_binop in H. rewrite Hfl, Hfr in H.
  assert (Hspec0 : forall l r : list sample, l = [] \/ r = [] -> spec_binop_out ovf op rb m l r = []).
  { intros l r [Hl|Hr]; unfold spec_binop_out, spec_pairs; rewrite Hfl, Hfr; subst.
    - reflexivity.
    - simpl. rewrite !app_nil_r. induction l as [|a l IHl]; [reflexivity|]. simpl. exact IHl. }
  destruct lhs as [|l0 lhs].
  { cbn in H. destruct rhs; cbn in H; inversion H; subst; (split; [symmetry; apply Hspec0; now left | split; [reflexivity | now left]]). }
  destruct rhs as [|r0 rhs].
  { cbn in H. inversion H; subst. split; [symmetry; apply Hspec0; now right | split; [reflexivity | right; now left]]. }
  cbn [andb orb] in H.
  replace (match m_card m with OneToMany => true | _ => false end) with false in H
    by (destruct (m_card m); [reflexivity | reflexivity | contradiction]).
  set (sigf := signature (m_on m) (m_labels m)) in *.
  destruct (build_right sigf (r0 :: rhs) []) as [rmap|] eqn:Eb; [|discriminate].
  apply build_right_spec in Eb; [|constructor]. destruct Eb as [Hrmap Hnd]. cbn [app] in Hrmap.
  destruct (lhs_loop ovf op rb m sigf rmap None (l0 :: lhs) (mkBst [] [] [])) as [e|st] eqn:El; [discriminate|].
  apply lhs_loop_out in El; [|assumption]. cbn [b_out app] in El.
  unfold check_same in H. destruct (has_dup_labels (map fst (b_out st))) eqn:Ed; [discriminate|].
  inversion H; subst out. clear H.
  assert (Hnd' : NoDup (map (fun r : sample => sigf (fst r)) (r0 :: rhs))).
  { rewrite Hrmap in Hnd. cbn [app] in Hnd. rewrite map_map in Hnd. exact Hnd. }
  split; [|split; [assumption | right; right; exact Hnd']].
  rewrite El. unfold spec_binop_out, spec_pairs. rewrite Hfl, Hfr, !app_nil_r.
  generalize (l0 :: lhs). intro ll. induction ll as [|a ll IHl]; [reflexivity|].
  cbn [flat_map map]. rewrite map_app, flat_map_app. f_equal; [|exact IHl].
  unfold doc_out. fold sigf. rewrite (assoc_filter sigf (sigf (fst a)) (r0 :: rhs) Hnd'), <- Hrmap.
  destruct (assoc_labels (sigf (fst a)) rmap); cbn [map flat_map]; [now rewrite app_nil_r | reflexivity].
Qed.

Lemma do_binop_err : forall op rb m st ls rs sg e,
  do_binop ovf op rb m st ls rs sg = inl e -> e = ErrManyToOne \/ e = ErrGroupUnique.
Proof.
  intros op rb m st ls rs sg e H. unfold do_binop in H.
  destruct (m_card m); destruct (mem_labels _ _);
    try (inversion H; subst; tauto);
    destruct (negb _ && negb _); discriminate.
Qed.

(* the many-to-many error is raised only if two series of the "one" side share a signature *)
Lemma vector_binop_dup_error : forall op rb m lhs rhs,
  m_card m <> OneToMany ->
  vector_binop ovf op rb m lhs rhs = RErr ErrDupRight ->
  has_dup_labels (map (fun r : sample => signature (m_on m) (m_labels m) (fst r)) rhs) = true.
Proof.
  intros op rb m lhs rhs Hcard H. unfold vector_binop in H.
  destruct (_ || _); [discriminate|].
  replace (match m_card m with OneToMany => true | _ => false end) with false in H
    by (destruct (m_card m); [reflexivity | reflexivity | contradiction]).
  destruct (build_right _ rhs []) eqn:Eb.
  - exfalso.
    assert (Hne : forall st0 fill ll e, lhs_loop ovf op rb m (signature (m_on m) (m_labels m)) l fill ll st0 = inl e -> e <> ErrDupRight).
    { intros st0 fill ll. revert st0. induction ll as [|a ll IHl]; intros st0 e He; simpl in He; [discriminate|].
      destruct (match assoc_labels _ l with Some rs => Some rs | None => _ end) as [rs|].
      - destruct (do_binop ovf op rb m st0 a rs _) as [e'|st1] eqn:Ed.
        + inversion He; subst. apply do_binop_err in Ed. destruct Ed; subst; discriminate.
        + now apply IHl in He.
      - now apply IHl in He. }
    assert (Hne2 : forall fv ll st0 e, rhs_fill_loop ovf op rb m (signature (m_on m) (m_labels m)) fv ll st0 = inl e -> e <> ErrDupRight).
    { intros fv ll. induction ll as [|a ll IHl]; intros st0 e He; simpl in He; [discriminate|].
      destruct (match m_card m with OneToOne => _ | _ => _ end).
      - now apply IHl in He.
      - destruct (do_binop ovf op rb m st0 _ a _) as [e'|st1] eqn:Ed.
        + inversion He; subst. apply do_binop_err in Ed. destruct Ed; subst; discriminate.
        + now apply IHl in He. }
    destruct (lhs_loop _ _ _ _ _ _ _ _ _) as [e|st] eqn:El.
    + inversion H; subst. now apply Hne in El.
    + destruct (m_fill_l m).
      * destruct (rhs_fill_loop _ _ _ _ _ _ _ _) as [e|st'] eqn:Er.
        -- inversion H; subst. now apply Hne2 in Er.
        -- unfold check_same in H. destruct (has_dup_labels _); discriminate.
      * unfold check_same in H. destruct (has_dup_labels _); discriminate.
  - apply build_right_None in Eb. exact Eb.
Qed.
End Binop.

(* ------------------------------------------------------------------ the order on float values *)
From Coq Require Import Lqa.

Lemma fcmp_opp : forall a b, fcmp b a = option_map CompOpp (fcmp a b).
Proof.
  intros [|[]|x] [|[]|y]; simpl; try reflexivity.
  now rewrite <- Qcompare_antisym.
Qed.

Lemma fgt_flt : forall a b, fgt a b = flt b a.
Proof. intros a b. unfold fgt, flt. rewrite (fcmp_opp a b). now destruct (fcmp a b) as [[]|]. Qed.
Lemma fge_fle : forall a b, fge a b = fle b a.
Proof. intros a b. unfold fge, fle. rewrite (fcmp_opp a b). now destruct (fcmp a b) as [[]|]. Qed.

Lemma fle_refl : forall a, is_nan a = false -> fle a a = true.
Proof.
  intros [|[]|x] H; try discriminate; try reflexivity.
  unfold fle, fcmp. destruct (Qcompare_spec x x); try reflexivity; lra.
Qed.

Lemma fle_nonnan : forall a b, fle a b = true -> is_nan a = false /\ is_nan b = false.
Proof. intros [|[]|x] [|[]|y] H; try discriminate; now split. Qed.
Lemma flt_nonnan : forall a b, flt a b = true -> is_nan a = false /\ is_nan b = false.
Proof. intros [|[]|x] [|[]|y] H; try discriminate; now split. Qed.

Lemma flt_fle : forall a b, flt a b = true -> fle a b = true.
Proof. intros a b. unfold flt, fle. now destruct (fcmp a b) as [[]|]. Qed.

Lemma fle_trans : forall a b c, fle a b = true -> fle b c = true -> fle a c = true.
Proof.
  intros [|[]|x] [|[]|y] [|[]|z]; try discriminate; try reflexivity.
  unfold fle, fcmp.
  destruct (Qcompare_spec x y), (Qcompare_spec y z), (Qcompare_spec x z); try easy; lra.
Qed.

Lemma not_flt_fle : forall a b, is_nan a = false -> is_nan b = false -> flt a b = false -> fle b a = true.
Proof.
  intros [|[]|x] [|[]|y]; try discriminate; try reflexivity.
  unfold flt, fle, fcmp. intros _ _.
  destruct (Qcompare_spec x y), (Qcompare_spec y x); try easy; lra.
Qed.

Lemma fle_total : forall a b, is_nan a = false -> is_nan b = false -> fle a b = true \/ fle b a = true.
Proof.
  intros a b Ha Hb. destruct (flt a b) eqn:E; [left; now apply flt_fle | right; now apply not_flt_fle].
Qed.

(* ---- MAX / MIN: the result is one of the values; as soon as one value is not NaN the result
   is not NaN and bounds every non-NaN value ---- *)
Lemma agg_max_spec : forall x xs,
  let r := agg_max x xs in
  In r (x :: xs) /\
  (forall y, In y (x :: xs) -> is_nan y = false -> is_nan r = false /\ fle y r = true).
Proof.
  intros x xs. unfold agg_max. revert x.
  induction xs as [|f xs IH] using rev_ind; intro x.
  - simpl. split; [now left|]. intros y [Hy|[]] Hn. subst. split; [assumption | now apply fle_refl].
  - rewrite fold_left_app. cbn [fold_left]. destruct (IH x) as [Hin Hb]. clear IH.
    set (cur := fold_left max_step xs x) in *.
    assert (Hsub : forall y, In y (x :: xs ++ [f]) <-> In y (x :: xs) \/ y = f).
    { intro y. simpl. rewrite in_app_iff. simpl. intuition congruence. }
    unfold max_step. destruct (flt cur f || is_nan cur) eqn:E.
    + split; [apply Hsub; now right|]. intros y Hy Hn. apply Hsub in Hy as [Hy|Hy].
      * destruct (Hb y Hy Hn) as [Hc Hle]. rewrite Hc, orb_false_r in E.
        destruct (flt_nonnan _ _ E) as [_ Hf]. split; [assumption|].
        eapply fle_trans; [exact Hle | now apply flt_fle].
      * subst y. split; [assumption | now apply fle_refl].
    + apply orb_false_iff in E as [E1 E2].
      split; [apply Hsub; now left|]. intros y Hy Hn. apply Hsub in Hy as [Hy|Hy].
      * now apply Hb.
      * subst y. split; [assumption | now apply not_flt_fle].
Qed.

Lemma agg_min_spec : forall x xs,
  let r := agg_min x xs in
  In r (x :: xs) /\
  (forall y, In y (x :: xs) -> is_nan y = false -> is_nan r = false /\ fle r y = true).
Proof.
  intros x xs. unfold agg_min. revert x.
  induction xs as [|f xs IH] using rev_ind; intro x.
  - simpl. split; [now left|]. intros y [Hy|[]] Hn. subst. split; [assumption | now apply fle_refl].
  - rewrite fold_left_app. cbn [fold_left]. destruct (IH x) as [Hin Hb]. clear IH.
    set (cur := fold_left min_step xs x) in *.
    assert (Hsub : forall y, In y (x :: xs ++ [f]) <-> In y (x :: xs) \/ y = f).
    { intro y. simpl. rewrite in_app_iff. simpl. intuition congruence. }
    unfold min_step. rewrite fgt_flt. destruct (flt f cur || is_nan cur) eqn:E.
    + split; [apply Hsub; now right|]. intros y Hy Hn. apply Hsub in Hy as [Hy|Hy].
      * destruct (Hb y Hy Hn) as [Hc Hle]. rewrite Hc, orb_false_r in E.
        destruct (flt_nonnan _ _ E) as [Hf _]. split; [assumption|].
        eapply fle_trans; [apply flt_fle; exact E | exact Hle].
      * subst y. split; [assumption | now apply fle_refl].
    + apply orb_false_iff in E as [E1 E2].
      split; [apply Hsub; now left|]. intros y Hy Hn. apply Hsub in Hy as [Hy|Hy].
      * now apply Hb.
      * subst y. split; [assumption | now apply not_flt_fle].
Qed.

(* ------------------------------------------------------------------ topk / bottomk *)
From Coq Require Import Sorted.

Section TopK.
Variable ge : fval -> fval -> bool.       (* documented order: [ge a b] = a is at least as good as b *)
Variable less : fval -> fval -> bool.     (* the heap's Less *)
Variable better : fval -> fval -> bool.   (* the replacement test of the series loop *)
Variable before : fval -> fval -> bool.   (* the final sort *)
Hypothesis ge_total : forall a b, ge a b = true \/ ge b a = true.
Hypothesis ge_trans : forall a b c, ge a b = true -> ge b c = true -> ge a c = true.
Hypothesis less_strict : forall a b, less a b && negb (less b a) = negb (ge a b).
Hypothesis better_strict : forall m s, better m s = negb (ge m s).
Hypothesis before_strict : forall a b, before a b && negb (before b a) = negb (ge b a).

Lemma ge_refl : forall a, ge a a = true.
Proof. intro a. now destruct (ge_total a a). Qed.

Lemma not_ge_ge : forall a b, ge a b = false -> ge b a = true.
Proof. intros a b H. destruct (ge_total a b) as [H'|H']; [congruence | assumption]. Qed.

Definition gk_step (k : Z) (heap : list sample) (s : sample) : list sample :=
  if Z.of_nat (length heap) <? k then heap ++ [s]
  else match heap with
       | [] => heap
       | h0 :: r =>
           let mi := min_index less O (snd h0) 1%nat r in
           let m := snd (nth mi heap h0) in
           if better m (snd s) then replace_nth mi s heap else heap
       end.

Lemma min_index_spec : forall l pre best bv d,
  (best < length pre)%nat -> snd (nth best pre d) = bv ->
  (forall s, In s pre -> ge (snd s) bv = true) ->
  let j := min_index less best bv (length pre) l in
  (j < length (pre ++ l))%nat /\
  forall s, In s (pre ++ l) -> ge (snd s) (snd (nth j (pre ++ l) d)) = true.
Proof.
  induction l as [|s l IH]; intros pre best bv d Hb Hv Hall; simpl.
  - rewrite app_nil_r. split; [assumption|]. intros s Hs. rewrite Hv. now apply Hall.
  - destruct (less (snd s) bv && negb (less bv (snd s))) eqn:E.
    + rewrite less_strict in E. apply negb_true_iff in E. apply not_ge_ge in E.
      replace (pre ++ s :: l) with ((pre ++ [s]) ++ l) by (now rewrite <- app_assoc).
      replace (S (length pre)) with (length (pre ++ [s])) by (rewrite app_length; simpl; lia).
      apply IH.
      * rewrite app_length. simpl. lia.
      * rewrite app_nth2, Nat.sub_diag; [reflexivity | lia].
      * intros s' Hs'. apply in_app_iff in Hs' as [Hs'|[Hs'|[]]].
        -- eapply ge_trans; [now apply Hall | exact E].
        -- subst. apply ge_refl.
    + rewrite less_strict in E. apply negb_false_iff in E.
      replace (pre ++ s :: l) with ((pre ++ [s]) ++ l) by (now rewrite <- app_assoc).
      replace (S (length pre)) with (length (pre ++ [s])) by (rewrite app_length; simpl; lia).
      apply IH.
      * rewrite app_length. simpl. lia.
      * rewrite app_nth1; assumption.
      * intros s' Hs'. apply in_app_iff in Hs' as [Hs'|[Hs'|[]]]; [now apply Hall | now subst].
Qed.

Lemma replace_nth_app : forall {A} (l1 : list A) x s l2,
  replace_nth (length l1) s (l1 ++ x :: l2) = l1 ++ s :: l2.
Proof. induction l1 as [|a l1 IH]; intros; simpl; [reflexivity | now rewrite IH]. Qed.

Definition kinv (k : Z) (seen heap : list sample) : Prop :=
  exists rest, Permutation seen (heap ++ rest) /\
               Z.of_nat (length heap) = Z.min k (Z.of_nat (length seen)) /\
               forall s u, In s heap -> In u rest -> ge (snd s) (snd u) = true.

Lemma gk_step_inv : forall k seen heap s, 1 <= k ->
  kinv k seen heap -> kinv k (seen ++ [s]) (gk_step k heap s).
Proof.
  intros k seen heap s Hk [rest [Hp [Hl Hge]]]. unfold gk_step.
  assert (Hlen := Permutation_length Hp). rewrite app_length in Hlen.
  destruct (Z.of_nat (length heap) <? k) eqn:E.
  - apply Z.ltb_lt in E.
    assert (Hr : rest = []) by (destruct rest; [reflexivity | simpl in Hlen; lia]).
    subst rest. exists []. rewrite app_nil_r in *. split; [now apply Permutation_app_tail|]. split.
    + rewrite !app_length. simpl. lia.
    + intros ? ? _ [].
  - apply Z.ltb_ge in E.
    destruct heap as [|h0 r]; [simpl in *; lia|].
    set (heap := h0 :: r) in *.
    destruct (min_index_spec r [h0] O (snd h0) h0) as [Hmi Hmin]; [simpl; lia | reflexivity | |].
    { intros s' [Hs'|[]]. subst. apply ge_refl. }
    cbn [length app] in Hmi, Hmin. fold heap in Hmi, Hmin.
    set (mi := min_index less 0 (snd h0) 1 r) in *.
    set (m := snd (nth mi heap h0)) in *.
    destruct (better m (snd s)) eqn:Eb.
    + rewrite better_strict in Eb. apply negb_true_iff in Eb. apply not_ge_ge in Eb.
      destruct (nth_split heap h0 Hmi) as [l1 [l2 [Hsplit Hl1]]].
      fold mi in Hl1. set (x := nth mi heap h0) in *.
      rewrite Hsplit, <- Hl1, replace_nth_app.
      exists (x :: rest). split; [|split].
      * rewrite Hsplit in Hp.
        apply Permutation_trans with (s :: seen); [apply Permutation_sym, Permutation_cons_append|].
        apply Permutation_trans with (s :: (x :: l1 ++ l2) ++ rest).
        { constructor. eapply Permutation_trans; [exact Hp|].
          apply Permutation_app_tail. apply Permutation_sym, Permutation_middle. }
        apply Permutation_trans with ((s :: l1 ++ l2) ++ x :: rest).
        { simpl. constructor. apply Permutation_middle. }
        apply Permutation_app_tail. apply Permutation_middle.
      * rewrite !app_length. cbn [length]. rewrite Hsplit, app_length in Hl, E. cbn [length] in Hl, E. lia.
      * intros s' u Hs' Hu.
        assert (Hs'' : s' = s \/ In s' heap).
        { apply in_app_iff in Hs' as [Hs'|[Hs'|Hs']]; [right | now left | right];
            rewrite Hsplit; apply in_app_iff; [now left | right; now right]. }
        destruct Hu as [Hu|Hu].
        -- subst u. destruct Hs'' as [Hs''|Hs'']; [subst s'; exact Eb | now apply Hmin].
        -- destruct Hs'' as [Hs''|Hs'']; [subst s' | now apply Hge].
           eapply ge_trans; [exact Eb|]. apply Hge; [|assumption].
           unfold x. apply nth_In. exact Hmi.
    + rewrite better_strict in Eb. apply negb_false_iff in Eb.
      exists (rest ++ [s]). split; [|split].
      * rewrite app_assoc. now apply Permutation_app_tail.
      * rewrite app_length. change (length [s]) with 1%nat. lia.
      * intros s' u Hs' Hu. apply in_app_iff in Hu as [Hu|[Hu|[]]]; [now apply Hge|].
        subst u. eapply ge_trans; [now apply Hmin | exact Eb].
Qed.

Lemma gk_fold_inv : forall k l seen heap, 1 <= k ->
  kinv k seen heap -> kinv k (seen ++ l) (fold_left (gk_step k) l heap).
Proof.
  induction l as [|s l IH]; intros seen heap Hk H; simpl.
  - now rewrite app_nil_r.
  - replace (seen ++ s :: l) with ((seen ++ [s]) ++ l) by (now rewrite <- app_assoc).
    apply IH; [assumption | now apply gk_step_inv].
Qed.

(* the final stable insertion sort *)
Definition sge (a b : sample) : Prop := ge (snd a) (snd b) = true.

Lemma insert_sample_perm : forall x l, Permutation (insert_sample before x l) (x :: l).
Proof.
  induction l as [|y l IH]; simpl; [reflexivity|].
  destruct (before (snd x) (snd y) && negb (before (snd y) (snd x))); [reflexivity|].
  eapply Permutation_trans; [apply perm_skip; exact IH | apply perm_swap].
Qed.

Lemma sort_samples_perm : forall l, Permutation (sort_samples before l) l.
Proof.
  induction l as [|x l IH]; simpl; [reflexivity|].
  eapply Permutation_trans; [apply insert_sample_perm | now constructor].
Qed.

Lemma insert_sample_sorted : forall x l, Sorted sge l -> Sorted sge (insert_sample before x l).
Proof.
  induction l as [|y l IH]; intro Hs; simpl; [repeat constructor|].
  destruct (before (snd x) (snd y) && negb (before (snd y) (snd x))) eqn:E.
  - rewrite before_strict in E. apply negb_true_iff in E. apply not_ge_ge in E.
    constructor; [assumption | constructor; exact E].
  - rewrite before_strict in E. apply negb_false_iff in E.
    inversion Hs as [|? ? Hs' Hhd]; subst. constructor; [now apply IH|].
    destruct l as [|z l]; simpl.
    + constructor. exact E.
    + destruct (before (snd x) (snd z) && negb (before (snd z) (snd x))); constructor;
        [exact E | now inversion Hhd].
Qed.

Lemma sort_samples_sorted : forall l, Sorted sge (sort_samples before l).
Proof. induction l as [|x l IH]; simpl; [constructor | now apply insert_sample_sorted]. Qed.

(* the selection made by the series loop followed by the final sort *)
Lemma gk_select : forall k members, 1 <= k ->
  let out := sort_samples before (fold_left (gk_step k) members []) in
  Sorted sge out /\
  Z.of_nat (length out) = Z.min k (Z.of_nat (length members)) /\
  exists rest, Permutation members (out ++ rest) /\
               forall s u, In s out -> In u rest -> ge (snd s) (snd u) = true.
Proof.
  intros k members Hk out.
  assert (H0 : kinv k [] []).
  { exists []. split; [reflexivity|]. split; [simpl; lia | intros ? ? []]. }
  apply (gk_fold_inv k members [] [] Hk) in H0. simpl in H0.
  destruct H0 as [rest [Hp [Hl Hge]]].
  assert (Hperm := sort_samples_perm (fold_left (gk_step k) members [])). fold out in Hperm.
  split; [apply sort_samples_sorted|]. split.
  - rewrite (Permutation_length Hperm). exact Hl.
  - exists rest. split.
    + eapply Permutation_trans; [exact Hp|]. apply Permutation_app_tail. now apply Permutation_sym.
    + intros s u Hs Hu. apply Hge; [|assumption]. eapply Permutation_in; [exact Hperm | exact Hs].
Qed.
End TopK.

(* ---- the hypotheses of the TopK section hold for topk and for bottomk ---- *)
Ltac ford :=
  repeat match goal with a : fval |- _ => destruct a as [|[|]|?] end;
  unfold topk_ge, topk_less, topk_before, botk_ge, botk_less, botk_before,
         fge, fle, flt, fgt, fcmp, is_nan; cbn;
  try reflexivity; try discriminate; auto;
  repeat match goal with |- context [(?x ?= ?y)%Q] => destruct (Qcompare_spec x y) end;
  cbn; try reflexivity; try discriminate; auto; try (exfalso; lra); try (intros; exfalso; lra).

Lemma topk_ge_total : forall a b, topk_ge a b = true \/ topk_ge b a = true.
Proof. intros a b. ford. Qed.
Lemma topk_ge_trans : forall a b c, topk_ge a b = true -> topk_ge b c = true -> topk_ge a c = true.
Proof. intros a b c. ford. Qed.
Lemma topk_less_strict : forall a b, topk_less a b && negb (topk_less b a) = negb (topk_ge a b).
Proof. intros a b. ford. Qed.
Definition topk_better (m s : fval) : bool := flt m s || (is_nan m && negb (is_nan s)).
Lemma topk_better_strict : forall m s, topk_better m s = negb (topk_ge m s).
Proof. intros m s. unfold topk_better. ford. Qed.
Lemma topk_before_strict : forall a b, topk_before a b && negb (topk_before b a) = negb (topk_ge b a).
Proof. intros a b. ford. Qed.

Lemma botk_ge_total : forall a b, botk_ge a b = true \/ botk_ge b a = true.
Proof. intros a b. ford. Qed.
Lemma botk_ge_trans : forall a b c, botk_ge a b = true -> botk_ge b c = true -> botk_ge a c = true.
Proof. intros a b c. ford. Qed.
Lemma botk_less_strict : forall a b, botk_less a b && negb (botk_less b a) = negb (botk_ge a b).
Proof. intros a b. ford. Qed.
Definition botk_better (m s : fval) : bool := fgt m s || (is_nan m && negb (is_nan s)).
Lemma botk_better_strict : forall m s, botk_better m s = negb (botk_ge m s).
Proof. intros m s. unfold botk_better. ford. Qed.
Lemma botk_before_strict : forall a b, botk_before a b && negb (botk_before b a) = negb (botk_ge b a).
Proof. intros a b. ford. Qed.

Lemma k_step_top : forall k heap s, k_step true k heap s = gk_step topk_less topk_better k heap s.
Proof. reflexivity. Qed.
Lemma k_step_bot : forall k heap s, k_step false k heap s = gk_step botk_less botk_better k heap s.
Proof. reflexivity. Qed.

Lemma fold_left_ext2 : forall {A B} (f g : A -> B -> A) l a,
  (forall a b, f a b = g a b) -> fold_left f l a = fold_left g l a.
Proof. intros A B f g l. induction l as [|b l IH]; intros a H; simpl; [reflexivity | rewrite H; now apply IH]. Qed.

(* topk / bottomk of one group: the output is sorted in the documented order (descending /
   ascending, NaN last), has min(k, |group|) elements, is a sub-multiset of the group, and
   every series left out is no better than every series selected *)
Lemma k_group_top : forall k members, 1 <= k ->
  let out := k_group ATopk k members in
  Sorted (fun a b : sample => topk_ge (snd a) (snd b) = true) out /\
  Z.of_nat (length out) = Z.min k (Z.of_nat (length members)) /\
  exists rest, Permutation members (out ++ rest) /\
               forall s u, In s out -> In u rest -> topk_ge (snd s) (snd u) = true.
Proof.
  intros k members Hk. unfold k_group.
  rewrite (fold_left_ext2 (k_step true k) (gk_step topk_less topk_better k) members [] (k_step_top k)).
  exact (gk_select topk_ge topk_less topk_better topk_before topk_ge_total topk_ge_trans
           topk_less_strict topk_better_strict topk_before_strict k members Hk).
Qed.

Lemma k_group_bot : forall k members, 1 <= k ->
  let out := k_group ABottomk k members in
  Sorted (fun a b : sample => botk_ge (snd a) (snd b) = true) out /\
  Z.of_nat (length out) = Z.min k (Z.of_nat (length members)) /\
  exists rest, Permutation members (out ++ rest) /\
               forall s u, In s out -> In u rest -> botk_ge (snd s) (snd u) = true.
Proof.
  intros k members Hk. unfold k_group.
  rewrite (fold_left_ext2 (k_step false k) (gk_step botk_less botk_better k) members [] (k_step_bot k)).
  exact (gk_select botk_ge botk_less botk_better botk_before botk_ge_total botk_ge_trans
           botk_less_strict botk_better_strict botk_before_strict k members Hk).
Qed.

(* ------------------------------------------------------------------ STDVAR (Welford) *)
Section Stdvar.
Variable ovf : Q -> bool.

Lemma fmul_fin_inv : forall a b r, fmul ovf a b = FFin r ->
  exists x y, a = FFin x /\ b = FFin y /\ r == x * y.
Proof.
  intros [| s | x] [| t | y] r H; simpl in H; try discriminate.
  - destruct (Qeq_bool y 0); discriminate.
  - destruct (Qeq_bool x 0); discriminate.
  - exists x, y. repeat split. now apply (rnd_fin ovf).
Qed.

Lemma fdiv_fin_inv : forall a y r, ~ y == 0 -> fdiv ovf a (FFin y) = FFin r ->
  exists x, a = FFin x /\ r == x / y.
Proof.
  intros [| s | x] y r Hy H; simpl in H; try discriminate.
  exists x. split; [reflexivity|]. now apply (fdiv_fin ovf x y r Hy).
Qed.

Definition qsq (l : list Q) : Q := qsum (map (fun x => x * x)%Q l).

Definition var_good (st : varst) (l : list Q) : Prop :=
  v_cnt st = Z.of_nat (length l) /\ 1 <= v_cnt st /\
  exists m q, v_mean st = FFin m /\ v_m2 st = FFin q /\
              m == qsum l / qlen l /\ q == qsq l - qsum l * qsum l / qlen l.

Lemma var_step_bad : forall st f, is_fin (v_m2 st) = false -> is_fin (v_m2 (var_step ovf st f)) = false.
Proof. intros st f H. unfold var_step. cbn [v_m2]. now apply fadd_nonfin_l. Qed.

Lemma var_fold_bad : forall vs st, is_fin (v_m2 st) = false ->
  is_fin (v_m2 (fold_left (var_step ovf) vs st)) = false.
Proof. induction vs as [|v vs IH]; intros st H; [assumption|]. simpl. apply IH. now apply var_step_bad. Qed.

Lemma qsum_app1 : forall l x, qsum (l ++ [x]) == qsum l + x.
Proof. induction l as [|a l IH]; intro x; simpl; [ring | rewrite IH; ring]. Qed.
Lemma qsq_app1 : forall l x, qsq (l ++ [x]) == qsq l + x * x.
Proof. intros l x. unfold qsq. rewrite map_app. simpl. apply qsum_app1. Qed.
Lemma qlen_app1 : forall l (x : Q), qlen (l ++ [x]) == qlen l + 1.
Proof.
  intros l x. unfold qlen. rewrite app_length. simpl.
  rewrite Nat2Z.inj_add. simpl. rewrite inject_Z_plus. reflexivity.
Qed.

Lemma var_step_good : forall st l x q',
  var_good st l -> v_m2 (var_step ovf st (FFin x)) = FFin q' ->
  var_good (var_step ovf st (FFin x)) (l ++ [x]).
Proof.
  intros st l x q' [Hc [H1 [m [q [Hm [Hq [Em Eq]]]]]]] H.
  unfold var_step in *. cbn [v_m2 v_cnt v_mean] in *. rewrite Hm, Hq in *.
  set (n := v_cnt st) in *.
  assert (Hn1 : ~ inject_Z (n + 1) == 0) by (apply injZ_nonzero; lia).
  assert (Hn : ~ inject_Z n == 0) by (apply injZ_nonzero; lia).
  assert (Hlen : qlen l == inject_Z n) by (unfold qlen; now rewrite <- Hc).
  assert (H0 := H).
  apply fadd_fin_inv in H as [q0 [p [Hq0 [Hp Hq']]]]. inversion Hq0; subst q0. clear Hq0.
  apply fmul_fin_inv in Hp as [d [e [Hd [He Hp]]]].
  assert (Hd' := Hd). apply fsub_fin_inv in Hd' as [x0 [m0 [Hx0 [Hm0 Hdv]]]].
  inversion Hx0; inversion Hm0; subst x0 m0. clear Hx0 Hm0.
  apply fsub_fin_inv in He as [x0 [m' [Hx0 [Hm' Hev]]]]. inversion Hx0; subst x0. clear Hx0.
  assert (Hm'0 := Hm'). rewrite Hd in Hm'.
  assert (Hm'' := Hm'). apply fadd_fin_inv in Hm'' as [m0 [dd [Hm0 [Hdd Hm'v]]]]. inversion Hm0; subst m0. clear Hm0.
  unfold fz in Hdd. apply fdiv_fin_inv in Hdd as [d0 [Hd0 Hddv]]; [|assumption]. inversion Hd0; subst d0. clear Hd0.
  unfold var_good. cbn [v_cnt v_mean v_m2]. fold n.
  split; [rewrite app_length; simpl; lia|]. split; [lia|].
  exists m', q'. split; [exact Hm'0|]. split; [exact H0|].
  rewrite qsum_app1, qsq_app1, qlen_app1, Hlen.
  assert (Hn1' : ~ inject_Z n + 1 == 0).
  { intro E. apply Hn1. rewrite inject_Z_plus. exact E. }
  split.
  - rewrite Hm'v, Hddv, Hdv, Em, Hlen, inject_Z_plus. field. split; assumption.
  - rewrite Hq', Hp, Hev, Hm'v, Hddv, Hdv, Eq, Em, Hlen, inject_Z_plus. field. split; assumption.
Qed.

Lemma var_fold_good : forall xs st l,
  var_good st l ->
  is_fin (v_m2 (fold_left (var_step ovf) (map FFin xs) st)) = true ->
  var_good (fold_left (var_step ovf) (map FFin xs) st) (l ++ xs).
Proof.
  induction xs as [|x xs IH]; intros st l Hg Hf; simpl in *.
  - now rewrite app_nil_r.
  - replace (l ++ x :: xs) with ((l ++ [x]) ++ xs) by (now rewrite <- app_assoc).
    destruct (fin_dec (v_m2 (var_step ovf st (FFin x)))) as [[q' Hq']|Hb].
    + apply IH; [|assumption]. eapply var_step_good; eassumption.
    + apply (var_fold_bad (map FFin xs)) in Hb. congruence.
Qed.

Lemma qsum_sq_shift : forall l c,
  qsum (map (fun x => (x - c) * (x - c))%Q l) == qsq l - (2 # 1) * c * qsum l + qlen l * c * c.
Proof.
  induction l as [|a l IH]; intro c.
  - unfold qsq, qlen. simpl. ring.
  - unfold qsq in *. cbn [map qsum fold_right]. fold (qsum (map (fun x => (x - c) * (x - c))%Q l)).
    fold (qsum (map (fun x => x * x)%Q l)). fold (qsum l). rewrite IH.
    assert (Hl : qlen (a :: l) == qlen l + 1).
    { unfold qlen. cbn [length]. rewrite Nat2Z.inj_succ. unfold Z.succ. rewrite inject_Z_plus. reflexivity. }
    rewrite Hl. ring.
Qed.

(* STDVAR: for finite inputs and every overflow oracle, a finite result is the population
   variance sum((x - mean)^2) / n *)
Lemma agg_stdvar_exact : forall x xs r,
  agg_stdvar ovf (FFin x) (map FFin xs) = FFin r -> r == qvar (x :: xs).
Proof.
  intros x xs r H. unfold agg_stdvar in H. cbv zeta in H.
  set (st := fold_left (var_step ovf) (map FFin xs) (var_init (FFin x))) in *.
  assert (Hg0 : var_good (var_init (FFin x)) [x]).
  { unfold var_init. cbn [is_nan is_inf orb]. split; [reflexivity|]. split; [cbn; lia|].
    exists x, 0%Q. cbn [v_mean v_m2]. repeat split; unfold qsq, qlen; simpl; field. }
  assert (Hfin : is_fin (v_m2 st) = true).
  { destruct (fin_dec (v_m2 st)) as [[q Hq]|Hb]; [now rewrite Hq|].
    pose proof (fdiv_nonfin_l ovf _ (inject_Z (v_cnt st)) Hb) as Hn. unfold fz in H. rewrite H in Hn. discriminate. }
  destruct (var_fold_good xs _ _ Hg0 Hfin) as [Hc [H1 [m [q [Hm [Hq [Em Eq]]]]]]]. fold st in Hc, H1, Hm, Hq.
  cbn [app] in *.
  assert (Hn : ~ inject_Z (v_cnt st) == 0) by (apply injZ_nonzero; lia).
  rewrite Hq in H. unfold fz in H. apply fdiv_fin in H; [|assumption].
  assert (Hlen : qlen (x :: xs) == inject_Z (v_cnt st)) by (unfold qlen; now rewrite <- Hc).
  unfold qvar. rewrite qsum_sq_shift. unfold qmean. rewrite H, Eq, Hlen. field. assumption.
Qed.
End Stdvar.

(* ------------------------------------------------------------------ vector / scalar *)
Lemma flat_map_ext' : forall {A B} (f g : A -> list B) l, (forall a, f a = g a) -> flat_map f l = flat_map g l.
Proof. intros A B f g l H. induction l as [|a l IH]; simpl; [reflexivity | now rewrite H, IH]. Qed.

Lemma vector_scalar_spec : forall ovf op rb swap sc v,
  (rb = true -> is_cmp op = true) ->   (* the parser rejects bool on arithmetic operators *)
  vector_scalar_binop ovf op rb swap sc v = check_same (spec_vs ovf op rb swap sc v).
Proof.
  intros ovf op rb swap sc v Hrb. unfold vector_scalar_binop, spec_vs. f_equal.
  apply flat_map_ext'. intros [l f].
  destruct op, rb, swap; try (specialize (Hrb eq_refl); discriminate); cbn [fst snd is_cmp changes_schema negb andb orb elem_binop];
    rewrite ?orb_true_r, ?orb_false_r, ?andb_true_r, ?andb_false_r; try reflexivity;
    repeat (match goal with |- context [if ?c then _ else _] => destruct c end); reflexivity.
Qed.

(* ------------------------------------------------------------------ count_values *)
Lemma filter_map_length : forall {A B} (f : A -> B) (p : B -> bool) l,
  length (filter p (map f l)) = length (filter (fun a => p (f a)) l).
Proof.
  intros A B f p l. induction l as [|a l IH]; simpl; [reflexivity|].
  destruct (p (f a)); simpl; now rewrite IH.
Qed.

(* every output series of count_values carries the exact number of input series whose
   value-labelled, projected label set it is; the count is never zero *)
Lemma count_values_exact : forall fmt wo g vl v out,
  agg_count_values fmt wo g vl v = RVec out ->
  let keyof (s : sample) := group_key wo (if wo then g else vl :: g) (lset vl (fmt (snd s)) (fst s)) in
  (forall s, In s v -> In (keyof s) (map fst out)) /\
  forall k c, In (k, c) out ->
    c = fz (Z.of_nat (length (filter (fun s => labels_eqb (keyof s) k) v))) /\
    (1 <= length (filter (fun s => labels_eqb (keyof s) k) v))%nat.
Proof.
  intros fmt wo g vl v out H keyof. unfold agg_count_values, check_same in H.
  set (g' := if wo then g else vl :: g) in *.
  set (withv := map (fun s : sample => lset vl (fmt (snd s)) (fst s)) v) in *.
  set (gs := groups_of (fun m : labels => group_key wo g' m) withv) in *.
  destruct (has_dup_labels _); [discriminate|]. inversion H; subst out. clear H.
  destruct (groups_of_partition (fun m : labels => group_key wo g' m) withv) as [_ [_ [Hcov Hmem]]].
  fold gs in Hcov, Hmem. split.
  - intros s Hs. rewrite map_map. cbn [fst].
    assert (Hin : In (lset vl (fmt (snd s)) (fst s)) withv)
      by (exact (in_map (fun s : sample => lset vl (fmt (snd s)) (fst s)) v s Hs)).
    apply Hcov in Hin. exact Hin.
  - intros k c Hin. apply in_map_iff in Hin as [[k' ms] [Heq Hin]]. cbn [fst snd] in Heq.
    inversion Heq; subst k' c. clear Heq.
    destruct (Hmem _ _ Hin) as [Hne Hms].
    assert (Hlen : length ms = length (filter (fun s => labels_eqb (keyof s) k) v)).
    { rewrite Hms. unfold withv. now rewrite filter_map_length. }
    split; [now rewrite Hlen|]. rewrite <- Hlen. destruct ms; [contradiction | simpl; lia].
Qed.

From Coq Require Import Qround.

(* ------------------------------------------------------------------ quantile *)
(* the order quantile() sorts by: NaN first, then ascending *)
Definition nf_le (a b : fval) : bool := is_nan a || (negb (is_nan b) && fle a b).

Lemma insert_by_perm : forall x l, Permutation (insert_by heap_less x l) (x :: l).
Proof.
  induction l as [|y l IH]; simpl; [reflexivity|].
  destruct (heap_less y x || negb (heap_less x y)); [|reflexivity].
  eapply Permutation_trans; [apply perm_skip; exact IH | apply perm_swap].
Qed.

Lemma heap_less_nf_le : forall a b, heap_less a b = true -> nf_le a b = true.
Proof.
  intros a b H. unfold heap_less, nf_le in *. destruct (is_nan a); [reflexivity|]. simpl in *.
  destruct (flt_nonnan _ _ H) as [_ Hb]. rewrite Hb. simpl. now apply flt_fle.
Qed.

Lemma not_heap_less_nf_le : forall a b, heap_less a b = false -> nf_le b a = true.
Proof.
  intros a b H. unfold heap_less, nf_le in *. apply orb_false_iff in H as [Ha Hlt].
  destruct (is_nan b) eqn:Hb; [reflexivity|]. rewrite Ha. simpl. now apply not_flt_fle.
Qed.

Lemma insert_by_sorted : forall x l,
  Sorted (fun a b => nf_le a b = true) l -> Sorted (fun a b => nf_le a b = true) (insert_by heap_less x l).
Proof.
  induction l as [|y l IH]; intro Hs; simpl; [repeat constructor|].
  destruct (heap_less y x || negb (heap_less x y)) eqn:E.
  - assert (Hyx : nf_le y x = true).
    { apply orb_true_iff in E as [E|E]; [now apply heap_less_nf_le|].
      apply negb_true_iff in E. now apply not_heap_less_nf_le. }
    inversion Hs as [|? ? Hs' Hhd]; subst. constructor; [now apply IH|].
    destruct l as [|z l]; simpl.
    + constructor. exact Hyx.
    + destruct (heap_less z x || negb (heap_less x z)); constructor; [now inversion Hhd | exact Hyx].
  - apply orb_false_iff in E as [_ E]. apply negb_false_iff in E.
    constructor; [assumption | constructor; now apply heap_less_nf_le].
Qed.

Lemma sort_by_snoc : forall l x, sort_by heap_less (l ++ [x]) = insert_by heap_less x (sort_by heap_less l).
Proof. intros. unfold sort_by. now rewrite fold_left_app. Qed.

Lemma sort_by_spec : forall l,
  Permutation (sort_by heap_less l) l /\ Sorted (fun a b => nf_le a b = true) (sort_by heap_less l).
Proof.
  induction l as [|x l [IHp IHs]] using rev_ind; [split; [reflexivity | constructor]|].
  rewrite sort_by_snoc. split.
  - eapply Permutation_trans; [apply insert_by_perm|].
    eapply Permutation_trans; [apply perm_skip; exact IHp | apply Permutation_cons_append].
  - now apply insert_by_sorted.
Qed.

Lemma qfloor_Qfloor : forall q, qfloor q = Qfloor q.
Proof. intros [n d]. reflexivity. Qed.

(* quantile(phi, values) for 0 <= phi <= 1: the values are sorted NaN-first ascending, the rank
   phi*(n-1) is split into its integral part lo (0 <= lo <= n-1) and weight 0 <= w < 1, and the
   result is the value at that rank, s[lo], when w = 0, and s[lo]*(1-w) + s[min(n-1, lo+1)]*w
   computed in float arithmetic otherwise *)
Lemma quantile_spec : forall ovf (q : Q) (vals : list fval),
  vals <> [] -> (0 <= q)%Q -> (q <= 1)%Q ->
  let s := sort_by heap_less vals in
  let n := Z.of_nat (length vals) in
  let rank := (q * inject_Z (n - 1))%Q in
  let lo := qfloor rank in
  let hi := Z.min (n - 1) (lo + 1) in
  let w := (rank - inject_Z lo)%Q in
  Permutation s vals /\ Sorted (fun a b => nf_le a b = true) s /\
  0 <= lo <= n - 1 /\ lo <= hi <= n - 1 /\ (0 <= w)%Q /\ (w < 1)%Q /\
  quantile ovf (FFin q) vals =
    (if Qeq_bool w 0 then nth (Z.to_nat lo) s FNaN
     else fadd ovf (fmul ovf (nth (Z.to_nat lo) s FNaN) (FFin (1 - w)))
                   (fmul ovf (nth (Z.to_nat hi) s FNaN) (FFin w))).
Proof.
  intros ovf q vals Hne Hq0 Hq1 s n rank lo hi w.
  destruct (sort_by_spec vals) as [Hp Hs]. split; [exact Hp|]. split; [exact Hs|].
  assert (Hn : 1 <= n) by (unfold n; destruct vals; [contradiction | simpl; lia]).
  assert (Hr0 : (0 <= rank)%Q).
  { unfold rank. apply Qmult_le_0_compat; [assumption|]. unfold Qle. simpl. lia. }
  assert (Hr1 : (rank <= inject_Z (n - 1))%Q).
  { unfold rank. rewrite <- (Qmult_1_l (inject_Z (n - 1))) at 2.
    apply Qmult_le_compat_r; [assumption|]. unfold Qle. simpl. lia. }
  assert (Hfl : (inject_Z lo <= rank)%Q) by (unfold lo; rewrite qfloor_Qfloor; apply Qfloor_le).
  assert (Hfu : (rank < inject_Z (lo + 1))%Q) by (unfold lo; rewrite qfloor_Qfloor; apply Qlt_floor).
  assert (Hlo0 : 0 <= lo).
  { destruct (Z_le_gt_dec 0 lo) as [|Hneg]; [assumption|]. exfalso.
    assert (Hc : (inject_Z (lo + 1) <= inject_Z 0)%Q) by (rewrite <- Zle_Qle; lia).
    apply (Qlt_irrefl rank). eapply Qlt_le_trans; [exact Hfu|]. eapply Qle_trans; [exact Hc | exact Hr0]. }
  assert (Hlo1 : lo <= n - 1).
  { rewrite Zle_Qle. eapply Qle_trans; [exact Hfl | exact Hr1]. }
  split; [lia|]. split; [unfold hi; lia|].
  split; [unfold w; lra|]. split.
  { unfold w. rewrite inject_Z_plus in Hfu. change (inject_Z 1) with 1%Q in Hfu. lra. }
  unfold quantile. destruct vals as [|v0 vals']; [contradiction|].
  replace (Qltb q 0) with false by (symmetry; unfold Qltb; apply negb_false_iff; now apply Qle_bool_iff).
  replace (Qltb 1 q) with false by (symmetry; unfold Qltb; apply negb_false_iff; now apply Qle_bool_iff).
  fold n. fold rank. fold lo. rewrite (Z.max_r 0 lo) by assumption. fold hi. fold w. reflexivity.
Qed.

(* phi = 1 designates the last element of the NaN-first ascending order (the maximum), phi = 0
   the first one *)
Lemma qfloor_mul1 : forall z, qfloor (1 * inject_Z z) = z.
Proof. intro z. unfold qfloor. cbn [Qnum Qden Qmult inject_Z]. rewrite Z.mul_1_l. apply Z.div_1_r. Qed.

Lemma quantile_one : forall ovf v vals,
  quantile ovf (FFin 1) (v :: vals) = nth (length vals) (sort_by heap_less (v :: vals)) FNaN.
Proof.
  intros ovf v vals. unfold quantile.
  change (Qltb 1 0) with false. change (Qltb 1 1) with false. cbv iota.
  set (z := Z.of_nat (length (v :: vals)) - 1).
  assert (Hz : z = Z.of_nat (length vals)) by (unfold z; cbn [length]; lia).
  rewrite qfloor_mul1.
  assert (Hw : Qeq_bool (1 * inject_Z z - inject_Z z) 0 = true) by (apply Qeq_bool_iff; ring).
  rewrite Hw, Z.max_r by lia. rewrite Hz, Nat2Z.id. reflexivity.
Qed.

Lemma quantile_zero : forall ovf v vals,
  quantile ovf (FFin 0) (v :: vals) = nth 0 (sort_by heap_less (v :: vals)) FNaN.
Proof.
  intros ovf v vals. unfold quantile.
  change (Qltb 0 0) with false. change (Qltb 1 0) with false. cbv iota.
  set (z := Z.of_nat (length (v :: vals)) - 1).
  assert (Hf : qfloor (0 * inject_Z z) = 0) by (unfold qfloor; cbn [Qnum Qden Qmult inject_Z]; now rewrite Z.mul_0_l).
  rewrite Hf.
  assert (Hw : Qeq_bool (0 * inject_Z z - inject_Z 0) 0 = true) by (apply Qeq_bool_iff; ring).
  rewrite Hw. reflexivity.
Qed.

(* witness of the defect fixed by 023c7e876c: the old quantile(1, {1, +Inf}) is NaN (the maximum
   +Inf times weight 0), and so is the old quantile of a single +Inf value; the repaired
   function returns +Inf in both cases *)
Lemma quantile_zero_weight_inf_old : forall ovf,
  quantile_old ovf (FFin 1) [FFin 1; FInf false] = FNaN /\
  quantile_old ovf (FFin (1 # 2)) [FInf false] = FNaN /\
  agg_max (FFin 1) [FInf false] = FInf false /\
  quantile ovf (FFin 1) [FFin 1; FInf false] = FInf false /\
  quantile ovf (FFin (1 # 2)) [FInf false] = FInf false.
Proof. intro ovf. repeat split. Qed.

(* ------------------------------------------------------------------ the many-to-many error is complete *)
Lemma has_dup_labels_not_NoDup : forall l, has_dup_labels l = true -> ~ NoDup l.
Proof.
  induction l as [|a l IH]; intros H Hnd; simpl in H; [discriminate|].
  inversion Hnd as [|? ? Hnot Hnd']; subst.
  apply orb_true_iff in H as [H|H]; [apply mem_labels_In in H; contradiction | now apply IH].
Qed.

(* whenever both operands are non-empty and two right-hand series share a join signature, the
   operation fails with the many-to-many error (one-to-one and group_left) *)
Lemma vector_binop_dup_complete : forall ovf op rb m lhs rhs,
  m_card m <> OneToMany -> lhs <> [] -> rhs <> [] ->
  has_dup_labels (map (fun r : sample => signature (m_on m) (m_labels m) (fst r)) rhs) = true ->
  vector_binop ovf op rb m lhs rhs = RErr ErrDupRight.
Proof.
  intros ovf op rb m lhs rhs Hcard Hl Hr Hdup. unfold vector_binop.
  destruct lhs as [|l0 lhs]; [contradiction|]. destruct rhs as [|r0 rhs]; [contradiction|].
  cbn [andb orb].
  replace (match m_card m with OneToMany => true | _ => false end) with false
    by (destruct (m_card m); [reflexivity | reflexivity | contradiction]).
  destruct (build_right (signature (m_on m) (m_labels m)) (r0 :: rhs) []) as [rmap|] eqn:Eb; [|reflexivity].
  exfalso. apply build_right_spec in Eb; [|constructor]. destruct Eb as [Hrmap Hnd].
  rewrite Hrmap in Hnd. cbn [app] in Hnd. rewrite map_map in Hnd.
  exact (has_dup_labels_not_NoDup _ Hdup Hnd).
Qed.

(* ------------------------------------------------------------------ group_right *)
Lemma labels_eqb_sym : forall a b, labels_eqb a b = labels_eqb b a.
Proof.
  intros a b. destruct (labels_eqb a b) eqn:E.
  - apply labels_eqb_eq in E. subst. symmetry. apply labels_eqb_refl.
  - symmetry. apply labels_eqb_neq. apply labels_eqb_neq in E. congruence.
Qed.

Lemma flat_map_app_perm : forall {A B} (f g : A -> list B) l,
  Permutation (flat_map (fun a => f a ++ g a) l) (flat_map f l ++ flat_map g l).
Proof.
  intros A B f g l. induction l as [|a l IH]; simpl; [reflexivity|].
  rewrite <- !app_assoc. apply Permutation_app_head.
  eapply Permutation_trans; [apply Permutation_app_head; exact IH|].
  rewrite !app_assoc. apply Permutation_app_tail. apply Permutation_app_comm.
Qed.

Lemma flat_map_if_filter : forall {A B} (p : A -> bool) (h : A -> B) l,
  flat_map (fun a => if p a then [h a] else []) l = map h (filter p l).
Proof. intros A B p h l. induction l as [|a l IH]; simpl; [reflexivity|]. destruct (p a); simpl; now rewrite IH. Qed.

Lemma flat_map_comp : forall {A B C} (f : B -> list C) (g : A -> list B) l,
  flat_map f (flat_map g l) = flat_map (fun a => flat_map f (g a)) l.
Proof. intros. induction l as [|a l IH]; simpl; [reflexivity | now rewrite flat_map_app, IH]. Qed.

(* the matched pairs enumerated right-operand-major are a permutation of the pairs enumerated
   left-operand-major *)
Lemma pairs_swap : forall {A B} (p : A -> B -> bool) (ls : list A) (rs : list B),
  Permutation (flat_map (fun r => map (fun l => (l, r)) (filter (fun l => p l r) ls)) rs)
              (flat_map (fun l => map (fun r => (l, r)) (filter (fun r => p l r) rs)) ls).
Proof.
  intros A B p ls rs. induction ls as [|l0 ls IH].
  - simpl. induction rs as [|r rs IHr]; simpl; [reflexivity | exact IHr].
  - cbn [flat_map].
    eapply Permutation_trans; [|apply Permutation_app_head; exact IH].
    rewrite <- (flat_map_if_filter (fun r => p l0 r) (fun r => (l0, r)) rs).
    eapply Permutation_trans; [|apply flat_map_app_perm].
    apply Permutation_refl'. apply flat_map_ext'. intro r. cbn [filter].
    destruct (p l0 r); reflexivity.
Qed.

Section GroupRight.
Variable ovf : Q -> bool.

Definition pair_out (op : bop) (rb : bool) (m : matching) (p : sample * sample) : list sample :=
  let x := spec_pair_out ovf op rb m p in
  if snd x then [(snd (fst (fst x)), snd (fst x))] else [].

Lemma spec_binop_out_pair_out : forall op rb m lhs rhs,
  spec_binop_out ovf op rb m lhs rhs = flat_map (pair_out op rb m) (spec_pairs m lhs rhs).
Proof.
  intros. unfold spec_binop_out. generalize (spec_pairs m lhs rhs). intro l.
  induction l as [|a l IH]; simpl; [reflexivity | now rewrite IH].
Qed.

Lemma do_binop_out_swapped : forall op rb m st ls rs sg st',
  m_card m = OneToMany ->
  do_binop ovf op rb m st ls rs sg = inr st' ->
  b_out st' = b_out st ++ pair_out op rb m (rs, ls).
Proof.
  intros op rb m st ls rs sg st' Hcard H. unfold do_binop in H. unfold pair_out, spec_pair_out.
  rewrite Hcard in *. cbn [fst snd].
  destruct (mem_labels _ _); [discriminate|]. cbn [b_out b_matched1 b_matchedN] in H.
  destruct (snd (elem_binop ovf op (snd rs) (snd ls))) eqn:Ek; destruct rb; cbn [negb andb orb] in *;
    inversion H; subst; cbn [b_out]; try reflexivity; now rewrite app_nil_r.
Qed.

Lemma lhs_loop_out_swapped : forall op rb m sigf rmap many st st',
  m_card m = OneToMany ->
  lhs_loop ovf op rb m sigf rmap None many st = inr st' ->
  b_out st' = b_out st ++
    flat_map (fun ls => match assoc_labels (sigf (fst ls)) rmap with
                        | Some rs => pair_out op rb m (rs, ls) | None => [] end) many.
Proof.
  induction many as [|ls many IH]; intros st st' Hcard H; simpl in H.
  - inversion H. now rewrite app_nil_r.
  - cbn [flat_map].
    destruct (assoc_labels (sigf (fst ls)) rmap) as [rs|] eqn:E.
    + destruct (do_binop ovf op rb m st ls rs (sigf (fst ls))) as [e|st1] eqn:Ed; [discriminate|].
      apply IH in H; [|assumption]. rewrite H, (do_binop_out_swapped _ _ _ _ _ _ _ _ Hcard Ed), <- app_assoc.
      reflexivity.
    + apply IH in H; [|assumption]. rewrite H. reflexivity.
Qed.

(* group_right without fill modifiers: a returned vector is a permutation of the documented one
   (the engine iterates the right operand), and the left ("one") side has unique signatures *)
Lemma vector_binop_group_right : forall op rb m lhs rhs out,
  m_card m = OneToMany -> m_fill_l m = None -> m_fill_r m = None ->
  vector_binop ovf op rb m lhs rhs = RVec out ->
  Permutation out (spec_binop_out ovf op rb m lhs rhs) /\
  has_dup_labels (map fst out) = false /\
  (lhs = [] \/ rhs = [] \/
   NoDup (map (fun l : sample => signature (m_on m) (m_labels m) (fst l)) lhs)).
Proof.
  intros op rb m lhs rhs out Hcard Hfl Hfr H. unfold vector_binop in H. rewrite Hfl, Hfr, Hcard in H.
  assert (Hspec0 : forall l r : list sample, l = [] \/ r = [] -> spec_binop_out ovf op rb m l r = []).
  { intros l r [Hl|Hr]; unfold spec_binop_out, spec_pairs; rewrite Hfl, Hfr; subst.
    - reflexivity.
    - simpl. rewrite !app_nil_r. induction l as [|a l IHl]; [reflexivity|]. simpl. exact IHl. }
  destruct lhs as [|l0 lhs].
  { cbn in H. destruct rhs; cbn in H; inversion H; subst;
      (split; [rewrite Hspec0; [reflexivity | now left] | split; [reflexivity | now left]]). }
  destruct rhs as [|r0 rhs].
  { cbn in H. inversion H; subst. split; [rewrite Hspec0; [reflexivity | now right] | split; [reflexivity | right; now left]]. }
  cbn [andb orb] in H.
  set (sigf := signature (m_on m) (m_labels m)) in *.
  destruct (build_right sigf (l0 :: lhs) []) as [rmap|] eqn:Eb; [|discriminate].
  apply build_right_spec in Eb; [|constructor]. destruct Eb as [Hrmap Hnd]. cbn [app] in Hrmap.
  destruct (lhs_loop ovf op rb m sigf rmap None (r0 :: rhs) (mkBst [] [] [])) as [e|st] eqn:El; [discriminate|].
  apply lhs_loop_out_swapped in El; [|assumption]. cbn [b_out app] in El.
  unfold check_same in H. destruct (has_dup_labels (map fst (b_out st))) eqn:Ed; [discriminate|].
  inversion H; subst out. clear H.
  assert (Hnd' : NoDup (map (fun l : sample => sigf (fst l)) (l0 :: lhs))).
  { rewrite Hrmap in Hnd. rewrite map_map in Hnd. exact Hnd. }
  split; [|split; [assumption | right; right; exact Hnd']].
  rewrite El, spec_binop_out_pair_out. unfold spec_pairs. rewrite Hfl, Hfr, !app_nil_r. fold sigf.
  set (L := l0 :: lhs) in *. set (R := r0 :: rhs) in *.
  match goal with |- Permutation ?x _ =>
    assert (E : x = flat_map (pair_out op rb m)
       (flat_map (fun r : sample => map (fun l : sample => (l, r))
                    (filter (fun l : sample => labels_eqb (sigf (fst l)) (sigf (fst r))) L)) R)) end.
  { symmetry. rewrite flat_map_comp. apply flat_map_ext'. intro r.
    rewrite (filter_ext _ (fun l : sample => labels_eqb (sigf (fst r)) (sigf (fst l))))
      by (intro l; apply labels_eqb_sym).
    rewrite (assoc_filter sigf (sigf (fst r)) L Hnd'), <- Hrmap.
    destruct (assoc_labels (sigf (fst r)) rmap); cbn [map flat_map]; [now rewrite app_nil_r | reflexivity]. }
  rewrite E. apply Permutation_flat_map.
  apply (pairs_swap (fun (l r : sample) => labels_eqb (sigf (fst l)) (sigf (fst r))) L R).
Qed.
End GroupRight.

(* ------------------------------------------------------------------ limitk *)
Lemma k_group_limitk : forall k (members : list sample), 0 <= k ->
  let out := k_group ALimitk k members in
  Z.of_nat (length out) = Z.min k (Z.of_nat (length members)) /\
  exists rest, members = out ++ rest.
Proof.
  intros k members Hk. unfold k_group. split.
  - rewrite firstn_length. lia.
  - exists (skipn (Z.to_nat k) members). symmetry. apply firstn_skipn.
Qed.

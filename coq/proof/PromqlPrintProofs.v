(* proof/PromqlPrintProofs.v — proofs for C26: the token-level parser reads back what the
   printer prints (model/PromqlPrint.v, model/PromqlParse.v). *)
From Coq Require Import List ZArith Bool NArith Lia.
From Verif Require Import model.PromqlPrint model.PromqlParse.
Import ListNotations.
Open Scope Z_scope.

Ltac inv H := inversion H; subst; clear H.
Ltac bsplit := repeat match goal with
  | H : _ && _ = true |- _ => apply andb_prop in H; destruct H
  end.
Ltac b2p := repeat match goal with
  | H : _ && _ = true |- _ => apply andb_prop in H; destruct H
  | H : negb _ = true |- _ => apply negb_true_iff in H
  | H : negb _ = false |- _ => apply negb_false_iff in H
  | H : (_ <=? _) = true |- _ => apply Z.leb_le in H
  | H : (_ <? _) = true |- _ => apply Z.ltb_lt in H
  | H : (_ =? _) = true |- _ => apply Z.eqb_eq in H
  | H : (_ =? _) = false |- _ => apply Z.eqb_neq in H
  | H : (_ <=? _) = false |- _ => apply Z.leb_gt in H
  | H : (_ <? _) = false |- _ => apply Z.ltb_ge in H
  end.

(* ------------------------------------------------------------------ small facts *)
Lemma seqb_refl : forall s, seqb s s = true.
Proof. induction s; simpl; auto. rewrite N.eqb_refl; auto. Qed.

Lemma seqb_eq : forall a b, seqb a b = true -> a = b.
Proof.
  induction a; destruct b; simpl; intros; try discriminate; auto.
  apply andb_prop in H; destruct H. apply N.eqb_eq in H. f_equal; auto.
Qed.

Lemma prec_range : forall op, 1 <= prec op <= 6.
Proof. destruct op; simpl; lia. Qed.

Lemma prec6_right : forall op, prec op = 6 -> right_assoc op = true.
Proof. destruct op; simpl; intros; try lia; auto. Qed.

(* ------------------------------------------------------------------ climb: more fuel, same success *)
Section Climb.
  Variable o : opts.
  Variable pe : Z -> list tok -> res (expr * list tok).

  Lemma climb_mono : forall n minp lhs toks r,
    climb o pe n minp lhs toks = Ok r -> forall n', (n <= n')%nat -> climb o pe n' minp lhs toks = Ok r.
  Proof.
    induction n; intros minp lhs toks r H n' Hn.
    - destruct n'; auto. simpl in *. destruct toks as [|t rest]; auto.
      destruct (tk t); auto. destruct (prec o0 <? minp); auto. discriminate.
    - destruct n'; [lia|]. simpl in *. destruct toks as [|t rest]; auto.
      destruct (tk t); auto. destruct (prec o0 <? minp); auto.
      destruct (bin_modifiers rest) as [[[rb vm] r1]|]; auto.
      destruct (negb (o_fill o) && _); auto.
      destruct (pe _ r1) as [[rhs r2]|]; auto.
      apply IHn; auto. lia.
  Qed.

  (* what may follow a complete expression parsed with minimum precedence minp *)
  Definition stop (minp : Z) (X : list tok) : Prop :=
    match X with
    | [] => True
    | t :: _ => match tk t with KRP | KCOMMA => True | KOP q => prec q < minp | _ => False end
    end.

  Lemma climb_stop : forall n minp lhs X, stop minp X -> climb o pe n minp lhs X = Ok (lhs, X).
  Proof.
    intros. destruct X as [|t rest]; [destruct n; auto|].
    simpl in H. destruct n; simpl; destruct (tk t); try contradiction; auto;
      apply Z.ltb_lt in H; rewrite H; auto.
  Qed.
End Climb.

Lemma stop_weaken : forall a b X, stop a X -> a <= b -> stop b X.
Proof. intros. destruct X; simpl in *; auto. destruct (tk t); auto. lia. Qed.

(* no postfix modifier starts at a stopping token *)
Lemma postfix_none : forall oc o e n minp X, stop minp X -> postfix_loop n oc o e X = Ok (e, X).
Proof.
  intros. destruct X as [|t rest]; destruct n; simpl; auto;
    simpl in H; destruct (tk t); try contradiction; auto.
Qed.

(* ------------------------------------------------------------------ numbers *)
Lemma fneg_sub : forall b, num_ok b = true -> is_negf b = true -> fneg (b - sign_bit) = b.
Proof.
  unfold num_ok, is_negf, fneg, is_nan, two63, sign_bit, inf_bits, nan_bits. intros b H1 H2.
  apply andb_prop in H1. destruct H1 as [H1 Hor]. b2p.
  assert (Hm : b mod 9223372036854775808 = b - 9223372036854775808).
  { symmetry. apply Z.mod_unique with (q := 1); lia. }
  rewrite Hm in Hor.
  apply orb_prop in Hor. destruct Hor as [Hor|Hor]; b2p; [|lia].
  destruct (b - 9223372036854775808 =? 9221120237041090561) eqn:E; b2p; [lia|].
  destruct (9223372036854775808 <=? b - 9223372036854775808) eqn:E2; b2p; lia.
Qed.

Lemma signed_num_print : forall b Y, num_ok b = true ->
  signed_num (print_num b ++ Y) = Ok (b, Y).
Proof.
  intros. unfold print_num. destruct (is_negf b) eqn:E.
  - simpl. rewrite fneg_sub; auto.
  - destruct (b =? inf_bits); simpl; auto.
Qed.

Lemma fill_value_print : forall k w b Y, num_ok b = true ->
  fill_value (tl (fill_tok k w b ++ Y)) = Ok (b, Y).
Proof.
  intros. unfold fill_tok. simpl. rewrite <- app_assoc. rewrite signed_num_print; auto.
Qed.

(* ------------------------------------------------------------------ words and labels *)
Local Arguments lex_word : simpl never.
Local Arguments kw_lookup : simpl never.
Lemma lex_word_tx : forall w, tk (lex_word w) <> KNUM -> tx (lex_word w) = w.
Proof.
  intros w. unfold lex_word. destruct (kw_lookup (map lower w) kwtab_b) as [k|].
  - destruct k; simpl; auto; congruence.
  - destruct (has_colon w); auto.
Qed.

Lemma glabel_print : forall s, label_ok s = true -> glabel (print_label s) = Some s.
Proof.
  unfold label_ok, print_label, glabel. intros s H. destruct s as [|c s']; [discriminate|].
  destruct (legacy_label (c :: s')) eqn:L; cbn [negb orb] in H.
  - assert (N : tk (lex_word (c :: s')) <> KNUM) by (intro E; rewrite E in H; discriminate).
    rewrite (lex_word_tx _ N).
    destruct (tk (lex_word (c :: s'))) as [| | | | | | | | | | | | | | | | | b | a | | | | | | | | | | | | | | | | | | | |] eqn:K;
      try reflexivity; try discriminate H.
    destruct b; try reflexivity; discriminate H.
  - reflexivity.
Qed.

Lemma glabel_not_rp : forall t s, glabel t = Some s -> tk t <> KRP.
Proof. unfold glabel. intros t s H E. rewrite E in H. discriminate. Qed.

Lemma commas_cons : forall x l, l <> [] -> commas (x :: l) = x ++ T KCOMMA :: commas l.
Proof. intros. destruct l; [congruence|reflexivity]. Qed.

Lemma map_nonnil : forall A B (f : A -> B) l, l <> [] -> map f l <> [].
Proof. destruct l; simpl; congruence. Qed.

Definition plabs (ls : list str) := map (fun s => [print_label s]) ls.

Lemma plabs_head : forall s ls Y, label_ok s = true ->
  exists c2 r2, commas (plabs (s :: ls)) ++ Y = c2 :: r2 /\ glabel c2 = Some s.
Proof.
  intros. unfold plabs. cbn [map]. destruct ls.
  - cbn. eexists; eexists; split; eauto. apply glabel_print; auto.
  - rewrite commas_cons by (cbn; congruence). cbn [app]. eexists; eexists; split; eauto. apply glabel_print; auto.
Qed.

Lemma glabels_loop_print : forall ls acc Y, ls <> [] -> forallb label_ok ls = true ->
  glabels_loop (commas (plabs ls) ++ T KRP :: Y) acc = Ok (acc ++ ls, Y).
Proof.
  induction ls as [|s ls IH]; intros acc Y Hne Hok; [congruence|].
  simpl in Hok. apply andb_prop in Hok. destruct Hok as [Hs Hls].
  destruct ls as [|s2 ls'].
  - cbn. rewrite glabel_print; auto.
  - remember (s2 :: ls') as R eqn:ER. unfold plabs. cbn [map]. fold (plabs R).
    rewrite commas_cons by (subst R; cbn; congruence).
    rewrite <- app_assoc. cbn [app]. cbn [glabels_loop].
    rewrite glabel_print by auto. cbn [tk T].
    assert (Hs2 : label_ok s2 = true) by (subst R; simpl in Hls; apply andb_prop in Hls; tauto).
    destruct (plabs_head s2 ls' (T KRP :: Y) Hs2) as (c2 & r2 & E & G). rewrite <- ER in E.
    rewrite E. pose proof (glabel_not_rp _ _ G) as NR.
    destruct (tk c2) eqn:K; try congruence; rewrite <- E;
      (rewrite IH; [rewrite <- app_assoc; reflexivity|subst R; congruence|auto]).
Qed.

Lemma glabels_print : forall ls Y, forallb label_ok ls = true ->
  glabels (T KLP :: print_labels ls ++ T KRP :: Y) = Ok (ls, Y).
Proof.
  intros. destruct ls as [|s ls'].
  - reflexivity.
  - cbn [glabels tk T]. unfold print_labels. fold (plabs (s :: ls')).
    assert (Hs : label_ok s = true) by (simpl in H; apply andb_prop in H; tauto).
    destruct (plabs_head s ls' (T KRP :: Y) Hs) as (c2 & r2 & E & G).
    rewrite E. pose proof (glabel_not_rp _ _ G) as NR.
    destruct (tk c2) eqn:K; try congruence; rewrite <- E; rewrite glabels_loop_print; auto; congruence.
Qed.

(* ------------------------------------------------------------------ modifiers of a binary operator *)
Definition nomod (R : list tok) : Prop :=
  match hd_kind R with
  | KBOOL | KON | KIGNORING | KGROUPL | KGROUPR | KFILL | KFILLL | KFILLR => False
  | _ => True
  end.

Lemma app_cons_assoc : forall A (l : list A) x r, (l ++ [x]) ++ r = l ++ x :: r.
Proof. intros. rewrite <- app_assoc. reflexivity. Qed.

Section BM.
  Variable o : opts.

  Ltac norm_app := repeat (progress (try rewrite <- app_assoc; cbn [app])).

  Lemma bin_modifiers_print : forall (rb : bool) m R, vm_ok o m = true -> vm_card m <> CManyToMany -> nomod R ->
    bin_modifiers ((if rb then [TW KBOOL W_bool] else []) ++ print_matching (Some m) ++ R) = Ok ((rb, m), R).
  Proof.
    intros rb m R Hok Hc Hn. destruct m as [card on labels include fl fr]. unfold vm_ok in Hok. cbn [vm_card vm_on vm_labels vm_include vm_fl vm_fr] in *.
    apply andb_prop in Hok. destruct Hok as [Hok Hz]. apply andb_prop in Hok. destruct Hok as [Hok Hf].
    apply andb_prop in Hok. destruct Hok as [Hok Hinc]. apply andb_prop in Hok. destruct Hok as [Hl Hi].
    assert (FV : forall b Y, num_ok b = true -> fill_value (T KLP :: print_num b ++ T KRP :: Y) = Ok (b, Y)).
    { intros. pose proof (fill_value_print KFILL W_fill b Y H) as P. unfold fill_tok in P. cbn [tl app] in P.
      rewrite <- app_assoc in P. exact P. }
    unfold nomod in Hn.
    unfold bin_modifiers, print_matching. cbn [vm_card vm_on vm_labels vm_include vm_fl vm_fr].
    assert (Hfa : forall a, fl = Some a -> num_ok a = true).
    { intros a E; subst fl. destruct fr; b2p; auto. }
    assert (Hfb : forall b, fr = Some b -> num_ok b = true).
    { intros b E; subst fr. destruct fl; b2p; auto. }
    destruct rb; cbn [app hd_kind tk TW tl];
    destruct on; destruct labels as [|l0 ls]; destruct card; try congruence;
      try (destruct include; [|discriminate Hinc]);
      cbn [orb app hd_kind tk TW tl T];
      norm_app; cbn [hd_kind tk TW tl T];
      repeat (rewrite glabels_print by assumption; cbn [hd_kind tk TW tl T]);
      destruct fl as [a|]; destruct fr as [b|]; cbn [app hd_kind tk TW tl T];
      try (destruct (negb (is_nan a) && ((a =? b) || (fabs a =? 0) && (fabs b =? 0))) eqn:EQ);
      unfold fill_tok; norm_app; cbn [hd_kind tk TW tl T];
      repeat (rewrite FV by (solve [eauto]); cbn [hd_kind tk TW tl T]).
    all: try reflexivity.
    all: try (destruct (hd_kind R); try (exfalso; exact Hn); reflexivity).
    all: try (assert (a = b) by (unfold is_nan in EQ; b2p;
              repeat match goal with H : _ || _ = true |- _ => apply orb_prop in H; destruct H end; b2p; try lia;
              match goal with H : (_ =? 0) = true |- _ => idtac | _ => idtac end; congruence); subst b; reflexivity).
    all: destruct (hd_kind R) eqn:HK; try (exfalso; exact Hn); cbn beta iota; rewrite ?HK; reflexivity.
  Qed.
End BM.

(* proof/BlockFmtProofs.v — lemmas and proofs about model/BlockFmt.v (property C24). *)
From Coq Require Import List NArith ZArith Lia Bool Sorting.Sorted.
From Verif Require Import lib.Int64 lib.Bytes lib.Varint model.BlockFmt.
Import ListNotations.
Open Scope N_scope.

(* ================================================================ lists, sub, alter *)
Lemma blen_app {A} (a b : list A) : blen (a ++ b) = blen a + blen b.
Proof. unfold blen. rewrite app_length. lia. Qed.

Lemma blen_cons {A} (x : A) l : blen (x :: l) = 1 + blen l.
Proof. unfold blen. simpl length. lia. Qed.

Lemma skipn_blen_app (p r : list N) : skipn (N.to_nat (blen p)) (p ++ r) = r.
Proof.
  unfold blen. rewrite Nnat.Nat2N.id. rewrite skipn_app, skipn_all, Nat.sub_diag. reflexivity.
Qed.

Lemma skipn_blen_add (p r : list N) k : skipn (N.to_nat (blen p + k)) (p ++ r) = skipn (N.to_nat k) r.
Proof.
  unfold blen. rewrite Nnat.N2Nat.inj_add, Nnat.Nat2N.id.
  rewrite skipn_app. rewrite skipn_all2 by lia. simpl. f_equal. lia.
Qed.

Lemma firstn_blen_app (m s : list N) : firstn (N.to_nat (blen m)) (m ++ s) = m.
Proof.
  unfold blen. rewrite Nnat.Nat2N.id. rewrite firstn_app, firstn_all, Nat.sub_diag. simpl. apply app_nil_r.
Qed.

Lemma sub_mid (p m s : list N) : sub (p ++ m ++ s) (blen p) (blen m) = m.
Proof. unfold sub. rewrite skipn_blen_app. apply firstn_blen_app. Qed.

Lemma sub_mid_add (p a m s : list N) : sub (p ++ a ++ m ++ s) (blen p + blen a) (blen m) = m.
Proof.
  unfold sub. rewrite skipn_blen_add. replace a with ([] ++ a) at 1 by reflexivity.
  change (skipn (N.to_nat (blen a)) (a ++ m ++ s)) with (skipn (N.to_nat (blen a)) (a ++ (m ++ s))).
  rewrite skipn_blen_app. apply firstn_blen_app.
Qed.

Lemma sub_mid_add' (p a m s : list N) k : k = blen m -> sub (p ++ a ++ m ++ s) (blen p + blen a) k = m.
Proof. intros ->. apply sub_mid_add. Qed.

Lemma alter_length pos b l : length (alter pos b l) = length l.
Proof. revert pos; induction l as [|x l IH]; intros [|p]; simpl; auto. Qed.

Lemma alter_app_r (p l : list N) pos b : alter (length p + pos) b (p ++ l) = p ++ alter pos b l.
Proof. induction p as [|x p IH]; simpl; auto. rewrite IH. reflexivity. Qed.

Lemma alter_app_l (l s : list N) pos b : (pos < length l)%nat -> alter pos b (l ++ s) = alter pos b l ++ s.
Proof.
  revert pos; induction l as [|x l IH]; intros pos H; simpl in *; [lia|].
  destruct pos; simpl; auto. rewrite IH by lia. reflexivity.
Qed.

Lemma alter_bytes_ok pos b l : bytes_ok l -> b < 256 -> bytes_ok (alter pos b l).
Proof.
  unfold bytes_ok. revert pos; induction l as [|x l IH]; intros pos Hl Hb; [destruct pos; simpl; constructor|].
  inversion Hl as [|? ? Hx Hl']; subst. destruct pos as [|pos]; cbn [alter]; constructor.
  - exact Hb.
  - exact Hl'.
  - exact Hx.
  - apply IH; assumption.
Qed.

(* ================================================================ big endian *)
Lemma be32_at_mid (p s : list N) c : c < 4294967296 -> be32_at (p ++ put_be32 c ++ s) (blen p) = Some c.
Proof.
  intros H. unfold be32_at. rewrite skipn_blen_app. unfold put_be32.
  rewrite be_take_enc. change (256 ^ N.of_nat 4) with 4294967296.
  rewrite N.mod_small by exact H. reflexivity.
Qed.

Lemma be_take_some n : forall acc l, (n <= length l)%nat -> exists x r, be_take n acc l = Some (x, r).
Proof.
  induction n as [|n IH]; intros acc l H; [simpl; eauto|].
  destruct l as [|b l]; [simpl in H; lia|]. cbn [be_take]. apply IH. simpl in H. lia.
Qed.

(* be_take is injective on equally long byte strings *)
Lemma be_take_bound n : forall acc l x r, bytes_ok l -> be_take n acc l = Some (x, r) ->
  acc * 256 ^ N.of_nat n <= x < (acc + 1) * 256 ^ N.of_nat n.
Proof.
  induction n as [|n IH]; intros acc l x r Hl H.
  - simpl in H. inversion H; subst. change (256 ^ N.of_nat 0) with 1. lia.
  - destruct l as [|b l]; [discriminate|]. cbn [be_take] in H.
    inversion Hl as [|? ? Hb Hl']; subst.
    specialize (IH _ _ _ _ Hl' H). unfold byte_ok in Hb.
    rewrite Nnat.Nat2N.inj_succ, N.pow_succ_r'. nia.
Qed.

Lemma be_take_alter n : forall acc l pos b x x' r r',
  bytes_ok l -> b < 256 -> (pos < n)%nat -> (n <= length l)%nat -> nth pos l 0 <> b ->
  be_take n acc l = Some (x, r) -> be_take n acc (alter pos b l) = Some (x', r') -> x <> x'.
Proof.
  induction n as [|n IH]; intros acc l pos b x x' r r' Hl Hb Hp Hn Hne H H'; [lia|].
  destruct l as [|y l]; [simpl in Hn; lia|].
  inversion Hl as [|? ? Hy Hl']; subst. unfold byte_ok in Hy.
  destruct pos as [|pos].
  - simpl in Hne. cbn [alter be_take] in H'. cbn [be_take] in H.
    pose proof (be_take_bound _ _ _ _ _ Hl' H) as B1.
    pose proof (be_take_bound _ _ _ _ _ Hl' H') as B2.
    set (P := 256 ^ N.of_nat n) in *.
    destruct (N.lt_trichotomy y b) as [Hlt|[Heq|Hlt]]; [| exfalso; apply Hne; exact Heq |].
    + assert ((acc * 256 + y + 1) * P <= (acc * 256 + b) * P) by (apply N.mul_le_mono_r; lia). lia.
    + assert ((acc * 256 + b + 1) * P <= (acc * 256 + y) * P) by (apply N.mul_le_mono_r; lia). lia.
  - cbn [alter be_take] in H'. cbn [be_take] in H. simpl in Hne, Hn.
    apply (IH (acc * 256 + y) l pos b x x' r r' Hl' Hb); [lia | lia | exact Hne | exact H | exact H'].
Qed.

(* ================================================================ uvarint in a 5 byte window *)
Lemma uv_enc_fuel_len : forall k f x, (1 <= k)%nat -> (k <= f)%nat -> x < 128 ^ N.of_nat k ->
  (1 <= length (uv_enc_fuel f x) <= k)%nat.
Proof.
  induction k as [|k IH]; intros f x Hk Hf Hx; [lia|].
  destruct f as [|f]; [lia|]. cbn [uv_enc_fuel].
  destruct (x <? 128) eqn:E; [simpl; lia|].
  apply N.ltb_ge in E. simpl length.
  destruct k as [|k'].
  - change (128 ^ N.of_nat 1) with 128 in Hx. lia.
  - assert (x / 128 < 128 ^ N.of_nat (S k')).
    { apply N.div_lt_upper_bound; [discriminate|].
      rewrite Nnat.Nat2N.inj_succ, N.pow_succ_r' in Hx. exact Hx. }
    specialize (IH f (x / 128) ltac:(lia) ltac:(lia) H). lia.
Qed.

Definition two35 : N := 34359738368.

Lemma put_uvarint_len5 x : x < two35 -> (1 <= length (put_uvarint x) <= 5)%nat.
Proof.
  intros H. unfold put_uvarint. apply uv_enc_fuel_len; try lia.
  change (128 ^ N.of_nat 5) with 34359738368. exact H.
Qed.

Lemma put_uvarint_bytes_ok x : bytes_ok (put_uvarint x).
Proof.
  unfold put_uvarint. generalize 10%nat. intros f. revert x.
  induction f as [|f IH]; intros x; cbn [uv_enc_fuel]; [constructor|].
  destruct (x <? 128) eqn:E.
  - apply N.ltb_lt in E. constructor; [unfold byte_ok; lia|constructor].
  - constructor; [|apply IH]. unfold byte_ok.
    pose proof (N.mod_lt x 128 ltac:(discriminate)). lia.
Qed.

(* the window reader finds the writer's prefix: value and number of bytes *)
Lemma uvarint5_put (p rest : list N) x :
  x < two35 -> (5 <= length (put_uvarint x ++ rest))%nat ->
  uvarint5 (p ++ put_uvarint x ++ rest) (blen p) = Some (x, blen (put_uvarint x)).
Proof.
  intros Hx Hlen. unfold uvarint5, sub. rewrite skipn_blen_app.
  pose proof (put_uvarint_len5 x Hx) as Hl.
  change (N.to_nat 5) with 5%nat.
  rewrite firstn_app.
  rewrite firstn_all2 by lia.
  rewrite get_put_uvarint by (unfold u64_ok, two64N, two35 in *; lia).
  f_equal. f_equal. rewrite app_length in Hlen.
  unfold blen. rewrite firstn_length. lia.
Qed.

(* ================================================================ frames with a uvarint length *)
(* the common shape of NewDecbufUvarintAt (extra = 0) and ChunkOrIterable (extra = 1):
   uvarint l | extra + l bytes | crc32 of those bytes *)
Section Framed.
Variable crc : list N -> N.

Definition framed_at (extra : N) (bs : list N) (off : N) : rres (list N) :=
  let len := blen bs in
  if len <? off + 5 then RErr RSize else
  match uvarint5 bs off with
  | None => RErr RVarint
  | Some (l, n) =>
      if len <? off + n + (extra + l) + 4 then RErr RSize else
      let b := sub bs (off + n) (extra + l) in
      match be32_at bs (off + n + (extra + l)) with
      | Some c => if crc b =? c then ROk b else RErr RCrc
      | None => RErr RPanic
      end
  end.

Lemma decbuf_uvarint_at_framed bs off : decbuf_uvarint_at crc bs off = framed_at 0 bs off.
Proof. unfold decbuf_uvarint_at, framed_at. reflexivity. Qed.

Lemma chunk_at_framed seg start :
  chunk_at crc seg start =
  match framed_at 1 seg start with
  | ROk [] => RErr RPanic
  | ROk (enc :: data) => if valid_enc enc then ROk (enc, data) else RErr REnc
  | RErr e => RErr e
  end.
Proof.
  unfold chunk_at, framed_at.
  destruct (blen seg <? start + 5); [reflexivity|].
  destruct (uvarint5 seg start) as [[l n]|]; [|reflexivity].
  replace (start + n + 1 + l + 4) with (start + n + (1 + l) + 4) by lia.
  destruct (blen seg <? start + n + (1 + l) + 4); [reflexivity|].
  replace (start + n + 1 + l) with (start + n + (1 + l)) by lia.
  destruct (be32_at seg (start + n + (1 + l))) as [c|]; [|reflexivity].
  destruct (crc (sub seg (start + n) (1 + l)) =? c); reflexivity.
Qed.

(* what the writers produce: uvarint(len body - extra) | body | be32 (crc body) *)
Definition frame (extra : N) (body : list N) : list N :=
  put_uvarint (blen body - extra) ++ body ++ put_be32 (crc body).

Hypothesis crc_range : forall l, crc l < 4294967296.

Lemma framed_at_frame extra body p s :
  extra <= blen body -> blen body - extra < two35 ->
  framed_at extra (p ++ frame extra body ++ s) (blen p) = ROk body.
Proof.
  intros He Hl. unfold framed_at, frame.
  set (pre := put_uvarint (blen body - extra)).
  assert (Hpl : (1 <= length pre <= 5)%nat) by (apply put_uvarint_len5; exact Hl).
  assert (Hc4 : length (put_be32 (crc body)) = 4%nat) by apply be_enc_length.
  rewrite <- !app_assoc.
  assert (Hlen : blen (p ++ pre ++ body ++ put_be32 (crc body) ++ s) =
                 blen p + blen pre + blen body + 4 + blen s).
  { rewrite !blen_app. unfold blen at 4. rewrite Hc4. lia. }
  rewrite Hlen.
  assert (Hpre : blen pre <= 5) by (unfold blen; lia).
  assert (Hpre1 : 1 <= blen pre) by (unfold blen; lia).
  destruct (_ <? blen p + 5) eqn:E1; [apply N.ltb_lt in E1; lia|].
  unfold pre at 1. rewrite uvarint5_put; [| exact Hl |].
  2:{ fold pre. rewrite !app_length, Hc4. lia. }
  fold pre.
  replace (extra + (blen body - extra)) with (blen body) by lia.
  destruct (_ <? blen p + blen pre + blen body + 4) eqn:E2; [apply N.ltb_lt in E2; lia|].
  rewrite sub_mid_add.
  replace (p ++ pre ++ body ++ put_be32 (crc body) ++ s) with ((p ++ pre ++ body) ++ put_be32 (crc body) ++ s)
    by (rewrite <- !app_assoc; reflexivity).
  replace (blen p + blen pre + blen body) with (blen (p ++ pre ++ body)) by (rewrite !blen_app; lia).
  rewrite be32_at_mid by apply crc_range.
  rewrite N.eqb_refl. reflexivity.
Qed.

(* ---- corruption: any single byte altered in the body or in the stored checksum *)
Hypothesis crc_detects : forall l pos b,
  bytes_ok l -> b < 256 -> (pos < length l)%nat -> nth pos l 0 <> b -> crc (alter pos b l) <> crc l.

Lemma framed_at_alter extra body p s pos b :
  extra <= blen body -> blen body - extra < two35 -> bytes_ok body -> b < 256 ->
  let pre := put_uvarint (blen body - extra) in
  let rec := frame extra body in
  (length pre <= pos < length rec)%nat ->
  nth pos rec 0 <> b ->
  framed_at extra (alter (length p + pos) b (p ++ rec ++ s)) (blen p) = RErr RCrc.
Proof.
  intros He Hl Hbody Hb pre rec Hpos Hne.
  rewrite alter_app_r. rewrite alter_app_l by lia.
  unfold rec, frame in *. fold pre in Hpos, Hne |- *.
  assert (Hpl : (1 <= length pre <= 5)%nat) by (apply put_uvarint_len5; exact Hl).
  assert (Hc4 : length (put_be32 (crc body)) = 4%nat) by apply be_enc_length.
  (* the alteration is behind the prefix *)
  replace pos with (length pre + (pos - length pre))%nat by lia.
  rewrite alter_app_r.
  set (q := (pos - length pre)%nat).
  assert (Hq : nth q (body ++ put_be32 (crc body)) 0 <> b).
  { intro E. apply Hne. rewrite app_nth2 by lia. exact E. }
  assert (Hqlen : (q < length body + 4)%nat).
  { rewrite !app_length, Hc4 in Hpos. unfold q. lia. }
  set (tail := alter q b (body ++ put_be32 (crc body))).
  assert (Htl : length tail = (length body + 4)%nat).
  { unfold tail. rewrite alter_length, app_length, Hc4. reflexivity. }
  unfold framed_at.
  rewrite <- !app_assoc.
  assert (Hlen : blen (p ++ pre ++ tail ++ s) = blen p + blen pre + blen body + 4 + blen s).
  { rewrite !blen_app. unfold blen at 3. rewrite Htl. unfold blen. lia. }
  rewrite Hlen.
  assert (Hpre : blen pre <= 5) by (unfold blen; lia).
  assert (Hpre1 : 1 <= blen pre) by (unfold blen; lia).
  destruct (_ <? blen p + 5) eqn:E1; [apply N.ltb_lt in E1; lia|].
  unfold pre at 1. rewrite uvarint5_put; [| exact Hl |].
  2:{ fold pre. rewrite !app_length, Htl. lia. }
  fold pre.
  replace (extra + (blen body - extra)) with (blen body) by lia.
  destruct (_ <? blen p + blen pre + blen body + 4) eqn:E2; [apply N.ltb_lt in E2; lia|].
  (* split the altered tail into body' and sum' *)
  destruct (Nat.ltb q (length body)) eqn:Eq; [apply Nat.ltb_lt in Eq | apply Nat.ltb_ge in Eq].
  - (* the body is altered, the stored sum is intact *)
    assert (Ht : tail = alter q b body ++ put_be32 (crc body)).
    { unfold tail. apply alter_app_l. exact Eq. }
    rewrite Ht. rewrite <- !app_assoc.
    assert (Hbl : blen (alter q b body) = blen body) by (unfold blen; rewrite alter_length; reflexivity).
    rewrite (sub_mid_add' p pre (alter q b body)) by (symmetry; exact Hbl).
    replace (p ++ pre ++ alter q b body ++ put_be32 (crc body) ++ s)
      with ((p ++ pre ++ alter q b body) ++ put_be32 (crc body) ++ s) by (rewrite <- !app_assoc; reflexivity).
    replace (blen p + blen pre + blen body) with (blen (p ++ pre ++ alter q b body))
      by (rewrite !blen_app, Hbl; lia).
    rewrite be32_at_mid by apply crc_range.
    destruct (crc (alter q b body) =? crc body) eqn:Ec; [|reflexivity].
    apply N.eqb_eq in Ec. exfalso.
    apply (crc_detects body q b Hbody Hb Eq); [|exact Ec].
    intro E. apply Hq. rewrite app_nth1 by exact Eq. exact E.
  - (* the stored sum is altered, the body is intact *)
    assert (Ht : tail = body ++ alter (q - length body) b (put_be32 (crc body))).
    { unfold tail. replace q with (length body + (q - length body))%nat at 1 by lia. apply alter_app_r. }
    rewrite Ht. rewrite <- !app_assoc.
    rewrite sub_mid_add.
    set (sum' := alter (q - length body) b (put_be32 (crc body))).
    replace (p ++ pre ++ body ++ sum' ++ s) with ((p ++ pre ++ body) ++ sum' ++ s)
      by (rewrite <- !app_assoc; reflexivity).
    replace (blen p + blen pre + blen body) with (blen (p ++ pre ++ body)) by (rewrite !blen_app; lia).
    unfold be32_at. rewrite skipn_blen_app.
    destruct (be_take 4 0 (sum' ++ s)) as [[c' r']|] eqn:Ebt.
    + destruct (crc body =? c') eqn:Ec; [|reflexivity].
      apply N.eqb_eq in Ec. exfalso.
      assert (Horig : be_take 4 0 (put_be32 (crc body) ++ s) = Some (crc body, s)).
      { unfold put_be32. rewrite be_take_enc. change (256 ^ N.of_nat 4) with 4294967296.
        rewrite N.mod_small by apply crc_range. reflexivity. }
      assert (Hs' : sum' ++ s = alter (q - length body) b (put_be32 (crc body) ++ s)).
      { unfold sum'. symmetry. apply alter_app_l. rewrite Hc4. lia. }
      rewrite Hs' in Ebt.
      assert (Hbs : forall n, nth n (put_be32 (crc body) ++ s) 0 = nth n (put_be32 (crc body)) 0 \/ (length (put_be32 (crc body)) <= n)%nat).
      { intros n. destruct (Nat.ltb n (length (put_be32 (crc body)))) eqn:En;
          [apply Nat.ltb_lt in En; left; apply app_nth1; exact En | apply Nat.ltb_ge in En; right; exact En]. }
      (* work on the 4 byte field alone: be_take 4 ignores what follows *)
      assert (Hfield : forall l4 t, length l4 = 4%nat -> be_take 4 0 (l4 ++ t) =
                match be_take 4 0 l4 with Some (x, _) => Some (x, t) | None => None end).
      { intros l4 t H4. destruct l4 as [|a [|b0 [|c0 [|d0 [|? ?]]]]]; simpl in H4; try lia. reflexivity. }
      rewrite Hfield in Horig by exact Hc4.
      rewrite <- Hs' in Ebt. rewrite Hfield in Ebt by (unfold sum'; rewrite alter_length; exact Hc4).
      destruct (be_take 4 0 (put_be32 (crc body))) as [[x0 r0]|] eqn:E0; [|discriminate].
      destruct (be_take 4 0 sum') as [[x1 r1]|] eqn:E1'; [|discriminate].
      inversion Horig; subst x0. inversion Ebt; subst x1.
      refine (be_take_alter 4 0 (put_be32 (crc body)) (q - length body) b _ _ _ _ _ Hb _ _ _ E0 E1' Ec).
      * apply be_enc_bytes_ok.
      * lia.
      * rewrite Hc4. lia.
      * intro E. apply Hq. rewrite app_nth2 by lia. exact E.
    + exfalso. destruct (be_take_some 4 0 (sum' ++ s)) as (x & r & Hx); [|congruence].
      rewrite app_length. unfold sum'. rewrite alter_length, Hc4. lia.
Qed.

End Framed.

(* ================================================================ series entries: content round trip *)
Lemma lift_ok {A} (a : A) : lift (Ok a) = ROk a.
Proof. reflexivity. Qed.

Lemma add64_comm a b : add64 a b = add64 b a.
Proof. unfold add64. f_equal. lia. Qed.

Lemma sub64_int64 a b : int64 (sub64 a b).
Proof. apply wrap64_range. Qed.

(* int64(uint64(d)) + base, where d was computed as x - base with wrap-around, is x again *)
Lemma delta_restore base x : int64 x -> add64 (to_i64 (to_u64 (sub64 x base))) base = x.
Proof.
  intros H. rewrite to_i64_to_u64. unfold sub64 at 1. rewrite wrap64_idem.
  rewrite add64_comm. apply delta64_restore. exact H.
Qed.

Lemma sym_index_lookup syms s i : sym_index syms s = Some i -> lookup_sym syms i = ROk s.
Proof.
  revert i; induction syms as [|x r IH]; intros i H; [discriminate|].
  cbn [sym_index] in H. unfold lookup_sym.
  destruct (bytes_eqb x s) eqn:E.
  - apply bytes_eqb_eq in E. inversion H; subst. rewrite blen_cons.
    destruct (1 + blen r <=? 0) eqn:E1; [apply N.leb_le in E1; lia|]. reflexivity.
  - destruct (sym_index r s) as [j|] eqn:Ej; [|discriminate]. inversion H; subst.
    specialize (IH j eq_refl). unfold lookup_sym in IH.
    rewrite blen_cons.
    destruct (blen r <=? j) eqn:E2; [discriminate|]. apply N.leb_gt in E2.
    destruct (1 + blen r <=? j + 1) eqn:E3; [apply N.leb_le in E3; lia|].
    replace (N.to_nat (j + 1)) with (S (N.to_nat j)) by lia. cbn [nth_error]. exact IH.
Qed.

Lemma sym_index_bound syms s i : sym_index syms s = Some i -> i < blen syms.
Proof.
  revert i; induction syms as [|x r IH]; intros i H; [discriminate|].
  cbn [sym_index] in H. rewrite blen_cons. destruct (bytes_eqb x s).
  - inversion H. lia.
  - destruct (sym_index r s) as [j|]; [|discriminate]. inversion H. specialize (IH j eq_refl). lia.
Qed.

Lemma enc_label_refs_len lr : (length lr <= length (enc_label_refs lr))%nat.
Proof.
  induction lr as [|[i j] lr IH]; [simpl; lia|].
  cbn [enc_label_refs flat_map]. fold (enc_label_refs lr). rewrite !app_length.
  pose proof (put_uvarint_nonempty i) as H1.
  destruct (put_uvarint i); [congruence|]. simpl length. lia.
Qed.

Lemma enc_chunks_rest_len : forall cs t0 r0, (length cs <= length (enc_chunks_rest t0 r0 cs))%nat.
Proof.
  induction cs as [|c cs IH]; intros t0 r0; [simpl; lia|].
  cbn [enc_chunks_rest]. rewrite !app_length.
  specialize (IH (cm_max c) (to_i64 (cm_ref c))).
  pose proof (put_uvarint_nonempty (to_u64 (sub64 (cm_min c) t0))) as H1.
  destruct (put_uvarint (to_u64 (sub64 (cm_min c) t0))); [congruence|]. simpl length. lia.
Qed.

Section SeriesRT.
Variable syms : list bstr.
Hypothesis syms_small : blen syms <= 4294967296.     (* uint32 symbol references *)

Lemma dec_labels_enc : forall ls lr fuel rest,
  label_refs syms ls = Some lr -> (length ls <= fuel)%nat ->
  dec_labels (lookup_sym syms) fuel (Z.of_nat (length ls)) (enc_label_refs lr ++ rest) = ROk (ls, rest).
Proof.
  induction ls as [|[n v] ls IH]; intros lr fuel rest Hlr Hf.
  - simpl in Hlr. inversion Hlr; subst. destruct fuel; reflexivity.
  - cbn [label_refs] in Hlr.
    destruct (sym_index syms n) as [i|] eqn:Ei; [|discriminate].
    destruct (sym_index syms v) as [j|] eqn:Ej; [|discriminate].
    destruct (label_refs syms ls) as [t|] eqn:Et; [|discriminate].
    inversion Hlr; subst lr. clear Hlr.
    destruct fuel as [|f]; [simpl in Hf; lia|].
    cbn [dec_labels].
    match goal with |- context [(?k <=? 0)%Z] =>
      assert (Ek : (k <=? 0)%Z = false) by (apply Z.leb_gt; simpl length; lia); rewrite Ek; clear Ek end.
    cbn [enc_label_refs flat_map]. rewrite <- !app_assoc.
    pose proof (sym_index_bound _ _ _ Ei) as Bi. pose proof (sym_index_bound _ _ _ Ej) as Bj.
    unfold dbind at 1. rewrite d_uvarint32_put by lia.
    unfold dbind at 1. rewrite d_uvarint32_put by lia.
    unfold dret.
    rewrite (sym_index_lookup _ _ _ Ei), (sym_index_lookup _ _ _ Ej). cbn [rbind].
    replace (Z.of_nat (length ((n, v) :: ls)) - 1)%Z with (Z.of_nat (length ls)) by (simpl length; lia).
    fold (enc_label_refs t).
    rewrite (IH t f rest eq_refl) by (simpl in Hf; lia). reflexivity.
Qed.

Definition cmeta_ok (c : cmeta) : Prop := u64_ok (cm_ref c) /\ int64 (cm_min c) /\ int64 (cm_max c).

Lemma dec_chunks_rest_enc : forall cs fuel t0 ref0 rest,
  Forall cmeta_ok cs -> int64 ref0 -> (length cs <= fuel)%nat ->
  dec_chunks_rest fuel (Z.of_nat (length cs)) t0 ref0 (enc_chunks_rest t0 ref0 cs ++ rest) = ROk cs.
Proof.
  induction cs as [|c cs IH]; intros fuel t0 ref0 rest Hok Hr Hf.
  - destruct fuel; reflexivity.
  - inversion Hok as [|? ? [Hu [Hmin Hmax]] Hok']; subst.
    destruct fuel as [|f]; [simpl in Hf; lia|].
    cbn [dec_chunks_rest].
    match goal with |- context [(?k <=? 0)%Z] =>
      assert (Ek : (k <=? 0)%Z = false) by (apply Z.leb_gt; simpl length; lia); rewrite Ek; clear Ek end.
    cbn [enc_chunks_rest]. rewrite <- !app_assoc.
    unfold dbind at 1. rewrite d_uvarint64_put by apply to_u64_ok.
    unfold dbind at 1. rewrite d_uvarint64_put by apply to_u64_ok.
    unfold dbind at 1. rewrite d_varint64_put by apply sub64_int64.
    unfold dret.
    rewrite (delta_restore t0 (cm_min c) Hmin).
    rewrite (delta_restore (cm_min c) (cm_max c) Hmax).
    rewrite (delta64_restore ref0 (to_i64 (cm_ref c)) (to_i64_range _)).
    rewrite (to_u64_to_i64 _ Hu).
    replace (Z.of_nat (length (c :: cs)) - 1)%Z with (Z.of_nat (length cs)) by (simpl length; lia).
    rewrite (IH f (cm_max c) (to_i64 (cm_ref c)) rest Hok' (to_i64_range _)) by (simpl in Hf; lia).
    cbn [rbind]. destruct c; reflexivity.
Qed.

Lemma dec_chunks_enc cs :
  Forall cmeta_ok cs -> blen cs < 9223372036854775808 ->
  dec_chunks (enc_chunks cs) = ROk cs.
Proof.
  intros Hok Hlen. unfold dec_chunks, enc_chunks.
  rewrite d_uvarint_int_put by exact Hlen.
  destruct cs as [|c cs].
  - reflexivity.
  - inversion Hok as [|? ? [Hu [Hmin Hmax]] Hok']; subst.
    match goal with |- context [(?k =? 0)%Z] =>
      assert (E0 : (k =? 0)%Z = false) by (apply Z.eqb_neq; rewrite blen_cons; lia); rewrite E0 end.
    rewrite <- ?app_assoc.
    unfold dbind at 1. rewrite d_varint64_put by exact Hmin.
    unfold dbind at 1. rewrite d_uvarint64_put by apply to_u64_ok.
    unfold dbind at 1. rewrite d_uvarint64_put by exact Hu.
    unfold dret.
    rewrite (delta_restore (cm_min c) (cm_max c) Hmax).
    replace (Z.of_N (blen (c :: cs)) - 1)%Z with (Z.of_nat (length cs)) by (unfold blen; simpl length; lia).
    rewrite <- (app_nil_r (enc_chunks_rest _ _ cs)).
    rewrite (dec_chunks_rest_enc cs _ (cm_max c) (to_i64 (cm_ref c)) [] Hok' (to_i64_range _)).
    + cbn [rbind]. rewrite (to_u64_to_i64 _ Hu). destruct c; reflexivity.
    + rewrite app_nil_r. pose proof (enc_chunks_rest_len cs (cm_max c) (to_i64 (cm_ref c))). lia.
Qed.

(* Decoder.Series on the bytes AddSeries put into buf2 *)
Lemma dec_series_enc ls lr cs :
  label_refs syms ls = Some lr ->
  Forall cmeta_ok cs -> blen ls < 9223372036854775808 -> blen cs < 9223372036854775808 ->
  dec_series (lookup_sym syms) (enc_series_content lr cs) = ROk (ls, cs).
Proof.
  intros Hlr Hok Hl Hc. unfold dec_series, enc_series_content.
  assert (Hlen : length lr = length ls).
  { clear -Hlr. revert lr Hlr. induction ls as [|[n v] ls IH]; intros lr H; simpl in H.
    - inversion H; reflexivity.
    - destruct (sym_index syms n), (sym_index syms v), (label_refs syms ls) eqn:E; try discriminate.
      inversion H; subst. simpl. f_equal. apply IH. reflexivity. }
  rewrite d_uvarint_int_put by (unfold blen in *; rewrite Hlen; exact Hl).
  replace (Z.of_N (blen lr)) with (Z.of_nat (length ls)) by (unfold blen; rewrite Hlen; lia).
  rewrite (dec_labels_enc ls lr _ (enc_chunks cs) Hlr)
    by (pose proof (enc_label_refs_len lr); rewrite app_length; lia).
  cbn [rbind]. rewrite (dec_chunks_enc cs Hok Hc). reflexivity.
Qed.
End SeriesRT.

Lemma sub_at (p a m s : list N) o k : o = blen p + blen a -> k = blen m -> sub (p ++ a ++ m ++ s) o k = m.
Proof. intros -> ->. apply sub_mid_add. Qed.

Lemma be32_at_mid' (p s : list N) c o : o = blen p -> c < 4294967296 -> be32_at (p ++ put_be32 c ++ s) o = Some c.
Proof. intros ->. apply be32_at_mid. Qed.

(* ================================================================ frames with a BE32 length (NewDecbufAt) *)
Section BE32Frame.
Variable crc : list N -> N.
Hypothesis crc_range : forall l, crc l < 4294967296.

Lemma put_be32_blen x : blen (put_be32 x) = 4.
Proof. unfold blen, put_be32. rewrite be_enc_length. reflexivity. Qed.

Lemma decbuf_at_frame content p s :
  blen content < 4294967296 ->
  decbuf_at crc (p ++ frame_be32 crc content ++ s) (blen p) = ROk content.
Proof.
  intros Hl. unfold decbuf_at, frame_be32. rewrite <- !app_assoc.
  set (L := put_be32 (blen content)). set (C := put_be32 (crc content)).
  assert (HL : blen L = 4) by apply put_be32_blen.
  assert (HC : blen C = 4) by apply put_be32_blen.
  assert (Hlen : blen (p ++ L ++ content ++ C ++ s) = blen p + 4 + blen content + 4 + blen s)
    by (rewrite !blen_app, HL, HC; lia).
  rewrite Hlen.
  destruct (_ <? blen p + 4) eqn:E1; [apply N.ltb_lt in E1; lia|].
  pose proof (be32_at_mid p (content ++ C ++ s) (blen content) Hl) as HB. fold L in HB. rewrite HB.
  destruct (_ <? blen p + 4 + blen content + 4) eqn:E2; [apply N.ltb_lt in E2; lia|].
  rewrite (sub_at p L content (C ++ s)) by (rewrite ?HL; reflexivity).
  assert (HB2 : be32_at (p ++ L ++ content ++ C ++ s) (blen p + 4 + blen content) = Some (crc content)).
  { replace (p ++ L ++ content ++ C ++ s) with ((p ++ L ++ content) ++ C ++ s) by (rewrite <- !app_assoc; reflexivity).
    apply be32_at_mid'; [rewrite !blen_app, HL; lia | apply crc_range]. }
  rewrite HB2, N.eqb_refl. reflexivity.
Qed.
End BE32Frame.

(* ================================================================ postings *)
Lemma drepeat_be32 : forall refs rest,
  Forall (fun r => r < 4294967296) refs ->
  drepeat (length refs) d_be32 (flat_map put_be32 refs ++ rest) = Ok (refs, rest).
Proof.
  induction refs as [|r refs IH]; intros rest H; [reflexivity|].
  inversion H as [|? ? Hr H']; subst.
  cbn [length drepeat flat_map]. rewrite <- app_assoc.
  unfold dbind at 1. rewrite d_be32_put by exact Hr.
  unfold dbind at 1. rewrite (IH rest H'). reflexivity.
Qed.

Lemma flat_map_be32_blen refs : blen (flat_map put_be32 refs) = 4 * blen refs.
Proof.
  induction refs as [|r refs IH]; [reflexivity|].
  cbn [flat_map]. rewrite blen_app, blen_cons, IH.
  unfold blen, put_be32. rewrite be_enc_length. lia.
Qed.

Lemma dec_postings_enc refs :
  Forall (fun r => r < 4294967296) refs -> blen refs < 4294967296 ->
  dec_postings (enc_postings_content refs) = ROk refs.
Proof.
  intros H Hl. unfold dec_postings, enc_postings_content.
  rewrite d_be32_put by exact Hl.
  rewrite flat_map_be32_blen, N.eqb_refl. cbn [negb].
  unfold blen. rewrite Nnat.Nat2N.id.
  rewrite <- (app_nil_r (flat_map put_be32 refs)).
  rewrite (drepeat_be32 refs [] H). reflexivity.
Qed.

(* ================================================================ symbols *)
Definition bs_lt (a b : list N) : Prop := bs_ltb a b = true.

Lemma bs_ltb_irrefl a : bs_ltb a a = false.
Proof. induction a as [|x a IH]; simpl; auto. rewrite N.ltb_irrefl. exact IH. Qed.

Lemma bs_ltb_trans : forall a b c, bs_ltb a b = true -> bs_ltb b c = true -> bs_ltb a c = true.
Proof.
  induction a as [|x a IH]; intros [|y b] [|z c] H1 H2; simpl in *; try discriminate; auto.
  destruct (N.ltb_spec x y), (N.ltb_spec y x), (N.ltb_spec y z), (N.ltb_spec z y),
           (N.ltb_spec x z), (N.ltb_spec z x); try discriminate; try lia; auto.
  eapply IH; eauto.
Qed.

Lemma symbols_sortedb_sorted : forall l last,
  symbols_sortedb last l = true ->
  StronglySorted bs_lt l /\ (forall p, last = Some p -> Forall (bs_lt p) l).
Proof.
  induction l as [|s l IH]; intros last H.
  - split; [constructor|intros; constructor].
  - cbn [symbols_sortedb] in H. apply andb_true_iff in H as [H1 H2].
    destruct (IH (Some s) H2) as [Hs Hf]. specialize (Hf s eq_refl).
    split.
    + constructor; assumption.
    + intros p ->. constructor; [exact H1|].
      eapply Forall_impl; [|exact Hf]. intros a Ha. unfold bs_lt in *. eapply bs_ltb_trans; eauto.
Qed.

Lemma strongly_sorted_nodup l : StronglySorted bs_lt l -> NoDup l.
Proof.
  induction 1 as [|a l Hs IH Hf]; constructor; auto.
  intro Hin. rewrite Forall_forall in Hf. specialize (Hf a Hin). unfold bs_lt in Hf.
  rewrite bs_ltb_irrefl in Hf. discriminate.
Qed.

Lemma flat_map_uvb_len l : (length l <= length (flat_map put_uvarint_bytes l))%nat.
Proof.
  induction l as [|s l IH]; [simpl; lia|].
  cbn [flat_map]. rewrite app_length.
  pose proof (put_uvarint_bytes_nonempty s). destruct (put_uvarint_bytes s); [congruence|]. simpl length. lia.
Qed.

Lemma dec_symbols_loop_enc : forall l fuel rest,
  Forall (fun s => blen s < 9223372036854775808) l -> (length l <= fuel)%nat ->
  dec_symbols_loop fuel (blen l) (flat_map put_uvarint_bytes l ++ rest) = ROk l.
Proof.
  induction l as [|s l IH]; intros fuel rest H Hf.
  - destruct fuel; reflexivity.
  - inversion H as [|? ? Hs H']; subst.
    destruct fuel as [|f]; [simpl in Hf; lia|].
    cbn [dec_symbols_loop]. rewrite blen_cons.
    destruct (1 + blen l =? 0) eqn:E; [apply N.eqb_eq in E; lia|].
    cbn [flat_map]. rewrite <- app_assoc.
    rewrite d_uvarint_bytes_put by exact Hs.
    replace (1 + blen l - 1) with (blen l) by lia.
    rewrite (IH f rest H') by (simpl in Hf; lia). reflexivity.
Qed.

Lemma dec_symbols_enc l :
  Forall (fun s => blen s < 9223372036854775808) l -> blen l < 4294967296 ->
  dec_symbols (enc_symbols_content l) = ROk l.
Proof.
  intros H Hl. unfold dec_symbols, enc_symbols_content.
  rewrite d_be32_put by exact Hl.
  rewrite <- (app_nil_r (flat_map put_uvarint_bytes l)).
  apply dec_symbols_loop_enc; [exact H|].
  rewrite app_nil_r. pose proof (flat_map_uvb_len l). lia.
Qed.

(* ================================================================ the property theorems *)
Section Main.
Variable crc : list N -> N.
Hypothesis crc_range : forall l, crc l < 4294967296.

Lemma enc_chunk_record_frame enc data : enc_chunk_record crc enc data = frame crc 1 (enc :: data).
Proof.
  unfold enc_chunk_record, frame. rewrite blen_cons.
  replace (1 + blen data - 1) with (blen data) by lia. reflexivity.
Qed.

Theorem chunk_record_roundtrip enc data pre suf :
  valid_enc enc = true -> blen data < two35 ->
  chunk_at crc (pre ++ enc_chunk_record crc enc data ++ suf) (blen pre) = ROk (enc, data).
Proof.
  intros Hv Hl. rewrite chunk_at_framed, enc_chunk_record_frame.
  rewrite (framed_at_frame crc crc_range 1 (enc :: data) pre suf).
  - rewrite Hv. reflexivity.
  - rewrite blen_cons. lia.
  - rewrite blen_cons. replace (1 + blen data - 1) with (blen data) by lia. exact Hl.
Qed.

Lemma frame_uvarint_frame content : frame_uvarint crc content = frame crc 0 content.
Proof. unfold frame_uvarint, frame. rewrite N.sub_0_r. reflexivity. Qed.

Theorem series_entry_roundtrip syms ls cs entry pre suf id :
  blen syms <= 4294967296 ->
  enc_series_entry crc syms ls cs = Some entry ->
  Forall cmeta_ok cs ->
  blen entry < two35 ->
  blen pre = id * 16 ->
  series_at crc syms (pre ++ entry ++ suf) id = ROk (ls, cs).
Proof.
  intros Hs He Hok Hl Hp. unfold enc_series_entry in He.
  destruct (label_refs syms ls) as [lr|] eqn:Elr; [|discriminate]. inversion He; subst entry. clear He.
  unfold series_at. rewrite <- Hp. rewrite decbuf_uvarint_at_framed, frame_uvarint_frame.
  set (content := enc_series_content lr cs) in *.
  assert (Hc : blen content < two35).
  { rewrite frame_uvarint_frame in Hl. unfold frame in Hl. rewrite !blen_app in Hl. lia. }
  rewrite (framed_at_frame crc crc_range 0 content pre suf) by (rewrite ?N.sub_0_r; [lia|exact Hc] || lia).
  cbn [rbind]. unfold content.
  assert (Hlr : length lr = length ls).
  { clear -Elr. revert lr Elr. induction ls as [|[n v] ls IH]; intros lr H; simpl in H.
    - inversion H; reflexivity.
    - destruct (sym_index syms n), (sym_index syms v), (label_refs syms ls) eqn:E; try discriminate.
      inversion H; subst. simpl. f_equal. apply IH. reflexivity. }
  assert (Hb1 : blen lr <= blen content).
  { unfold content, enc_series_content. rewrite !blen_app. pose proof (enc_label_refs_len lr). unfold blen. lia. }
  assert (Hb2 : blen cs <= blen content).
  { unfold content, enc_series_content, enc_chunks. rewrite !blen_app.
    destruct cs as [|c cs]; [unfold blen; simpl; lia|].
    rewrite !blen_app. pose proof (enc_chunks_rest_len cs (cm_max c) (to_i64 (cm_ref c))).
    pose proof (put_varint_nonempty (cm_min c)). destruct (put_varint (cm_min c)) eqn:E; [congruence|].
    unfold blen in *. simpl length. lia. }
  apply dec_series_enc; auto; unfold two35 in Hc; unfold blen in *; lia.
Qed.

Theorem postings_roundtrip refs pre suf :
  Forall (fun r => r < 4294967296) refs -> 4 + 4 * blen refs < 4294967296 ->
  postings_at crc (pre ++ enc_postings crc refs ++ suf) (blen pre) = ROk refs.
Proof.
  intros H Hl. unfold postings_at, enc_postings.
  rewrite (decbuf_at_frame crc crc_range).
  - cbn [rbind]. apply dec_postings_enc; [exact H|lia].
  - unfold enc_postings_content. rewrite blen_app, flat_map_be32_blen, put_be32_blen. exact Hl.
Qed.

Theorem symbols_roundtrip l bs pre suf :
  enc_symbols crc l = Some bs ->
  Forall (fun s => blen s < 9223372036854775808) l ->
  blen l < 4294967296 -> blen (enc_symbols_content l) < 4294967296 ->
  read_symbols crc (pre ++ bs ++ suf) (blen pre) = ROk l.
Proof.
  intros He Hs Hl Hc. unfold enc_symbols in He.
  destruct (symbols_sortedb None l); [|discriminate]. inversion He; subst bs.
  unfold read_symbols. rewrite (decbuf_at_frame crc crc_range) by exact Hc.
  cbn [rbind]. apply dec_symbols_enc; assumption.
Qed.

Theorem symbols_sorted_unique l bs :
  enc_symbols crc l = Some bs -> StronglySorted bs_lt l /\ NoDup l.
Proof.
  intros He. unfold enc_symbols in He.
  destruct (symbols_sortedb None l) eqn:E; [|discriminate].
  destruct (symbols_sortedb_sorted l None E) as [Hs _].
  split; [exact Hs | apply strongly_sorted_nodup; exact Hs].
Qed.

(* ---- corruption *)
Hypothesis crc_detects : forall l pos b,
  bytes_ok l -> b < 256 -> (pos < length l)%nat -> nth pos l 0 <> b -> crc (alter pos b l) <> crc l.

Theorem chunk_corruption_detected enc data pre suf pos b :
  blen data < two35 -> bytes_ok (enc :: data) -> b < 256 ->
  let rec := enc_chunk_record crc enc data in
  (length (put_uvarint (blen data)) <= pos < length rec)%nat ->       (* enc, data and crc bytes *)
  nth pos rec 0 <> b ->
  chunk_at crc (alter (length pre + pos) b (pre ++ rec ++ suf)) (blen pre) = RErr RCrc.
Proof.
  intros Hl Hok Hb rec Hpos Hne. rewrite chunk_at_framed. unfold rec in *.
  rewrite enc_chunk_record_frame in *.
  rewrite (framed_at_alter crc crc_range crc_detects 1 (enc :: data) pre suf pos b); auto.
  - rewrite blen_cons. lia.
  - rewrite blen_cons. replace (1 + blen data - 1) with (blen data) by lia. exact Hl.
  - rewrite blen_cons. replace (1 + blen data - 1) with (blen data) by lia. exact Hpos.
Qed.

Theorem series_corruption_detected syms content pre suf id pos b :
  blen content < two35 -> bytes_ok content -> b < 256 ->
  blen pre = id * 16 ->
  let rec := frame_uvarint crc content in
  (length (put_uvarint (blen content)) <= pos < length rec)%nat ->    (* content and crc bytes *)
  nth pos rec 0 <> b ->
  series_at crc syms (alter (length pre + pos) b (pre ++ rec ++ suf)) id = RErr RCrc.
Proof.
  intros Hl Hok Hb Hp rec Hpos Hne. unfold series_at. rewrite <- Hp.
  rewrite decbuf_uvarint_at_framed. unfold rec in *. rewrite frame_uvarint_frame in *.
  rewrite (framed_at_alter crc crc_range crc_detects 0 content pre suf pos b); auto.
  - lia.
  - rewrite N.sub_0_r. exact Hl.
  - rewrite N.sub_0_r. exact Hpos.
Qed.
End Main.

(* ================================================================ non-vacuity of the checksum hypotheses *)
(* a checksum that provably satisfies both Section hypotheses (range, detects every single byte
   alteration): the byte sum modulo 2^32.  CRC-32C satisfies them too (it detects every burst
   of at most 32 bits) but that fact is an oracle assumption, not proved here. *)
Definition bsum (l : list N) : N := fold_right N.add 0 l.
Definition sum32 (l : list N) : N := bsum l mod 4294967296.

Lemma sum32_range l : sum32 l < 4294967296.
Proof. unfold sum32. apply N.mod_lt. discriminate. Qed.

Lemma bsum_alter : forall l pos b, (pos < length l)%nat -> bsum (alter pos b l) + nth pos l 0 = bsum l + b.
Proof.
  induction l as [|x l IH]; intros pos b H; [simpl in H; lia|].
  destruct pos as [|pos]; cbn [alter bsum fold_right nth].
  - fold (bsum l). lia.
  - fold (bsum l). fold (bsum (alter pos b l)). specialize (IH pos b ltac:(simpl in H; lia)). lia.
Qed.

Lemma sum32_detects l pos b :
  bytes_ok l -> b < 256 -> (pos < length l)%nat -> nth pos l 0 <> b -> sum32 (alter pos b l) <> sum32 l.
Proof.
  intros Hl Hb Hp Hne. unfold sum32.
  pose proof (bsum_alter l pos b Hp) as E.
  assert (Ho : nth pos l 0 < 256).
  { unfold bytes_ok in Hl. rewrite Forall_forall in Hl. apply Hl. apply nth_In. exact Hp. }
  set (o := nth pos l 0) in *. set (s' := bsum (alter pos b l)) in *. set (s := bsum l) in *.
  intro Heq.
  pose proof (N.div_mod s' 4294967296 ltac:(discriminate)) as D1.
  pose proof (N.div_mod s 4294967296 ltac:(discriminate)) as D2.
  pose proof (N.mod_lt s 4294967296 ltac:(discriminate)) as M2.
  rewrite Heq in D1. nia.
Qed.

(* ================================================================ the length prefix *)
(* the value of a uvarint without shift and accumulator *)
Fixpoint uvv (n : nat) (bs : list N) : option (N * list N) :=
  match n with
  | O => None
  | S n' =>
      match bs with
      | [] => None
      | b :: r =>
          if b <? 128 then (if Nat.eqb n' 0 && (1 <? b) then None else Some (b, r))
          else match uvv n' r with Some (v, r') => Some ((b - 128) + 128 * v, r') | None => None end
      end
  end.

Lemma uv_dec_aux_uvv : forall n s acc w,
  uv_dec_aux n s acc w = match uvv n w with Some (v, r) => Some (acc + v * 2 ^ s, r) | None => None end.
Proof.
  induction n as [|n IH]; intros s acc w; [reflexivity|].
  destruct w as [|b r]; [reflexivity|]. cbn [uv_dec_aux uvv].
  destruct (b <? 128) eqn:E.
  - destruct (Nat.eqb n 0 && (1 <? b)); reflexivity.
  - rewrite IH. destruct (uvv n r) as [[v r']|]; [|reflexivity].
    f_equal. f_equal. rewrite N.pow_add_r. change (2 ^ 7) with 128. lia.
Qed.

Lemma uvv_len : forall n w v r, uvv n w = Some (v, r) -> (length r < length w)%nat.
Proof.
  induction n as [|n IH]; intros w v r H; [discriminate|].
  destruct w as [|b t]; [discriminate|]. cbn [uvv] in H.
  destruct (b <? 128).
  - destruct (Nat.eqb n 0 && (1 <? b)); [discriminate|]. inversion H; subst. simpl. lia.
  - destruct (uvv n t) as [[v' r']|] eqn:E; [|discriminate]. inversion H; subst.
    specialize (IH _ _ _ E). simpl. lia.
Qed.

(* same value and same number of consumed bytes => same bytes *)
Lemma uvv_inj : forall n w1 w2 v r1 r2,
  bytes_ok w1 -> bytes_ok w2 ->
  uvv n w1 = Some (v, r1) -> uvv n w2 = Some (v, r2) ->
  (length w1 - length r1 = length w2 - length r2)%nat ->
  firstn (length w1 - length r1) w1 = firstn (length w1 - length r1) w2.
Proof.
  induction n as [|n IH]; intros w1 w2 v r1 r2 H1 H2 E1 E2 Hk; [discriminate|].
  destruct w1 as [|b1 t1]; [discriminate|]. destruct w2 as [|b2 t2]; [discriminate|].
  inversion H1 as [|? ? Hb1 H1']; subst. inversion H2 as [|? ? Hb2 H2']; subst.
  unfold byte_ok in *. cbn [uvv] in E1, E2.
  destruct (b1 <? 128) eqn:L1; destruct (b2 <? 128) eqn:L2.
  - destruct (Nat.eqb n 0 && (1 <? b1)); [discriminate|].
    destruct (Nat.eqb n 0 && (1 <? b2)); [discriminate|].
    inversion E1; inversion E2; subst. subst.
    match goal with |- firstn ?k _ = firstn ?k _ => replace k with 1%nat by (simpl length; lia) end. reflexivity.
  - destruct (Nat.eqb n 0 && (1 <? b1)); [discriminate|]. inversion E1; subst.
    destruct (uvv n t2) as [[v2 r2']|] eqn:U2; [|discriminate]. inversion E2; subst.
    pose proof (uvv_len _ _ _ _ U2). simpl length in *. lia.
  - destruct (Nat.eqb n 0 && (1 <? b2)); [discriminate|]. inversion E2; subst.
    destruct (uvv n t1) as [[v1 r1']|] eqn:U1; [|discriminate]. inversion E1; subst.
    pose proof (uvv_len _ _ _ _ U1). simpl length in *. lia.
  - destruct (uvv n t1) as [[v1 r1']|] eqn:U1; [|discriminate].
    destruct (uvv n t2) as [[v2 r2']|] eqn:U2; [|discriminate].
    assert (A1 : b1 - 128 + 128 * v1 = v) by congruence. assert (A2 : r1' = r1) by congruence.
    assert (B1 : b2 - 128 + 128 * v2 = v) by congruence. assert (B2 : r2' = r2) by congruence.
    subst r1' r2'. clear E1 E2.
    apply N.ltb_ge in L1, L2.
    assert (b1 = b2 /\ v1 = v2) as [-> ->] by lia.
    pose proof (uvv_len _ _ _ _ U1) as Q1. pose proof (uvv_len _ _ _ _ U2) as Q2.
    simpl length in *.
    replace (S (length t1) - length r1)%nat with (S (length t1 - length r1)) by lia.
    cbn [firstn]. f_equal.
    apply (IH t1 t2 v2 r1 r2 H1' H2' U1 U2). lia.
Qed.

Lemma firstn_nth_eq : forall (k : nat) (a b : list N) pos, firstn k a = firstn k b -> (pos < k)%nat -> nth pos a 0 = nth pos b 0.
Proof.
  induction k as [|k IH]; intros a b pos H Hp; [lia|].
  destruct a as [|x a], b as [|y b]; simpl in H; try discriminate; auto.
  inversion H; subst. destruct pos; simpl; auto. apply IH; [assumption|lia].
Qed.

Lemma nth_firstn_lt : forall (k : nat) (l : list N) pos, (pos < k)%nat -> nth pos (firstn k l) 0 = nth pos l 0.
Proof.
  induction k as [|k IH]; intros l pos H; [lia|].
  destruct l as [|x l]; [destruct pos; reflexivity|]. destruct pos; simpl; auto. apply IH. lia.
Qed.

Lemma nth_alter_same : forall l pos b, (pos < length l)%nat -> nth pos (alter pos b l) 0 = b.
Proof.
  induction l as [|x l IH]; intros pos b H; [simpl in H; lia|].
  destruct pos; simpl; auto. apply IH. simpl in H. lia.
Qed.

Lemma firstn_alter : forall k l pos b, firstn k (alter pos b l) = alter pos b (firstn k l).
Proof.
  induction k as [|k IH]; intros l pos b.
  - destruct l, pos; reflexivity.
  - destruct l as [|x l]; [destruct pos; reflexivity|]. destruct pos; simpl; [reflexivity|]. rewrite IH. reflexivity.
Qed.

Lemma firstn_bytes_ok k l : bytes_ok l -> bytes_ok (firstn k l).
Proof. unfold bytes_ok. revert l; induction k; intros [|x l] H; simpl; try constructor; inversion H; auto. Qed.

Section Prefix.
Variable crc : list N -> N.

(* Altering a byte of the length prefix: whatever the reader then returns as data comes from a
   DIFFERENT record extent (another length or another start) — it never re-reads the original
   extent.  (That the checksum over the other extent then matches the four bytes behind it is a
   2^-32 coincidence which no single-byte property of the CRC excludes; hence `_partial`.) *)
Lemma framed_at_alter_prefix extra body p s pos b d :
  extra <= blen body -> blen body - extra < two35 -> bytes_ok body -> bytes_ok s -> b < 256 ->
  let pre := put_uvarint (blen body - extra) in
  (pos < length pre)%nat -> nth pos pre 0 <> b ->
  let file' := alter (length p + pos) b (p ++ frame crc extra body ++ s) in
  framed_at crc extra file' (blen p) = ROk d ->
  exists l' n', uvarint5 file' (blen p) = Some (l', n') /\ (l', n') <> (blen body - extra, blen pre).
Proof.
  intros He Hl Hbody Hs Hb pre Hpos Hne file' Hd.
  unfold framed_at in Hd.
  destruct (blen file' <? blen p + 5) eqn:E5; [discriminate|].
  destruct (uvarint5 file' (blen p)) as [[l' n']|] eqn:EU; [|discriminate].
  exists l', n'. split; [reflexivity|]. intro Heq. inversion Heq; subst l' n'. clear Heq Hd.
  (* the two 5 byte windows *)
  set (rest := body ++ put_be32 (crc body) ++ s).
  assert (Hfile : p ++ frame crc extra body ++ s = p ++ (pre ++ rest))
    by (unfold frame, rest; fold pre; rewrite <- !app_assoc; reflexivity).
  assert (Hpl : (1 <= length pre <= 5)%nat) by (apply put_uvarint_len5; exact Hl).
  assert (Hlen5 : (5 <= length (pre ++ rest))%nat).
  { apply N.ltb_ge in E5. unfold file' in E5. unfold blen in E5. rewrite alter_length, Hfile, app_length in E5.
    set (q := length (pre ++ rest)) in *. clearbody q. lia. }
  assert (Hf' : file' = p ++ alter pos b (pre ++ rest)).
  { unfold file'. rewrite Hfile. apply alter_app_r. }
  unfold uvarint5, sub in EU. rewrite Hf', skipn_blen_app in EU. change (N.to_nat 5) with 5%nat in EU.
  rewrite firstn_alter in EU.
  set (w := firstn 5 (pre ++ rest)) in *.
  assert (Hw : get_uvarint w = Some (blen body - extra, firstn (5 - length pre) rest)).
  { unfold w. rewrite firstn_app. rewrite firstn_all2 by lia. unfold pre.
    apply get_put_uvarint. unfold u64_ok, two64N, two35 in *. lia. }
  assert (Hwlen : length w = 5%nat) by (unfold w; rewrite firstn_length; lia).
  assert (Hwok : bytes_ok w).
  { unfold w. apply firstn_bytes_ok. unfold bytes_ok, rest. rewrite !Forall_app. repeat split.
    - apply put_uvarint_bytes_ok. - exact Hbody. - apply be_enc_bytes_ok. - exact Hs. }
  destruct (get_uvarint (alter pos b w)) as [[x r']|] eqn:EW; [|discriminate].
  assert (Hx : x = blen body - extra) by congruence.
  assert (Hn : 5 - blen r' = blen pre) by congruence. subst x. clear EU.
  unfold get_uvarint in Hw, EW. rewrite uv_dec_aux_uvv in Hw, EW.
  destruct (uvv 10 w) as [[v1 r1]|] eqn:U1; [|discriminate].
  destruct (uvv 10 (alter pos b w)) as [[v2 r2]|] eqn:U2; [|discriminate].
  change (2 ^ 0) with 1 in Hw, EW.
  assert (W1 : 0 + v1 * 1 = blen body - extra) by congruence.
  assert (W2 : r1 = firstn (5 - length pre) rest) by congruence.
  assert (W3 : 0 + v2 * 1 = blen body - extra) by congruence.
  assert (W4 : r2 = r') by congruence.
  subst r1 r2. clear Hw EW.
  assert (v1 = v2) by lia. subst v2.
  assert (Hr : length (firstn (5 - length pre) rest) = (5 - length pre)%nat).
  { rewrite firstn_length. rewrite app_length in Hlen5. lia. }
  assert (Hr' : length r' = (5 - length pre)%nat).
  { unfold blen in Hn. pose proof (uvv_len _ _ _ _ U2) as Q. rewrite alter_length, Hwlen in Q. lia. }
  pose proof (uvv_inj 10 w (alter pos b w) v1 _ _ Hwok (alter_bytes_ok pos b w Hwok Hb) U1 U2) as INJ.
  rewrite alter_length, Hwlen, Hr, Hr' in INJ. specialize (INJ eq_refl).
  assert (Hk : (pos < 5 - (5 - length pre))%nat) by lia.
  pose proof (firstn_nth_eq _ _ _ pos INJ Hk) as Hnth.
  rewrite nth_alter_same in Hnth by lia.
  apply Hne. rewrite <- Hnth. unfold w.
  rewrite nth_firstn_lt by lia. rewrite app_nth1 by exact Hpos. reflexivity.
Qed.
End Prefix.

Section PrefixMain.
Variable crc : list N -> N.

Theorem chunk_length_prefix_partial enc data pre suf pos b r :
  blen data < two35 -> bytes_ok (enc :: data) -> bytes_ok suf -> b < 256 ->
  (pos < length (put_uvarint (blen data)))%nat -> nth pos (put_uvarint (blen data)) 0 <> b ->
  let file' := alter (length pre + pos) b (pre ++ enc_chunk_record crc enc data ++ suf) in
  chunk_at crc file' (blen pre) = ROk r ->
  exists l' n', uvarint5 file' (blen pre) = Some (l', n') /\
                (l', n') <> (blen data, blen (put_uvarint (blen data))).
Proof.
  intros Hl Hok Hs Hb Hpos Hne file' Hr. unfold file' in *. clear file'.
  rewrite chunk_at_framed in Hr.
  assert (EF : enc_chunk_record crc enc data = frame crc 1 (enc :: data)).
  { unfold enc_chunk_record, frame. rewrite blen_cons.
    replace (1 + blen data - 1) with (blen data) by lia. reflexivity. }
  rewrite EF in *.
  match type of Hr with context [framed_at crc 1 ?f (blen pre)] =>
    destruct (framed_at crc 1 f (blen pre)) as [d|e] eqn:E end; [|discriminate].
  assert (H1 : blen (enc :: data) - 1 = blen data) by (rewrite blen_cons; lia).
  pose proof (framed_at_alter_prefix crc 1 (enc :: data) pre suf pos b d) as P.
  cbv zeta in P. rewrite H1 in P.
  apply P; [rewrite blen_cons; lia | exact Hl | exact Hok | exact Hs | exact Hb | exact Hpos | exact Hne | exact E].
Qed.

Theorem series_length_prefix_partial syms content pre suf id pos b r :
  blen content < two35 -> bytes_ok content -> bytes_ok suf -> b < 256 ->
  blen pre = id * 16 ->
  (pos < length (put_uvarint (blen content)))%nat -> nth pos (put_uvarint (blen content)) 0 <> b ->
  let file' := alter (length pre + pos) b (pre ++ frame_uvarint crc content ++ suf) in
  series_at crc syms file' id = ROk r ->
  exists l' n', uvarint5 file' (blen pre) = Some (l', n') /\
                (l', n') <> (blen content, blen (put_uvarint (blen content))).
Proof.
  intros Hl Hok Hs Hb Hp Hpos Hne file' Hr. unfold file' in *. clear file'.
  unfold series_at in Hr. rewrite <- Hp in Hr. rewrite decbuf_uvarint_at_framed in Hr.
  assert (EF : frame_uvarint crc content = frame crc 0 content)
    by (unfold frame_uvarint, frame; rewrite N.sub_0_r; reflexivity).
  rewrite EF in *.
  match type of Hr with context [framed_at crc 0 ?f (blen pre)] =>
    destruct (framed_at crc 0 f (blen pre)) as [d|e] eqn:E end; [|discriminate].
  pose proof (framed_at_alter_prefix crc 0 content pre suf pos b d) as P.
  cbv zeta in P. rewrite N.sub_0_r in P.
  apply P; [lia | exact Hl | exact Hok | exact Hs | exact Hb | exact Hpos | exact Hne | exact E].
Qed.
End PrefixMain.

(* ================================================================ LabelNamesFor and failing postings *)
(* index.Reader.LabelNamesFor never calls postings.Err(): whether the iterator stopped because it
   was exhausted or because it failed makes no difference to the answer *)
Theorem label_names_for_ignores_failure crc r ids e :
  label_names_for crc r ids (Some e) = label_names_for crc r ids None.
Proof. reflexivity. Qed.

(* so the statement "a failed postings iterator makes LabelNamesFor report an error" is false:
   an iterator that fails before delivering anything yields the empty list of names *)
Theorem label_names_for_refuted :
  exists crc r ids e res, label_names_for crc r ids (Some e) = ROk res.
Proof.
  exists (fun _ => 0), (mkIR [] (mkTOC 0 0 0 0 0 0) [] []), [], RCrc, []. reflexivity.
Qed.

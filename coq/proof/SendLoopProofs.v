(* proof/SendLoopProofs.v — proofs about model/SendLoop.v (property C46). *)
From Coq Require Import List ZArith Bool Lia Arith.
From Verif Require Import model.SendLoop.
Import ListNotations.
Open Scope Z_scope.

(* ------------------------------------------------------------------ subsequences *)

Inductive Subseq : list Z -> list Z -> Prop :=
| ss_nil : forall l, Subseq [] l
| ss_skip : forall l1 y l2, Subseq l1 l2 -> Subseq l1 (y :: l2)
| ss_take : forall x l1 l2, Subseq l1 l2 -> Subseq (x :: l1) (x :: l2).

Lemma Subseq_refl : forall l, Subseq l l.
Proof. induction l; [apply ss_nil | apply ss_take; auto]. Qed.

Lemma Subseq_tail : forall x l1 l2, Subseq (x :: l1) l2 -> Subseq l1 l2.
Proof.
  intros x l1 l2; revert x l1; induction l2 as [|y l2 IH]; intros x l1 H; inversion H; subst.
  - constructor. eapply IH; eauto.
  - constructor; auto.
Qed.

Lemma Subseq_trans : forall a b c, Subseq a b -> Subseq b c -> Subseq a c.
Proof.
  intros a b c Hab Hbc; revert a Hab; induction Hbc; intros a Hab.
  - inversion Hab; constructor.
  - constructor; auto.
  - inversion Hab; subst.
    + constructor.
    + constructor; auto.
    + apply ss_take; auto.
Qed.

Lemma Subseq_app : forall a b c d, Subseq a b -> Subseq c d -> Subseq (a ++ c) (b ++ d).
Proof.
  intros a b c d Hab Hcd; induction Hab; simpl.
  - induction l; simpl; auto. constructor; auto.
  - constructor; auto.
  - apply ss_take; auto.
Qed.

Lemma Subseq_skipn : forall n l, Subseq (skipn n l) l.
Proof.
  induction n; intros l; simpl.
  - apply Subseq_refl.
  - destruct l; [constructor|]. constructor; auto.
Qed.

Lemma Subseq_app_r : forall a b, Subseq b (a ++ b).
Proof. induction a; simpl; intros; [apply Subseq_refl | constructor; auto]. Qed.

Lemma Subseq_nil_app : forall a b c, Subseq (a ++ c) (a ++ b ++ c).
Proof. intros. apply Subseq_app; [apply Subseq_refl | apply Subseq_app_r]. Qed.

Lemma subseqb_complete : forall l2 l1, Subseq l1 l2 -> subseqb l1 l2 = true.
Proof.
  induction l2 as [|y l2 IH]; intros l1 H.
  - inversion H; reflexivity.
  - destruct l1 as [|x l1]; [reflexivity|]. simpl.
    destruct (x =? y) eqn:E.
    + apply IH. inversion H; subst; auto. eapply Subseq_tail; eauto.
    + apply IH. inversion H; subst; auto. rewrite Z.eqb_refl in E; discriminate.
Qed.

Lemma subseqb_sound : forall l2 l1, subseqb l1 l2 = true -> Subseq l1 l2.
Proof.
  induction l2 as [|y l2 IH]; intros l1 H.
  - destruct l1; [constructor | discriminate].
  - destruct l1 as [|x l1]; [constructor|]. simpl in H.
    destruct (x =? y) eqn:E.
    + apply Z.eqb_eq in E; subst. apply ss_take; auto.
    + constructor; auto.
Qed.

(* ------------------------------------------------------------------ list facts about flights *)

Definition nfl (a : actor) (fs : list flight) : nat :=
  length (filter (fun f => actor_eqb (f_actor f) a) fs).

Definition arrived_count (want : bool) (fs : list flight) : Z :=
  fold_right (fun f acc => match f_stat f with
                           | Arrived ok => if Bool.eqb ok want then len (f_batch f) + acc else acc
                           | Transit => acc end) 0 fs.

Lemma actor_eqb_refl : forall a, actor_eqb a a = true.
Proof. destruct a; reflexivity. Qed.

Lemma actor_eqb_eq : forall a b, actor_eqb a b = true -> a = b.
Proof. destruct a, b; simpl; congruence. Qed.

Lemma has_flight_nfl : forall a fs, has_flight a fs = false <-> nfl a fs = 0%nat.
Proof.
  intros a fs; unfold has_flight, nfl; induction fs as [|f r IH]; simpl; [tauto|].
  destruct (actor_eqb (f_actor f) a); simpl; [split; discriminate | exact IH].
Qed.

Lemma nfl_app : forall a fs f, nfl a (fs ++ [f]) = (nfl a fs + (if actor_eqb (f_actor f) a then 1 else 0))%nat.
Proof.
  intros; unfold nfl; rewrite filter_app, app_length; simpl.
  destruct (actor_eqb (f_actor f) a); reflexivity.
Qed.

Lemma nfl_remove : forall a b fs,
  nfl a (remove_flight b fs) = if actor_eqb a b then Nat.pred (nfl a fs) else nfl a fs.
Proof.
  intros a b fs; unfold nfl; induction fs as [|f r IH]; simpl.
  - destruct (actor_eqb a b); reflexivity.
  - destruct (f_actor f) eqn:Ef, a, b; simpl in *; rewrite ?Ef; simpl; auto; try (rewrite IH; reflexivity).
Qed.

Lemma nfl_arrive : forall a b ok fs, nfl a (fst (arrive_flight b ok fs)) = nfl a fs.
Proof.
  intros a b ok fs; unfold nfl; induction fs as [|f r IH]; simpl; auto.
  destruct (actor_eqb (f_actor f) b) eqn:E; simpl.
  - destruct (actor_eqb (f_actor f) a); reflexivity.
  - destruct (arrive_flight b ok r) as [r' ov]; simpl in *.
    destruct (actor_eqb (f_actor f) a); simpl; rewrite IH; reflexivity.
Qed.

Lemma find_flight_none : forall a fs, nfl a fs = 0%nat -> find_flight a fs = None.
Proof.
  intros a fs; unfold nfl; induction fs as [|f r IH]; simpl; auto.
  destruct (actor_eqb (f_actor f) a); simpl; [discriminate | auto].
Qed.

Lemma find_flight_In : forall a fs f, find_flight a fs = Some f -> In f fs /\ f_actor f = a.
Proof.
  intros a fs; induction fs as [|g r IH]; simpl; intros f H; [discriminate|].
  destruct (actor_eqb (f_actor g) a) eqn:E.
  - inversion H; subst. split; auto. apply actor_eqb_eq; auto.
  - destruct (IH _ H); auto.
Qed.

Lemma flight_count_app : forall fs f, flight_count (fs ++ [f]) = flight_count fs + len (f_batch f).
Proof. induction fs; simpl; intros; [lia | rewrite IHfs; lia]. Qed.

Lemma flight_count_remove : forall a fs f, find_flight a fs = Some f ->
  flight_count (remove_flight a fs) = flight_count fs - len (f_batch f).
Proof.
  intros a fs; induction fs as [|g r IH]; simpl; intros f H; [discriminate|].
  destruct (actor_eqb (f_actor g) a).
  - inversion H; subst; lia.
  - simpl. rewrite (IH _ H); lia.
Qed.

Lemma flight_count_arrive : forall a ok fs, flight_count (fst (arrive_flight a ok fs)) = flight_count fs.
Proof.
  intros a ok fs; induction fs as [|g r IH]; simpl; auto.
  destruct (actor_eqb (f_actor g) a); simpl; auto.
  destruct (arrive_flight a ok r); simpl in *; lia.
Qed.

Lemma arrived_count_app : forall w fs a b, arrived_count w (fs ++ [mkF a b Transit]) = arrived_count w fs.
Proof. induction fs; simpl; intros; auto. rewrite IHfs; reflexivity. Qed.

Lemma arrived_count_arrive : forall w a ok fs b x, find_flight a fs = Some (mkF x b Transit) ->
  arrived_count w (fst (arrive_flight a ok fs)) = arrived_count w fs + (if Bool.eqb ok w then len b else 0).
Proof.
  intros w a ok fs; induction fs as [|g r IH]; simpl; intros b x H; [discriminate|].
  destruct (actor_eqb (f_actor g) a).
  - inversion H; subst; simpl. destruct (Bool.eqb ok w); lia.
  - specialize (IH _ _ H). destruct (arrive_flight a ok r); simpl in *.
    destruct (f_stat g) as [|o]; [lia|]. destruct (Bool.eqb o w); lia.
Qed.

Lemma arrived_count_remove : forall w a fs f, find_flight a fs = Some f ->
  arrived_count w (remove_flight a fs) =
  arrived_count w fs - match f_stat f with Arrived ok => if Bool.eqb ok w then len (f_batch f) else 0 | Transit => 0 end.
Proof.
  intros w a fs; induction fs as [|g r IH]; simpl; intros f H; [discriminate|].
  destruct (actor_eqb (f_actor g) a).
  - inversion H; subst. destruct (f_stat f) as [|o]; [lia|]. destruct (Bool.eqb o w); lia.
  - simpl. rewrite (IH _ H). destruct (f_stat g) as [|o]; [lia|]. destruct (Bool.eqb o w); lia.
Qed.

Lemma log_count_app : forall w l b ok, log_count w (l ++ [(b, ok)]) = log_count w l + (if Bool.eqb ok w then len b else 0).
Proof. induction l as [|e l IH]; simpl; intros. - destruct (Bool.eqb ok w); lia. - rewrite IH. destruct (Bool.eqb (snd e) w); lia. Qed.

Lemma loop_flight_count_all : forall fs, nfl Drainer fs = 0%nat -> loop_flight_count fs = flight_count fs.
Proof.
  unfold nfl; induction fs as [|f r IH]; simpl; intros H; auto.
  destruct (f_actor f); simpl in *; [rewrite IH; auto | discriminate].
Qed.

Lemma transit_app : forall fs a b, transit_alerts (fs ++ [mkF a b Transit]) = transit_alerts fs ++ b.
Proof. intros; unfold transit_alerts; rewrite flat_map_app; simpl; rewrite app_nil_r; reflexivity. Qed.

Lemma transit_arrive : forall a ok fs x b fs' , find_flight a fs = Some (mkF x b Transit) ->
  arrive_flight a ok fs = (fs', false) -> transit_alerts fs = b ++ transit_alerts fs'.
Proof.
  intros a ok fs; induction fs as [|g r IH]; simpl; intros x b fs' H Ha; [discriminate|].
  destruct (actor_eqb (f_actor g) a).
  - inversion H; subst; inversion Ha; subst; unfold transit_alerts; simpl. reflexivity.
  - destruct (arrive_flight a ok r) as [r' ov] eqn:Er. inversion Ha; subst.
    destruct (f_stat g) eqn:Es; [discriminate|].
    unfold transit_alerts in *; simpl; rewrite Es; simpl. eapply IH; eauto; congruence.
Qed.

Lemma transit_remove : forall a fs, Subseq (transit_alerts (remove_flight a fs)) (transit_alerts fs).
Proof.
  intros a fs; induction fs as [|g r IH]; simpl; [constructor|].
  destruct (actor_eqb (f_actor g) a).
  - unfold transit_alerts; simpl. apply Subseq_app_r.
  - unfold transit_alerts in *; simpl. apply Subseq_app; [apply Subseq_refl | exact IH].
Qed.

Lemma log_alerts_app : forall l b ok, log_alerts (l ++ [(b, ok)]) = log_alerts l ++ b.
Proof. intros; unfold log_alerts; rewrite flat_map_app; simpl; rewrite app_nil_r; reflexivity. Qed.

Lemma next_batch_split : forall c q b q', next_batch c q = (b, q') -> b ++ q' = q /\ (length b <= maxb c)%nat.
Proof.
  intros c q b q'; unfold next_batch. destruct (Nat.ltb (maxb c) (length q)) eqn:E; intros H; inversion H; subst.
  - split; [apply firstn_skipn|]. rewrite firstn_length; lia.
  - split; [apply app_nil_r|]. apply Nat.ltb_ge in E; lia.
Qed.

Lemma added_app : forall a b, added (a ++ b) = added a ++ added b.
Proof. intros; unfold added; apply flat_map_app. Qed.

(* ------------------------------------------------------------------ running *)

Definition run_from (c : cfg) (s : st) (ops : list op) : st := fold_left (step c) ops s.

Lemma run_snoc : forall c ops o, run c (ops ++ [o]) = step c (run c ops) o.
Proof. intros; unfold run; rewrite fold_left_app; reflexivity. Qed.

(* generic lifting of an invariant indexed by the ops performed so far *)
Lemma run_ind (c : cfg) (P : list op -> st -> Prop) :
  P [] init -> (forall ops s o, P ops s -> P (ops ++ [o]) (step c s o)) -> forall ops, P ops (run c ops).
Proof.
  intros H0 HS ops; induction ops as [|o ops IH] using rev_ind; [exact H0|].
  rewrite run_snoc; apply HS; exact IH.
Qed.

Ltac dst s := destruct s as [q stp gr fs d lg sn dr er ac ov sd ro].

(* ------------------------------------------------------------------ structure of the control state *)

Record InvF (c : cfg) (s : st) : Prop := {
  f_loop1 : (nfl Loop (flights s) <= 1)%nat;
  f_drn1 : (nfl Drainer (flights s) <= 1)%nat;
  f_wait : nfl Drainer (flights s) = 1%nat -> dp s = DWait;
  f_nodrain : drain c = false -> (dp s = DIdle \/ dp s = DDone) /\ nfl Drainer (flights s) = 0%nat;
  f_done : dp s = DDone -> drain c = true -> queue s = [];
  f_idle : stopped s = false -> dp s = DIdle;
  f_batches : Forall (fun f => (0 < length (f_batch f) <= maxb c)%nat) (flights s);
  f_log : Forall (fun e => (0 < length (fst e) <= maxb c)%nat) (log s)
}.

Lemma Forall_remove : forall (P : flight -> Prop) a fs, Forall P fs -> Forall P (remove_flight a fs).
Proof.
  intros P a fs H; induction H; simpl; [constructor|].
  destruct (actor_eqb (f_actor x) a); auto.
Qed.

Lemma Forall_arrive : forall c a ok fs,
  Forall (fun f => (0 < length (f_batch f) <= maxb c)%nat) fs ->
  Forall (fun f => (0 < length (f_batch f) <= maxb c)%nat) (fst (arrive_flight a ok fs)).
Proof.
  intros c a ok fs H; induction H; simpl; [constructor|].
  destruct (actor_eqb (f_actor x) a); simpl; [constructor; auto|].
  destruct (arrive_flight a ok l); simpl in *; constructor; auto.
Qed.

Lemma InvF_init : forall c, InvF c init.
Proof. intros; constructor; simpl; auto; try lia; try discriminate; intros; try constructor; auto. Qed.

Lemma InvF_step : forall c s o, InvF c s -> InvF c (step c s o).
Proof.
  intros c s o I. pose proof I as I0. destruct I as [L1 D1 W ND DN ID FB FL].
  destruct o as [al | a | a ok | a | | ]; simpl.
  - (* Add *)
    unfold do_add. destruct (stopped s) eqn:Es; [exact I0|].
    constructor; simpl; auto. intros Hd _. rewrite (ID eq_refl) in Hd; discriminate.
  - (* Take *)
    unfold do_take. destruct (take_enabled s a) eqn:Et; simpl; [|exact I0].
    destruct (next_batch c (queue s)) as [b q'] eqn:En.
    destruct (next_batch_split _ _ _ _ En) as [Hsp Hlen].
    assert (Hq' : queue s = [] -> q' = []).
    { intros Hq; rewrite Hq in Hsp. destruct b; simpl in Hsp; [auto | discriminate]. }
    destruct a; simpl in Et.
    + (* Loop *)
      apply andb_true_iff in Et; destruct Et as [Hnf Hst].
      apply negb_true_iff in Hnf; apply has_flight_nfl in Hnf.
      destruct b as [|x b]; constructor; simpl; rewrite ?nfl_app; simpl; auto; try lia.
      * intros H. apply W; lia.
      * intros Hd. destruct (ND Hd); split; auto; lia.
      * apply Forall_app; split; auto. constructor; [|constructor]. simpl in *; lia.
    + (* Drainer *)
      destruct (dp s) eqn:Ed; try discriminate.
      assert (Hn0 : nfl Drainer (flights s) = 0%nat).
      { destruct (nfl Drainer (flights s)) as [|[|n]] eqn:E; auto; [specialize (W eq_refl); discriminate | lia]. }
      assert (Hdr : drain c = true).
      { destruct (drain c) eqn:E; auto. destruct (ND eq_refl) as [[H|H] _]; discriminate. }
      destruct b as [|x b]; constructor; simpl; rewrite ?nfl_app; simpl; auto; try lia;
        try discriminate; try (intros; congruence).
      * intros Hs. specialize (ID Hs); discriminate.
      * intros Hs. specialize (ID Hs); discriminate.
      * apply Forall_app; split; auto. constructor; [|constructor]. simpl in *; lia.
  - (* Arrive *)
    unfold do_arrive. destruct (find_flight a (flights s)) as [[x b [|o]]|] eqn:Ef; try exact I0.
    destruct (arrive_flight a ok (flights s)) as [fs' ov] eqn:Ea.
    assert (Hfs : fs' = fst (arrive_flight a ok (flights s))) by (rewrite Ea; reflexivity).
    constructor; simpl; subst fs'; rewrite ?nfl_arrive; auto.
    + apply Forall_arrive; auto.
    + apply Forall_app; split; auto. constructor; [|constructor]. simpl.
      destruct (find_flight_In _ _ _ Ef) as [Hin _].
      rewrite Forall_forall in FB. apply (FB _ Hin).
  - (* Respond *)
    unfold do_respond. destruct (find_flight a (flights s)) as [[x b stt]|] eqn:Ef; [|exact I0].
    destruct (find_flight_In _ _ _ Ef) as [Hin Hact]; simpl in Hact; subst x.
    assert (Hpos : (1 <= nfl a (flights s))%nat).
    { destruct (nfl a (flights s)) eqn:E; [|lia]. rewrite (find_flight_none _ _ E) in Ef; discriminate. }
    destruct a; constructor; simpl; rewrite ?nfl_remove; simpl; auto; try lia;
      try (apply Forall_remove; auto; fail); try discriminate.
    + intros Hd. destruct (ND Hd) as [_ H0]. lia.
    + intros Hs. specialize (ID Hs). assert (nfl Drainer (flights s) = 1%nat) by lia.
      specialize (W H). congruence.
  - (* Stop *)
    unfold do_stop. destruct (stopped s) eqn:Es; [exact I0|].
    specialize (ID eq_refl).
    assert (Hn0 : nfl Drainer (flights s) = 0%nat).
    { destruct (nfl Drainer (flights s)) as [|[|n]] eqn:E; auto; [specialize (W eq_refl); congruence | lia]. }
    destruct (drain c) eqn:Ed; constructor; simpl; auto; try discriminate; try congruence;
      try (intros H; rewrite Hn0 in H; discriminate).
  - (* DrainCheck *)
    unfold do_draincheck. destruct (dp s) eqn:Ed; try exact I0.
    assert (Hdr : drain c = true).
    { destruct (drain c) eqn:E; auto. destruct (ND eq_refl) as [[H|H] _]; discriminate. }
    assert (Hn0 : nfl Drainer (flights s) = 0%nat).
    { destruct (nfl Drainer (flights s)) as [|[|n]] eqn:E; auto; [specialize (W eq_refl); congruence | lia]. }
    destruct (queue s) eqn:Eq; constructor; simpl; auto; try discriminate; try congruence;
      try (intros Hs; specialize (ID Hs); discriminate);
      try (intros H; rewrite Hn0 in H; discriminate).
Qed.

Lemma InvF_run : forall c ops, InvF c (run c ops).
Proof.
  intros c ops. apply (run_ind c (fun _ s => InvF c s)); [apply InvF_init | intros; apply InvF_step; auto].
Qed.

(* ------------------------------------------------------------------ accounting *)

Record InvA (c : cfg) (s : st) : Prop := {
  a_cons : accepted s = sent s + errors s + ovf s + len (queue s) + flight_count (flights s);
  a_drop : dropped s = ovf s + errors s + stopdrop s;
  a_sent : sent s + arrived_count true (flights s) = log_count true (log s);
  a_err : log_count false (log s) <= errors s + arrived_count false (flights s);
  a_run : stopped s = false -> stopdrop s = 0;
  a_drain : drain c = true -> stopdrop s = 0;
  a_stopq : stopped s = true -> drain c = false -> len (queue s) <= stopdrop s;
  a_nonneg : 0 <= ovf s /\ 0 <= stopdrop s /\ 0 <= errors s /\ 0 <= sent s
}.

Lemma InvA_init : forall c, InvA c init.
Proof. intros; constructor; simpl; auto; try lia; try discriminate. Qed.

Lemma len_nonneg : forall A (l : list A), 0 <= len l.
Proof. intros; unfold len; lia. Qed.

Lemma InvA_step : forall c s o, InvA c s -> InvA c (step c s o).
Proof.
  intros c s o I. pose proof I as I0. destruct I as [AC AD AS AE AR ADR AQ AN].
  destruct o as [al | a | a ok | a | | ]; simpl.
  - unfold do_add. destruct (stopped s) eqn:Es; [exact I0|].
    constructor; simpl; auto; try discriminate; try lia.
    all: try (unfold len in *; rewrite app_length, !skipn_length; lia).
  - unfold do_take. destruct (take_enabled s a) eqn:Et; simpl; [|exact I0].
    destruct (next_batch c (queue s)) as [b q'] eqn:En.
    destruct (next_batch_split _ _ _ _ En) as [Hsp _].
    assert (Hl : len (queue s) = len b + len q').
    { rewrite <- Hsp. unfold len; rewrite app_length; lia. }
    pose proof (len_nonneg _ b). pose proof (len_nonneg _ q').
    destruct b as [|x b]; constructor; simpl; rewrite ?flight_count_app, ?arrived_count_app; simpl; auto; try lia.
    all: try (intros H1 H2; specialize (AQ H1 H2); lia).
    all: try (unfold len in *; simpl in *; lia).
  - unfold do_arrive. destruct (find_flight a (flights s)) as [[x b [|o]]|] eqn:Ef; try exact I0.
    destruct (arrive_flight a ok (flights s)) as [fs' ov] eqn:Ea.
    assert (Hfs : fs' = fst (arrive_flight a ok (flights s))) by (rewrite Ea; reflexivity).
    pose proof (arrived_count_arrive true a ok _ _ _ Ef) as Ht.
    pose proof (arrived_count_arrive false a ok _ _ _ Ef) as Hf.
    pose proof (len_nonneg _ b).
    constructor; simpl; subst fs'; rewrite ?flight_count_arrive, ?log_count_app; auto.
    + rewrite Ht. destruct ok; simpl; lia.
    + rewrite Hf. destruct ok; simpl; lia.
  - unfold do_respond. destruct (find_flight a (flights s)) as [[x b stt]|] eqn:Ef; [|exact I0].
    pose proof (flight_count_remove _ _ _ Ef) as Hc. simpl in Hc.
    pose proof (arrived_count_remove true _ _ _ Ef) as Ht. simpl in Ht.
    pose proof (arrived_count_remove false _ _ _ Ef) as Hf. simpl in Hf.
    pose proof (len_nonneg _ b).
    destruct stt as [|[|]]; constructor; simpl; rewrite ?Hc, ?Ht, ?Hf; simpl; auto; try lia.
  - unfold do_stop. destruct (stopped s) eqn:Es; [exact I0|].
    specialize (AR eq_refl). pose proof (len_nonneg _ (queue s)).
    destruct (drain c) eqn:Ed; constructor; simpl; auto; try discriminate; try lia.
    all: try (intros; congruence).
  - unfold do_draincheck. destruct (dp s); try exact I0.
    constructor; simpl; auto.
Qed.

Lemma InvA_run : forall c ops, InvA c (run c ops).
Proof.
  intros c ops. apply (run_ind c (fun _ s => InvA c s)); [apply InvA_init | intros; apply InvA_step; auto].
Qed.

(* ------------------------------------------------------------------ order *)

Definition InvS (ops : list op) (s : st) : Prop :=
  reordered s = false ->
  Subseq (log_alerts (log s) ++ transit_alerts (flights s) ++ queue s) (added ops).

Lemma InvS_step : forall c ops s o, InvS ops s -> InvS (ops ++ [o]) (step c s o).
Proof.
  intros c ops s o I. unfold InvS in *. rewrite added_app.
  destruct o as [al | a | a ok | a | | ]; simpl; rewrite ?app_nil_r.
  - unfold do_add. destruct (stopped s) eqn:Es.
    + intros Hr. eapply Subseq_trans; [apply (I Hr)|].
      rewrite <- (app_nil_r (added ops)) at 1. apply Subseq_app; [apply Subseq_refl | constructor].
    + simpl. intros Hr. rewrite !app_assoc. apply Subseq_app; [|apply Subseq_skipn].
      eapply Subseq_trans; [|apply (I Hr)].
      rewrite <- !app_assoc. apply Subseq_app; [apply Subseq_refl|].
      apply Subseq_app; [apply Subseq_refl | apply Subseq_skipn].
  - unfold do_take. destruct (take_enabled s a); simpl; [|auto].
    destruct (next_batch c (queue s)) as [b q'] eqn:En.
    destruct (next_batch_split _ _ _ _ En) as [Hsp _].
    destruct b as [|x b]; simpl; intros Hr.
    + simpl in Hsp; subst q'. auto.
    + rewrite transit_app. rewrite <- app_assoc. rewrite Hsp. auto.
  - unfold do_arrive. destruct (find_flight a (flights s)) as [[x b [|o]]|] eqn:Ef; auto.
    destruct (arrive_flight a ok (flights s)) as [fs' ov] eqn:Ea. simpl.
    intros Hr. apply orb_false_iff in Hr; destruct Hr as [Hr Hov]; subst ov.
    rewrite log_alerts_app. rewrite <- app_assoc.
    specialize (I Hr). rewrite (transit_arrive _ _ _ _ _ _ Ef Ea) in I.
    rewrite <- app_assoc in I. exact I.
  - unfold do_respond. destruct (find_flight a (flights s)) as [[x b stt]|] eqn:Ef; auto.
    simpl. intros Hr. eapply Subseq_trans; [|apply (I Hr)].
    apply Subseq_app; [apply Subseq_refl|]. apply Subseq_app; [apply transit_remove | apply Subseq_refl].
  - unfold do_stop. destruct (stopped s); auto. destruct (drain c); simpl; auto.
  - unfold do_draincheck. destruct (dp s); auto.
Qed.

Lemma InvS_run : forall c ops, InvS ops (run c ops).
Proof.
  intros c ops. apply (run_ind c InvS).
  - intros _. simpl. constructor.
  - intros; apply InvS_step; auto.
Qed.

Lemma subseq_of_prefix : forall a b c, Subseq (a ++ b) c -> Subseq a c.
Proof.
  intros a b c H. eapply Subseq_trans; [|exact H].
  rewrite <- (app_nil_r a) at 1. apply Subseq_app; [apply Subseq_refl | constructor].
Qed.

Theorem subsequence : forall c ops, reordered (run c ops) = false ->
  subseqb (log_alerts (log (run c ops))) (added ops) = true.
Proof.
  intros c ops Hr. apply subseqb_complete. eapply subseq_of_prefix. apply (InvS_run c ops Hr).
Qed.

(* without drain, or more generally while at most one request is in flight, nothing is reordered *)
Lemma arrive_no_overtake : forall a ok fs f, find_flight a fs = Some f ->
  (nfl Loop fs + nfl Drainer fs <= 1)%nat -> snd (arrive_flight a ok fs) = false.
Proof.
  intros a ok fs f Hf Hn. destruct fs as [|g r]; simpl in *; [discriminate|].
  destruct (actor_eqb (f_actor g) a) eqn:E; [reflexivity|].
  exfalso. destruct (find_flight_In _ _ _ Hf) as [Hin Ha].
  assert (Hp : (1 <= nfl a r)%nat).
  { destruct (nfl a r) eqn:En; [|lia]. rewrite (find_flight_none _ _ En) in Hf; discriminate. }
  unfold nfl in Hn, Hp; simpl in Hn.
  destruct (f_actor g), a; simpl in *; try discriminate; lia.
Qed.

Definition InvR (c : cfg) (s : st) : Prop := drain c = false -> reordered s = false.

Lemma no_reorder_nodrain : forall c ops, drain c = false -> reordered (run c ops) = false.
Proof.
  intros c ops Hd. induction ops as [|o ops IH] using rev_ind; [reflexivity|].
  rewrite run_snoc. pose proof (InvF_run c ops) as IF. set (s := run c ops) in *.
  destruct IF as [L1 D1 W ND DN ID FB FL]. destruct (ND Hd) as [_ Hn0].
  destruct o as [al | a | a ok | a | | ]; simpl.
  - unfold do_add. destruct (stopped s); auto.
  - unfold do_take. destruct (take_enabled s a); auto.
    destruct (next_batch c (queue s)) as [b q']. destruct b; auto.
  - unfold do_arrive. destruct (find_flight a (flights s)) as [[x b [|o]]|] eqn:Ef; auto.
    destruct (arrive_flight a ok (flights s)) as [fs' ov] eqn:Ea. simpl.
    rewrite IH. simpl.
    pose proof (arrive_no_overtake a ok _ _ Ef) as H. rewrite Ea in H. simpl in H. apply H. lia.
  - unfold do_respond. destruct (find_flight a (flights s)) as [[x b stt]|]; auto.
  - unfold do_stop. destruct (stopped s); auto. rewrite Hd; auto.
  - unfold do_draincheck. destruct (dp s); auto.
Qed.

Theorem subsequence_nodrain : forall c ops, drain c = false ->
  subseqb (log_alerts (log (run c ops))) (added ops) = true.
Proof. intros; apply subsequence; apply no_reorder_nodrain; auto. Qed.

(* ------------------------------------------------------------------ batch bound *)

Theorem batch_bound : forall c ops, batches_ok c (log (run c ops)) = true.
Proof.
  intros c ops. destruct (InvF_run c ops) as [_ _ _ _ _ _ _ FL].
  unfold batches_ok. apply forallb_forall. intros e He.
  rewrite Forall_forall in FL. specialize (FL _ He).
  apply andb_true_iff; split; [apply Nat.ltb_lt | apply Nat.leb_le]; lia.
Qed.

(* ------------------------------------------------------------------ accounting theorems *)

Theorem accounting : forall c ops, let s := run c ops in
  accepted s = sent s + errors s + ovf s + len (queue s) + flight_count (flights s)
  /\ dropped s = ovf s + errors s + stopdrop s
  /\ sent s + arrived_count true (flights s) = log_count true (log s)
  /\ log_count false (log s) <= errors s + arrived_count false (flights s)
  /\ (stopped s = false -> accepted s = sent s + dropped s + len (queue s) + flight_count (flights s)).
Proof.
  intros c ops s. destruct (InvA_run c ops) as [AC AD AS AE AR ADR AQ AN]. fold s in AC, AD, AS, AE, AR.
  repeat split; auto. intros H. specialize (AR H). lia.
Qed.

Lemma finished_inv : forall s, finished s = true -> stopped s = true /\ dp s = DDone /\ flights s = [].
Proof.
  intros s H. unfold finished in H. apply andb_true_iff in H; destruct H as [H H3].
  apply andb_true_iff in H; destruct H as [H1 H2].
  destruct (dp s); try discriminate. destruct (flights s); try discriminate. auto.
Qed.

Theorem every_loss_counted : forall c ops, let s := run c ops in finished s = true ->
  accepted s <= sent s + dropped s
  /\ (drain c = true -> accepted s = sent s + dropped s /\ queue s = [])
  /\ sent s = log_count true (log s).
Proof.
  intros c ops s Hf. destruct (finished_inv _ Hf) as [Hs [Hd Hfl]].
  destruct (InvA_run c ops) as [AC AD AS AE AR ADR AQ AN].
  destruct (InvF_run c ops) as [_ _ _ _ DN _ _ _].
  fold s in AC, AD, AS, AE, AR, ADR, AQ, AN, DN. rewrite Hfl in *. simpl in *.
  split; [|split].
  - destruct (drain c) eqn:Ed.
    + rewrite (DN Hd eq_refl) in AC. simpl in AC. unfold len in AC; simpl in AC. lia.
    + specialize (AQ Hs eq_refl). lia.
  - intros Hdr. rewrite (DN Hd Hdr) in *. specialize (ADR Hdr). unfold len in AC; simpl in AC. split; [lia|auto].
  - lia.
Qed.

Theorem drain_complete : forall c ops, let s := run c ops in drain c = true -> dp s = DDone ->
  queue s = [] /\ nfl Drainer (flights s) = 0%nat
  /\ accepted s = sent s + dropped s + loop_flight_count (flights s).
Proof.
  intros c ops s Hdr Hd.
  destruct (InvA_run c ops) as [AC AD AS AE AR ADR AQ AN].
  destruct (InvF_run c ops) as [_ D1 W _ DN _ _ _].
  fold s in AC, AD, ADR, DN, D1, W.
  assert (Hn0 : nfl Drainer (flights s) = 0%nat).
  { destruct (nfl Drainer (flights s)) as [|[|n]] eqn:E; auto; [specialize (W eq_refl); congruence | lia]. }
  split; [auto|]. split; [auto|].
  rewrite (loop_flight_count_all _ Hn0). rewrite (DN Hd Hdr) in AC. specialize (ADR Hdr).
  unfold len in AC; simpl in AC. lia.
Qed.

(* ------------------------------------------------------------------ oldest first *)

Theorem add_oldest_first : forall c s al, stopped s = false ->
  let s' := step c s (Add al) in
  exists d : nat,
    queue s' = skipn d (queue s ++ al)
    /\ length (queue s') = Nat.min (cap c) (length (queue s) + length al)
    /\ dropped s' = dropped s + Z.of_nat d
    /\ log s' = log s /\ flights s' = flights s /\ sent s' = sent s /\ errors s' = errors s.
Proof.
  intros c s al Hs. simpl. unfold do_add. rewrite Hs. simpl.
  remember (length al - cap c)%nat as d1 eqn:Hd1.
  remember (length (queue s) + length (skipn d1 al) - cap c)%nat as d2 eqn:Hd2.
  exists (d1 + d2)%nat.
  assert (Hl : length (skipn d1 al) = (length al - d1)%nat) by apply skipn_length.
  repeat split; auto; try lia.
  - rewrite skipn_app.
    destruct (Nat.eq_dec d1 0) as [E|E].
    + rewrite E in *. simpl. replace (d2 - length (queue s))%nat with 0%nat by lia. reflexivity.
    + assert (H : d2 = length (queue s)) by lia.
      rewrite H. rewrite skipn_all. rewrite (skipn_all2 (queue s)) by lia. simpl.
      replace (d1 + length (queue s) - length (queue s))%nat with d1 by lia. reflexivity.
  - rewrite app_length, skipn_length, Hl. lia.
Qed.

(* ------------------------------------------------------------------ response status *)

Lemma status_ok_spec : forall st, status_ok st = true <-> 200 <= st < 300.
Proof.
  intros st. unfold status_ok. rewrite Z.eqb_eq. Z.to_euclidean_division_equations; lia.
Qed.

(* ------------------------------------------------------------------ witnesses *)

Definition cfg_w := mkCfg 6 2 true.
Definition ops_reorder : list op :=
  [Add [1;2;3;4]; Take Loop; Stop; DrainCheck; Take Drainer; Arrive Drainer true; Respond Drainer;
   DrainCheck; Arrive Loop true; Respond Loop].

Lemma order_under_drain_refuted :
  exists c ops, finished (run c ops) = true
    /\ log_alerts (log (run c ops)) = [3;4;1;2]
    /\ subseqb (log_alerts (log (run c ops))) (added ops) = false.
Proof. exists cfg_w, ops_reorder. vm_compute. auto. Qed.

Definition ops_overcount : list op := [Add [1;2;3]; Stop; Take Loop; Arrive Loop true; Respond Loop].

Lemma exact_accounting_nodrain_refuted :
  exists c ops, drain c = false /\ finished (run c ops) = true
    /\ accepted (run c ops) < sent (run c ops) + dropped (run c ops).
Proof. exists (mkCfg 5 2 false), ops_overcount. vm_compute. auto. Qed.

(* non-vacuity: a run that overflows, fails a delivery, drains on stop and finishes *)
Definition ops_nv : list op :=
  [Add [1;2;3;4;5]; Add [6;7;8]; Take Loop; Arrive Loop true; Add [9]; Respond Loop;
   Take Loop; Respond Loop; Stop; DrainCheck; Take Drainer; Arrive Drainer false; Respond Drainer;
   DrainCheck; Take Drainer; Arrive Drainer true; Respond Drainer; DrainCheck].

Lemma nonvacuous :
  let s := run cfg_w ops_nv in
  finished s = true /\ reordered s = false /\ dp s = DDone
  /\ log s = [([3;4], true); ([7;8], false); ([9], true)]
  /\ accepted s = 9 /\ sent s = 3 /\ dropped s = 6 /\ errors s = 4 /\ ovf s = 2.
Proof. vm_compute. repeat split; reflexivity. Qed.

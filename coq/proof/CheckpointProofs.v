(* proof/CheckpointProofs.v — proofs for C15 (model/Checkpoint.v).

   Replay is flattened into atoms (one series entry, one sample / exemplar / tombstone interval,
   one series deletion, one metadata entry); a checkpoint selects a subsequence of the atoms of
   the checkpointed part.  The simulation [sim_run] relates the replay of the untruncated log (A)
   and the replay of the truncated log (B). *)
From Coq Require Import List ZArith Bool Lia.
From Verif Require Import lib.Int64 model.Checkpoint.
Import ListNotations.
Open Scope Z_scope.

(* ------------------------------------------------------------------ generic list facts *)
Lemma fold_left_map {A B C} (f : A -> B -> A) (g : C -> B) l a :
  fold_left f (map g l) a = fold_left (fun a c => f a (g c)) l a.
Proof. revert a; induction l; simpl; auto. Qed.

Lemma fold_left_flat_map {A B C} (f : A -> B -> A) (g : C -> list B) l a :
  fold_left f (flat_map g l) a = fold_left (fun a c => fold_left f (g c) a) l a.
Proof. revert a; induction l; simpl; intros; auto. rewrite fold_left_app. auto. Qed.

Lemma fold_left_ext {A B} (f g : A -> B -> A) l a :
  (forall a b, f a b = g a b) -> fold_left f l a = fold_left g l a.
Proof. intros H; revert a; induction l; simpl; intros; auto. rewrite H. auto. Qed.

Lemma filter_filter_comm {A} (p q : A -> bool) l : filter p (filter q l) = filter q (filter p l).
Proof.
  induction l; simpl; auto.
  destruct (q a) eqn:Q, (p a) eqn:P; simpl; rewrite ?Q, ?P, IHl; auto.
Qed.

(* ------------------------------------------------------------------ atoms *)
Inductive atom :=
| ASer (r : ref) (L : lab)
| AData (r : ref) (k a b v : Z)       (* item kind, fields *)
| ADel (r : ref)
| AMeta (r : ref) (m : Z).

Definition atime (k a b : Z) : Z := if k =? 2 then b else a.

Definition stone_atoms (s : ref * list (Z * Z)) : list atom :=
  if is_full (snd s) then [ADel (fst s)]
  else map (fun iv => AData (fst s) 2 (fst iv) (snd iv) 0) (snd s).

Definition atoms_of (r : record) : list atom :=
  match r with
  | RSeries l => map (fun s => ASer (fst s) (snd s)) l
  | RSamples k l => map (fun s => AData (fst (fst s)) 0 (snd (fst s)) k (snd s)) l
  | RExemplars l => map (fun s => AData (fst (fst s)) 1 (snd (fst s)) 0 (snd s)) l
  | RTombstones l => flat_map stone_atoms l
  | RMetadata l => map (fun m => AMeta (fst m) (snd m)) l
  | RUnknown => []
  end.

Definition log_atoms (recs : list record) : list atom := flat_map atoms_of recs.

Section SIM.
  Variable mv : Z.

  Definition d_atom (st : dstate) (a : atom) : dstate :=
    match a with
    | ASer r L => d_series st (r, L)
    | AData r k a b v => d_push mv st r (atime k a b) (fun L => mkItem L k a b v)
    | ADel r => d_delete st r
    | AMeta r m => d_metadata st (r, m)
    end.

  Lemma data_rec_atoms st r : data_rec mv st r = fold_left d_atom (atoms_of r) st.
  Proof.
    destruct r; simpl; try reflexivity.
    - rewrite fold_left_map. apply fold_left_ext. intros a [x y]; reflexivity.
    - rewrite fold_left_map. apply fold_left_ext. intros a [[x y] w]; reflexivity.
    - rewrite fold_left_map. apply fold_left_ext. intros a [[x y] w]; reflexivity.
    - rewrite fold_left_flat_map. apply fold_left_ext. intros a [x ivs].
      unfold d_stone, stone_atoms; simpl. destruct (is_full ivs); simpl; auto.
      rewrite fold_left_map. apply fold_left_ext. intros a0 [p q]; reflexivity.
    - rewrite fold_left_map. apply fold_left_ext. intros a [x y]; reflexivity.
  Qed.

  Lemma replay_atoms_from st recs :
    fold_left (data_rec mv) recs st = fold_left d_atom (log_atoms recs) st.
  Proof.
    unfold log_atoms. rewrite fold_left_flat_map. apply fold_left_ext. intros; apply data_rec_atoms.
  Qed.

  Lemma replay_atoms recs : replay_data mv recs = fold_left d_atom (log_atoms recs) d_empty.
  Proof. apply replay_atoms_from. Qed.

  (* ---------------------------------------------------------------- the simulation *)
  Variable mint : Z.

  Definition vis (its : list item) : list item := view_items mint its.

  (* D = refs whose series record is missing from the truncated log.  B (truncated log) resolves every
     other ref the way A (untruncated log) does, and does not know the refs in D. *)
  Definition R (D : list ref) (A B : dstate) : Prop :=
    (forall r, memz r D = false -> lookup r (d_lbl B) = lookup r (d_lbl A)) /\
    (forall r, memz r D = true -> lookup r (d_lbl B) = None) /\
    vis (d_items B) = vis (d_items A).

  Definition live (st : dstate) (L : lab) : bool := existsb (fun e => snd e =? L) (d_lbl st).
  Definition kept_live (D : list ref) (st : dstate) (L : lab) : Prop :=
    exists r, memz r D = false /\ lookup r (d_lbl st) = Some L.

  (* A pushes nothing visible for this data atom *)
  Definition quiet (A : dstate) (r : ref) (t : Z) : Prop :=
    lookup r (d_lbl A) = None \/ t < mv \/ t < mint.

  Definition no_vis (A : dstate) (p : item -> bool) : Prop := vis (filter p (d_items A)) = [].

  Definition is_sample_of (L : lab) (x : item) : bool := (i_lab x =? L) && (i_kind x =? 0).
  Definition is_nonex_of (L : lab) (x : item) : bool := (i_lab x =? L) && negb (i_kind x =? 1).

  (* what A may do on its own (the atom is missing from, or ineffective in, the truncated log) *)
  Definition cond_alone (D : list ref) (A : dstate) (a : atom) : Prop :=
    match a with
    | ASer r L => lookup r (d_lbl A) = None /\ (live A L = true -> no_vis A (is_sample_of L))
    | AData r k a b _ => quiet A r (atime k a b)
    | ADel r =>
        match lookup r (d_lbl A) with
        | None => True
        | Some L => ~ kept_live D A L /\ no_vis A (is_nonex_of L)
        end
    | AMeta _ _ => True
    end.

  Definition atom_ref (a : atom) : ref :=
    match a with ASer r _ | AData r _ _ _ _ | ADel r | AMeta r _ => r end.

  (* the side condition for one atom: sel = the atom is also in the truncated log *)
  Definition cond (D : list ref) (A : dstate) (a : atom) (sel : bool) : Prop :=
    match a with
    | ASer r L =>
        if sel then memz r D = false /\ (live A L = true -> kept_live D A L \/ no_vis A (is_sample_of L))
        else cond_alone D A a
    | AMeta _ _ => True
    | _ => (sel = true /\ memz (atom_ref a) D = false) \/ cond_alone D A a
    end.

  Definition nextD (D : list ref) (a : atom) (sel : bool) : list ref :=
    match a with ASer r _ => if sel then D else r :: D | _ => D end.

  Fixpoint conds (D : list ref) (A : dstate) (l : list (atom * bool)) : Prop :=
    match l with
    | [] => True
    | (a, sel) :: t => cond D A a sel /\ conds (nextD D a sel) (d_atom A a) t
    end.

  Fixpoint finalD (D : list ref) (l : list (atom * bool)) : list ref :=
    match l with [] => D | (a, sel) :: t => finalD (nextD D a sel) t end.

  Definition selected (l : list (atom * bool)) : list atom := map fst (filter snd l).

  (* assoc lists may in principle hold a key twice; the d_lbl lists built by replay never do *)
  Fixpoint nodup_keys {V} (m : list (Z * V)) : Prop :=
    match m with
    | [] => True
    | (k, _) :: t => lookup k t = None /\ nodup_keys t
    end.

  Lemma lookup_filter_nodup {V} (p : Z * V -> bool) r (m : list (Z * V)) :
    nodup_keys m ->
    lookup r (filter p m) = match lookup r m with
                            | Some v => if p (r, v) then Some v else None
                            | None => None
                            end.
  Proof.
    induction m as [|[k v] m IH]; simpl; auto. intros [Hk Hn].
    destruct (r =? k) eqn:K.
    - apply Z.eqb_eq in K; subst k.
      destruct (p (r, v)) eqn:P; simpl.
      + rewrite Z.eqb_refl. auto.
      + rewrite IH by auto. rewrite Hk. auto.
    - destruct (p (k, v)); simpl; rewrite ?K; auto.
  Qed.

  Lemma nodup_filter {V} (p : Z * V -> bool) (m : list (Z * V)) : nodup_keys m -> nodup_keys (filter p m).
  Proof.
    induction m as [|[k v] m IH]; simpl; auto. intros [Hk Hn].
    destruct (p (k, v)); simpl; auto. split; auto.
    rewrite lookup_filter_nodup by auto. rewrite Hk. auto.
  Qed.

  Definition wfD (st : dstate) : Prop := nodup_keys (d_lbl st).

  Lemma wfD_atom st a : wfD st -> wfD (d_atom st a).
  Proof.
    unfold wfD. destruct a; simpl; auto.
    - unfold d_series; simpl. destruct (lookup r (d_lbl st)) eqn:E; simpl; auto.
    - unfold d_push. destruct (_ <? _); auto. destruct (lookup r (d_lbl st)); auto.
    - unfold d_delete. destruct (lookup r (d_lbl st)); simpl; auto. apply nodup_filter.
    - unfold d_metadata; simpl. destruct (lookup r (d_lbl st)); auto.
  Qed.

  Lemma live_spec st L : wfD st -> live st L = true -> exists r, lookup r (d_lbl st) = Some L.
  Proof.
    unfold live, wfD. induction (d_lbl st) as [|[k v] m IH]; simpl; try discriminate.
    intros [Hk Hn] H. destruct (v =? L) eqn:E.
    - apply Z.eqb_eq in E; subst. exists k. rewrite Z.eqb_refl. auto.
    - simpl in H. destruct (IH Hn H) as [r Hr]. exists r.
      destruct (r =? k) eqn:K; auto. apply Z.eqb_eq in K; subst. congruence.
  Qed.

  Lemma lookup_live st r L : lookup r (d_lbl st) = Some L -> live st L = true.
  Proof.
    unfold live. induction (d_lbl st) as [|[k v] m IH]; simpl; try discriminate.
    destruct (r =? k).
    - intros H; inversion H; subst. rewrite Z.eqb_refl. auto.
    - intros H. rewrite (IH H). apply orb_true_r.
  Qed.

  (* ---- view facts ---- *)
  Lemma vis_cons x l : vis (x :: l) = if mint <=? item_time x then x :: vis l else vis l.
  Proof. reflexivity. Qed.

  Lemma vis_filter p l : vis (filter p l) = filter p (vis l).
  Proof. unfold vis, view_items. apply filter_filter_comm. Qed.

  Lemma filter_split_novis (p : item -> bool) l :
    vis (filter p l) = [] -> vis (filter (fun x => negb (p x)) l) = vis l.
  Proof.
    rewrite !vis_filter. induction (vis l) as [|x t IH]; simpl; auto.
    destruct (p x); simpl; try discriminate. intros H. rewrite IH; auto.
  Qed.

  Lemma d_series_eq st r L :
    d_series st (r, L) =
    mkD (match lookup r (d_lbl st) with Some _ => d_lbl st | None => (r, L) :: d_lbl st end)
        (if live st L then filter (fun x => negb (is_sample_of L x)) (d_items st) else d_items st)
        (d_meta st).
  Proof. reflexivity. Qed.

  Lemma memz_cons x r D : memz x (r :: D) = (x =? r) || memz x D.
  Proof. reflexivity. Qed.

  Ltac spl := split; [|split]; auto.

  (* ---- one step ---- *)
  Lemma step_alone D A B a :
    wfD A -> R D A B -> cond_alone D A a -> R (nextD D a false) (d_atom A a) B.
  Proof.
    intros WA [Hk [Hu Hv]] HC. destruct a as [r L|r k a b v|r|r m]; simpl in *.
    - destruct HC as [K HL]. rewrite d_series_eq; simpl. rewrite K. split; [|split].
      + intros r' K'. rewrite memz_cons in K'. apply orb_false_iff in K'. destruct K' as [Q K'].
        rewrite (Hk r' K'). simpl. rewrite Q. auto.
      + intros r' K'. rewrite memz_cons in K'. destruct (r' =? r) eqn:Q; simpl in K'; auto.
        apply Z.eqb_eq in Q; subst r'.
        destruct (memz r D) eqn:M; auto. rewrite (Hk r M). auto.
      + destruct (live A L) eqn:LV; auto.
        rewrite Hv. symmetry. apply (filter_split_novis (is_sample_of L) (d_items A) (HL eq_refl)).
    - unfold d_push. destruct (atime k a b <? mv) eqn:M; [spl|].
      destruct (lookup r (d_lbl A)) eqn:E; [|spl].
      spl. cbn [d_items]. rewrite vis_cons.
      unfold item_time; cbn [i_kind i_a i_b]. fold (atime k a b).
      destruct HC as [Q|[Q|Q]]; try congruence; try (apply Z.ltb_ge in M; lia).
      destruct (mint <=? atime k a b) eqn:V; auto. apply Z.leb_le in V; lia.
    - unfold d_delete. destruct (lookup r (d_lbl A)) as [L|] eqn:E; [|spl].
      destruct HC as [NK NV]. split; [|split]; simpl; auto.
      + intros r' K'. rewrite lookup_filter_nodup by auto. rewrite (Hk r' K').
        destruct (lookup r' (d_lbl A)) as [L'|] eqn:E'; auto.
        simpl. destruct (L' =? L) eqn:Q; simpl; auto.
        apply Z.eqb_eq in Q; subst L'. exfalso. apply NK. exists r'. auto.
      + rewrite Hv. symmetry. apply (filter_split_novis (is_nonex_of L) (d_items A) NV).
    - unfold d_metadata; simpl. destruct (lookup r (d_lbl A)); spl.
  Qed.

  Lemma B_noop B a : lookup (atom_ref a) (d_lbl B) = None -> (forall r L, a <> ASer r L) ->
    (forall r m, a <> AMeta r m) -> d_atom B a = B.
  Proof.
    destruct a; simpl; intros E N1 N2.
    - exfalso. eapply N1; eauto.
    - unfold d_push. rewrite E. destruct (_ <? _); auto.
    - unfold d_delete. rewrite E. auto.
    - exfalso. eapply N2; eauto.
  Qed.

  Lemma step_both D A B a :
    wfD A -> wfD B -> R D A B -> memz (atom_ref a) D = false ->
    (forall r L, a = ASer r L -> live A L = true -> kept_live D A L \/ no_vis A (is_sample_of L)) ->
    R D (d_atom A a) (d_atom B a).
  Proof.
    intros WA WB [Hk [Hu Hv]] K HS. destruct a as [r L|r k a b v|r|r m]; simpl in *.
    - rewrite !d_series_eq; simpl. rewrite (Hk r K). split; [|split].
      + intros r' K'. destruct (lookup r (d_lbl A)) eqn:E; auto. simpl. rewrite (Hk r' K'). auto.
      + intros r' K'. destruct (lookup r (d_lbl A)) eqn:E; auto. simpl.
        destruct (r' =? r) eqn:Q; auto. apply Z.eqb_eq in Q; subst; congruence.
      + destruct (live B L) eqn:LB.
        * assert (LA : live A L = true).
          { destruct (live_spec _ _ WB LB) as [r' Hr'].
            destruct (memz r' D) eqn:K'; [rewrite (Hu r' K') in Hr'; discriminate|].
            eapply lookup_live. rewrite <- (Hk r' K'). eauto. }
          rewrite LA. cbn [d_items]. rewrite !vis_filter. rewrite Hv. auto.
        * destruct (live A L) eqn:LA; auto.
          destruct (HS r L eq_refl LA) as [[r' [K' E']]|NV].
          -- rewrite <- (Hk r' K') in E'. rewrite (lookup_live _ _ _ E') in LB. discriminate.
          -- cbn [d_items]. rewrite Hv. symmetry. apply (filter_split_novis (is_sample_of L) (d_items A) NV).
    - unfold d_push. rewrite (Hk r K). destruct (_ <? _); [spl|].
      destruct (lookup r (d_lbl A)); spl.
      cbn [d_items]. rewrite !vis_cons. rewrite Hv. auto.
    - unfold d_delete. rewrite (Hk r K). destruct (lookup r (d_lbl A)) as [L|] eqn:E; [|spl].
      split; [|split]; simpl.
      + intros r' K'. rewrite !lookup_filter_nodup by auto. rewrite (Hk r' K'). auto.
      + intros r' K'. rewrite lookup_filter_nodup by auto. rewrite (Hu r' K'). auto.
      + rewrite !vis_filter. rewrite Hv. auto.
    - unfold d_metadata; simpl. rewrite (Hk r K). destruct (lookup r (d_lbl A)); spl.
  Qed.

  Lemma meta_B D A B r m : R D A B -> R D A (d_atom B (AMeta r m)).
  Proof.
    intros [Hk [Hu Hv]]. simpl. unfold d_metadata; simpl. destruct (lookup r (d_lbl B)); spl.
  Qed.

  Lemma meta_A D A B r m : R D A B -> R D (d_atom A (AMeta r m)) B.
  Proof.
    intros [Hk [Hu Hv]]. simpl. unfold d_metadata; simpl. destruct (lookup r (d_lbl A)); spl.
  Qed.

  (* ---- the run ---- *)
  Lemma sim_run l : forall D A B, wfD A -> wfD B -> R D A B -> conds D A l ->
    R (finalD D l) (fold_left d_atom (map fst l) A) (fold_left d_atom (selected l) B).
  Proof.
    induction l as [|[a sel] l IH]; simpl; intros D A B WA WB HR HC; auto.
    destruct HC as [HC HCs].
    assert (WA' := wfD_atom A a WA).
    unfold selected; simpl. destruct sel; simpl; fold (selected l).
    - (* the atom is in both logs *)
      destruct a as [r L|r k x y v|r|r m].
      + destruct HC as [K HL]. apply IH; auto using wfD_atom.
        apply step_both; auto. intros r0 L0 E; inversion E; subst; auto.
      + destruct HC as [[_ K]|HC].
        * apply IH; auto using wfD_atom. apply step_both; auto. intros; discriminate.
        * destruct (memz r D) eqn:K.
          -- match goal with |- R _ _ (fold_left _ _ (d_atom B ?a)) =>
               assert (EB : d_atom B a = B) by
                 (apply B_noop; try (intros; discriminate); simpl; destruct HR as [_ [Hu _]]; apply Hu; auto)
             end.
             rewrite EB. apply IH; auto. apply (step_alone D A B (AData r k x y v)); auto.
          -- apply IH; auto using wfD_atom. apply step_both; auto. intros; discriminate.
      + destruct HC as [[_ K]|HC].
        * apply IH; auto using wfD_atom. apply step_both; auto. intros; discriminate.
        * destruct (memz r D) eqn:K.
          -- match goal with |- R _ _ (fold_left _ _ (d_atom B ?a)) =>
               assert (EB : d_atom B a = B) by
                 (apply B_noop; try (intros; discriminate); simpl; destruct HR as [_ [Hu _]]; apply Hu; auto)
             end.
             rewrite EB. apply IH; auto. apply (step_alone D A B (ADel r)); auto.
          -- apply IH; auto using wfD_atom. apply step_both; auto. intros; discriminate.
      + apply IH; auto using wfD_atom. apply meta_A. apply meta_B. auto.
    - (* the atom is only in the untruncated log *)
      apply IH; auto.
      destruct a as [r L|r k x y v|r|r m].
      + apply (step_alone D A B (ASer r L)); auto.
      + destruct HC as [[? _]|HC]; try discriminate. apply (step_alone D A B (AData r k x y v)); auto.
      + destruct HC as [[? _]|HC]; try discriminate. apply (step_alone D A B (ADel r)); auto.
      + apply meta_A; auto.
  Qed.
End SIM.

(* ------------------------------------------------------------------ the checkpoint as a selection of atoms *)
Section CPSEL.
  Variable keep : ref -> bool.
  Variable mint mv : Z.

  Definition stone_sel (s : ref * list (Z * Z)) : bool :=
    keep (fst s) && existsb (fun iv => keep_t (snd iv) mint) (snd s).

  Definition tag_rec (r : record) : list (atom * bool) :=
    match r with
    | RSeries l => map (fun s => (ASer (fst s) (snd s), keep (fst s))) l
    | RSamples k l => map (fun s => (AData (fst (fst s)) 0 (snd (fst s)) k (snd s), mint <=? snd (fst s))) l
    | RExemplars l => map (fun s => (AData (fst (fst s)) 1 (snd (fst s)) 0 (snd s), mint <=? snd (fst s))) l
    | RTombstones l => flat_map (fun s => map (fun a => (a, stone_sel s)) (stone_atoms s)) l
    | RMetadata l => map (fun m => (AMeta (fst m) (snd m), false)) l
    | RUnknown => []
    end.

  Definition tag_log (recs : list record) : list (atom * bool) := flat_map tag_rec recs.

  Lemma map_fst_tag {A} (f : A -> atom) (p : A -> bool) l :
    map fst (map (fun s => (f s, p s)) l) = map f l.
  Proof. induction l; simpl; congruence. Qed.

  Lemma selected_tag {A} (f : A -> atom) (p : A -> bool) l :
    selected (map (fun s => (f s, p s)) l) = map f (filter p l).
  Proof.
    unfold selected. induction l; simpl; auto. destruct (p a); simpl; congruence.
  Qed.

  Lemma selected_app l1 l2 : selected (l1 ++ l2) = selected l1 ++ selected l2.
  Proof. unfold selected. rewrite filter_app, map_app. auto. Qed.

  Lemma tag_rec_fst r : map fst (tag_rec r) = atoms_of r.
  Proof.
    destruct r; simpl; auto; try apply map_fst_tag.
    induction l as [|s l IH]; simpl; auto. rewrite map_app, IH. f_equal.
    rewrite (map_fst_tag (fun a => a) (fun _ => stone_sel s)). apply map_id.
  Qed.

  Lemma tag_log_fst recs : map fst (tag_log recs) = log_atoms recs.
  Proof.
    unfold tag_log, log_atoms. induction recs; simpl; auto. rewrite map_app, tag_rec_fst, IHrecs. auto.
  Qed.

  Definition opt_atoms (o : option record) : list atom :=
    match o with Some r => atoms_of r | None => [] end.

  Lemma tag_rec_sel r : selected (tag_rec r) = opt_atoms (cp_rec keep mint r).
  Proof.
    destruct r; simpl; auto.
    - rewrite selected_tag. unfold cp_series. destruct (filter _ l); auto.
    - rewrite selected_tag. unfold cp_samples, keep_t. destruct (filter _ l); auto.
    - rewrite selected_tag. unfold cp_samples, keep_t. destruct (filter _ l); auto.
    - assert (E : selected (flat_map (fun s => map (fun a => (a, stone_sel s)) (stone_atoms s)) l) =
                  flat_map stone_atoms (cp_stones keep mint l)).
      { induction l as [|s l IH]; simpl; auto. rewrite selected_app, IH.
        unfold cp_stones at 2. simpl. fold (stone_sel s). fold (cp_stones keep mint l).
        unfold selected. destruct (stone_sel s); simpl.
        - f_equal. induction (stone_atoms s); simpl; congruence.
        - induction (stone_atoms s); simpl; auto. }
      rewrite E. destruct (cp_stones keep mint l); auto.
    - unfold selected. induction l; simpl; auto.
  Qed.

  Lemma tag_log_sel recs : selected (tag_log recs) = log_atoms (cp_body keep mint recs).
  Proof.
    unfold tag_log, log_atoms, cp_body. induction recs as [|r recs IH]; simpl; auto.
    rewrite selected_app, IH, tag_rec_sel, flat_map_app.
    destruct (cp_rec keep mint r); simpl; auto. rewrite app_nil_r. auto.
  Qed.

  Lemma log_atoms_app a b : log_atoms (a ++ b) = log_atoms a ++ log_atoms b.
  Proof. unfold log_atoms. apply flat_map_app. Qed.

  Lemma conds_app l1 : forall D A l2,
    conds mv mint D A (l1 ++ l2) ->
    conds mv mint D A l1 /\ conds mv mint (finalD D l1) (fold_left (d_atom mv) (map fst l1) A) l2.
  Proof.
    induction l1 as [|[a s] l1 IH]; simpl; intros D A l2 H; auto.
    destruct H as [H1 H2]. destruct (IH _ _ _ H2). auto.
  Qed.

  Lemma wfD_fold l : forall st, wfD st -> wfD (fold_left (d_atom mv) l st).
  Proof. induction l; simpl; intros; auto. apply IHl. apply wfD_atom; auto. Qed.

  Lemma meta_only_B l : (forall a, In a l -> exists r m, a = AMeta r m) ->
    forall D A B, R mint D A B -> R mint D A (fold_left (d_atom mv) l B).
  Proof.
    induction l; simpl; intros H D A B HR; auto.
    destruct (H a (or_introl eq_refl)) as [r [m E]]; subst.
    apply IHl; auto. apply meta_B; auto.
  Qed.

  Definition cp_meta_atoms (recs : list record) : list atom :=
    log_atoms (match cp_metas keep recs with [] => [] | mp => [RMetadata mp] end).

  Lemma cp_meta_atoms_meta recs a : In a (cp_meta_atoms recs) -> exists r m, a = AMeta r m.
  Proof.
    unfold cp_meta_atoms. destruct (cp_metas keep recs); simpl; try tauto.
    rewrite app_nil_r. intros [E|H].
    - subst. eauto.
    - apply in_map_iff in H. destruct H as [x [E _]]. subst. eauto.
  Qed.

  (* The side condition of the equivalence theorem, checked along the replay of the untruncated log:
     see [cond] — a record that the checkpoint drops, or that refers to a series whose record the
     checkpoint drops, must not contribute anything at or after mint. *)
  Definition safe (low high : list record) : Prop :=
    conds mv mint [] d_empty (tag_log low ++ map (fun a => (a, true)) (log_atoms high)).

  Lemma R_empty : R mint [] d_empty d_empty.
  Proof. split; [|split]; auto. Qed.

  Theorem checkpoint_equiv low high :
    safe low high ->
    view_items mint (d_items (replay_data mv (checkpoint keep mint low ++ high))) =
    view_items mint (d_items (replay_data mv (low ++ high))).
  Proof.
    unfold safe. intros HS. apply conds_app in HS. destruct HS as [H1 H2].
    rewrite !replay_atoms. unfold checkpoint. rewrite !log_atoms_app, !fold_left_app.
    fold (cp_meta_atoms low).
    rewrite tag_log_fst in H2.
    assert (W0 : wfD d_empty) by exact I.
    pose proof (sim_run mv mint (tag_log low) [] d_empty d_empty W0 W0 R_empty H1) as S1.
    rewrite tag_log_fst, tag_log_sel in S1.
    set (A1 := fold_left (d_atom mv) (log_atoms low) d_empty) in *.
    set (B1 := fold_left (d_atom mv) (log_atoms (cp_body keep mint low)) d_empty) in *.
    assert (S2 : R mint (finalD [] (tag_log low)) A1 (fold_left (d_atom mv) (cp_meta_atoms low) B1)).
    { apply meta_only_B; auto. apply cp_meta_atoms_meta. }
    pose proof (sim_run mv mint (map (fun a => (a, true)) (log_atoms high)) _ A1 _
                  (wfD_fold _ _ W0) (wfD_fold _ _ (wfD_fold _ _ W0)) S2 H2) as S3.
    rewrite (map_fst_tag (fun a => a) (fun _ => true)), map_id in S3.
    rewrite (selected_tag (fun a => a) (fun _ => true)), map_id in S3.
    assert (F : forall l : list atom, filter (fun _ => true) l = l) by (induction l; simpl; congruence).
    rewrite F in S3. destruct S3 as [_ [_ S3]]. exact S3.
  Qed.
End CPSEL.

(* ------------------------------------------------------------------ a decision procedure for the side condition *)
Section SAFEB.
  Variable keep : ref -> bool.
  Variable mint mv : Z.

  Definition kept_liveb (D : list ref) (A : dstate) (L : lab) : bool :=
    existsb (fun e => negb (memz (fst e) D) && (snd e =? L)) (d_lbl A).
  Definition no_visb (A : dstate) (p : item -> bool) : bool :=
    match view_items mint (filter p (d_items A)) with [] => true | _ => false end.
  Definition quietb (A : dstate) (r : ref) (t : Z) : bool :=
    match lookup r (d_lbl A) with None => true | Some _ => (t <? mv) || (t <? mint) end.

  Definition cond_aloneb (D : list ref) (A : dstate) (a : atom) : bool :=
    match a with
    | ASer r L => match lookup r (d_lbl A) with None => negb (live A L) || no_visb A (is_sample_of L) | Some _ => false end
    | AData r k a b _ => quietb A r (atime k a b)
    | ADel r =>
        match lookup r (d_lbl A) with
        | None => true
        | Some L => negb (kept_liveb D A L) && no_visb A (is_nonex_of L)
        end
    | AMeta _ _ => true
    end.

  Definition condb (D : list ref) (A : dstate) (a : atom) (sel : bool) : bool :=
    match a with
    | ASer r L =>
        if sel then negb (memz r D) && (negb (live A L) || kept_liveb D A L || no_visb A (is_sample_of L))
        else cond_aloneb D A a
    | AMeta _ _ => true
    | _ => (sel && negb (memz (atom_ref a) D)) || cond_aloneb D A a
    end.

  Fixpoint condsb (D : list ref) (A : dstate) (l : list (atom * bool)) : bool :=
    match l with
    | [] => true
    | (a, sel) :: t => condb D A a sel && condsb (nextD D a sel) (d_atom mv A a) t
    end.

  Lemma lookup_in {V} r (m : list (Z * V)) v : lookup r m = Some v -> In (r, v) m.
  Proof.
    induction m as [|[k w] m IH]; simpl; try discriminate.
    destruct (r =? k) eqn:K.
    - intros H; inversion H; subst. apply Z.eqb_eq in K; subst. auto.
    - auto.
  Qed.

  Lemma in_lookup {V} r (m : list (Z * V)) v : nodup_keys m -> In (r, v) m -> lookup r m = Some v.
  Proof.
    induction m as [|[k w] m IH]; simpl; try tauto. intros [Hk Hn] [E|H].
    - inversion E; subst. rewrite Z.eqb_refl. auto.
    - destruct (r =? k) eqn:K; auto. apply Z.eqb_eq in K; subst.
      rewrite (IH Hn H) in Hk. discriminate.
  Qed.

  Lemma kept_liveb_true D A L : wfD A -> kept_liveb D A L = true -> kept_live D A L.
  Proof.
    unfold kept_liveb. intros W H. apply existsb_exists in H. destruct H as [[r L'] [HI H]].
    simpl in H. apply andb_true_iff in H. destruct H as [K E]. apply Z.eqb_eq in E; subst.
    exists r. split; [destruct (memz r D); auto; discriminate|]. apply in_lookup; auto.
  Qed.

  Lemma kept_liveb_false D A L : kept_liveb D A L = false -> ~ kept_live D A L.
  Proof.
    unfold kept_liveb. intros H [r [K E]].
    assert (X : existsb (fun e => negb (memz (fst e) D) && (snd e =? L)) (d_lbl A) = true).
    { apply existsb_exists. exists (r, L). split; [apply lookup_in; auto|]. simpl. rewrite K, Z.eqb_refl. auto. }
    congruence.
  Qed.

  Lemma no_visb_true A p : no_visb A p = true -> no_vis mint A p.
  Proof. unfold no_visb, no_vis, vis. destruct (view_items _ _); auto; discriminate. Qed.

  Lemma quietb_true A r t : quietb A r t = true -> quiet mv mint A r t.
  Proof.
    unfold quietb, quiet. destruct (lookup r (d_lbl A)); auto.
    intros H. apply orb_true_iff in H. destruct H as [H|H]; apply Z.ltb_lt in H; auto.
  Qed.

  Lemma cond_aloneb_sound D A a : cond_aloneb D A a = true -> cond_alone mv mint D A a.
  Proof.
    destruct a; simpl; auto.
    - destruct (lookup r (d_lbl A)); try discriminate. intros H. split; auto.
      intros LV. rewrite LV in H. simpl in H. apply no_visb_true; auto.
    - apply quietb_true.
    - destruct (lookup r (d_lbl A)); auto. intros H. apply andb_true_iff in H. destruct H as [K H]. split.
      + apply kept_liveb_false. destruct (kept_liveb D A l); auto; discriminate.
      + apply no_visb_true; auto.
  Qed.

  Lemma condb_sound D A a sel : wfD A -> condb D A a sel = true -> cond mv mint D A a sel.
  Proof.
    intros W. destruct a; simpl; auto.
    - destruct sel.
      + intros H. apply andb_true_iff in H. destruct H as [K H]. split.
        * destruct (memz r D); auto; discriminate.
        * intros LV. rewrite LV in H. simpl in H. apply orb_true_iff in H. destruct H as [H|H].
          -- left. apply kept_liveb_true; auto.
          -- right. apply no_visb_true; auto.
      + apply (cond_aloneb_sound D A (ASer r L)).
    - intros H. apply orb_true_iff in H. destruct H as [H|H].
      + left. apply andb_true_iff in H. destruct H as [H1 H2]. split; auto. destruct (memz r D); auto; discriminate.
      + right. apply (cond_aloneb_sound D A (AData r k a b v)); auto.
    - intros H. apply orb_true_iff in H. destruct H as [H|H].
      + left. apply andb_true_iff in H. destruct H as [H1 H2]. split; auto. destruct (memz r D); auto; discriminate.
      + right. apply (cond_aloneb_sound D A (ADel r)); auto.
  Qed.

  Lemma condsb_sound l : forall D A, wfD A -> condsb D A l = true -> conds mv mint D A l.
  Proof.
    induction l as [|[a s] l IH]; simpl; intros D A W H; auto.
    apply andb_true_iff in H. destruct H as [H1 H2]. split.
    - apply condb_sound; auto.
    - apply IH; auto. apply wfD_atom; auto.
  Qed.

  Definition safeb (low high : list record) : bool :=
    condsb [] d_empty (tag_log keep mint low ++ map (fun a => (a, true)) (log_atoms high)).

  Lemma safeb_sound low high : safeb low high = true -> safe keep mint mv low high.
  Proof. apply condsb_sound. exact I. Qed.
End SAFEB.

(* ------------------------------------------------------------------ precedence *)
Section PREC.
  Variable keep : ref -> bool.
  Variable mint : Z.

  Lemma memz_In x l : memz x l = true <-> In x l.
  Proof.
    unfold memz. rewrite existsb_exists. split.
    - intros [y [H E]]. apply Z.eqb_eq in E. subst; auto.
    - intros H. exists x. split; auto. apply Z.eqb_refl.
  Qed.

  Lemma refs_at_cp r r' x : cp_rec keep mint r = Some r' ->
    In x (rec_refs_at mint r') -> In x (rec_refs_at mint r).
  Proof.
    destruct r; cbn [cp_rec]; try discriminate.
    - destruct (cp_series keep l); try discriminate. intros E; inversion E; subst. cbn [rec_refs_at]. tauto.
    - destruct (cp_samples mint l) eqn:F; try discriminate. intros E; inversion E; subst; clear E.
      rewrite <- F. cbn [rec_refs_at]. unfold cp_samples, keep_t.
      rewrite !in_map_iff. intros [y [E1 H]]. exists y. split; auto.
      apply filter_In in H. destruct H as [H H2]. apply filter_In in H. apply filter_In. tauto.
    - destruct (cp_samples mint l) eqn:F; try discriminate. intros E; inversion E; subst; clear E.
      rewrite <- F. cbn [rec_refs_at]. unfold cp_samples, keep_t.
      rewrite !in_map_iff. intros [y [E1 H]]. exists y. split; auto.
      apply filter_In in H. destruct H as [H H2]. apply filter_In in H. apply filter_In. tauto.
    - destruct (cp_stones keep mint l) eqn:F; try discriminate. intros E; inversion E; subst; clear E.
      rewrite <- F. cbn [rec_refs_at]. unfold cp_stones, keep_t.
      rewrite !in_map_iff. intros [y [E1 H]]. exists y. split; auto.
      apply filter_In in H. destruct H as [H H2]. apply filter_In in H. apply filter_In. tauto.
  Qed.

  Lemma series_cp r r' x : cp_rec keep mint r = Some r' ->
    (In x (map fst (series_of_rec r')) <-> In x (map fst (series_of_rec r)) /\ keep x = true).
  Proof.
    destruct r; cbn [cp_rec]; try discriminate.
    - destruct (cp_series keep l) eqn:F; try discriminate. intros E; inversion E; subst; clear E.
      rewrite <- F. cbn [series_of_rec]. unfold cp_series. rewrite !in_map_iff. split.
      + intros [y [E1 H]]. apply filter_In in H. destruct H. subst. split; eauto.
      + intros [[y [E1 H]] K]. exists y. split; auto. apply filter_In. subst. auto.
    - destruct (cp_samples mint l); try discriminate. intros E; inversion E; subst. simpl. tauto.
    - destruct (cp_samples mint l); try discriminate. intros E; inversion E; subst. simpl. tauto.
    - destruct (cp_stones keep mint l); try discriminate. intros E; inversion E; subst. simpl. tauto.
  Qed.

  Lemma series_cp_none r x : cp_rec keep mint r = None ->
    In x (map fst (series_of_rec r)) -> keep x = false.
  Proof.
    destruct r; cbn [cp_rec series_of_rec]; simpl; try tauto.
    destruct (cp_series keep l) eqn:F; try discriminate. intros _ H.
    apply in_map_iff in H. destruct H as [y [E H]]. subst.
    destruct (keep (fst y)) eqn:K; auto.
    assert (X : In y (cp_series keep l)) by (apply filter_In; auto).
    rewrite F in X. destruct X.
  Qed.

  Definition seen_rel (sa sb : list ref) : Prop := forall x, keep x = true -> In x sa -> In x sb.

  Lemma prec_high g high : forall sa sb,
    (forall x, In x (flat_map (rec_refs_at g) high) -> keep x = true) ->
    seen_rel sa sb -> preceded_from g sa high = true -> preceded_from g sb high = true.
  Proof.
    induction high as [|r high IH]; simpl; intros sa sb HK HR H; auto.
    apply andb_true_iff in H. destruct H as [H1 H2]. apply andb_true_iff. split.
    - rewrite forallb_forall in *. intros x Hx. apply memz_In. apply HR.
      + apply HK. apply in_or_app; auto.
      + apply memz_In. auto.
    - eapply IH; [| |exact H2].
      + intros x Hx. apply HK. apply in_or_app; auto.
      + intros x K Hx. apply in_app_or in Hx. apply in_or_app. destruct Hx; auto.
  Qed.

  Theorem checkpoint_preceded low high :
    (forall x, In x (flat_map (rec_refs_at mint) (low ++ high)) -> keep x = true) ->
    preceded mint (low ++ high) = true ->
    preceded mint (checkpoint keep mint low ++ high) = true.
  Proof.
    unfold preceded, checkpoint. rewrite <- app_assoc.
    assert (G : forall low sa sb,
      (forall x, In x (flat_map (rec_refs_at mint) (low ++ high)) -> keep x = true) ->
      seen_rel sa sb -> preceded_from mint sa (low ++ high) = true ->
      forall M, (forall r, In r M -> rec_refs_at mint r = [] /\ series_of_rec r = []) ->
      preceded_from mint sb (cp_body keep mint low ++ M ++ high) = true).
    { clear low. induction low as [|r low IH]; simpl; intros sa sb HK HR H M HM.
      - induction M as [|m M IHM]; simpl.
        + eapply prec_high; eauto.
        + destruct (HM m (or_introl eq_refl)) as [E1 E2]. rewrite E1, E2. simpl. apply IHM.
          intros; apply HM; simpl; auto.
      - apply andb_true_iff in H. destruct H as [H1 H2].
        assert (HK' : forall x, In x (flat_map (rec_refs_at mint) (low ++ high)) -> keep x = true).
        { intros x Hx. apply HK. apply in_or_app; auto. }
        destruct (cp_rec keep mint r) as [r'|] eqn:C; simpl.
        + apply andb_true_iff. split.
          * rewrite forallb_forall in *. intros x Hx. pose proof (refs_at_cp _ _ _ C Hx) as Hx'.
            apply memz_In. apply HR.
            -- apply HK. apply in_or_app; auto.
            -- apply memz_In. auto.
          * apply (IH (map fst (series_of_rec r) ++ sa)); auto.
            intros x K Hx. apply in_app_or in Hx. apply in_or_app. destruct Hx as [Hx|Hx]; auto.
            left. apply (series_cp _ _ x C). auto.
        + apply (IH (map fst (series_of_rec r) ++ sa)); auto.
          intros x K Hx. apply in_app_or in Hx. destruct Hx as [Hx|Hx]; auto.
          rewrite (series_cp_none _ x C Hx) in K. discriminate. }
    intros HK H. eapply G; eauto.
    - intros x _ Hx; auto.
    - intros r Hr. destruct (cp_metas keep low); simpl in Hr; try tauto.
      destruct Hr as [E|[]]; subst; auto.
  Qed.
End PREC.

(* ------------------------------------------------------------------ Head.truncateWAL is an instance *)
From Coq Require Import Sorted.

Definition seg_le (a b : Z * record) : Prop := fst a <= fst b.

Lemma filter_none {A} (p : A -> bool) l : Forall (fun x => p x = false) l -> filter p l = [].
Proof. induction 1; simpl; auto. rewrite H. auto. Qed.

Lemma filter_same {A} (p q : A -> bool) l : Forall (fun x => p x = q x) l -> filter p l = filter q l.
Proof. induction 1; simpl; auto. rewrite H, IHForall. auto. Qed.

Lemma split_sorted c last (l : list (Z * record)) :
  c <= last -> StronglySorted seg_le l ->
  filter (fun sr => (c <? fst sr) && (fst sr <=? last)) l ++ filter (fun sr => last <? fst sr) l =
  filter (fun sr => c <? fst sr) l.
Proof.
  intros Hc. induction 1 as [|a l HS IH HF]; simpl; auto.
  destruct (fst a <=? last) eqn:E.
  - assert (X : (last <? fst a) = false) by (apply Z.ltb_ge; apply Z.leb_le in E; lia).
    rewrite X, andb_true_r. destruct (c <? fst a); simpl; rewrite IH; auto.
  - apply Z.leb_gt in E.
    assert (X : (last <? fst a) = true) by (apply Z.ltb_lt; lia).
    assert (Y : (c <? fst a) = true) by (apply Z.ltb_lt; lia).
    rewrite X, Y, andb_false_r.
    rewrite (filter_none (fun sr => (c <? fst sr) && (fst sr <=? last)) l).
    + simpl. f_equal. apply filter_same.
      eapply Forall_impl; [|exact HF]. intros b Hb. unfold seg_le in Hb.
      assert ((last <? fst b) = true) by (apply Z.ltb_lt; lia).
      assert ((c <? fst b) = true) by (apply Z.ltb_lt; lia). congruence.
    + eapply Forall_impl; [|exact HF]. intros b Hb. unfold seg_le in Hb.
      assert ((fst b <=? last) = false) by (apply Z.leb_gt; lia). rewrite H. apply andb_false_r.
Qed.

Lemma filter_idem {A} (p : A -> bool) l : filter p (filter p l) = filter p l.
Proof. induction l; simpl; auto. destruct (p a) eqn:E; simpl; rewrite ?E, IHl; auto. Qed.

Theorem truncate_wal_records h mint last :
  h_last_trunc h < mint ->
  plan_last (w_first (h_wal h)) (w_cur (h_wal h)) = Some last ->
  w_cpidx (h_wal h) <= last ->
  StronglySorted seg_le (w_segs (h_wal h)) ->
  let low := cp_input (h_wal h) last in
  let high := map snd (filter (fun sr => last <? fst sr) (w_segs (h_wal h))) in
  wal_records (h_wal h) = low ++ high /\
  wal_records (h_wal (truncate_wal h mint)) =
    checkpoint (keep_head (h_series h) (h_exp h) mint) mint low ++ high.
Proof.
  intros Hm Hp Hc Hs low high. split.
  - unfold low, high, cp_input, wal_records. rewrite <- app_assoc, <- map_app. do 2 f_equal.
    symmetry. apply split_sorted; auto.
  - unfold truncate_wal. assert (E : (mint <=? h_last_trunc h) = false) by (apply Z.leb_gt; auto).
    rewrite E, Hp. unfold wal_records; simpl. rewrite filter_idem. reflexivity.
Qed.

(* ------------------------------------------------------------------ corollary for the head, examples, refutations *)
Theorem truncate_wal_equiv h mint mv last :
  h_last_trunc h < mint ->
  plan_last (w_first (h_wal h)) (w_cur (h_wal h)) = Some last ->
  w_cpidx (h_wal h) <= last ->
  StronglySorted seg_le (w_segs (h_wal h)) ->
  safe (keep_head (h_series h) (h_exp h) mint) mint mv (cp_input (h_wal h) last)
       (map snd (filter (fun sr => last <? fst sr) (w_segs (h_wal h)))) ->
  view_items mint (d_items (replay_data mv (wal_records (h_wal (truncate_wal h mint))))) =
  view_items mint (d_items (replay_data mv (wal_records (h_wal h)))).
Proof.
  intros Hm Hp Hc Hs HS.
  destruct (truncate_wal_records h mint last Hm Hp Hc Hs) as [E1 E2].
  rewrite E1, E2. apply checkpoint_equiv; auto.
Qed.

(* a checkpointed log: series 1 (label set 10) was garbage collected and is not kept, the label set came
   back as series 3; series 2 has a tombstone; mint = 100 *)
Definition ex_keep (r : ref) : bool := negb (r =? 1).
Definition ex_low : list record :=
  [RSeries [(1, 10); (2, 20)]; RMetadata [(1, 7); (2, 8)];
   RSamples 0 [((1, 50), 1); ((2, 50), 1)]; RSamples 0 [((2, 150), 2)];
   RSeries [(3, 10)]; RSamples 0 [((3, 160), 1)]; RExemplars [((3, 160), 5); ((1, 40), 4)];
   RTombstones [(2, [(140, 155)])]].
Definition ex_high : list record := [RSamples 0 [((3, 170), 2); ((2, 180), 3); ((1, 60), 9)]].

Lemma ex_safe : safe ex_keep 100 minInt64 ex_low ex_high.
Proof. apply safeb_sound. vm_compute. reflexivity. Qed.

Lemma ex_checkpoint :
  checkpoint ex_keep 100 ex_low =
  [RSeries [(2, 20)]; RSamples 0 [((2, 150), 2)]; RSeries [(3, 10)]; RSamples 0 [((3, 160), 1)];
   RExemplars [((3, 160), 5)]; RTombstones [(2, [(140, 155)])]; RMetadata [(2, 8)]].
Proof. vm_compute. reflexivity. Qed.

Lemma ex_view_nonempty :
  length (view_items 100 (d_items (replay_data minInt64 (ex_low ++ ex_high)))) = 6%nat.
Proof. vm_compute. reflexivity. Qed.

(* "latest metadata" is not preserved for a label set whose old series record is dropped: the untruncated
   log resurrects the old series' metadata for the re-created series (multiRef), the truncated log has none *)
Lemma metadata_refuted :
  exists keep mint mv low high L,
    safe keep mint mv low high /\
    In L (map i_lab (view_items mint (d_items (replay_data mv (low ++ high))))) /\
    lookup L (d_meta (replay_data mv (checkpoint keep mint low ++ high))) <>
    lookup L (d_meta (replay_data mv (low ++ high))).
Proof.
  exists ex_keep, 100, minInt64, ex_low, ex_high, 10. split; [exact ex_safe|].
  split; vm_compute; [tauto|discriminate].
Qed.

(* Reachable in the head model: after Head.Truncate(100) a sample below 100 of the garbage-collected
   series 1 is left in a later segment without any series record (walExpiries[1] = actualInOrderMint = 50
   < 100), so the literal "every record left in the log" form of the precedence statement fails; the
   form "at or after the truncation time" holds. *)
Definition ex_history : list event :=
  [ELog [(0, RSeries [(1, 10); (2, 20)]); (0, RSamples 0 [((1, 50), 1); ((2, 50), 1)])]; ERoll;
   ELog [(1, RSamples 0 [((2, 120), 2)])]; ERoll; ELog [(2, RSamples 0 [((2, 125), 3)])]; ERoll;
   ELog [(3, RSamples 0 [((1, 60), 2); ((2, 130), 4)])];
   ETruncate true 100 [1] 50].

Lemma precede_literal_refuted :
  w_cpidx (h_wal (run ex_history)) = 1 /\
  preceded minInt64 (wal_records (h_wal (run ex_history))) = false /\
  preceded 100 (wal_records (h_wal (run ex_history))) = true.
Proof. vm_compute. auto. Qed.
(* ------------------------------------------------------------------ the agent's truncate is an instance too *)
Theorem agent_truncate_records a mint gone last :
  plan_last (w_first (a_wal a)) (w_cur (a_wal a)) = Some last ->
  w_cpidx (a_wal a) <= last ->
  StronglySorted seg_le (w_segs (a_wal a)) ->
  let low := cp_input (a_wal a) last in
  let high := map snd (filter (fun sr => last <? fst sr) (w_segs (a_wal a))) in
  let ser := filter (fun r => negb (memz r gone)) (a_series a) in
  let del := set_all gone (w_cur (a_wal a)) (a_deleted a) in
  wal_records (a_wal a) = low ++ high /\
  wal_records (a_wal (agent_truncate a mint gone)) = checkpoint (agent_keep ser del last) mint low ++ high.
Proof.
  intros Hp Hc Hs low high ser del. split.
  - unfold low, high, cp_input, wal_records. rewrite <- app_assoc, <- map_app. do 2 f_equal.
    symmetry. apply split_sorted; auto.
  - unfold agent_truncate. rewrite Hp. unfold wal_records; simpl. rewrite filter_idem. reflexivity.
Qed.

(* the agent keeps a series record as long as a segment that may hold its samples is left: with the
   checkpoint taken up to `last`, every record in a later segment belongs to a series that is kept *)
Theorem agent_truncate_preceded a mint gone last :
  plan_last (w_first (a_wal a)) (w_cur (a_wal a)) = Some last ->
  w_cpidx (a_wal a) <= last ->
  StronglySorted seg_le (w_segs (a_wal a)) ->
  let ser := filter (fun r => negb (memz r gone)) (a_series a) in
  let del := set_all gone (w_cur (a_wal a)) (a_deleted a) in
  (forall x, In x (flat_map (rec_refs_at mint) (wal_records (a_wal a))) -> agent_keep ser del last x = true) ->
  preceded mint (wal_records (a_wal a)) = true ->
  preceded mint (wal_records (a_wal (agent_truncate a mint gone))) = true.
Proof.
  intros Hp Hc Hs ser del HK HP.
  destruct (agent_truncate_records a mint gone last Hp Hc Hs) as [E1 E2].
  rewrite E2. rewrite E1 in HK, HP. apply checkpoint_preceded; auto.
Qed.

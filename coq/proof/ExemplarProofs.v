(* proof/ExemplarProofs.v — lemmas for C21 (see props/C21.v for the statements that count). *)
From Coq Require Import List ZArith Bool Lia Permutation Sorted.
From Verif Require Import lib.Int64 model.Exemplar.
Import ListNotations.
Open Scope Z_scope.

(* ------------------------------------------------------------------ lists *)
Lemma zlen_nonneg {A} (l : list A) : 0 <= zlen l.
Proof. unfold zlen. lia. Qed.

Lemma zlen_app {A} (a b : list A) : zlen (a ++ b) = zlen a + zlen b.
Proof. unfold zlen. rewrite app_length. lia. Qed.

Lemma zlen_repeat {A} (x : A) n : zlen (repeat x n) = Z.of_nat n.
Proof. unfold zlen. now rewrite repeat_length. Qed.

Lemma upd_nat_length {A} (l : list A) n f : length (upd_nat l n f) = length l.
Proof. revert n; induction l as [|x t IH]; intros [|n]; simpl; auto. Qed.

Lemma upd_nat_app_l {A} (a b : list A) i f : (i < length a)%nat -> upd_nat (a ++ b) i f = upd_nat a i f ++ b.
Proof.
  revert i; induction a as [|x t IH]; intros i Hi; simpl in *; [lia|].
  destruct i; simpl; [reflexivity|]. rewrite IH by lia. reflexivity.
Qed.

Lemma upd_nat_app_r {A} (a b : list A) i f : (length a <= i)%nat -> upd_nat (a ++ b) i f = a ++ upd_nat b (i - length a) f.
Proof.
  revert i; induction a as [|x t IH]; intros i Hi; simpl in *.
  - now rewrite Nat.sub_0_r.
  - destruct i; [lia|]. simpl. rewrite IH by lia. reflexivity.
Qed.

Lemma split_at {A} (l : list A) k : (k <= length l)%nat -> exists a b, l = a ++ b /\ length a = k.
Proof.
  intros H. exists (firstn k l), (skipn k l). split; [now rewrite firstn_skipn|].
  rewrite firstn_length. lia.
Qed.

Lemma skipn_app_len {A} (a b : list A) n : n = length a -> skipn n (a ++ b) = b.
Proof. intros ->. rewrite skipn_app, skipn_all, Nat.sub_diag. reflexivity. Qed.

Lemma firstn_app_len {A} (a b : list A) n : n = length a -> firstn n (a ++ b) = a.
Proof. intros ->. rewrite firstn_app, firstn_all, Nat.sub_diag. simpl. now rewrite app_nil_r. Qed.

Lemma rotate_app {A} (a b : list A) n : n = length a -> rotate n (a ++ b) = b ++ a.
Proof. intros H. unfold rotate. now rewrite skipn_app_len, firstn_app_len. Qed.

Lemma rotate_length {A} (l : list A) k : length (rotate k l) = length l.
Proof.
  unfold rotate. rewrite app_length, Nat.add_comm, <- app_length, firstn_skipn. reflexivity.
Qed.

Lemma rotate_0 {A} (l : list A) : rotate 0 l = l.
Proof. unfold rotate. simpl. now rewrite app_nil_r. Qed.

(* updating position (k+i) mod n of the ring = updating position i of the ring seen from k *)
Lemma rotate_upd {A} (l : list A) (k i : nat) f :
  (k <= length l)%nat -> (i < length l)%nat ->
  rotate k (upd_nat l (if (k + i <? length l)%nat then k + i else k + i - length l)%nat f)
  = upd_nat (rotate k l) i f.
Proof.
  intros Hk Hi. destruct (split_at l k Hk) as (a & b & -> & Ha).
  rewrite app_length in *. rewrite (rotate_app a b) by auto.
  destruct (Nat.ltb_spec (k + i) (length a + length b)) as [H|H].
  - rewrite upd_nat_app_r by lia. replace (k + i - length a)%nat with i by lia.
    rewrite rotate_app by auto. rewrite upd_nat_app_l by lia. reflexivity.
  - rewrite upd_nat_app_l by lia.
    rewrite rotate_app by (rewrite upd_nat_length; auto).
    rewrite upd_nat_app_r by lia. f_equal. f_equal. lia.
Qed.

Lemma upd_nat_0 {A} (l : list A) f x t : l = x :: t -> upd_nat l 0 f = f x :: t.
Proof. intros ->. reflexivity. Qed.

(* advancing the start of the view by one moves the head to the end *)
Lemma rotate_succ {A} (l : list A) (k : nat) x t :
  (k < length l)%nat -> rotate k l = x :: t ->
  rotate (if (S k <? length l)%nat then S k else 0%nat) l = t ++ [x].
Proof.
  intros Hk Hr. destruct (split_at l k (Nat.lt_le_incl _ _ Hk)) as (a & b & -> & Ha).
  rewrite rotate_app in Hr by auto. rewrite app_length in *.
  destruct b as [|y b]; [simpl in *; lia|]. simpl in Hr. injection Hr as -> <-.
  destruct (Nat.ltb_spec (S k) (length a + length (x :: b))) as [H|H].
  - replace (a ++ x :: b) with ((a ++ [x]) ++ b) by now rewrite <- app_assoc.
    rewrite rotate_app by (rewrite app_length; simpl; lia). now rewrite app_assoc.
  - simpl in H. assert (b = []) by (destruct b; simpl in *; [auto|lia]). subst b.
    rewrite rotate_0. reflexivity.
Qed.

Lemma somes_app {A} (a b : list (option A)) : somes (a ++ b) = somes a ++ somes b.
Proof. induction a as [|[x|] t IH]; simpl; auto. now rewrite IH. Qed.
Lemma somes_none {A} n : somes (repeat (@None A) n) = [].
Proof. induction n; simpl; auto. Qed.
Lemma somes_some {A} (l : list A) : somes (map Some l) = l.
Proof. induction l; simpl; auto. now rewrite IHl. Qed.

Lemma lastn_all {A} (l : list A) n : (length l <= n)%nat -> lastn n l = l.
Proof. intros H. unfold lastn. replace (length l - n)%nat with 0%nat by lia. reflexivity. Qed.

Lemma lastn_length {A} (l : list A) n : length (lastn n l) = Nat.min n (length l).
Proof. unfold lastn. rewrite skipn_length. lia. Qed.

(* ------------------------------------------------------------------ getz / setz *)
Lemma setz_ok {A} (l : list A) i f : 0 <= i < zlen l -> setz l i f = Ok (upd_nat l (Z.to_nat i) f).
Proof.
  intros H. unfold setz.
  destruct (Z.ltb_spec i 0); [lia|]. destruct (Z.leb_spec (zlen l) i); [lia|]. reflexivity.
Qed.

Lemma gorem_small a b : 0 <= a < b -> gorem a b = a.
Proof. intros. unfold gorem. apply Z.rem_small. lia. Qed.
Lemma gorem_self a : 0 < a -> gorem a a = 0.
Proof. intros. unfold gorem. rewrite Z.rem_mod_nonneg by lia. apply Z_mod_same_full. Qed.
Lemma gorem_wrap a b : 0 < b -> b <= a < 2 * b -> gorem a b = a - b.
Proof.
  intros Hb H. unfold gorem. rewrite Z.rem_mod_nonneg by lia.
  symmetry. apply Z.mod_unique_pos with (q := 1); lia.
Qed.

Lemma slicez_ok {A} (l : list A) f t : 0 <= f <= t -> t <= zlen l ->
  slicez l f t = Ok (firstn (Z.to_nat (t - f)) (skipn (Z.to_nat f) l)).
Proof.
  intros H1 H2. unfold slicez.
  destruct (Z.ltb_spec f 0); [lia|]. destruct (Z.ltb_spec t f); [lia|]. destruct (Z.ltb_spec (zlen l) t); [lia|].
  reflexivity.
Qed.

(* ------------------------------------------------------------------ ring level: invariant *)
Definition view (r : rstate) : list (option (Z * exemplar)) := rotate (Z.to_nat (r_next r)) (r_ring r).

Definition RInv (r : rstate) : Prop :=
  ((r_ring r = [] /\ r_next r = 0) \/ 0 <= r_next r < zlen (r_ring r))
  /\ exists h, view r = repeat None h ++ map Some (r_kept r).

Lemma r_kept_view r : r_kept r = somes (view r).
Proof. reflexivity. Qed.

Lemma RInv_new l w : RInv (r_new l w).
Proof.
  unfold r_new, RInv, view, r_kept; simpl. rewrite rotate_0. split.
  - destruct (Z.to_nat (Z.max l 0)) eqn:E; [left; auto|right]. rewrite zlen_repeat. lia.
  - exists (Z.to_nat (Z.max l 0)). rewrite somes_none. simpl. now rewrite app_nil_r.
Qed.

Lemma RInv_len r h : view r = repeat None h ++ map Some (r_kept r) ->
  zlen (r_ring r) = Z.of_nat h + zlen (r_kept r).
Proof.
  intros H. unfold zlen at 1. rewrite <- (rotate_length _ (Z.to_nat (r_next r))). fold (view r). rewrite H.
  rewrite app_length, repeat_length, map_length. unfold zlen. lia.
Qed.

Lemma kept_le_cap r : RInv r -> zlen (r_kept r) <= zlen (r_ring r).
Proof. intros [_ [h H]]. rewrite (RInv_len r h H). lia. Qed.

(* ------------------------------------------------------------------ ring level: add *)
Lemma r_validate_spec r sid e : r_validate r sid e = sp_validate WFixed (r_spec r) sid e.
Proof. reflexivity. Qed.

Lemma tl_app_single {A} (l : list A) x n : length l = n -> (0 < n)%nat ->
  lastn n (l ++ [x]) = tl l ++ [x].
Proof.
  intros H Hn. unfold lastn. rewrite app_length. simpl.
  replace (length l + 1 - n)%nat with 1%nat by lia.
  destruct l; simpl in *; [lia|reflexivity].
Qed.

(* the view after overwriting its head and advancing: holes first, newest [n] retained *)
Lemma advance_view {A} (V : list (option A)) h K x n :
  V = repeat None h ++ map Some K -> length V = n -> (0 < n)%nat ->
  exists h', tl V ++ [Some x] = repeat None h' ++ map Some (lastn n (K ++ [x])).
Proof.
  intros -> Hl Hn. rewrite app_length, repeat_length, map_length in Hl.
  destruct h as [|h'].
  - exists 0%nat. simpl in *. rewrite tl_app_single by lia.
    destruct K; simpl in *; [lia|]. rewrite map_app. reflexivity.
  - exists h'. simpl. rewrite lastn_all by (rewrite app_length; simpl; lia).
    rewrite map_app, <- app_assoc. reflexivity.
Qed.

Lemma somes_holes_first {A} h (K : list A) : somes (repeat None h ++ map Some K) = K.
Proof. now rewrite somes_app, somes_none, somes_some. Qed.

Lemma r_add_stored r x :
  RInv r -> r_ring r <> [] ->
  exists r', (rg <- setz (r_ring r) (r_next r) (fun _ => Some x) ;;
              Ok (mkR rg (gorem (r_next r + 1) (zlen rg)) (r_win r), AddStored)) = Ok (r', AddStored)
             /\ RInv r' /\ zlen (r_ring r') = zlen (r_ring r) /\ r_win r' = r_win r
             /\ r_kept r' = lastn (Z.to_nat (zlen (r_ring r))) (r_kept r ++ [x]).
Proof.
  intros [Hn [h Hv]] Hne.
  destruct Hn as [[E _]|Hn]; [contradiction|].
  rewrite setz_ok by auto. simpl.
  set (k := Z.to_nat (r_next r)) in *.
  set (rg := upd_nat (r_ring r) k (fun _ => Some x)).
  assert (Hlen : length rg = length (r_ring r)) by apply upd_nat_length.
  assert (Hk : (k < length (r_ring r))%nat) by (unfold zlen in Hn; lia).
  assert (Hz : zlen rg = zlen (r_ring r)) by (unfold zlen; now rewrite Hlen).
  eexists. split; [reflexivity|].
  assert (Hv1 : rotate k rg = Some x :: tl (view r)).
  { pose proof (rotate_upd (r_ring r) k 0 (fun _ => Some x) ltac:(lia) ltac:(lia)) as R.
    rewrite Nat.add_0_r in R. destruct (Nat.ltb_spec k (length (r_ring r))); [|lia].
    fold rg in R. rewrite R. change (rotate k (r_ring r)) with (view r).
    destruct (view r) eqn:Ev.
    - exfalso. apply (f_equal (@length _)) in Ev. unfold view in Ev. rewrite rotate_length in Ev. simpl in Ev. lia.
    - reflexivity. }
  set (n' := gorem (r_next r + 1) (zlen rg)).
  assert (Hn' : Z.to_nat n' = if (S k <? length rg)%nat then S k else 0%nat).
  { unfold n'. rewrite Hz. destruct (Nat.ltb_spec (S k) (length rg)) as [H|H].
    - rewrite gorem_small by (unfold zlen; lia). lia.
    - assert (E : r_next r + 1 = zlen (r_ring r)) by (unfold zlen; lia).
      rewrite E. rewrite gorem_self by lia. reflexivity. }
  assert (Hv2 : rotate (Z.to_nat n') rg = tl (view r) ++ [Some x]).
  { rewrite Hn'. apply rotate_succ; [lia|exact Hv1]. }
  assert (Hrange : 0 <= n' < zlen rg).
  { unfold n'. rewrite Hz. destruct (Z.ltb_spec (r_next r + 1) (zlen (r_ring r))).
    - rewrite gorem_small by lia. lia.
    - replace (r_next r + 1) with (zlen (r_ring r)) by lia. rewrite gorem_self by lia. lia. }
  destruct (advance_view (view r) h (r_kept r) x (Z.to_nat (zlen (r_ring r))) Hv) as [h' Hadv].
  { unfold view. rewrite rotate_length. unfold zlen. lia. }
  { unfold zlen. lia. }
  assert (Hk' : r_kept (mkR rg n' (r_win r)) = lastn (Z.to_nat (zlen (r_ring r))) (r_kept r ++ [x])).
  { unfold r_kept. simpl. rewrite Hv2, Hadv. apply somes_holes_first. }
  split; [|split; [exact Hz|split; [reflexivity|exact Hk']]].
  split; [right; exact Hrange|].
  exists h'. rewrite Hk'. unfold view. simpl. rewrite Hv2. exact Hadv.
Qed.

Lemma r_add_refines r sid e : RInv r ->
  exists r' a, r_add r sid e = Ok (r', a) /\ RInv r' /\ sp_add WFixed (r_spec r) sid e = (r_spec r', a).
Proof.
  intros HI. unfold r_add, sp_add. rewrite r_validate_spec.
  destruct (sp_validate WFixed (r_spec r) sid e) eqn:Ev;
    try (eexists; eexists; split; [reflexivity|split; [exact HI|reflexivity]]).
  change (sp_kept (r_spec r)) with (r_kept r).
  destruct (sp_mid_dup (series_list sid (r_kept r)) e).
  - eexists; eexists; split; [reflexivity|split; [exact HI|reflexivity]].
  - assert (Hne : r_ring r <> []).
    { intros E. unfold sp_validate, r_spec in Ev. simpl in Ev. rewrite E in Ev. simpl in Ev. discriminate. }
    destruct (r_add_stored r (sid, e) HI Hne) as (r' & Hs & HI' & Hz & Hw & Hk).
    exists r', AddStored. split; [exact Hs|split; [exact HI'|]].
    unfold r_spec. simpl. rewrite Hz, Hw, Hk. reflexivity.
Qed.

(* ------------------------------------------------------------------ ring level: resize *)
Lemma firstn_upd_succ {A} (V : list A) i f : (i < length V)%nat ->
  exists y, firstn (S i) (upd_nat V i f) = firstn i V ++ [f y] /\
            forall k, skipn (S i + k) (upd_nat V i f) = skipn (S i + k) V.
Proof.
  intros Hi. destruct (split_at V i (Nat.lt_le_incl _ _ Hi)) as (a & b & -> & Ha).
  destruct b as [|y b]; [rewrite app_length in Hi; simpl in Hi; lia|].
  exists y. subst i. rewrite upd_nat_app_r by lia. rewrite Nat.sub_diag. simpl upd_nat.
  assert (E1 : a ++ f y :: b = (a ++ [f y]) ++ b) by now rewrite <- app_assoc.
  assert (E2 : a ++ y :: b = (a ++ [y]) ++ b) by now rewrite <- app_assoc.
  split.
  - rewrite E1. rewrite (firstn_app_len (a ++ [f y]) b) by (rewrite app_length; simpl; lia).
    rewrite (firstn_app_len a (y :: b)) by auto. reflexivity.
  - intros k. rewrite E1, E2.
    rewrite (skipn_app _ (a ++ [f y]) b), (skipn_app _ (a ++ [y]) b).
    rewrite (skipn_all2 (a ++ [f y])) by (rewrite app_length; simpl; lia).
    rewrite (skipn_all2 (a ++ [y])) by (rewrite app_length; simpl; lia).
    rewrite !app_length. reflexivity.
Qed.

Lemma r_clear_view {A} (n ds : nat) : (ds < n)%nat ->
  forall k i (rg : list (option A)), length rg = n -> (i + k <= n)%nat ->
  exists rg', r_clear rg (Z.of_nat n) (Z.of_nat ds) (Z.of_nat i) k = Ok rg' /\ length rg' = n /\
    rotate ds rg' = firstn i (rotate ds rg) ++ repeat None k ++ skipn (i + k) (rotate ds rg).
Proof.
  intros Hds. induction k as [|k IH]; intros i rg Hl Hik.
  - exists rg. split; [reflexivity|split; [auto|]]. simpl. rewrite Nat.add_0_r. now rewrite firstn_skipn.
  - simpl.
    set (p := gorem (Z.of_nat ds + Z.of_nat i) (Z.of_nat n)).
    assert (Hp : Z.to_nat p = (if (ds + i <? length rg)%nat then (ds + i)%nat else (ds + i - length rg)%nat)
                 /\ 0 <= p < Z.of_nat n).
    { unfold p. rewrite Hl. destruct (Nat.ltb_spec (ds + i) n).
      - rewrite gorem_small by lia. lia.
      - rewrite gorem_wrap by lia. lia. }
    destruct Hp as [Hp Hpr].
    rewrite setz_ok by (unfold zlen; lia). simpl.
    set (rg1 := upd_nat rg (Z.to_nat p) (fun _ => None)).
    assert (Hl1 : length rg1 = n) by (unfold rg1; now rewrite upd_nat_length).
    replace (Z.of_nat i + 1) with (Z.of_nat (S i)) by lia.
    destruct (IH (S i) rg1 Hl1 ltac:(lia)) as (rg' & Hr & Hl' & Hv).
    exists rg'. split; [exact Hr|split; [exact Hl'|]].
    rewrite Hv. unfold rg1. rewrite Hp.
    rewrite rotate_upd by lia.
    destruct (firstn_upd_succ (rotate ds rg) i (fun _ => None)) as (y & Hf & Hs).
    { rewrite rotate_length. lia. }
    rewrite Hf, Hs. rewrite <- app_assoc. simpl.
    replace (i + S k)%nat with (S (i + k)) by lia. reflexivity.
Qed.

Lemma slicez_app3 {A} (a b c : list A) f t : f = zlen a -> t = zlen a + zlen b ->
  slicez (a ++ b ++ c) f t = Ok b.
Proof.
  intros -> ->. pose proof (zlen_nonneg a). pose proof (zlen_nonneg b). pose proof (zlen_nonneg c).
  rewrite slicez_ok by (rewrite ?zlen_app; lia).
  rewrite skipn_app_len by (unfold zlen; lia).
  rewrite firstn_app_len by (unfold zlen; lia). reflexivity.
Qed.

Lemma copy_shrink {A} (L : list A) (ds diff : Z) :
  let n := zlen L in
  let de := gorem (ds + diff) n in
  0 <= ds < n -> 0 < diff <= n ->
  (ds = de -> diff = n) /\
  (ds < de -> r_copy L [(de, n); (0, ds)] = Ok (skipn (Z.to_nat diff) (rotate (Z.to_nat ds) L))) /\
  (de < ds -> r_copy L [(de, ds)] = Ok (skipn (Z.to_nat diff) (rotate (Z.to_nat ds) L))).
Proof.
  intros n de Hds Hdiff.
  destruct (split_at L (Z.to_nat ds) ltac:(unfold n, zlen in *; lia)) as (a & b & E & Ha).
  assert (Hn : n = zlen a + zlen b) by (unfold n; rewrite E, zlen_app; lia).
  assert (Hza : zlen a = ds) by (unfold zlen; lia).
  destruct (Z.lt_trichotomy (ds + diff) n) as [H|[H|H]].
  - (* no wrap, de = ds + diff *)
    assert (Hde : de = ds + diff) by (unfold de; rewrite gorem_small; lia).
    split; [lia|split; [|lia]]. intros _.
    destruct (split_at b (Z.to_nat diff) ltac:(unfold zlen in *; lia)) as (b1 & b2 & Eb & Hb1).
    subst L b. rewrite rotate_app by lia. simpl.
    replace (a ++ b1 ++ b2) with ((a ++ b1) ++ b2 ++ []) at 1 by (rewrite app_nil_r; now rewrite app_assoc).
    rewrite slicez_app3; [|rewrite zlen_app; unfold zlen in *; lia| rewrite !zlen_app in *; unfold zlen in *; lia].
    simpl.
    replace (a ++ b1 ++ b2) with ([] ++ a ++ (b1 ++ b2)) by reflexivity.
    rewrite slicez_app3; [|reflexivity|unfold zlen in *; simpl; lia]. simpl.
    rewrite app_nil_r. rewrite <- app_assoc. rewrite skipn_app_len by lia. reflexivity.
  - (* ds + diff = n, de = 0 *)
    assert (Hde : de = 0) by (unfold de; rewrite H; apply gorem_self; lia).
    split; [lia|split; [lia|]]. intros Hlt.
    subst L. rewrite rotate_app by lia. simpl. rewrite Hde.
    replace (a ++ b) with ([] ++ a ++ b) by reflexivity.
    rewrite slicez_app3; [|reflexivity|unfold zlen in *; simpl; lia]. simpl.
    rewrite app_nil_r. rewrite skipn_app_len by (unfold zlen in *; lia). reflexivity.
  - (* wrap: de = ds + diff - n *)
    assert (Hde : de = ds + diff - n) by (unfold de; rewrite gorem_wrap; lia).
    split; [lia|split; [lia|]]. intros Hlt.
    destruct (split_at a (Z.to_nat de) ltac:(unfold zlen in *; lia)) as (a1 & a2 & Ea & Ha1).
    subst L a. rewrite rotate_app by lia. simpl.
    rewrite <- app_assoc.
    rewrite slicez_app3; [|unfold zlen in *; lia|rewrite !zlen_app in *; unfold zlen in *; lia].
    simpl. rewrite app_nil_r.
    rewrite app_assoc. rewrite skipn_app_len; [reflexivity|].
    rewrite !app_length. rewrite !zlen_app in *. unfold zlen in *. lia.
Qed.

Lemma shrink_view {A} (K : list A) (h diff l : nat) :
  (diff + l = h + length K)%nat ->
  exists h', skipn diff (repeat (@None A) h ++ map Some K) = repeat None h' ++ map Some (lastn l K).
Proof.
  intros H. destruct (Nat.le_gt_cases diff h) as [Hd|Hd].
  - exists (h - diff)%nat. rewrite skipn_app, repeat_length.
    replace (diff - h)%nat with 0%nat by lia. simpl.
    rewrite lastn_all by lia. f_equal.
    replace h with (diff + (h - diff))%nat at 1 by lia. rewrite repeat_app.
    rewrite skipn_app_len by now rewrite repeat_length. reflexivity.
  - exists 0%nat. rewrite skipn_app, repeat_length.
    rewrite skipn_all2 by (rewrite repeat_length; lia). simpl.
    rewrite skipn_map. unfold lastn. do 2 f_equal. lia.
Qed.

Lemma zmax_if l : (if l <=? 0 then 0 else l) = Z.max l 0.
Proof. destruct (Z.leb_spec l 0); lia. Qed.

Lemma r_copy_grow {A} (L : list A) (k : Z) : 0 <= k <= zlen L ->
  r_copy L [(k, zlen L); (0, k)] = Ok (rotate (Z.to_nat k) L).
Proof.
  intros Hk. destruct (split_at L (Z.to_nat k) ltac:(unfold zlen in *; lia)) as (a & b & E & Ha).
  subst L. rewrite rotate_app by lia. simpl.
  replace (a ++ b) with (a ++ b ++ []) at 1 by now rewrite app_nil_r.
  rewrite slicez_app3; [|unfold zlen; lia|rewrite zlen_app; unfold zlen; lia]. simpl.
  replace (a ++ b) with ([] ++ a ++ b) by reflexivity.
  rewrite slicez_app3; [|reflexivity|unfold zlen in *; simpl; lia]. simpl.
  now rewrite app_nil_r.
Qed.

Lemma r_resize_refines r l : RInv r ->
  exists r' m, r_resize r l = Ok (r', m) /\ RInv r' /\ sp_resize (r_spec r) l = (r_spec r', m).
Proof.
  intros HI. pose proof HI as [Hn [h Hv]].
  pose proof (RInv_len r h Hv) as HL.
  unfold r_resize, sp_resize. rewrite zmax_if. set (l' := Z.max l 0).
  change (sp_cap (r_spec r)) with (zlen (r_ring r)). change (sp_kept (r_spec r)) with (r_kept r).
  change (sp_win (r_spec r)) with (r_win r).
  set (old := zlen (r_ring r)) in *.
  assert (Hold : 0 <= old) by apply zlen_nonneg.
  assert (Hnx : 0 <= r_next r <= old).
  { destruct Hn as [[E1 E2]|Hn]; [rewrite E2; lia|lia]. }
  destruct (Z.eqb_spec l' old) as [E|NE].
  - exists r, 0. split; [reflexivity|split; [exact HI|reflexivity]].
  - destruct (Z.ltb_spec old l') as [Hg|Hs].
    + (* grow *)
      unfold old at 1. rewrite r_copy_grow by (fold old; lia). simpl.
      fold (view r). set (c := view r).
      assert (Hc : zlen c = old) by (unfold c, view, zlen; rewrite rotate_length; reflexivity).
      eexists; eexists. split; [reflexivity|].
      assert (Hview : view (mkR (c ++ repeat None (Z.to_nat (l' - zlen c))) (zlen c) (r_win r))
                      = repeat None (Z.to_nat (l' - zlen c) + h) ++ map Some (r_kept r)).
      { unfold view. simpl. rewrite rotate_app by (unfold zlen; lia).
        unfold c. rewrite Hv. rewrite app_assoc, <- repeat_app. reflexivity. }
      assert (Hk : r_kept (mkR (c ++ repeat None (Z.to_nat (l' - zlen c))) (zlen c) (r_win r)) = r_kept r).
      { rewrite r_kept_view, Hview. apply somes_holes_first. }
      split; [split|].
      * right. simpl. rewrite zlen_app, zlen_repeat. lia.
      * eexists. rewrite Hk. exact Hview.
      * unfold r_spec. rewrite Hk. simpl. rewrite zlen_app, zlen_repeat.
        rewrite lastn_all by (unfold zlen in *; lia).
        replace (zlen c + Z.of_nat (Z.to_nat (l' - zlen c))) with l' by lia.
        unfold c. rewrite <- r_kept_view. reflexivity.
    + (* shrink *)
      assert (Hlt : 0 <= l' < old) by (unfold l' in *; lia).
      destruct (Z.eqb_spec old 0) as [E0|_]; [lia|].
      destruct Hn as [[E1 _]|Hn]; [unfold old, zlen in Hlt; rewrite E1 in Hlt; simpl in Hlt; lia|].
      set (diff := old - l'). set (ds := r_next r) in *.
      destruct (r_clear_view (Z.to_nat old) (Z.to_nat ds) ltac:(lia) (Z.to_nat diff) 0 (r_ring r)
                  ltac:(unfold old, zlen; lia) ltac:(unfold diff; lia)) as (rg & Hclr & Hlrg & Hvrg).
      rewrite !Z2Nat.id in Hclr by lia. change (Z.of_nat 0) with 0 in Hclr. rewrite Hclr. cbn [bind].
      simpl in Hvrg. fold (view r) in Hvrg.
      assert (Hzrg : zlen rg = old) by (unfold zlen; lia).
      pose proof (copy_shrink rg ds diff) as Hcp. cbv zeta in Hcp. rewrite Hzrg in Hcp.
      destruct (Hcp ltac:(lia) ltac:(unfold diff; lia)) as (Heq & Hlo & Hhi). clear Hcp.
      set (de := gorem (ds + diff) old) in *.
      destruct (Z.eqb_spec ds de) as [Ed|Nd].
      * (* shrink to zero *)
        assert (l' = 0) by (specialize (Heq Ed); unfold diff in Heq; lia).
        eexists; eexists. split; [reflexivity|]. rewrite H. simpl.
        split; [split; [left; auto|exists 0%nat; reflexivity]|].
        unfold r_spec, r_kept. simpl. unfold lastn. rewrite Nat.sub_0_r, skipn_all. reflexivity.
      * assert (Hc : (if ds <? de then r_copy rg [(de, old); (0, ds)] else r_copy rg [(de, ds)])
                     = Ok (skipn (Z.to_nat diff) (view r))).
        { destruct (Z.ltb_spec ds de); [rewrite Hlo by lia|rewrite Hhi by lia]; rewrite Hvrg;
            rewrite skipn_app_len by (now rewrite repeat_length); reflexivity. }
        rewrite Hc. cbn [bind].
        destruct (Z.eqb_spec l' 0) as [El|Nl].
        { exfalso. apply Nd. unfold de, diff. rewrite El. replace (ds + (old - 0)) with (ds + old) by lia.
          rewrite gorem_wrap by lia. lia. }
        set (c := skipn (Z.to_nat diff) (view r)).
        assert (Hzc : zlen c = l').
        { unfold c, zlen. rewrite skipn_length. unfold view. rewrite rotate_length. unfold old, diff, zlen in *. lia. }
        rewrite Hzc. rewrite Z.sub_diag. simpl. rewrite app_nil_r.
        rewrite gorem_self by lia.
        destruct (shrink_view (r_kept r) h (Z.to_nat diff) (Z.to_nat l')) as [h' Hsv].
        { unfold diff. unfold zlen in HL. fold old in HL. unfold zlen in *. lia. }
        assert (Hview : view (mkR c 0 (r_win r)) = repeat None h' ++ map Some (lastn (Z.to_nat l') (r_kept r))).
        { unfold view. simpl. rewrite rotate_0. unfold c. rewrite Hv. exact Hsv. }
        assert (Hk : r_kept (mkR c 0 (r_win r)) = lastn (Z.to_nat l') (r_kept r)).
        { rewrite r_kept_view, Hview. apply somes_holes_first. }
        eexists; eexists. split; [reflexivity|].
        split; [split|].
        -- right. simpl. lia.
        -- exists h'. rewrite Hk. exact Hview.
        -- unfold r_spec. rewrite Hk. simpl. rewrite Hzc.
           rewrite <- Hk. unfold r_kept. simpl. rewrite rotate_0. reflexivity.
Qed.

(* ------------------------------------------------------------------ ring level: histories *)
Lemma r_step_refines r o : RInv r ->
  exists r' b, r_step r o = Ok (r', b) /\ RInv r' /\ sp_step WFixed (r_spec r) o = (r_spec r', b).
Proof.
  intros HI. destruct o as [sid e|sid e|l|d|lo hi m| |]; simpl.
  - destruct (r_add_refines r sid e HI) as (r' & a & -> & HI' & ->). simpl. eauto.
  - eexists; eexists. split; [reflexivity|split; [exact HI|]]. now rewrite r_validate_spec.
  - destruct (r_resize_refines r l HI) as (r' & m & -> & HI' & ->). simpl. eauto.
  - eexists; eexists. split; [reflexivity|split; [|reflexivity]]. exact HI.
  - eexists; eexists. split; [reflexivity|split; [exact HI|reflexivity]].
  - eexists; eexists. split; [reflexivity|split; [exact HI|reflexivity]].
  - eexists; eexists. split; [reflexivity|split; [exact HI|reflexivity]].
Qed.

Lemma r_run_refines ops : forall r, RInv r -> r_run r ops = sp_run WFixed (r_spec r) ops.
Proof.
  induction ops as [|o t IH]; intros r HI; simpl; [reflexivity|].
  destruct (r_step_refines r o HI) as (r' & b & -> & HI' & ->). now rewrite IH.
Qed.

Lemma r_spec_new l w : r_spec (r_new l w) = sp_new l w.
Proof.
  unfold r_spec, r_new, sp_new, r_kept. simpl. rewrite rotate_0, somes_none, zlen_repeat.
  f_equal. lia.
Qed.

Lemma ring_refines l w ops : r_run (r_new l w) ops = sp_run WFixed (sp_new l w) ops.
Proof. rewrite r_run_refines by apply RInv_new. now rewrite r_spec_new. Qed.

(* reachable ring states *)
Definition r_exec (r : rstate) (ops : list op) : res rstate :=
  fold_left (fun acc o => r <- acc ;; '(r', _) <- r_step r o ;; Ok r') ops (Ok r).

Lemma r_exec_inv ops : forall r, RInv r -> exists r', r_exec r ops = Ok r' /\ RInv r'.
Proof.
  unfold r_exec. induction ops as [|o t IH]; intros r HI; simpl; [eauto|].
  destruct (r_step_refines r o HI) as (r' & b & -> & HI' & _). simpl. auto.
Qed.

(* ------------------------------------------------------------------ the window rule *)
Ltac Zify.zify_post_hook ::= Z.div_mod_to_equations.

Lemma too_old_fixed_ideal w ne e :
  int64 w -> int64 (e_ts ne) -> int64 (e_ts e) -> e_ts e < e_ts ne ->
  too_old WFixed w ne e = too_old WIdeal w ne e.
Proof.
  unfold int64, minInt64, maxInt64. intros Hw Hn He Hlt. simpl.
  destruct (Z.leb_spec w 0) as [H0|H0]; simpl.
  - symmetry. apply Z.leb_le. lia.
  - assert (E1 : u64 w = w) by (unfold u64, two64; apply Z.mod_small; lia).
    assert (E2 : u64 (sub64 (e_ts ne) (e_ts e)) = e_ts ne - e_ts e).
    { unfold u64, sub64, wrap64, two64. lia. }
    rewrite E1, E2. apply Bool.eq_iff_eq_true. rewrite !Z.leb_le. lia.
Qed.

Lemma ooo_rule_fixed_ideal w ne e :
  int64 w -> int64 (e_ts ne) -> int64 (e_ts e) -> ooo_rule WFixed w ne e = ooo_rule WIdeal w ne e.
Proof.
  intros Hw Hn He. unfold ooo_rule. destruct (Z.ltb_spec (e_ts e) (e_ts ne)) as [H|H]; [|reflexivity].
  now rewrite too_old_fixed_ideal.
Qed.

Lemma validate_fixed_ideal w newest e :
  int64 w -> int64 (e_ts e) -> (forall ne, newest = Some ne -> int64 (e_ts ne)) ->
  validate_against WFixed w newest e = validate_against WIdeal w newest e.
Proof.
  intros Hw He Hn. unfold validate_against. destruct (lab_too_long 0 (e_lens e)); [reflexivity|].
  destruct newest as [ne|]; [|reflexivity]. now rewrite ooo_rule_fixed_ideal by auto.
Qed.

(* the code before the fix disagreed with the documented rule on int64 inputs *)
Lemma window_wrap_old_refuted : exists w ne e,
  int64 w /\ int64 (e_ts ne) /\ int64 (e_ts e) /\
  validate_against WOld w (Some ne) e = VOOO /\ validate_against WIdeal w (Some ne) e = VOk.
Proof.
  exists 10, (mkEx 1 [(8, 1)] 7 (Some 1) (minInt64 + 5) true), (mkEx 1 [(8, 1)] 7 (Some 1) (minInt64 + 2) true).
  repeat split; vm_compute; congruence.
Qed.

(* ------------------------------------------------------------------ sort_ts *)
Lemma ins_ts_perm y l : Permutation (ins_ts y l) (y :: l).
Proof.
  induction l as [|x t IH]; simpl; [reflexivity|].
  destruct (e_ts y <? e_ts x); [reflexivity|]. rewrite IH. apply perm_swap.
Qed.

Lemma fold_ins_perm l : forall acc, Permutation (fold_left (fun acc y => ins_ts y acc) l acc) (acc ++ l).
Proof.
  induction l as [|x t IH]; intros acc; simpl; [now rewrite app_nil_r|].
  rewrite IH. transitivity ((x :: acc) ++ t).
  - apply Permutation_app_tail, ins_ts_perm.
  - simpl. apply Permutation_middle.
Qed.

Lemma sort_ts_perm l : Permutation (sort_ts l) l.
Proof. unfold sort_ts. now rewrite fold_ins_perm. Qed.

Definition sorted (l : list exemplar) : Prop := StronglySorted (fun a b => e_ts a <= e_ts b) l.

Lemma ins_ts_sorted y l : sorted l -> sorted (ins_ts y l).
Proof.
  unfold sorted. induction 1 as [|x t Hs IH Hx]; simpl.
  - constructor; constructor.
  - destruct (Z.ltb_spec (e_ts y) (e_ts x)) as [H|H].
    + constructor; [constructor; auto|]. constructor; [lia|].
      rewrite Forall_forall in *. intros z Hz. specialize (Hx z Hz). lia.
    + constructor; [exact IH|]. rewrite Forall_forall in *. intros z Hz.
      apply (Permutation_in _ (ins_ts_perm y t)) in Hz. destruct Hz as [<-|Hz]; [lia|auto].
Qed.

Lemma fold_ins_sorted l : forall acc, sorted acc -> sorted (fold_left (fun acc y => ins_ts y acc) l acc).
Proof. induction l; intros acc H; simpl; auto using ins_ts_sorted. Qed.

Lemma sort_ts_sorted l : sorted (sort_ts l).
Proof. apply fold_ins_sorted. constructor. Qed.

Lemma filter_sorted f l : sorted l -> sorted (filter f l).
Proof.
  unfold sorted. induction 1 as [|x t Hs IH Hx]; simpl; [constructor|].
  destruct (f x); [|exact IH]. constructor; [exact IH|].
  rewrite Forall_forall in *. intros z Hz. apply filter_In in Hz. apply Hx, Hz.
Qed.

Lemma in_series_list sid kept e : In e (series_list sid kept) <-> In (sid, e) kept.
Proof.
  unfold series_list. split; intros H.
  - apply (Permutation_in _ (sort_ts_perm _)) in H. unfold of_series in H.
    apply in_map_iff in H. destruct H as ([s x] & <- & H). apply filter_In in H. simpl in *.
    destruct H as [H E]. apply Z.eqb_eq in E. now subst.
  - apply (Permutation_in _ (Permutation_sym (sort_ts_perm _))). unfold of_series.
    apply in_map_iff. exists (sid, e). split; [reflexivity|]. apply filter_In. split; [auto|].
    simpl. apply Z.eqb_refl.
Qed.

(* ------------------------------------------------------------------ the reference: Select *)
Lemma in_insert_z k x l : In x (insert_z k l) <-> x = k \/ In x l.
Proof.
  induction l as [|y t IH]; simpl; [intuition|].
  destruct (k <? y); simpl; [intuition|]. rewrite IH. intuition.
Qed.

Lemma in_fold_insert_z (kept : list (Z * exemplar)) x : forall acc,
  In x (fold_left (fun acc p => insert_z (fst p) acc) kept acc) <-> In x acc \/ In x (map fst kept).
Proof.
  induction kept as [|p t IH]; intros acc; simpl; [intuition|].
  rewrite IH, in_insert_z. intuition.
Qed.

Lemma in_dedup_sorted x l : In x (dedup_sorted l) <-> In x l.
Proof.
  induction l as [|a t IH]; [simpl; tauto|].
  destruct t as [|b t']; [simpl; tauto|].
  change (dedup_sorted (a :: b :: t')) with (if a =? b then dedup_sorted (b :: t') else a :: dedup_sorted (b :: t')).
  destruct (Z.eqb_spec a b) as [->|N].
  - rewrite IH. simpl. tauto.
  - simpl In at 1. rewrite IH. simpl. tauto.
Qed.

Lemma in_series_ids sid kept : In sid (series_ids kept) <-> exists e, In (sid, e) kept.
Proof.
  unfold series_ids. rewrite in_dedup_sorted, in_fold_insert_z. simpl. rewrite in_map_iff. split.
  - intros [[]|([s e] & <- & H)]. exists e. exact H.
  - intros [e H]. right. exists (sid, e). auto.
Qed.

Lemma perm_filter {A} (f : A -> bool) a b : Permutation a b -> Permutation (filter f a) (filter f b).
Proof.
  induction 1; simpl.
  - reflexivity.
  - destruct (f x); [apply perm_skip|]; assumption.
  - destruct (f x), (f y); try reflexivity. apply perm_swap.
  - etransitivity; eassumption.
Qed.

(* Select is sound: every returned group belongs to a matching series, is non-empty, sorted by
   timestamp, and is exactly (with multiplicity) the series' retained exemplars in range *)
Lemma sp_select_sound s lo hi m sid l :
  In (sid, l) (sp_select s lo hi m) ->
  In sid m /\ l <> [] /\ sorted l /\
  Permutation l (filter (in_range lo hi) (of_series sid (sp_kept s))).
Proof.
  unfold sp_select. rewrite in_flat_map. intros (sid' & Hin & H).
  destruct (existsb (Z.eqb sid') m) eqn:Em; [|contradiction].
  destruct (filter (in_range lo hi) (series_list sid' (sp_kept s))) eqn:Ef; [contradiction|].
  destruct H as [H|[]]. injection H as <- <-.
  apply existsb_exists in Em. destruct Em as (x & Hx & E). apply Z.eqb_eq in E. subst x.
  split; [exact Hx|]. split; [discriminate|]. rewrite <- Ef. split.
  - apply filter_sorted, sort_ts_sorted.
  - unfold series_list. apply perm_filter, sort_ts_perm.
Qed.

(* ... and complete: every retained exemplar of a matching series within the range is returned *)
Lemma sp_select_complete s lo hi m sid e :
  In (sid, e) (sp_kept s) -> In sid m -> in_range lo hi e = true ->
  exists l, In (sid, l) (sp_select s lo hi m) /\ In e l.
Proof.
  intros Hk Hm Hr. unfold sp_select.
  assert (He : In e (filter (in_range lo hi) (series_list sid (sp_kept s)))).
  { apply filter_In. split; [now apply in_series_list|exact Hr]. }
  destruct (filter (in_range lo hi) (series_list sid (sp_kept s))) as [|x t] eqn:Ef; [contradiction|].
  exists (x :: t). split; [|exact He]. apply in_flat_map. exists sid. split.
  - apply in_series_ids. eauto.
  - replace (existsb (Z.eqb sid) m) with true.
    + rewrite Ef. left. reflexivity.
    + symmetry. apply existsb_exists. exists sid. split; [auto|apply Z.eqb_refl].
Qed.

(* ------------------------------------------------------------------ the reference: int64 inputs *)
Definition op_int64 (o : op) : Prop :=
  match o with
  | OAdd _ e | OValidate _ e => int64 (e_ts e)
  | OSetWin d => int64 d
  | _ => True
  end.
Definition SpInt (s : spec) : Prop := int64 (sp_win s) /\ Forall (fun p => int64 (e_ts (snd p))) (sp_kept s).

Lemma last_map_some {A} (l : list A) x : last (map Some l) None = Some x -> In x l.
Proof.
  destruct l as [|a t] using rev_ind; simpl; [discriminate|].
  rewrite map_app. simpl. rewrite last_last. intros [= ->]. apply in_or_app. right. now left.
Qed.

Lemma Forall_skipn {A} (P : A -> Prop) n l : Forall P l -> Forall P (skipn n l).
Proof. intros H. rewrite <- (firstn_skipn n l) in H. apply Forall_app in H. tauto. Qed.

Lemma sp_validate_fixed_ideal s sid e : SpInt s -> int64 (e_ts e) ->
  sp_validate WFixed s sid e = sp_validate WIdeal s sid e.
Proof.
  intros [Hw Hk] He. unfold sp_validate. destruct (sp_cap s =? 0); [reflexivity|].
  apply validate_fixed_ideal; auto. intros ne Hne. apply last_map_some in Hne.
  apply in_series_list in Hne. rewrite Forall_forall in Hk. apply (Hk (sid, ne) Hne).
Qed.

Lemma sp_step_fixed_ideal s o : SpInt s -> op_int64 o ->
  sp_step WFixed s o = sp_step WIdeal s o /\ SpInt (fst (sp_step WIdeal s o)).
Proof.
  intros HI Ho. pose proof HI as [Hw Hk]. destruct o as [sid e|sid e|l|d|lo hi m| |]; simpl in *; auto.
  - unfold sp_add. rewrite sp_validate_fixed_ideal by auto. split; [reflexivity|].
    destruct (sp_validate WIdeal s sid e); simpl; auto.
    destruct (sp_mid_dup _ _); simpl; auto. split; [exact Hw|]. simpl.
    apply Forall_skipn, Forall_app. split; [exact Hk|]. constructor; [exact Ho|constructor].
  - rewrite sp_validate_fixed_ideal by auto. auto.
  - split; [reflexivity|]. unfold sp_resize. destruct (_ =? _); simpl; auto.
    split; [exact Hw|]. simpl. now apply Forall_skipn.
  - split; [reflexivity|]. split; simpl; auto.
Qed.

Lemma sp_run_fixed_ideal ops : forall s, SpInt s -> Forall op_int64 ops ->
  sp_run WFixed s ops = sp_run WIdeal s ops.
Proof.
  induction ops as [|o t IH]; intros s HI Ho; simpl; [reflexivity|].
  inversion Ho as [|? ? Ho1 Ho2]; subst.
  destruct (sp_step_fixed_ideal s o HI Ho1) as [E HI']. rewrite E.
  destruct (sp_step WIdeal s o) as [s' b]. simpl in HI'. now rewrite IH.
Qed.

Lemma SpInt_new l w : int64 w -> SpInt (sp_new l w).
Proof. intros H. split; simpl; [|constructor]. unfold int64, minInt64, maxInt64 in *. lia. Qed.

(* ------------------------------------------------------------------ the reference: capacity, newest retained *)
Definition SpCap (s : spec) : Prop := 0 <= sp_cap s /\ zlen (sp_kept s) <= sp_cap s.

Lemma zlen_lastn {A} (l : list A) n : 0 <= n -> zlen (lastn (Z.to_nat n) l) <= n.
Proof. intros H. unfold zlen. rewrite lastn_length. lia. Qed.

Lemma sp_step_cap k s o : SpCap s -> SpCap (fst (sp_step k s o)).
Proof.
  intros [H0 H1]. destruct o as [sid e|sid e|l|d|lo hi m| |]; simpl; try (split; assumption).
  - unfold sp_add. destruct (sp_validate k s sid e); simpl; try (split; assumption).
    destruct (sp_mid_dup _ _); simpl; try (split; assumption).
    split; simpl; [exact H0|]. now apply zlen_lastn.
  - unfold sp_resize. destruct (_ =? _); simpl; try (split; assumption).
    split; simpl; [lia|]. apply zlen_lastn. lia.
Qed.

Lemma sp_exec_cap k ops : forall s, SpCap s -> SpCap (sp_exec k s ops).
Proof. unfold sp_exec. induction ops; intros s H; simpl; auto using sp_step_cap. Qed.

Lemma SpCap_new l w : SpCap (sp_new l w).
Proof. split; simpl; [lia|]. unfold zlen. simpl. lia. Qed.

(* the exemplars stored (not rejected, not dropped as duplicates) by a history, in order *)
Definition stored_of (k : wrule) (s : spec) (o : op) : list (Z * exemplar) :=
  match o with
  | OAdd sid e => match snd (sp_add k s sid e) with AddStored => [(sid, e)] | _ => [] end
  | _ => []
  end.
Fixpoint sp_log (k : wrule) (s : spec) (ops : list op) : list (Z * exemplar) :=
  match ops with
  | [] => []
  | o :: t => stored_of k s o ++ sp_log k (fst (sp_step k s o)) t
  end.
Definition no_resize (o : op) : Prop := match o with OResize _ => False | _ => True end.

Lemma lastn_lastn_app {A} n (a b : list A) : lastn n (lastn n a ++ b) = lastn n (a ++ b).
Proof.
  destruct (Nat.le_gt_cases (length a) n) as [H|H].
  - now rewrite (lastn_all a) by auto.
  - destruct (split_at a (length a - n) ltac:(lia)) as (a1 & a2 & -> & H1).
    rewrite app_length in *.
    assert (E : lastn n (a1 ++ a2) = a2).
    { unfold lastn. rewrite app_length. apply skipn_app_len. lia. }
    rewrite E. unfold lastn. rewrite <- app_assoc. rewrite !app_length.
    rewrite (skipn_app _ a1). rewrite (skipn_all2 a1) by lia. simpl. f_equal. lia.
Qed.

Lemma sp_step_kept k s o : no_resize o ->
  sp_cap (fst (sp_step k s o)) = sp_cap s /\
  sp_kept (fst (sp_step k s o)) =
    match stored_of k s o with [] => sp_kept s | st => lastn (Z.to_nat (sp_cap s)) (sp_kept s ++ st) end.
Proof.
  destruct o as [sid e|sid e|l|d|lo hi m| |]; simpl; intros H; try contradiction; auto.
  unfold sp_add. destruct (sp_validate k s sid e); simpl; auto.
  destruct (sp_mid_dup _ _); simpl; auto.
Qed.

Lemma sp_retains_newest k ops : forall s, Forall no_resize ops -> zlen (sp_kept s) <= sp_cap s ->
  sp_cap (sp_exec k s ops) = sp_cap s /\
  sp_kept (sp_exec k s ops) = lastn (Z.to_nat (sp_cap s)) (sp_kept s ++ sp_log k s ops).
Proof.
  unfold sp_exec. induction ops as [|o t IH]; intros s Hn Hc; simpl.
  - split; [reflexivity|]. rewrite app_nil_r. rewrite lastn_all; [reflexivity|]. unfold zlen in Hc. lia.
  - inversion Hn as [|? ? Hn1 Hn2]; subst.
    destruct (sp_step_kept k s o Hn1) as [Ec Ek].
    assert (Hc' : zlen (sp_kept (fst (sp_step k s o))) <= sp_cap (fst (sp_step k s o))).
    { rewrite Ec, Ek. destruct (stored_of k s o); [exact Hc|]. apply zlen_lastn.
      pose proof (zlen_nonneg (sp_kept s)). lia. }
    destruct (IH _ Hn2 Hc') as [E1 E2]. rewrite E1, E2, Ec, Ek. split; [reflexivity|].
    destruct (stored_of k s o) eqn:Es.
    + reflexivity.
    + rewrite lastn_lastn_app. now rewrite <- app_assoc.
Qed.

(* ------------------------------------------------------------------ statements used by props/C21.v *)
Lemma thm_refines_partial : forall l w ops,
  int64 w -> Forall op_int64 ops ->
  r_run (r_new l w) ops = sp_run WIdeal (sp_new l w) ops.
Proof.
  intros l w ops Hw Ho. rewrite ring_refines. apply sp_run_fixed_ideal; [now apply SpInt_new|exact Ho].
Qed.

Lemma thm_ring_invariant : forall l w ops, exists r, r_exec (r_new l w) ops = Ok r /\ RInv r.
Proof. intros. apply r_exec_inv, RInv_new. Qed.

Lemma thm_add_evicts_oldest : forall r sid e r',
  RInv r -> r_add r sid e = Ok (r', AddStored) ->
  r_kept r' = lastn (Z.to_nat (zlen (r_ring r))) (r_kept r ++ [(sid, e)]) /\ zlen (r_ring r') = zlen (r_ring r).
Proof.
  intros r sid e r' HI H. destruct (r_add_refines r sid e HI) as (r2 & a & H2 & _ & Hs).
  rewrite H in H2. injection H2 as <- <-.
  unfold sp_add in Hs. destruct (sp_validate WFixed (r_spec r) sid e); try discriminate.
  destruct (sp_mid_dup _ _); [discriminate|]. unfold r_spec in Hs. simpl in Hs.
  injection Hs as Hc Hw Hk. split; [now rewrite <- Hk|now rewrite <- Hc].
Qed.

Lemma thm_resize_keeps_newest : forall r l, RInv r ->
  exists r' m, r_resize r l = Ok (r', m) /\ RInv r' /\
    zlen (r_ring r') = Z.max l 0 /\
    r_kept r' = lastn (Z.to_nat (Z.max l 0)) (r_kept r) /\ r_win r' = r_win r.
Proof.
  intros r l HI. destruct (r_resize_refines r l HI) as (r' & m & H & HI' & Hs).
  exists r', m. split; [exact H|split; [exact HI'|]].
  unfold sp_resize in Hs. change (sp_cap (r_spec r)) with (zlen (r_ring r)) in Hs.
  destruct (Z.eqb_spec (Z.max l 0) (zlen (r_ring r))) as [E|N].
  - unfold r_spec in Hs. injection Hs as H1 H2 H3 _. rewrite <- H1, <- H2, <- H3, E. repeat split.
    symmetry. apply lastn_all. pose proof (kept_le_cap r HI). unfold zlen in *. lia.
  - unfold r_spec in Hs. simpl in Hs. injection Hs as H1 H2 H3 _. now rewrite <- H1, <- H2, <- H3.
Qed.

Lemma thm_retains_newest : forall l w ops, Forall no_resize ops ->
  sp_kept (sp_exec WIdeal (sp_new l w) ops) = lastn (Z.to_nat (Z.max l 0)) (sp_log WIdeal (sp_new l w) ops).
Proof.
  intros l w ops Hn. destruct (sp_retains_newest WIdeal ops (sp_new l w) Hn) as [_ H].
  - simpl. unfold zlen. simpl. lia.
  - exact H.
Qed.

Lemma thm_capacity : forall l w ops,
  zlen (sp_kept (sp_exec WIdeal (sp_new l w) ops)) <= sp_cap (sp_exec WIdeal (sp_new l w) ops).
Proof. intros. apply sp_exec_cap, SpCap_new. Qed.

Lemma thm_window_rule : forall w ne e, int64 w -> int64 (e_ts ne) -> int64 (e_ts e) ->
  validate_against WFixed w (Some ne) e = validate_against WIdeal w (Some ne) e.
Proof. intros. apply validate_fixed_ideal; auto. now intros ? [= <-]. Qed.

(* non-vacuity: a history with out-of-order insertion, eviction, duplicates, shrink and grow *)
Definition ex1 (ts v : Z) : exemplar := mkEx 1 [(8, 1)] 7 (Some v) ts true.
Definition demo_ops : list op :=
  [OAdd 0 (ex1 100 1); OAdd 0 (ex1 110 1); OAdd 0 (ex1 120 1); OAdd 0 (ex1 105 1); OAdd 0 (ex1 105 2);
   OAdd 1 (ex1 90 1); OAdd 0 (ex1 20 1); OResize 2; OAdd 1 (ex1 95 1); OResize 4; OIter;
   OSelect 0 200 [0; 1]].
Lemma demo_nonvacuous :
  Forall op_int64 demo_ops /\
  r_run (r_new 3 50) demo_ops =
    [BErr VOk; BErr VOk; BErr VOk; BErr VOk; BErr VOk; BErr VOk; BErr VOOO; BInt 2; BErr VOk; BInt 2;
     BIter [(1, ex1 90 1); (1, ex1 95 1)]; BSel [(1, [ex1 90 1; ex1 95 1])]] /\
  run (new_state 3 50) demo_ops = r_run (r_new 3 50) demo_ops.
Proof.
  split; [|split; vm_compute; reflexivity].
  apply Forall_forall. intros o Ho. simpl in Ho.
  repeat (destruct Ho as [<-|Ho]; [simpl; unfold int64, minInt64, maxInt64; simpl; try lia; exact I|]).
  contradiction.
Qed.

(* ------------------------------------------------------------------ pointer level: reads in a well-formed state *)
Definition abs_slot (s : slot) : option (Z * exemplar) :=
  match s_ref s with Some sid => Some (sid, s_ex s) | None => None end.

Lemma abs_ring_ring st : r_ring (abs_ring st) = map abs_slot (ring st).
Proof. reflexivity. Qed.

Lemma getz_rotate {A B} (f : A -> B) (r : list A) idx : 0 <= idx < zlen r ->
  exists s t, getz r idx = Ok s /\ rotate (Z.to_nat idx) (map f r) = f s :: t.
Proof.
  intros H. destruct (split_at r (Z.to_nat idx) ltac:(unfold zlen in H; lia)) as (a & b & -> & Ha).
  destruct b as [|s b]; [rewrite zlen_app in H; unfold zlen in *; simpl in *; lia|].
  exists s, (map f b ++ map f a). split.
  - unfold getz. destruct (Z.ltb_spec idx 0); [lia|].
    rewrite nth_error_app2 by lia. rewrite Ha, Nat.sub_diag. reflexivity.
  - rewrite map_app. rewrite rotate_app by now rewrite map_length. reflexivity.
Qed.

Lemma iter_loop_correct r ix : forall k idx, 0 <= idx < zlen r -> (k <= length r)%nat ->
  iter_loop r ix idx k = Ok (somes (firstn k (rotate (Z.to_nat idx) (map abs_slot r)))).
Proof.
  induction k as [|k IH]; intros idx Hi Hk; [reflexivity|].
  simpl iter_loop. destruct (getz_rotate abs_slot r idx Hi) as (s & t & -> & Hr). cbn [bind].
  set (idx' := gorem (idx + 1) (zlen r)).
  assert (Hi' : 0 <= idx' < zlen r /\ Z.to_nat idx' = if (S (Z.to_nat idx) <? length (map abs_slot r))%nat then S (Z.to_nat idx) else 0%nat).
  { unfold idx'. rewrite map_length. destruct (Nat.ltb_spec (S (Z.to_nat idx)) (length r)).
    - rewrite gorem_small by (unfold zlen; lia). unfold zlen. lia.
    - replace (idx + 1) with (zlen r) by (unfold zlen in *; lia). rewrite gorem_self by lia. lia. }
  destruct Hi' as [Hi' Hn'].
  rewrite (IH idx' Hi' ltac:(lia)). cbn [bind].
  pose proof (rotate_succ (map abs_slot r) (Z.to_nat idx) (abs_slot s) t
                ltac:(rewrite map_length; unfold zlen in Hi; lia) Hr) as Hs.
  rewrite <- Hn' in Hs. rewrite Hs, Hr.
  assert (Ht : length t = (length r - 1)%nat).
  { apply (f_equal (@length _)) in Hr. rewrite rotate_length, map_length in Hr. simpl in Hr. lia. }
  rewrite firstn_app. replace (k - length t)%nat with 0%nat by lia.
  change (firstn 0 [abs_slot s]) with (@nil (option (Z * exemplar))). rewrite app_nil_r.
  simpl. unfold abs_slot. destruct (s_ref s); reflexivity.
Qed.

(* IterateExemplars returns the retained exemplars in ingestion order *)
Lemma iterate_correct st :
  ((zlen (ring st) = 0 /\ nexti st = 0) \/ 0 <= nexti st < zlen (ring st)) ->
  iterate st = Ok (r_kept (abs_ring st)).
Proof.
  intros [[H0 Hn]|H]; unfold iterate, r_kept.
  - destruct (ring st) eqn:E; [|unfold zlen in H0; simpl in H0; lia].
    unfold abs_ring. rewrite E, Hn. reflexivity.
  - rewrite iter_loop_correct by (auto; lia). simpl.
    rewrite firstn_all2 by (rewrite rotate_length, map_length; lia). reflexivity.
Qed.

Lemma ex_eqb_eq a b : ex_eqb a b = true -> a = b.
Proof.
  unfold ex_eqb. rewrite !andb_true_iff. intros [[[[[H1 H2] H3] H4] H5] H6].
  destruct a as [l1 n1 h1 v1 t1 b1], b as [l2 n2 h2 v2 t2 b2]; simpl in *.
  apply Z.eqb_eq in H1, H3, H5. apply Bool.eqb_prop in H6. subst.
  assert (v1 = v2) by (destruct v1, v2; simpl in H4; try discriminate; [apply Z.eqb_eq in H4; now subst|reflexivity]).
  subst. f_equal. clear -H2. revert n2 H2. induction n1 as [|[x y] t IH]; intros [|[x' y'] t'] H; simpl in H; try discriminate; auto.
  rewrite !andb_true_iff in H. destruct H as [[Hx Hy] Ht]. apply Z.eqb_eq in Hx, Hy. subst. f_equal. auto.
Qed.

Lemma list_eqb_eq {A} (f : A -> A -> bool) : (forall a b, f a b = true -> a = b) ->
  forall a b, list_eqb f a b = true -> a = b.
Proof.
  intros Hf. induction a as [|x a IH]; intros [|y b] H; simpl in H; try discriminate; auto.
  apply andb_true_iff in H. destruct H as [H1 H2]. f_equal; auto.
Qed.

Lemma chain_from_last fuel r : forall i ps, chain_from fuel r i = Some ps -> ps <> [] ->
  exists s, getz r (last ps noEx) = Ok s /\ slot_at r (last ps noEx) = s.
Proof.
  induction fuel as [|f IH]; intros i ps H Hne; simpl in H; [discriminate|].
  destruct (i =? noEx); [injection H as <-; contradiction|].
  destruct (getz r i) as [s| | |] eqn:Eg; try discriminate.
  destruct (chain_from f r (s_next s)) as [t|] eqn:Ec; [|discriminate]. injection H as <-.
  destruct t as [|p t'].
  - simpl. exists s. split; [exact Eg|]. unfold slot_at. now rewrite Eg.
  - destruct (IH _ _ Ec ltac:(discriminate)) as (s' & H1 & H2). exists s'. split; exact H1 || exact H2.
Qed.

Lemma last_map {A B} (f : A -> B) l d : l <> [] -> last (map f l) (f d) = f (last l d).
Proof.
  induction l as [|x t IH]; intros H; [contradiction|]. destruct t as [|y t']; [reflexivity|].
  change (last (f x :: map f (y :: t')) (f d)) with (last (map f (y :: t')) (f d)).
  change (last (x :: y :: t') d) with (last (y :: t') d). apply IH. discriminate.
Qed.

Lemma last_indep {A} (l : list A) d d' : l <> [] -> last l d = last l d'.
Proof.
  induction l as [|x t IH]; intros H; [contradiction|]. destruct t; [reflexivity|].
  apply IH. discriminate.
Qed.

Lemma ix_get_in ix k v : ix_get ix k = Some v -> In (k, v) ix.
Proof.
  induction ix as [|[k' v'] t IH]; simpl; [discriminate|].
  destruct (Z.eqb_spec k' k) as [->|N]; [intros [= ->]; now left|intros H; right; auto].
Qed.

(* ValidateExemplar in a well-formed state decides by the ring-level rule *)
Lemma validate_op_correct st sid e : wfb st = true ->
  validate_op st sid e = Ok (r_validate (abs_ring st) sid e).
Proof.
  unfold wfb. rewrite !andb_true_iff. intros [[[[[Hrange Hholes] Hnd] Hchains] Hkept] Hcount].
  unfold validate_op, validate, r_validate.
  change (zlen (r_ring (abs_ring st))) with (zlen (map abs_slot (ring st))).
  assert (Ez : zlen (map abs_slot (ring st)) = zlen (ring st)) by (unfold zlen; now rewrite map_length).
  rewrite Ez. destruct (zlen (ring st) =? 0); [reflexivity|].
  change (r_win (abs_ring st)) with (window st).
  set (kept := r_kept (abs_ring st)) in *.
  destruct (ix_get (index st) sid) as [[o n]|] eqn:Eg.
  - apply ix_get_in in Eg. rewrite forallb_forall in Hchains. specialize (Hchains _ Eg).
    unfold chain_ok in Hchains.
    destruct (chain_from (S (length (ring st))) (ring st) o) as [ps|] eqn:Ec; [|discriminate].
    rewrite !andb_true_iff in Hchains. destruct Hchains as [[[[Hne Hlast] Hprev] Hrefs] Hlist].
    assert (Hps : ps <> []) by (destruct ps; [discriminate|discriminate]).
    apply Z.eqb_eq in Hlast.
    destruct (chain_from_last _ _ _ _ Ec Hps) as (s & Hg & Hs). rewrite Hlast in Hg, Hs.
    apply (list_eqb_eq ex_eqb ex_eqb_eq) in Hlist.
    unfold validate_against. destruct (lab_too_long 0 (e_lens e)); [reflexivity|].
    rewrite Hg. cbn [bind]. rewrite <- Hlist.
    assert (El : last (map Some (map (fun p => s_ex (slot_at (ring st) p)) ps)) None = Some (s_ex s)).
    { rewrite map_map. rewrite (last_indep _ None (Some (s_ex (slot_at (ring st) noEx)))) by (destruct ps; [contradiction|discriminate]).
      rewrite (last_map (fun p => Some (s_ex (slot_at (ring st) p))) ps noEx Hps). now rewrite Hlast, Hs. }
    rewrite El. reflexivity.
  - assert (El : series_list sid kept = []).
    { unfold series_list, of_series.
      replace (filter (fun p => fst p =? sid) kept) with (@nil (Z * exemplar)); [reflexivity|].
      symmetry. rewrite forallb_forall in Hkept. clear -Hkept Eg.
      induction kept as [|p t IH]; [reflexivity|]. simpl.
      destruct (Z.eqb_spec (fst p) sid) as [E|N].
      - specialize (Hkept p (or_introl eq_refl)). rewrite E, Eg in Hkept. discriminate.
      - apply IH. intros x Hx. apply Hkept. now right. }
    rewrite El. reflexivity.
Qed.

(* ------------------------------------------------------------------ pointer level: Select in a well-formed state *)
Definition keylt {A} (a b : Z * A) : Prop := fst a < fst b.

Lemma sorted_key_ext {A} (l1 l2 : list (Z * A)) :
  StronglySorted keylt l1 -> StronglySorted keylt l2 -> (forall x, In x l1 <-> In x l2) -> l1 = l2.
Proof.
  intros H1. revert l2. induction H1 as [|a t1 Hs1 IH Ha]; intros l2 H2 Hin.
  - destruct l2 as [|b t2]; [reflexivity|]. exfalso. apply (Hin b). now left.
  - destruct H2 as [|b t2 Hs2 Hb].
    + exfalso. apply (Hin a). now left.
    + rewrite Forall_forall in Ha, Hb.
      assert (a = b).
      { destruct (proj1 (Hin a) (or_introl eq_refl)) as [E|Hin2]; [auto|].
        destruct (proj2 (Hin b) (or_introl eq_refl)) as [E|Hin1]; [auto|].
        specialize (Ha _ Hin1). specialize (Hb _ Hin2). unfold keylt in *. lia. }
      subst b. f_equal. apply IH; [exact Hs2|].
      intros x. split; intros Hx.
      * destruct (proj1 (Hin x) (or_intror Hx)) as [E|H]; [|exact H].
        subst x. specialize (Ha _ Hx). unfold keylt in Ha. lia.
      * destruct (proj2 (Hin x) (or_intror Hx)) as [E|H]; [|exact H].
        subst x. specialize (Hb _ Hx). unfold keylt in Hb. lia.
Qed.

Lemma insert_by_key_in {A} k (v : A) l x : In x (insert_by_key k v l) <-> x = (k, v) \/ In x l.
Proof.
  induction l as [|[k' v'] t IH]; simpl; [intuition|].
  destruct (k <? k'); simpl; [intuition|]. rewrite IH. intuition.
Qed.

Definition keyle {A} (a b : Z * A) : Prop := fst a <= fst b.

Lemma insert_by_key_sorted {A} k (v : A) l : StronglySorted keyle l -> StronglySorted keyle (insert_by_key k v l).
Proof.
  induction 1 as [|[k' v'] t Hs IH Hx]; simpl.
  - constructor; constructor.
  - destruct (Z.ltb_spec k k').
    + constructor; [constructor; auto|]. constructor; [unfold keyle; simpl; lia|].
      rewrite Forall_forall in *. intros z Hz. specialize (Hx z Hz). unfold keyle in *. simpl in *. lia.
    + constructor; [exact IH|]. rewrite Forall_forall in *. intros z Hz.
      apply insert_by_key_in in Hz. destruct Hz as [->|Hz]; [unfold keyle; simpl; lia|auto].
Qed.

Lemma sort_by_key_spec {A} (l : list (Z * A)) :
  StronglySorted keyle (sort_by_key l) /\ (forall x, In x (sort_by_key l) <-> In x l).
Proof.
  unfold sort_by_key.
  assert (G : forall acc, StronglySorted keyle acc ->
            StronglySorted keyle (fold_left (fun acc p => insert_by_key (fst p) (snd p) acc) l acc) /\
            (forall x, In x (fold_left (fun acc p => insert_by_key (fst p) (snd p) acc) l acc) <-> In x acc \/ In x l)).
  { induction l as [|[k v] t IH]; intros acc Ha; simpl; [intuition|].
    destruct (IH (insert_by_key k v acc) (insert_by_key_sorted k v acc Ha)) as [S1 S2]. split; [exact S1|].
    intros x. rewrite S2, insert_by_key_in. intuition. }
  destruct (G [] (SSorted_nil _)) as [S1 S2]. split; [exact S1|]. intros x. rewrite S2. simpl. tauto.
Qed.

(* non-strictly sorted by key with distinct keys is strictly sorted *)
Lemma keyle_nodup_strict {A} (l : list (Z * A)) :
  StronglySorted keyle l -> NoDup (map fst l) -> StronglySorted keylt l.
Proof.
  induction 1 as [|a t Hs IH Ha]; intros Hnd; [constructor|].
  simpl in Hnd. inversion Hnd as [|? ? Hni Hnd']; subst.
  constructor; [auto|]. rewrite Forall_forall in *. intros z Hz. specialize (Ha z Hz).
  unfold keyle, keylt in *. assert (fst a <> fst z); [|lia].
  intros E. apply Hni. rewrite E. now apply in_map.
Qed.

(* what the walk over a chain collects *)
Fixpoint walk_list (lo hi : Z) (l : list exemplar) : list exemplar :=
  match l with
  | [] => []
  | x :: t => if e_ts x <=? hi then (if lo <=? e_ts x then [x] else []) ++ walk_list lo hi t else []
  end.

Lemma walk_list_sorted lo hi l : sorted l -> walk_list lo hi l = filter (in_range lo hi) l.
Proof.
  unfold sorted. induction 1 as [|x t Hs IH Hx]; simpl; [reflexivity|].
  unfold in_range at 1. destruct (Z.leb_spec (e_ts x) hi) as [H|H].
  - rewrite IH. destruct (lo <=? e_ts x); reflexivity.
  - rewrite andb_false_r. symmetry.
    rewrite Forall_forall in Hx. clear -Hx H. induction t as [|y t IH]; [reflexivity|]. simpl.
    assert (in_range lo hi y = false).
    { unfold in_range. specialize (Hx y (or_introl eq_refl)). destruct (Z.leb_spec (e_ts y) hi); [lia|]. apply andb_false_r. }
    rewrite H0. apply IH. intros z Hz. apply Hx. now right.
Qed.

Lemma sel_walk_chain r lo hi : forall fuel p t s acc,
  chain_from fuel r p = Some (p :: t) -> getz r p = Ok s ->
  sel_walk fuel r lo hi s acc = Ok (acc ++ walk_list lo hi (map (fun q => s_ex (slot_at r q)) (p :: t))).
Proof.
  induction fuel as [|f IH]; intros p t s acc Hc Hg; [discriminate|].
  simpl in Hc. destruct (p =? noEx) eqn:Ep; [discriminate|]. rewrite Hg in Hc.
  destruct (chain_from f r (s_next s)) as [t'|] eqn:Ec; [|discriminate]. injection Hc as <-.
  assert (Es : slot_at r p = s) by (unfold slot_at; now rewrite Hg).
  cbn [sel_walk map walk_list]. rewrite Es.
  destruct (Z.leb_spec (e_ts (s_ex s)) hi) as [H|H]; [|now rewrite app_nil_r].
  destruct f as [|f']; [discriminate|].
  destruct (Z.eqb_spec (s_next s) noEx) as [En|Nn].
  - simpl in Ec. rewrite En in Ec. simpl in Ec. injection Ec as <-. simpl. rewrite app_nil_r.
    destruct (lo <=? e_ts (s_ex s)); [reflexivity|now rewrite app_nil_r].
  - pose proof Ec as Ec'. simpl in Ec'. destruct (s_next s =? noEx) eqn:E2; [apply Z.eqb_eq in E2; contradiction|].
    destruct (getz r (s_next s)) as [s'| | |] eqn:Eg'; try discriminate.
    destruct (chain_from f' r (s_next s')) as [t''|] eqn:Ec''; [|discriminate]. injection Ec' as <-.
    cbn [bind]. rewrite (IH (s_next s) t'' s' _ Ec Eg').
    destruct (lo <=? e_ts (s_ex s)); simpl; [rewrite <- app_assoc; reflexivity|reflexivity].
Qed.

Lemma insert_by_key_strict {A} k (v : A) l :
  StronglySorted keylt l -> ~ In k (map fst l) -> StronglySorted keylt (insert_by_key k v l).
Proof.
  induction 1 as [|[k' v'] t Hs IH Hx]; simpl; intros Hni.
  - constructor; constructor.
  - destruct (Z.ltb_spec k k').
    + constructor; [constructor; auto|]. constructor; [unfold keylt; simpl; lia|].
      rewrite Forall_forall in *. intros z Hz. specialize (Hx z Hz). unfold keylt in *. simpl in *. lia.
    + constructor; [apply IH; tauto|]. rewrite Forall_forall in *. intros z Hz.
      apply insert_by_key_in in Hz. destruct Hz as [->|Hz]; [unfold keylt; simpl; lia|auto].
Qed.

Lemma sort_by_key_strict {A} (l : list (Z * A)) : NoDup (map fst l) ->
  StronglySorted keylt (sort_by_key l) /\ (forall x, In x (sort_by_key l) <-> In x l).
Proof.
  unfold sort_by_key. intros Hnd.
  assert (G : forall acc, StronglySorted keylt acc -> (forall k, In k (map fst l) -> ~ In k (map fst acc)) ->
            StronglySorted keylt (fold_left (fun acc p => insert_by_key (fst p) (snd p) acc) l acc) /\
            (forall x, In x (fold_left (fun acc p => insert_by_key (fst p) (snd p) acc) l acc) <-> In x acc \/ In x l)).
  { induction l as [|[k v] t IH]; intros acc Ha Hd; simpl; [intuition|].
    simpl in Hnd. inversion Hnd as [|? ? Hni Hnd']; subst.
    destruct (IH Hnd' (insert_by_key k v acc)) as [S1 S2].
    - apply insert_by_key_strict; [exact Ha|]. apply Hd. now left.
    - intros k' Hk' Hin. apply in_map_iff in Hin. destruct Hin as ([k2 v2] & E & Hin). simpl in E. subst k2.
      apply insert_by_key_in in Hin. destruct Hin as [[= -> ->]|Hin]; [contradiction|].
      apply (Hd k'); [now right|]. apply in_map_iff. exists (k', v2). auto.
    - split; [exact S1|]. intros x. rewrite S2, insert_by_key_in. simpl. intuition. }
  destruct (G [] (SSorted_nil _)) as [S1 S2]; [intros k _ []|]. split; [exact S1|]. intros x. rewrite S2. simpl. tauto.
Qed.

Lemma insert_z_sorted k l : StronglySorted Z.le l -> StronglySorted Z.le (insert_z k l).
Proof.
  induction 1 as [|x t Hs IH Hx]; simpl.
  - constructor; constructor.
  - destruct (Z.ltb_spec k x).
    + constructor; [constructor; auto|]. constructor; [lia|].
      rewrite Forall_forall in *. intros z Hz. specialize (Hx z Hz). lia.
    + constructor; [exact IH|]. rewrite Forall_forall in *. intros z Hz.
      apply in_insert_z in Hz. destruct Hz as [->|Hz]; [lia|auto].
Qed.

Lemma dedup_sorted_strict l : StronglySorted Z.le l -> StronglySorted Z.lt (dedup_sorted l).
Proof.
  induction 1 as [|a t Hs IH Ha]; [constructor|].
  destruct t as [|b t']; [constructor; constructor|].
  change (dedup_sorted (a :: b :: t')) with (if a =? b then dedup_sorted (b :: t') else a :: dedup_sorted (b :: t')).
  destruct (Z.eqb_spec a b) as [->|N]; [exact IH|].
  constructor; [exact IH|]. rewrite Forall_forall in *. intros z Hz. apply (proj1 (in_dedup_sorted _ _)) in Hz.
  inversion Hs as [|? ? _ Hb]; subst. rewrite Forall_forall in Hb.
  destruct Hz as [<-|Hz]; [specialize (Ha b (or_introl eq_refl)); lia|].
  specialize (Hb z Hz). specialize (Ha b (or_introl eq_refl)). lia.
Qed.

Lemma series_ids_strict kept : StronglySorted Z.lt (series_ids kept).
Proof.
  unfold series_ids. apply dedup_sorted_strict.
  assert (G : forall acc, StronglySorted Z.le acc ->
              StronglySorted Z.le (fold_left (fun acc (p : Z * exemplar) => insert_z (fst p) acc) kept acc)).
  { induction kept as [|p t IH]; intros acc Ha; simpl; auto using insert_z_sorted. }
  apply G. constructor.
Qed.

Lemma flat_map_key_strict {A} (g : Z -> list (Z * A)) ids :
  (forall k, g k = [] \/ exists v, g k = [(k, v)]) -> StronglySorted Z.lt ids ->
  StronglySorted keylt (flat_map g ids).
Proof.
  intros Hg. induction 1 as [|a t Hs IH Ha]; simpl; [constructor|].
  destruct (Hg a) as [->|[v ->]]; simpl; [exact IH|].
  constructor; [exact IH|]. rewrite Forall_forall in *. intros z Hz.
  apply in_flat_map in Hz. destruct Hz as (k & Hk & Hz). specialize (Ha k Hk).
  destruct (Hg k) as [E|[v' E]]; rewrite E in Hz; [contradiction|].
  destruct Hz as [<-|[]]. unfold keylt. simpl. lia.
Qed.

Lemma sorted_le_last l d : sorted l -> forall x, In x l -> e_ts x <= e_ts (last l d).
Proof.
  unfold sorted. induction 1 as [|a t Hs IH Ha]; intros x Hin; [contradiction|].
  destruct t as [|b t'].
  - destruct Hin as [<-|[]]. simpl. lia.
  - change (last (a :: b :: t') d) with (last (b :: t') d).
    destruct Hin as [<-|Hin]; [|auto].
    rewrite Forall_forall in Ha. specialize (Ha b (or_introl eq_refl)).
    specialize (IH b (or_introl eq_refl)). lia.
Qed.

Lemma not_in_nil_filter {A} (f : A -> bool) l : (forall x, In x l -> f x = false) -> filter f l = [].
Proof.
  induction l as [|a t IH]; intros H; [reflexivity|]. simpl. rewrite (H a (or_introl eq_refl)).
  apply IH. intros x Hx. apply H. now right.
Qed.

Section SelectWF.
  Variables (st : state) (lo hi : Z) (m : list Z).
  Let kept := r_kept (abs_ring st).
  Definition selF (sid : Z) : list exemplar := filter (in_range lo hi) (series_list sid kept).
  Definition selG (sid : Z) : list (Z * list exemplar) :=
    if existsb (Z.eqb sid) m then match selF sid with [] => [] | l => [(sid, l)] end else [].

  Lemma selG_shape k : selG k = [] \/ exists v, selG k = [(k, v)].
  Proof. unfold selG. destruct (existsb _ m); [|now left]. destruct (selF k); [now left|right; eauto]. Qed.

  Lemma sel_loop_correct ix :
    forallb (chain_ok st kept) ix = true ->
    sel_loop st lo hi m ix = Ok (flat_map (fun e => selG (fst e)) ix).
  Proof.
    induction ix as [|[sid [o n]] t IH]; intros Hc; [reflexivity|].
    cbn [forallb] in Hc. apply andb_true_iff in Hc. destruct Hc as [Hc Ht]. specialize (IH Ht).
    unfold chain_ok in Hc.
    destruct (chain_from (S (length (ring st))) (ring st) o) as [ps|] eqn:Ec; [|discriminate].
    rewrite !andb_true_iff in Hc. destruct Hc as [[[[Hne Hlast] Hprev] Hrefs] Hlist].
    apply Z.eqb_eq in Hlast. apply (list_eqb_eq ex_eqb ex_eqb_eq) in Hlist.
    destruct ps as [|p ps']; [discriminate|].
    assert (Hp : p = o /\ exists e, getz (ring st) o = Ok e).
    { simpl in Ec. destruct (o =? noEx); [discriminate|].
      destruct (getz (ring st) o) as [e| | |]; try discriminate.
      destruct (chain_from _ _ _); [|discriminate]. injection Ec as -> _. eauto. }
    destruct Hp as [-> [e Hge]].
    destruct (chain_from_last _ _ _ _ Ec ltac:(discriminate)) as (en & Hgn & Hsn). rewrite Hlast in Hgn, Hsn.
    assert (Hso : slot_at (ring st) o = e) by (unfold slot_at; now rewrite Hge).
    assert (Hsorted : sorted (series_list sid kept)) by apply sort_ts_sorted.
    assert (HF : selF sid = walk_list lo hi (series_list sid kept)) by (unfold selF; now rewrite walk_list_sorted).
    cbn [sel_loop flat_map fst]. rewrite Hge. cbn [bind].
    destruct (Z.ltb_spec hi (e_ts (s_ex e))) as [H1|H1].
    - cbn [bind]. rewrite IH.
      assert (E : selG sid = []).
      { unfold selG. rewrite HF, <- Hlist. simpl. rewrite Hso.
        destruct (Z.leb_spec (e_ts (s_ex e)) hi); [lia|]. now destruct (existsb _ m). }
      now rewrite E.
    - rewrite Hgn. cbn [bind].
      destruct (Z.ltb_spec (e_ts (s_ex en)) lo) as [H2|H2].
      + rewrite IH.
        assert (E : selG sid = []).
        { unfold selG, selF.
          replace (filter (in_range lo hi) (series_list sid kept)) with (@nil exemplar); [now destruct (existsb _ m)|].
          symmetry. apply not_in_nil_filter. intros x Hx.
          pose proof (sorted_le_last _ zero_ex Hsorted x Hx) as Hle.
          rewrite <- Hlist in Hle.
          rewrite (last_indep _ zero_ex (s_ex (slot_at (ring st) noEx))) in Hle by (simpl; discriminate).
          rewrite (last_map (fun q => s_ex (slot_at (ring st) q)) (o :: ps') noEx) in Hle by discriminate.
          rewrite Hlast, Hsn in Hle.
          unfold in_range. destruct (Z.leb_spec lo (e_ts x)); [lia|reflexivity]. }
        now rewrite E.
      + destruct (existsb (Z.eqb sid) m) eqn:Em; cbn [negb].
        * rewrite (sel_walk_chain (ring st) lo hi _ o ps' e [] Ec Hge). cbn [bind app]. rewrite IH. cbn [bind].
          unfold selG. rewrite Em, HF, <- Hlist.
          destruct (walk_list lo hi (map (fun q => s_ex (slot_at (ring st) q)) (o :: ps'))); reflexivity.
        * rewrite IH. unfold selG. rewrite Em. reflexivity.
  Qed.
End SelectWF.

Lemma nodupb_NoDup l : nodupb l = true -> NoDup l.
Proof.
  induction l as [|x t IH]; simpl; intros H; [constructor|].
  apply andb_true_iff in H. destruct H as [H1 H2]. constructor; [|auto].
  intros Hin. apply negb_true_iff in H1. assert (existsb (Z.eqb x) t = true); [|congruence].
  apply existsb_exists. exists x. split; [auto|apply Z.eqb_refl].
Qed.

Lemma selG_in st lo hi m k x : In x (selG st lo hi m k) ->
  fst x = k /\ exists e, In (k, e) (r_kept (abs_ring st)).
Proof.
  unfold selG. destruct (existsb _ m); [|contradiction].
  destruct (selF st lo hi k) as [|e l] eqn:E; [contradiction|]. intros [<-|[]]. split; [reflexivity|].
  exists e. apply in_series_list. unfold selF in E.
  assert (H : In e (filter (in_range lo hi) (series_list k (r_kept (abs_ring st))))) by (rewrite E; now left).
  apply filter_In in H. tauto.
Qed.

(* Select in a well-formed state returns what the reference returns *)
Lemma select_correct st lo hi m : wfb st = true ->
  select st lo hi m = Ok (sp_select (r_spec (abs_ring st)) lo hi m).
Proof.
  intros Hwf. pose proof Hwf as Hwf0. unfold wfb in Hwf. rewrite !andb_true_iff in Hwf.
  destruct Hwf as [[[[[Hrange Hholes] Hnd] Hchains] Hkept] Hcount].
  unfold select. destruct (Z.eqb_spec (zlen (ring st)) 0) as [E0|N0].
  - assert (ring st = []) by (destruct (ring st); [reflexivity|unfold zlen in E0; simpl in E0; lia]).
    unfold sp_select, r_spec, r_kept, abs_ring. simpl. rewrite H. simpl.
    unfold rotate. rewrite skipn_nil, firstn_nil. reflexivity.
  - rewrite (sel_loop_correct st lo hi m (index st) Hchains). cbn [bind]. f_equal.
    set (kept := r_kept (abs_ring st)) in *.
    change (sp_select (r_spec (abs_ring st)) lo hi m) with (flat_map (selG st lo hi m) (series_ids kept)).
    set (X := flat_map (fun e : Z * (Z * Z) => selG st lo hi m (fst e)) (index st)).
    assert (HX : forall x, In x X <-> exists entry, In entry (index st) /\ In x (selG st lo hi m (fst entry))).
    { intros x. unfold X. apply in_flat_map. }
    assert (Hnd' : NoDup (map fst X)).
    { apply nodupb_NoDup in Hnd. unfold X. clear -Hnd. induction (index st) as [|[k v] t IH]; simpl; [constructor|].
      simpl in Hnd. inversion Hnd as [|? ? Hni Hnd']; subst. rewrite map_app.
      destruct (selG_shape st lo hi m k) as [->|[v' ->]]; simpl; [auto|].
      constructor; [|auto]. intros Hin. apply Hni. apply in_map_iff in Hin.
      destruct Hin as (x & Ex & Hx). apply in_flat_map in Hx. destruct Hx as (entry & He & Hx).
      apply selG_in in Hx. destruct Hx as [Hx _]. rewrite <- Ex, Hx. now apply in_map. }
    destruct (sort_by_key_strict X Hnd') as [S1 S2].
    apply sorted_key_ext; [exact S1| |].
    + apply flat_map_key_strict; [apply selG_shape|apply series_ids_strict].
    + intros x. rewrite S2, HX, in_flat_map. split.
      * intros (entry & He & Hx). exists (fst entry). split; [|exact Hx].
        apply selG_in in Hx. destruct Hx as [_ [e Hx]]. apply in_series_ids. eauto.
      * intros (k & Hk & Hx). pose proof Hx as Hx'. apply selG_in in Hx'. destruct Hx' as [_ [e He]].
        rewrite forallb_forall in Hkept. specialize (Hkept _ He). simpl in Hkept.
        destruct (ix_get (index st) k) as [v|] eqn:Eg; [|discriminate]. apply ix_get_in in Eg.
        exists (k, v). split; [exact Eg|exact Hx].
Qed.

(* all three reads at once, as observations of [step] *)
Lemma reads_correct st o : wfb st = true ->
  match o with
  | OValidate _ _ | OSelect _ _ _ | OIter =>
      exists b, step st o = Ok (st, b) /\ r_step (abs_ring st) o = Ok (abs_ring st, b)
  | _ => True
  end.
Proof.
  intros Hwf. destruct o as [sid e|sid e|l|d|lo hi m| |]; try exact I; simpl.
  - rewrite validate_op_correct by exact Hwf. cbn [bind]. eauto.
  - rewrite select_correct by exact Hwf. cbn [bind]. eauto.
  - rewrite iterate_correct; [cbn [bind]; eauto|].
    unfold wfb in Hwf. rewrite !andb_true_iff in Hwf. destruct Hwf as [[[[[Hrange _] _] _] _] _].
    apply orb_true_iff in Hrange. destruct Hrange as [H|H]; apply andb_true_iff in H; destruct H as [H1 H2].
    + left. apply Z.eqb_eq in H1, H2. auto.
    + right. apply Z.leb_le in H1. apply Z.ltb_lt in H2. lia.
Qed.

Lemma demo_wf : exists st, exec (new_state 3 50) (firstn 6 demo_ops) = Ok st /\ wfb st = true /\
  index st = [(0, (0, 2)); (1, (1, 1))] /\ nexti st = 2.
Proof. eexists. split; [vm_compute; reflexivity|]. vm_compute. auto. Qed.
(* ------------------------------------------------------------------ head appender entry points *)
Lemma r_head_validate_spec r sid es :
  r_head_validate r sid es = sp_head_validate WFixed (r_spec r) sid es.
Proof. reflexivity. Qed.

Lemma r_head_commit_refines sid es : forall r, RInv r ->
  exists r', r_head_commit r sid es = Ok r' /\ RInv r' /\ sp_head_commit WFixed (r_spec r) sid es = r_spec r'.
Proof.
  induction es as [|e t IH]; intros r HI; simpl.
  - exists r. auto.
  - destruct (r_add_refines r sid e HI) as (r1 & a & -> & HI1 & Hs). cbn [bind].
    destruct (IH r1 HI1) as (r' & H1 & H2 & H3). exists r'. split; [exact H1|split; [exact H2|]].
    unfold sp_head_commit in *. simpl. rewrite Hs. exact H3.
Qed.

Lemma r_hstep_refines r h : RInv r ->
  exists r' b, r_hstep r h = Ok (r', b) /\ RInv r' /\ sp_hstep WFixed (r_spec r) h = (r_spec r', b).
Proof.
  intros HI. destruct h as [o|v2 sid es]; simpl.
  - apply r_step_refines, HI.
  - rewrite r_head_validate_spec.
    destruct (sp_head_validate WFixed (r_spec r) sid _) as [p errs].
    destruct (r_head_commit_refines sid p r HI) as (r' & -> & HI' & ->). cbn [bind]. eauto.
Qed.

Lemma r_hrun_refines ops : forall r, RInv r -> r_hrun r ops = sp_hrun WFixed (r_spec r) ops.
Proof.
  induction ops as [|o t IH]; intros r HI; simpl; [reflexivity|].
  destruct (r_hstep_refines r o HI) as (r' & b & -> & HI' & ->). now rewrite IH.
Qed.

Definition hop_int64 (h : hop) : Prop :=
  match h with
  | HPlain o => op_int64 o
  | HHead _ _ es => Forall (fun x => int64 (e_ts (fst x))) es
  end.

Lemma sp_head_validate_fixed_ideal s sid es : SpInt s -> Forall (fun e => int64 (e_ts e)) es ->
  sp_head_validate WFixed s sid es = sp_head_validate WIdeal s sid es /\
  Forall (fun e => int64 (e_ts e)) (fst (sp_head_validate WIdeal s sid es)).
Proof.
  intros HI. induction 1 as [|e t He Ht IH]; simpl; [split; [reflexivity|constructor]|].
  destruct IH as [E F]. unfold sp_head_validate in *. simpl. rewrite E.
  rewrite sp_validate_fixed_ideal by auto. split; [reflexivity|].
  unfold head_sort. destruct (sp_validate WIdeal s sid e); simpl; auto.
Qed.

Lemma sp_head_commit_fixed_ideal sid es : forall s, SpInt s -> Forall (fun e => int64 (e_ts e)) es ->
  sp_head_commit WFixed s sid es = sp_head_commit WIdeal s sid es /\ SpInt (sp_head_commit WIdeal s sid es).
Proof.
  unfold sp_head_commit. induction es as [|e t IH]; intros s HI Hf; simpl; [auto|].
  inversion Hf as [|? ? He Ht]; subst.
  destruct (sp_step_fixed_ideal s (OAdd sid e) HI He) as [E HI']. simpl in E, HI'.
  assert (E1 : fst (sp_add WFixed s sid e) = fst (sp_add WIdeal s sid e)).
  { destruct (sp_add WFixed s sid e), (sp_add WIdeal s sid e). simpl in *. congruence. }
  rewrite E1. apply IH; [|exact Ht].
  destruct (sp_add WIdeal s sid e). exact HI'.
Qed.

Lemma sp_hstep_fixed_ideal s h : SpInt s -> hop_int64 h ->
  sp_hstep WFixed s h = sp_hstep WIdeal s h /\ SpInt (fst (sp_hstep WIdeal s h)).
Proof.
  intros HI Hh. destruct h as [o|v2 sid es]; simpl in *.
  - apply sp_step_fixed_ideal; auto.
  - assert (Hf : Forall (fun e => int64 (e_ts e)) (map (fun x => without_empty (fst x) (snd x)) es)).
    { rewrite Forall_map. simpl. exact Hh. }
    destruct (sp_head_validate_fixed_ideal s sid _ HI Hf) as [E F]. rewrite E.
    destruct (sp_head_validate WIdeal s sid _) as [p errs]. simpl in F.
    destruct (sp_head_commit_fixed_ideal sid p s HI F) as [E2 HI2]. rewrite E2. auto.
Qed.

Lemma sp_hrun_fixed_ideal ops : forall s, SpInt s -> Forall hop_int64 ops ->
  sp_hrun WFixed s ops = sp_hrun WIdeal s ops.
Proof.
  induction ops as [|o t IH]; intros s HI Ho; simpl; [reflexivity|].
  inversion Ho as [|? ? Ho1 Ho2]; subst.
  destruct (sp_hstep_fixed_ideal s o HI Ho1) as [E HI']. rewrite E.
  destruct (sp_hstep WIdeal s o) as [s' b]. simpl in HI'. now rewrite IH.
Qed.

Lemma thm_head_entry_refines : forall l w ops,
  int64 w -> Forall hop_int64 ops ->
  r_hrun (r_new l w) ops = sp_hrun WIdeal (sp_new l w) ops.
Proof.
  intros l w ops Hw Ho. rewrite r_hrun_refines by apply RInv_new. rewrite r_spec_new.
  apply sp_hrun_fixed_ideal; [now apply SpInt_new|exact Ho].
Qed.

(* an empty-valued label neither counts towards the length limit nor distinguishes a duplicate *)
Lemma without_empty_props e o :
  e_ts (without_empty e o) = e_ts e /\ e_val (without_empty e o) = e_val e /\
  Forall (fun p => snd p <> 0) (e_lens (without_empty e o)).
Proof.
  repeat split. simpl. apply Forall_forall. intros p Hp. apply filter_In in Hp.
  destruct Hp as [_ Hp]. apply negb_true_iff in Hp. now apply Z.eqb_neq in Hp.
Qed.

From Coq Require Import List ZArith Bool Lia.
From Verif Require Import lib.Int64 model.Exemplar.
Import ListNotations.
Open Scope Z_scope.

(* proof/IsolationInv.v — the global invariant of model/Isolation.v over all traces, and the
   C05 statements derived from it. *)
From Coq Require Import List ZArith Bool Arith Lia Sorting.Sorted.
From Verif Require Import model.Isolation proof.IsolationProofs proof.IsolationSeries.
Import ListNotations.
Open Scope Z_scope.

(* ================================================================ small facts *)

Lemma memZ_In x l : memZ x l = true <-> In x l.
Proof.
  unfold memZ. rewrite existsb_exists. split.
  - intros (y & Hy & E). apply Z.eqb_eq in E. subst. exact Hy.
  - intros H. exists x. split; auto. apply Z.eqb_refl.
Qed.

Definition ids (open : list appender) : list Z := map a_id open.

Lemma find_app_some a open ap : find_app a open = Some ap -> In ap open /\ a_id ap = a.
Proof.
  unfold find_app. intros H. apply find_some in H. destruct H as [H1 H2]. apply Z.eqb_eq in H2. auto.
Qed.

Lemma sorted_snoc (l : list Z) y :
  StronglySorted Z.lt l -> (forall x, In x l -> x < y) -> StronglySorted Z.lt (l ++ [y]).
Proof.
  induction 1 as [|x l Hs IH Hf]; intros Hy; simpl.
  - constructor; constructor.
  - constructor.
    + apply IH. intros. apply Hy. right. assumption.
    + apply Forall_app. split; auto. constructor; auto. apply Hy. left. reflexivity.
Qed.

Lemma ids_filter_in f (l : list appender) id : In id (ids (filter f l)) -> In id (ids l).
Proof.
  unfold ids. rewrite !in_map_iff. intros (x & Hx & Hin). apply filter_In in Hin. exists x. tauto.
Qed.

Lemma sorted_filter f (l : list appender) :
  StronglySorted Z.lt (ids l) -> StronglySorted Z.lt (ids (filter f l)).
Proof.
  induction l as [|x l IH]; simpl; intros H; auto.
  inversion H as [|? ? Hs Hf]; subst.
  destruct (f x); simpl; auto. constructor; auto.
  rewrite Forall_forall in *. intros y Hy. apply Hf. apply (ids_filter_in f). exact Hy.
Qed.

Lemma first_open_le last (open : list appender) id :
  StronglySorted Z.lt (ids open) -> In id (ids open) -> first_open last open <= id.
Proof.
  destruct open as [|a open]; simpl; intros Hs Hin; [tauto|].
  inversion Hs as [|? ? _ Hf]; subst. destruct Hin as [<-|Hin]; [lia|].
  rewrite Forall_forall in Hf. specialize (Hf id Hin). lia.
Qed.

Lemma first_open_le_last last (open : list appender) :
  (forall id, In id (ids open) -> 1 <= id <= last) -> first_open last open <= last.
Proof.
  destruct open as [|a open]; simpl; intros H; [lia|]. specialize (H (a_id a) (or_introl eq_refl)). lia.
Qed.

Lemma first_open_snoc_le l (open : list appender) y b :
  (forall id, In id (ids open) -> id <= y) -> first_open l (open ++ [mkA y b]) <= y.
Proof.
  destruct open as [|x xs]; simpl; intros H; [lia|]. apply H. left. reflexivity.
Qed.

Lemma first_open_snoc_in (l l' : Z) (open : list appender) x id :
  StronglySorted Z.lt (ids open) -> In id (ids open) -> first_open l (open ++ [x]) <= id.
Proof.
  intros Hs Hin. destruct open as [|a xs]; [simpl in Hin; tauto|].
  change (first_open l ((a :: xs) ++ [x])) with (first_open l' (a :: xs)). apply first_open_le; auto.
Qed.

Lemma first_open_snoc_mono l l' (open : list appender) x :
  l <= a_id x -> l <= l' -> first_open l open <= first_open l' (open ++ [x]).
Proof. destruct open as [|a xs]; simpl; lia. Qed.

Fixpoint lows_desc (l : list reader) : Prop :=
  match l with
  | [] => True
  | rd :: l' => (forall rd', In rd' l' -> rd_low rd' <= rd_low rd) /\ lows_desc l'
  end.

Lemma lows_desc_filter f l : lows_desc l -> lows_desc (filter f l).
Proof.
  induction l as [|rd l IH]; simpl; auto. intros [H1 H2]. destruct (f rd); simpl; auto.
  split; auto. intros rd' Hin. apply filter_In in Hin. apply H1. tauto.
Qed.

(* the oldest reader (last of the list) has the lowest watermark *)
Lemma lows_desc_oldest l rd0 rest :
  lows_desc l -> rev l = rd0 :: rest -> In rd0 l /\ forall rd, In rd l -> rd_low rd0 <= rd_low rd.
Proof.
  intros Hd Hrev. apply rev_eq_cons in Hrev. subst l. split.
  - apply in_or_app. right. left. reflexivity.
  - induction (rev rest) as [|x l IH]; simpl in *.
    + intros rd [<-|[]]. lia.
    + destruct Hd as [H1 H2]. intros rd [<-|Hin].
      * apply H1. apply in_or_app. right. left. reflexivity.
      * apply IH; auto.
Qed.

(* ================================================================ the invariant *)

(* id is visible to every open reader and will be to every reader created from now on *)
Definition stable (st : state) (id : Z) : Prop :=
  In id (st_closed st) /\ forall rd, In rd (st_readers st) -> In id (rd_snap rd).

Definition reader_ok (st : state) (rd : reader) : Prop :=
  incl (rd_snap rd) (st_closed st) /\
  (forall id, 1 <= id -> (visible rd id = true <-> In id (rd_snap rd))) /\
  (forall id, 1 <= id < rd_low rd -> In id (rd_snap rd)) /\
  rd_low rd <= first_open (st_last st) (st_open st).

Record Inv (st : state) : Prop := {
  i_last : 0 <= st_last st;
  i_sorted : StronglySorted Z.lt (ids (st_open st));
  i_range : forall id, In id (ids (st_open st)) -> 1 <= id <= st_last st;
  i_part : forall id, 1 <= id <= st_last st -> In id (st_closed st) \/ In id (ids (st_open st));
  i_closed : forall id, In id (st_closed st) -> 1 <= id <= st_last st /\ ~ In id (ids (st_open st));
  i_readers : forall rd, In rd (st_readers st) -> reader_ok st rd;
  i_lows : lows_desc (st_readers st);
  i_bounds : forall a, In a (st_open st) -> forall id, 1 <= id < a_bound a -> stable st id;
  i_series : forall sref, ser_inv (stable st) (st_series st sref) /\ owners_ok (st_last st) (st_series st sref)
}.

Lemma Inv_init : Inv init.
Proof.
  constructor; simpl; try (intros; lia || tauto || contradiction); auto.
  - constructor.
  - intros sref. split; [apply ser_inv_new|constructor].
Qed.

Lemma owners_ok_mono last last' s : last <= last' -> owners_ok last s -> owners_ok last' s.
Proof. intros H. unfold owners_ok. apply Forall_impl. intros x. lia. Qed.

Lemma ser_inv_mmap P s : ser_inv P s -> ser_inv P (ser_mmap s).
Proof.
  destruct (ser_mmap_samples s) as [H1 H2]. unfold ser_inv. rewrite H1, H2. auto.
Qed.

Lemma upd_same f k s : upd f k s k = s.
Proof. unfold upd. rewrite Z.eqb_refl. reflexivity. Qed.

Lemma upd_other f k s k' : k' <> k -> upd f k s k' = f k'.
Proof. unfold upd. intros H. destruct (Z.eqb_spec k' k); [contradiction|reflexivity]. Qed.

Lemma step_inv st e :
  Inv st -> step st e <> RPanic /\ forall st', step st e = ROk st' -> Inv st'.
Proof.
  intros I. destruct I as [Hlast Hsorted Hrange Hpart Hclosed Hreaders Hlows Hbounds Hseries].
  destruct e as [|a sref t v cut|a sref|a|key|key|sref]; cbn [step].
  - (* ENewApp *)
    split; [discriminate|]. intros st' E. injection E as <-.
    set (id' := st_last st + 1).
    assert (Hids : ids (st_open st ++ [mkA id' (low_watermark id' (st_open st ++ [mkA id' 0]) (st_readers st))])
                   = ids (st_open st) ++ [id']).
    { unfold ids. rewrite map_app. reflexivity. }
    constructor; cbn [st_last st_open st_readers st_series st_closed].
    + lia.
    + rewrite Hids. apply sorted_snoc; auto. intros x Hx. specialize (Hrange x Hx). lia.
    + rewrite Hids. intros id Hin. apply in_app_or in Hin. destruct Hin as [Hin|[<-|[]]].
      * specialize (Hrange id Hin). lia.
      * lia.
    + rewrite Hids. intros id Hid. destruct (Z.eq_dec id id') as [->|Hne].
      * right. apply in_or_app. right. left. reflexivity.
      * destruct (Hpart id ltac:(lia)); auto. right. apply in_or_app. auto.
    + rewrite Hids. intros id Hin. destruct (Hclosed id Hin) as [H1 H2]. split; [lia|].
      intros Hin'. apply in_app_or in Hin'. destruct Hin' as [Hin'|[E|[]]]; [tauto|lia].
    + intros rd Hrd. destruct (Hreaders rd Hrd) as (R1 & R2 & R3 & R4).
      repeat split; auto; try apply R2; auto.
      cbn [st_last st_open]. pose proof (first_open_snoc_mono (st_last st) id' (st_open st) (mkA id' (low_watermark id' (st_open st ++ [mkA id' 0]) (st_readers st)))). cbn [a_id] in H. lia.
    + exact Hlows.
    + intros a Hin id Hid. apply in_app_or in Hin. destruct Hin as [Hin|[<-|[]]].
      * exact (Hbounds a Hin id Hid).
      * cbn [a_bound] in Hid. unfold low_watermark in Hid.
        destruct (rev (st_readers st)) as [|rd0 rest] eqn:Erev.
        -- apply rev_eq_nil in Erev. split.
           ++ cbn [st_closed].
              assert (Hfo : first_open id' (st_open st ++ [mkA id' 0]) <= id').
              { apply first_open_snoc_le. intros i Hi. specialize (Hrange i Hi). lia. }
              destruct (Hpart id ltac:(lia)) as [Hc|Ho]; auto. exfalso.
              pose proof (first_open_snoc_in id' (st_last st) (st_open st) (mkA id' 0) id Hsorted Ho). lia.
           ++ cbn [st_readers]. rewrite Erev. simpl. tauto.
        -- destruct (lows_desc_oldest _ _ _ Hlows Erev) as [Hin0 Hmin].
           split.
           ++ cbn [st_closed]. destruct (Hreaders rd0 Hin0) as (R1 & _ & R3 & _). apply R1. apply R3. exact Hid.
           ++ cbn [st_readers]. intros rd Hrd. destruct (Hreaders rd Hrd) as (_ & _ & R3 & _).
              apply R3. specialize (Hmin rd Hrd). lia.
    + intros sref. destruct (Hseries sref) as [S1 S2]. split.
      * exact S1.
      * eapply owners_ok_mono; [|exact S2]. lia.
  - (* EApply *)
    destruct (find_app a (st_open st)) as [ap|] eqn:Ef; [|split; [discriminate|discriminate]].
    apply find_app_some in Ef. destruct Ef as [Hin Ha].
    destruct (Hseries sref) as [S1 S2].
    assert (Hida : 1 <= a <= st_last st).
    { apply Hrange. unfold ids. rewrite <- Ha. apply in_map. exact Hin. }
    destruct (ser_apply_inv (stable st) (st_last st) (st_series st sref) a (a_bound ap) t v cut S1 S2 Hida (Hbounds ap Hin))
      as (s' & Hs' & Hinv' & Hown' & _).
    rewrite Hs'. split; [discriminate|]. intros st' E. injection E as <-.
    constructor; cbn [st_last st_open st_readers st_series st_closed]; auto.
    intros k. destruct (Z.eq_dec k sref) as [->|Hne].
    + rewrite upd_same. split; auto.
    + rewrite upd_other by exact Hne. apply Hseries.
  - (* ECleanup *)
    destruct (find_app a (st_open st)) as [ap|] eqn:Ef; [|split; [discriminate|discriminate]].
    apply find_app_some in Ef. destruct Ef as [Hin Ha].
    destruct (Hseries sref) as [S1 S2].
    destruct (ser_cleanup_inv (stable st) (st_last st) (st_series st sref) (a_bound ap) S1 S2 (Hbounds ap Hin))
      as (s' & Hs' & Hinv' & Hsam).
    rewrite Hs'. split; [discriminate|]. intros st' E. injection E as <-.
    constructor; cbn [st_last st_open st_readers st_series st_closed]; auto.
    intros k. destruct (Z.eq_dec k sref) as [->|Hne].
    + rewrite upd_same. split; auto. unfold owners_ok. rewrite Hsam. exact S2.
    + rewrite upd_other by exact Hne. apply Hseries.
  - (* EClose *)
    destruct (find_app a (st_open st)) as [ap|] eqn:Ef; [|split; [discriminate|discriminate]].
    apply find_app_some in Ef. destruct Ef as [Hin Ha].
    split; [discriminate|]. intros st' E. injection E as <-.
    set (f := fun x : appender => negb (a_id x =? a)).
    assert (Hain : In a (ids (st_open st))) by (unfold ids; rewrite <- Ha; apply in_map; exact Hin).
    assert (Hnotin : ~ In a (ids (filter f (st_open st)))).
    { unfold ids. rewrite in_map_iff. intros (x & Hx & Hxin). apply filter_In in Hxin.
      destruct Hxin as [_ Hfx]. unfold f in Hfx. rewrite Hx, Z.eqb_refl in Hfx. discriminate. }
    assert (Hstable : forall id, stable st id ->
              stable (mkSt (st_last st) (filter f (st_open st)) (st_readers st) (st_series st) (a :: st_closed st)) id).
    { intros id [H1 H2]. split; [right; exact H1|exact H2]. }
    constructor; cbn [st_last st_open st_readers st_series st_closed].
    + exact Hlast.
    + apply sorted_filter. exact Hsorted.
    + intros id Hid. apply Hrange. eapply ids_filter_in. exact Hid.
    + intros id Hid. destruct (Z.eq_dec id a) as [->|Hne]; [left; left; reflexivity|].
      destruct (Hpart id Hid) as [Hc|Ho]; [left; right; exact Hc|]. right.
      unfold ids in *. rewrite in_map_iff in *. destruct Ho as (x & Hx & Hxin). exists x. split; auto.
      apply filter_In. split; auto. unfold f. rewrite Hx. destruct (Z.eqb_spec id a); [contradiction|reflexivity].
    + intros id [<-|Hc].
      * split; [apply Hrange; exact Hain|exact Hnotin].
      * destruct (Hclosed id Hc) as [H1 H2]. split; auto. intros H. apply H2. eapply ids_filter_in. exact H.
    + intros rd Hrd. destruct (Hreaders rd Hrd) as (R1 & R2 & R3 & R4). repeat split; auto; try apply R2; auto.
      * intros x Hx. right. apply R1. exact Hx.
      * cbn [st_last st_open].
        assert (first_open (st_last st) (st_open st) <= first_open (st_last st) (filter f (st_open st))); [|lia].
        destruct (filter f (st_open st)) as [|x xs] eqn:Efl.
        -- simpl. apply first_open_le_last. exact Hrange.
        -- simpl. apply first_open_le; auto. apply (ids_filter_in f). rewrite Efl. left. reflexivity.
    + exact Hlows.
    + intros a' Hin' id Hid. apply filter_In in Hin'. apply Hstable. apply (Hbounds a'); tauto.
    + intros sref. destruct (Hseries sref) as [S1 S2]. split; auto.
      eapply ser_inv_weaken; [|exact S1]. exact Hstable.
  - (* ENewReader *)
    destruct (existsb (fun rd => rd_key rd =? key) (st_readers st)); [split; discriminate|].
    split; [discriminate|]. intros st' E. injection E as <-.
    set (rd := mkR key (st_last st) (map a_id (st_open st)) (first_open (st_last st) (st_open st)) (st_closed st)).
    assert (Hstable : forall id, stable st id ->
              stable (mkSt (st_last st) (st_open st) (rd :: st_readers st) (st_series st) (st_closed st)) id).
    { intros id [H1 H2]. split; [exact H1|]. intros r [<-|Hr]; [exact H1|apply H2; exact Hr]. }
    constructor; cbn [st_last st_open st_readers st_series st_closed]; auto.
    + intros r [<-|Hr].
      * subst rd. unfold reader_ok. cbn [rd_snap rd_low st_closed st_last st_open].
        split; [apply incl_refl|]. split; [|split].
        -- intros id Hid1. unfold visible. cbn [rd_max rd_inc]. split.
           ++ intros Hv. apply andb_true_iff in Hv. destruct Hv as [H1 H2].
              apply Z.leb_le in H1. apply negb_true_iff in H2.
              destruct (Hpart id ltac:(lia)) as [Hc|Ho]; auto.
              apply memZ_In in Ho. unfold ids in Ho. congruence.
           ++ intros Hc. destruct (Hclosed id Hc) as [H1 H2].
              apply andb_true_iff. split; [apply Z.leb_le; lia|]. apply negb_true_iff.
              destruct (memZ id (map a_id (st_open st))) eqn:Em; auto. apply memZ_In in Em. contradiction.
        -- intros id Hid.
           pose proof (first_open_le_last (st_last st) (st_open st) Hrange).
           destruct (Hpart id ltac:(lia)) as [Hc|Ho]; auto. exfalso.
           pose proof (first_open_le (st_last st) (st_open st) id Hsorted Ho). lia.
        -- lia.
      * destruct (Hreaders r Hr) as (R1 & R2 & R3 & R4). repeat split; auto; apply R2; auto.
    + split; auto. intros rd' Hrd'. destruct (Hreaders rd' Hrd') as (_ & _ & _ & R4). exact R4.
    + intros a Hin id Hid. apply Hstable. exact (Hbounds a Hin id Hid).
    + intros sref. destruct (Hseries sref) as [S1 S2]. split; auto.
      eapply ser_inv_weaken; [|exact S1]. exact Hstable.
  - (* ECloseReader *)
    destruct (existsb (fun rd => rd_key rd =? key) (st_readers st)); [|split; discriminate].
    split; [discriminate|]. intros st' E. injection E as <-.
    set (f := fun rd : reader => negb (rd_key rd =? key)).
    assert (Hstable : forall id, stable st id ->
              stable (mkSt (st_last st) (st_open st) (filter f (st_readers st)) (st_series st) (st_closed st)) id).
    { intros id [H1 H2]. split; [exact H1|]. intros r Hr. apply filter_In in Hr. apply H2. tauto. }
    constructor; cbn [st_last st_open st_readers st_series st_closed]; auto.
    + intros r Hr. apply filter_In in Hr. destruct (Hreaders r (proj1 Hr)) as (R1 & R2 & R3 & R4).
      repeat split; auto; apply R2; auto.
    + apply lows_desc_filter. exact Hlows.
    + intros a Hin id Hid. apply Hstable. exact (Hbounds a Hin id Hid).
    + intros sref. destruct (Hseries sref) as [S1 S2]. split; auto.
      eapply ser_inv_weaken; [|exact S1]. exact Hstable.
  - (* EMmap *)
    split; [discriminate|]. intros st' E. injection E as <-.
    constructor; cbn [st_last st_open st_readers st_series st_closed]; auto.
    intros k. destruct (Z.eq_dec k sref) as [->|Hne].
    + rewrite upd_same. destruct (Hseries sref) as [S1 S2]. split.
      * apply ser_inv_mmap. exact S1.
      * unfold owners_ok. rewrite (proj1 (ser_mmap_samples _)). exact S2.
    + rewrite upd_other by exact Hne. apply Hseries.
Qed.

Lemma run_inv tr : forall st, Inv st -> run st tr <> RPanic /\ forall st', run st tr = ROk st' -> Inv st'.
Proof.
  induction tr as [|e tr IH]; intros st I; cbn [run].
  - split; [discriminate|]. intros st' E. injection E as <-. exact I.
  - destruct (step_inv st e I) as [Hnp Hok].
    destruct (step st e) as [st1| |] eqn:Es; [|split; discriminate|contradiction].
    apply IH. apply Hok. reflexivity.
Qed.

Lemma reachable_inv tr st : run init tr = ROk st -> Inv st.
Proof. intros H. exact (proj2 (run_inv tr init Inv_init) st H). Qed.

(* ================================================================ provenance of the ghosts *)

Lemma run_app tr1 : forall st tr2 st1, run st tr1 = ROk st1 -> run st (tr1 ++ tr2) = run st1 tr2.
Proof.
  induction tr1 as [|e tr1 IH]; intros st tr2 st1 H; cbn [run app] in *.
  - injection H as <-. reflexivity.
  - destruct (step st e) as [sm| |]; try discriminate. apply IH. exact H.
Qed.

Lemma step_readers st e st' rd :
  step st e = ROk st' -> In rd (st_readers st') ->
  In rd (st_readers st) \/ (e = ENewReader (rd_key rd) /\ rd_snap rd = st_closed st).
Proof.
  destruct e as [|a sref t v cut|a sref|a|key|key|sref]; cbn [step]; intros E Hin.
  - injection E as <-. auto.
  - destruct (find_app a (st_open st)); [|discriminate]. destruct (ser_apply _ _ _ _ _ _); [|discriminate].
    injection E as <-. auto.
  - destruct (find_app a (st_open st)); [|discriminate]. destruct (ser_cleanup _ _); [|discriminate].
    injection E as <-. auto.
  - destruct (find_app a (st_open st)); [|discriminate]. injection E as <-. auto.
  - destruct (existsb _ _); [discriminate|]. injection E as <-. cbn [st_readers] in Hin.
    destruct Hin as [<-|Hin]; auto.
  - destruct (existsb _ _); [|discriminate]. injection E as <-. cbn [st_readers] in Hin.
    apply filter_In in Hin. tauto.
  - injection E as <-. auto.
Qed.

Lemma step_closed st e st' a :
  step st e = ROk st' -> In a (st_closed st') -> In a (st_closed st) \/ e = EClose a.
Proof.
  destruct e as [|a' sref t v cut|a' sref|a'|key|key|sref]; cbn [step]; intros E Hin.
  - injection E as <-. auto.
  - destruct (find_app a' (st_open st)); [|discriminate]. destruct (ser_apply _ _ _ _ _ _); [|discriminate].
    injection E as <-. auto.
  - destruct (find_app a' (st_open st)); [|discriminate]. destruct (ser_cleanup _ _); [|discriminate].
    injection E as <-. auto.
  - destruct (find_app a' (st_open st)); [|discriminate]. injection E as <-. cbn [st_closed] in Hin.
    destruct Hin as [<-|Hin]; auto.
  - destruct (existsb _ _); [discriminate|]. injection E as <-. auto.
  - destruct (existsb _ _); [|discriminate]. injection E as <-. auto.
  - injection E as <-. auto.
Qed.

(* an open reader was created by an ENewReader step of the trace, and its ghost snapshot is
   the set of appendIDs closed at that moment *)
Lemma reader_provenance tr : forall st0 st rd,
  run st0 tr = ROk st -> In rd (st_readers st) ->
  In rd (st_readers st0) \/
  exists tr1 st1 tr2, tr = tr1 ++ ENewReader (rd_key rd) :: tr2 /\ run st0 tr1 = ROk st1 /\
                      rd_snap rd = st_closed st1.
Proof.
  induction tr as [|e tr IH]; intros st0 st rd H Hin; cbn [run] in H.
  - injection H as <-. auto.
  - destruct (step st0 e) as [sm| |] eqn:Es; try discriminate.
    destruct (IH sm st rd H Hin) as [Hm|(tr1 & st1 & tr2 & -> & Hr & Hs)].
    + destruct (step_readers _ _ _ _ Es Hm) as [H0|[-> Hsn]]; auto.
      right. exists [], st0, tr. auto.
    + right. exists (e :: tr1), st1, tr2. repeat split; auto. cbn [run]. rewrite Es. exact Hr.
Qed.

(* an appendID is in the ghost closed set only if its closeAppend step is in the trace *)
Lemma closed_provenance tr : forall st0 st a,
  run st0 tr = ROk st -> In a (st_closed st) -> In a (st_closed st0) \/ In (EClose a) tr.
Proof.
  induction tr as [|e tr IH]; intros st0 st a H Hin; cbn [run] in H.
  - injection H as <-. auto.
  - destruct (step st0 e) as [sm| |] eqn:Es; try discriminate.
    destruct (IH sm st a H Hin) as [Hm|Hm].
    + destruct (step_closed _ _ _ _ Es Hm) as [H0| ->]; auto. right. left. reflexivity.
    + right. right. exact Hm.
Qed.

(* ================================================================ the C05 statements *)

Lemma entitled_In rd x : entitled rd x = true <-> In (s_owner x) (rd_snap rd).
Proof. unfold entitled. apply memZ_In. Qed.

(* what a reader returns for a series is exactly the longest prefix of the series' samples
   whose appenders were closed when the reader was created *)
Lemma read_prefix tr st rd sref :
  run init tr = ROk st -> In rd (st_readers st) ->
  read_series rd (st_series st sref) = Some (takewhile (entitled rd) (all_samples (st_series st sref))).
Proof.
  intros Hrun Hrd. pose proof (reachable_inv tr st Hrun) as I.
  destruct (i_series st I sref) as [(Hwf & pre & win & H1 & H2 & H3) Hown].
  destruct (i_readers st I rd Hrd) as (R1 & R2 & R3 & R4).
  apply (read_series_spec rd _ pre win Hwf H1 H2).
  - eapply Forall_impl; [|exact H3]. intros x [_ Hx]. apply entitled_In. apply Hx. exact Hrd.
  - intros x Hx.
    assert (Ho : 1 <= s_owner x).
    { unfold owners_ok in Hown. rewrite H1 in Hown. rewrite Forall_forall in Hown.
      specialize (Hown x (in_or_app _ _ _ (or_intror Hx))). lia. }
    specialize (R2 (s_owner x) Ho). pose proof (entitled_In rd x) as He.
    destruct (visible rd (s_owner x)), (entitled rd x); auto.
    + symmetry. apply He. apply R2. reflexivity.
    + apply R2. apply He. reflexivity.
Qed.

Lemma lastn_app {A} (pre win : list A) : lastn (length win) (pre ++ win) = win.
Proof.
  unfold lastn. rewrite app_length. replace (length pre + length win - length win)%nat with (length pre) by lia.
  rewrite skipn_app, skipn_all, Nat.sub_diag. reflexivity.
Qed.

Lemma firstn_app_pre {A} (pre win : list A) : firstn (length (pre ++ win) - length win) (pre ++ win) = pre.
Proof.
  rewrite app_length. replace (length pre + length win - length win)%nat with (length pre) by lia.
  rewrite firstn_app, firstn_all, Nat.sub_diag. simpl. apply app_nil_r.
Qed.

Lemma ring_alignment tr st sref :
  run init tr = ROk st ->
  let s := st_series st sref in
  wf_ring (m_txs s) /\ (r_count (m_txs s) <= length (all_samples s))%nat /\
  ring_contents (m_txs s) = map s_owner (lastn (r_count (m_txs s)) (all_samples s)).
Proof.
  intros Hrun s. pose proof (reachable_inv tr st Hrun) as I.
  destruct (i_series st I sref) as [(Hwf & pre & win & H1 & H2 & H3) _]. fold s in Hwf, H1, H2.
  assert (Hc : r_count (m_txs s) = length win).
  { rewrite <- length_contents, <- H2, map_length. reflexivity. }
  split; [exact Hwf|]. split.
  - rewrite H1, app_length. lia.
  - rewrite Hc, H1, lastn_app. symmetry. exact H2.
Qed.

Lemma watermark_sound tr st sref x :
  run init tr = ROk st ->
  let s := st_series st sref in
  In x (firstn (length (all_samples s) - r_count (m_txs s)) (all_samples s)) ->
  In (s_owner x) (st_closed st) /\ forall rd, In rd (st_readers st) -> entitled rd x = true.
Proof.
  intros Hrun s Hin. pose proof (reachable_inv tr st Hrun) as I.
  destruct (i_series st I sref) as [(Hwf & pre & win & H1 & H2 & H3) _]. fold s in Hwf, H1, H2.
  assert (Hc : r_count (m_txs s) = length win).
  { rewrite <- length_contents, <- H2, map_length. reflexivity. }
  rewrite Hc, H1, firstn_app_pre in Hin. rewrite Forall_forall in H3. destruct (H3 x Hin) as [Hcl Hrd].
  split; auto. intros rd Hr. apply entitled_In. apply Hrd. exact Hr.
Qed.

(* no dirty read, stated on the trace: the reader was created by an ENewReader step; every
   sample it returns, at any later moment, was written by an appender whose closeAppend step
   precedes that ENewReader step *)
Lemma no_dirty_read tr st rd :
  run init tr = ROk st -> In rd (st_readers st) ->
  exists tr1 st1 tr2,
    tr = tr1 ++ ENewReader (rd_key rd) :: tr2 /\ run init tr1 = ROk st1 /\
    forall sref, exists l, read_series rd (st_series st sref) = Some l /\
      forall x, In x l -> In (s_owner x) (st_closed st1) /\ In (EClose (s_owner x)) tr1.
Proof.
  intros Hrun Hrd.
  destruct (reader_provenance tr init st rd Hrun Hrd) as [[]|(tr1 & st1 & tr2 & Htr & Hr1 & Hsnap)].
  exists tr1, st1, tr2. repeat split; auto. intros sref.
  eexists. split; [apply (read_prefix tr st rd sref Hrun Hrd)|].
  intros x Hx. pose proof (takewhile_Forall (entitled rd) (all_samples (st_series st sref))) as Hf.
  rewrite Forall_forall in Hf. specialize (Hf x Hx). apply entitled_In in Hf. rewrite Hsnap in Hf.
  split; auto. destruct (closed_provenance tr1 init st1 (s_owner x) Hr1 Hf) as [[]|H]. exact H.
Qed.

Lemma complete_partial tr st rd sref l1 x l2 :
  run init tr = ROk st -> In rd (st_readers st) ->
  all_samples (st_series st sref) = l1 ++ x :: l2 ->
  In (s_owner x) (rd_snap rd) -> Forall (fun y => In (s_owner y) (rd_snap rd)) l1 ->
  exists l, read_series rd (st_series st sref) = Some l /\ In x l.
Proof.
  intros Hrun Hrd Hall Hx Hl1. eexists. split; [apply (read_prefix tr st rd sref Hrun Hrd)|].
  rewrite Hall. rewrite takewhile_app_all.
  - apply in_or_app. right. cbn [takewhile]. apply entitled_In in Hx. rewrite Hx. left. reflexivity.
  - eapply Forall_impl; [|exact Hl1]. intros y Hy. apply entitled_In. exact Hy.
Qed.

(* all-or-nothing for a transaction a none of whose samples sits behind a sample the reader
   is not entitled to: closed before the reader -> every sample on every series is returned;
   not closed before the reader -> none is (this half needs no side condition) *)
Lemma whole_txn_partial tr st rd a :
  run init tr = ROk st -> In rd (st_readers st) ->
  (forall sref l1 x l2, all_samples (st_series st sref) = l1 ++ x :: l2 -> s_owner x = a ->
                        Forall (fun y => In (s_owner y) (rd_snap rd)) l1) ->
  (In a (rd_snap rd) ->
   forall sref x, In x (all_samples (st_series st sref)) -> s_owner x = a ->
                  exists l, read_series rd (st_series st sref) = Some l /\ In x l) /\
  (~ In a (rd_snap rd) ->
   forall sref l, read_series rd (st_series st sref) = Some l -> forall x, In x l -> s_owner x <> a).
Proof.
  intros Hrun Hrd Hside. split.
  - intros Ha sref x Hx Hox. destruct (in_split x _ Hx) as (l1 & l2 & Hall).
    apply (complete_partial tr st rd sref l1 x l2 Hrun Hrd Hall).
    + rewrite Hox. exact Ha.
    + exact (Hside sref l1 x l2 Hall Hox).
  - intros Hna sref l Hl x Hx Hox. rewrite (read_prefix tr st rd sref Hrun Hrd) in Hl. injection Hl as <-.
    pose proof (takewhile_Forall (entitled rd) (all_samples (st_series st sref))) as Hf.
    rewrite Forall_forall in Hf. specialize (Hf x Hx). apply entitled_In in Hf. rewrite Hox in Hf. contradiction.
Qed.

Lemma no_panic tr : run init tr <> RPanic.
Proof. exact (proj1 (run_inv tr init Inv_init)). Qed.

(* the finding: A (appendID 1) is open and has applied a sample to series 1; B (appendID 2)
   applies to series 1 and series 3 and closes; a reader created afterwards gets B's sample on
   series 3 and nothing on series 1 *)
Definition tr_finding : list ev :=
  [ENewApp; ENewApp; EApply 1 1 10 1000 false; EApply 2 1 20 2000 false; EApply 2 3 20 2001 false;
   EClose 2; ENewReader 0].

Lemma complete_refuted :
  exists tr st rd x1 x3,
    run init tr = ROk st /\ In rd (st_readers st) /\
    In (s_owner x1) (rd_snap rd) /\ s_owner x3 = s_owner x1 /\
    In x1 (all_samples (st_series st 1)) /\ In x3 (all_samples (st_series st 3)) /\
    read_series rd (st_series st 1) = Some [] /\
    read_series rd (st_series st 3) = Some [x3].
Proof.
  exists tr_finding.
  destruct (run init tr_finding) as [st| |] eqn:E; [|vm_compute in E; discriminate|vm_compute in E; discriminate].
  exists st. vm_compute in E. injection E as <-.
  eexists (mkR 0 2 [1] 1 [2]), (mkS 20 2000 2), (mkS 20 2001 2).
  vm_compute. repeat split; auto.
Qed.

(* ================================================================ the low watermark never goes back *)

Definition lw (st : state) : Z := low_watermark (st_last st) (st_open st) (st_readers st).

Lemma first_open_filter_mono f last (open : list appender) :
  StronglySorted Z.lt (ids open) -> (forall id, In id (ids open) -> 1 <= id <= last) ->
  first_open last open <= first_open last (filter f open).
Proof.
  intros Hs Hr. destruct (filter f open) as [|x xs] eqn:Efl.
  - simpl. apply first_open_le_last. exact Hr.
  - simpl. apply first_open_le; auto. apply (ids_filter_in f). rewrite Efl. left. reflexivity.
Qed.

Lemma low_watermark_readers last open readers rd0 rest :
  rev readers = rd0 :: rest -> low_watermark last open readers = rd_low rd0.
Proof. unfold low_watermark. intros ->. reflexivity. Qed.

Lemma low_watermark_noreaders last open : low_watermark last open [] = first_open last open.
Proof. reflexivity. Qed.

Lemma step_lw_mono st e st' : Inv st -> step st e = ROk st' -> lw st <= lw st'.
Proof.
  intros I. destruct I as [Hlast Hsorted Hrange Hpart Hclosed Hreaders Hlows Hbounds Hseries].
  unfold lw.
  destruct e as [|a sref t v cut|a sref|a|key|key|sref]; cbn [step]; intros E.
  - injection E as <-. cbn [st_last st_open st_readers].
    destruct (rev (st_readers st)) as [|rd0 rest] eqn:Er.
    + apply rev_eq_nil in Er. rewrite Er, !low_watermark_noreaders.
      apply first_open_snoc_mono; cbn [a_id]; lia.
    + rewrite !(low_watermark_readers _ _ _ _ _ Er). lia.
  - destruct (find_app a (st_open st)); [|discriminate]. destruct (ser_apply _ _ _ _ _ _); [|discriminate].
    injection E as <-. cbn [st_last st_open st_readers]. lia.
  - destruct (find_app a (st_open st)); [|discriminate]. destruct (ser_cleanup _ _); [|discriminate].
    injection E as <-. cbn [st_last st_open st_readers]. lia.
  - destruct (find_app a (st_open st)); [|discriminate]. injection E as <-. cbn [st_last st_open st_readers].
    destruct (rev (st_readers st)) as [|rd0 rest] eqn:Er.
    + apply rev_eq_nil in Er. rewrite Er, !low_watermark_noreaders. apply first_open_filter_mono; auto.
    + rewrite !(low_watermark_readers _ _ _ _ _ Er). lia.
  - destruct (existsb _ _); [discriminate|]. injection E as <-. cbn [st_last st_open st_readers].
    destruct (rev (st_readers st)) as [|rd0 rest] eqn:Er.
    + apply rev_eq_nil in Er. rewrite Er, low_watermark_noreaders.
      rewrite (low_watermark_readers _ _ [_] _ [] eq_refl). cbn [rd_low]. lia.
    + rewrite (low_watermark_readers _ _ _ _ _ Er).
      rewrite (low_watermark_readers _ _ (_ :: st_readers st) rd0 (rest ++ [mkR key (st_last st) (map a_id (st_open st)) (first_open (st_last st) (st_open st)) (st_closed st)])).
      * lia.
      * cbn [rev]. rewrite Er. reflexivity.
  - destruct (existsb _ _); [|discriminate]. injection E as <-. cbn [st_last st_open st_readers].
    set (f := fun rd : reader => negb (rd_key rd =? key)).
    destruct (rev (st_readers st)) as [|rd0 rest] eqn:Er.
    + apply rev_eq_nil in Er. rewrite Er. simpl. lia.
    + rewrite (low_watermark_readers _ _ _ _ _ Er).
      destruct (lows_desc_oldest _ _ _ Hlows Er) as [Hin0 Hmin].
      destruct (rev (filter f (st_readers st))) as [|rd1 rest1] eqn:Er1.
      * apply rev_eq_nil in Er1. rewrite Er1, low_watermark_noreaders.
        destruct (Hreaders rd0 Hin0) as (_ & _ & _ & R4). exact R4.
      * rewrite (low_watermark_readers _ _ _ _ _ Er1). apply Hmin.
        apply rev_eq_cons in Er1.
        assert (Hin1 : In rd1 (filter f (st_readers st))) by (rewrite Er1; apply in_or_app; right; left; reflexivity).
        apply filter_In in Hin1. tauto.
  - injection E as <-. cbn [st_last st_open st_readers]. lia.
Qed.

(* isolation.lowWatermark() is non-decreasing along every valid trace *)
Lemma watermark_monotone tr1 : forall tr2 st1 st2,
  run init tr1 = ROk st1 -> run st1 tr2 = ROk st2 -> lw st1 <= lw st2.
Proof.
  intros tr2. revert tr1. induction tr2 as [|e tr2 IH]; intros tr1 st1 st2 H1 H2; cbn [run] in H2.
  - injection H2 as <-. lia.
  - destruct (step st1 e) as [sm| |] eqn:Es; try discriminate.
    pose proof (reachable_inv tr1 st1 H1) as I.
    pose proof (step_lw_mono st1 e sm I Es).
    assert (Hm : run init (tr1 ++ [e]) = ROk sm).
    { rewrite (run_app tr1 init [e] st1 H1). cbn [run]. rewrite Es. reflexivity. }
    specialize (IH (tr1 ++ [e]) sm st2 Hm H2). lia.
Qed.

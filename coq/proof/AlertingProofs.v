(* proof/AlertingProofs.v — proofs about model/Alerting.v (property C44). *)
From Coq Require Import List ZArith Bool Lia.
From Verif Require Import model.Alerting.
Import ListNotations.
Open Scope Z_scope.

(* ---------- sorted association lists ---------- *)
Fixpoint sorted {A} (m : list (Z * A)) : Prop :=
  match m with
  | [] => True
  | (k, _) :: r => (forall k', In k' (map fst r) -> k < k') /\ sorted r
  end.

Lemma lookup_none_notin {A} k (m : list (Z * A)) : ~ In k (map fst m) -> lookup k m = None.
Proof.
  induction m as [|[k' v] r IH]; simpl; intros Hn; [reflexivity|].
  destruct (Z.eqb_spec k k') as [->|Hne]; [exfalso; apply Hn; now left|].
  apply IH. intros Hin. apply Hn. now right.
Qed.

Lemma lookup_in {A} k (m : list (Z * A)) a : lookup k m = Some a -> In (k, a) m.
Proof.
  induction m as [|[k' v] r IH]; simpl; [discriminate|].
  destruct (Z.eqb_spec k k') as [->|Hne]; intros H.
  - inversion H; subst. now left.
  - right. now apply IH.
Qed.

Lemma in_lookup {A} k (m : list (Z * A)) a : sorted m -> In (k, a) m -> lookup k m = Some a.
Proof.
  induction m as [|[k' v] r IH]; simpl; [tauto|].
  intros [Hlt Hs] [Heq|Hin].
  - inversion Heq; subst. now rewrite Z.eqb_refl.
  - destruct (Z.eqb_spec k k') as [->|Hne].
    + exfalso. assert (k' < k') by (apply Hlt; apply in_map_iff; exists (k', a); auto). lia.
    + now apply IH.
Qed.

Lemma lookup_some_in_keys {A} k (m : list (Z * A)) a : lookup k m = Some a -> In k (map fst m).
Proof. intros H. apply lookup_in in H. apply in_map_iff. exists (k, a). auto. Qed.

Lemma upsert_keys {A} k (v : A) m k' : In k' (map fst (upsert k v m)) <-> k' = k \/ In k' (map fst m).
Proof.
  induction m as [|[k0 v0] r IH]; simpl.
  - intuition.
  - destruct (Z.ltb_spec k k0); simpl; [intuition|].
    destruct (Z.eqb_spec k k0) as [->|Hne]; simpl; [intuition|].
    rewrite IH. intuition.
Qed.

Lemma upsert_sorted {A} k (v : A) m : sorted m -> sorted (upsert k v m).
Proof.
  induction m as [|[k0 v0] r IH]; simpl.
  - intros _. split; [intros ? []|exact I].
  - intros [Hlt Hs].
    destruct (Z.ltb_spec k k0).
    + simpl. split; [|split; assumption].
      intros k' [<-|Hin]; [lia|]. specialize (Hlt _ Hin). lia.
    + destruct (Z.eqb_spec k k0) as [->|Hne]; simpl.
      * split; assumption.
      * split; [|now apply IH].
        intros k' Hin. apply upsert_keys in Hin. destruct Hin as [->|Hin]; [lia|now apply Hlt].
Qed.

Lemma lookup_upsert {A} k (v : A) m k' : sorted m ->
  lookup k' (upsert k v m) = if k' =? k then Some v else lookup k' m.
Proof.
  induction m as [|[k0 v0] r IH]; simpl; intros Hs.
  - destruct (k' =? k); reflexivity.
  - destruct Hs as [Hlt Hs].
    destruct (Z.ltb_spec k k0); simpl.
    + destruct (Z.eqb_spec k' k); reflexivity.
    + destruct (Z.eqb_spec k k0) as [->|Hne]; simpl.
      * destruct (Z.eqb_spec k' k0); reflexivity.
      * rewrite IH by assumption.
        destruct (Z.eqb_spec k' k0) as [->|]; [|reflexivity].
        destruct (Z.eqb_spec k0 k); [lia|reflexivity].
Qed.

Lemma memZ_in k l : memZ k l = true <-> In k l.
Proof.
  induction l as [|x r IH]; simpl; [split; [discriminate|tauto]|].
  rewrite orb_true_iff, IH, Z.eqb_eq. intuition.
Qed.

Lemma has_dup_nodup l : has_dup l = false -> NoDup l.
Proof.
  induction l as [|x r IH]; simpl; intros H; [constructor|].
  apply orb_false_iff in H. destruct H as [Hm Hd].
  constructor; [|now apply IH].
  intros Hin. apply memZ_in in Hin. congruence.
Qed.

Lemma memZ_lookup {A} k (res : list (Z * A)) :
  memZ k (map fst res) = match lookup k res with Some _ => true | None => false end.
Proof.
  induction res as [|[k0 v0] r IH]; simpl; [reflexivity|].
  destruct (Z.eqb_spec k k0); simpl; [reflexivity|exact IH].
Qed.

(* ---------- well-formedness of the active map ---------- *)
Definition all_wf (m : amap) : Prop := forall k a, In (k, a) m -> wf_alert a = true.

Definition inv (m : amap) : Prop := sorted m /\ all_wf m.

Lemma all_wf_lookup m k a : all_wf m -> lookup k m = Some a -> wf_alert a = true.
Proof. intros H Hl. apply (H k). now apply lookup_in. Qed.

Lemma all_wf_upsert m k a : sorted m -> all_wf m -> wf_alert a = true -> all_wf (upsert k a m).
Proof.
  intros Hs Hw Ha k' a' Hin.
  apply in_lookup in Hin; [|now apply upsert_sorted].
  rewrite lookup_upsert in Hin by assumption.
  destruct (k' =? k); [now inversion Hin; subst|]. eapply all_wf_lookup; eauto.
Qed.

(* ---------- merge ---------- *)
Definition merged_entry (ts : Z) (prev : option alert) (v : Z) : alert :=
  match prev with
  | Some a => if is_active a then set_value a v else new_alert ts v
  | None => new_alert ts v
  end.

Lemma wf_set_value a v : wf_alert a = true -> wf_alert (set_value a v) = true.
Proof. destruct a as [[] ? ? ? ? ? ? ?]; simpl; auto. Qed.

Lemma wf_merged_entry ts prev v :
  (forall a, prev = Some a -> wf_alert a = true) -> wf_alert (merged_entry ts prev v) = true.
Proof.
  intros H. unfold merged_entry. destruct prev as [a|]; [|reflexivity].
  destruct (is_active a); [apply wf_set_value; now apply H|reflexivity].
Qed.

Lemma active_merged_entry ts prev v : is_active (merged_entry ts prev v) = true.
Proof.
  unfold merged_entry. destruct prev as [a|]; [|reflexivity].
  destruct (is_active a) eqn:E; [|reflexivity].
  destruct a as [[] ? ? ? ? ? ? ?]; simpl in *; auto.
Qed.

Lemma merge1_eq ts m k v : merge1 ts m (k, v) = upsert k (merged_entry ts (lookup k m) v) m.
Proof.
  unfold merge1, merged_entry, is_active. destruct (lookup k m) as [a|]; [|reflexivity].
  destruct (negb (astate_eqb (a_state a) Inactive)); reflexivity.
Qed.

Lemma merge_spec ts res : forall m, inv m -> NoDup (map fst res) ->
  inv (merge ts m res) /\
  forall k, lookup k (merge ts m res) =
            match lookup k res with
            | Some v => Some (merged_entry ts (lookup k m) v)
            | None => lookup k m
            end.
Proof.
  unfold merge. induction res as [|[k0 v0] r IH]; intros m [Hs Hw] Hnd.
  - simpl. split; [split; assumption|reflexivity].
  - simpl in Hnd. inversion Hnd as [|? ? Hnotin Hnd']; subst.
    cbn [fold_left]. rewrite merge1_eq.
    set (m1 := upsert k0 (merged_entry ts (lookup k0 m) v0) m).
    assert (Hinv1 : inv m1).
    { split; [now apply upsert_sorted|].
      apply all_wf_upsert; auto. apply wf_merged_entry. intros a Ha. eapply all_wf_lookup; eauto. }
    destruct (IH m1 Hinv1 Hnd') as [Hinv Hl]. split; [exact Hinv|].
    intros k. rewrite Hl. unfold m1. rewrite lookup_upsert by assumption. cbn [lookup].
    destruct (Z.eqb_spec k k0) as [->|Hne].
    + rewrite (lookup_none_notin k0 r Hnotin). reflexivity.
    + reflexivity.
Qed.

(* ---------- one alert ---------- *)
Lemma step_present c ts a : is_active a = true -> wf_alert a = true ->
  let s := step_alert c ts true a in
  s_keep s = Some (hold_state c ts (set_keepSince a None)) /\ s_count s = true /\
  s_emit s = s_keep s.
Proof.
  intros Hact Hwf. unfold step_alert, step_tail, hold_state.
  destruct a as [[] v act fa ra ks ls vu]; simpl in *; try discriminate;
    destruct (c_hold c <=? ts - act) eqn:E1; simpl; rewrite ?E1; simpl;
    try (destruct (ts - act <? c_hold c) eqn:E2; simpl); auto;
    try (apply Z.leb_le in E1; apply Z.ltb_lt in E2; lia);
    try (apply Z.leb_gt in E1; apply Z.ltb_ge in E2; lia).
Qed.

Lemma step_absent c ts a : wf_alert a = true ->
  let s := step_alert c ts false a in
  s_keep s = spec_next c ts None (Some a) /\
  s_emit s = (if s_count s then s_keep s else None) /\
  (s_count s = true -> exists e, s_keep s = Some e /\ is_active e = true) /\
  (s_count s = false -> forall e, s_keep s = Some e -> is_active e = false).
Proof.
  intros Hwf. unfold step_alert, step_tail, spec_next, hold_state.
  destruct a as [[] v act fa ra ks ls vu]; simpl in *.
  - (* Inactive *)
    destruct ra as [r|]; [|discriminate]. simpl.
    destruct (resolvedRetention <? ts - r); simpl; repeat split; auto; try discriminate;
      try (intros _ e He; inversion He; reflexivity).
  - (* Pending *)
    destruct ra; [discriminate|]. simpl. repeat split; auto; try discriminate.
  - (* Firing *)
    destruct ra; [discriminate|]. destruct fa; [|discriminate].
    destruct (0 <? c_kff c) eqn:Ek; simpl.
    + destruct (ts - match ks with Some k => k | None => ts end <? c_kff c) eqn:Ew; simpl.
      * destruct (c_hold c <=? ts - act) eqn:E1; simpl.
        -- destruct (ts - act <? c_hold c) eqn:E2; simpl;
             [apply Z.leb_le in E1; apply Z.ltb_lt in E2; lia|].
           repeat split; eauto; try discriminate.
        -- destruct (ts - act <? c_hold c) eqn:E2; simpl;
             [|apply Z.leb_gt in E1; apply Z.ltb_ge in E2; lia].
           repeat split; eauto; try discriminate.
      * repeat split; auto; try discriminate. intros _ e He; inversion He; reflexivity.
    + repeat split; auto; try discriminate. intros _ e He; inversion He; reflexivity.
Qed.

Lemma wf_hold_state c ts a : is_active a = true -> wf_alert a = true -> wf_alert (hold_state c ts a) = true.
Proof.
  unfold hold_state. destruct a as [[] v act fa ra ks ls vu]; simpl; try discriminate;
    destruct (c_hold c <=? ts - act); simpl; auto;
    destruct ra; auto; destruct fa; auto.
Qed.

Lemma active_hold_state c ts a : is_active a = true -> is_active (hold_state c ts a) = true.
Proof.
  unfold hold_state. destruct a as [[] v act fa ra ks ls vu]; simpl; try discriminate;
    destruct (c_hold c <=? ts - act); simpl; auto.
Qed.

Lemma wf_set_keepSince_active a k : is_active a = true -> wf_alert a = true ->
  a_state a = Firing \/ k = None -> wf_alert (set_keepSince a k) = true.
Proof.
  destruct a as [[] v act fa ra ks ls vu]; simpl; try discriminate; intros _ H [E|E]; try discriminate; subst; auto.
  destruct ra; auto. destruct fa; auto.
Qed.

Lemma wf_spec_next c ts pres prev a' :
  (forall a, prev = Some a -> wf_alert a = true) ->
  spec_next c ts pres prev = Some a' -> wf_alert a' = true.
Proof.
  intros Hwf. unfold spec_next.
  destruct pres as [v|].
  - assert (Hn : wf_alert (hold_state c ts (new_alert ts v)) = true) by (apply wf_hold_state; reflexivity).
    destruct prev as [a|]; [|intros H; inversion H; subst; exact Hn].
    destruct (is_active a) eqn:Ea; [|intros H; inversion H; subst; exact Hn].
    intros H; inversion H; subst. specialize (Hwf a eq_refl).
    apply wf_hold_state.
    + destruct a as [[] ? ? ? ? ? ? ?]; simpl in *; auto.
    + apply wf_set_keepSince_active; [destruct a as [[] ? ? ? ? ? ? ?]; simpl in *; auto| |now right].
      now apply wf_set_value.
  - destruct prev as [a|]; [|discriminate]. specialize (Hwf a eq_refl).
    destruct a as [[] v act fa ra ks ls vu]; simpl in *.
    + destruct ra as [r|]; [|discriminate].
      destruct (resolvedRetention <? ts - r); intros H; inversion H; subst; reflexivity.
    + discriminate.
    + destruct ra; [discriminate|]. destruct fa; [|discriminate].
      destruct ((0 <? c_kff c) && (ts - match ks with Some k => k | None => ts end <? c_kff c)).
      * intros H; inversion H; subst. apply wf_hold_state; reflexivity.
      * intros H; inversion H; subst. destruct (0 <? c_kff c); reflexivity.
Qed.

(* ---------- the loop over r.active ---------- *)
Definition step_of (c : cfg) (ts : Z) (res : list (Z * Z)) (k : Z) (a : alert) : stepres :=
  step_alert c ts (memZ k (map fst res)) a.

Lemma kept_keys c ts res mm k : In k (map fst (kept (steps c ts res mm))) -> In k (map fst mm).
Proof.
  induction mm as [|[k0 a0] r IH]; simpl; [tauto|].
  unfold kept in *. simpl. rewrite map_app, in_app_iff.
  intros [H|H]; [|right; now apply IH].
  destruct (s_keep _); simpl in H; [left; intuition|tauto].
Qed.

Lemma kept_sorted c ts res mm : sorted mm -> sorted (kept (steps c ts res mm)).
Proof.
  induction mm as [|[k0 a0] r IH]; simpl; [auto|].
  intros [Hlt Hs]. unfold kept in *. simpl.
  destruct (s_keep _); simpl; [|now apply IH].
  split; [|now apply IH]. intros k' Hin. apply Hlt. eapply kept_keys; eauto.
Qed.

Lemma kept_lookup c ts res mm k : sorted mm ->
  lookup k (kept (steps c ts res mm)) =
  match lookup k mm with Some a => s_keep (step_of c ts res k a) | None => None end.
Proof.
  induction mm as [|[k0 a0] r IH]; simpl; [reflexivity|].
  intros [Hlt Hs]. unfold kept in *. simpl.
  destruct (Z.eqb_spec k k0) as [->|Hne].
  - unfold step_of. destruct (s_keep _) eqn:E; simpl.
    + now rewrite Z.eqb_refl.
    + apply lookup_none_notin. intros Hin. apply kept_keys in Hin. apply Hlt in Hin. lia.
  - destruct (s_keep _); simpl; [|now apply IH].
    destruct (Z.eqb_spec k k0); [contradiction|now apply IH].
Qed.

(* ---------- AlertingRule.Eval refines the reference machine ---------- *)
Lemma emitted_kept c ts res t mm :
  (forall k a, In (k, a) mm -> wf_alert a = true /\ (memZ k (map fst res) = true -> is_active a = true)) ->
  emitted t (steps c ts res mm) =
  flat_map (fun ka => if is_active (snd ka) then samples_of (fst ka) (snd ka) t else []) (kept (steps c ts res mm)).
Proof.
  induction mm as [|[k0 a0] r IH]; intros H; [reflexivity|].
  unfold emitted, kept in *. cbn [steps map flat_map fst snd].
  rewrite flat_map_app. f_equal; [|apply IH; intros k a Hin; apply H; now right].
  destruct (H k0 a0 (or_introl eq_refl)) as [Hwf Hact].
  destruct (memZ k0 (map fst res)) eqn:Ep.
  - destruct (step_present c ts a0 (Hact eq_refl) Hwf) as (Hk & _ & He).
    rewrite He, Hk. cbn [flat_map fst snd].
    rewrite active_hold_state; [now rewrite app_nil_r|].
    destruct a0 as [[] ? ? ? ? ? ? ?]; simpl in *; auto.
  - destruct (step_absent c ts a0 Hwf) as (_ & He & Hc1 & Hc0).
    rewrite He. destruct (s_count (step_alert c ts false a0)) eqn:Ec.
    + destruct (Hc1 eq_refl) as (e & Hk & Hae). rewrite Hk. cbn [flat_map fst snd]. rewrite Hae. now rewrite app_nil_r.
    + destruct (s_keep (step_alert c ts false a0)) as [e|] eqn:Ek; [|reflexivity].
      cbn [flat_map fst snd]. now rewrite (Hc0 eq_refl e eq_refl).
Qed.

Theorem eval_ok_spec c m ts qo limit res m' vec :
  inv m -> eval c m ts qo limit false res = (m', EvOk vec) ->
  inv m' /\
  (forall k, lookup k m' = spec_next c ts (lookup k res) (lookup k m)) /\
  vec = spec_vec c ts qo m'.
Proof.
  intros Hinv. unfold eval.
  destruct (has_dup (map fst res)) eqn:Ed; [intros H; inversion H|].
  destruct ((0 <? limit) && (limit <? counted (steps c ts res (merge ts m res)))); [intros H; inversion H|].
  intros H; inversion H; subst; clear H.
  destruct (merge_spec ts res m Hinv (has_dup_nodup _ Ed)) as [[Hs Hw] Hl].
  assert (Hlk : forall k, lookup k (kept (steps c ts res (merge ts m res))) = spec_next c ts (lookup k res) (lookup k m)).
  { intros k. rewrite kept_lookup by assumption. rewrite Hl. unfold step_of. rewrite memZ_lookup.
    destruct (lookup k res) as [v|] eqn:Er.
    - destruct (step_present c ts (merged_entry ts (lookup k m) v)) as (Hk & _).
      + apply active_merged_entry.
      + apply wf_merged_entry. intros a Ha. eapply all_wf_lookup; [apply Hinv|eauto].
      + rewrite Hk. unfold spec_next, merged_entry. destruct (lookup k m) as [a|]; [|reflexivity].
        destruct (is_active a); reflexivity.
    - destruct (lookup k m) as [a|] eqn:Em; [|reflexivity].
      destruct (step_absent c ts a) as (Hk & _); [eapply all_wf_lookup; [apply Hinv|eauto]|exact Hk]. }
  split; [|split; [exact Hlk|]].
  - split; [now apply kept_sorted|].
    intros k a Hin. apply in_lookup in Hin; [|now apply kept_sorted].
    rewrite Hlk in Hin. eapply wf_spec_next; [|exact Hin].
    intros a0 Ha0. eapply all_wf_lookup; [apply Hinv|eauto].
  - unfold spec_vec. destruct (c_restored c); [|reflexivity].
    apply emitted_kept. intros k a Hin. split; [now apply (Hw k)|].
    intros Hm. apply in_lookup in Hin; [|assumption]. rewrite Hl in Hin. rewrite memZ_lookup in Hm.
    destruct (lookup k res); [|discriminate]. inversion Hin. apply active_merged_entry.
Qed.

Theorem eval_errors c m ts qo limit qerr res m' o :
  eval c m ts qo limit qerr res = (m', o) ->
  (qerr = true -> o = EvQueryErr /\ m' = m) /\
  (qerr = false -> has_dup (map fst res) = true -> o = EvDup /\ m' = m) /\
  (o = EvLimit -> m' = [] /\ 0 < limit) /\
  (o = EvQueryErr \/ o = EvDup -> m' = m).
Proof.
  unfold eval. destruct qerr.
  - intros H; inversion H; subst. repeat split; auto; try discriminate.
  - destruct (has_dup (map fst res)).
    + intros H; inversion H; subst. repeat split; auto; try discriminate.
    + destruct (0 <? limit) eqn:E0; simpl.
      * destruct (limit <? counted _); intros H; inversion H; subst; repeat split; auto; try discriminate;
          try (now apply Z.ltb_lt); intros [|]; discriminate.
      * intros H; inversion H; subst; repeat split; auto; try discriminate; intros [|]; discriminate.
Qed.

(* ---------- histories ---------- *)
Theorem evals_refine c es : forall m m', inv m -> evals c m es = Some m' ->
  inv m' /\ forall k, lookup k m' = key_run c k es (lookup k m).
Proof.
  induction es as [|e r IH]; intros m m' Hinv; cbn [evals].
  - intros H; inversion H; subst. split; [assumption|reflexivity].
  - destruct (eval c m (e_ts e) (e_qo e) (e_limit e) false (e_res e)) as [m1 o] eqn:Ee.
    destruct o; try discriminate.
    destruct (eval_ok_spec _ _ _ _ _ _ _ _ Hinv Ee) as (Hinv1 & Hl & _).
    intros H. destruct (IH _ _ Hinv1 H) as [Hinv' Hk]. split; [exact Hinv'|].
    intros k. rewrite Hk, Hl. reflexivity.
Qed.

Lemma inv_nil : inv [].
Proof. split; [exact I|intros ? ? []]. Qed.

(* --- "pending from its first active evaluation; firing at the first evaluation at least
       'for' after its activation while it stayed active" --- *)
Definition shape (a : alert) (st : astate) (t0 : Z) (f : option Z) : Prop :=
  a_state a = st /\ a_activeAt a = t0 /\ a_firedAt a = f /\ a_resolvedAt a = None.

Lemma shape_refresh a st t0 f v : shape a st t0 f -> shape (set_keepSince (set_value a v) None) st t0 f.
Proof. destruct a; unfold shape; simpl; auto. Qed.

Lemma key_run_cons c k e r a : key_run c k (e :: r) a = key_run c k r (spec_next c (e_ts e) (lookup k (e_res e)) a).
Proof. reflexivity. Qed.

Lemma fire_run c k t0 f : forall es a tl,
  shape a Firing t0 (Some f) -> c_hold c <= tl - t0 -> mono tl es -> Forall (present_in k) es ->
  exists a', key_run c k es (Some a) = Some a' /\ shape a' Firing t0 (Some f).
Proof.
  induction es as [|e r IH]; intros a tl Hsh Hh Hm Hp.
  - exists a. auto.
  - destruct Hm as [Hle Hm]. inversion Hp as [|? ? [v Hv] Hp']; subst.
    rewrite key_run_cons, Hv.
    assert (Hact : is_active a = true) by (destruct Hsh as (E & _); unfold is_active; now rewrite E).
    cbn [spec_next]. rewrite Hact.
    pose proof (shape_refresh a _ _ _ v Hsh) as Hsh1.
    set (a1 := set_keepSince (set_value a v) None) in *.
    assert (E : hold_state c (e_ts e) a1 = a1).
    { unfold hold_state. destruct Hsh1 as (E1 & E2 & _). rewrite E1, E2.
      destruct (Z.leb_spec (c_hold c) (e_ts e - t0)); [reflexivity|lia]. }
    rewrite E. apply (IH a1 (e_ts e)); auto. lia.
Qed.

Definition reaches (c : cfg) (t0 : Z) (e : evin) : bool := c_hold c <=? e_ts e - t0.

Lemma pend_run c k t0 : forall es e X,
  shape X Pending t0 None -> mono (e_ts e) es -> Forall (present_in k) es ->
  exists a', key_run c k es (Some (hold_state c (e_ts e) X)) = Some a' /\
    match find (reaches c t0) (e :: es) with
    | Some e1 => shape a' Firing t0 (Some (e_ts e1))
    | None => shape a' Pending t0 None
    end.
Proof.
  induction es as [|e1 r IH]; intros e X Hsh Hm Hp.
  - cbn [key_run fold_left find]. eexists; split; [reflexivity|].
    unfold hold_state, reaches. destruct Hsh as (E1 & E2 & E3 & E4). rewrite E1, E2.
    destruct (c_hold c <=? e_ts e - t0); [|repeat split; auto].
    destruct X; unfold shape; simpl in *; auto.
  - cbn [find]. destruct (reaches c t0 e) eqn:Er.
    + (* fires at e, then stays firing *)
      assert (Hf : hold_state c (e_ts e) X = fire X (e_ts e)).
      { unfold hold_state, reaches in *. destruct Hsh as (E1 & E2 & _). rewrite E1, E2, Er. reflexivity. }
      rewrite Hf. apply (fire_run c k t0 (e_ts e) (e1 :: r) (fire X (e_ts e)) (e_ts e)); auto.
      * destruct X; destruct Hsh as (E1 & E2 & E3 & E4); unfold shape; simpl in *; auto.
      * unfold reaches in Er. now apply Z.leb_le in Er.
    + assert (Hf : hold_state c (e_ts e) X = X).
      { unfold hold_state, reaches in *. destruct Hsh as (E1 & E2 & _). rewrite E1, E2, Er. reflexivity. }
      rewrite Hf. destruct Hm as [Hle Hm]. inversion Hp as [|? ? [v Hv] Hp']; subst.
      rewrite key_run_cons, Hv.
      assert (Hact : is_active X = true) by (destruct Hsh as (E & _); unfold is_active; now rewrite E).
      cbn [spec_next]. rewrite Hact.
      apply IH; auto using shape_refresh.
Qed.

Theorem fires_at_first c k e0 es a0 :
  (a0 = None \/ exists a, a0 = Some a /\ is_active a = false) ->
  Forall (present_in k) (e0 :: es) -> mono (e_ts e0) es ->
  exists a', key_run c k (e0 :: es) a0 = Some a' /\
    match find (reaches c (e_ts e0)) (e0 :: es) with
    | Some e1 => shape a' Firing (e_ts e0) (Some (e_ts e1))
    | None => shape a' Pending (e_ts e0) None
    end.
Proof.
  intros Ha0 Hp Hm. inversion Hp as [|? ? [v Hv] Hp']; subst.
  rewrite key_run_cons, Hv.
  assert (E : spec_next c (e_ts e0) (Some v) a0 = Some (hold_state c (e_ts e0) (new_alert (e_ts e0) v))).
  { destruct Ha0 as [->|(a & -> & Hia)]; [reflexivity|]. cbn [spec_next]. now rewrite Hia. }
  rewrite E. apply pend_run; auto. repeat split.
Qed.

(* --- absent: pending dropped; firing resolved unless within keep_firing_for --- *)
Lemma absent_pending c ts a : a_state a = Pending -> spec_next c ts None (Some a) = None.
Proof. intros E. cbn [spec_next]. now rewrite E. Qed.

Lemma absent_firing_no_keep c ts a : a_state a = Firing -> c_kff c <= 0 ->
  spec_next c ts None (Some a) = Some (resolve a ts).
Proof.
  intros E Hk. cbn [spec_next]. rewrite E.
  destruct (Z.ltb_spec 0 (c_kff c)); [lia|reflexivity].
Qed.

Theorem keep_firing_window c k : forall es a t1 tl,
  a_state a = Firing -> a_keepSince a = Some t1 -> 0 < c_kff c -> c_hold c <= tl - a_activeAt a ->
  mono tl es -> Forall (absent_in k) es -> Forall (fun e => e_ts e - t1 < c_kff c) es ->
  key_run c k es (Some a) = Some a.
Proof.
  induction es as [|e r IH]; intros a t1 tl Hs Hks Hk Hh Hm Ha Hw; [reflexivity|].
  destruct Hm as [Hle Hm]. inversion Ha as [|? ? Hab Ha']; subst. inversion Hw as [|? ? Hwe Hw']; subst.
  rewrite key_run_cons. unfold absent_in in Hab. rewrite Hab. cbn [spec_next]. rewrite Hs, Hks.
  destruct (Z.ltb_spec 0 (c_kff c)); [|lia]. destruct (Z.ltb_spec (e_ts e - t1) (c_kff c)); [|lia].
  cbn [andb].
  assert (E : hold_state c (e_ts e) (set_keepSince a (Some t1)) = a).
  { unfold hold_state. destruct a; simpl in *. subst.
    destruct (Z.leb_spec (c_hold c) (e_ts e - a_activeAt)); [reflexivity|lia]. }
  rewrite E. apply (IH a t1 (e_ts e)); auto. lia.
Qed.

(* the first absence opens the window (KeepFiringSince = ts), the first evaluation at or after
   the end of the window resolves the alert at that evaluation *)
Lemma keep_firing_starts c ts a : a_state a = Firing -> a_keepSince a = None -> 0 < c_kff c ->
  c_hold c <= ts - a_activeAt a ->
  spec_next c ts None (Some a) = Some (set_keepSince a (Some ts)).
Proof.
  intros Hs Hks Hk Hh. cbn [spec_next]. rewrite Hs, Hks.
  destruct (Z.ltb_spec 0 (c_kff c)); [|lia]. destruct (Z.ltb_spec (ts - ts) (c_kff c)); [|lia].
  cbn [andb]. unfold hold_state. destruct a; simpl in *; subst.
  destruct (Z.leb_spec (c_hold c) (ts - a_activeAt)); [reflexivity|lia].
Qed.

Lemma keep_firing_ends c ts a t1 : a_state a = Firing -> a_keepSince a = Some t1 -> c_kff c <= ts - t1 ->
  spec_next c ts None (Some a) = Some (resolve a ts).
Proof.
  intros Hs Hks Hk. cbn [spec_next]. rewrite Hs, Hks.
  destruct (Z.ltb_spec (ts - t1) (c_kff c)); [lia|]. rewrite andb_false_r.
  destruct (0 <? c_kff c); [|reflexivity]. destruct a; simpl in *; subst; reflexivity.
Qed.

(* --- resolved alerts: retained for the retention period, then dropped; a reappearing one
       starts a new pending period --- *)
Theorem retention_kept c k r : forall es a,
  a_state a = Inactive -> a_resolvedAt a = Some r ->
  Forall (absent_in k) es -> Forall (fun e => e_ts e - r <= resolvedRetention) es ->
  key_run c k es (Some a) = Some a.
Proof.
  induction es as [|e es IH]; intros a Hs Hr Ha Hw; [reflexivity|].
  inversion Ha as [|? ? Hab Ha']; subst. inversion Hw as [|? ? Hwe Hw']; subst.
  rewrite key_run_cons. unfold absent_in in Hab. rewrite Hab. cbn [spec_next]. rewrite Hs, Hr.
  destruct (Z.ltb_spec resolvedRetention (e_ts e - r)); [lia|]. now apply IH.
Qed.

Lemma retention_dropped c ts a r : a_state a = Inactive -> a_resolvedAt a = Some r ->
  resolvedRetention < ts - r -> spec_next c ts None (Some a) = None.
Proof.
  intros Hs Hr Hlt. cbn [spec_next]. rewrite Hs, Hr.
  destruct (Z.ltb_spec resolvedRetention (ts - r)); [reflexivity|lia].
Qed.

Lemma reappears_pending c ts a v : a_state a = Inactive ->
  spec_next c ts (Some v) (Some a) = Some (hold_state c ts (new_alert ts v)).
Proof. intros Hs. cbn [spec_next]. unfold is_active. now rewrite Hs. Qed.

(* ---------- Group.RestoreForState ---------- *)
Lemma query_store_keys lo hi st k : In k (map fst (query_store lo hi st)) -> In k (map fst st).
Proof.
  induction st as [|[k0 s0] r IH]; simpl; [tauto|].
  unfold query_store in *. cbn [flat_map fst snd]. rewrite map_app, in_app_iff.
  intros [H|H]; [|right; now apply IH].
  destruct (in_range lo hi s0); simpl in H; [tauto|left; intuition].
Qed.

Lemma query_store_lookup lo hi st k : NoDup (map fst st) ->
  lookup k (query_store lo hi st) =
  match lookup k st with
  | Some s => match in_range lo hi s with [] => None | s' => Some s' end
  | None => None
  end.
Proof.
  induction st as [|[k0 s0] r IH]; intros Hnd; [reflexivity|].
  simpl in Hnd. inversion Hnd as [|? ? Hnotin Hnd']; subst.
  unfold query_store in *. cbn [flat_map fst snd lookup].
  destruct (Z.eqb_spec k k0) as [->|Hne].
  - destruct (in_range lo hi s0) eqn:Ei.
    + cbn [app]. apply lookup_none_notin. intros Hin. apply Hnotin. eapply query_store_keys; eauto.
    + cbn [app lookup]. now rewrite Z.eqb_refl.
  - destruct (in_range lo hi s0); cbn [app lookup]; [now apply IH|].
    destruct (Z.eqb_spec k k0); [contradiction|now apply IH].
Qed.

Lemma lookup_map_keyed (f : Z * alert -> Z * alert) m k :
  (forall ka, fst (f ka) = fst ka) ->
  lookup k (map f m) = match lookup k m with Some a => Some (snd (f (k, a))) | None => None end.
Proof.
  intros Hf. induction m as [|[k0 a0] r IH]; [reflexivity|].
  cbn [map lookup]. specialize (Hf (k0, a0)) as Hf0. destruct (f (k0, a0)) as [k1 a1] eqn:E. simpl in Hf0. subst k1.
  destruct (Z.eqb_spec k k0) as [->|Hne]; [now rewrite E|exact IH].
Qed.

Lemma sorted_map_keyed (f : Z * alert -> Z * alert) m :
  (forall ka, fst (f ka) = fst ka) -> sorted m -> sorted (map f m).
Proof.
  intros Hf. induction m as [|[k0 a0] r IH]; [auto|].
  cbn [map]. specialize (Hf (k0, a0)) as Hf0. destruct (f (k0, a0)) as [k1 a1] eqn:E. simpl in Hf0. subst k1.
  intros [Hlt Hs]. split; [|now apply IH].
  intros k' Hin. apply Hlt. rewrite map_map in Hin. erewrite map_ext in Hin; [exact Hin|]. intros; apply Hf.
Qed.

Lemma set_activeAt_same a : set_activeAt a (a_activeAt a) = a.
Proof. destruct a; reflexivity. Qed.

Lemma restore_alert_key hold grace ts q ka : fst (restore_alert hold grace ts q ka) = fst ka.
Proof.
  unfold restore_alert. destruct (lookup (fst ka) q) as [s|]; [|reflexivity].
  destruct (last_sample s) as [[t [v|]]|]; reflexivity.
Qed.

Theorem restore_spec c m ts tol grace st c' m' :
  NoDup (map fst st) -> restore c m ts tol grace st = (c', m') ->
  c' = mkCfg (c_hold c) (c_kff c) true /\
  (forall k, lookup k m = None -> lookup k m' = None) /\
  forall k a, lookup k m = Some a ->
    exists a', lookup k m' = Some a' /\ a' = set_activeAt a (a_activeAt a') /\
      a_activeAt a' =
      match visible_sample ts tol st k with
      | Some (t, Some v) => if c_hold c <? grace then a_activeAt a
                            else restored_activeAt (c_hold c) grace ts t v
      | _ => a_activeAt a
      end.
Proof.
  intros Hnd. unfold restore.
  assert (Hsame : forall k a, lookup k m = Some a ->
            (match visible_sample ts tol st k with
             | Some (t, Some v) => c_hold c <? grace = true
             | _ => True end) ->
            exists a', lookup k m = Some a' /\ a' = set_activeAt a (a_activeAt a') /\
              a_activeAt a' = match visible_sample ts tol st k with
                | Some (t, Some v) => if c_hold c <? grace then a_activeAt a
                                      else restored_activeAt (c_hold c) grace ts t v
                | _ => a_activeAt a end).
  { intros k a Hl Hv. exists a. split; [exact Hl|]. split; [now rewrite set_activeAt_same|].
    destruct (visible_sample ts tol st k) as [[t [v|]]|]; auto. now rewrite Hv. }
  destruct (c_hold c <? grace) eqn:Eg.
  - intros H; inversion H; subst. split; [reflexivity|]. split; [auto|].
    intros k a Hl. apply Hsame; auto. destruct (visible_sample ts tol st k) as [[t [v|]]|]; auto.
  - set (lo := tms_of_nano (ts - tol)). set (hi := tms_of_nano ts).
    destruct (query_store lo hi st) as [|q0 qr] eqn:Eq.
    + intros H; inversion H; subst. split; [reflexivity|]. split; [auto|].
      intros k a Hl. apply Hsame; auto.
      pose proof (query_store_lookup lo hi st k Hnd) as Hq. rewrite Eq in Hq. cbn [lookup] in Hq.
      unfold visible_sample. fold lo hi. destruct (lookup k st) as [s|]; [|exact I].
      destruct (in_range lo hi s); [exact I|discriminate].
    + rewrite <- Eq. intros H; inversion H; subst. split; [reflexivity|].
      split.
      { intros k Hl. rewrite lookup_map_keyed by (intros; apply restore_alert_key). now rewrite Hl. }
      intros k a Hl. rewrite lookup_map_keyed by (intros; apply restore_alert_key). rewrite Hl.
      eexists; split; [reflexivity|].
      unfold restore_alert. cbn [fst snd]. rewrite (query_store_lookup lo hi st k Hnd).
      unfold visible_sample. fold lo hi.
      destruct (lookup k st) as [s|]; [|cbn [snd]; split; [now rewrite set_activeAt_same|reflexivity]].
      destruct (in_range lo hi s) as [|x xs] eqn:Ei.
      * cbn [snd last_sample rev]. split; [now rewrite set_activeAt_same|reflexivity].
      * destruct (last_sample (x :: xs)) as [[t [v|]]|]; cbn [snd];
          try (split; [now rewrite set_activeAt_same|reflexivity]).
        split; [destruct a; reflexivity|destruct a; reflexivity].
Qed.

(* the documented shift: with down = the second of the last stored sample, orig = the stored
   activation second, remaining = hold - (down - orig) *)
Lemma restored_activeAt_spec hold grace ts t v :
  let down := Z.quot t 1000 * sec in
  let orig := v * sec in
  let remaining := hold - (down - orig) in
  let r := restored_activeAt hold grace ts t v in
  (remaining <= 0 -> r = orig) /\
  (0 < remaining -> r + hold = ts + Z.max grace remaining).
Proof.
  cbv zeta. unfold restored_activeAt.
  generalize (Z.quot t 1000 * sec) (v * sec). intros d o.
  destruct (Z.leb_spec (hold - (d - o)) 0); [split; [auto|lia]|].
  destruct (Z.ltb_spec (hold - (d - o)) grace); split; intros; try lia;
    destruct (Z.max_spec grace (hold - (d - o))) as [[? ->]|[? ->]]; lia.
Qed.

(* samples older than the outage tolerance (or in the future) are invisible *)
Lemma visible_sample_out_of_tolerance ts tol st k s :
  lookup k st = Some s ->
  Forall (fun tv => fst tv < tms_of_nano (ts - tol) \/ tms_of_nano ts < fst tv) s ->
  visible_sample ts tol st k = None.
Proof.
  intros Hl Hall. unfold visible_sample. rewrite Hl.
  assert (E : in_range (tms_of_nano (ts - tol)) (tms_of_nano ts) s = []).
  { clear Hl. unfold in_range. induction Hall as [|x r Hx Hr IH]; [reflexivity|]. cbn [filter]. cbv beta in Hx.
    destruct (Z.leb_spec (tms_of_nano (ts - tol)) (fst x)); destruct (Z.leb_spec (fst x) (tms_of_nano ts)); cbn [andb]; try exact IH; exfalso; lia. }
  now rewrite E.
Qed.

(* ---------- every operation preserves the invariant ---------- *)
Lemma wf_set_activeAt a t : wf_alert (set_activeAt a t) = wf_alert a.
Proof. destruct a as [[] ? ? ? ? ? ? ?]; reflexivity. Qed.

Lemma wf_mark_sent a ts rs iv : wf_alert (mark_sent a ts rs iv) = wf_alert a.
Proof. destruct a as [[] ? ? ? ? ? ? ?]; reflexivity. Qed.

Lemma inv_map_keyed (f : Z * alert -> Z * alert) m :
  (forall ka, fst (f ka) = fst ka) -> (forall ka, wf_alert (snd ka) = true -> wf_alert (snd (f ka)) = true) ->
  inv m -> inv (map f m).
Proof.
  intros Hk Hw [Hs Ha]. split; [now apply sorted_map_keyed|].
  intros k a Hin. apply in_map_iff in Hin. destruct Hin as ([k0 a0] & E & Hin).
  specialize (Hw (k0, a0)). rewrite E in Hw. apply Hw. cbn [snd]. now apply (Ha k0).
Qed.

Lemma eval_inv c m ts qo limit qerr res : inv m -> inv (fst (eval c m ts qo limit qerr res)).
Proof.
  intros Hinv. destruct (eval c m ts qo limit qerr res) as [m' o] eqn:E. cbn [fst].
  destruct qerr.
  - destruct (eval_errors _ _ _ _ _ _ _ _ _ E) as (H & _). destruct (H eq_refl) as [_ ->]. exact Hinv.
  - destruct o.
    + now destruct (eval_ok_spec _ _ _ _ _ _ _ _ Hinv E).
    + destruct (eval_errors _ _ _ _ _ _ _ _ _ E) as (_ & _ & _ & H). rewrite H; auto.
    + destruct (eval_errors _ _ _ _ _ _ _ _ _ E) as (_ & _ & _ & H). rewrite H; auto.
    + destruct (eval_errors _ _ _ _ _ _ _ _ _ E) as (_ & _ & H & _). destruct (H eq_refl) as [-> _]. apply inv_nil.
Qed.

Lemma apply_inv w o : inv (snd w) -> inv (snd (fst (apply w o))).
Proof.
  destruct w as [c m]. cbn [snd]. intros Hinv. destruct o; cbn [apply].
  - pose proof (eval_inv c m ts qo limit qerr res Hinv) as H.
    destruct (eval c m ts qo limit qerr res) as [m' out]. exact H.
  - unfold send_alerts. cbn [fst snd]. apply inv_map_keyed; auto.
    + intros ka. destruct (needs_sending (snd ka) ts resend); reflexivity.
    + intros ka Hw. destruct (needs_sending (snd ka) ts resend); [|exact Hw].
      cbn [snd]. now rewrite wf_mark_sent.
  - exact Hinv.
  - apply inv_nil.
  - unfold restore. destruct (c_hold c <? grace); [exact Hinv|].
    destruct (query_store _ _ st); [exact Hinv|]. cbn [fst snd].
    apply inv_map_keyed; auto.
    + intros; apply restore_alert_key.
    + intros ka Hw. unfold restore_alert. destruct (lookup (fst ka) _) as [ss|]; [|exact Hw].
      destruct (last_sample ss) as [[t1 [v1|]]|]; exact Hw.
Qed.

Theorem run_world_inv ops : forall w, inv (snd w) -> inv (snd (run_world w ops)).
Proof.
  unfold run_world. induction ops as [|o r IH]; intros w Hinv; [exact Hinv|].
  cbn [fold_left]. apply IH. now apply apply_inv.
Qed.

(* the main statement over arbitrary histories: after ANY sequence of evaluations (failing or
   not), notifications, reloads with new durations, restarts and restores, the next successful
   evaluation moves every instance as the reference machine says and returns exactly the series
   of the instances that are active afterwards *)
Theorem transitions_any_history c0 ops c m ts qo limit res m' vec :
  run_world (c0, []) ops = (c, m) ->
  eval c m ts qo limit false res = (m', EvOk vec) ->
  (forall k, lookup k m' = spec_next c ts (lookup k res) (lookup k m)) /\
  vec = spec_vec c ts qo m'.
Proof.
  intros Hr He. pose proof (run_world_inv ops (c0, []) inv_nil) as Hinv. rewrite Hr in Hinv.
  destruct (eval_ok_spec _ _ _ _ _ _ _ _ Hinv He) as (_ & H1 & H2). auto.
Qed.

(* proof/ScrapeProofs.v — proofs about model/Scrape.v (the scrape loop of one target).

   Part 1 (any state): shape of what a step hands to the storage — a failed scrape commits
           nothing but staleness markers and its report; markers carry the scrape time.
   Part 2 (histories without reference changes): the cache invariant, and the simulation of
           scrapeLoop.append by a body-only reference semantics ([abs_entry]): appended samples,
           tracked label sets, staleness markers, report values.
   Part 3: the refutation of "a body that fails after samples were appended is treated like a
           failed scrape for staleness". *)
From Coq Require Import List ZArith Bool Lia.
From Verif Require Import model.Scrape.
Import ListNotations.
Open Scope Z_scope.

(* ------------------------------------------------------------------ association lists *)
Section AssocLemmas.
  Context {V : Type}.
  Implicit Types (m : list (Z * V)) (k : Z) (v : V).

  Lemma aget_aset_eq m k v : aget k (aset k v m) = Some v.
  Proof.
    induction m as [|[k' v'] r IH]; cbn.
    - now rewrite Z.eqb_refl.
    - destruct (k' =? k) eqn:E; cbn; [now rewrite Z.eqb_refl | now rewrite E].
  Qed.

  Lemma aget_aset_neq m k k' v : k' <> k -> aget k' (aset k v m) = aget k' m.
  Proof.
    intros N. induction m as [|[k1 v1] r IH]; cbn.
    - destruct (k =? k') eqn:E; [apply Z.eqb_eq in E; congruence | reflexivity].
    - destruct (k1 =? k) eqn:E; cbn.
      + apply Z.eqb_eq in E. subst k1.
        destruct (k =? k') eqn:E2; [apply Z.eqb_eq in E2; congruence | reflexivity].
      + destruct (k1 =? k'); [reflexivity | exact IH].
  Qed.

  Lemma aget_In m k v : aget k m = Some v -> In (k, v) m.
  Proof.
    induction m as [|[k1 v1] r IH]; cbn; [discriminate|].
    destruct (k1 =? k) eqn:E.
    - apply Z.eqb_eq in E. intros [= ->]. subst. now left.
    - intros H. right. now apply IH.
  Qed.

  Lemma In_amem m k v : In (k, v) m -> amem k m = true.
  Proof.
    unfold amem. induction m as [|[k1 v1] r IH]; cbn; [tauto|].
    intros [[= -> ->]|H].
    - now rewrite Z.eqb_refl.
    - destruct (k1 =? k); [reflexivity | now apply IH].
  Qed.

  Lemma amem_In m k : amem k m = true -> exists v, In (k, v) m.
  Proof.
    unfold amem. destruct (aget k m) eqn:E; [|discriminate]. intros _. eexists. eapply aget_In; eauto.
  Qed.

  Lemma In_aset m k v k1 v1 : In (k1, v1) (aset k v m) -> (k1 = k /\ v1 = v) \/ In (k1, v1) m.
  Proof.
    induction m as [|[k2 v2] r IH]; cbn.
    - intros [[= <- <-]|[]]. now left.
    - destruct (k2 =? k) eqn:E; cbn.
      + intros [[= <- <-]|H]; [now left | right; now right].
      + intros [H|H]; [right; now left|]. destruct (IH H) as [?|?]; [now left | right; now right].
  Qed.

  Lemma Forall_aset (P : Z * V -> Prop) m k v : Forall P m -> P (k, v) -> Forall P (aset k v m).
  Proof.
    intros F Pk. apply Forall_forall. intros [k1 v1] I.
    destruct (In_aset _ _ _ _ _ I) as [[-> ->]|I']; [exact Pk|].
    rewrite Forall_forall in F. now apply F.
  Qed.

  Lemma amem_aset m k v k' : amem k' (aset k v m) = (k' =? k) || amem k' m.
  Proof.
    unfold amem. destruct (Z.eqb_spec k' k) as [->|N].
    - now rewrite aget_aset_eq.
    - now rewrite aget_aset_neq.
  Qed.
End AssocLemmas.

(* ------------------------------------------------------------------ Part 1: shapes, any state *)
Section Shape.
  Variable c : cfg.
  Variable mut : Z -> mres.
  Variable rep : Z -> Z.

  Definition marker_at (t : Z) (x : app) : Prop := a_val x = VStale /\ a_t x = t.

  Lemma base_append_apps s r l t v s' rout :
    base_append c s r l t v = (s', rout) ->
    l_apps s' = mkApp r l t v rout :: l_apps s /\ l_cache s' = l_cache s /\
    l_total s' = l_total s /\ l_added s' = l_added s /\ l_sadded s' = l_sadded s /\
    l_limit_err s' = l_limit_err s /\ l_i s' = l_i s /\
    st_append c (l_store s) r l t = (l_store s', rout).
  Proof.
    unfold base_append. destruct (st_append c (l_store s) r l t) as [st' ro] eqn:E.
    intros [= <- <-]. cbn. repeat split; reflexivity.
  Qed.

  Lemma limited_append_apps s r l t v s' rout err :
    limited_append c s r l t v = (s', rout, err) ->
    l_cache s' = l_cache s /\ l_total s' = l_total s /\ l_added s' = l_added s /\
    l_sadded s' = l_sadded s /\ l_limit_err s' = l_limit_err s /\
    ((err <> ENone /\ rout = 0 /\ (l_apps s' = l_apps s \/ l_apps s' = mkApp r l t v 0 :: l_apps s)) \/
     (err = ENone /\ rout <> 0 /\ l_apps s' = mkApp r l t v rout :: l_apps s /\
      st_append c (l_store s) r l t = (l_store s', rout) /\ t <= max_valid c)).
  Proof.
    unfold limited_append.
    set (count := (0 <? sample_limit c) && ((r =? 0) || negb (is_stale v))).
    set (i' := if count then l_i s + 1 else l_i s).
    destruct (count && (sample_limit c <? i')) eqn:E1.
    { intros [= <- <- <-]. cbn. repeat split; try reflexivity. left. repeat split; try discriminate; auto. }
    destruct (max_valid c <? t) eqn:E2.
    { intros [= <- <- <-]. cbn. repeat split; try reflexivity. left. repeat split; try discriminate; auto. }
    destruct (base_append c _ r l t v) as [s2 ro] eqn:E3.
    apply base_append_apps in E3. cbn in E3. destruct E3 as (A & B & C1 & C2 & C3 & C4 & C5 & C6).
    intros [= <- <- <-]. repeat split; auto.
    destruct (ro =? 0) eqn:E4.
    - apply Z.eqb_eq in E4. subst ro. left. repeat split; try discriminate; auto.
    - apply Z.eqb_neq in E4. right. apply Z.ltb_ge in E2. repeat split; auto.
  Qed.

  Lemma stale_appends_apps limited t l : forall s s' ok,
    stale_appends c limited t s l = (s', ok) ->
    exists new, l_apps s' = new ++ l_apps s /\ Forall (marker_at t) new /\
                l_cache s' = l_cache s /\ l_total s' = l_total s /\ l_added s' = l_added s /\
                l_sadded s' = l_sadded s.
  Proof.
    induction l as [|[r ls] rest IH]; intros s s' ok; cbn [stale_appends].
    - intros [= <- <-]. exists []. repeat split; auto.
    - destruct limited.
      + destruct (limited_append c s r ls t VStale) as [[s1 ro] err] eqn:E.
        apply limited_append_apps in E. destruct E as (A1 & A2 & A3 & A4 & A5 & A6).
        assert (HS : exists n1, l_apps s1 = n1 ++ l_apps s /\ Forall (marker_at t) n1).
        { destruct A6 as [(_ & _ & [H|H])|(_ & _ & H & _)].
          - exists []. split; auto.
          - exists [mkApp r ls t VStale 0]. split; auto. constructor; [split; reflexivity|constructor].
          - exists [mkApp r ls t VStale ro]. split; auto. constructor; [split; reflexivity|constructor]. }
        destruct HS as (n1 & HA & HF).
        destruct err.
        * intros H. apply IH in H. destruct H as (n2 & B1 & B2 & B3 & B4 & B5 & B6).
          exists (n2 ++ n1). rewrite B1, HA, app_assoc. repeat split; try congruence.
          apply Forall_app; split; auto.
        * intros [= <- <-]. exists n1. repeat split; auto.
        * intros [= <- <-]. exists n1. repeat split; auto.
      + destruct (base_append c s r ls t VStale) as [s1 ro] eqn:E.
        apply base_append_apps in E. destruct E as (A & B & C1 & C2 & C3 & C4 & C5 & C6).
        destruct (negb (ro =? 0)).
        * intros H. apply IH in H. destruct H as (n2 & B1 & B2 & B3 & B4 & B5 & B6).
          exists (n2 ++ [mkApp r ls t VStale ro]). rewrite B1, A, <- app_assoc. repeat split; try congruence.
          apply Forall_app; split; auto. constructor; [split; reflexivity|constructor].
        * intros [= <- <-]. exists [mkApp r ls t VStale ro]. repeat split; auto.
          constructor; [split; reflexivity|constructor].
  Qed.

  (* report appends: values are a prefix of the requested values, all at time t *)
  Lemma add_report_apps s idx t v s' ok :
    add_report c rep s idx t v = (s', ok) ->
    exists x, l_apps s' = x :: l_apps s /\ a_val x = v /\ a_t x = t /\
              (ok = true -> a_rout x <> 0).
  Proof.
    unfold add_report.
    destruct (cache_get (l_cache s) (- (idx + 1))) as [ca1 g] eqn:E1.
    destruct (match g with Some (eid, _) => _ | None => _ end) as [r ls] eqn:E2.
    destruct (base_append c (with_cache s ca1) r ls t v) as [s1 ro] eqn:E3.
    apply base_append_apps in E3. destruct E3 as (A & _).
    destruct (ro =? 0) eqn:E4.
    - intros [= <- <-]. eexists. split; [exact A|]. cbn. repeat split; auto. discriminate.
    - apply Z.eqb_neq in E4. destruct g as [p|]; intros [= <- <-].
      + eexists. split; [exact A|]. cbn. repeat split; auto.
      + eexists. cbn. split; [exact A|]. cbn. repeat split; auto.
  Qed.

  Lemma add_reports_apps t vals : forall s s' ok,
    add_reports c rep s t vals = (s', ok) ->
    exists new, l_apps s' = rev new ++ l_apps s /\
                map a_val new = firstn (length new) (map snd vals) /\
                Forall (fun x => a_t x = t) new /\
                (ok = true -> length new = length vals /\ Forall (fun x => a_rout x <> 0) new).
  Proof.
    induction vals as [|[idx v] rest IH]; intros s s' ok; cbn [add_reports].
    - intros [= <- <-]. exists []. cbn. repeat split; auto.
    - destruct (add_report c rep s idx t v) as [s1 ok1] eqn:E.
      apply add_report_apps in E. destruct E as (x & A & B & C1 & C2).
      destruct ok1.
      + intros H. apply IH in H. destruct H as (n2 & D1 & D2 & D3 & D4).
        exists (x :: n2). cbn. rewrite D1, A, <- app_assoc. cbn. repeat split.
        * now rewrite B, D2.
        * constructor; auto.
        * destruct (D4 H) as [L F]. now rewrite L.
        * destruct (D4 H) as [L F]. constructor; auto.
      + intros [= <- <-]. exists [x]. cbn. rewrite A, B. repeat split; auto; discriminate.
  Qed.

  Definition last_batch_shape (t : Z) (vals : list (Z * val)) (bs : list batch) : Prop :=
    exists pre last markers reps,
      bs = pre ++ [last] /\ Forall (fun b => b_commit b = false) pre /\
      b_apps last = markers ++ reps /\
      Forall (marker_at t) markers /\
      Forall (fun x => a_t x = t) reps /\
      map a_val reps = firstn (length reps) (map snd vals) /\
      (b_commit last = true -> length reps = length vals /\ Forall (fun x => a_rout x <> 0) reps).

  Lemma finish_shape t ca st vals ca' st' bs :
    finish c rep t ca st vals = (ca', st', bs) -> last_batch_shape t vals bs.
  Proof.
    unfold finish, append_empty.
    destruct (stale_appends c false t (fresh ca st) (stale_list (l_cache (fresh ca st)))) as [s1 ok1] eqn:E1.
    apply stale_appends_apps in E1. destruct E1 as (mk & A1 & A2 & _).
    cbn [l_apps fresh] in A1. rewrite app_nil_r in A1.
    destruct ok1.
    - destruct (add_reports c rep _ t vals) as [s3 ok3] eqn:E3.
      apply add_reports_apps in E3. destruct E3 as (new & B1 & B2 & B3 & B4).
      cbn [l_apps with_cache] in B1. rewrite A1 in B1.
      intros [= <- <- <-]. exists [], (batch_of ok3 s3), (rev mk), new. cbn.
      repeat split; auto.
      + unfold batch_of. cbn. now rewrite B1, rev_app_distr, rev_involutive.
      + apply Forall_rev. exact A2.
      + now apply B4.
      + now apply B4.
    - destruct (add_reports c rep _ t vals) as [s3 ok3] eqn:E3.
      apply add_reports_apps in E3. destruct E3 as (new & B1 & B2 & B3 & B4).
      cbn [l_apps fresh] in B1. rewrite app_nil_r in B1.
      intros [= <- <- <-]. eexists [_], (batch_of ok3 s3), [], new. cbn.
      repeat split; auto.
      + unfold batch_of. cbn. now rewrite B1, rev_involutive.
      + now apply B4.
      + now apply B4.
  Qed.

  (* the step fails: a scrape error, or scrapeLoop.append returned an error *)
  Definition step_failed (S : cache * store) (sp : step) : Prop :=
    match st_out sp with
    | OFail _ => True
    | OGone => False
    | OBody es bad len =>
        len <> 0 /\
        snd (append_body c mut (st_time sp) (fst S) (st_gc_apply (snd S) (st_gc sp)) es bad) = false
    end.

  Lemma failed_step_shape S sp S' bs :
    do_step c mut rep S sp = (S', bs) -> step_failed S sp ->
    exists total added sadded bytes,
      last_batch_shape (st_time sp) (report_vals c 0 total added sadded bytes) bs.
  Proof.
    unfold do_step, step_failed. destruct S as [ca st0]. cbn [fst snd].
    destruct (st_out sp) as [es bad len|bsz|].
    - intros H [Hl Hf]. apply Z.eqb_neq in Hl. rewrite Hl in H.
      destruct (append_body c mut (st_time sp) ca (st_gc_apply st0 (st_gc sp)) es bad) as [s1 ok] eqn:E.
      cbn in Hf. subst ok.
      destruct (finish c rep (st_time sp) (l_cache s1) (l_store s1) _) as [[ca' st'] bs'] eqn:F.
      apply finish_shape in F. injection H as <- <-.
      exists (l_total s1), (l_added s1), (l_sadded s1), len.
      destruct F as (pre & last & mk & reps & F1 & F2 & F3).
      exists (batch_of false s1 :: pre), last, mk, reps. rewrite F1. split; [reflexivity|].
      split; [constructor; auto|exact F3].
    - intros H _.
      destruct (finish c rep (st_time sp) ca _ _) as [[ca' st'] bs'] eqn:F.
      apply finish_shape in F. injection H as <- <-. do 4 eexists. exact F.
    - intros _ [].
  Qed.
End Shape.

(* ------------------------------------------------------------------ Part 2: histories without reference changes *)
Definition memb (x : Z) (l : list Z) : bool := existsb (Z.eqb x) l.
Lemma memb_In x l : memb x l = true <-> In x l.
Proof.
  unfold memb. rewrite existsb_exists. split.
  - intros (y & I & E). apply Z.eqb_eq in E. now subst.
  - intros I. exists x. split; auto. apply Z.eqb_refl.
Qed.

(* the reference the recording storage gives label set l while it never forgets a series *)
Definition R (l : Z) : Z := l * ref_base + 1.
Lemma R_inj l1 l2 : R l1 = R l2 -> l1 = l2.
Proof. unfold R, ref_base. lia. Qed.
Lemma R_nz l : R l <> 0.
Proof. unfold R, ref_base. lia. Qed.
Lemma R_div l : R l / ref_base = l.
Proof. unfold R, ref_base. rewrite Z.div_add_l by lia. cbn. lia. Qed.

Definition store_ok (st : store) : Prop :=
  (forall l r, aget l (s_live st) = Some r -> r = R l) /\
  (forall l g, aget l (s_gen st) = Some g -> aget l (s_live st) <> None).

Definition live_le (st st' : store) : Prop :=
  forall l x, aget l (s_live st) = Some x -> aget l (s_live st') = Some x.

Lemma st_append_ok (c : cfg) st r l t :
  store_ok st -> min_valid c <= t ->
  (r = 0 \/ (r = R l /\ aget l (s_live st) = Some r)) ->
  exists st', st_append c st r l t = (st', R l) /\ store_ok st' /\
              aget l (s_live st') = Some (R l) /\ live_le st st'.
Proof.
  intros [SO1 SO2] Ht Hr. unfold st_append.
  destruct (t <? min_valid c) eqn:E; [apply Z.ltb_lt in E; lia|].
  destruct Hr as [->|[-> HL]].
  - cbn [Z.eqb negb andb].
    destruct (aget l (s_live st)) as [r'|] eqn:EL.
    + exists st. rewrite (SO1 _ _ EL) in *. repeat split; auto; try (intros ? ? H; exact H).
    + destruct (aget l (s_gen st)) as [g|] eqn:EG.
      { exfalso. apply (SO2 _ _ EG). exact EL. }
      eexists. split; [reflexivity|]. cbn [s_live s_gen].
      assert (E1 : l * ref_base + 1 = R l) by reflexivity. rewrite E1.
      split; [split|split].
      * intros l0 r0. destruct (Z.eq_dec l0 l) as [->|N].
        -- rewrite aget_aset_eq. now intros [= <-].
        -- rewrite aget_aset_neq by auto. apply SO1.
      * intros l0 g0. destruct (Z.eq_dec l0 l) as [->|N].
        -- rewrite aget_aset_eq. discriminate.
        -- rewrite !aget_aset_neq by auto. apply SO2.
      * apply aget_aset_eq.
      * intros l0 x H. destruct (Z.eq_dec l0 l) as [->|N]; [congruence|].
        now rewrite aget_aset_neq.
  - destruct (R l =? 0) eqn:E0; [apply Z.eqb_eq in E0; now apply R_nz in E0|].
    cbn [negb andb]. rewrite R_div, HL, Z.eqb_refl.
    exists st. repeat split; auto; try (intros ? ? H; exact H).
Qed.

Definition heap_le (h h' : list (Z * entry)) : Prop :=
  forall eid e, aget eid h = Some e ->
    exists e', aget eid h' = Some e' /\ e_ref e' = e_ref e /\ e_lset e' = e_lset e.

Lemma heap_le_refl h : heap_le h h.
Proof. intros eid e H. eauto. Qed.
Lemma heap_le_trans h1 h2 h3 : heap_le h1 h2 -> heap_le h2 h3 -> heap_le h1 h3.
Proof.
  intros A B eid e H. destruct (A _ _ H) as (e' & H' & E1 & E2).
  destruct (B _ _ H') as (e'' & H'' & E3 & E4). exists e''. repeat split; congruence.
Qed.

Section NoGC.
  Variable c : cfg.
  Variable mut : Z -> mres.
  Variable rep : Z -> Z.

  Definition tracked_pairs (h : list (Z * entry)) (m : list (Z * Z)) : Prop :=
    Forall (fun p : Z * Z => exists e, aget (snd p) h = Some e /\ e_ref e = fst p) m.

  Record cache_wf (ca : cache) (st : store) : Prop := mkWf {
    wf_series : forall met eid, aget met (c_series ca) = Some eid ->
                  exists e, aget eid (c_heap ca) = Some e;
    wf_inj : forall m1 m2 eid, aget m1 (c_series ca) = Some eid -> aget m2 (c_series ca) = Some eid -> m1 = m2;
    wf_heap : forall eid e, aget eid (c_heap ca) = Some e ->
                eid < c_next ca /\ e_ref e = R (e_lset e) /\ aget (e_lset e) (s_live st) = Some (e_ref e);
    wf_keep : forall met eid e, 0 <= met -> aget met (c_series ca) = Some eid ->
                aget eid (c_heap ca) = Some e -> mut met = MKeep (e_lset e) /\ e_last e <= c_iter ca;
    wf_drop : forall met it, 0 <= met -> aget met (c_dropped ca) = Some it -> mut met = MDrop;
    wf_cur : tracked_pairs (c_heap ca) (c_cur ca);
    wf_prev : tracked_pairs (c_heap ca) (c_prev ca)
  }.

  Lemma tracked_pairs_le h h' m : heap_le h h' -> tracked_pairs h m -> tracked_pairs h' m.
  Proof.
    intros L F. unfold tracked_pairs in *. rewrite Forall_forall in *. intros p I.
    destruct (F p I) as (e & H & E). destruct (L _ _ H) as (e' & H' & E1 & E2).
    exists e'. split; congruence.
  Qed.

  Lemma wf_store_mono ca st st' : cache_wf ca st -> live_le st st' -> cache_wf ca st'.
  Proof.
    intros W L. destruct W. constructor; auto.
    intros eid e H. destruct (wf_heap0 _ _ H) as (A & B & C). repeat split; auto.
  Qed.

  (* touching an entry's lastIter *)
  Lemma heap_le_touch h eid e it :
    aget eid h = Some e -> heap_le h (aset eid (mkEntry (e_ref e) (e_lset e) it) h).
  Proof.
    intros H eid' e' H'. destruct (Z.eq_dec eid' eid) as [->|N].
    - rewrite aget_aset_eq. eexists. split; [reflexivity|]. cbn. split; congruence.
    - rewrite aget_aset_neq by auto. eauto.
  Qed.

  Lemma wf_touch ca st eid e it :
    cache_wf ca st -> aget eid (c_heap ca) = Some e -> it <= c_iter ca ->
    cache_wf (set_heap ca (aset eid (mkEntry (e_ref e) (e_lset e) it) (c_heap ca))) st.
  Proof.
    intros W H Hit. pose proof (heap_le_touch _ _ _ it H) as HL. destruct W.
    constructor; cbn [c_series c_heap c_next c_iter c_dropped c_cur c_prev set_heap]; auto.
    - intros met eid' Hs. destruct (wf_series0 _ _ Hs) as (e' & He'). destruct (HL _ _ He') as (e'' & ? & _). eauto.
    - intros eid' e'. destruct (Z.eq_dec eid' eid) as [->|N].
      + rewrite aget_aset_eq. intros [= <-]. cbn. apply (wf_heap0 _ _ H).
      + rewrite aget_aset_neq by auto. apply wf_heap0.
    - intros met eid' e' Hm Hs. destruct (Z.eq_dec eid' eid) as [->|N].
      + rewrite aget_aset_eq. intros [= <-]. cbn. destruct (wf_keep0 _ _ _ Hm Hs H). split; auto.
      + rewrite aget_aset_neq by auto. now apply wf_keep0.
    - eapply tracked_pairs_le; eauto.
    - eapply tracked_pairs_le; eauto.
  Qed.

  Lemma wf_set_dropped ca st met it :
    cache_wf ca st -> (0 <= met -> mut met = MDrop) ->
    cache_wf (set_dropped ca (aset met it (c_dropped ca))) st.
  Proof.
    intros W Hd. destruct W. constructor; cbn; auto.
    intros met' it' Hm. destruct (Z.eq_dec met' met) as [->|N].
    - intros _. now apply Hd.
    - rewrite aget_aset_neq by auto. now apply wf_drop0.
  Qed.

  Lemma wf_track ca st r eid e :
    cache_wf ca st -> aget eid (c_heap ca) = Some e -> e_ref e = r ->
    cache_wf (track ca r eid) st.
  Proof.
    intros W H E. destruct W. constructor; cbn; auto.
    apply Forall_aset; auto. cbn. eauto.
  Qed.

  Lemma wf_add_ref ca st met l it :
    cache_wf ca st -> aget met (c_series ca) = None ->
    (0 <= met -> mut met = MKeep l) -> aget l (s_live st) = Some (R l) -> c_iter ca = it ->
    cache_wf (fst (add_ref ca met (R l) l)) st /\
    heap_le (c_heap ca) (c_heap (fst (add_ref ca met (R l) l))) /\
    aget (c_next ca) (c_heap (fst (add_ref ca met (R l) l))) = Some (mkEntry (R l) l it) /\
    aget (c_next ca) (c_heap ca) = None.
  Proof.
    intros W Hn Hk Hl Hit. destruct W. unfold add_ref. cbn [fst].
    assert (Hfresh : aget (c_next ca) (c_heap ca) = None).
    { destruct (aget (c_next ca) (c_heap ca)) eqn:E; auto. destruct (wf_heap0 _ _ E). lia. }
    assert (HL : heap_le (c_heap ca) (aset (c_next ca) (mkEntry (R l) l (c_iter ca)) (c_heap ca))).
    { intros eid e H. destruct (Z.eq_dec eid (c_next ca)) as [->|N]; [congruence|].
      rewrite aget_aset_neq by auto. eauto. }
    split; [|split; [exact HL|split; [|exact Hfresh]]].
    2:{ cbn. rewrite aget_aset_eq. now rewrite Hit. }
    constructor; cbn [c_series c_heap c_next c_iter c_dropped c_cur c_prev].
    - intros met' eid. destruct (Z.eq_dec met' met) as [->|N].
      + rewrite aget_aset_eq. intros [= <-]. rewrite aget_aset_eq. eauto.
      + rewrite aget_aset_neq by auto. intros Hs. destruct (wf_series0 _ _ Hs) as (e & He).
        destruct (HL _ _ He) as (e' & ? & _). eauto.
    - intros m1 m2 eid.
      destruct (Z.eq_dec m1 met) as [->|N1], (Z.eq_dec m2 met) as [->|N2]; auto.
      + rewrite aget_aset_eq, aget_aset_neq by auto. intros [= <-] H2.
        destruct (wf_series0 _ _ H2) as (e & He). congruence.
      + rewrite aget_aset_eq, aget_aset_neq by auto. intros H1 [= <-].
        destruct (wf_series0 _ _ H1) as (e & He). congruence.
      + rewrite !aget_aset_neq by auto. apply wf_inj0.
    - intros eid e. destruct (Z.eq_dec eid (c_next ca)) as [->|N].
      + rewrite aget_aset_eq. intros [= <-]. cbn. repeat split; auto. lia.
      + rewrite aget_aset_neq by auto. intros H. destruct (wf_heap0 _ _ H) as (A & B & C0).
        repeat split; auto. lia.
    - intros met' eid e Hm. destruct (Z.eq_dec met' met) as [->|N].
      + rewrite aget_aset_eq. intros [= <-]. rewrite aget_aset_eq. intros [= <-]. cbn.
        split; [now apply Hk|lia].
      + rewrite aget_aset_neq by auto. intros Hs.
        destruct (wf_series0 _ _ Hs) as (e0 & He0).
        assert (eid <> c_next ca) by congruence.
        rewrite aget_aset_neq by auto. now apply wf_keep0.
    - exact wf_drop0.
    - eapply tracked_pairs_le; eauto.
    - eapply tracked_pairs_le; eauto.
  Qed.
End NoGC.

(* proof/ScrapeProofs.v — proofs about model/Scrape.v (the scrape loop of one target).

   Part 1 (any state): shape of what a step hands to the storage — a failed scrape commits
           nothing but staleness markers and its report; markers carry the scrape time.
   Part 2 (histories without reference changes): the cache invariant, and the simulation of
           scrapeLoop.append by a body-only reference semantics ([abs_entry]): appended samples,
           tracked label sets, staleness markers, report values.
   Part 3: the refutation of "a body that fails after samples were appended is treated like a
           failed scrape for staleness". *)
From Coq Require Import List ZArith Bool Lia.
From Verif Require Import model.Scrape.
Import ListNotations.
Open Scope Z_scope.

(* ------------------------------------------------------------------ association lists *)
Section AssocLemmas.
  Context {V : Type}.
  Implicit Types (m : list (Z * V)) (k : Z) (v : V).

  Lemma aget_aset_eq m k v : aget k (aset k v m) = Some v.
  Proof.
    induction m as [|[k' v'] r IH]; cbn.
    - now rewrite Z.eqb_refl.
    - destruct (k' =? k) eqn:E; cbn; [now rewrite Z.eqb_refl | now rewrite E].
  Qed.

  Lemma aget_aset_neq m k k' v : k' <> k -> aget k' (aset k v m) = aget k' m.
  Proof.
    intros N. induction m as [|[k1 v1] r IH]; cbn.
    - destruct (k =? k') eqn:E; [apply Z.eqb_eq in E; congruence | reflexivity].
    - destruct (k1 =? k) eqn:E; cbn.
      + apply Z.eqb_eq in E. subst k1.
        destruct (k =? k') eqn:E2; [apply Z.eqb_eq in E2; congruence | reflexivity].
      + destruct (k1 =? k'); [reflexivity | exact IH].
  Qed.

  Lemma aget_In m k v : aget k m = Some v -> In (k, v) m.
  Proof.
    induction m as [|[k1 v1] r IH]; cbn; [discriminate|].
    destruct (k1 =? k) eqn:E.
    - apply Z.eqb_eq in E. intros [= ->]. subst. now left.
    - intros H. right. now apply IH.
  Qed.

  Lemma In_amem m k v : In (k, v) m -> amem k m = true.
  Proof.
    unfold amem. induction m as [|[k1 v1] r IH]; cbn; [tauto|].
    intros [[= -> ->]|H].
    - now rewrite Z.eqb_refl.
    - destruct (k1 =? k); [reflexivity | now apply IH].
  Qed.

  Lemma amem_In m k : amem k m = true -> exists v, In (k, v) m.
  Proof.
    unfold amem. destruct (aget k m) eqn:E; [|discriminate]. intros _. eexists. eapply aget_In; eauto.
  Qed.

  Lemma In_aset m k v k1 v1 : In (k1, v1) (aset k v m) -> (k1 = k /\ v1 = v) \/ In (k1, v1) m.
  Proof.
    induction m as [|[k2 v2] r IH]; cbn.
    - intros [[= <- <-]|[]]. now left.
    - destruct (k2 =? k) eqn:E; cbn.
      + intros [[= <- <-]|H]; [now left | right; now right].
      + intros [H|H]; [right; now left|]. destruct (IH H) as [?|?]; [now left | right; now right].
  Qed.

  Lemma Forall_aset (P : Z * V -> Prop) m k v : Forall P m -> P (k, v) -> Forall P (aset k v m).
  Proof.
    intros F Pk. apply Forall_forall. intros [k1 v1] I.
    destruct (In_aset _ _ _ _ _ I) as [[-> ->]|I']; [exact Pk|].
    rewrite Forall_forall in F. now apply F.
  Qed.

  Lemma amem_aset m k v k' : amem k' (aset k v m) = (k' =? k) || amem k' m.
  Proof.
    unfold amem. destruct (Z.eqb_spec k' k) as [->|N].
    - now rewrite aget_aset_eq.
    - now rewrite aget_aset_neq.
  Qed.
End AssocLemmas.

(* ------------------------------------------------------------------ Part 1: shapes, any state *)
Section Shape.
  Variable c : cfg.
  Variable mut : Z -> mres.
  Variable rep : Z -> Z.

  Definition marker_at (t : Z) (x : app) : Prop := a_val x = VStale /\ a_t x = t.

  Lemma base_append_apps s r l t v s' rout :
    base_append c s r l t v = (s', rout) ->
    l_apps s' = mkApp r l t v rout :: l_apps s /\ l_cache s' = l_cache s /\
    l_total s' = l_total s /\ l_added s' = l_added s /\ l_sadded s' = l_sadded s /\
    l_limit_err s' = l_limit_err s /\ l_i s' = l_i s /\
    st_append c (l_store s) r l t = (l_store s', rout).
  Proof.
    unfold base_append. destruct (st_append c (l_store s) r l t) as [st' ro] eqn:E.
    intros [= <- <-]. cbn. repeat split; reflexivity.
  Qed.

  Lemma limited_append_apps s r l t v s' rout err :
    limited_append c s r l t v = (s', rout, err) ->
    l_cache s' = l_cache s /\ l_total s' = l_total s /\ l_added s' = l_added s /\
    l_sadded s' = l_sadded s /\ l_limit_err s' = l_limit_err s /\
    ((err <> ENone /\ rout = 0 /\ (l_apps s' = l_apps s \/ l_apps s' = mkApp r l t v 0 :: l_apps s)) \/
     (err = ENone /\ rout <> 0 /\ l_apps s' = mkApp r l t v rout :: l_apps s /\
      st_append c (l_store s) r l t = (l_store s', rout) /\ t <= max_valid c)).
  Proof.
    unfold limited_append.
    set (count := (0 <? sample_limit c) && ((r =? 0) || negb (is_stale v))).
    set (i' := if count then l_i s + 1 else l_i s).
    destruct (count && (sample_limit c <? i')) eqn:E1.
    { intros [= <- <- <-]. cbn. repeat split; try reflexivity. left. repeat split; try discriminate; auto. }
    destruct (max_valid c <? t) eqn:E2.
    { intros [= <- <- <-]. cbn. repeat split; try reflexivity. left. repeat split; try discriminate; auto. }
    destruct (base_append c _ r l t v) as [s2 ro] eqn:E3.
    apply base_append_apps in E3. cbn in E3. destruct E3 as (A & B & C1 & C2 & C3 & C4 & C5 & C6).
    intros [= <- <- <-]. repeat split; auto.
    destruct (ro =? 0) eqn:E4.
    - apply Z.eqb_eq in E4. subst ro. left. repeat split; try discriminate; auto.
    - apply Z.eqb_neq in E4. right. apply Z.ltb_ge in E2. repeat split; auto.
  Qed.

  Lemma stale_appends_apps limited t l : forall s s' ok,
    stale_appends c limited t s l = (s', ok) ->
    exists new, l_apps s' = new ++ l_apps s /\ Forall (marker_at t) new /\
                l_cache s' = l_cache s /\ l_total s' = l_total s /\ l_added s' = l_added s /\
                l_sadded s' = l_sadded s.
  Proof.
    induction l as [|[r ls] rest IH]; intros s s' ok; cbn [stale_appends].
    - intros [= <- <-]. exists []. repeat split; auto.
    - destruct limited.
      + destruct (limited_append c s r ls t VStale) as [[s1 ro] err] eqn:E.
        apply limited_append_apps in E. destruct E as (A1 & A2 & A3 & A4 & A5 & A6).
        assert (HS : exists n1, l_apps s1 = n1 ++ l_apps s /\ Forall (marker_at t) n1).
        { destruct A6 as [(_ & _ & [H|H])|(_ & _ & H & _)].
          - exists []. split; auto.
          - exists [mkApp r ls t VStale 0]. split; auto. constructor; [split; reflexivity|constructor].
          - exists [mkApp r ls t VStale ro]. split; auto. constructor; [split; reflexivity|constructor]. }
        destruct HS as (n1 & HA & HF).
        destruct err.
        * intros H. apply IH in H. destruct H as (n2 & B1 & B2 & B3 & B4 & B5 & B6).
          exists (n2 ++ n1). rewrite B1, HA, app_assoc. repeat split; try congruence.
          apply Forall_app; split; auto.
        * intros [= <- <-]. exists n1. repeat split; auto.
        * intros [= <- <-]. exists n1. repeat split; auto.
      + destruct (base_append c s r ls t VStale) as [s1 ro] eqn:E.
        apply base_append_apps in E. destruct E as (A & B & C1 & C2 & C3 & C4 & C5 & C6).
        destruct (negb (ro =? 0)).
        * intros H. apply IH in H. destruct H as (n2 & B1 & B2 & B3 & B4 & B5 & B6).
          exists (n2 ++ [mkApp r ls t VStale ro]). rewrite B1, A, <- app_assoc. repeat split; try congruence.
          apply Forall_app; split; auto. constructor; [split; reflexivity|constructor].
        * intros [= <- <-]. exists [mkApp r ls t VStale ro]. repeat split; auto.
          constructor; [split; reflexivity|constructor].
  Qed.

  (* report appends: values are a prefix of the requested values, all at time t *)
  Lemma add_report_apps s idx t v s' ok :
    add_report c rep s idx t v = (s', ok) ->
    exists x, l_apps s' = x :: l_apps s /\ a_val x = v /\ a_t x = t /\
              (ok = true -> a_rout x <> 0).
  Proof.
    unfold add_report.
    destruct (cache_get (l_cache s) (- (idx + 1))) as [ca1 g] eqn:E1.
    destruct (match g with Some (eid, _) => _ | None => _ end) as [r ls] eqn:E2.
    destruct (base_append c (with_cache s ca1) r ls t v) as [s1 ro] eqn:E3.
    apply base_append_apps in E3. destruct E3 as (A & _).
    destruct (ro =? 0) eqn:E4.
    - intros [= <- <-]. eexists. split; [exact A|]. cbn. repeat split; auto. discriminate.
    - apply Z.eqb_neq in E4. destruct g as [p|]; intros [= <- <-].
      + eexists. split; [exact A|]. cbn. repeat split; auto.
      + eexists. cbn. split; [exact A|]. cbn. repeat split; auto.
  Qed.

  Lemma add_reports_apps t vals : forall s s' ok,
    add_reports c rep s t vals = (s', ok) ->
    exists new, l_apps s' = rev new ++ l_apps s /\
                map a_val new = firstn (length new) (map snd vals) /\
                Forall (fun x => a_t x = t) new /\
                (ok = true -> length new = length vals /\ Forall (fun x => a_rout x <> 0) new).
  Proof.
    induction vals as [|[idx v] rest IH]; intros s s' ok; cbn [add_reports].
    - intros [= <- <-]. exists []. cbn. repeat split; auto.
    - destruct (add_report c rep s idx t v) as [s1 ok1] eqn:E.
      apply add_report_apps in E. destruct E as (x & A & B & C1 & C2).
      destruct ok1.
      + intros H. apply IH in H. destruct H as (n2 & D1 & D2 & D3 & D4).
        exists (x :: n2). cbn. rewrite D1, A, <- app_assoc. cbn. repeat split.
        * now rewrite B, D2.
        * constructor; auto.
        * destruct (D4 H) as [L F]. now rewrite L.
        * destruct (D4 H) as [L F]. constructor; auto.
      + intros [= <- <-]. exists [x]. cbn. rewrite A, B. repeat split; auto; discriminate.
  Qed.

  Definition last_batch_shape (t : Z) (vals : list (Z * val)) (bs : list batch) : Prop :=
    exists pre last markers reps,
      bs = pre ++ [last] /\ Forall (fun b => b_commit b = false) pre /\
      b_apps last = markers ++ reps /\
      Forall (marker_at t) markers /\
      Forall (fun x => a_t x = t) reps /\
      map a_val reps = firstn (length reps) (map snd vals) /\
      (b_commit last = true -> length reps = length vals /\ Forall (fun x => a_rout x <> 0) reps).

  Lemma finish_shape t ca st vals ca' st' bs :
    finish c rep t ca st vals = (ca', st', bs) -> last_batch_shape t vals bs.
  Proof.
    unfold finish, append_empty.
    destruct (stale_appends c false t (fresh ca st) (stale_list (l_cache (fresh ca st)))) as [s1 ok1] eqn:E1.
    apply stale_appends_apps in E1. destruct E1 as (mk & A1 & A2 & _).
    cbn [l_apps fresh] in A1. rewrite app_nil_r in A1.
    destruct ok1.
    - destruct (add_reports c rep _ t vals) as [s3 ok3] eqn:E3.
      apply add_reports_apps in E3. destruct E3 as (new & B1 & B2 & B3 & B4).
      cbn [l_apps with_cache] in B1. rewrite A1 in B1.
      intros [= <- <- <-]. exists [], (batch_of ok3 s3), (rev mk), new. cbn.
      repeat split; auto.
      + unfold batch_of. cbn. now rewrite B1, rev_app_distr, rev_involutive.
      + apply Forall_rev. exact A2.
      + now apply B4.
      + now apply B4.
    - destruct (add_reports c rep _ t vals) as [s3 ok3] eqn:E3.
      apply add_reports_apps in E3. destruct E3 as (new & B1 & B2 & B3 & B4).
      cbn [l_apps fresh] in B1. rewrite app_nil_r in B1.
      intros [= <- <- <-]. eexists [_], (batch_of ok3 s3), [], new. cbn.
      repeat split; auto.
      + unfold batch_of. cbn. now rewrite B1, rev_involutive.
      + now apply B4.
      + now apply B4.
  Qed.

  (* the step fails: a scrape error, or scrapeLoop.append returned an error *)
  Definition step_failed (S : cache * store) (sp : step) : Prop :=
    match st_out sp with
    | OFail _ => True
    | OGone => False
    | OBody es bad len =>
        len <> 0 /\
        snd (append_body c mut (st_time sp) (fst S) (st_gc_apply (snd S) (st_gc sp)) es bad) = false
    end.

  Lemma failed_step_shape S sp S' bs :
    do_step c mut rep S sp = (S', bs) -> step_failed S sp ->
    exists total added sadded bytes,
      last_batch_shape (st_time sp) (report_vals c 0 total added sadded bytes) bs.
  Proof.
    unfold do_step, step_failed. destruct S as [ca st0]. cbn [fst snd].
    destruct (st_out sp) as [es bad len|bsz|].
    - intros H [Hl Hf]. apply Z.eqb_neq in Hl. rewrite Hl in H.
      destruct (append_body c mut (st_time sp) ca (st_gc_apply st0 (st_gc sp)) es bad) as [s1 ok] eqn:E.
      cbn in Hf. subst ok.
      destruct (finish c rep (st_time sp) (l_cache s1) (l_store s1) _) as [[ca' st'] bs'] eqn:F.
      apply finish_shape in F. injection H as <- <-.
      exists (l_total s1), (l_added s1), (l_sadded s1), len.
      destruct F as (pre & last & mk & reps & F1 & F2 & F3).
      exists (batch_of false s1 :: pre), last, mk, reps. rewrite F1. split; [reflexivity|].
      split; [constructor; auto|exact F3].
    - intros H _.
      destruct (finish c rep (st_time sp) ca _ _) as [[ca' st'] bs'] eqn:F.
      apply finish_shape in F. injection H as <- <-. do 4 eexists. exact F.
    - intros _ [].
  Qed.
End Shape.

(* ------------------------------------------------------------------ Part 2: histories without reference changes *)
Definition memb (x : Z) (l : list Z) : bool := existsb (Z.eqb x) l.
Lemma memb_In x l : memb x l = true <-> In x l.
Proof.
  unfold memb. rewrite existsb_exists. split.
  - intros (y & I & E). apply Z.eqb_eq in E. now subst.
  - intros I. exists x. split; auto. apply Z.eqb_refl.
Qed.

(* the reference the recording storage gives label set l while it never forgets a series *)
Definition R (l : Z) : Z := l * ref_base + 1.
Lemma R_inj l1 l2 : R l1 = R l2 -> l1 = l2.
Proof. unfold R, ref_base. lia. Qed.
Lemma R_nz l : R l <> 0.
Proof. unfold R, ref_base. lia. Qed.
Lemma R_div l : R l / ref_base = l.
Proof. unfold R, ref_base. rewrite Z.div_add_l by lia. cbn. lia. Qed.

Definition store_ok (st : store) : Prop :=
  (forall l r, aget l (s_live st) = Some r -> r = R l) /\
  (forall l g, aget l (s_gen st) = Some g -> aget l (s_live st) <> None).

Definition live_le (st st' : store) : Prop :=
  forall l x, aget l (s_live st) = Some x -> aget l (s_live st') = Some x.

Lemma st_append_ok (c : cfg) st r l t :
  store_ok st -> min_valid c <= t ->
  (r = 0 \/ (r = R l /\ aget l (s_live st) = Some r)) ->
  exists st', st_append c st r l t = (st', R l) /\ store_ok st' /\
              aget l (s_live st') = Some (R l) /\ live_le st st'.
Proof.
  intros [SO1 SO2] Ht Hr. unfold st_append.
  destruct (t <? min_valid c) eqn:E; [apply Z.ltb_lt in E; lia|].
  destruct Hr as [->|[-> HL]].
  - cbn [Z.eqb negb andb].
    destruct (aget l (s_live st)) as [r'|] eqn:EL.
    + exists st. pose proof (SO1 _ _ EL) as ->. repeat split; auto; try (intros ? ? H; exact H).
    + destruct (aget l (s_gen st)) as [g|] eqn:EG.
      { exfalso. apply (SO2 _ _ EG). exact EL. }
      eexists. split; [reflexivity|]. unfold store_ok, live_le. cbn [s_live s_gen].
      assert (E1 : l * ref_base + 1 = R l) by reflexivity. rewrite E1.
      split; [split|split].
      * intros l0 r0. destruct (Z.eq_dec l0 l) as [->|N].
        -- rewrite aget_aset_eq. now intros [= <-].
        -- rewrite aget_aset_neq by auto. apply SO1.
      * intros l0 g0. destruct (Z.eq_dec l0 l) as [->|N].
        -- rewrite !aget_aset_eq. intros _. discriminate.
        -- rewrite !aget_aset_neq by auto. apply SO2.
      * apply aget_aset_eq.
      * intros l0 x H. destruct (Z.eq_dec l0 l) as [->|N]; [congruence|].
        now rewrite aget_aset_neq.
  - destruct (R l =? 0) eqn:E0; [apply Z.eqb_eq in E0; now apply R_nz in E0|].
    cbn [negb andb]. rewrite R_div, HL, Z.eqb_refl.
    exists st. repeat split; auto; try (intros ? ? H; exact H).
Qed.

Definition heap_le (h h' : list (Z * entry)) : Prop :=
  forall eid e, aget eid h = Some e ->
    exists e', aget eid h' = Some e' /\ e_ref e' = e_ref e /\ e_lset e' = e_lset e.

Lemma heap_le_refl h : heap_le h h.
Proof. intros eid e H. eauto. Qed.
Lemma heap_le_trans h1 h2 h3 : heap_le h1 h2 -> heap_le h2 h3 -> heap_le h1 h3.
Proof.
  intros A B eid e H. destruct (A _ _ H) as (e' & H' & E1 & E2).
  destruct (B _ _ H') as (e'' & H'' & E3 & E4). exists e''. repeat split; congruence.
Qed.

Section NoGC.
  Variable c : cfg.
  Variable mut : Z -> mres.
  Variable rep : Z -> Z.

  (* the label set a cached metric text must carry: the relabeling result for an exposed
     text (met >= 0), the report series' label set for the report names (met = -(idx+1)) *)
  Definition exp_lset (met : Z) : option Z :=
    if 0 <=? met then match mut met with MKeep l => Some l | _ => None end
    else Some (rep (- met - 1)).

  Lemma exp_lset_nonneg met l : 0 <= met -> exp_lset met = Some l -> mut met = MKeep l.
  Proof.
    unfold exp_lset. intros H. apply Z.leb_le in H. rewrite H.
    destruct (mut met); congruence.
  Qed.

  Definition tracked_pairs (h : list (Z * entry)) (m : list (Z * Z)) : Prop :=
    Forall (fun p : Z * Z => exists e, aget (snd p) h = Some e /\ e_ref e = fst p) m.

  Record cache_wf (ca : cache) (st : store) : Prop := mkWf {
    wf_series : forall met eid, In (met, eid) (c_series ca) ->
                  exists e, aget eid (c_heap ca) = Some e;
    wf_inj : forall m1 m2 eid, In (m1, eid) (c_series ca) -> In (m2, eid) (c_series ca) -> m1 = m2;
    wf_heap : forall eid e, aget eid (c_heap ca) = Some e ->
                eid < c_next ca /\ e_ref e = R (e_lset e) /\ aget (e_lset e) (s_live st) = Some (e_ref e);
    wf_keep : forall met eid e, In (met, eid) (c_series ca) ->
                aget eid (c_heap ca) = Some e -> exp_lset met = Some (e_lset e) /\ e_last e <= c_iter ca;
    wf_drop : forall met it, 0 <= met -> In (met, it) (c_dropped ca) -> mut met = MDrop;
    wf_cur : tracked_pairs (c_heap ca) (c_cur ca);
    wf_prev : tracked_pairs (c_heap ca) (c_prev ca)
  }.

  Lemma wf_series_g ca st met eid : cache_wf ca st -> aget met (c_series ca) = Some eid ->
    exists e, aget eid (c_heap ca) = Some e.
  Proof. intros W H. eapply wf_series; eauto using aget_In. Qed.
  Lemma wf_inj_g ca st m1 m2 eid : cache_wf ca st ->
    aget m1 (c_series ca) = Some eid -> aget m2 (c_series ca) = Some eid -> m1 = m2.
  Proof. intros W H1 H2. eapply wf_inj; eauto using aget_In. Qed.
  Lemma wf_keep_g ca st met eid e : cache_wf ca st -> 0 <= met ->
    aget met (c_series ca) = Some eid -> aget eid (c_heap ca) = Some e ->
    mut met = MKeep (e_lset e) /\ e_last e <= c_iter ca.
  Proof.
    intros W Hm H1 H2. destruct (wf_keep _ _ W met eid e (aget_In _ _ _ H1) H2) as [A B].
    split; auto. now apply exp_lset_nonneg.
  Qed.
  Lemma wf_drop_g ca st met it : cache_wf ca st -> 0 <= met ->
    aget met (c_dropped ca) = Some it -> mut met = MDrop.
  Proof. intros W Hm H1. eapply wf_drop; eauto using aget_In. Qed.

  Lemma tracked_pairs_le h h' m : heap_le h h' -> tracked_pairs h m -> tracked_pairs h' m.
  Proof.
    intros L F. unfold tracked_pairs in *. rewrite Forall_forall in *. intros p I.
    destruct (F p I) as (e & H & E). destruct (L _ _ H) as (e' & H' & E1 & E2).
    exists e'. split; congruence.
  Qed.

  Lemma wf_store_mono ca st st' : cache_wf ca st -> live_le st st' -> cache_wf ca st'.
  Proof.
    intros W L. destruct W. constructor; auto.
    intros eid e H. destruct (wf_heap0 _ _ H) as (A & B & C). repeat split; auto.
  Qed.

  (* touching an entry's lastIter *)
  Lemma heap_le_touch h eid e it :
    aget eid h = Some e -> heap_le h (aset eid (mkEntry (e_ref e) (e_lset e) it) h).
  Proof.
    intros H eid' e' H'. destruct (Z.eq_dec eid' eid) as [->|N].
    - rewrite aget_aset_eq. eexists. split; [reflexivity|]. cbn. split; congruence.
    - rewrite aget_aset_neq by auto. eauto.
  Qed.

  Lemma wf_touch ca st eid e it :
    cache_wf ca st -> aget eid (c_heap ca) = Some e -> it <= c_iter ca ->
    cache_wf (set_heap ca (aset eid (mkEntry (e_ref e) (e_lset e) it) (c_heap ca))) st.
  Proof.
    intros W H Hit. pose proof (heap_le_touch _ _ _ it H) as HL. destruct W.
    constructor; cbn [c_series c_heap c_next c_iter c_dropped c_cur c_prev set_heap]; auto.
    - intros met eid' Hs. destruct (wf_series0 _ _ Hs) as (e' & He'). destruct (HL _ _ He') as (e'' & ? & _). eauto.
    - intros eid' e'. destruct (Z.eq_dec eid' eid) as [->|N].
      + rewrite aget_aset_eq. intros [= <-]. cbn. apply (wf_heap0 _ _ H).
      + rewrite aget_aset_neq by auto. apply wf_heap0.
    - intros met eid' e' Hs. destruct (Z.eq_dec eid' eid) as [->|N].
      + rewrite aget_aset_eq. intros [= <-]. cbn. destruct (wf_keep0 _ _ _ Hs H). split; auto.
      + rewrite aget_aset_neq by auto. now apply wf_keep0.
    - eapply tracked_pairs_le; eauto.
    - eapply tracked_pairs_le; eauto.
  Qed.

  Lemma wf_set_dropped ca st met it :
    cache_wf ca st -> (0 <= met -> mut met = MDrop) ->
    cache_wf (set_dropped ca (aset met it (c_dropped ca))) st.
  Proof.
    intros W Hd. destruct W. constructor; cbn; auto.
    intros met' it' Hm I. destruct (In_aset _ _ _ _ _ I) as [[-> ->]|I']; auto. eapply wf_drop0; eauto.
  Qed.

  Lemma wf_track ca st r eid e :
    cache_wf ca st -> aget eid (c_heap ca) = Some e -> e_ref e = r ->
    cache_wf (track ca r eid) st.
  Proof.
    intros W H E. destruct W. constructor; cbn; auto.
    apply Forall_aset; auto. cbn. eauto.
  Qed.

  Lemma wf_add_ref ca st met l it :
    cache_wf ca st ->
    exp_lset met = Some l -> aget l (s_live st) = Some (R l) -> c_iter ca = it ->
    cache_wf (fst (add_ref ca met (R l) l)) st /\
    heap_le (c_heap ca) (c_heap (fst (add_ref ca met (R l) l))) /\
    aget (c_next ca) (c_heap (fst (add_ref ca met (R l) l))) = Some (mkEntry (R l) l it) /\
    aget (c_next ca) (c_heap ca) = None.
  Proof.
    intros W Hk Hl Hit. destruct W. unfold add_ref. cbn [fst].
    assert (Hfresh : aget (c_next ca) (c_heap ca) = None).
    { destruct (aget (c_next ca) (c_heap ca)) eqn:E; auto. destruct (wf_heap0 _ _ E). lia. }
    assert (HL : heap_le (c_heap ca) (aset (c_next ca) (mkEntry (R l) l (c_iter ca)) (c_heap ca))).
    { intros eid e H. destruct (Z.eq_dec eid (c_next ca)) as [->|N]; [congruence|].
      rewrite aget_aset_neq by auto. eauto. }
    assert (Hold : forall m x, In (m, x) (c_series ca) -> x <> c_next ca).
    { intros m x I ->. destruct (wf_series0 _ _ I). congruence. }
    split; [|split; [exact HL|split; [|exact Hfresh]]].
    2:{ cbn. rewrite aget_aset_eq. now rewrite Hit. }
    constructor; cbn [c_series c_heap c_next c_iter c_dropped c_cur c_prev].
    - intros met' eid I. destruct (In_aset _ _ _ _ _ I) as [[-> ->]|I'].
      + rewrite aget_aset_eq. eauto.
      + destruct (wf_series0 _ _ I') as (e & He). destruct (HL _ _ He) as (e' & ? & _). eauto.
    - intros m1 m2 eid I1 I2.
      destruct (In_aset _ _ _ _ _ I1) as [[-> ->]|I1'], (In_aset _ _ _ _ _ I2) as [[-> E2]|I2']; auto.
      + exfalso. eapply Hold; eauto.
      + exfalso. subst. eapply Hold; eauto.
      + eapply wf_inj0; eauto.
    - intros eid e. destruct (Z.eq_dec eid (c_next ca)) as [->|N].
      + rewrite aget_aset_eq. intros [= <-]. cbn. repeat split; auto. lia.
      + rewrite aget_aset_neq by auto. intros H. destruct (wf_heap0 _ _ H) as (A & B & C0).
        repeat split; auto. lia.
    - intros met' eid e I. destruct (In_aset _ _ _ _ _ I) as [[-> ->]|I'].
      + rewrite aget_aset_eq. intros [= <-]. cbn. split; [exact Hk|lia].
      + assert (eid <> c_next ca) by (eapply Hold; eauto).
        rewrite aget_aset_neq by auto. now apply wf_keep0.
    - exact wf_drop0.
    - eapply tracked_pairs_le; eauto.
    - eapply tracked_pairs_le; eauto.
  Qed.
End NoGC.

(* ------------------------------------------------------------------ the body-only reference semantics *)
Record abs := mkAbs {
  ab_seen : list Z;                 (* metric texts stored so far in this body *)
  ab_samples : list (Z * Z * Z);    (* (label set, t, value) stored, newest first *)
  ab_tracked : list Z;              (* label sets tracked for staleness *)
  ab_total : Z;                     (* lines *)
  ab_added : Z                      (* lines left after relabeling *)
}.
Definition abs0 : abs := mkAbs [] [] [] 0 0.

Section Sim.
  Variable c : cfg.
  Variable mut : Z -> mres.
  Variable rep : Z -> Z.

  Definition eff_ts (en : body_entry) : option Z := if honor_ts c then en_ts en else None.
  Definition eff_t (defT : Z) (en : body_entry) : Z :=
    match eff_ts en with Some x => x | None => defT end.
  Definition nots (en : body_entry) : bool :=
    match eff_ts en with None => true | Some _ => false end.

  (* one exposition line: dropped lines only count as scraped; a line without timestamp of a
     metric text already stored from this body is a duplicate; everything else is stored *)
  Definition abs_entry (defT : Z) (a : abs) (en : body_entry) : abs :=
    match mut (en_met en) with
    | MKeep l =>
        if nots en && memb (en_met en) (ab_seen a)
        then mkAbs (ab_seen a) (ab_samples a) (ab_tracked a) (ab_total a + 1) (ab_added a + 1)
        else mkAbs (en_met en :: ab_seen a) ((l, eff_t defT en, en_val en) :: ab_samples a)
                   (if nots en || track_ts c then l :: ab_tracked a else ab_tracked a)
                   (ab_total a + 1) (ab_added a + 1)
    | _ => mkAbs (ab_seen a) (ab_samples a) (ab_tracked a) (ab_total a + 1) (ab_added a)
    end.

  Definition abs_body (defT : Z) (es : list body_entry) : abs := fold_left (abs_entry defT) es abs0.

  Definition app_proj (x : app) : Z * Z * val := (a_lset x, a_t x, a_val x).
  Definition samp_inj (p : Z * Z * Z) : Z * Z * val := let '(l, t, v) := p in (l, t, VI v).

  Record sim (it : Z) (ca : cache) (apps : list app) (total added li : Z) (a : abs) : Prop := mkSim {
    sim_seen : forall met eid e, 0 <= met -> aget met (c_series ca) = Some eid ->
                 aget eid (c_heap ca) = Some e -> (e_last e = it <-> In met (ab_seen a));
    sim_seen_cached : forall met, In met (ab_seen a) -> aget met (c_series ca) <> None;
    sim_tracked : forall l, amem (R l) (c_cur ca) = true <-> In l (ab_tracked a);
    sim_apps : map app_proj apps = map samp_inj (ab_samples a);
    sim_rout : Forall (fun x => a_rout x = R (a_lset x)) apps;
    sim_total : total = ab_total a;
    sim_added : added = ab_added a;
    sim_li : 0 < sample_limit c -> li = Z.of_nat (length (ab_samples a)) /\ li <= sample_limit c
  }.

  Record winv (it : Z) (prev0 : list (Z * Z)) (s : lstate) : Prop := mkWinv {
    wi_store : store_ok (l_store s);
    wi_wf : cache_wf mut rep (l_cache s) (l_store s);
    wi_iter : c_iter (l_cache s) = it;
    wi_prev : c_prev (l_cache s) = prev0
  }.

  Lemma limited_append_inb s r l t v s' rout err :
    store_ok (l_store s) -> min_valid c <= t <= max_valid c ->
    (r = 0 \/ (r = R l /\ aget l (s_live (l_store s)) = Some r)) ->
    limited_append c s r l t v = (s', rout, err) ->
    l_cache s' = l_cache s /\ l_total s' = l_total s /\ l_added s' = l_added s /\
    l_sadded s' = l_sadded s /\ l_limit_err s' = l_limit_err s /\
    ((err = ELimit /\ l_apps s' = l_apps s /\ l_store s' = l_store s) \/
     (err = ENone /\ rout = R l /\ l_apps s' = mkApp r l t v (R l) :: l_apps s /\
      store_ok (l_store s') /\ aget l (s_live (l_store s')) = Some (R l) /\
      live_le (l_store s) (l_store s'))).
  Proof.
    intros SO Ht Hr. unfold limited_append.
    set (count := (0 <? sample_limit c) && ((r =? 0) || negb (is_stale v))).
    set (i' := if count then l_i s + 1 else l_i s).
    destruct (count && (sample_limit c <? i')) eqn:E1.
    { intros [= <- <- <-]. cbn. repeat split; auto. }
    destruct (max_valid c <? t) eqn:E2; [apply Z.ltb_lt in E2; lia|].
    unfold base_append. cbn [l_store].
    destruct (st_append_ok c (l_store s) r l t SO (proj1 Ht) Hr) as (st' & EA & SO' & HL & LE).
    rewrite EA. destruct (R l =? 0) eqn:E3; [apply Z.eqb_eq in E3; now apply R_nz in E3|].
    intros [= <- <- <-]. cbn. repeat split; auto. right. repeat split; auto; apply SO'.
  Qed.

  Lemma limited_append_err_mono s r l t v s' rout err :
    limited_append c s r l t v = (s', rout, err) -> l_limit_err s' = l_limit_err s.
  Proof. intros H. apply limited_append_apps in H. tauto. Qed.

  Lemma limited_append_li s r l t x s' rout err :
    limited_append c s r l t (VI x) = (s', rout, err) ->
    (err = ELimit -> 0 < sample_limit c /\ sample_limit c < l_i s + 1) /\
    (err = ENone -> 0 < sample_limit c -> l_i s' = l_i s + 1 /\ l_i s + 1 <= sample_limit c) /\
    (err <> ELimit -> sample_limit c <= 0 -> l_i s' = l_i s).
  Proof.
    unfold limited_append. cbn [is_stale negb]. rewrite orb_true_r, andb_true_r.
    destruct (0 <? sample_limit c) eqn:E0.
    - apply Z.ltb_lt in E0. cbn [andb].
      destruct (sample_limit c <? l_i s + 1) eqn:E1.
      + intros [= <- <- <-]. apply Z.ltb_lt in E1. repeat split; intros; try discriminate; try lia; try congruence.
      + apply Z.ltb_ge in E1. destruct (max_valid c <? t).
        * intros [= <- <- <-]. repeat split; intros; try discriminate; try lia; try congruence.
        * unfold base_append. cbn [l_store]. destruct (st_append c (l_store s) r l t) as [st' ro].
          destruct (ro =? 0); intros [= <- <- <-]; cbn [l_i]; repeat split; intros; try discriminate; try lia; try congruence.
    - apply Z.ltb_ge in E0. cbn [andb].
      destruct (max_valid c <? t).
      + intros [= <- <- <-]. repeat split; intros; try discriminate; try lia; try congruence.
      + unfold base_append. cbn [l_store]. destruct (st_append c (l_store s) r l t) as [st' ro].
        destruct (ro =? 0); intros [= <- <- <-]; cbn [l_i]; repeat split; intros; try discriminate; try lia; try congruence.
  Qed.

  Definition seen_rel (it : Z) (ser : list (Z * Z)) (heap : list (Z * entry)) (seen : list Z) : Prop :=
    forall met eid e, 0 <= met -> aget met ser = Some eid -> aget eid heap = Some e ->
                      (e_last e = it <-> In met seen).

  Lemma seen_rel_touch it ser heap seen met eid e1 seen' :
    seen_rel it ser heap seen -> aget met ser = Some eid ->
    (forall m1 m2 x, aget m1 ser = Some x -> aget m2 ser = Some x -> m1 = m2) ->
    e_last e1 = it -> In met seen' -> (forall m, m <> met -> (In m seen' <-> In m seen)) ->
    seen_rel it ser (aset eid e1 heap) seen'.
  Proof.
    intros SR Hs Inj EL I1 I2 met' eid' e' Hm' Hs' He'.
    destruct (Z.eq_dec eid' eid) as [->|N].
    - rewrite aget_aset_eq in He'. injection He' as <-.
      assert (met' = met) by (eapply Inj; eauto). subst met'. tauto.
    - rewrite aget_aset_neq in He' by auto.
      assert (met' <> met) by (intros ->; congruence).
      rewrite I2 by auto. eapply SR; eauto.
  Qed.

  Lemma seen_rel_add it ser heap seen met eid e1 :
    seen_rel it ser heap seen -> aget met ser = None -> aget eid heap = None ->
    (forall m x, aget m ser = Some x -> aget x heap <> None) ->
    e_last e1 = it ->
    seen_rel it (aset met eid ser) (aset eid e1 heap) (met :: seen).
  Proof.
    intros SR Hn Hf Hs EL met' eid' e' Hm'.
    destruct (Z.eq_dec met' met) as [->|N].
    - rewrite aget_aset_eq. intros [= <-]. rewrite aget_aset_eq. intros [= <-]. split; auto. intros _. now left.
    - rewrite aget_aset_neq by auto. intros Hs'.
      assert (eid' <> eid) by (intros ->; now apply (Hs _ _ Hs')).
      rewrite aget_aset_neq by auto. intros He'. cbn [In].
      split.
      + intros E. right. eapply SR; eauto.
      + intros [E|I]; [congruence|]. eapply SR; eauto.
  Qed.

  Definition tracked_rel (cur : list (Z * Z)) (tr : list Z) : Prop :=
    forall l, amem (R l) cur = true <-> In l tr.

  Lemma tracked_rel_track cur tr l eid :
    tracked_rel cur tr -> tracked_rel (aset (R l) eid cur) (l :: tr).
  Proof.
    intros T l'. rewrite amem_aset. cbn [In]. rewrite orb_true_iff, Z.eqb_eq, (T l').
    split; intros [H|H]; auto. left. now apply R_inj. left. now subst.
  Qed.

  Lemma do_entry_sim it prev0 defT s a en :
    winv it prev0 s -> 0 <= en_met en -> min_valid c <= eff_t defT en <= max_valid c ->
    exists s',
      (do_entry c mut defT s en = LCont s' \/
       (do_entry c mut defT s en = LAbort s' /\ mut (en_met en) = MErr)) /\
      winv it prev0 s' /\
      (l_limit_err s = true -> l_limit_err s' = true) /\
      (do_entry c mut defT s en = LCont s' -> l_limit_err s' = false ->
       sim it (l_cache s) (l_apps s) (l_total s) (l_added s) (l_i s) a ->
       sim it (l_cache s') (l_apps s') (l_total s') (l_added s') (l_i s') (abs_entry defT a en)) /\
      (l_limit_err s = false -> l_limit_err s' = true ->
       sim it (l_cache s) (l_apps s) (l_total s) (l_added s) (l_i s) a ->
       0 < sample_limit c /\
       sample_limit c < Z.of_nat (length (ab_samples (abs_entry defT a en)))) /\
      (mut (en_met en) = MErr -> do_entry c mut defT s en = LAbort s').
  Proof.
    intros [WS WW WI WP] Hm Ht.
    unfold do_entry, abs_entry, eff_t, nots, eff_ts in *.
    set (pts := if honor_ts c then en_ts en else None) in *.
    set (t := match pts with Some x => x | None => defT end) in *.
    set (met := en_met en) in *.
    cbn [l_cache inc_total].
    destruct (aget met (c_dropped (l_cache s))) as [itd|] eqn:ED.
    { (* getDropped *)
      eexists. split; [left; reflexivity|].
      assert (MD : mut met = MDrop) by (eapply wf_drop_g; eauto).
      split; [constructor; cbn; auto; apply wf_set_dropped; auto|].
      split; [cbn; auto|].
      split; [intros _ _ S; rewrite MD; destruct S; constructor; cbn; auto; lia|].
      split; [cbn; intros E1 E2; congruence|rewrite MD; discriminate]. }
    unfold cache_get.
    destruct (aget met (c_series (l_cache s))) as [eid|] eqn:ES.
    - (* cached *)
      destruct (wf_series_g _ _ _ _ _ _ WW ES) as (e & HE).
      destruct (wf_keep_g _ _ _ _ _ _ _ WW Hm ES HE) as [MK LE].
      destruct (wf_heap _ _ _ _ WW _ _ HE) as (HN & HR & HLIVE).
      assert (HG0 : heap_get (l_cache s) eid = e) by (unfold heap_get; now rewrite HE).
      cbv beta iota zeta. rewrite !HG0.
      set (e1 := mkEntry (e_ref e) (e_lset e) (c_iter (l_cache s))).
      set (ca1 := set_heap (l_cache s) (aset eid e1 (c_heap (l_cache s)))).
      assert (HG1 : heap_get ca1 eid = e1) by (unfold heap_get, ca1; cbn; now rewrite aget_aset_eq).
      assert (WW1 : cache_wf mut rep ca1 (l_store s)) by (apply wf_touch; auto; lia).
      rewrite !HG1. cbn [e_ref e_lset e1].
      destruct ((e_last e =? c_iter (l_cache s)) && match pts with Some _ => false | None => true end) eqn:EDUP.
      + (* ErrDuplicateSampleForTimestamp *)
        apply andb_prop in EDUP as [EL EN]. apply Z.eqb_eq in EL.
        eexists. split; [left; reflexivity|].
        split; [constructor; cbn; auto|]. split; [cbn; auto|].
        split; [|split; [cbn; intros E1 E2; congruence|rewrite MK; discriminate]].
        intros _ _ S. rewrite MK, EN.
        assert (IM : In met (ab_seen a)).
        { destruct (sim_seen _ _ _ _ _ _ _ S met eid e Hm ES HE) as [X _]. apply X. congruence. }
        assert (HM : memb met (ab_seen a) = true) by now apply memb_In.
        rewrite HM. cbn [andb].
        destruct S. constructor; cbn; auto; try lia.
        eapply seen_rel_touch; eauto. intros ? ? ?; apply (wf_inj_g _ _ _ _ _ _ _ WW). tauto.
      + (* appended through the limit chain *)
        destruct (limited_append c (with_cache (inc_total s) ca1) (e_ref e) (e_lset e) t (VI (en_val en)))
          as [[s2 rout] err] eqn:EA.
        pose proof (limited_append_err_mono _ _ _ _ _ _ _ _ EA) as EM.
        pose proof (limited_append_li _ _ _ _ _ _ _ _ EA) as (LI1 & LI2 & LI3).
        cbn [l_i with_cache inc_total] in LI1, LI2, LI3.
        apply limited_append_inb in EA; auto.
        cbn [l_cache l_store l_apps l_total l_added l_sadded l_limit_err with_cache inc_total] in EA, EM.
        destruct EA as (A1 & A2 & A3 & A4 & A5 & [(-> & A6 & A7)|(-> & -> & A6 & A7 & A8 & A9)]).
        * (* sample limit *)
          eexists. split; [left; reflexivity|].
          split; [constructor; cbn; rewrite ?A1, ?A7; auto|].
          split; [cbn; auto|]. split; [cbn; discriminate|]. split; [|rewrite MK; discriminate].
          intros _ _ S. rewrite MK. destruct (LI1 eq_refl) as [L0 L1]. split; auto.
          assert (ND : (match pts with Some _ => false | None => true end && memb met (ab_seen a)) = false).
          { destruct (match pts with Some _ => false | None => true end) eqn:EN; auto. cbn [andb].
            rewrite andb_true_r in EDUP. apply Z.eqb_neq in EDUP.
            destruct (memb met (ab_seen a)) eqn:EMB; auto. apply memb_In in EMB.
            exfalso. apply EDUP. destruct (sim_seen _ _ _ _ _ _ _ S met eid e Hm ES HE) as [_ X]. rewrite WI. now apply X. }
          rewrite ND. cbn [ab_samples length]. destruct (sim_li _ _ _ _ _ _ _ S L0) as [X _]. lia.
        * destruct (R (e_lset e) =? 0) eqn:E0; [apply Z.eqb_eq in E0; now apply R_nz in E0|].
          assert (UR : update_ref (l_cache s2) eid (R (e_lset e)) = ca1).
          { rewrite A1. unfold update_ref. rewrite HG1. cbn [e_ref e1]. rewrite HR, Z.eqb_refl. reflexivity. }
          rewrite UR, HG1. cbn [e_ref e1]. rewrite HR, E0. cbn [negb]. rewrite andb_true_r.
          assert (HE1 : aget eid (c_heap ca1) = Some e1) by (unfold ca1; cbn; apply aget_aset_eq).
          assert (WW2 : cache_wf mut rep ca1 (l_store s2)) by (eapply wf_store_mono; eauto).
          set (trk := match pts with Some _ => track_ts c | None => true end).
          assert (WW3 : cache_wf mut rep (if trk then track ca1 (R (e_lset e)) eid else ca1) (l_store s2)).
          { destruct trk; auto. eapply wf_track; eauto. }
          eexists. split; [left; reflexivity|].
          split; [constructor; cbn [l_cache l_store inc_added with_cache]; auto; destruct trk; cbn; auto|].
          split; [cbn; congruence|].
          split; [|split; [cbn; intros E1 E2; congruence|rewrite MK; discriminate]].
          intros _ _ S. rewrite MK.
          assert (ND : (match pts with Some _ => false | None => true end && memb met (ab_seen a)) = false).
          { destruct (match pts with Some _ => false | None => true end) eqn:EN; auto. cbn [andb].
            rewrite andb_true_r in EDUP. apply Z.eqb_neq in EDUP.
            destruct (memb met (ab_seen a)) eqn:EMB; auto. apply memb_In in EMB.
            exfalso. apply EDUP. destruct (sim_seen _ _ _ _ _ _ _ S met eid e Hm ES HE) as [_ X]. rewrite WI. now apply X. }
          rewrite ND. destruct S.
          constructor; cbn [l_cache l_apps l_total l_added inc_added with_cache ab_seen ab_samples ab_tracked ab_total ab_added]; try lia.
          -- assert (SR : seen_rel it (c_series ca1) (c_heap ca1) (met :: ab_seen a)).
             { unfold ca1. cbn. eapply seen_rel_touch; eauto. intros ? ? ?; apply (wf_inj_g _ _ _ _ _ _ _ WW). now left.
               intros m Hmm. cbn. split; [intros [?|?]; [congruence|auto]|auto]. }
             destruct trk; exact SR.
          -- intros m [<-|I]; destruct trk; cbn; try congruence; now apply sim_seen_cached0.
          -- replace (match pts with Some _ => false | None => true end || track_ts c) with trk
               by (unfold trk; destruct pts; reflexivity).
             destruct trk; cbn [c_cur track set_cur ca1 set_heap].
             ++ now apply tracked_rel_track.
             ++ exact sim_tracked0.
          -- rewrite A6. cbn. unfold app_proj at 1. cbn. now rewrite sim_apps0.
          -- rewrite A6. constructor; auto.
          -- intros L0. destruct (LI2 eq_refl L0) as [X Y]. destruct (sim_li0 L0) as [Z1 Z2].
             cbn [length l_i inc_added with_cache]. rewrite X. lia.
    - (* not cached *)
      cbv beta iota zeta.
      destruct (mut met) as [l| |] eqn:MM.
      + destruct (limited_append c (inc_total s) 0 l t (VI (en_val en))) as [[s2 rout] err] eqn:EA.
        pose proof (limited_append_err_mono _ _ _ _ _ _ _ _ EA) as EM.
        pose proof (limited_append_li _ _ _ _ _ _ _ _ EA) as (LI1 & LI2 & LI3).
        cbn [l_i with_cache inc_total] in LI1, LI2, LI3.
        apply limited_append_inb in EA; auto.
        cbn [l_cache l_store l_apps l_total l_added l_sadded l_limit_err with_cache inc_total] in EA, EM.
        destruct EA as (A1 & A2 & A3 & A4 & A5 & [(-> & A6 & A7)|(-> & -> & A6 & A7 & A8 & A9)]).
        * eexists. split; [left; reflexivity|].
          split; [constructor; cbn; rewrite ?A1, ?A7; auto|].
          split; [cbn; auto|]. split; [cbn; discriminate|]. split; [|discriminate].
          intros _ _ S. destruct (LI1 eq_refl) as [L0 L1]. split; auto.
          assert (ND : (match pts with Some _ => false | None => true end && memb met (ab_seen a)) = false).
          { destruct (memb met (ab_seen a)) eqn:EMB; [|apply andb_false_r]. apply memb_In in EMB.
            exfalso. eapply (sim_seen_cached _ _ _ _ _ _ _ S); eauto. }
          rewrite ND. cbn [ab_samples length]. destruct (sim_li _ _ _ _ _ _ _ S L0) as [X _]. lia.
        * destruct (R l =? 0) eqn:E0; [apply Z.eqb_eq in E0; now apply R_nz in E0|].
          cbn [negb andb].
          assert (WWs : cache_wf mut rep (l_cache s2) (l_store s2)).
          { rewrite A1. eapply wf_store_mono; eauto. }
          assert (EXP : exp_lset mut rep met = Some l) by (unfold exp_lset; destruct (Z.leb_spec 0 met); [now rewrite MM | lia]).
          destruct (wf_add_ref mut rep (l_cache s2) (l_store s2) met l it WWs) as (WA & HLE & HNEW & HFRESH); auto.
          all: try (now rewrite A1).
          destruct (add_ref (l_cache s2) met (R l) l) as [ca2 eid] eqn:EAR.
          assert (EID : eid = c_next (l_cache s2)) by (unfold add_ref in EAR; now injection EAR as _ <-).
          cbn [fst] in WA, HLE, HNEW.
          set (trk := match pts with Some _ => track_ts c | None => true end).
          assert (WW3 : cache_wf mut rep (if trk then track ca2 (R l) eid else ca2) (l_store s2)).
          { destruct trk; auto. apply wf_track with (e := mkEntry (R l) l it); auto. rewrite EID; exact HNEW. }
          assert (IT2 : c_iter ca2 = it /\ c_prev ca2 = prev0 /\ c_cur ca2 = c_cur (l_cache s) /\
                        c_series ca2 = aset met eid (c_series (l_cache s)) /\
                        c_heap ca2 = aset eid (mkEntry (R l) l it) (c_heap (l_cache s))).
          { unfold add_ref in EAR. injection EAR as <- <-. cbn. rewrite A1, WI. auto. }
          destruct IT2 as (I1 & I2 & I3 & I4 & I5).
          eexists. split; [left; reflexivity|].
          split.
          { destruct (l_limit_err (with_cache s2 (if trk then track ca2 (R l) eid else ca2)));
              constructor; cbn [l_cache l_store inc_added inc_sadded with_cache]; auto; destruct trk; cbn; auto. }
          split.
          { cbn [l_limit_err with_cache]. intros H. rewrite <- EM in H. rewrite H. cbn. congruence. }
          split; [|split; [|discriminate]].
          2:{ intros E1 E2 _. exfalso. cbn [l_limit_err with_cache] in E2. rewrite EM, E1 in E2. cbn in E2. congruence. }
          intros _ _ S.
          assert (ND : (match pts with Some _ => false | None => true end && memb met (ab_seen a)) = false).
          { destruct (memb met (ab_seen a)) eqn:EMB; [|apply andb_false_r]. apply memb_In in EMB.
            exfalso. eapply (sim_seen_cached _ _ _ _ _ _ _ S); eauto. }
          rewrite ND. destruct S.
          assert (CA : l_cache (inc_added
                   (if l_limit_err (with_cache s2 (if trk then track ca2 (R l) eid else ca2))
                    then with_cache s2 (if trk then track ca2 (R l) eid else ca2)
                    else inc_sadded (with_cache s2 (if trk then track ca2 (R l) eid else ca2))))
                   = (if trk then track ca2 (R l) eid else ca2)).
          { destruct (l_limit_err _); reflexivity. }
          constructor.
          -- rewrite CA. cbn [ab_seen].
             assert (SR : seen_rel it (c_series ca2) (c_heap ca2) (met :: ab_seen a)).
             { rewrite I4, I5. apply seen_rel_add; auto.
               - rewrite EID. rewrite A1 in HFRESH |- *. exact HFRESH.
               - intros m x Hx. destruct (wf_series_g _ _ _ _ _ _ WW Hx) as (e0 & He0). congruence. }
             destruct trk; exact SR.
          -- rewrite CA. cbn [ab_seen]. intros m [<-|I].
             ++ destruct trk; cbn; rewrite I4, aget_aset_eq; discriminate.
             ++ assert (m <> met) by (intros ->; now apply (sim_seen_cached0 _ I)).
                destruct trk; cbn; rewrite I4, aget_aset_neq by auto; now apply sim_seen_cached0.
          -- rewrite CA. cbn [ab_tracked].
             replace (match pts with Some _ => false | None => true end || track_ts c) with trk
               by (unfold trk; destruct pts; reflexivity).
             destruct trk; cbn [c_cur track set_cur]; rewrite I3.
             ++ now apply tracked_rel_track.
             ++ exact sim_tracked0.
          -- destruct (l_limit_err _); cbn; rewrite A6; cbn; unfold app_proj at 1; cbn; now rewrite sim_apps0.
          -- destruct (l_limit_err _); cbn; rewrite A6; constructor; auto.
          -- destruct (l_limit_err _); cbn; lia.
          -- destruct (l_limit_err _); cbn; lia.
          -- intros L0. destruct (LI2 eq_refl L0) as [X Y]. destruct (sim_li0 L0) as [Z1 Z2].
             cbn [length ab_samples]. destruct (l_limit_err _); cbn [l_i inc_added inc_sadded with_cache]; rewrite X; lia.
      + (* addDropped *)
        eexists. split; [left; reflexivity|].
        split; [constructor; cbn; auto; apply wf_set_dropped; auto|].
        split; [cbn; auto|].
        split; [intros _ _ S; destruct S; constructor; cbn; auto; lia|].
        split; [cbn; intros E1 E2; congruence|discriminate].
      + (* rejected series: the scrape fails *)
        eexists. split; [right; split; reflexivity|].
        split; [constructor; cbn; auto|]. split; [cbn; auto|]. split; [discriminate|].
        split; [cbn; intros E1 E2; congruence|reflexivity].
  Qed.
End Sim.

Section Steps.
  Variable c : cfg.
  Variable mut : Z -> mres.
  Variable rep : Z -> Z.

  Definition inb (t : Z) : Prop := min_valid c <= t <= max_valid c.
  Definition entry_ok (defT : Z) (en : body_entry) : Prop :=
    0 <= en_met en /\ inb (eff_t c defT en).

  Lemma samples_mono defT es : forall a,
    (length (ab_samples a) <= length (ab_samples (fold_left (abs_entry c mut defT) es a)))%nat.
  Proof.
    induction es as [|en r IH]; intros a; cbn [fold_left]; auto.
    eapply Nat.le_trans; [|apply IH]. unfold abs_entry.
    destruct (mut (en_met en)); cbn; auto. destruct (_ && _); cbn; auto.
  Qed.

  Lemma run_entries_sim it prev0 defT es : forall s a,
    winv mut rep it prev0 s -> Forall (entry_ok defT) es ->
    exists s',
      (run_entries c mut defT s es = LCont s' \/
       (run_entries c mut defT s es = LAbort s' /\ Exists (fun en => mut (en_met en) = MErr) es)) /\
      winv mut rep it prev0 s' /\
      (l_limit_err s = true -> l_limit_err s' = true) /\
      (run_entries c mut defT s es = LCont s' -> l_limit_err s' = false ->
       sim c it (l_cache s) (l_apps s) (l_total s) (l_added s) (l_i s) a ->
       sim c it (l_cache s') (l_apps s') (l_total s') (l_added s') (l_i s') (fold_left (abs_entry c mut defT) es a)) /\
      (run_entries c mut defT s es = LCont s' -> l_limit_err s = false -> l_limit_err s' = true ->
       sim c it (l_cache s) (l_apps s) (l_total s) (l_added s) (l_i s) a ->
       0 < sample_limit c /\
       sample_limit c < Z.of_nat (length (ab_samples (fold_left (abs_entry c mut defT) es a)))) /\
      (Exists (fun en => mut (en_met en) = MErr) es -> exists s'', run_entries c mut defT s es = LAbort s'').
  Proof.
    induction es as [|en r IH]; intros s a W F.
    - exists s. cbn. split; [now left|]. split; [exact W|]. split; [auto|]. split; [intros _ _ S; exact S|].
      split; [intros _ E1 E2; congruence|]. intros EX; inversion EX.
    - inversion F as [|? ? [Hm Ht] F']; subst.
      destruct (do_entry_sim c mut rep it prev0 defT s a en W Hm Ht) as (s1 & HD & W1 & M1 & S1 & L1 & A1).
      cbn [run_entries fold_left].
      destruct HD as [HD|[HD ME]]; rewrite HD.
      + destruct (IH s1 (abs_entry c mut defT a en) W1 F') as (s2 & HR & W2 & M2 & S2 & L2 & A2).
        exists s2. split; [|split; [exact W2|split; [auto|split; [|split]]]].
        * destruct HR as [HR|[HR EX]]; [left; exact HR|right; split; [exact HR|now right]].
        * intros HR2 HL SI. apply S2; auto. apply S1; auto.
          destruct (l_limit_err s1) eqn:E1; auto. rewrite M2 in HL; auto.
        * intros HR2 E0 E2 SI. destruct (l_limit_err s1) eqn:E1.
          -- destruct (L1 E0 eq_refl SI) as [X Y]. split; auto.
             pose proof (samples_mono defT r (abs_entry c mut defT a en)). lia.
          -- apply L2; auto.
        * intros EX. inversion EX as [? ? H|? ? H]; subst.
          -- rewrite (A1 H) in HD. discriminate.
          -- apply A2. exact H.
      + exists s1. split; [right; split; [reflexivity|now left]|]. split; [exact W1|]. split; [exact M1|].
        split; [discriminate|]. split; [discriminate|]. intros _. eauto.
  Qed.

  Lemma stale_appends_ok limited defT : forall l s,
    store_ok (l_store s) -> inb defT ->
    Forall (fun p : Z * Z => fst p = R (snd p) /\ aget (snd p) (s_live (l_store s)) = Some (fst p)) l ->
    exists s', stale_appends c limited defT s l = (s', true) /\
      l_apps s' = rev (map (fun p : Z * Z => mkApp (fst p) (snd p) defT VStale (fst p)) l) ++ l_apps s /\
      store_ok (l_store s') /\ live_le (l_store s) (l_store s') /\
      l_cache s' = l_cache s /\ l_total s' = l_total s /\ l_added s' = l_added s /\
      l_sadded s' = l_sadded s /\ l_limit_err s' = l_limit_err s.
  Proof.
    induction l as [|[r ls] rest IH]; intros s SO Ht F.
    - exists s. cbn. split; [reflexivity|]. split; [reflexivity|]. split; [exact SO|]. split; [intros ? ? H; exact H|]. repeat split; reflexivity.
    - inversion F as [|? ? [Hr Hl] F']; subst. cbn [fst snd] in Hr, Hl.
      destruct (st_append_ok c (l_store s) r ls defT SO (proj1 Ht) (or_intror (conj Hr Hl)))
        as (st' & EA & SO' & HL' & LE).
      assert (RN : (r =? 0) = false) by (apply Z.eqb_neq; subst r; apply R_nz).
      assert (RR : (R ls =? 0) = false) by (apply Z.eqb_neq; apply R_nz).
      assert (MT : (max_valid c <? defT) = false) by (apply Z.ltb_ge; apply Ht).
      set (s1 := mkL (l_cache s) st' (mkApp r ls defT VStale (R ls) :: l_apps s) (l_i s)
                     (l_total s) (l_added s) (l_sadded s) (l_limit_err s)).
      assert (F1 : Forall (fun p : Z * Z => fst p = R (snd p) /\ aget (snd p) (s_live (l_store s1)) = Some (fst p)) rest).
      { rewrite Forall_forall in *. intros p I. destruct (F' p I). split; auto. }
      destruct (IH s1 SO' Ht F1) as (s' & E' & A' & SO'' & LE' & C1 & C2 & C3 & C4 & C5).
      exists s'. cbn [stale_appends].
      assert (STEP : (if limited
                      then let '(s'0, _, err) := limited_append c s r ls defT VStale in
                           (s'0, match err with ENone => true | _ => false end)
                      else let '(s'0, rout) := base_append c s r ls defT VStale in (s'0, negb (rout =? 0)))
                     = (s1, true)).
      { destruct limited.
        - unfold limited_append. cbn [is_stale negb]. rewrite RN. cbn [orb]. rewrite andb_false_r. cbn [andb].
          rewrite MT. unfold base_append. cbn [l_store]. rewrite EA, RR.
          destruct s; reflexivity.
        - unfold base_append. rewrite EA, RR. reflexivity. }
      rewrite STEP. rewrite E'. split; [reflexivity|].
      cbn [map rev fst snd]. rewrite A'. cbn [l_apps s1]. rewrite <- app_assoc. cbn [Datatypes.app].
      subst r. split; [reflexivity|]. split; [exact SO''|].
      split; [intros l0 x H; apply LE'; cbn; now apply LE|].
      unfold s1 in *. cbn in C1, C2, C3, C4, C5. repeat split; assumption.
  Qed.

  Lemma stale_list_facts ca st : cache_wf mut rep ca st ->
    Forall (fun p : Z * Z => fst p = R (snd p) /\ aget (snd p) (s_live st) = Some (fst p)) (stale_list ca) /\
    (forall l, In l (map snd (stale_list ca)) <->
               amem (R l) (c_prev ca) = true /\ amem (R l) (c_cur ca) = false).
  Proof.
    intros W. pose proof (wf_prev _ _ _ _ W) as WP. unfold tracked_pairs in WP. rewrite Forall_forall in WP.
    assert (EL : forall r eid, In (r, eid) (c_prev ca) ->
                 exists e, heap_get ca eid = e /\ e_ref e = r /\ r = R (e_lset e) /\
                           aget (e_lset e) (s_live st) = Some r).
    { intros r eid I. destruct (WP _ I) as (e & He & Er). cbn in He, Er.
      destruct (wf_heap _ _ _ _ W _ _ He) as (_ & HR & HL).
      exists e. unfold heap_get. rewrite He. repeat split; auto; congruence. }
    split.
    - unfold stale_list. apply Forall_forall. intros [r ls] I. apply in_flat_map in I.
      destruct I as ([r0 eid] & I0 & I1). cbn [fst snd] in I1.
      destruct (amem r0 (c_cur ca)); [destruct I1|]. destruct I1 as [[= <- <-]|[]].
      destruct (EL _ _ I0) as (e & <- & E1 & E2 & E3). cbn. split; congruence.
    - intros l. unfold stale_list. rewrite in_map_iff. split.
      + intros ([r ls] & <- & I). apply in_flat_map in I. destruct I as ([r0 eid] & I0 & I1). cbn [fst snd] in *.
        destruct (amem r0 (c_cur ca)) eqn:EC; [destruct I1|]. destruct I1 as [[= <- <-]|[]].
        destruct (EL _ _ I0) as (e & <- & E1 & E2 & E3). rewrite <- E2. split; auto.
        eapply In_amem; eauto.
      + intros [HP HC]. apply amem_In in HP. destruct HP as (eid & I0).
        destruct (EL _ _ I0) as (e & HG & E1 & E2 & E3). apply R_inj in E2.
        exists (e_ref e, e_lset e). split; [cbn; congruence|].
        apply in_flat_map. exists (R l, eid). split; auto. cbn [fst snd]. rewrite HC, HG. now left.
  Qed.
End Steps.

Section Hist.
  Variable c : cfg.
  Variable mut : Z -> mres.
  Variable rep : Z -> Z.

  (* invariant between scrapes *)
  Record ginv (S : cache * store) : Prop := mkG {
    gi_store : store_ok (snd S);
    gi_wf : cache_wf mut rep (fst S) (snd S);
    gi_cur : c_cur (fst S) = [];
    gi_last : forall met eid e, 0 <= met -> In (met, eid) (c_series (fst S)) ->
                aget eid (c_heap (fst S)) = Some e -> e_last e < c_iter (fst S)
  }.

  (* the label sets whose staleness is tracked after a scrape *)
  Definition tracked (S : cache * store) (l : Z) : Prop := amem (R l) (c_prev (fst S)) = true.

  Lemma ginv_init : ginv (init_cache, init_store).
  Proof.
    constructor; cbn; auto.
    - split; intros ? ? H; discriminate H.
    - constructor; cbn; try (intros; contradiction); try discriminate; try constructor.
    - intros; contradiction.
  Qed.

  Lemma iter_done_ginv ca st flush :
    store_ok st -> cache_wf mut rep ca st ->
    ginv (iter_done ca flush, st) /\ c_prev (iter_done ca flush) = c_cur ca.
  Proof.
    intros SO W. split; [|reflexivity]. unfold iter_done.
    set (flush' := flush || _).
    set (ser := if flush' then filter _ (c_series ca) else c_series ca).
    set (dro := if flush' then filter _ (c_dropped ca) else c_dropped ca).
    assert (S1 : forall p, In p ser -> In p (c_series ca)).
    { unfold ser. destruct flush'; auto. intros p I. apply filter_In in I. tauto. }
    assert (S2 : forall p, In p dro -> In p (c_dropped ca)).
    { unfold dro. destruct flush'; auto. intros p I. apply filter_In in I. tauto. }
    destruct W as [w1 w2 w3 w4 w5 w6 w7]. constructor; cbn [fst snd c_cur c_series c_heap c_iter]; auto.
    - constructor; cbn [c_series c_heap c_next c_iter c_dropped c_cur c_prev]; auto.
      + intros met eid I. eapply w1; eauto.
      + intros m1 m2 eid I1 I2. eapply w2; eauto.
      + intros met eid e I H. destruct (w4 _ _ _ (S1 _ I) H). split; auto. lia.
      + intros met it Hm I. eapply w5; eauto.
      + constructor.
    - intros met eid e Hm I H. destruct (w4 _ _ _ (S1 _ I) H). lia.
  Qed.

  Record rinv (s : lstate) : Prop := mkR {
    ri_store : store_ok (l_store s);
    ri_wf : cache_wf mut rep (l_cache s) (l_store s);
    ri_last : forall met eid e, 0 <= met -> In (met, eid) (c_series (l_cache s)) ->
                aget eid (c_heap (l_cache s)) = Some e -> e_last e < c_iter (l_cache s)
  }.

  Lemma exp_lset_report idx : 0 <= idx -> exp_lset mut rep (- (idx + 1)) = Some (rep idx).
  Proof.
    intros H. unfold exp_lset. destruct (Z.leb_spec 0 (- (idx + 1))); [lia|].
    f_equal. f_equal. lia.
  Qed.

  Lemma add_report_ok s idx t v :
    rinv s -> 0 <= idx -> min_valid c <= t ->
    exists s' r, add_report c rep s idx t v = (s', true) /\ rinv s' /\
      c_cur (l_cache s') = c_cur (l_cache s) /\ c_prev (l_cache s') = c_prev (l_cache s) /\
      c_iter (l_cache s') = c_iter (l_cache s) /\
      l_apps s' = mkApp r (rep idx) t v (R (rep idx)) :: l_apps s.
  Proof.
    intros [RS RW RL] Hi Ht. unfold add_report, cache_get.
    set (met := - (idx + 1)).
    assert (Hneg : met < 0) by (unfold met; lia).
    assert (RR : (R (rep idx) =? 0) = false) by (apply Z.eqb_neq; apply R_nz).
    destruct (aget met (c_series (l_cache s))) as [eid|] eqn:ES.
    - destruct (wf_series_g _ _ _ _ _ _ RW ES) as (e & HE).
      destruct (wf_keep _ _ _ _ RW _ _ _ (aget_In _ _ _ ES) HE) as [EX LE].
      unfold met in EX. rewrite exp_lset_report in EX by auto. injection EX as EX.
      destruct (wf_heap _ _ _ _ RW _ _ HE) as (HN & HR & HLIVE).
      assert (HG0 : heap_get (l_cache s) eid = e) by (unfold heap_get; now rewrite HE).
      cbv beta iota zeta. rewrite !HG0.
      set (e1 := mkEntry (e_ref e) (e_lset e) (c_iter (l_cache s))).
      set (ca1 := set_heap (l_cache s) (aset eid e1 (c_heap (l_cache s)))).
      assert (HG1 : heap_get ca1 eid = e1) by (unfold heap_get, ca1; cbn; now rewrite aget_aset_eq).
      assert (WW1 : cache_wf mut rep ca1 (l_store s)) by (apply wf_touch; auto; lia).
      rewrite !HG1. cbn [e_ref e_lset e1].
      unfold base_append. cbn [l_store with_cache].
      destruct (st_append_ok c (l_store s) (e_ref e) (e_lset e) t RS Ht) as (st' & EA & SO' & HL' & LE').
      { right. split; auto. }
      rewrite EA. rewrite EX in RR. rewrite RR.
      eexists. exists (e_ref e). split; [reflexivity|]. cbn. rewrite EX.
      split; [|repeat split; auto].
      constructor; cbn; auto.
      + eapply wf_store_mono; eauto.
      + intros met' eid' e' Hm' I'. destruct (Z.eq_dec eid' eid) as [->|N].
        * assert (met' = met) by (eapply (wf_inj _ _ _ _ RW); eauto using aget_In). lia.
        * rewrite aget_aset_neq by auto. intros H'. eapply RL; eauto.
    - cbv beta iota zeta. unfold base_append. cbn [l_store with_cache l_cache].
      destruct (st_append_ok c (l_store s) 0 (rep idx) t RS Ht (or_introl eq_refl)) as (st' & EA & SO' & HL' & LE').
      rewrite EA, RR. cbn [l_cache].
      assert (WWs : cache_wf mut rep (l_cache s) st') by (eapply wf_store_mono; eauto).
      destruct (wf_add_ref mut rep (l_cache s) st' met (rep idx) (c_iter (l_cache s)) WWs)
        as (WA & HLE & HNEW & HFRESH); auto.
      { unfold met. now apply exp_lset_report. }
      eexists. exists 0. split; [reflexivity|].
      split; [|repeat split; reflexivity].
      constructor; cbn [l_store l_cache with_cache]; auto.
      intros met' eid' e' Hm' I'. unfold add_ref in *. cbn [fst c_series c_heap c_iter] in *.
      destruct (In_aset _ _ _ _ _ I') as [[-> ->]|I'']; [lia|].
      assert (eid' <> c_next (l_cache s)).
      { intros ->. destruct (wf_series _ _ _ _ RW _ _ I''). congruence. }
      rewrite aget_aset_neq by auto. intros H'. eapply RL; eauto.
  Qed.

  Lemma add_reports_ok t vals : forall s,
    rinv s -> min_valid c <= t -> Forall (fun p : Z * val => 0 <= fst p) vals ->
    exists s' new, add_reports c rep s t vals = (s', true) /\ rinv s' /\
      c_cur (l_cache s') = c_cur (l_cache s) /\ c_prev (l_cache s') = c_prev (l_cache s) /\
      c_iter (l_cache s') = c_iter (l_cache s) /\
      l_apps s' = rev new ++ l_apps s /\
      map app_proj new = map (fun p : Z * val => (rep (fst p), t, snd p)) vals /\
      Forall (fun x => a_rout x = R (a_lset x)) new.
  Proof.
    induction vals as [|[idx v] rest IH]; intros s RI Ht F.
    - exists s, []. cbn. split; [reflexivity|]. split; [exact RI|]. repeat split; auto.
    - inversion F as [|? ? Hi F']; subst. cbn [fst] in Hi.
      destruct (add_report_ok s idx t v RI Hi Ht) as (s1 & r & E1 & R1 & C1 & C2 & C3 & A1).
      destruct (IH s1 R1 Ht F') as (s2 & new & E2 & R2 & D1 & D2 & D3 & A2 & M2 & F2).
      exists s2, (mkApp r (rep idx) t v (R (rep idx)) :: new).
      cbn [add_reports]. rewrite E1, E2. split; [reflexivity|]. split; [exact R2|].
      repeat split; try congruence.
      + rewrite A2, A1. cbn [rev]. now rewrite <- app_assoc.
      + cbn [map]. rewrite M2. reflexivity.
      + constructor; auto.
  Qed.

  Lemma report_vals_idx up total added sadded bytes :
    Forall (fun p : Z * val => 0 <= fst p) (report_vals c up total added sadded bytes).
  Proof. unfold report_vals. destruct (extra c); repeat constructor; cbn; lia. Qed.
  Lemma stale_report_vals_idx : Forall (fun p : Z * val => 0 <= fst p) (stale_report_vals c).
  Proof. unfold stale_report_vals. destruct (extra c); repeat constructor; cbn; lia. Qed.

  Definition marker_ok (x : app) : Prop := a_rout x = a_rin x /\ a_rin x = R (a_lset x).
  Definition report_apps (t : Z) (vals : list (Z * val)) (reps : list app) : Prop :=
    map app_proj reps = map (fun p : Z * val => (rep (fst p), t, snd p)) vals /\
    Forall (fun x => a_rout x = R (a_lset x)) reps.

  (* the tail of every step: markers for everything tracked before and not seen now, report *)
  Lemma finish_ok t ca st vals :
    store_ok st -> cache_wf mut rep ca st -> inb c t -> Forall (fun p : Z * val => 0 <= fst p) vals ->
    exists ca' st' markers reps,
      finish c rep t ca st vals = (ca', st', [mkBatch true (markers ++ reps)]) /\
      ginv (ca', st') /\
      Forall (marker_at t) markers /\ Forall marker_ok markers /\
      (forall l, In l (map a_lset markers) <->
                 amem (R l) (c_prev ca) = true /\ amem (R l) (c_cur ca) = false) /\
      report_apps t vals reps /\
      (forall l, tracked (ca', st') l <-> amem (R l) (c_cur ca) = true).
  Proof.
    intros SO W Ht FV. unfold finish, append_empty.
    destruct (stale_list_facts mut rep ca st W) as [SF SL].
    destruct (stale_appends_ok c false t (stale_list ca) (fresh ca st) SO Ht SF)
      as (s1 & E1 & A1 & SO1 & LE1 & C1 & _).
    change (l_cache (fresh ca st)) with ca. rewrite E1. cbn [l_cache fresh l_apps l_store] in *.
    rewrite app_nil_r in A1.
    assert (W1 : cache_wf mut rep ca (l_store s1)) by (eapply wf_store_mono; eauto).
    rewrite C1.
    destruct (iter_done_ginv ca (l_store s1) false SO1 W1) as [G EP].
    set (s2 := with_cache s1 (iter_done ca false)).
    assert (R2 : rinv s2).
    { destruct G. constructor; cbn; auto. }
    destruct (add_reports_ok t vals s2 R2 (proj1 Ht) FV) as (s3 & new & E3 & R3 & D1 & D2 & D3 & A3 & M3 & F3).
    rewrite E3.
    set (mk := map (fun p : Z * Z => mkApp (fst p) (snd p) t VStale (fst p)) (stale_list ca)).
    exists (l_cache s3), (l_store s3), mk, new.
    split.
    { unfold batch_of. rewrite A3. cbn [l_apps s2 with_cache]. rewrite A1.
      rewrite rev_app_distr, !rev_involutive. reflexivity. }
    split.
    { destruct R3 as [r1 r2 r3]. destruct G as [g1 g2 g3 g4]. constructor; cbn [fst snd]; auto.
      all: try (rewrite D1; exact g3). }
    split.
    { unfold mk. apply Forall_forall. intros x I. apply in_map_iff in I. destruct I as (p & <- & _). split; reflexivity. }
    split.
    { unfold mk. apply Forall_forall. intros x I. apply in_map_iff in I. destruct I as (p & <- & Ip).
      rewrite Forall_forall in SF. destruct (SF _ Ip). split; cbn; auto. }
    split.
    { intros l. rewrite <- SL. unfold mk. rewrite !map_map. cbn. reflexivity. }
    split; [split; auto|].
    intros l. unfold tracked. cbn [fst]. rewrite D2. cbn [l_cache s2 with_cache]. rewrite EP. reflexivity.
  Qed.
End Hist.

Section StepTheorems.
  Variable c : cfg.
  Variable mut : Z -> mres.
  Variable rep : Z -> Z.

  (* steps covered by Part 2: no reference change (the storage forgets no series), scrape time
     and explicit timestamps accepted by the storage, metric texts are not report names *)
  Definition step_ok (sp : step) : Prop :=
    st_gc sp = [] /\ inb c (st_time sp) /\
    match st_out sp with
    | OBody es _ _ => Forall (entry_ok c (st_time sp)) es
    | _ => True
    end.

  Lemma st_gc_nil st : st_gc_apply st [] = st.
  Proof. destruct st; reflexivity. Qed.

  Definition quiet_vals (sp : step) : list (Z * val) :=
    match st_out sp with
    | OFail bsz => report_vals c 0 0 0 0 (if bsz then -1 else 0)
    | OGone => stale_report_vals c
    | OBody _ _ _ => report_vals c 1 0 0 0 0
    end.

  Definition quiet (sp : step) : Prop :=
    match st_out sp with OBody _ _ len => len = 0 | _ => True end.

  (* scrape error, empty body, end of run: a marker for every tracked series, nothing tracked afterwards *)
  Lemma quiet_step S sp S' bs :
    ginv mut rep S -> step_ok sp -> quiet sp -> do_step c mut rep S sp = (S', bs) ->
    exists markers reps,
      bs = [mkBatch true (markers ++ reps)] /\
      Forall (marker_at (st_time sp)) markers /\ Forall marker_ok markers /\
      (forall l, In l (map a_lset markers) <-> tracked S l) /\
      report_apps rep (st_time sp) (quiet_vals sp) reps /\
      ginv mut rep S' /\ (forall l, ~ tracked S' l).
  Proof.
    intros [G1 G2 G3 G4] (HG & HT & HE) HQ. destruct S as [ca st]. cbn [fst snd] in *.
    unfold do_step, quiet, quiet_vals in *. rewrite HG, st_gc_nil.
    assert (FIN : forall vals, Forall (fun p : Z * val => 0 <= fst p) vals ->
              forall ca' st' bs', finish c rep (st_time sp) ca st vals = (ca', st', bs') ->
              exists markers reps,
                bs' = [mkBatch true (markers ++ reps)] /\
                Forall (marker_at (st_time sp)) markers /\ Forall marker_ok markers /\
                (forall l, In l (map a_lset markers) <-> tracked (ca, st) l) /\
                report_apps rep (st_time sp) vals reps /\
                ginv mut rep (ca', st') /\ (forall l, ~ tracked (ca', st') l)).
    { intros vals FV ca' st' bs' EF.
      destruct (finish_ok c mut rep (st_time sp) ca st vals G1 G2 HT FV)
        as (ca2 & st2 & mk & reps & EF2 & GI & M1 & M2 & M3 & RA & TR).
      rewrite EF2 in EF. injection EF as <- <- <-.
      exists mk, reps. split; [reflexivity|]. split; [exact M1|]. split; [exact M2|].
      split; [|split; [exact RA|split; [exact GI|]]].
      - intros l. rewrite M3. unfold tracked. cbn [fst]. rewrite G3. cbn. tauto.
      - intros l T. apply TR in T. rewrite G3 in T. discriminate. }
    destruct (st_out sp) as [es bad len|bsz|].
    - subst len. cbn [Z.eqb].
      destruct (finish c rep (st_time sp) ca st (report_vals c 1 0 0 0 0)) as [[ca' st'] bs'] eqn:EF.
      intros [= <- <-]. eapply FIN; eauto. apply report_vals_idx.
    - destruct (finish c rep (st_time sp) ca st _) as [[ca' st'] bs'] eqn:EF.
      intros [= <- <-]. eapply FIN; eauto. apply report_vals_idx.
    - destruct (finish c rep (st_time sp) ca st _) as [[ca' st'] bs'] eqn:EF.
      intros [= <- <-]. eapply FIN; eauto. apply stale_report_vals_idx.
  Qed.

  Lemma winv_fresh ca st : ginv mut rep (ca, st) -> winv mut rep (c_iter ca) (c_prev ca) (fresh ca st).
  Proof. intros [G1 G2 G3 G4]. constructor; cbn; auto. Qed.

  Lemma sim_fresh ca st : ginv mut rep (ca, st) -> sim c (c_iter ca) ca [] 0 0 0 abs0.
  Proof.
    intros [G1 G2 G3 G4]. cbn [fst snd] in *. constructor; cbn; auto.
    - intros met eid e Hm Hs He. pose proof (G4 _ _ _ Hm (aget_In _ _ _ Hs) He). split; [lia|tauto].
    - intros l. rewrite G3. cbn. split; [discriminate|tauto].
    - intros L0. split; lia.
  Qed.

  (* a body that scrapeLoop.append accepts *)
  Lemma body_step S sp es len S' bs :
    ginv mut rep S -> step_ok sp -> st_out sp = OBody es false len -> len <> 0 ->
    do_step c mut rep S sp = (S', bs) -> ~ step_failed c mut S sp ->
    exists samples markers reps sadded,
      bs = [mkBatch true (samples ++ markers ++ reps)] /\
      map app_proj samples = map samp_inj (rev (ab_samples (abs_body c mut (st_time sp) es))) /\
      Forall (fun x => a_rout x = R (a_lset x)) samples /\
      Forall (marker_at (st_time sp)) markers /\ Forall marker_ok markers /\
      (forall l, In l (map a_lset markers) <->
                 tracked S l /\ ~ In l (ab_tracked (abs_body c mut (st_time sp) es))) /\
      report_apps rep (st_time sp)
        (report_vals c 1 (ab_total (abs_body c mut (st_time sp) es))
                     (ab_added (abs_body c mut (st_time sp) es)) sadded len) reps /\
      ginv mut rep S' /\
      (forall l, tracked S' l <-> In l (ab_tracked (abs_body c mut (st_time sp) es))).
  Proof.
    intros G (HG & HT & HE) HO HL. destruct S as [ca st].
    unfold do_step, step_failed. cbn [fst snd]. rewrite HO in *. rewrite HG, st_gc_nil.
    apply Z.eqb_neq in HL. rewrite HL. apply Z.eqb_neq in HL.
    set (t := st_time sp) in *.
    unfold append_body.
    destruct (run_entries_sim c mut rep (c_iter ca) (c_prev ca) t es (fresh ca st) abs0 (winv_fresh _ _ G) HE)
      as (s1 & HR & W1 & _ & S1 & _ & _).
    destruct HR as [HR|[HR _]]; rewrite HR.
    2:{ cbn. intros _ NF. exfalso. apply NF. split; auto. }
    destruct (l_limit_err s1) eqn:ELIM.
    { cbn. intros _ NF. exfalso. apply NF. split; auto. }
    specialize (S1 HR eq_refl (sim_fresh _ _ G)). fold (abs_body c mut t es) in S1.
    set (a := abs_body c mut t es) in *.
    destruct W1 as [WS WW WI WP].
    destruct (stale_list_facts mut rep (l_cache s1) (l_store s1) WW) as [SF SL].
    destruct (stale_appends_ok c true t (stale_list (l_cache s1)) s1 WS HT SF)
      as (s2 & E2 & A2 & SO2 & LE2 & C1 & C2 & C3 & C4 & C5).
    rewrite E2.
    assert (W2 : cache_wf mut rep (l_cache s1) (l_store s2)) by (eapply wf_store_mono; eauto).
    destruct (iter_done_ginv mut rep (l_cache s1) (l_store s2) true SO2 W2) as [GI EP].
    rewrite C1.
    set (s3 := with_cache s2 (iter_done (l_cache s1) true)).
    assert (R3 : rinv mut rep s3).
    { destruct GI as [g1 g2 g3 g4]. constructor; cbn; auto. }
    cbn [l_total l_added l_sadded s3 with_cache].
    destruct (add_reports_ok c mut rep t (report_vals c 1 (l_total s2) (l_added s2) (l_sadded s2) len) s3 R3 (proj1 HT)
                (report_vals_idx c _ _ _ _ _))
      as (s4 & new & E4 & R4 & D1 & D2 & D3 & A4 & M4 & F4).
    fold s3. rewrite E4. intros [= <- <-] _.
    set (mk := map (fun p : Z * Z => mkApp (fst p) (snd p) t VStale (fst p)) (stale_list (l_cache s1))) in *.
    exists (rev (l_apps s1)), mk, new, (l_sadded s2).
    destruct S1 as [s_seen s_cached s_tracked s_apps s_rout s_total s_added s_li].
    split.
    { unfold batch_of. rewrite A4. cbn [l_apps s3 with_cache]. rewrite A2.
      rewrite !rev_app_distr, !rev_involutive. now rewrite app_assoc. }
    split. { rewrite map_rev, s_apps, map_rev. reflexivity. }
    split. { apply Forall_rev. exact s_rout. }
    split.
    { unfold mk. apply Forall_forall. intros x I. apply in_map_iff in I. destruct I as (p & <- & _). split; reflexivity. }
    split.
    { unfold mk. apply Forall_forall. intros x I. apply in_map_iff in I. destruct I as (p & <- & Ip).
      rewrite Forall_forall in SF. destruct (SF _ Ip). split; cbn; auto. }
    split.
    { intros l. unfold mk. rewrite map_map. cbn [a_lset]. rewrite (SL l). unfold tracked. cbn [fst].
      rewrite WP. rewrite <- (s_tracked l).
      destruct (amem (R l) (c_cur (l_cache s1))); split; intros [X Y]; split; auto; congruence. }
    split. { rewrite <- s_total, <- s_added, <- C2, <- C3. split; auto. }
    split.
    { destruct R4 as [r1 r2 r3]. destruct GI as [g1 g2 g3 g4]. constructor; cbn [fst snd]; auto.
      all: try (rewrite D1; exact g3). }
    intros l. unfold tracked. cbn [fst]. rewrite D2. cbn [l_cache s3 with_cache]. rewrite EP.
    apply s_tracked.
  Qed.

  (* a body that scrapeLoop.append rejects: the invariant survives *)
  Lemma failed_body_step S sp es bad len S' bs :
    ginv mut rep S -> step_ok sp -> st_out sp = OBody es bad len -> len <> 0 ->
    do_step c mut rep S sp = (S', bs) -> step_failed c mut S sp -> ginv mut rep S'.
  Proof.
    intros G (HG & HT & HE) HO HL. destruct S as [ca st].
    unfold do_step, step_failed. cbn [fst snd]. rewrite HO in *. rewrite HG, st_gc_nil.
    apply Z.eqb_neq in HL. rewrite HL.
    set (t := st_time sp) in *.
    destruct (append_body c mut t ca st es bad) as [s1 ok] eqn:EA. cbn [snd].
    intros H [_ ->].
    assert (W1 : store_ok (l_store s1) /\ cache_wf mut rep (l_cache s1) (l_store s1)).
    { unfold append_body in EA.
      destruct (run_entries_sim c mut rep (c_iter ca) (c_prev ca) t es (fresh ca st) abs0 (winv_fresh _ _ G) HE)
        as (s0 & HR & [WS WW WI WP] & _ & _ & _ & _).
      destruct HR as [HR|[HR _]]; rewrite HR in EA.
      2:{ injection EA as <-. auto. }
      destruct bad; [injection EA as <-; auto|].
      destruct (l_limit_err s0); [injection EA as <-; auto|].
      destruct (stale_list_facts mut rep (l_cache s0) (l_store s0) WW) as [SF SL].
      destruct (stale_appends_ok c true t (stale_list (l_cache s0)) s0 WS HT SF)
        as (s2 & E2 & _). rewrite E2 in EA. discriminate EA. }
    destruct W1 as [WS WW].
    destruct (finish_ok c mut rep t (l_cache s1) (l_store s1) (report_vals c 0 (l_total s1) (l_added s1) (l_sadded s1) len)
                WS WW HT (report_vals_idx c _ _ _ _ _))
      as (ca2 & st2 & mk & reps & EF2 & GI & _).
    rewrite EF2 in H. injection H as <- _. exact GI.
  Qed.

  (* when scrapeLoop.append accepts a body, in terms of the body alone *)
  Definition body_accepts (t : Z) (es : list body_entry) (bad : bool) : Prop :=
    bad = false /\
    Forall (fun en => mut (en_met en) <> MErr) es /\
    (0 < sample_limit c ->
     Z.of_nat (length (ab_samples (abs_body c mut t es))) <= sample_limit c).

  Lemma accept_iff S sp es bad len :
    ginv mut rep S -> step_ok sp -> st_out sp = OBody es bad len -> len <> 0 ->
    (~ step_failed c mut S sp <-> body_accepts (st_time sp) es bad).
  Proof.
    intros G (HG & HT & HE) HO HL. destruct S as [ca st].
    unfold step_failed, body_accepts. cbn [fst snd]. rewrite HO in *. rewrite HG, st_gc_nil.
    set (t := st_time sp) in *. unfold append_body.
    destruct (run_entries_sim c mut rep (c_iter ca) (c_prev ca) t es (fresh ca st) abs0 (winv_fresh _ _ G) HE)
      as (s1 & HR & W1 & _ & S1 & L1 & A1).
    fold (abs_body c mut t es) in S1, L1.
    assert (NOERR : (exists s'', run_entries c mut t (fresh ca st) es = LAbort s'') \/
                    Forall (fun en => mut (en_met en) <> MErr) es).
    { destruct (Exists_dec (fun en => mut (en_met en) = MErr) es) as [EX|NEX].
      - intros en. destruct (mut (en_met en)); [right|right|left]; congruence.
      - left. now apply A1.
      - right. apply Forall_Exists_neg. exact NEX. }
    destruct HR as [HR|[HR EX]].
    - rewrite HR. destruct W1 as [WS WW WI WP].
      destruct (stale_list_facts mut rep (l_cache s1) (l_store s1) WW) as [SF SL].
      destruct (stale_appends_ok c true t (stale_list (l_cache s1)) s1 WS HT SF) as (s2 & E2 & _).
      assert (NF : Forall (fun en => mut (en_met en) <> MErr) es).
      { destruct NOERR as [[s'' E]|F]; auto. congruence. }
      destruct bad.
      { cbn. split; [intros NFL; exfalso; apply NFL; auto|intros [X _]; discriminate]. }
      destruct (l_limit_err s1) eqn:ELIM.
      + cbn. split; [intros NFL; exfalso; apply NFL; auto|].
        intros (_ & _ & LIM). destruct (L1 HR eq_refl eq_refl (sim_fresh _ _ G)) as [X Y].
        specialize (LIM X). lia.
      + rewrite E2. cbn. split.
        * intros _. split; auto. split; auto. intros L0.
          destruct (sim_li _ _ _ _ _ _ _ _ (S1 HR eq_refl (sim_fresh _ _ G)) L0) as [X Y]. lia.
        * intros _ [_ X]. discriminate.
    - rewrite HR. cbn. split; [intros NFL; exfalso; apply NFL; auto|].
      intros (_ & NF & _). exfalso. rewrite Forall_forall in NF. apply Exists_exists in EX.
      destruct EX as (en & I & E). now apply (NF en I).
  Qed.

  Lemma step_ginv S sp : ginv mut rep S -> step_ok sp -> ginv mut rep (fst (do_step c mut rep S sp)).
  Proof.
    intros G OK. destruct (do_step c mut rep S sp) as [S' bs] eqn:E. cbn [fst].
    destruct (st_out sp) as [es bad len|bsz|] eqn:HO.
    - destruct (Z.eq_dec len 0) as [->|N].
      + destruct (quiet_step S sp S' bs G OK) as (? & ? & _ & _ & _ & _ & _ & GI & _); auto.
        unfold quiet. now rewrite HO.
      + destruct (append_body c mut (st_time sp) (fst S) (st_gc_apply (snd S) (st_gc sp)) es bad) as [s1 ok] eqn:EA.
        destruct ok.
        * destruct bad.
          { exfalso. unfold append_body in EA. destruct (run_entries _ _ _ _ _); discriminate. }
          destruct (body_step S sp es len S' bs G OK HO N E) as (? & ? & ? & ? & _ & _ & _ & _ & _ & _ & _ & GI & _); auto.
          unfold step_failed. rewrite HO, EA. cbn. intros [_ X]; discriminate.
        * eapply failed_body_step; eauto. unfold step_failed. rewrite HO, EA. auto.
    - destruct (quiet_step S sp S' bs G OK) as (? & ? & _ & _ & _ & _ & _ & GI & _); auto.
      unfold quiet. now rewrite HO.
    - destruct (quiet_step S sp S' bs G OK) as (? & ? & _ & _ & _ & _ & _ & GI & _); auto.
      unfold quiet. now rewrite HO.
  Qed.

  Lemma fold_ginv h : forall S, ginv mut rep S -> Forall step_ok h ->
    ginv mut rep (fold_left (fun S sp => fst (do_step c mut rep S sp)) h S).
  Proof.
    induction h as [|sp r IH]; intros S G F; cbn; auto.
    inversion F; subst. apply IH; auto. now apply step_ginv.
  Qed.

  Lemma reachable_ginv h : Forall step_ok h -> ginv mut rep (state_after c mut rep h).
  Proof. intros F. unfold state_after. apply fold_ginv; auto. apply ginv_init. Qed.
End StepTheorems.

Section HistoryTheorems.
  Variable c : cfg.
  Variable mut : Z -> mres.
  Variable rep : Z -> Z.

  Lemma state_after_snoc h sp :
    state_after c mut rep (h ++ [sp]) = fst (do_step c mut rep (state_after c mut rep h) sp).
  Proof. unfold state_after. now rewrite fold_left_app. Qed.

  (* staleness markers at scrape k+1 = series tracked by body k minus series tracked by body k+1,
     for two consecutive accepted bodies after any history *)
  Lemma consecutive_bodies h sp1 sp2 es1 len1 es2 len2 S2 bs2 :
    Forall (step_ok c) h -> step_ok c sp1 -> step_ok c sp2 ->
    st_out sp1 = OBody es1 false len1 -> len1 <> 0 ->
    st_out sp2 = OBody es2 false len2 -> len2 <> 0 ->
    ~ step_failed c mut (state_after c mut rep h) sp1 ->
    ~ step_failed c mut (state_after c mut rep (h ++ [sp1])) sp2 ->
    do_step c mut rep (state_after c mut rep (h ++ [sp1])) sp2 = (S2, bs2) ->
    exists samples markers reps,
      bs2 = [mkBatch true (samples ++ markers ++ reps)] /\
      Forall (marker_at (st_time sp2)) markers /\
      (forall l, In l (map a_lset markers) <->
                 In l (ab_tracked (abs_body c mut (st_time sp1) es1)) /\
                 ~ In l (ab_tracked (abs_body c mut (st_time sp2) es2))).
  Proof.
    intros FH OK1 OK2 HO1 HL1 HO2 HL2 NF1 NF2 E2.
    pose proof (reachable_ginv c mut rep h FH) as G0.
    destruct (do_step c mut rep (state_after c mut rep h) sp1) as [S1 bs1] eqn:E1.
    destruct (body_step c mut rep _ sp1 es1 len1 S1 bs1 G0 OK1 HO1 HL1 E1 NF1)
      as (_ & _ & _ & _ & _ & _ & _ & _ & _ & _ & _ & G1 & T1).
    assert (ES : state_after c mut rep (h ++ [sp1]) = S1) by (rewrite state_after_snoc, E1; reflexivity).
    rewrite ES in *.
    destruct (body_step c mut rep S1 sp2 es2 len2 S2 bs2 G1 OK2 HO2 HL2 E2 NF2)
      as (sm & mk & rp & sa & B & _ & _ & M1 & _ & M3 & _).
    exists sm, mk, rp. split; [exact B|]. split; [exact M1|].
    intros l. rewrite M3, T1. tauto.
  Qed.

  (* what a tracked label set is, in terms of the body alone *)
  Lemma ab_tracked_sound t es : forall a l,
    In l (ab_tracked (fold_left (abs_entry c mut t) es a)) ->
    In l (ab_tracked a) \/
    exists en, In en es /\ mut (en_met en) = MKeep l /\ (nots c en = true \/ track_ts c = true).
  Proof.
    induction es as [|en r IH]; intros a l; cbn [fold_left]; auto.
    intros I. destruct (IH _ _ I) as [I'|(en' & I1 & I2)].
    - unfold abs_entry in I'. destruct (mut (en_met en)) as [l0| |] eqn:EM; cbn in I'; auto.
      destruct (nots c en && memb (en_met en) (ab_seen a)); cbn in I'; auto.
      destruct (nots c en || track_ts c) eqn:ET; auto.
      destruct I' as [<-|I']; auto. right. exists en. split; [now left|]. split; auto.
      apply orb_true_iff in ET. exact ET.
    - right. exists en'. split; [now right|exact I2].
  Qed.
End HistoryTheorems.

(* ------------------------------------------------------------------ Part 3: the refutation *)
Definition has_marker (bs : list batch) (l : Z) : bool :=
  existsb (fun b => b_commit b &&
                    existsb (fun x => is_stale (a_val x) && (a_lset x =? l)) (b_apps b)) bs.

Definition rf_cfg : cfg := mkCfg true false 2 false 10 0 1000000.
Definition rf_mut (m : Z) : mres := MKeep m.
Definition rf_rep (i : Z) : Z := 100 + i.
Definition rf_h : list step := [mkStep 1000 [] (OBody [mkE 1 None 5; mkE 2 None 6] false 8)].
Definition rf_sp : step := mkStep 2000 [] (OBody [mkE 1 None 7; mkE 2 None 8; mkE 3 None 9] false 12).

(* label set 1 was stored and tracked by the first scrape; the second scrape exceeds
   sample_limit = 2 after two samples were appended: it fails (up = 0, nothing of it stored) but
   commits no staleness marker for label set 1 *)
Lemma failed_body_marks_all_refuted :
  exists c mut rep h sp,
    Forall (step_ok c) h /\ step_ok c sp /\
    step_failed c mut (state_after c mut rep h) sp /\
    tracked (state_after c mut rep h) 1 /\
    has_marker (snd (do_step c mut rep (state_after c mut rep h) sp)) 1 = false.
Proof.
  exists rf_cfg, rf_mut, rf_rep, rf_h, rf_sp.
  split; [|split; [|split; [|split]]].
  - repeat constructor; cbn; lia.
  - repeat constructor; cbn; lia.
  - unfold step_failed. cbn [st_out rf_sp]. split; [lia|]. vm_compute. reflexivity.
  - unfold tracked. vm_compute. reflexivity.
  - vm_compute. reflexivity.
Qed.

(* the hypotheses of body_step / consecutive_bodies are satisfiable (and the marker set non-empty) *)
Definition nv_cfg : cfg := mkCfg true false 0 false 10 0 1000000.
Definition nv_sp1 : step := mkStep 1000 [] (OBody [mkE 1 None 5; mkE 2 None 6; mkE 2 None 7] false 12).
Definition nv_sp2 : step := mkStep 2000 [] (OBody [mkE 2 None 7; mkE 3 (Some 1500) 9] false 12).
Lemma nonvacuous_example :
  Forall (step_ok nv_cfg) [nv_sp1] /\ step_ok nv_cfg nv_sp2 /\
  ~ step_failed nv_cfg rf_mut (state_after nv_cfg rf_mut rf_rep [nv_sp1]) nv_sp2 /\
  ab_tracked (abs_body nv_cfg rf_mut 1000 [mkE 1 None 5; mkE 2 None 6; mkE 2 None 7]) = [2; 1] /\
  ab_tracked (abs_body nv_cfg rf_mut 2000 [mkE 2 None 7; mkE 3 (Some 1500) 9]) = [2] /\
  has_marker (snd (do_step nv_cfg rf_mut rf_rep (state_after nv_cfg rf_mut rf_rep [nv_sp1]) nv_sp2)) 1 = true.
Proof.
  split; [|split; [|split; [|split; [|split]]]].
  - repeat constructor; cbn; lia.
  - repeat constructor; cbn; lia.
  - unfold step_failed. cbn [st_out nv_sp2]. intros [_ H]. vm_compute in H. discriminate.
  - vm_compute. reflexivity.
  - vm_compute. reflexivity.
  - vm_compute. reflexivity.
Qed.

(* a second refutation, outside the scope of Part 2 (the storage changes a reference): two metric
   texts (1 and 2) carry the same label set 5; both are scraped; the storage forgets the series;
   the next scrape exposes text 1 only, with an explicit timestamp (tracking of timestamped series
   on).  updateRef re-keys the staleness tracking of text 1's entry only if the tracked entry IS
   that entry — here seriesPrev holds text 2's entry under the old reference, so label set 5 gets a
   staleness marker at the scrape time although it is exposed and stored in this very scrape. *)
Definition has_sample (bs : list batch) (l : Z) : bool :=
  existsb (fun b => b_commit b &&
                    existsb (fun x => negb (is_stale (a_val x)) && (a_lset x =? l) && negb (a_rout x =? 0))
                            (b_apps b)) bs.
Definition al_cfg : cfg := mkCfg true true 0 false 10 0 1000000.
Definition al_mut (m : Z) : mres := MKeep 5.
Definition al_h : list step := [mkStep 1000 [] (OBody [mkE 1 None 5; mkE 2 None 6] false 8)].
Definition al_sp : step := mkStep 2000 [5] (OBody [mkE 1 (Some 1900) 7] false 8).

Lemma alias_ref_change_marker_refuted :
  exists c mut rep h sp l,
    ~ step_failed c mut (state_after c mut rep h) sp /\
    has_sample (snd (do_step c mut rep (state_after c mut rep h) sp)) l = true /\
    has_marker (snd (do_step c mut rep (state_after c mut rep h) sp)) l = true.
Proof.
  exists al_cfg, al_mut, rf_rep, al_h, al_sp, 5.
  split; [|split].
  - unfold step_failed. cbn [st_out al_sp]. intros [_ H]. vm_compute in H. discriminate.
  - vm_compute. reflexivity.
  - vm_compute. reflexivity.
Qed.

(* proof/BackfillProofs.v — proofs about model/Backfill.v (property C50). *)
From Coq Require Import List ZArith Bool Lia Sorting.Sorted.
From Verif Require Import lib.Int64 model.Backfill.
Import ListNotations.
Open Scope Z_scope.

(* ------------------------------------------------------------------ small list facts *)
Lemma filter_none {A} (f : A -> bool) l : (forall x, In x l -> f x = false) -> filter f l = [].
Proof.
  induction l as [|a l IH]; intros H; simpl; auto.
  rewrite (H a (or_introl eq_refl)). apply IH. intros x Hx. apply H. now right.
Qed.

Lemma NoDup_app_intro {A} (l1 l2 : list A) :
  NoDup l1 -> NoDup l2 -> (forall x, In x l1 -> In x l2 -> False) -> NoDup (l1 ++ l2).
Proof.
  induction l1 as [|a l1 IH]; intros H1 H2 Hd; simpl; auto.
  inversion H1; subst. constructor.
  - intros Hin. apply in_app_or in Hin. destruct Hin as [Hin|Hin]; auto.
    apply (Hd a); simpl; auto.
  - apply IH; auto. intros x Hx1 Hx2. apply (Hd x); simpl; auto.
Qed.

Lemma div_window d k t : 0 < d -> d * k <= t < d * k + d -> t / d = k.
Proof. intros Hd H. symmetry. apply Z.div_unique with (r := t - d * k); lia. Qed.

(* ------------------------------------------------------------------ samples_of *)
Lemma samples_of_in l s t v : In (s, t, v) (samples_of l) <-> In (ESample s (Some t) v) l.
Proof.
  induction l as [|e l IH]; simpl; [tauto|].
  destruct e as [s' [t'|] v'| |]; simpl; rewrite ?IH; split; intros H.
  - destruct H as [H|H]; [inversion H; subst; auto|auto].
  - destruct H as [H|H]; [inversion H; subst; auto|auto].
  - auto.
  - destruct H as [H|H]; [discriminate|auto].
  - auto.
  - destruct H as [H|H]; [discriminate|auto].
  - auto.
  - destruct H as [H|H]; [discriminate|auto].
Qed.

Lemma well_formed_cons e l : well_formed (e :: l) -> well_formed l.
Proof. intros H x Hx. apply H. now right. Qed.

Lemma well_formedb_spec l : well_formedb l = true <-> well_formed l.
Proof.
  unfold well_formedb, well_formed. rewrite forallb_forall. split; intros H e He; specialize (H e He).
  - destruct e as [s [t|] v| |]; auto; discriminate.
  - destruct e as [s [t|] v| |]; auto; contradiction.
Qed.

(* ------------------------------------------------------------------ getMinAndMaxTimestamps *)
Lemma mm_loop_ok_wf l : forall a b A B, mm_loop l a b = MMOk A B -> well_formed l.
Proof.
  induction l as [|e l IH]; intros a b A B H x Hx; [destruct Hx|].
  destruct e as [s [t|] v| |]; simpl in H; try discriminate.
  - destruct Hx as [<-|Hx]; auto. eapply IH; eauto.
  - destruct Hx as [<-|Hx]; auto. eapply IH; eauto.
Qed.

Lemma mm_loop_wf_ok l : well_formed l -> forall a b, exists A B, mm_loop l a b = MMOk A B.
Proof.
  induction l as [|e l IH]; intros Hw a b; simpl; eauto.
  pose proof (Hw e (or_introl eq_refl)) as He. apply well_formed_cons in Hw.
  destruct e as [s [t|] v| |]; try contradiction; auto.
Qed.

Lemma mm_loop_not_wf l : ~ well_formed l -> forall a b, exists e,
  (mm_loop l a b = MMErrParse \/ mm_loop l a b = MMErrNoTs) /\ e = tt.
Proof.
  intros Hn a b. exists tt. split; auto.
  destruct (mm_loop l a b) eqn:E; auto. exfalso. apply Hn. eapply mm_loop_ok_wf; eauto.
Qed.

Lemma mm_loop_bounds l : forall a b A B, mm_loop l a b = MMOk A B ->
  (forall x, In x (samples_of l) -> minInt64 < s_ts x < maxInt64) ->
  (a = minInt64 \/ a <= A) /\ (b = maxInt64 \/ B <= b) /\
  forall x, In x (samples_of l) -> B <= s_ts x <= A.
Proof.
  induction l as [|e l IH]; intros a b A B H Hr.
  - simpl in H. inversion H; subst; clear H. simpl.
    repeat split; try tauto.
    + destruct (a =? minInt64) eqn:E; [apply Z.eqb_eq in E; auto|right; lia].
    + destruct (b =? maxInt64) eqn:E; [apply Z.eqb_eq in E; auto|right; lia].
  - destruct e as [s [t|] v| |]; simpl in H; try discriminate.
    + simpl in Hr. assert (Ht : minInt64 < t < maxInt64) by (apply (Hr (s, t, v)); auto).
      specialize (IH _ _ _ _ H (fun x Hx => Hr x (or_intror Hx))).
      destruct IH as (Ha & Hb & Hall).
      assert (Ha' : t <= A /\ a <= A \/ a = minInt64 /\ t <= A).
      { destruct (t >? a) eqn:E; [apply Z.gtb_lt in E|rewrite Z.gtb_ltb in E; apply Z.ltb_ge in E];
          destruct Ha as [Ha|Ha]; try lia. }
      assert (Hb' : B <= t /\ B <= b \/ b = maxInt64 /\ B <= t).
      { destruct (t <? b) eqn:E; [apply Z.ltb_lt in E|apply Z.ltb_ge in E];
          destruct Hb as [Hb|Hb]; try lia. }
      repeat split.
      * destruct Ha' as [?|?]; [right|left]; lia.
      * destruct Hb' as [?|?]; [right|left]; lia.
      * destruct H0 as [<-|H0]; [unfold s_ts; simpl; lia|apply Hall; auto].
      * destruct H0 as [<-|H0]; [unfold s_ts; simpl; lia|apply Hall; auto].
    + simpl in Hr. apply (IH _ _ _ _ H Hr).
Qed.

(* ------------------------------------------------------------------ getCompatibleBlockDuration *)
Lemma block_ranges_val : block_ranges =
  [7200000; 21600000; 64800000; 194400000; 583200000; 1749600000; 5248800000; 15746400000;
   47239200000; 141717600000].
Proof. reflexivity. Qed.

Lemma cbd_spec mx : exists d, compatible_block_duration mx = Some d /\ In d block_ranges /\
  (default_block_duration <= mx -> d <= mx) /\
  (forall r, In r block_ranges -> r <= mx -> r <= d).
Proof.
  unfold compatible_block_duration. rewrite block_ranges_val. unfold default_block_duration.
  destruct (mx >? 7200000) eqn:E0.
  - apply Z.gtb_lt in E0. cbn [pick_idx length Z.of_nat].
    repeat match goal with
    | |- context [?v >? mx] =>
        let E := fresh "E" in destruct (v >? mx) eqn:E;
        [apply Z.gtb_lt in E|rewrite Z.gtb_ltb in E; apply Z.ltb_ge in E]
    end; try lia;
    cbn; eexists; (split; [reflexivity|]); (split; [simpl; tauto|]);
    (split; [lia|]); intros r Hr Hle; simpl in Hr; lia.
  - rewrite Z.gtb_ltb in E0. apply Z.ltb_ge in E0.
    eexists; split; [reflexivity|]. split; [simpl; tauto|]. split; [lia|].
    intros r Hr Hle; simpl in Hr; lia.
Qed.

Lemma block_ranges_pos d : In d block_ranges -> 7200000 <= d.
Proof. rewrite block_ranges_val. simpl. lia. Qed.

(* ------------------------------------------------------------------ first block start *)
Lemma align_start_floor m d : 0 < d -> align_start m d = d * (m / d).
Proof.
  intros Hd. unfold align_start, godiv.
  destruct (m >=? 0) eqn:E.
  - apply Z.geb_le in E. rewrite Z.quot_div_nonneg by lia. reflexivity.
  - rewrite Z.geb_leb in E. apply Z.leb_gt in E.
    f_equal.
    replace (m - d + 1) with (- (d - 1 - m)) by lia.
    rewrite Z.quot_opp_l by lia. rewrite Z.quot_div_nonneg by lia.
    pose proof (Z.div_mod (d - 1 - m) d ltac:(lia)).
    pose proof (Z.mod_pos_bound (d - 1 - m) d Hd).
    pose proof (Z.div_mod m d ltac:(lia)).
    pose proof (Z.mod_pos_bound m d Hd).
    nia.
Qed.

(* ------------------------------------------------------------------ scan *)
Definition in_window (t up : Z) (x : sample) : bool := (t <=? s_ts x) && (s_ts x <? up).
Definition window (l : list sample) (t up : Z) : list sample := filter (in_window t up) l.

Lemma scan_spec l t up : t <= up -> well_formed l -> forall next p, exists next',
  scan l t up next p = Some (rev p ++ window (samples_of l) t up, next') /\
  next' <= next /\ forall x, In x (samples_of l) -> up <= s_ts x -> next' <= s_ts x.
Proof.
  intros Htu. induction l as [|e l IH]; intros Hw next p.
  - simpl. exists next. rewrite app_nil_r. repeat split; auto; try lia; intros x [].
  - pose proof (Hw e (or_introl eq_refl)) as He. apply well_formed_cons in Hw.
    destruct e as [s [ts|] v| |]; try contradiction; simpl; auto.
    unfold window. simpl. unfold in_window at 1. unfold s_ts at 1 2. simpl.
    fold (window (samples_of l) t up).
    destruct (ts <? t) eqn:E1.
    + apply Z.ltb_lt in E1. replace (t <=? ts) with false by (symmetry; apply Z.leb_gt; lia). simpl.
      destruct (IH Hw next p) as (n' & Hs & Hle & Hall). exists n'. repeat split; auto.
      intros x [<-|Hx] Hup; [unfold s_ts in *; simpl in *; lia|auto].
    + apply Z.ltb_ge in E1. replace (t <=? ts) with true by (symmetry; apply Z.leb_le; lia). simpl.
      destruct (ts >=? up) eqn:E2.
      * apply Z.geb_le in E2. replace (ts <? up) with false by (symmetry; apply Z.ltb_ge; lia).
        destruct (IH Hw (if ts <? next then ts else next) p) as (n' & Hs & Hle & Hall).
        exists n'. repeat split; auto.
        { destruct (ts <? next) eqn:E3; [apply Z.ltb_lt in E3|]; lia. }
        intros x [<-|Hx] Hup; [unfold s_ts in *; simpl in *|auto].
        destruct (ts <? next) eqn:E3; [|apply Z.ltb_ge in E3]; lia.
      * rewrite Z.geb_leb in E2. apply Z.leb_gt in E2.
        replace (ts <? up) with true by (symmetry; apply Z.ltb_lt; lia).
        destruct (IH Hw next ((s, ts, v) :: p)) as (n' & Hs & Hle & Hall).
        exists n'. repeat split; auto.
        { rewrite Hs. simpl. rewrite <- app_assoc. reflexivity. }
        intros x [<-|Hx] Hup; [unfold s_ts in *; simpl in *; lia|auto].
Qed.

(* ------------------------------------------------------------------ commit *)
Lemma commit_sound p : forall k x, In x (commit p k) -> In x p \/ In x k.
Proof.
  induction p as [|a p IH]; intros k x H; simpl in *; auto.
  destruct (last_ts k (s_sid a)) as [m|].
  - destruct (s_ts a >? m).
    + apply IH in H. simpl in H. tauto.
    + apply IH in H. tauto.
  - apply IH in H. simpl in H. tauto.
Qed.

Lemma commit_keeps p : forall k x, In x k -> In x (commit p k).
Proof.
  induction p as [|a p IH]; intros k x H; simpl; auto.
  destruct (last_ts k (s_sid a)) as [m|]; [destruct (s_ts a >? m)|]; apply IH; simpl; auto.
Qed.

(* per series, timestamps strictly decrease along the (most recent first) committed list *)
Fixpoint dec_rev (k : list sample) : Prop :=
  match k with
  | [] => True
  | x :: r => (forall y, In y r -> s_sid y = s_sid x -> s_ts y < s_ts x) /\ dec_rev r
  end.

Lemma last_ts_none k s : last_ts k s = None -> forall y, In y k -> s_sid y <> s.
Proof.
  induction k as [|a k IH]; intros H y Hy; [destruct Hy|]. simpl in H.
  destruct (s_sid a =? s) eqn:E; [discriminate|]. apply Z.eqb_neq in E.
  destruct Hy as [<-|Hy]; auto.
Qed.

Lemma last_ts_some k s m : dec_rev k -> last_ts k s = Some m ->
  (exists x, In x k /\ s_sid x = s /\ s_ts x = m) /\ forall y, In y k -> s_sid y = s -> s_ts y <= m.
Proof.
  induction k as [|a k IH]; intros Hd H; [discriminate|]. simpl in H. destruct Hd as [Hd1 Hd2].
  destruct (s_sid a =? s) eqn:E.
  - apply Z.eqb_eq in E. inversion H; subst. split.
    + exists a. simpl; auto.
    + intros y [<-|Hy] Hs; [lia|]. specialize (Hd1 y Hy Hs). lia.
  - apply Z.eqb_neq in E. destruct (IH Hd2 H) as [(x & Hx & Hs & Hm) Hall]. split.
    + exists x. simpl; auto.
    + intros y [<-|Hy] Hs'; [contradiction|auto].
Qed.

Lemma commit_dec p : forall k, dec_rev k -> dec_rev (commit p k).
Proof.
  induction p as [|a p IH]; intros k Hd; simpl; auto.
  destruct (last_ts k (s_sid a)) as [m|] eqn:E.
  - destruct (s_ts a >? m) eqn:E2; [|auto].
    apply Z.gtb_lt in E2. apply IH. simpl. split; auto.
    intros y Hy Hs. destruct (last_ts_some _ _ _ Hd E) as [_ Hall]. specialize (Hall y Hy Hs). lia.
  - apply IH. simpl. split; auto. intros y Hy Hs. exfalso. eapply last_ts_none; eauto.
Qed.

Lemma dec_rev_nodup k : dec_rev k -> NoDup (map key k).
Proof.
  induction k as [|a k IH]; intros Hd; simpl; [constructor|]. destruct Hd as [H1 H2].
  constructor; auto. intros Hin. apply in_map_iff in Hin. destruct Hin as (y & Hk & Hy).
  assert (s_sid y = s_sid a /\ s_ts y = s_ts a) as [Hs Ht].
  { unfold key, s_sid, s_ts in *. rewrite Hk. auto. }
  specialize (H1 y Hy Hs). lia.
Qed.

(* the pending list is ordered: within a series, later entries have later timestamps or are
   exact repetitions *)
Fixpoint ordered1 (l : list sample) : Prop :=
  match l with
  | [] => True
  | x :: r => (forall y, In y r -> s_sid y = s_sid x -> s_ts x < s_ts y \/ y = x) /\ ordered1 r
  end.

Lemma commit_complete p : forall k, dec_rev k -> ordered1 p ->
  (forall x m, In x p -> last_ts k (s_sid x) = Some m -> m < s_ts x \/ In x k) ->
  forall x, In x p -> In x (commit p k).
Proof.
  induction p as [|a p IH]; intros k Hd Ho H1 x Hx; [destruct Hx|].
  destruct Ho as [Ho1 Ho2]. simpl.
  assert (Hnext : forall k', dec_rev k' -> In a k' ->
            (forall y, In y k -> In y k') ->
            (forall s, s <> s_sid a -> last_ts k' s = last_ts k s) ->
            (forall m, last_ts k' (s_sid a) = Some m -> m <= s_ts a) ->
            In x (commit p k')).
  { intros k' Hd' Ha Hsub Hoth Hsame.
    destruct Hx as [<-|Hx]; [apply commit_keeps; auto|].
    apply IH; auto.
    intros y m Hy Hl.
    destruct (Z.eq_dec (s_sid y) (s_sid a)) as [Hs|Hs].
    - rewrite Hs in Hl. specialize (Hsame m Hl).
      destruct (Ho1 y Hy Hs) as [Hlt|Heq]; [left; lia|right; subst; auto].
    - rewrite (Hoth _ Hs) in Hl. destruct (H1 y m (or_intror Hy) Hl) as [?|?]; auto. }
  destruct (last_ts k (s_sid a)) as [m|] eqn:E.
  - destruct (s_ts a >? m) eqn:E2.
    + apply Z.gtb_lt in E2. apply Hnext.
      * simpl. split; auto. intros y Hy Hs.
        destruct (last_ts_some _ _ _ Hd E) as [_ Hall]. specialize (Hall y Hy Hs). lia.
      * simpl; auto.
      * intros y Hy; simpl; auto.
      * intros s Hs. simpl. destruct (s_sid a =? s) eqn:E3; auto. apply Z.eqb_eq in E3. congruence.
      * intros m'. simpl. rewrite Z.eqb_refl. intros Hm; inversion Hm; lia.
    + rewrite Z.gtb_ltb in E2. apply Z.ltb_ge in E2.
      destruct (H1 a m (or_introl eq_refl) E) as [Hlt|Hin]; [lia|].
      destruct Hx as [<-|Hx]; [apply commit_keeps; auto|].
      apply IH; auto. intros y m' Hy Hl. apply (H1 y m'); simpl; auto.
  - apply Hnext.
    + simpl. split; auto. intros y Hy Hs. exfalso. eapply last_ts_none; eauto.
    + simpl; auto.
    + intros y Hy; simpl; auto.
    + intros s Hs. simpl. destruct (s_sid a =? s) eqn:E3; auto. apply Z.eqb_eq in E3. congruence.
    + intros m'. simpl. rewrite Z.eqb_refl. intros Hm; inversion Hm; lia.
Qed.

(* ------------------------------------------------------------------ Append / Commit batches *)
Lemma last_ts_sample k s : last_ts k s = option_map s_ts (last_sample k s).
Proof. induction k as [|a k IH]; simpl; auto. destruct (s_sid a =? s); auto. Qed.

Lemma last_sample_in k s z : last_sample k s = Some z -> In z k /\ s_sid z = s.
Proof.
  induction k as [|a k IH]; simpl; [discriminate|].
  destruct (s_sid a =? s) eqn:E.
  - intros H; inversion H; subst. apply Z.eqb_eq in E. auto.
  - intros H. destruct (IH H). auto.
Qed.

Lemma last_sample_max k s z : dec_rev k -> last_sample k s = Some z ->
  forall y, In y k -> s_sid y = s -> s_ts y <= s_ts z.
Proof.
  intros Hd H. assert (Hl : last_ts k s = Some (s_ts z)) by (rewrite last_ts_sample, H; reflexivity).
  apply (last_ts_some _ _ _ Hd Hl).
Qed.

Lemma dec_rev_unique k : dec_rev k -> forall x y, In x k -> In y k ->
  s_sid x = s_sid y -> s_ts x = s_ts y -> x = y.
Proof.
  induction k as [|a k IH]; intros Hd x y Hx Hy Hs Ht; [destruct Hx|].
  destruct Hd as [H1 H2]. destruct Hx as [<-|Hx], Hy as [<-|Hy]; auto.
  - specialize (H1 y Hy (eq_sym Hs)). lia.
  - specialize (H1 x Hx Hs). lia.
Qed.

Lemma ordered1_app_l a b : ordered1 (a ++ b) -> ordered1 a.
Proof.
  induction a as [|x a IH]; simpl; auto. intros [H1 H2]. split; auto.
  intros y Hy. apply H1. apply in_or_app. auto.
Qed.

Lemma ordered1_app_r a b : ordered1 (a ++ b) -> ordered1 b.
Proof. induction a as [|x a IH]; simpl; auto. intros [_ H]. auto. Qed.

Lemma ordered1_cross a b : ordered1 (a ++ b) -> forall z y, In z a -> In y b ->
  s_sid y = s_sid z -> s_ts z < s_ts y \/ y = z.
Proof.
  induction a as [|x a IH]; intros H z y Hz Hy Hs; [destruct Hz|].
  simpl in H. destruct H as [H1 H2]. destruct Hz as [<-|Hz].
  - apply H1; auto. apply in_or_app. auto.
  - apply IH; auto.
Qed.

Lemma append_all_sound l : forall k p c k', append_all l k p c = Some k' ->
  forall x, In x k' -> In x l \/ In x k \/ In x p.
Proof.
  induction l as [|a l IH]; intros k p c k' H x Hx; simpl in H.
  - inversion H; subst. apply commit_sound in Hx. rewrite <- in_rev in Hx. tauto.
  - destruct (append_ok k a); [|discriminate].
    destruct (c + 1 <? max_samples_in_appender).
    + destruct (IH _ _ _ _ H x Hx) as [?|[?|Hp]]; simpl; auto. destruct Hp as [<-|?]; auto.
    + destruct (IH _ _ _ _ H x Hx) as [?|[Hk|[]]]; simpl; auto.
      apply commit_sound in Hk. destruct Hk as [Hk|?]; auto.
      apply in_app_or in Hk. destruct Hk as [Hk|[<-|[]]]; auto. rewrite <- in_rev in Hk. auto.
Qed.

Lemma append_all_keeps l : forall k p c k', append_all l k p c = Some k' ->
  forall x, In x k -> In x k'.
Proof.
  induction l as [|a l IH]; intros k p c k' H x Hx; simpl in H.
  - inversion H; subst. apply commit_keeps; auto.
  - destruct (append_ok k a); [|discriminate].
    destruct (c + 1 <? max_samples_in_appender).
    + eapply IH; [exact H|]; auto.
    + eapply IH; [exact H|]. apply commit_keeps; auto.
Qed.

Lemma append_all_dec l : forall k p c k', dec_rev k -> append_all l k p c = Some k' -> dec_rev k'.
Proof.
  induction l as [|a l IH]; intros k p c k' Hd H; simpl in H.
  - inversion H; subst. apply commit_dec; auto.
  - destruct (append_ok k a); [|discriminate].
    destruct (c + 1 <? max_samples_in_appender).
    + eapply IH; [|exact H]; auto.
    + eapply IH; [|exact H]. apply commit_dec; auto.
Qed.

Lemma last_sample_none_in k s : last_sample k s = None -> forall y, In y k -> s_sid y = s -> False.
Proof.
  induction k as [|a k IH]; intros H y Hy Hs; [destruct Hy|]. simpl in H.
  destruct (s_sid a =? s) eqn:E; [discriminate|]. apply Z.eqb_neq in E.
  destruct Hy as [<-|Hy]; eauto.
Qed.

(* what is still to be processed is ordered, and every such sample is later than, or is, the
   last committed sample of its series *)
Definition todo_ok (k q : list sample) : Prop :=
  ordered1 q /\ forall x z, In x q -> last_sample k (s_sid x) = Some z -> s_ts z < s_ts x \/ x = z.

Lemma todo_commit_complete k q : dec_rev k -> todo_ok k q -> forall x, In x q -> In x (commit q k).
Proof.
  intros Hd [Ho H1]. apply commit_complete; auto.
  intros x m Hx Hl. rewrite last_ts_sample in Hl.
  destruct (last_sample k (s_sid x)) as [z|] eqn:E; [|discriminate]. inversion Hl; subst.
  destruct (H1 x z Hx E) as [?|Heq]; auto. subst z. right. apply (last_sample_in _ _ _ E).
Qed.

Lemma todo_after_commit k a b : dec_rev k -> todo_ok k (a ++ b) -> todo_ok (commit a k) b.
Proof.
  intros Hd [Ho H1]. pose proof (commit_dec a k Hd) as Hd2. split; [eapply ordered1_app_r; eauto|].
  intros y z Hy Hz. destruct (last_sample_in _ _ _ Hz) as [Hzin Hzs].
  destruct (commit_sound _ _ _ Hzin) as [Hza|Hzk].
  - apply (ordered1_cross a b Ho z y); auto.
  - destruct (last_sample k (s_sid y)) as [z0|] eqn:E0.
    + pose proof (last_sample_max _ _ _ Hd E0 z Hzk Hzs) as Hle.
      destruct (H1 y z0 (in_or_app _ _ _ (or_intror Hy)) E0) as [Hlt|Heq]; [left; lia|].
      subst z0. right.
      destruct (last_sample_in _ _ _ E0) as [Hyk _].
      pose proof (last_sample_max _ _ _ Hd2 Hz y (commit_keeps a k y Hyk) eq_refl) as Hle2.
      apply (dec_rev_unique _ Hd2); auto; [apply commit_keeps; auto|lia].
    + exfalso. eapply last_sample_none_in; eauto.
Qed.

Lemma todo_prefix k a b : todo_ok k (a ++ b) -> todo_ok k a.
Proof.
  intros [Ho H1]. split; [eapply ordered1_app_l; eauto|].
  intros x z Hx. apply H1. apply in_or_app. auto.
Qed.

Lemma append_all_complete l : forall k p c, dec_rev k -> todo_ok k (rev p ++ l) ->
  exists k', append_all l k p c = Some k' /\ forall x, In x (rev p ++ l) -> In x k'.
Proof.
  induction l as [|a l IH]; intros k p c Hd Ht; simpl.
  - eexists; split; eauto. rewrite app_nil_r in *. apply todo_commit_complete; auto.
  - assert (Hok : append_ok k a = true).
    { unfold append_ok. destruct (last_sample k (s_sid a)) as [z|] eqn:E; auto.
      destruct Ht as [_ H1].
      assert (Hin : In a (rev p ++ a :: l)) by (apply in_or_app; simpl; auto).
      destruct (H1 a z Hin E) as [Hlt|Heq].
      - replace (s_ts a >? s_ts z) with true; auto. symmetry. apply Z.gtb_lt. lia.
      - subst z. rewrite Z.gtb_ltb, Z.ltb_irrefl, !Z.eqb_refl. auto. }
    rewrite Hok.
    assert (Hq : rev p ++ a :: l = rev (a :: p) ++ l) by (simpl; rewrite <- app_assoc; reflexivity).
    destruct (c + 1 <? max_samples_in_appender).
    + rewrite Hq in *. apply IH; auto.
    + rewrite Hq in Ht.
      pose proof (todo_after_commit k (rev (a :: p)) l Hd Ht) as Ht2.
      destruct (IH (commit (rev (a :: p)) k) [] 0 (commit_dec _ _ Hd) Ht2) as (k' & Hk' & Hall).
      exists k'. split; [exact Hk'|]. rewrite Hq. intros x Hx. apply in_app_or in Hx. destruct Hx as [Hx|Hx].
      * eapply append_all_keeps; eauto. apply todo_commit_complete; auto.
        eapply todo_prefix; eauto.
      * apply Hall. simpl. auto.
Qed.

(* ------------------------------------------------------------------ one block *)
Lemma block_samples_in p k x : block_samples p = Some k -> In x k -> In x p.
Proof.
  unfold block_samples. destruct (append_all p [] [] 0) as [k0|] eqn:E; [|discriminate].
  intros H; inversion H; subst. rewrite <- in_rev. intros Hx.
  destruct (append_all_sound _ _ _ _ _ E x Hx) as [?|[[]|[]]]; auto.
Qed.

Lemma block_samples_nodup p k : block_samples p = Some k -> NoDup (map key k).
Proof.
  unfold block_samples. destruct (append_all p [] [] 0) as [k0|] eqn:E; [|discriminate].
  intros H; inversion H; subst. rewrite map_rev. apply NoDup_rev. apply dec_rev_nodup.
  eapply append_all_dec; eauto. simpl; auto.
Qed.

Lemma block_samples_nil : block_samples [] = Some [].
Proof. reflexivity. Qed.

Lemma block_samples_complete p : ordered1 p ->
  exists k, block_samples p = Some k /\ forall x, In x p -> In x k.
Proof.
  intros Ho. unfold block_samples.
  destruct (append_all_complete p [] [] 0) as (k & Hk & Hall); [simpl; auto| |].
  - split; auto. simpl. intros x z _ H. discriminate.
  - rewrite Hk. eexists; split; eauto. intros x Hx. rewrite <- in_rev. apply Hall. auto.
Qed.

(* ------------------------------------------------------------------ the block loop *)
Definition bsamp (S : list sample) (d t : Z) : list sample :=
  match block_samples (window S t (t + d)) with Some k => k | None => [] end.

Definition block_of (S : list sample) (d t : Z) : list block :=
  match bsamp S d t with [] => [] | k => [mkBlock t k] end.

Definition blocks_spec (S : list sample) (d : Z) (ts : list Z) : list block :=
  flat_map (block_of S d) ts.

(* the loop without the nextSampleTs shortcut *)
Fixpoint spec_loop (S : list sample) (d : Z) (ts : list Z) (acc : list block) : cb_res :=
  match ts with
  | [] => CBOk acc
  | t :: r =>
      match block_samples (window S t (t + d)) with
      | None => CBErr acc
      | Some k => spec_loop S d r (emit acc t k)
      end
  end.

Definition res_blocks (r : cb_res) : list block := match r with CBOk b => b | CBErr b => b end.

Fixpoint chain (d t : Z) (ts : list Z) : Prop :=
  match ts with [] => True | s :: r => s = t /\ chain d (t + d) r end.

Lemma chain_prefix d : forall a b t, chain d t (a ++ b) -> chain d t a.
Proof. induction a as [|x a IH]; intros b t H; simpl in *; auto. destruct H; split; eauto. Qed.

Lemma emit_eq acc t k : emit acc t k = acc ++ match k with [] => [] | _ => [mkBlock t k] end.
Proof. unfold emit. destruct k; [rewrite app_nil_r|]; reflexivity. Qed.

Lemma loop_spec input d : 0 < d -> well_formed input ->
  forall ts t next acc, chain d t ts ->
    (forall x, In x (samples_of input) -> t <= s_ts x -> next = maxInt64 \/ next <= s_ts x) ->
    loop input d ts next acc = spec_loop (samples_of input) d ts acc.
Proof.
  intros Hd Hw. induction ts as [|s r IH]; intros t next acc Hc Hinv.
  - reflexivity.
  - destruct Hc as [-> Hc]. cbn [loop spec_loop].
    destruct (negb (next =? maxInt64) && (next >=? t + d)) eqn:E.
    + apply andb_true_iff in E. destruct E as [E1 E2].
      apply negb_true_iff in E1. apply Z.eqb_neq in E1. apply Z.geb_le in E2.
      assert (Hnil : window (samples_of input) t (t + d) = []).
      { apply filter_none. intros x Hx. unfold in_window.
        destruct (t <=? s_ts x) eqn:E3; auto. apply Z.leb_le in E3.
        destruct (Hinv x Hx E3) as [?|?]; [contradiction|].
        simpl. apply Z.ltb_ge. lia. }
      rewrite Hnil, block_samples_nil. simpl emit.
      apply (IH (t + d)); auto.
      intros x Hx Hle. apply Hinv; auto. lia.
    + destruct (scan_spec input t (t + d) ltac:(lia) Hw maxInt64 []) as (n' & Hs & _ & Hall).
      rewrite Hs. simpl rev. cbn [app].
      destruct (block_samples (window (samples_of input) t (t + d))); auto.
      apply (IH (t + d)); auto.
Qed.

Lemma spec_loop_prefix S d : forall ts acc, exists ts1 ts2, ts = ts1 ++ ts2 /\
  res_blocks (spec_loop S d ts acc) = acc ++ blocks_spec S d ts1.
Proof.
  induction ts as [|t r IH]; intros acc.
  - exists [], []. simpl. rewrite app_nil_r. auto.
  - cbn [spec_loop]. destruct (block_samples (window S t (t + d))) as [k|] eqn:E.
    + destruct (IH (emit acc t k)) as (r1 & r2 & Hr & Hres).
      exists (t :: r1), r2. split; [simpl; congruence|].
      rewrite Hres, emit_eq, <- app_assoc. f_equal.
      change (blocks_spec S d (t :: r1)) with (block_of S d t ++ blocks_spec S d r1). f_equal.
      unfold block_of, bsamp. rewrite E. destruct k; reflexivity.
    + exists [], (t :: r). simpl. rewrite app_nil_r. auto.
Qed.

Lemma spec_loop_ok S d : forall ts acc,
  (forall t, In t ts -> block_samples (window S t (t + d)) <> None) ->
  spec_loop S d ts acc = CBOk (acc ++ blocks_spec S d ts).
Proof.
  induction ts as [|t r IH]; intros acc H.
  - simpl. rewrite app_nil_r. auto.
  - cbn [spec_loop]. destruct (block_samples (window S t (t + d))) as [k|] eqn:E.
    + rewrite IH by (intros t' Ht'; apply H; simpl; auto).
      rewrite emit_eq, <- app_assoc. do 2 f_equal.
      change (blocks_spec S d (t :: r)) with (block_of S d t ++ blocks_spec S d r). f_equal.
      unfold block_of, bsamp. rewrite E. destruct k; reflexivity.
    + exfalso. apply (H t); simpl; auto.
Qed.

Lemma chain_starts d m : forall n k, chain d (m + d * Z.of_nat k) (map (fun i => m + d * Z.of_nat i) (seq k n)).
Proof.
  induction n as [|n IH]; intros k; simpl; auto. split; auto.
  replace (m + d * Z.of_nat k + d) with (m + d * Z.of_nat (S k)) by lia. apply IH.
Qed.

Lemma chain_starts0 d m M : chain d m (starts m M d).
Proof.
  pose proof (chain_starts d m (Z.to_nat ((M - m) / d + 1)) 0) as Hc.
  simpl Z.of_nat in Hc. rewrite Z.mul_0_r, Z.add_0_r in Hc. exact Hc.
Qed.

Lemma in_starts m M d t : 0 < d -> (In t (starts m M d) <-> exists i, 0 <= i <= (M - m) / d /\ t = m + d * i).
Proof.
  intros Hd. unfold starts. rewrite in_map_iff. split.
  - intros (i & <- & Hi). apply in_seq in Hi. exists (Z.of_nat i). split; auto. lia.
  - intros (i & Hi & ->). exists (Z.to_nat i). split; [rewrite Z2Nat.id; lia|]. apply in_seq. lia.
Qed.

(* ------------------------------------------------------------------ contents of the blocks *)
Lemma all_samples_spec S d ts : all_samples (blocks_spec S d ts) = flat_map (bsamp S d) ts.
Proof.
  unfold all_samples, blocks_spec. induction ts as [|t r IH]; simpl; auto.
  rewrite flat_map_app, IH. f_equal.
  unfold block_of. destruct (bsamp S d t) eqn:E; simpl; auto. rewrite app_nil_r. auto.
Qed.

Lemma window_in S t up x : In x (window S t up) <-> In x S /\ t <= s_ts x < up.
Proof.
  unfold window. rewrite filter_In. unfold in_window. rewrite andb_true_iff, Z.leb_le, Z.ltb_lt. tauto.
Qed.

Lemma bsamp_in S d t x : In x (bsamp S d t) -> In x S /\ t <= s_ts x < t + d.
Proof.
  unfold bsamp. destruct (block_samples (window S t (t + d))) as [k|] eqn:E; [|intros []].
  intros H. apply window_in. eapply block_samples_in; eauto.
Qed.

Lemma bsamp_nodup S d t : NoDup (map key (bsamp S d t)).
Proof.
  unfold bsamp. destruct (block_samples (window S t (t + d))) as [k|] eqn:E; [|constructor].
  eapply block_samples_nodup; eauto.
Qed.

Lemma ordered_window d S k : 0 < d -> ordered d S -> ordered1 (window S (d * k) (d * k + d)).
Proof.
  intros Hd. induction S as [|a S IH]; intros Ho; simpl; auto. destruct Ho as [Ho1 Ho2].
  unfold window in *. simpl. destruct (in_window (d * k) (d * k + d) a) eqn:E; auto.
  simpl. split; auto. intros y Hy Hs.
  apply filter_In in Hy. destruct Hy as [Hy Hw].
  apply Ho1; auto.
  unfold in_window in *. apply andb_true_iff in E, Hw. rewrite Z.leb_le, Z.ltb_lt in E, Hw.
  rewrite (div_window d k (s_ts y)), (div_window d k (s_ts a)); auto.
Qed.

Lemma flat_lower S d : 0 < d -> forall ts t, chain d t ts ->
  forall x, In x (flat_map (bsamp S d) ts) -> t <= s_ts x.
Proof.
  intros Hd. induction ts as [|s r IH]; intros t Hc x Hx; [destruct Hx|].
  destruct Hc as [-> Hc]. simpl in Hx. apply in_app_or in Hx. destruct Hx as [Hx|Hx].
  - apply bsamp_in in Hx. lia.
  - specialize (IH _ Hc x Hx). lia.
Qed.

Lemma flat_nodup S d : 0 < d -> forall ts t, chain d t ts ->
  NoDup (map key (flat_map (bsamp S d) ts)).
Proof.
  intros Hd. induction ts as [|s r IH]; intros t Hc; simpl; [constructor|].
  destruct Hc as [-> Hc]. rewrite map_app. apply NoDup_app_intro.
  - apply bsamp_nodup.
  - eapply IH; eauto.
  - intros kx H1 H2. apply in_map_iff in H1, H2.
    destruct H1 as (x & Hkx & Hx). destruct H2 as (y & Hky & Hy).
    apply bsamp_in in Hx.
    pose proof (flat_lower S d Hd r (t + d) Hc y Hy) as Hlow.
    assert (s_ts x = s_ts y) by (unfold key, s_ts in *; congruence). lia.
Qed.

(* ------------------------------------------------------------------ backfill, assembled *)
Lemma in_range_strict input : in_range input ->
  forall x, In x (samples_of input) -> minInt64 < s_ts x < maxInt64.
Proof.
  intros Hr [[s t] v] Hx. apply samples_of_in in Hx. specialize (Hr s t v Hx).
  unfold s_ts, minInt64, maxInt64; simpl. lia.
Qed.

Definition of_cb (r : cb_res) : bf_res := match r with CBOk bl => BFOk bl | CBErr w => BFCreateErr w end.

Lemma backfill_wf0 mx input : well_formed input ->
  exists maxt mint d,
    get_min_max input = MMOk maxt mint /\ compatible_block_duration mx = Some d /\
    In d block_ranges /\ 0 < d /\
    backfill mx input = of_cb (spec_loop (samples_of input) d (starts (d * (mint / d)) maxt d) []).
Proof.
  intros Hw. unfold backfill, backfill_with, get_min_max.
  destruct (mm_loop_wf_ok input Hw minInt64 maxInt64) as (A & B & Hmm).
  destruct (cbd_spec mx) as (d & Hd & Hin & _).
  pose proof (block_ranges_pos d Hin) as Hpos.
  exists A, B, d. rewrite Hmm, Hd. repeat split; auto; try lia.
  unfold create_blocks_with. rewrite align_start_floor by lia.
  rewrite (loop_spec input d ltac:(lia) Hw _ (d * (B / d)) maxInt64 []); auto.
  apply chain_starts0.
Qed.

Lemma backfill_wf mx input : well_formed input ->
  (forall x, In x (samples_of input) -> minInt64 < s_ts x < maxInt64) ->
  exists maxt mint d,
    compatible_block_duration mx = Some d /\ In d block_ranges /\ 0 < d /\
    backfill mx input = of_cb (spec_loop (samples_of input) d (starts (d * (mint / d)) maxt d) []) /\
    forall x, In x (samples_of input) -> mint <= s_ts x <= maxt.
Proof.
  intros Hw Hr. destruct (backfill_wf0 mx input Hw) as (A & B & d & Hmm & Hd & Hin & Hpos & Hbf).
  exists A, B, d. repeat split; auto;
  destruct (mm_loop_bounds _ _ _ _ _ Hmm Hr) as (_ & _ & Hb); apply Hb; auto.
Qed.

Theorem partition mx input :
  well_formed input -> in_range input ->
  (forall d, compatible_block_duration mx = Some d -> ordered d (samples_of input)) ->
  exists bl, backfill mx input = BFOk bl /\
    (forall s t v, In (s, t, v) (all_samples bl) <-> In (ESample s (Some t) v) input) /\
    NoDup (map key (all_samples bl)).
Proof.
  intros Hw Hr Ho.
  destruct (backfill_wf mx input Hw (in_range_strict input Hr)) as (A & B & d & Hd & _ & Hpos & Hbf & Hb).
  specialize (Ho d Hd).
  set (a := d * (B / d)) in *.
  assert (Hwin : forall t, In t (starts a A d) -> exists k, t = d * k /\
            exists ks, block_samples (window (samples_of input) t (t + d)) = Some ks /\
                       forall x, In x (window (samples_of input) t (t + d)) -> In x ks).
  { intros t Ht. apply in_starts in Ht; auto. destruct Ht as (i & Hi & ->).
    exists (B / d + i). split; [unfold a; lia|].
    replace (a + d * i) with (d * (B / d + i)) by (unfold a; lia).
    apply block_samples_complete. apply ordered_window; auto. }
  rewrite spec_loop_ok in Hbf.
  2:{ intros t Ht. destruct (Hwin t Ht) as (k & _ & ks & Hks & _). congruence. }
  simpl in Hbf. eexists. split; [exact Hbf|]. rewrite all_samples_spec. split.
  - intros s t v. rewrite <- samples_of_in. split.
    + intros H. apply in_flat_map in H. destruct H as (t0 & _ & H).
      apply bsamp_in in H. tauto.
    + intros H. apply in_flat_map.
      pose proof (Hb _ H) as Hbx. unfold s_ts in Hbx; simpl in Hbx.
      assert (Ha : a <= B < a + d).
      { unfold a. pose proof (Z.div_mod B d ltac:(lia)). pose proof (Z.mod_pos_bound B d Hpos). lia. }
      set (i := (t - a) / d).
      assert (Hi : 0 <= i <= (A - a) / d).
      { unfold i. split; [apply Z.div_pos; lia|apply Z.div_le_mono; lia]. }
      assert (Ht : a + d * i <= t < a + d * i + d).
      { unfold i. pose proof (Z.div_mod (t - a) d ltac:(lia)). pose proof (Z.mod_pos_bound (t - a) d Hpos). lia. }
      assert (Hin : In (a + d * i) (starts a A d)) by (apply in_starts; auto; exists i; auto).
      exists (a + d * i). split; auto.
      destruct (Hwin _ Hin) as (k & _ & ks & Hks & Hall).
      unfold bsamp. rewrite Hks. apply Hall. apply window_in. unfold s_ts; simpl. split; auto.
  - eapply flat_nodup; eauto. apply chain_starts0.
Qed.

(* ------------------------------------------------------------------ rejection / totality *)
Lemma backfill_rejects mx input :
  (exists s v, In (ESample s None v) input) \/ In EParseErr input ->
  exists e, backfill mx input = BFRejected e.
Proof.
  intros H. unfold backfill, backfill_with, get_min_max.
  destruct (mm_loop input minInt64 maxInt64) as [A B| |] eqn:E; eauto.
  exfalso. apply mm_loop_ok_wf in E. destruct H as [(s & v & H)|H]; apply (E _ H).
Qed.

(* never a panic on ranges[idx]; rejected iff not well-formed *)
Lemma backfill_total mx input :
  (exists e, backfill mx input = BFRejected e /\ ~ well_formed input) \/
  (exists bl, backfill mx input = BFOk bl /\ well_formed input) \/
  (exists w, backfill mx input = BFCreateErr w /\ well_formed input).
Proof.
  destruct (mm_loop input minInt64 maxInt64) as [A B| |] eqn:E.
  - right. pose proof (mm_loop_ok_wf _ _ _ _ _ E) as Hw.
    destruct (backfill_wf0 mx input Hw) as (A' & B' & d & _ & _ & _ & _ & Hbf).
    rewrite Hbf. destruct (spec_loop _ _ _ _); simpl; eauto.
  - left. unfold backfill, backfill_with, get_min_max. rewrite E. eexists. split; eauto. intros Hw.
    destruct (mm_loop_wf_ok input Hw minInt64 maxInt64) as (A & B & Hmm). congruence.
  - left. unfold backfill, backfill_with, get_min_max. rewrite E. eexists. split; eauto. intros Hw.
    destruct (mm_loop_wf_ok input Hw minInt64 maxInt64) as (A & B & Hmm). congruence.
Qed.

(* an error after the scan ("add sample") only for inputs that are not ordered *)
Lemma create_err_unordered mx input w : in_range input -> backfill mx input = BFCreateErr w ->
  well_formed input /\ ~ (forall d, compatible_block_duration mx = Some d -> ordered d (samples_of input)).
Proof.
  intros Hr H. destruct (backfill_total mx input) as [(e & He & _)|[(bl & Hbl & _)|(w' & Hw' & Hwf)]]; try congruence.
  split; auto. intros Ho. destruct (partition mx input Hwf Hr Ho) as (bl & Hbl & _). congruence.
Qed.

(* the blocks a run leaves in the output directory: all of them on success, those written
   before the error otherwise *)
Definition written (r : bf_res) : list block :=
  match r with BFOk bl => bl | BFCreateErr w => w | _ => [] end.

Lemma written_prefix mx input : well_formed input ->
  (forall x, In x (samples_of input) -> minInt64 < s_ts x < maxInt64) ->
  exists d k ts, compatible_block_duration mx = Some d /\ In d block_ranges /\ 0 < d /\
    chain d (d * k) ts /\ written (backfill mx input) = blocks_spec (samples_of input) d ts.
Proof.
  intros Hw Hr.
  destruct (backfill_wf mx input Hw Hr) as (A & B & d & Hd & Hin & Hpos & Hbf & Hb).
  destruct (spec_loop_prefix (samples_of input) d (starts (d * (B / d)) A d) []) as (ts1 & ts2 & Hts & Hres).
  exists d, (B / d), ts1. repeat split; auto.
  - apply (chain_prefix d ts1 ts2). rewrite <- Hts. apply chain_starts0.
  - rewrite Hbf. simpl in Hres. rewrite <- Hres. destruct (spec_loop _ _ _ _); reflexivity.
Qed.

(* ------------------------------------------------------------------ alignment *)
Lemma fold_min_le l : forall m, fold_left (fun m x => Z.min m (s_ts x)) l m <= m /\
  forall x, In x l -> fold_left (fun m x => Z.min m (s_ts x)) l m <= s_ts x.
Proof.
  induction l as [|a l IH]; intros m; simpl; [split; [lia|intros x []]|].
  destruct (IH (Z.min m (s_ts a))) as [H1 H2]. split; [lia|].
  intros x [<-|Hx]; [lia|auto].
Qed.

Lemma fold_min_ge l lo : forall m, lo <= m -> (forall x, In x l -> lo <= s_ts x) ->
  lo <= fold_left (fun m x => Z.min m (s_ts x)) l m.
Proof.
  induction l as [|a l IH]; intros m Hm H; simpl; auto.
  apply IH; [|intros x Hx; apply H; simpl; auto]. specialize (H a (or_introl eq_refl)). lia.
Qed.

Lemma fold_max_ge l : forall m, m <= fold_left (fun m x => Z.max m (s_ts x)) l m /\
  forall x, In x l -> s_ts x <= fold_left (fun m x => Z.max m (s_ts x)) l m.
Proof.
  induction l as [|a l IH]; intros m; simpl; [split; [lia|intros x []]|].
  destruct (IH (Z.max m (s_ts a))) as [H1 H2]. split; [lia|].
  intros x [<-|Hx]; [lia|auto].
Qed.

Lemma fold_max_le l hi : forall m, m <= hi -> (forall x, In x l -> s_ts x <= hi) ->
  fold_left (fun m x => Z.max m (s_ts x)) l m <= hi.
Proof.
  induction l as [|a l IH]; intros m Hm H; simpl; auto.
  apply IH; [|intros x Hx; apply H; simpl; auto]. specialize (H a (or_introl eq_refl)). lia.
Qed.

(* one block of the result: written for the window [lo, lo + d), lo a multiple of d *)
Definition block_aligned (d : Z) (b : block) : Prop :=
  (exists k, b_lo b = d * k) /\ b_samples b <> [] /\
  (forall x, In x (b_samples b) -> b_lo b <= s_ts x < b_lo b + d) /\
  b_lo b <= b_mint b /\ b_mint b < b_maxt b /\ b_maxt b <= b_lo b + d /\
  (forall x, In x (b_samples b) -> b_mint b <= s_ts x < b_maxt b).

Lemma blocks_spec_aligned S d a : 0 < d -> (forall x, In x S -> minInt64 < s_ts x < maxInt64) ->
  forall ts t, chain d t ts -> (exists k, t = d * (a + k)) ->
  Forall (block_aligned d) (blocks_spec S d ts) /\
  (forall b, In b (blocks_spec S d ts) -> t <= b_lo b) /\
  StronglySorted Z.lt (map b_lo (blocks_spec S d ts)).
Proof.
  intros Hd Hr. induction ts as [|s r IH]; intros t Hc Hk.
  - simpl. repeat split; [constructor|intros b []|constructor].
  - destruct Hc as [-> Hc]. destruct Hk as (k & Hk).
    destruct (IH (t + d) Hc) as (IH1 & IH2 & IH3); [exists (k + 1); lia|].
    unfold blocks_spec in *. cbn [flat_map]. unfold block_of at 1 3 5.
    destruct (bsamp S d t) as [|x0 k0] eqn:E.
    + simpl. repeat split; auto. intros b Hb. specialize (IH2 b Hb). lia.
    + cbn [app map]. repeat split.
      * constructor; auto. unfold block_aligned. cbn [b_lo b_samples].
        assert (Hin : forall x, In x (x0 :: k0) -> t <= s_ts x < t + d /\ minInt64 < s_ts x < maxInt64).
        { intros x Hx. rewrite <- E in Hx. apply bsamp_in in Hx.
          destruct Hx as [Hx ?]. split; auto. }
        split; [exists (a + k); lia|]. split; [discriminate|].
        split; [intros x Hx; apply Hin; auto|].
        unfold b_mint, b_maxt. cbn [b_samples].
        pose proof (fold_min_le (x0 :: k0) maxInt64) as [_ Hmin].
        pose proof (fold_max_ge (x0 :: k0) minInt64) as [_ Hmax].
        pose proof (Hin x0 (or_introl eq_refl)) as H0.
        assert (Hlo : t <= fold_left (fun m x => Z.min m (s_ts x)) (x0 :: k0) maxInt64).
        { apply fold_min_ge; [unfold maxInt64 in *; lia|intros x Hx; apply Hin; auto]. }
        assert (Hhi : fold_left (fun m x => Z.max m (s_ts x)) (x0 :: k0) minInt64 <= t + d - 1).
        { apply fold_max_le; [unfold minInt64 in *; lia|intros x Hx; specialize (Hin x Hx); lia]. }
        specialize (Hmin x0 (or_introl eq_refl)). pose proof (Hmax x0 (or_introl eq_refl)).
        repeat split; try lia.
        -- apply (fold_min_le (x0 :: k0) maxInt64); auto.
        -- pose proof (Hmax x H1). lia.
      * intros b [<-|Hb]; [simpl; lia|]. specialize (IH2 b Hb). lia.
      * constructor; auto. apply Forall_forall. intros lo Hlo.
        apply in_map_iff in Hlo. destruct Hlo as (b & <- & Hb). specialize (IH2 b Hb). simpl. lia.
Qed.

Lemma written_cases mx input bl :
  backfill mx input = BFOk bl \/ backfill mx input = BFCreateErr bl ->
  well_formed input /\ written (backfill mx input) = bl.
Proof.
  intros H. destruct (backfill_total mx input) as [(e & He & _)|[(b & Hb & Hw)|(w & Hw' & Hw)]];
    destruct H as [H|H]; try congruence; split; auto; rewrite H; reflexivity.
Qed.

Theorem aligned mx input bl : in_range input ->
  backfill mx input = BFOk bl \/ backfill mx input = BFCreateErr bl ->
  exists d, compatible_block_duration mx = Some d /\ In d block_ranges /\
    (default_block_duration <= mx -> d <= mx) /\
    (forall r, In r block_ranges -> r <= mx -> r <= d) /\
    Forall (block_aligned d) bl /\ StronglySorted Z.lt (map b_lo bl).
Proof.
  intros Hr Hbf. destruct (written_cases _ _ _ Hbf) as [Hw Hwr].
  destruct (written_prefix mx input Hw (in_range_strict input Hr)) as (d & k & ts & Hd & Hin & Hpos & Hc & Hwr').
  destruct (cbd_spec mx) as (d' & Hd' & _ & Hle & Hmax).
  assert (d' = d) by congruence. subst d'.
  rewrite Hwr in Hwr'. clear Hwr. subst bl.
  destruct (blocks_spec_aligned (samples_of input) d k Hpos (in_range_strict input Hr) ts (d * k) Hc) as (H1 & _ & H3);
    [exists 0; lia|].
  exists d. split; [exact Hd|]. split; [exact Hin|]. split; [exact Hle|]. split; [exact Hmax|].
  split; [exact H1|exact H3].
Qed.

(* whatever the order of the lines: nothing is invented and nothing is stored twice *)
Theorem sound mx input bl : in_range input ->
  backfill mx input = BFOk bl \/ backfill mx input = BFCreateErr bl ->
  (forall s t v, In (s, t, v) (all_samples bl) -> In (ESample s (Some t) v) input) /\
  NoDup (map key (all_samples bl)).
Proof.
  intros Hr Hbf. destruct (written_cases _ _ _ Hbf) as [Hw Hwr].
  destruct (written_prefix mx input Hw (in_range_strict input Hr)) as (d & k & ts & Hd & Hin & Hpos & Hc & Hwr').
  rewrite Hwr in Hwr'. clear Hwr. subst bl. rewrite all_samples_spec. split.
  - intros s t v H. apply samples_of_in. apply in_flat_map in H. destruct H as (t0 & _ & H).
    apply bsamp_in in H. tauto.
  - eapply flat_nodup; eauto.
Qed.

(* ------------------------------------------------------------------ boolean checkers *)
Lemma sample_eqb_spec x y : sample_eqb x y = true <-> x = y.
Proof.
  unfold sample_eqb. destruct x as [[s t] v], y as [[s' t'] v']. unfold s_sid, s_ts, s_val; simpl.
  destruct (t =? t') eqn:E1; [apply Z.eqb_eq in E1|apply Z.eqb_neq in E1].
  - destruct (s =? s') eqn:E2; [apply Z.eqb_eq in E2|apply Z.eqb_neq in E2].
    + rewrite Z.eqb_eq. split; [intros ->; subst; auto|intros H; inversion H; auto].
    + split; [discriminate|intros H; inversion H; contradiction].
  - split; [discriminate|intros H; inversion H; contradiction].
Qed.

Lemma orderedb_spec d l : orderedb d l = true <-> ordered d l.
Proof.
  induction l as [|a l IH]; simpl; [tauto|].
  rewrite andb_true_iff, IH, forallb_forall. split; intros [H1 H2]; split; auto.
  - intros y Hy Hs Hw. specialize (H1 y Hy). rewrite Hs, Z.eqb_refl in H1.
    destruct (s_ts a <? s_ts y) eqn:E; [apply Z.ltb_lt in E; auto|].
    rewrite Hw, Z.eqb_refl in H1. apply sample_eqb_spec in H1. auto.
  - intros y Hy. destruct (s_sid y =? s_sid a) eqn:E1; auto. apply Z.eqb_eq in E1.
    destruct (s_ts a <? s_ts y) eqn:E2; auto. apply Z.ltb_ge in E2.
    destruct (s_ts y / d =? s_ts a / d) eqn:E3; auto. apply Z.eqb_eq in E3.
    destruct (H1 y Hy E1 E3) as [Hlt|Heq]; [lia|]. apply sample_eqb_spec. auto.
Qed.

(* ------------------------------------------------------------------ witnesses *)
Definition ex_input : list entry :=
  [EOther; ESample 0 (Some (-7200001)) 11; ESample 1 (Some (-1)) 12; ESample 0 (Some (-7200000)) 13;
   ESample 1 (Some 0) 14; ESample 0 (Some 7199999) 15; ESample 0 (Some 7199999) 15;
   ESample 1 (Some 50400000) 16].

Lemma two62 : 2 ^ 62 = 4611686018427387904. Proof. reflexivity. Qed.

Ltac in_range_tac :=
  let s := fresh "s" in let t := fresh "t" in let v := fresh "v" in let H := fresh "H" in
  intros s t v H; rewrite two62; simpl in H;
  repeat (destruct H as [H|H]; [try discriminate; inversion H; subst; lia|]); destruct H.

Lemma ex_input_ok : well_formed ex_input /\ in_range ex_input /\
  (forall d, compatible_block_duration 0 = Some d -> ordered d (samples_of ex_input)) /\
  backfill 0 ex_input = BFOk
    [mkBlock (-14400000) [(0, -7200001, 11)];
     mkBlock (-7200000) [(1, -1, 12); (0, -7200000, 13)];
     mkBlock 0 [(1, 0, 14); (0, 7199999, 15)];
     mkBlock 50400000 [(1, 50400000, 16)]].
Proof.
  split; [|split; [|split]].
  - apply well_formedb_spec. reflexivity.
  - in_range_tac.
  - intros d Hd. inversion Hd; subst. apply orderedb_spec. reflexivity.
  - vm_compute. reflexivity.
Qed.

Definition old_input : list entry := [ESample 0 (Some (-1)) 7; ESample 0 (Some 5) 8].

Lemma partition_old_refuted : exists mx input,
  well_formed input /\ in_range input /\
  (forall d, compatible_block_duration mx = Some d -> ordered d (samples_of input)) /\
  exists bl, backfill_old mx input = BFOk bl /\
    exists s t v, In (ESample s (Some t) v) input /\ ~ In (s, t, v) (all_samples bl).
Proof.
  exists 0, old_input. split; [|split; [|split]].
  - apply well_formedb_spec. reflexivity.
  - in_range_tac.
  - intros d Hd. inversion Hd; subst. apply orderedb_spec. reflexivity.
  - eexists. split; [vm_compute; reflexivity|].
    exists 0, (-1), 7. split; [simpl; auto|]. simpl. intros [H|[]]. inversion H.
Qed.

(* the tree's version stores both samples of the same input *)
Lemma old_input_fixed : backfill 0 old_input = BFOk [mkBlock (-7200000) [(0, -1, 7)]; mkBlock 0 [(0, 5, 8)]].
Proof. vm_compute. reflexivity. Qed.

Definition unordered_input : list entry := [ESample 0 (Some 7199999) 3; ESample 0 (Some 100000) 2].

(* the ordering hypothesis of [partition] cannot be dropped: a series whose lines go back in
   time inside one block window loses samples, and the run still succeeds *)
Lemma partition_unordered_refuted : exists mx input,
  well_formed input /\ in_range input /\
  exists bl, backfill mx input = BFOk bl /\
    exists s t v, In (ESample s (Some t) v) input /\ ~ In (s, t, v) (all_samples bl).
Proof.
  exists 0, unordered_input. split; [|split].
  - apply well_formedb_spec. reflexivity.
  - in_range_tac.
  - eexists. split; [vm_compute; reflexivity|].
    exists 0, 100000, 2. split; [simpl; auto|]. simpl. intros [H|[]]. inversion H.
Qed.

Lemma reject_example : backfill 0 [ESample 0 (Some 5) 1; ESample 1 None 2; ESample 0 (Some 7200005) 3] = BFRejected RejNoTs.
Proof. reflexivity. Qed.

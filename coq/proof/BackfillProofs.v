(* proof/BackfillProofs.v — proofs about model/Backfill.v (property C50). *)
From Coq Require Import List ZArith Bool Lia Sorting.Sorted.
From Verif Require Import lib.Int64 model.Backfill.
Import ListNotations.
Open Scope Z_scope.

(* ------------------------------------------------------------------ small list facts *)
Lemma filter_none {A} (f : A -> bool) l : (forall x, In x l -> f x = false) -> filter f l = [].
Proof.
  induction l as [|a l IH]; intros H; simpl; auto.
  rewrite (H a (or_introl eq_refl)). apply IH. intros x Hx. apply H. now right.
Qed.

Lemma NoDup_app_intro {A} (l1 l2 : list A) :
  NoDup l1 -> NoDup l2 -> (forall x, In x l1 -> In x l2 -> False) -> NoDup (l1 ++ l2).
Proof.
  induction l1 as [|a l1 IH]; intros H1 H2 Hd; simpl; auto.
  inversion H1; subst. constructor.
  - intros Hin. apply in_app_or in Hin. destruct Hin as [Hin|Hin]; auto.
    apply (Hd a); simpl; auto.
  - apply IH; auto. intros x Hx1 Hx2. apply (Hd x); simpl; auto.
Qed.

Lemma div_window d k t : 0 < d -> d * k <= t < d * k + d -> t / d = k.
Proof. intros Hd H. symmetry. apply Z.div_unique with (r := t - d * k); lia. Qed.

(* ------------------------------------------------------------------ samples_of *)
Lemma samples_of_in l s t v : In (s, t, v) (samples_of l) <-> In (ESample s (Some t) v) l.
Proof.
  induction l as [|e l IH]; simpl; [tauto|].
  destruct e as [s' [t'|] v'| |]; simpl; rewrite ?IH; split; intros H.
  - destruct H as [H|H]; [inversion H; subst; auto|auto].
  - destruct H as [H|H]; [inversion H; subst; auto|auto].
  - auto.
  - destruct H as [H|H]; [discriminate|auto].
  - auto.
  - destruct H as [H|H]; [discriminate|auto].
  - auto.
  - destruct H as [H|H]; [discriminate|auto].
Qed.

Lemma well_formed_cons e l : well_formed (e :: l) -> well_formed l.
Proof. intros H x Hx. apply H. now right. Qed.

Lemma well_formedb_spec l : well_formedb l = true <-> well_formed l.
Proof.
  unfold well_formedb, well_formed. rewrite forallb_forall. split; intros H e He; specialize (H e He).
  - destruct e as [s [t|] v| |]; auto; discriminate.
  - destruct e as [s [t|] v| |]; auto; contradiction.
Qed.

(* ------------------------------------------------------------------ getMinAndMaxTimestamps *)
Lemma mm_loop_ok_wf l : forall a b A B, mm_loop l a b = MMOk A B -> well_formed l.
Proof.
  induction l as [|e l IH]; intros a b A B H x Hx; [destruct Hx|].
  destruct e as [s [t|] v| |]; simpl in H; try discriminate.
  - destruct Hx as [<-|Hx]; auto. eapply IH; eauto.
  - destruct Hx as [<-|Hx]; auto. eapply IH; eauto.
Qed.

Lemma mm_loop_wf_ok l : well_formed l -> forall a b, exists A B, mm_loop l a b = MMOk A B.
Proof.
  induction l as [|e l IH]; intros Hw a b; simpl; eauto.
  pose proof (Hw e (or_introl eq_refl)) as He. apply well_formed_cons in Hw.
  destruct e as [s [t|] v| |]; try contradiction; auto.
Qed.

Lemma mm_loop_not_wf l : ~ well_formed l -> forall a b, exists e,
  (mm_loop l a b = MMErrParse \/ mm_loop l a b = MMErrNoTs) /\ e = tt.
Proof.
  intros Hn a b. exists tt. split; auto.
  destruct (mm_loop l a b) eqn:E; auto. exfalso. apply Hn. eapply mm_loop_ok_wf; eauto.
Qed.

Lemma mm_loop_bounds l : forall a b A B, mm_loop l a b = MMOk A B ->
  (forall x, In x (samples_of l) -> minInt64 < s_ts x < maxInt64) ->
  (a = minInt64 \/ a <= A) /\ (b = maxInt64 \/ B <= b) /\
  forall x, In x (samples_of l) -> B <= s_ts x <= A.
Proof.
  induction l as [|e l IH]; intros a b A B H Hr.
  - simpl in H. inversion H; subst; clear H. simpl.
    repeat split; try tauto.
    + destruct (a =? minInt64) eqn:E; [apply Z.eqb_eq in E; auto|right; lia].
    + destruct (b =? maxInt64) eqn:E; [apply Z.eqb_eq in E; auto|right; lia].
  - destruct e as [s [t|] v| |]; simpl in H; try discriminate.
    + simpl in Hr. assert (Ht : minInt64 < t < maxInt64) by (apply (Hr (s, t, v)); auto).
      specialize (IH _ _ _ _ H (fun x Hx => Hr x (or_intror Hx))).
      destruct IH as (Ha & Hb & Hall).
      assert (Ha' : t <= A /\ a <= A \/ a = minInt64 /\ t <= A).
      { destruct (t >? a) eqn:E; [apply Z.gtb_lt in E|rewrite Z.gtb_ltb in E; apply Z.ltb_ge in E];
          destruct Ha as [Ha|Ha]; try lia. }
      assert (Hb' : B <= t /\ B <= b \/ b = maxInt64 /\ B <= t).
      { destruct (t <? b) eqn:E; [apply Z.ltb_lt in E|apply Z.ltb_ge in E];
          destruct Hb as [Hb|Hb]; try lia. }
      repeat split.
      * destruct Ha' as [?|?]; [right|left]; lia.
      * destruct Hb' as [?|?]; [right|left]; lia.
      * destruct H0 as [<-|H0]; [unfold s_ts; simpl; lia|apply Hall; auto].
      * destruct H0 as [<-|H0]; [unfold s_ts; simpl; lia|apply Hall; auto].
    + simpl in Hr. apply (IH _ _ _ _ H Hr).
Qed.

(* ------------------------------------------------------------------ getCompatibleBlockDuration *)
Lemma block_ranges_val : block_ranges =
  [7200000; 21600000; 64800000; 194400000; 583200000; 1749600000; 5248800000; 15746400000;
   47239200000; 141717600000].
Proof. reflexivity. Qed.

Lemma cbd_spec mx : exists d, compatible_block_duration mx = Some d /\ In d block_ranges /\
  (default_block_duration <= mx -> d <= mx) /\
  (forall r, In r block_ranges -> r <= mx -> r <= d).
Proof.
  unfold compatible_block_duration. rewrite block_ranges_val. unfold default_block_duration.
  destruct (mx >? 7200000) eqn:E0.
  - apply Z.gtb_lt in E0. cbn [pick_idx length Z.of_nat].
    repeat match goal with
    | |- context [?v >? mx] =>
        let E := fresh "E" in destruct (v >? mx) eqn:E;
        [apply Z.gtb_lt in E|rewrite Z.gtb_ltb in E; apply Z.ltb_ge in E]
    end; try lia;
    cbn; eexists; (split; [reflexivity|]); (split; [simpl; tauto|]);
    (split; [lia|]); intros r Hr Hle; simpl in Hr; lia.
  - rewrite Z.gtb_ltb in E0. apply Z.ltb_ge in E0.
    eexists; split; [reflexivity|]. split; [simpl; tauto|]. split; [lia|].
    intros r Hr Hle; simpl in Hr; lia.
Qed.

Lemma block_ranges_pos d : In d block_ranges -> 7200000 <= d.
Proof. rewrite block_ranges_val. simpl. lia. Qed.

(* ------------------------------------------------------------------ first block start *)
Lemma align_start_floor m d : 0 < d -> align_start m d = d * (m / d).
Proof.
  intros Hd. unfold align_start, godiv.
  destruct (m >=? 0) eqn:E.
  - apply Z.geb_le in E. rewrite Z.quot_div_nonneg by lia. reflexivity.
  - rewrite Z.geb_leb in E. apply Z.leb_gt in E.
    f_equal.
    replace (m - d + 1) with (- (d - 1 - m)) by lia.
    rewrite Z.quot_opp_l by lia. rewrite Z.quot_div_nonneg by lia.
    pose proof (Z.div_mod (d - 1 - m) d ltac:(lia)).
    pose proof (Z.mod_pos_bound (d - 1 - m) d Hd).
    pose proof (Z.div_mod m d ltac:(lia)).
    pose proof (Z.mod_pos_bound m d Hd).
    nia.
Qed.

(* ------------------------------------------------------------------ scan *)
Definition in_window (t up : Z) (x : sample) : bool := (t <=? s_ts x) && (s_ts x <? up).
Definition window (l : list sample) (t up : Z) : list sample := filter (in_window t up) l.

Lemma scan_spec l t up : t <= up -> well_formed l -> forall next p, exists next',
  scan l t up next p = Some (rev p ++ window (samples_of l) t up, next') /\
  next' <= next /\ forall x, In x (samples_of l) -> up <= s_ts x -> next' <= s_ts x.
Proof.
  intros Htu. induction l as [|e l IH]; intros Hw next p.
  - simpl. exists next. rewrite app_nil_r. repeat split; auto; try lia; intros x [].
  - pose proof (Hw e (or_introl eq_refl)) as He. apply well_formed_cons in Hw.
    destruct e as [s [ts|] v| |]; try contradiction; simpl; auto.
    unfold window. simpl. unfold in_window at 1. unfold s_ts at 1 2. simpl.
    fold (window (samples_of l) t up).
    destruct (ts <? t) eqn:E1.
    + apply Z.ltb_lt in E1. replace (t <=? ts) with false by (symmetry; apply Z.leb_gt; lia). simpl.
      destruct (IH Hw next p) as (n' & Hs & Hle & Hall). exists n'. repeat split; auto.
      intros x [<-|Hx] Hup; [unfold s_ts in *; simpl in *; lia|auto].
    + apply Z.ltb_ge in E1. replace (t <=? ts) with true by (symmetry; apply Z.leb_le; lia). simpl.
      destruct (ts >=? up) eqn:E2.
      * apply Z.geb_le in E2. replace (ts <? up) with false by (symmetry; apply Z.ltb_ge; lia).
        destruct (IH Hw (if ts <? next then ts else next) p) as (n' & Hs & Hle & Hall).
        exists n'. repeat split; auto.
        { destruct (ts <? next) eqn:E3; [apply Z.ltb_lt in E3|]; lia. }
        intros x [<-|Hx] Hup; [unfold s_ts in *; simpl in *|auto].
        destruct (ts <? next) eqn:E3; [|apply Z.ltb_ge in E3]; lia.
      * rewrite Z.geb_leb in E2. apply Z.leb_gt in E2.
        replace (ts <? up) with true by (symmetry; apply Z.ltb_lt; lia).
        destruct (IH Hw next ((s, ts, v) :: p)) as (n' & Hs & Hle & Hall).
        exists n'. repeat split; auto.
        { rewrite Hs. simpl. rewrite <- app_assoc. reflexivity. }
        intros x [<-|Hx] Hup; [unfold s_ts in *; simpl in *; lia|auto].
Qed.

(* ------------------------------------------------------------------ commit *)
Lemma commit_sound p : forall k x, In x (commit p k) -> In x p \/ In x k.
Proof.
  induction p as [|a p IH]; intros k x H; simpl in *; auto.
  destruct (last_ts k (s_sid a)) as [m|].
  - destruct (s_ts a >? m).
    + apply IH in H. simpl in H. tauto.
    + apply IH in H. tauto.
  - apply IH in H. simpl in H. tauto.
Qed.

Lemma commit_keeps p : forall k x, In x k -> In x (commit p k).
Proof.
  induction p as [|a p IH]; intros k x H; simpl; auto.
  destruct (last_ts k (s_sid a)) as [m|]; [destruct (s_ts a >? m)|]; apply IH; simpl; auto.
Qed.

(* per series, timestamps strictly decrease along the (most recent first) committed list *)
Fixpoint dec_rev (k : list sample) : Prop :=
  match k with
  | [] => True
  | x :: r => (forall y, In y r -> s_sid y = s_sid x -> s_ts y < s_ts x) /\ dec_rev r
  end.

Lemma last_ts_none k s : last_ts k s = None -> forall y, In y k -> s_sid y <> s.
Proof.
  induction k as [|a k IH]; intros H y Hy; [destruct Hy|]. simpl in H.
  destruct (s_sid a =? s) eqn:E; [discriminate|]. apply Z.eqb_neq in E.
  destruct Hy as [<-|Hy]; auto.
Qed.

Lemma last_ts_some k s m : dec_rev k -> last_ts k s = Some m ->
  (exists x, In x k /\ s_sid x = s /\ s_ts x = m) /\ forall y, In y k -> s_sid y = s -> s_ts y <= m.
Proof.
  induction k as [|a k IH]; intros Hd H; [discriminate|]. simpl in H. destruct Hd as [Hd1 Hd2].
  destruct (s_sid a =? s) eqn:E.
  - apply Z.eqb_eq in E. inversion H; subst. split.
    + exists a. simpl; auto.
    + intros y [<-|Hy] Hs; [lia|]. specialize (Hd1 y Hy Hs). lia.
  - apply Z.eqb_neq in E. destruct (IH Hd2 H) as [(x & Hx & Hs & Hm) Hall]. split.
    + exists x. simpl; auto.
    + intros y [<-|Hy] Hs'; [contradiction|auto].
Qed.

Lemma commit_dec p : forall k, dec_rev k -> dec_rev (commit p k).
Proof.
  induction p as [|a p IH]; intros k Hd; simpl; auto.
  destruct (last_ts k (s_sid a)) as [m|] eqn:E.
  - destruct (s_ts a >? m) eqn:E2; [|auto].
    apply Z.gtb_lt in E2. apply IH. simpl. split; auto.
    intros y Hy Hs. destruct (last_ts_some _ _ _ Hd E) as [_ Hall]. specialize (Hall y Hy Hs). lia.
  - apply IH. simpl. split; auto. intros y Hy Hs. exfalso. eapply last_ts_none; eauto.
Qed.

Lemma dec_rev_nodup k : dec_rev k -> NoDup (map key k).
Proof.
  induction k as [|a k IH]; intros Hd; simpl; [constructor|]. destruct Hd as [H1 H2].
  constructor; auto. intros Hin. apply in_map_iff in Hin. destruct Hin as (y & Hk & Hy).
  assert (s_sid y = s_sid a /\ s_ts y = s_ts a) as [Hs Ht].
  { unfold key, s_sid, s_ts in *. rewrite Hk. auto. }
  specialize (H1 y Hy Hs). lia.
Qed.

(* the pending list is ordered: within a series, later entries have later timestamps or are
   exact repetitions *)
Fixpoint ordered1 (l : list sample) : Prop :=
  match l with
  | [] => True
  | x :: r => (forall y, In y r -> s_sid y = s_sid x -> s_ts x < s_ts y \/ y = x) /\ ordered1 r
  end.

Lemma commit_complete p : forall k, dec_rev k -> ordered1 p ->
  (forall x m, In x p -> last_ts k (s_sid x) = Some m -> m < s_ts x \/ In x k) ->
  forall x, In x p -> In x (commit p k).
Proof.
  induction p as [|a p IH]; intros k Hd Ho H1 x Hx; [destruct Hx|].
  destruct Ho as [Ho1 Ho2]. simpl.
  assert (Hnext : forall k', dec_rev k' -> In a k' ->
            (forall y, In y k -> In y k') ->
            (forall s, s <> s_sid a -> last_ts k' s = last_ts k s) ->
            (forall m, last_ts k' (s_sid a) = Some m -> m <= s_ts a) ->
            In x (commit p k')).
  { intros k' Hd' Ha Hsub Hoth Hsame.
    destruct Hx as [<-|Hx]; [apply commit_keeps; auto|].
    apply IH; auto.
    intros y m Hy Hl.
    destruct (Z.eq_dec (s_sid y) (s_sid a)) as [Hs|Hs].
    - rewrite Hs in Hl. specialize (Hsame m Hl).
      destruct (Ho1 y Hy Hs) as [Hlt|Heq]; [left; lia|right; subst; auto].
    - rewrite (Hoth _ Hs) in Hl. destruct (H1 y m (or_intror Hy) Hl) as [?|?]; auto. }
  destruct (last_ts k (s_sid a)) as [m|] eqn:E.
  - destruct (s_ts a >? m) eqn:E2.
    + apply Z.gtb_lt in E2. apply Hnext.
      * simpl. split; auto. intros y Hy Hs.
        destruct (last_ts_some _ _ _ Hd E) as [_ Hall]. specialize (Hall y Hy Hs). lia.
      * simpl; auto.
      * intros y Hy; simpl; auto.
      * intros s Hs. simpl. destruct (s_sid a =? s) eqn:E3; auto. apply Z.eqb_eq in E3. congruence.
      * intros m'. simpl. rewrite Z.eqb_refl. intros Hm; inversion Hm; lia.
    + rewrite Z.gtb_ltb in E2. apply Z.ltb_ge in E2.
      destruct (H1 a m (or_introl eq_refl) E) as [Hlt|Hin]; [lia|].
      destruct Hx as [<-|Hx]; [apply commit_keeps; auto|].
      apply IH; auto. intros y m' Hy Hl. apply (H1 y m'); simpl; auto.
  - apply Hnext.
    + simpl. split; auto. intros y Hy Hs. exfalso. eapply last_ts_none; eauto.
    + simpl; auto.
    + intros y Hy; simpl; auto.
    + intros s Hs. simpl. destruct (s_sid a =? s) eqn:E3; auto. apply Z.eqb_eq in E3. congruence.
    + intros m'. simpl. rewrite Z.eqb_refl. intros Hm; inversion Hm; lia.
Qed.

Lemma block_samples_in p x : In x (block_samples p) -> In x p.
Proof.
  unfold block_samples. rewrite <- in_rev. intros H. apply commit_sound in H. destruct H as [?|[]]; auto.
Qed.

Lemma block_samples_complete p x : ordered1 p -> In x p -> In x (block_samples p).
Proof.
  intros Ho Hx. unfold block_samples. rewrite <- in_rev. apply commit_complete; simpl; auto.
  intros y m _ H. discriminate.
Qed.

Lemma block_samples_nodup p : NoDup (map key (block_samples p)).
Proof.
  unfold block_samples. rewrite map_rev. apply NoDup_rev. apply dec_rev_nodup. apply commit_dec. simpl; auto.
Qed.

Lemma block_samples_nil : block_samples [] = [].
Proof. reflexivity. Qed.

Lemma block_samples_nonempty p : p <> [] -> block_samples p <> [].
Proof.
  destruct p as [|a p]; [congruence|]. intros _ H.
  assert (Hin : In a (block_samples (a :: p))).
  { unfold block_samples. rewrite <- in_rev. simpl. apply commit_keeps. simpl; auto. }
  rewrite H in Hin. destruct Hin.
Qed.

(* ------------------------------------------------------------------ the block loop *)
Definition block_of (S : list sample) (d t : Z) : list block :=
  match block_samples (window S t (t + d)) with [] => [] | k => [mkBlock t k] end.

(* what the loop produces, without the nextSampleTs shortcut *)
Definition blocks_spec (S : list sample) (d : Z) (ts : list Z) : list block :=
  flat_map (block_of S d) ts.

Fixpoint chain (d t : Z) (ts : list Z) : Prop :=
  match ts with [] => True | s :: r => s = t /\ chain d (t + d) r end.

Lemma emit_block_of acc S d t : emit acc t (block_samples (window S t (t + d))) = acc ++ block_of S d t.
Proof. unfold emit, block_of. destruct (block_samples _); [rewrite app_nil_r|]; reflexivity. Qed.

Lemma loop_spec input d : 0 < d -> well_formed input ->
  forall ts t next acc, chain d t ts ->
    (forall x, In x (samples_of input) -> t <= s_ts x -> next = maxInt64 \/ next <= s_ts x) ->
    loop input d ts next acc = CBOk (acc ++ blocks_spec (samples_of input) d ts).
Proof.
  intros Hd Hw. induction ts as [|s r IH]; intros t next acc Hc Hinv.
  - simpl. rewrite app_nil_r. reflexivity.
  - destruct Hc as [-> Hc]. cbn [loop blocks_spec flat_map]. fold (blocks_spec (samples_of input) d r).
    destruct (negb (next =? maxInt64) && (next >=? t + d)) eqn:E.
    + apply andb_true_iff in E. destruct E as [E1 E2].
      apply negb_true_iff in E1. apply Z.eqb_neq in E1. apply Z.geb_le in E2.
      assert (Hnil : window (samples_of input) t (t + d) = []).
      { apply filter_none. intros x Hx. unfold in_window.
        destruct (t <=? s_ts x) eqn:E3; auto. apply Z.leb_le in E3.
        destruct (Hinv x Hx E3) as [?|?]; [contradiction|].
        simpl. apply Z.ltb_ge. lia. }
      unfold block_of at 1. rewrite Hnil, block_samples_nil. simpl.
      apply (IH (t + d)); auto.
      intros x Hx Hle. apply Hinv; auto. lia.
    + destruct (scan_spec input t (t + d) ltac:(lia) Hw maxInt64 []) as (n' & Hs & _ & Hall).
      rewrite Hs. simpl rev. cbn [app].
      rewrite emit_block_of. rewrite app_assoc.
      apply (IH (t + d)); auto.
Qed.

Lemma chain_starts d m : forall n k, chain d (m + d * Z.of_nat k) (map (fun i => m + d * Z.of_nat i) (seq k n)).
Proof.
  induction n as [|n IH]; intros k; simpl; auto. split; auto.
  replace (m + d * Z.of_nat k + d) with (m + d * Z.of_nat (S k)) by lia. apply IH.
Qed.

Lemma in_starts m M d t : 0 < d -> (In t (starts m M d) <-> exists i, 0 <= i <= (M - m) / d /\ t = m + d * i).
Proof.
  intros Hd. unfold starts. rewrite in_map_iff. split.
  - intros (i & <- & Hi). apply in_seq in Hi. exists (Z.of_nat i). split; auto. lia.
  - intros (i & Hi & ->). exists (Z.to_nat i). split; [rewrite Z2Nat.id; lia|]. apply in_seq. lia.
Qed.

(* ------------------------------------------------------------------ contents of the blocks *)
Lemma all_samples_spec S d ts :
  all_samples (blocks_spec S d ts) = flat_map (fun t => block_samples (window S t (t + d))) ts.
Proof.
  unfold all_samples, blocks_spec. induction ts as [|t r IH]; simpl; auto.
  rewrite flat_map_app, IH. f_equal.
  unfold block_of. destruct (block_samples (window S t (t + d))) eqn:E; simpl; auto. rewrite app_nil_r. auto.
Qed.

Lemma window_in S t up x : In x (window S t up) <-> In x S /\ t <= s_ts x < up.
Proof.
  unfold window. rewrite filter_In. unfold in_window. rewrite andb_true_iff, Z.leb_le, Z.ltb_lt. tauto.
Qed.

Lemma ordered_window d S k : 0 < d -> ordered d S -> ordered1 (window S (d * k) (d * k + d)).
Proof.
  intros Hd. induction S as [|a S IH]; intros Ho; simpl; auto. destruct Ho as [Ho1 Ho2].
  unfold window in *. simpl. destruct (in_window (d * k) (d * k + d) a) eqn:E; auto.
  simpl. split; auto. intros y Hy Hs.
  apply filter_In in Hy. destruct Hy as [Hy Hw].
  apply Ho1; auto.
  unfold in_window in *. apply andb_true_iff in E, Hw. rewrite Z.leb_le, Z.ltb_lt in E, Hw.
  rewrite (div_window d k (s_ts y)), (div_window d k (s_ts a)); auto.
Qed.

Lemma flat_lower S d : 0 < d -> forall ts t, chain d t ts ->
  forall x, In x (flat_map (fun t => block_samples (window S t (t + d))) ts) -> t <= s_ts x.
Proof.
  intros Hd. induction ts as [|s r IH]; intros t Hc x Hx; [destruct Hx|].
  destruct Hc as [-> Hc]. simpl in Hx. apply in_app_or in Hx. destruct Hx as [Hx|Hx].
  - apply block_samples_in, window_in in Hx. lia.
  - specialize (IH _ Hc x Hx). lia.
Qed.

Lemma flat_nodup S d : 0 < d -> forall ts t, chain d t ts ->
  NoDup (map key (flat_map (fun t => block_samples (window S t (t + d))) ts)).
Proof.
  intros Hd. induction ts as [|s r IH]; intros t Hc; simpl; [constructor|].
  destruct Hc as [-> Hc]. rewrite map_app. apply NoDup_app_intro.
  - apply block_samples_nodup.
  - eapply IH; eauto.
  - intros kx H1 H2. apply in_map_iff in H1, H2.
    destruct H1 as (x & Hkx & Hx). destruct H2 as (y & Hky & Hy).
    apply block_samples_in, window_in in Hx.
    pose proof (flat_lower S d Hd r (t + d) Hc y Hy) as Hlow.
    assert (s_ts x = s_ts y) by (unfold key, s_ts in *; congruence). lia.
Qed.

(* ------------------------------------------------------------------ backfill, assembled *)
Lemma in_range_strict input : in_range input ->
  forall x, In x (samples_of input) -> minInt64 < s_ts x < maxInt64.
Proof.
  intros Hr [[s t] v] Hx. apply samples_of_in in Hx. specialize (Hr s t v Hx).
  unfold s_ts, minInt64, maxInt64; simpl. lia.
Qed.

Lemma backfill_wf mx input : well_formed input ->
  (forall x, In x (samples_of input) -> minInt64 < s_ts x < maxInt64) ->
  exists maxt mint d,
    get_min_max input = MMOk maxt mint /\ compatible_block_duration mx = Some d /\ 0 < d /\
    backfill mx input = BFOk (blocks_spec (samples_of input) d (starts (d * (mint / d)) maxt d)) /\
    forall x, In x (samples_of input) -> mint <= s_ts x <= maxt.
Proof.
  intros Hw Hr. unfold backfill, backfill_with, get_min_max.
  destruct (mm_loop_wf_ok input Hw minInt64 maxInt64) as (A & B & Hmm).
  destruct (cbd_spec mx) as (d & Hd & Hin & _).
  pose proof (block_ranges_pos d Hin) as Hpos.
  exists A, B, d. rewrite Hmm, Hd.
  destruct (mm_loop_bounds _ _ _ _ _ Hmm Hr) as (_ & _ & Hb).
  repeat split; auto; try lia; try apply Hb; auto.
  unfold create_blocks_with. rewrite align_start_floor by lia.
  rewrite (loop_spec input d ltac:(lia) Hw _ (d * (B / d)) maxInt64 []); auto.
  - pose proof (chain_starts d (d * (B / d)) (Z.to_nat ((A - d * (B / d)) / d + 1)) 0) as Hc.
    simpl Z.of_nat in Hc. rewrite Z.mul_0_r, Z.add_0_r in Hc. exact Hc.
Qed.

Theorem partition mx input :
  well_formed input -> in_range input ->
  (forall d, compatible_block_duration mx = Some d -> ordered d (samples_of input)) ->
  exists bl, backfill mx input = BFOk bl /\
    (forall s t v, In (s, t, v) (all_samples bl) <-> In (ESample s (Some t) v) input) /\
    NoDup (map key (all_samples bl)).
Proof.
  intros Hw Hr Ho.
  destruct (backfill_wf mx input Hw (in_range_strict input Hr)) as (A & B & d & Hmm & Hd & Hpos & Hbf & Hb).
  specialize (Ho d Hd).
  eexists. split; [exact Hbf|]. rewrite all_samples_spec. split.
  - intros s t v. rewrite <- samples_of_in. split.
    + intros H. apply in_flat_map in H. destruct H as (t0 & _ & H).
      apply block_samples_in, window_in in H. tauto.
    + intros H. apply in_flat_map.
      pose proof (Hb _ H) as Hbx. unfold s_ts in Hbx; simpl in Hbx.
      set (a := d * (B / d)) in *.
      assert (Ha : a <= B < a + d).
      { unfold a. pose proof (Z.div_mod B d ltac:(lia)). pose proof (Z.mod_pos_bound B d Hpos). lia. }
      set (i := (t - a) / d).
      assert (Hi : 0 <= i <= (A - a) / d).
      { unfold i. split; [apply Z.div_pos; lia|apply Z.div_le_mono; lia]. }
      assert (Ht : a + d * i <= t < a + d * i + d).
      { unfold i. pose proof (Z.div_mod (t - a) d ltac:(lia)). pose proof (Z.mod_pos_bound (t - a) d Hpos). lia. }
      exists (a + d * i). split.
      * apply in_starts; auto. exists i. auto.
      * apply block_samples_complete.
        -- replace (a + d * i) with (d * (B / d + i)) by (unfold a; lia).
           apply ordered_window; auto.
        -- apply window_in. unfold s_ts; simpl. split; auto.
  - eapply flat_nodup; eauto.
    pose proof (chain_starts d (d * (B / d)) (Z.to_nat ((A - d * (B / d)) / d + 1)) 0) as Hc.
    simpl Z.of_nat in Hc. rewrite Z.mul_0_r, Z.add_0_r in Hc. exact Hc.
Qed.

(* ------------------------------------------------------------------ rejection / totality *)
Lemma backfill_rejects mx input :
  (exists s v, In (ESample s None v) input) \/ In EParseErr input ->
  exists e, backfill mx input = BFRejected e.
Proof.
  intros H. unfold backfill, backfill_with, get_min_max.
  destruct (mm_loop input minInt64 maxInt64) as [A B| |] eqn:E; eauto.
  exfalso. apply mm_loop_ok_wf in E. destruct H as [(s & v & H)|H]; apply (E _ H).
Qed.

Lemma backfill_rejected_only_if mx input e : backfill mx input = BFRejected e -> ~ well_formed input.
Proof.
  intros H Hw. unfold backfill, backfill_with, get_min_max in H.
  destruct (mm_loop_wf_ok input Hw minInt64 maxInt64) as (A & B & Hmm). rewrite Hmm in H.
  destruct (compatible_block_duration mx); [|discriminate].
  destruct (create_blocks_with _ _ _ _ _); discriminate.
Qed.

(* never a panic, never an error after some blocks were written (one appender batch per block) *)
Lemma backfill_total mx input :
  (exists e, backfill mx input = BFRejected e /\ ~ well_formed input) \/
  (exists bl, backfill mx input = BFOk bl /\ well_formed input).
Proof.
  unfold backfill, backfill_with, get_min_max.
  destruct (mm_loop input minInt64 maxInt64) as [A B| |] eqn:E.
  - right. pose proof (mm_loop_ok_wf _ _ _ _ _ E) as Hw.
    destruct (cbd_spec mx) as (d & Hd & Hin & _). pose proof (block_ranges_pos d Hin) as Hpos.
    rewrite Hd. unfold create_blocks_with. rewrite align_start_floor by lia.
    rewrite (loop_spec input d ltac:(lia) Hw _ (d * (B / d)) maxInt64 []); eauto.
    pose proof (chain_starts d (d * (B / d)) (Z.to_nat ((A - d * (B / d)) / d + 1)) 0) as Hc.
    simpl Z.of_nat in Hc. rewrite Z.mul_0_r, Z.add_0_r in Hc. exact Hc.
  - left. eexists. split; eauto. intros Hw.
    destruct (mm_loop_wf_ok input Hw minInt64 maxInt64) as (A & B & Hmm). congruence.
  - left. eexists. split; eauto. intros Hw.
    destruct (mm_loop_wf_ok input Hw minInt64 maxInt64) as (A & B & Hmm). congruence.
Qed.

(* ------------------------------------------------------------------ alignment *)
Lemma fold_min_le l : forall m, fold_left (fun m x => Z.min m (s_ts x)) l m <= m /\
  forall x, In x l -> fold_left (fun m x => Z.min m (s_ts x)) l m <= s_ts x.
Proof.
  induction l as [|a l IH]; intros m; simpl; [split; [lia|intros x []]|].
  destruct (IH (Z.min m (s_ts a))) as [H1 H2]. split; [lia|].
  intros x [<-|Hx]; [lia|auto].
Qed.

Lemma fold_min_ge l lo : forall m, lo <= m -> (forall x, In x l -> lo <= s_ts x) ->
  lo <= fold_left (fun m x => Z.min m (s_ts x)) l m.
Proof.
  induction l as [|a l IH]; intros m Hm H; simpl; auto.
  apply IH; [|intros x Hx; apply H; simpl; auto]. specialize (H a (or_introl eq_refl)). lia.
Qed.

Lemma fold_max_ge l : forall m, m <= fold_left (fun m x => Z.max m (s_ts x)) l m /\
  forall x, In x l -> s_ts x <= fold_left (fun m x => Z.max m (s_ts x)) l m.
Proof.
  induction l as [|a l IH]; intros m; simpl; [split; [lia|intros x []]|].
  destruct (IH (Z.max m (s_ts a))) as [H1 H2]. split; [lia|].
  intros x [<-|Hx]; [lia|auto].
Qed.

Lemma fold_max_le l hi : forall m, m <= hi -> (forall x, In x l -> s_ts x <= hi) ->
  fold_left (fun m x => Z.max m (s_ts x)) l m <= hi.
Proof.
  induction l as [|a l IH]; intros m Hm H; simpl; auto.
  apply IH; [|intros x Hx; apply H; simpl; auto]. specialize (H a (or_introl eq_refl)). lia.
Qed.

(* one block of the result: written for the window [lo, lo + d), lo a multiple of d *)
Definition block_aligned (d : Z) (b : block) : Prop :=
  (exists k, b_lo b = d * k) /\ b_samples b <> [] /\
  (forall x, In x (b_samples b) -> b_lo b <= s_ts x < b_lo b + d) /\
  b_lo b <= b_mint b /\ b_mint b < b_maxt b /\ b_maxt b <= b_lo b + d /\
  (forall x, In x (b_samples b) -> b_mint b <= s_ts x < b_maxt b).

Lemma blocks_spec_aligned S d a : 0 < d -> (forall x, In x S -> minInt64 < s_ts x < maxInt64) ->
  forall ts t, chain d t ts -> (exists k, t = d * (a + k)) ->
  Forall (block_aligned d) (blocks_spec S d ts) /\
  (forall b, In b (blocks_spec S d ts) -> t <= b_lo b) /\
  StronglySorted Z.lt (map b_lo (blocks_spec S d ts)).
Proof.
  intros Hd Hr. induction ts as [|s r IH]; intros t Hc Hk.
  - simpl. repeat split; [constructor|intros b []|constructor].
  - destruct Hc as [-> Hc]. destruct Hk as (k & Hk).
    destruct (IH (t + d) Hc) as (IH1 & IH2 & IH3); [exists (k + 1); lia|].
    unfold blocks_spec in *. cbn [flat_map]. unfold block_of at 1 3 5.
    destruct (block_samples (window S t (t + d))) as [|x0 k0] eqn:E.
    + simpl. repeat split; auto. intros b Hb. specialize (IH2 b Hb). lia.
    + cbn [app map]. repeat split.
      * constructor; auto. unfold block_aligned. cbn [b_lo b_samples].
        assert (Hin : forall x, In x (x0 :: k0) -> t <= s_ts x < t + d /\ minInt64 < s_ts x < maxInt64).
        { intros x Hx. rewrite <- E in Hx. apply block_samples_in, window_in in Hx.
          destruct Hx as [Hx ?]. split; auto. }
        split; [exists (a + k); lia|]. split; [discriminate|].
        split; [intros x Hx; apply Hin; auto|].
        unfold b_mint, b_maxt. cbn [b_samples].
        pose proof (fold_min_le (x0 :: k0) maxInt64) as [_ Hmin].
        pose proof (fold_max_ge (x0 :: k0) minInt64) as [_ Hmax].
        pose proof (Hin x0 (or_introl eq_refl)) as H0.
        assert (Hlo : t <= fold_left (fun m x => Z.min m (s_ts x)) (x0 :: k0) maxInt64).
        { apply fold_min_ge; [unfold maxInt64 in *; lia|intros x Hx; apply Hin; auto]. }
        assert (Hhi : fold_left (fun m x => Z.max m (s_ts x)) (x0 :: k0) minInt64 <= t + d - 1).
        { apply fold_max_le; [unfold minInt64 in *; lia|intros x Hx; specialize (Hin x Hx); lia]. }
        specialize (Hmin x0 (or_introl eq_refl)). pose proof (Hmax x0 (or_introl eq_refl)).
        repeat split; try lia.
        -- apply (fold_min_le (x0 :: k0) maxInt64); auto.
        -- pose proof (Hmax x H1). lia.
      * intros b [<-|Hb]; [simpl; lia|]. specialize (IH2 b Hb). lia.
      * constructor; auto. apply Forall_forall. intros lo Hlo.
        apply in_map_iff in Hlo. destruct Hlo as (b & <- & Hb). specialize (IH2 b Hb). simpl. lia.
Qed.

Theorem aligned mx input bl : in_range input -> backfill mx input = BFOk bl ->
  exists d, compatible_block_duration mx = Some d /\ In d block_ranges /\
    (default_block_duration <= mx -> d <= mx) /\
    (forall r, In r block_ranges -> r <= mx -> r <= d) /\
    Forall (block_aligned d) bl /\ StronglySorted Z.lt (map b_lo bl).
Proof.
  intros Hr Hbf.
  destruct (backfill_total mx input) as [(e & He & _)|(bl' & Hbl & Hw)]; [congruence|].
  destruct (backfill_wf mx input Hw (in_range_strict input Hr)) as (A & B & d & Hmm & Hd & Hpos & Hbf' & Hb).
  destruct (cbd_spec mx) as (d' & Hd' & Hin & Hle & Hmax).
  assert (d' = d) by congruence. subst d'.
  exists d. repeat split; auto.
  - rewrite Hbf in Hbf'. inversion Hbf'; subst.
    apply (blocks_spec_aligned (samples_of input) d (B / d) Hpos (in_range_strict input Hr) _ (d * (B / d))).
    + pose proof (chain_starts d (d * (B / d)) (Z.to_nat ((A - d * (B / d)) / d + 1)) 0) as Hc.
      simpl Z.of_nat in Hc. rewrite Z.mul_0_r, Z.add_0_r in Hc. exact Hc.
    + exists 0. lia.
  - rewrite Hbf in Hbf'. inversion Hbf'; subst.
    apply (blocks_spec_aligned (samples_of input) d (B / d) Hpos (in_range_strict input Hr) _ (d * (B / d))).
    + pose proof (chain_starts d (d * (B / d)) (Z.to_nat ((A - d * (B / d)) / d + 1)) 0) as Hc.
      simpl Z.of_nat in Hc. rewrite Z.mul_0_r, Z.add_0_r in Hc. exact Hc.
    + exists 0. lia.
Qed.

(* without the ordering hypothesis nothing is invented and nothing is stored twice *)
Theorem sound mx input bl : in_range input -> backfill mx input = BFOk bl ->
  (forall s t v, In (s, t, v) (all_samples bl) -> In (ESample s (Some t) v) input) /\
  NoDup (map key (all_samples bl)).
Proof.
  intros Hr Hbf.
  destruct (backfill_total mx input) as [(e & He & _)|(bl' & Hbl & Hw)]; [congruence|].
  destruct (backfill_wf mx input Hw (in_range_strict input Hr)) as (A & B & d & Hmm & Hd & Hpos & Hbf' & Hb).
  rewrite Hbf in Hbf'. inversion Hbf'; subst. rewrite all_samples_spec. split.
  - intros s t v H. apply samples_of_in. apply in_flat_map in H. destruct H as (t0 & _ & H).
    apply block_samples_in, window_in in H. tauto.
  - eapply flat_nodup; eauto.
    pose proof (chain_starts d (d * (B / d)) (Z.to_nat ((A - d * (B / d)) / d + 1)) 0) as Hc.
    simpl Z.of_nat in Hc. rewrite Z.mul_0_r, Z.add_0_r in Hc. exact Hc.
Qed.

(* ------------------------------------------------------------------ boolean checkers *)
Lemma sample_eqb_spec x y : sample_eqb x y = true <-> x = y.
Proof.
  unfold sample_eqb. destruct x as [[s t] v], y as [[s' t'] v']. unfold s_sid, s_ts, s_val; simpl.
  destruct (t =? t') eqn:E1; [apply Z.eqb_eq in E1|apply Z.eqb_neq in E1].
  - destruct (s =? s') eqn:E2; [apply Z.eqb_eq in E2|apply Z.eqb_neq in E2].
    + rewrite Z.eqb_eq. split; [intros ->; subst; auto|intros H; inversion H; auto].
    + split; [discriminate|intros H; inversion H; contradiction].
  - split; [discriminate|intros H; inversion H; contradiction].
Qed.

Lemma orderedb_spec d l : orderedb d l = true <-> ordered d l.
Proof.
  induction l as [|a l IH]; simpl; [tauto|].
  rewrite andb_true_iff, IH, forallb_forall. split; intros [H1 H2]; split; auto.
  - intros y Hy Hs Hw. specialize (H1 y Hy). rewrite Hs, Z.eqb_refl in H1.
    destruct (s_ts a <? s_ts y) eqn:E; [apply Z.ltb_lt in E; auto|].
    rewrite Hw, Z.eqb_refl in H1. apply sample_eqb_spec in H1. auto.
  - intros y Hy. destruct (s_sid y =? s_sid a) eqn:E1; auto. apply Z.eqb_eq in E1.
    destruct (s_ts a <? s_ts y) eqn:E2; auto. apply Z.ltb_ge in E2.
    destruct (s_ts y / d =? s_ts a / d) eqn:E3; auto. apply Z.eqb_eq in E3.
    destruct (H1 y Hy E1 E3) as [Hlt|Heq]; [lia|]. apply sample_eqb_spec. auto.
Qed.

(* ------------------------------------------------------------------ witnesses *)
Definition ex_input : list entry :=
  [EOther; ESample 0 (Some (-7200001)) 11; ESample 1 (Some (-1)) 12; ESample 0 (Some (-7200000)) 13;
   ESample 1 (Some 0) 14; ESample 0 (Some 7199999) 15; ESample 0 (Some 7199999) 15;
   ESample 1 (Some 50400000) 16].

Lemma two62 : 2 ^ 62 = 4611686018427387904. Proof. reflexivity. Qed.

Lemma ex_input_ok : well_formed ex_input /\ in_range ex_input /\
  (forall d, compatible_block_duration 0 = Some d -> ordered d (samples_of ex_input)) /\
  backfill 0 ex_input = BFOk
    [mkBlock (-14400000) [(0, -7200001, 11)];
     mkBlock (-7200000) [(1, -1, 12); (0, -7200000, 13)];
     mkBlock 0 [(1, 0, 14); (0, 7199999, 15)];
     mkBlock 50400000 [(1, 50400000, 16)]].
Proof.
  split; [|split; [|split]].
  - apply well_formedb_spec. reflexivity.
  - intros s t v H. rewrite two62. simpl in H.
    repeat (destruct H as [H|H]; [try discriminate; inversion H; subst; lia|]). destruct H.
  - intros d Hd. inversion Hd; subst. apply orderedb_spec. reflexivity.
  - vm_compute. reflexivity.
Qed.

Definition old_input : list entry := [ESample 0 (Some (-1)) 7; ESample 0 (Some 5) 8].

Lemma partition_old_refuted : exists mx input,
  well_formed input /\ in_range input /\
  (forall d, compatible_block_duration mx = Some d -> ordered d (samples_of input)) /\
  exists bl, backfill_old mx input = BFOk bl /\
    exists s t v, In (ESample s (Some t) v) input /\ ~ In (s, t, v) (all_samples bl).
Proof.
  exists 0, old_input. split; [|split; [|split]].
  - apply well_formedb_spec. reflexivity.
  - intros s t v H. rewrite two62. simpl in H.
    repeat (destruct H as [H|H]; [try discriminate; inversion H; subst; lia|]). destruct H.
  - intros d Hd. inversion Hd; subst. apply orderedb_spec. reflexivity.
  - eexists. split; [vm_compute; reflexivity|].
    exists 0, (-1), 7. split; [simpl; auto|]. simpl. intros [H|[]]. inversion H.
Qed.

(* the tree's version stores both samples of the same input *)
Lemma old_input_fixed : backfill 0 old_input = BFOk [mkBlock (-7200000) [(0, -1, 7)]; mkBlock 0 [(0, 5, 8)]].
Proof. vm_compute. reflexivity. Qed.

Definition unordered_input : list entry := [ESample 0 (Some 7199999) 3; ESample 0 (Some 100000) 2].

(* the ordering hypothesis of [partition] cannot be dropped: a series whose lines go back in
   time inside one block window loses samples, and the run still succeeds *)
Lemma partition_unordered_refuted : exists mx input,
  well_formed input /\ in_range input /\
  exists bl, backfill mx input = BFOk bl /\
    exists s t v, In (ESample s (Some t) v) input /\ ~ In (s, t, v) (all_samples bl).
Proof.
  exists 0, unordered_input. split; [|split].
  - apply well_formedb_spec. reflexivity.
  - intros s t v H. rewrite two62. simpl in H.
    repeat (destruct H as [H|H]; [try discriminate; inversion H; subst; lia|]). destruct H.
  - eexists. split; [vm_compute; reflexivity|].
    exists 0, 100000, 2. split; [simpl; auto|]. simpl. intros [H|[]]. inversion H.
Qed.

Lemma reject_example : backfill 0 [ESample 0 (Some 5) 1; ESample 1 None 2; ESample 0 (Some 7200005) 3] = BFRejected RejNoTs.
Proof. reflexivity. Qed.

(* proof/HistChunkReencode.v — re-encoding a stored chunk sample by sample (what compaction
   does with open / partially covered chunks) can FAIL for a chunk that the appenders built
   from valid input: a gauge chunk that holds a staleness marker. *)
From Coq Require Import List ZArith Bool Lia.
From Verif Require Import model.HistChunk proof.HistChunkProofs.
Import ListNotations.
Open Scope Z_scope.

(* validity of an input histogram as far as the layout is concerned (Histogram.Validate):
   staleness markers are always fine *)
Definition valid_hist (h : hist) : Prop :=
  is_stale (h_sum h) = true \/
  (wf_spans (h_ps h) /\ wf_spans (h_ns h) /\
   Z.of_nat (length (h_pb h)) = count_spans (h_ps h) /\
   Z.of_nat (length (h_nb h)) = count_spans (h_ns h)).

(* a gauge histogram with one bucket, then a staleness marker carrying the GaugeType hint *)
Definition w_h0 : hist := mkH HGauge 0 0 [] 1 0 0 [mkSpan 0 1] [] [1] [].
Definition w_h1 : hist := mkH HGauge 0 0 [] 0 0 stale_nan [] [] [] [].
Definition w_ops : list op := [mkOp false 1 w_h0; mkOp false 2 w_h1].
Definition w_chunk : chunk :=
  mkC true 0 0 [] [mkSpan 0 1] [] [mkS 1 1 0 0 [1] []; mkS 2 0 0 stale_nan [] []] 0 0 stale_nan [1] [].

Lemma reencode_witness (k : kind) :
  run k w_ops = Ok [w_chunk] /\
  read_chunk w_chunk = [(1, mkH HGauge 0 0 [] 1 0 0 [mkSpan 0 1] [] [1] []); (2, empty_hist stale_nan)] /\
  reencode k w_chunk = Ok None.
Proof. destruct k; vm_compute; repeat split; reflexivity. Qed.

Lemma w_ops_valid : Forall (fun o => valid_hist (o_h o)) w_ops.
Proof.
  constructor; [|constructor; [|constructor]].
  - right. cbv [w_h0 wf_spans wf_tail h_ps h_ns h_pb h_nb o_h]. simpl. repeat split; try lia; constructor.
  - left. reflexivity.
Qed.

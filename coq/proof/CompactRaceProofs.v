(* proof/CompactRaceProofs.v — preservation of the invariant (proof/CompactRaceInv.v) by every
   step of model/CompactRace.v, and the C06 theorems. *)
From Coq Require Import List ZArith Bool Lia.
From Verif Require Import model.CompactRace proof.CompactRaceInv.
Import ListNotations.
Open Scope Z_scope.

Section Steps.
Variable C : list sample.
Notation Inv := (Inv C).

Ltac pcf I P := let PF := fresh "PF" in
  pose proof (i_pc _ _ I) as PF; unfold pc_fact in PF; rewrite P in PF.

Lemma hlb_of s (I : Inv s) x :
  (forall T h, pc s <> MinSet T h) -> In x (head_ino s) -> head_mint s <= s_t x.
Proof. intros N Hx. pose proof (i_hlb _ _ I x Hx) as H. rewrite hlb_nonminset in H; auto. Qed.

Lemma step_EHWritten s s' id mint maxt : Inv s -> step s (EHWritten id mint maxt) = Some s' -> Inv s'.
Proof.
  intros I H. cbn [step] in H. destruct (pc s) eqn:P; try discriminate.
  apply guard_some in H as [G ->].
  rewrite !andb_true_iff in G. destruct G as [[G1 G2] G3]. apply Z.leb_le in G1.
  pcf I P.
  apply inv_set_pc; auto.
  - unfold pc_fact; cbn. split; auto. split.
    + destruct id; intros b Hb; [destruct Hb as [<-|[]] | destruct Hb]. cbn. split.
      * unfold block_wf; cbn. apply forallb_forall. intros x Hx. apply filter_In in Hx. tauto.
      * intros y Hy. apply filter_In in Hy. apply (i_sub_head _ _ I). tauto.
    + intros x Hx Ht.
      assert (Hf : In x (filter (in_block_range mint maxt) (head_ino s))).
      { apply filter_In. split; auto. apply in_block_range_true.
        assert (head_mint s <= s_t x) by (apply hlb_of; auto; rewrite P; discriminate). lia. }
      destruct id.
      * cbn. rewrite app_nil_r. auto.
      * destruct (filter (in_block_range mint maxt) (head_ino s)); [destruct Hf | discriminate].
  - intros x Hx. unfold head_lb; cbn. apply hlb_of; auto. rewrite P; discriminate.
Qed.

Lemma step_EBlockClosing s s' id : Inv s -> step s (EBlockClosing id) = Some s' -> Inv s'.
Proof.
  intros I H. cbn [step] in H. apply guard_some in H as [G ->].
  apply (inv_frame C s); auto; reflexivity.
Qed.

Lemma step_EBlockClosed s s' id : Inv s -> step s (EBlockClosed id) = Some s' -> Inv s'.
Proof.
  intros I H. cbn [step] in H.
  destruct (memZ id (closing s) && negb (existsb (fun p => snd p =? id) (pending s))); try discriminate.
  inv H.
  set (s1 := set_closing s (filter (fun x => negb (x =? id)) (to_close s))
                (filter (fun x => negb (x =? id)) (closing s)) (id :: closed s)).
  assert (I1 : Inv s1) by (apply (inv_frame C s); auto; reflexivity).
  destruct (pc s) eqn:P; auto.
  destruct (filter (fun x => negb (x =? id)) (to_close s)); auto.
  apply inv_set_pc; auto.
  - unfold pc_fact; cbn. pcf I P. auto.
  - intros x Hx. unfold head_lb; cbn. apply (hlb_of s I); auto. rewrite P; discriminate.
Qed.

Lemma step_ETimePub s s' : Inv s -> step s ETimePub = Some s' -> Inv s'.
Proof.
  intros I H. cbn [step] in H. destruct (pc s) eqn:P; try discriminate.
  destruct (to_close s); try discriminate.
  apply guard_some in H as [G ->]. apply Z.ltb_lt in G. pcf I P. destruct PF as [F1 F2].
  destruct I as [Ih Io Ib Ic Il Ir Ip Iq]. constructor; cbn; [auto | auto | auto | | | auto | | ].
  - intros x Hx. unfold covered; cbn. destruct (Ic x Hx) as [?|[(?&?&?)|?]]; [left; auto | right; left | right; right; auto].
    repeat split; auto. rewrite F1. discriminate.
  - unfold head_lb in *. rewrite P in Il. cbn. auto.
  - unfold pc_fact; cbn. repeat split; auto.
  - intros x Hx. eapply q_ok_frame; [..|apply Iq; auto]; reflexivity.
Qed.

Lemma step_EFlagSet s s' : Inv s -> step s EFlagSet = Some s' -> Inv s'.
Proof.
  intros I H. cbn [step] in H. destruct (pc s) eqn:P; try discriminate.
  inv H. pcf I P. destruct PF as (F1 & F2 & F3 & F4).
  destruct I as [Ih Io Ib Ic Il Ir Ip Iq]. constructor; cbn; [auto | auto | auto | | | auto | | ].
  - intros x Hx. unfold covered; cbn. destruct (Ic x Hx) as [?|[(?&?&?)|?]]; [left; auto | | right; right; auto].
    destruct (Z_lt_ge_dec (s_t x) T).
    + left. apply F2; auto.
    + right; left. split; [auto | split; [auto | intros _; lia]].
  - unfold head_lb in *. rewrite P in Il. cbn. auto.
  - unfold pc_fact; cbn. repeat split; auto.
  - intros x Hx. eapply q_ok_frame; [..|apply Iq; auto]; reflexivity.
Qed.

Lemma step_EAwaited s s' : Inv s -> step s EAwaited = Some s' -> Inv s'.
Proof.
  intros I H. cbn [step] in H. destruct (pc s) eqn:P; try discriminate.
  apply guard_some in H as [G ->]. pcf I P. destruct PF as (F1 & F2 & F3 & F4).
  apply inv_set_pc; auto.
  - unfold pc_fact; cbn. repeat split; auto.
    intros x f Hx Hd Hf. pose proof (i_qs _ _ I x Hx) as Q. unfold q_ok in Q. rewrite Hd in Q.
    destruct Q as (_ & _ & R & _). destruct (R f Hf) as (lo & L1 & L2).
    apply negb_true_iff in G.
    destruct (Z_lt_ge_dec (q_maxt x) (head_mint s)); [left; lia|].
    destruct (Z_lt_ge_dec f T); [|right; lia]. exfalso.
    assert (E : existsb (fun r : Z * Z * Z => let '(_, lo, hi) := r in (lo <=? T - 1) && (head_mint s <=? hi)) (iso s) = true).
    { apply existsb_exists. exists (q_id x, lo, q_maxt x). split; auto.
      apply andb_true_iff; split; [apply Z.leb_le | apply Z.leb_le]; lia. }
    congruence.
  - intros x Hx. unfold head_lb; cbn. apply (hlb_of s I); auto. rewrite P; discriminate.
Qed.

Lemma step_EMinSet s s' : Inv s -> step s EMinSet = Some s' -> Inv s'.
Proof.
  intros I H. cbn [step] in H. destruct (pc s) eqn:P; try discriminate.
  inv H. pcf I P. destruct PF as (F1 & F2 & F3 & F4 & F5 & F6).
  pose proof (fun x Hx => hlb_of s I x ltac:(rewrite P; discriminate) Hx) as HL.
  destruct I as [Ih Io Ib Ic Il Ir Ip Iq]. constructor; cbn; [auto | auto | auto | | | auto | | ].
  - intros x Hx. unfold covered; cbn. destruct (Ic x Hx) as [?|[(?&?&?)|?]]; [left; auto | | right; right; auto].
    right; left. repeat split; auto. rewrite <- F3. auto.
  - unfold head_lb; cbn. subst hm0. auto.
  - unfold pc_fact; cbn. repeat split; auto.
  - intros x Hx. pose proof (Iq x Hx) as Q. unfold q_ok in *. destruct (q_stage x).
    + unfold mid_ok in *. cbn. destruct Q as (Q1 & Q2 & Q3 & Q4 & Q5 & Q6). repeat split; auto; try lia; apply Q6; auto.
    + unfold mid_ok in *. cbn. destruct Q as (Q1 & Q2 & Q3 & Q4 & Q5 & Q6). repeat split; auto; try lia; apply Q6; auto.
    + exact Q.
Qed.

Lemma ooo_samples_filter f om x : In x (ooo_samples (filter f om)) -> In x (ooo_samples om).
Proof.
  rewrite !in_ooo_samples. intros (c & Hc & Hx). apply filter_In in Hc. exists c; tauto.
Qed.

Lemma q_ok_done s x : q_stage x = Done -> q_ok C s x = done_ok C s x.
Proof. unfold q_ok; intros ->; auto. Qed.

Lemma step_EGcDone s s' nm no : Inv s -> step s (EGcDone nm no) = Some s' -> Inv s'.
Proof.
  intros I H. cbn [step] in H. destruct (pc s) eqn:P; try discriminate.
  - (* MinSet T hm0 *)
    unfold gc_done in H. apply guard_some in H as [G ->].
    rewrite !andb_true_iff in G. destruct G as [[G1 G2] G3]. apply Z.leb_le in G1.
    rewrite forallb_forall in G2, G3.
    pcf I P. destruct PF as (F1 & F2 & F3 & F4 & F5).
    destruct I as [Ih Io Ib Ic Il Ir Ip Iq]. constructor; cbn.
    + intros x Hx. apply filter_In in Hx. apply Ih; tauto.
    + auto.
    + auto.
    + intros x Hx. unfold covered; cbn. destruct (Ic x Hx) as [?|[(H1&H2&H3)|?]]; [left; auto | | right; right; auto].
      right; left. specialize (H3 F1).
      assert (In x (filter (fun x0 : sample => T <=? s_t x0) (head_ino s))).
      { apply filter_In. split; auto. apply Z.leb_le. lia. }
      split; auto. split; [|intros _; lia]. apply Z.leb_le. apply G2; auto.
    + unfold head_lb; cbn. intros x Hx. apply Z.leb_le. apply G2; auto.
    + intros x Hx. split; [apply Z.leb_le; apply G3; auto | apply Ir; auto].
    + unfold pc_fact; cbn. auto.
    + intros x Hx. pose proof (Iq x Hx) as Q. unfold q_ok in *. destruct (q_stage x) eqn:St.
      * unfold mid_ok in *; cbn. destruct Q as (Q1 & Q2 & Q3 & Q4 & Q5 & Q6).
        repeat split; auto; try lia; apply Q6; auto.
      * unfold mid_ok in *; cbn. destruct Q as (Q1 & Q2 & Q3 & Q4 & Q5 & Q6).
        repeat split; auto; try lia; apply Q6; auto.
      * unfold done_ok in *; cbn. destruct Q as (Q1 & Q2 & Q3 & Q4). repeat split; auto; try apply Q4; auto.
        unfold safe in *; cbn. intros y Hy Hr. destruct (Q2 y Hy Hr) as [?|[(f & E1 & E2 & E3)|?]]; [left; auto | | right; right; auto].
        right; left. exists f. repeat split; auto. apply filter_In. split; auto. apply Z.leb_le.
        destruct (F5 x f Hx St E1) as [A|A]; [|lia].
        pose proof (Il y E2) as B. unfold head_lb in B. rewrite P in B. lia.
  - (* OAwaited L *)
    unfold gc_done in H. apply guard_some in H as [G ->].
    rewrite !andb_true_iff in G. destruct G as [[G1 G2] G3]. apply Z.leb_le in G1.
    rewrite forallb_forall in G2, G3.
    pcf I P. destruct PF as (F1 & F2 & F3 & F4 & F5).
    assert (HL : forall x, In x (head_ino s) -> head_mint s <= s_t x).
    { intros x Hx. apply (hlb_of s I); auto. rewrite P; discriminate. }
    destruct I as [Ih Io Ib Ic Il Ir Ip Iq]. constructor; cbn.
    + auto.
    + intros x Hx. apply Io. eapply ooo_samples_filter; eauto.
    + auto.
    + intros x Hx. unfold covered; cbn. destruct (Ic x Hx) as [?|[(H1&H2&H3)|(c & H1 & H2 & H3)]]; [left; auto | | ].
      * right; left. split; auto. split; auto. apply Z.leb_le. apply G2; auto.
      * right; right. exists c. split; [|split; auto]. apply filter_In. split; auto.
        unfold chunk_visible in H3. rewrite F3 in H3. destruct (oc_ref c); auto.
    + unfold head_lb; cbn. intros x Hx. apply Z.leb_le. apply G2; auto.
    + intros x Hx. split; [apply Z.leb_le; apply G3; auto | apply Ir; eapply ooo_samples_filter; eauto].
    + unfold pc_fact; cbn. auto.
    + intros x Hx. pose proof (Iq x Hx) as Q. unfold q_ok in *. destruct (q_stage x) eqn:St.
      * unfold mid_ok in *; cbn. destruct Q as (Q1 & Q2 & Q3 & Q4 & Q5 & Q6).
        repeat split; auto; try lia; try (apply Q6; auto).
        intros E y Hy. apply Q4; auto. eapply ooo_samples_filter; eauto.
      * unfold mid_ok in *; cbn. destruct Q as (Q1 & Q2 & Q3 & Q4 & Q5 & Q6).
        repeat split; auto; try lia; try (apply Q6; auto).
        intros E y Hy. apply Q4; auto. eapply ooo_samples_filter; eauto.
      * unfold done_ok in *; cbn. destruct Q as (Q1 & Q2 & Q3 & Q4). repeat split; auto; try apply Q4; auto.
        unfold safe in *; cbn. intros y Hy Hr. destruct (Q2 y Hy Hr) as [?|[?|(r & c & E1 & E2 & E3 & E4)]]; [left; auto | right; left; auto | ].
        right; right. exists r, c. repeat split; auto. apply filter_In. split; auto.
        pose proof (F5 x r Hx St E1) as A. unfold chunk_visible in E3. destruct (oc_ref c); auto.
        apply Z.ltb_lt in E3. apply Z.ltb_lt. lia.
Qed.

Lemma step_EHeadDone s s' : Inv s -> step s EHeadDone = Some s' -> Inv s'.
Proof.
  intros I H. cbn [step] in H. destruct (pc s) eqn:P; try discriminate.
  - (* HReloaded *) destruct (to_close s); try discriminate. apply guard_some in H as [G ->].
    pcf I P. destruct PF as (F1 & F2).
    apply inv_set_pc; auto.
    intros x Hx. unfold head_lb; cbn. apply (hlb_of s I); auto. rewrite P; discriminate.
  - (* Truncated *)
    assert (E : s' = set_pc (set_trunc s (trunc_time s) false) Idle) by (destruct (to_close s); inv H; auto).
    subst s'. clear H.
    destruct I as [Ih Io Ib Ic Il Ir Ip Iq]. constructor; cbn; [auto | auto | auto | | | auto | | ].
    + intros x Hx. unfold covered; cbn. destruct (Ic x Hx) as [?|[(H1&H2&H3)|?]]; [left; auto | | right; right; auto].
      right; left. repeat split; auto. discriminate.
    + unfold head_lb in *. rewrite P in Il. cbn. auto.
    + unfold pc_fact; cbn. auto.
    + intros x Hx. eapply q_ok_frame; [..|apply Iq; auto]; reflexivity.
Qed.

Lemma step_EOStart s s' L : Inv s -> step s (EOStart L) = Some s' -> Inv s'.
Proof.
  intros I H. cbn [step] in H. destruct (pc s) eqn:P; try discriminate.
  apply guard_some in H as [G ->].
  rewrite !andb_true_iff in G. destruct G as [[G1 G2] G3].
  pcf I P.
  assert (NE : forall c, In c (ooo_mem s) -> gc_ref s < L).
  { intros c Hc. destruct (ooo_mem s); [destruct Hc|]. apply Z.ltb_lt in G1.
    apply orb_true_iff in G2. destruct G2 as [G2|G2]; [apply Z.ltb_lt in G2; auto | apply Z.eqb_eq in G2; lia]. }
  assert (HL : forall x, In x (head_ino s) -> head_mint s <= s_t x).
  { intros x Hx. apply (hlb_of s I); auto. rewrite P; discriminate. }
  destruct I as [Ih Io Ib Ic Il Ir Ip Iq]. constructor; cbn.
  - auto.
  - rewrite ooo_samples_map. auto.
  - auto.
  - intros x Hx. unfold covered; cbn. destruct (Ic x Hx) as [?|[?|(c & H1 & H2 & H3)]]; [left; auto | right; left; auto | ].
    right; right. exists (mkOC (Some L) (oc_samples c)). split; [|split; auto].
    + apply in_map_iff. exists c; auto.
    + unfold chunk_visible; cbn. apply Z.ltb_lt. eauto.
  - unfold head_lb; cbn. auto.
  - rewrite ooo_samples_map. auto.
  - unfold pc_fact; cbn. split; auto. split.
    + intros c Hc. apply in_map_iff in Hc. destruct Hc as (c0 & <- & _). auto.
    + unfold gen_ok; cbn. apply orb_true_iff in G2. destruct G2 as [G2|G2]; [left; apply Z.ltb_lt; auto | right; apply Z.eqb_eq; auto].
  - intros x Hx. pose proof (Iq x Hx) as Q. unfold q_ok in *. destruct (q_stage x) eqn:St.
    + unfold mid_ok in *; cbn. rewrite ooo_samples_map. auto.
    + unfold mid_ok in *; cbn. rewrite ooo_samples_map. auto.
    + unfold done_ok in *; cbn. destruct Q as (Q1 & Q2 & Q3 & Q4). repeat split; auto; try apply Q4; auto.
      unfold safe in *; cbn. intros y Hy Hr. destruct (Q2 y Hy Hr) as [?|[?|(r & c & E1 & E2 & E3 & E4)]]; [left; auto | right; left; auto | ].
      right; right. exists r, (mkOC (Some L) (oc_samples c)). repeat split; auto.
      * apply in_map_iff. exists c; auto.
      * unfold chunk_visible; cbn. apply Z.ltb_lt. destruct (Q4 r E1) as [_ A]. pose proof (NE c E2). lia.
Qed.

Lemma mk_oblock_ok om d :
  (forall x, In x (ooo_samples om) -> In x C) ->
  block_wf (mk_oblock om d) = true /\ forall y, In y (b_samples (mk_oblock om d)) -> In y C.
Proof.
  intros S. destruct d as [[id mint] maxt]. unfold mk_oblock, block_wf; cbn. split.
  - apply forallb_forall. intros x Hx. apply nodup_In in Hx. apply filter_In in Hx. tauto.
  - intros y Hy. apply nodup_In in Hy. apply filter_In in Hy. apply S; tauto.
Qed.

Lemma step_EOWritten s s' ds : Inv s -> step s (EOWritten ds) = Some s' -> Inv s'.
Proof.
  intros I H. cbn [step] in H. destruct (pc s) eqn:P; try discriminate.
  apply guard_some in H as [G ->].
  rewrite !andb_true_iff in G. destruct G as [[[G1 G2] G3] G4].
  pcf I P. destruct PF as (F1 & F2 & F3).
  apply inv_set_pc; auto.
  - unfold pc_fact; cbn. repeat split; auto.
    + apply in_map_iff in H. destruct H as (d & <- & _). apply mk_oblock_ok. apply (i_sub_ooo _ _ I).
    + apply in_map_iff in H. destruct H as (d & <- & _). apply mk_oblock_ok. apply (i_sub_ooo _ _ I).
    + intros x Hx. rewrite forallb_forall in G4. apply mem_sample_true. apply G4; auto.
  - intros x Hx. unfold head_lb; cbn. apply (hlb_of s I); auto. rewrite P; discriminate.
Qed.

Lemma blocks_samples_incl_l a b x : In x (blocks_samples a) -> In x (blocks_samples (a ++ b)).
Proof. rewrite blocks_samples_app. intros; apply in_or_app; auto. Qed.
Lemma blocks_samples_incl_r a b x : In x (blocks_samples b) -> In x (blocks_samples (a ++ b)).
Proof. rewrite blocks_samples_app. intros; apply in_or_app; auto. Qed.

Lemma blocks_ok_app a b : blocks_ok C a -> blocks_ok C b -> blocks_ok C (a ++ b).
Proof. unfold blocks_ok. intros A B x Hx. apply in_app_or in Hx. destruct Hx; auto. Qed.

(* when every querier is open (none in creation), replacing db_blocks keeps the queriers' facts *)
Lemma qs_swap s s' :
  all_done s = true -> queriers s' = queriers s -> head_ino s' = head_ino s -> ooo_mem s' = ooo_mem s ->
  gc_ref s' = gc_ref s -> iso s' = iso s -> ooo_reads s' = ooo_reads s ->
  (forall x, In x (queriers s) -> q_ok C s x) -> forall x, In x (queriers s) -> q_ok C s' x.
Proof.
  intros AD E0 E1 E2 E3 E4 E5 Q x Hx.
  pose proof (all_done_spec s AD x Hx) as St. specialize (Q x Hx).
  rewrite q_ok_done in * by auto. unfold done_ok, safe in *. rewrite E1, E2, E3, E4, E5. auto.
Qed.

Lemma step_ESwapped s s' : Inv s -> step s ESwapped = Some s' -> Inv s'.
Proof.
  intros I H. cbn [step] in H. destruct (all_done s) eqn:AD; try discriminate.
  destruct (pc s) eqn:P; try discriminate; inv H.
  - (* HWritten *)
    pcf I P. destruct PF as (F1 & F2 & F3).
    assert (HL : forall x, In x (head_ino s) -> head_mint s <= s_t x).
    { intros x Hx. apply (hlb_of s I); auto. rewrite P; discriminate. }
    destruct I as [Ih Io Ib Ic Il Ir Ip Iq]. constructor; cbn; [auto | auto | | | | auto | | ].
    + apply blocks_ok_app; auto.
    + intros x Hx. unfold covered; cbn. destruct (Ic x Hx) as [?|[?|?]]; [left | right; left; auto | right; right; auto].
      apply blocks_samples_incl_l; auto.
    + unfold head_lb; cbn. auto.
    + unfold pc_fact; cbn. split; auto. intros x Hx Ht. cbn. apply blocks_samples_incl_r; auto.
    + intros x Hx. eapply (qs_swap s); eauto.
  - (* OWritten *)
    pcf I P. destruct PF as (F1 & F2 & F3 & F4 & F5).
    assert (HL : forall x, In x (head_ino s) -> head_mint s <= s_t x).
    { intros x Hx. apply (hlb_of s I); auto. rewrite P; discriminate. }
    destruct I as [Ih Io Ib Ic Il Ir Ip Iq]. constructor; cbn; [auto | auto | | | | auto | | ].
    + apply blocks_ok_app; auto.
    + intros x Hx. unfold covered; cbn. destruct (Ic x Hx) as [?|[?|?]]; [left | right; left; auto | right; right; auto].
      apply blocks_samples_incl_l; auto.
    + unfold head_lb; cbn. auto.
    + unfold pc_fact; cbn. repeat split; auto. intros x Hx. cbn. apply blocks_samples_incl_r; auto.
    + intros x Hx. eapply (qs_swap s); eauto.
  - (* BWritten *)
    pcf I P. destruct PF as (F1 & F2 & F3).
    assert (HL : forall x, In x (head_ino s) -> head_mint s <= s_t x).
    { intros x Hx. apply (hlb_of s I); auto. rewrite P; discriminate. }
    destruct I as [Ih Io Ib Ic Il Ir Ip Iq]. constructor; cbn; [auto | auto | | | | auto | | ].
    + apply blocks_ok_app; auto. intros b' Hb'. apply filter_In in Hb'. apply Ib; tauto.
    + intros x Hx. unfold covered; cbn. destruct (Ic x Hx) as [H1|[?|?]]; [left | right; left; auto | right; right; auto].
      apply in_blocks_samples in H1. destruct H1 as (b' & B1 & B2).
      destruct (memZ (b_id b') parents) eqn:M.
      * apply blocks_samples_incl_r. apply in_blocks_samples. exists b. split; [left; auto|]. eapply F3; eauto.
      * apply blocks_samples_incl_l. apply in_blocks_samples. exists b'. split; auto.
        apply filter_In. split; auto. rewrite M; auto.
    + unfold head_lb; cbn. auto.
    + unfold pc_fact; cbn. auto.
    + intros x Hx. eapply (qs_swap s); eauto.
  - (* VWritten: unreachable without view events *)
    pcf I P. contradiction.
Qed.

Lemma step_EGcPub s s' : Inv s -> step s EGcPub = Some s' -> Inv s'.
Proof.
  intros I H. cbn [step] in H. destruct (pc s) eqn:P; try discriminate.
  destruct (to_close s); try discriminate.
  apply guard_some in H as [G ->]. apply andb_true_iff in G. destruct G as [G1 AD]. apply Z.ltb_lt in G1.
  pcf I P. destruct PF as (F1 & F2 & F3 & F4).
  assert (GL : gc_ref s < L) by (destruct F3; lia).
  assert (HL : forall x, In x (head_ino s) -> head_mint s <= s_t x).
  { intros x Hx. apply (hlb_of s I); auto. rewrite P; discriminate. }
  destruct I as [Ih Io Ib Ic Il Ir Ip Iq]. constructor; cbn; [auto | auto | auto | | | auto | | ].
  - intros x Hx. unfold covered; cbn. destruct (Ic x Hx) as [?|[?|(c & H1 & H2 & H3)]]; [left; auto | right; left; auto | ].
    left. apply F4. apply in_ooo_samples. exists c; auto.
  - unfold head_lb; cbn. auto.
  - unfold pc_fact; cbn. auto.
  - intros x Hx. pose proof (all_done_spec s AD x Hx) as St. pose proof (Iq x Hx) as Q.
    rewrite q_ok_done in * by auto. unfold done_ok, safe in *; cbn.
    destruct Q as (Q1 & Q2 & Q3 & Q4). repeat split; auto; try apply Q4; auto.
    destruct (Q4 r H). lia.
Qed.

Lemma step_EOAwaited s s' : Inv s -> step s EOAwaited = Some s' -> Inv s'.
Proof.
  intros I H. cbn [step] in H. destruct (pc s) eqn:P; try discriminate.
  apply guard_some in H as [G ->]. apply negb_true_iff in G.
  pcf I P. destruct PF as (F1 & F2 & F3 & F4).
  apply inv_set_pc; auto.
  - unfold pc_fact; cbn. repeat split; auto.
    intros x r Hx St Hr. pose proof (i_qs _ _ I x Hx) as Q. rewrite q_ok_done in Q by auto.
    destruct Q as (_ & _ & _ & Q4). destruct (Q4 r Hr) as [A _].
    destruct (Z_lt_ge_dec r L); [|lia]. exfalso.
    assert (E : existsb (fun r0 : Z * Z => snd r0 <? L) (ooo_reads s) = true).
    { apply existsb_exists. exists (q_id x, r). split; auto. cbn. apply Z.ltb_lt; auto. }
    congruence.
  - intros x Hx. unfold head_lb; cbn. apply (hlb_of s I); auto. rewrite P; discriminate.
Qed.

Lemma step_EODone s s' : Inv s -> step s EODone = Some s' -> Inv s'.
Proof.
  intros I H. cbn [step] in H. destruct (pc s) eqn:P; try discriminate.
  - destruct (to_close s); try discriminate. apply guard_some in H as [G ->].
    pcf I P. destruct PF as (F1 & _).
    apply inv_set_pc; auto.
    intros x Hx. unfold head_lb; cbn. apply (hlb_of s I); auto. rewrite P; discriminate.
  - assert (E : s' = set_pc s Idle) by (destruct (to_close s); inv H; auto). subst s'.
    pcf I P.
    apply inv_set_pc; auto.
    intros x Hx. unfold head_lb; cbn. apply (hlb_of s I); auto. rewrite P; discriminate.
Qed.

Lemma step_EBWritten s s' id ps mint maxt : Inv s -> step s (EBWritten id ps mint maxt) = Some s' -> Inv s'.
Proof.
  intros I H. cbn [step] in H. destruct (pc s) eqn:P; try discriminate.
  apply guard_some in H as [G ->].
  rewrite !andb_true_iff in G. destruct G as [[[[G1 G2] G3] G4] G5].
  pcf I P.
  apply inv_set_pc; auto.
  - unfold pc_fact; cbn. split; auto. split.
    + intros b [<-|[]]. split; auto. cbn. intros y Hy. apply nodup_In in Hy.
      apply in_blocks_samples in Hy. destruct Hy as (b' & B1 & B2). apply filter_In in B1.
      destruct (i_blocks _ _ I b') as [_ A]; [tauto|]. auto.
    + intros b' y B1 B2 B3. cbn. apply nodup_In. apply in_blocks_samples. exists b'. split; auto.
      apply filter_In. auto.
  - intros x Hx. unfold head_lb; cbn. apply (hlb_of s I); auto. rewrite P; discriminate.
Qed.

(* ---- querier steps ------------------------------------------------------------------------ *)

Lemma pc_fact_queriers s s' :
  pc s' = pc s -> head_ino s' = head_ino s -> head_mint s' = head_mint s -> ooo_mem s' = ooo_mem s ->
  db_blocks s' = db_blocks s -> gc_ref s' = gc_ref s -> trunc_flag s' = trunc_flag s ->
  trunc_time s' = trunc_time s ->
  (forall T hm0, (pc s = Awaited T hm0 \/ pc s = MinSet T hm0) -> awaited_q s T hm0 -> awaited_q s' T hm0) ->
  (forall L, pc s = OAwaited L -> oawaited_q s L -> oawaited_q s' L) ->
  pc_fact C s -> pc_fact C s'.
Proof.
  intros E0 E1 E2 E3 E4 E5 E6 E7 A B. unfold pc_fact. rewrite E0.
  destruct (pc s) eqn:P; unfold cov_head, cov_ooo, all_ref, gen_ok; rewrite ?E1, ?E2, ?E3, ?E4, ?E5, ?E6, ?E7;
    try solve [auto].
  all: intros F; decompose [and] F; repeat split; eauto.
Qed.

Lemma q_ok_other s s' q x :
  head_ino s' = head_ino s -> head_mint s' = head_mint s -> ooo_mem s' = ooo_mem s ->
  db_blocks s' = db_blocks s -> gc_ref s' = gc_ref s ->
  (forall a b c, In (a, b, c) (iso s) -> a <> q -> In (a, b, c) (iso s')) ->
  (forall a b, In (a, b) (ooo_reads s) -> a <> q -> In (a, b) (ooo_reads s')) ->
  q_id x <> q -> q_ok C s x -> q_ok C s' x.
Proof.
  intros E1 E2 E3 E4 E5 HI HO N. unfold q_ok, mid_ok, done_ok, safe.
  rewrite E1, E2, E3, E4, E5. destruct (q_stage x).
  - intros (Q1 & Q2 & Q3 & Q4 & Q5 & Q6). repeat split; auto; try (apply Q6; auto).
    apply HI; auto. apply Q6; auto.
  - intros (Q1 & Q2 & Q3 & Q4 & Q5 & Q6). repeat split; auto; try (apply Q6; auto).
    apply HI; auto. apply Q6; auto.
  - intros (Q1 & Q2 & Q3 & Q4). repeat split; auto; try (apply Q4; auto).
    + intros f Hf. destruct (Q3 f Hf) as (lo & A & B). exists lo; split; auto.
    + apply HO; auto. apply Q4; auto.
Qed.

Lemma step_EQIter s s' q : Inv s -> step s (EQIter q) = Some s' -> Inv s'.
Proof.
  intros I H. cbn [step] in H. destruct (find_q s q); try discriminate.
  destruct (q_stage q0); try discriminate. inv H.
  destruct (existsb _ _); auto. apply (inv_frame C s); auto; reflexivity.
Qed.

Lemma step_EQClose s s' q : Inv s -> step s (EQClose q) = Some s' -> Inv s'.
Proof.
  intros I H. cbn [step] in H. destruct (find_q s q) eqn:F; try discriminate.
  destruct (q_stage q0); try discriminate. inv H.
  assert (HL : forall x, In x (head_ino s) -> head_lb s <= s_t x) by (apply (i_hlb _ _ I)).
  pose proof (i_pc _ _ I) as PF.
  destruct I as [Ih Io Ib Ic Il Ir Ip Iq]. constructor; cbn; [auto | auto | auto | | | auto | | ].
  - intros x Hx. eapply covered_frame; [..|apply Ic; auto]; reflexivity.
  - unfold head_lb in *; cbn. auto.
  - eapply pc_fact_queriers; [..|exact PF]; try reflexivity.
    + intros T hm0 _ A x f Hx. cbn in Hx. apply in_others in Hx. apply A; tauto.
    + intros L _ A x r Hx. cbn in Hx. apply in_others in Hx. apply A; tauto.
  - intros x Hx. apply in_others in Hx. destruct Hx as [Hx N].
    eapply (q_ok_other s); [..|exact N|apply Iq; auto]; try reflexivity; cbn.
    + intros a b c Hi Na. apply filter_In. split; auto. cbn. apply negb_true_iff. apply Z.eqb_neq; auto.
    + intros a b Hi Na. apply filter_In. split; auto. cbn. apply negb_true_iff. apply Z.eqb_neq; auto.
Qed.

Lemma step_EQBegin s s' q mint maxt : Inv s -> step s (EQBegin q mint maxt) = Some s' -> Inv s'.
Proof.
  intros I H. cbn [step] in H.
  destruct (negb (existsb (fun x => q_id x =? q) (queriers s)) && (mint <=? maxt)) eqn:G; try discriminate.
  apply andb_true_iff in G. destruct G as [_ G]. apply Z.leb_le in G.
  set (bs := filter (block_overlaps mint maxt) (db_blocks s)) in *.
  set (ooo := (mint <=? ooo_maxt s) && (ooo_mint s <=? maxt)) in *.
  set (nq := mkQ q mint maxt Begun bs (head_mint s) ooo ((head_mint s <=? maxt) || ooo) (gc_ref s) None None) in *.
  set (s1 := set_readers s (iso s) (ooo_reads s) (map (fun b => (q, b_id b)) bs ++ pending s) (nq :: queriers s)) in *.
  assert (I1 : Inv s1).
  { pose proof (i_pc _ _ I) as PF.
    destruct I as [Ih Io Ib Ic Il Ir Ip Iq]. constructor; cbn; [auto | auto | auto | | | auto | | ].
    - intros x Hx. eapply covered_frame; [..|apply Ic; auto]; reflexivity.
    - unfold head_lb in *; cbn. auto.
    - eapply pc_fact_queriers; [..|exact PF]; try reflexivity.
      + intros T hm0 _ A x f Hx St. cbn in Hx. destruct Hx as [<-|Hx]; [discriminate|]. apply A; auto.
      + intros L _ A x r Hx St. cbn in Hx. destruct Hx as [<-|Hx]; [discriminate|]. apply A; auto.
    - intros x [<-|Hx].
      + unfold q_ok, mid_ok; cbn. repeat split; auto; try lia; try discriminate.
        intros E y Hy R. apply Ir in Hy. subst ooo. apply andb_false_iff in E.
        destruct E as [E|E]; apply Z.leb_gt in E; lia.
      + eapply q_ok_frame; [..|apply Iq; auto]; reflexivity. }
  destruct (existsb _ bs); inv H; auto.
  apply (inv_frame C s1); auto; reflexivity.
Qed.

Lemma step_EQOpenHead s s' q : Inv s -> step s (EQOpenHead q) = Some s' -> Inv s'.
Proof.
  intros I H. cbn [step] in H. destruct (find_q s q) eqn:F; try discriminate.
  apply find_q_some in F. destruct F as [Fx Fq].
  destruct (q_stage q0) eqn:St; try discriminate.
  apply guard_some in H as [G ->].
  pose proof (i_pc _ _ I) as PF. pose proof (i_qs _ _ I q0 Fx) as Q0. unfold q_ok in Q0. rewrite St in Q0.
  destruct I as [Ih Io Ib Ic Il Ir Ip Iq]. constructor; cbn; [auto | auto | auto | | | auto | | ].
  - intros x Hx. eapply covered_frame; [..|apply Ic; auto]; reflexivity.
  - unfold head_lb in *; cbn. auto.
  - eapply pc_fact_queriers; [..|exact PF]; try reflexivity.
    + intros T hm0 _ A x f Hx St'. cbn in Hx. destruct Hx as [<-|Hx]; [discriminate|]. apply in_others in Hx. apply A; tauto.
    + intros L _ A x r Hx St'. cbn in Hx. destruct Hx as [<-|Hx]; [discriminate|]. apply in_others in Hx. apply A; tauto.
  - intros x [<-|Hx].
    + unfold q_ok, mid_ok in *; cbn. destruct Q0 as (Q1 & Q2 & Q3 & Q4 & Q5 & Q6). repeat split; auto.
    + apply in_others in Hx. destruct Hx as [Hx N].
      eapply (q_ok_other s); [..|exact N|apply Iq; auto]; try reflexivity; cbn; auto.
Qed.

(* the common part of EQFinish: the finished querier gets (from, oref) and registrations iso' / rd' *)
Lemma finish_inv s x q iso' rd' from oref o :
  o = q_ooo x -> Inv s -> In x (queriers s) -> q_id x = q -> q_stage x <> Done -> mid_ok s x ->
  (forall a b c, In (a, b, c) (iso s) -> a <> q -> In (a, b, c) iso') ->
  (forall a b, In (a, b) (ooo_reads s) -> a <> q -> In (a, b) rd') ->
  (forall f, from = Some f -> exists lo, lo <= f /\ In (q, lo, q_maxt x) iso') ->
  (forall r, oref = Some r -> In (q, r) rd' /\ r <= gc_ref s) ->
  (forall y, In y (head_ino s) -> head_mint s <= s_t y -> (trunc_flag s = true -> trunc_time s <= s_t y) ->
     q_mint x <= s_t y <= q_maxt x -> exists f, from = Some f /\ f <= s_t y) ->
  (q_ooo x = true -> oref = Some (gc_ref s)) ->
  (forall T hm0 f, (pc s = Awaited T hm0 \/ pc s = MinSet T hm0) -> from = Some f -> q_maxt x < hm0 \/ T <= f) ->
  (forall L r, pc s = OAwaited L -> oref = Some r -> L <= r) ->
  Inv (set_readers s iso' rd' (pending s)
         (mkQ q (q_mint x) (q_maxt x) Done (q_blocks x) (q_hm x) o (q_hashead x) (q_gc x) from oref
          :: others s q)).
Proof.
  intros -> I Hx Hq St M HI HO RF RO HP OP AW AW2.
  pose proof (i_pc _ _ I) as PF.
  destruct M as (M1 & M2 & M3 & M4 & M5 & M6).
  destruct I as [Ih Io Ib Ic Il Ir Ip Iq]. constructor; cbn; [auto | auto | auto | | | auto | | ].
  - intros y Hy. eapply covered_frame; [..|apply Ic; auto]; reflexivity.
  - unfold head_lb in *; cbn. auto.
  - eapply pc_fact_queriers; [..|exact PF]; try reflexivity.
    + intros T hm0 PP A x' f Hx' St'. cbn in Hx'. destruct Hx' as [<-|Hx'].
      * cbn. intros Ef. eapply AW; eauto.
      * apply in_others in Hx'. apply A; tauto.
    + intros L PP A x' r Hx' St'. cbn in Hx'. destruct Hx' as [<-|Hx'].
      * cbn. intros Er. eapply AW2; eauto.
      * apply in_others in Hx'. apply A; tauto.
  - intros x' [<-|Hx'].
    + unfold q_ok, done_ok; cbn. split; [|split; [|split; auto]].
      * intros y Hy. rewrite M1 in Hy. apply in_blocks_samples in Hy. destruct Hy as (b & B1 & B2).
        apply filter_In in B1. destruct (Ib b) as [_ A]; [tauto|]. auto.
      * unfold safe; cbn. intros y Hy R. destruct (Ic y Hy) as [H1|[(H1&H2&H3)|(c & H1 & H2 & H3)]].
        -- left. rewrite M1. apply in_blocks_samples in H1. destruct H1 as (b & B1 & B2).
           apply in_blocks_samples. exists b. split; auto. apply filter_In. split; auto.
           destruct (Ib b B1) as [W _]. eapply block_wf_overlap; eauto.
        -- right; left. destruct (HP y H1 H2 H3 R) as (f & E1 & E2). exists f; auto.
        -- right; right. destruct (q_ooo x) eqn:OO.
           ++ exists (gc_ref s), c. repeat split; auto.
           ++ exfalso. eapply (M4 eq_refl y); eauto. apply in_ooo_samples. exists c; auto.
    + apply in_others in Hx'. destruct Hx' as [Hx' N]. rewrite <- Hq in *.
      eapply (q_ok_other s); [..|exact N|apply Iq; auto]; try reflexivity; cbn; auto.
Qed.

Ltac in_iso_tac :=
  cbn; repeat right;
  try (apply filter_In; split; [|cbn; apply negb_true_iff; apply Z.eqb_neq; auto]); auto.

Ltac reg_tac := cbn; first [ left; reflexivity | right; left; reflexivity | assumption | solve [auto] ].

Lemma step_EQFinish s s' q : Inv s -> step s (EQFinish q) = Some s' -> Inv s'.
Proof.
  intros I H. cbn [step] in H. destruct (find_q s q) as [x|] eqn:F; try discriminate.
  apply find_q_some in F. destruct F as [Fx Fq]. subst q.
  pose proof (i_pc _ _ I) as PF. pose proof (i_qs _ _ I x Fx) as M. unfold q_ok in M.
  destruct (q_stage x) eqn:St; try discriminate.
  - (* Begun, no head part *)
    apply guard_some in H as [G ->]. apply negb_true_iff in G.
    pose proof M as M'. destruct M' as (M1 & M2 & M3 & M4 & M5 & M6).
    rewrite G in M5. symmetry in M5. apply orb_false_iff in M5. destruct M5 as [M5 M7]. apply Z.leb_gt in M5.
    apply (finish_inv s x (q_id x)); auto; try congruence; try congruence; try discriminate.
    intros y Y1 Y2 Y3 R. exfalso. lia.
  - (* Opened *)
    pose proof M as M'. destruct M' as (M1 & M2 & M3 & M4 & M5 & M6). destruct (M6 St) as [M7 M8].
    assert (AWT : forall T hm0, pc s = Awaited T hm0 \/ pc s = MinSet T hm0 -> trunc_flag s = true /\ trunc_time s = T).
    { intros T hm0 [PP|PP]; unfold pc_fact in PF; rewrite PP in PF; tauto. }
    assert (AWL : forall L, pc s = OAwaited L -> gc_ref s = L).
    { intros L PP; unfold pc_fact in PF; rewrite PP in PF; tauto. }
    unfold colliding in H.
    destruct (trunc_flag s) eqn:FL;
      [ destruct (q_maxt x <? trunc_time s) eqn:C1;
        [ apply Z.ltb_lt in C1
        | apply Z.ltb_ge in C1; destruct (q_mint x <? trunc_time s) eqn:C2;
          [ apply Z.ltb_lt in C2 | apply Z.ltb_ge in C2 ] ]
      | ];
      cbn iota beta in H; destruct (q_ooo x) eqn:OO; inv H;
      (apply (finish_inv s x (q_id x)); auto; try congruence;
       first
       [ solve [intros a b c Hi Na; in_iso_tac]
       | solve [intros a b Hi Na; in_iso_tac]
       | solve [intros f E; inv E; eexists; (split; [apply Z.le_refl | reg_tac])]
       | solve [intros r E; inv E; (split; [reg_tac | lia])]
       | solve [intros y Y1 Y2 Y3 R; try specialize (Y3 FL); try (exfalso; lia); eexists; (split; [reflexivity | lia])]
       | solve [intros E; try congruence; rewrite M3; reflexivity]
       | solve [intros T hm0 f PP E; destruct (AWT T hm0 PP) as [A1 A2]; try congruence; inv E; right; lia]
       | solve [intros L r PP E; inv E; rewrite <- (AWL L PP); lia]
       | idtac ]).
Qed.

Theorem step_inv s s' e : is_view e = false -> Inv s -> step s e = Some s' -> Inv s'.
Proof.
  intros NV. destruct e; try discriminate NV.
  - apply step_EHWritten.
  - apply step_ESwapped.
  - apply step_EBlockClosing.
  - apply step_EBlockClosed.
  - apply step_ETimePub.
  - apply step_EFlagSet.
  - apply step_EAwaited.
  - apply step_EMinSet.
  - apply step_EGcDone.
  - apply step_EHeadDone.
  - apply step_EOStart.
  - apply step_EOWritten.
  - apply step_EGcPub.
  - apply step_EOAwaited.
  - apply step_EODone.
  - apply step_EBWritten.
  - apply step_EQBegin.
  - apply step_EQOpenHead.
  - apply step_EQFinish.
  - apply step_EQIter.
  - apply step_EQClose.
Qed.

Lemma result_spec s x :
  Inv s -> In x (queriers s) -> q_stage x = Done ->
  NoDup (q_result s x) /\
  forall y, In y (q_result s x) <-> (In y C /\ q_mint x <= s_t y <= q_maxt x).
Proof.
  intros I Hx St. pose proof (i_qs _ _ I x Hx) as Q. rewrite q_ok_done in Q by auto.
  destruct Q as (Q1 & Q2 & _ & _). unfold q_result. split; [apply NoDup_nodup|].
  intros y. rewrite nodup_In, filter_In, in_range_true, !in_app_iff. split.
  - intros [[H|[H|H]] R]; split; auto.
    + destruct (q_from x); [|destruct H]. apply filter_In in H. apply (i_sub_head _ _ I); tauto.
    + destruct (q_oooref x); [|destruct H]. apply (i_sub_ooo _ _ I). eapply ooo_samples_filter; eauto.
  - intros [Hy R]. split; auto. destruct (Q2 y Hy R) as [H|[(f & E1 & E2 & E3)|(r & c & E1 & E2 & E3 & E4)]].
    + left; auto.
    + right; left. rewrite E1. apply filter_In. split; auto. apply Z.leb_le; auto.
    + right; right. rewrite E1. apply in_ooo_samples. exists c. split; auto. apply filter_In. auto.
Qed.

Definition out_ok (o : Z * Z * Z * list sample) : Prop :=
  let '(_, mint, maxt, res) := o in
  NoDup res /\ forall y, In y res <-> (In y C /\ mint <= s_t y <= maxt).

Lemma output_ok s s' e : Inv s -> step s e = Some s' -> forall o, In o (output s e) -> out_ok o.
Proof.
  intros I H o Ho. destruct e; cbn in Ho; try (destruct Ho).
  cbn [step] in H. destruct (find_q s q) as [x|] eqn:F; [|destruct Ho].
  destruct Ho as [<-|[]]. apply find_q_some in F. destruct F as [Fx _].
  destruct (q_stage x) eqn:St; try discriminate.
  unfold out_ok. apply result_spec; auto.
Qed.

Lemma run_inv tr : forall s s' outs, no_view tr = true -> Inv s -> run s tr = Some (s', outs) ->
  Inv s' /\ forall o, In o outs -> out_ok o.
Proof.
  induction tr as [|e tr IH]; intros s s' outs NV I H; cbn in H.
  - inv H. split; auto. intros o [].
  - cbn in NV. apply andb_true_iff in NV. destruct NV as [NV1 NV2]. apply negb_true_iff in NV1.
    destruct (step s e) as [s1|] eqn:S1; try discriminate.
    destruct (run s1 tr) as [[sf o1]|] eqn:R1; try discriminate. inv H.
    destruct (IH s1 s' o1 NV2 (step_inv _ _ _ NV1 I S1) R1) as [A B]. split; [exact A|].
    intros o Ho. apply in_app_or in Ho. destruct Ho as [Ho|Ho]; [|apply B; exact Ho].
    exact (output_ok s s1 e I S1 o Ho).
Qed.

End Steps.

Lemma andb_split a b : a && b = true -> a = true /\ b = true.
Proof. apply andb_true_iff. Qed.

Lemma inv_init s : wf_init s = true -> Inv (committed s) s.
Proof.
  unfold wf_init. intros H. rewrite !andb_true_iff in H.
  destruct H as [[[[[[[[[W1 W2] W3] W4] W5] W6] W7] W8] W9] W10].
  destruct (pc s) eqn:P; try discriminate.
  apply negb_true_iff in W2.
  destruct (queriers s) eqn:EQ; try discriminate.
  rewrite forallb_forall in W5, W6, W7, W9.
  constructor.
  - intros x Hx. unfold committed. apply in_or_app; right. apply in_or_app; left; auto.
  - intros x Hx. unfold committed. apply in_or_app; right. apply in_or_app; right; auto.
  - intros b Hb. split; auto. intros y Hy. unfold committed. apply in_or_app; left.
    apply in_blocks_samples. exists b; auto.
  - intros x Hx. unfold committed in Hx. apply in_app_or in Hx. destruct Hx as [Hx|Hx]; [left; auto|].
    apply in_app_or in Hx. destruct Hx as [Hx|Hx].
    + right; left. split; auto. split; [apply Z.leb_le; apply W5; auto | rewrite W2; discriminate].
    + right; right. apply in_ooo_samples in Hx. destruct Hx as (c & H1 & H2). exists c. repeat split; auto.
      unfold chunk_visible. specialize (W7 c H1). destruct (oc_ref c); auto.
  - intros x Hx. unfold head_lb. rewrite P. apply Z.leb_le. apply W5; auto.
  - intros x Hx. specialize (W6 x Hx). apply andb_true_iff in W6. rewrite !Z.leb_le in W6. auto.
  - unfold pc_fact. rewrite P. auto.
  - rewrite EQ. intros x [].
Qed.

Theorem exactly_once : forall s0 tr s outs,
  wf_init s0 = true -> no_view tr = true -> run s0 tr = Some (s, outs) ->
  forall q mint maxt res, In (q, mint, maxt, res) outs ->
    NoDup res /\ (forall x, In x res <-> (In x (committed s0) /\ mint <= s_t x <= maxt)).
Proof.
  intros s0 tr s outs W NV R q mint maxt res Ho.
  destruct (run_inv (committed s0) tr s0 s outs NV (inv_init s0 W) R) as [_ B].
  exact (B _ Ho).
Qed.

(* if no two committed samples share (series, timestamp), no (series, timestamp) is returned twice *)
Theorem exactly_once_keys : forall s0 tr s outs,
  wf_init s0 = true -> no_view tr = true -> run s0 tr = Some (s, outs) ->
  (forall a b, In a (committed s0) -> In b (committed s0) -> s_sid a = s_sid b -> s_t a = s_t b -> a = b) ->
  forall q mint maxt res, In (q, mint, maxt, res) outs ->
    NoDup (map (fun x => (s_sid x, s_t x)) res).
Proof.
  intros s0 tr s outs W NV R U q mint maxt res Ho.
  destruct (exactly_once s0 tr s outs W NV R q mint maxt res Ho) as [ND SP].
  assert (Sub : forall x, In x res -> In x (committed s0)) by (intros x Hx; apply SP in Hx; tauto).
  clear SP Ho. revert ND Sub. induction res as [|a r IHr]; intros ND Sub; cbn; constructor.
  - inv ND. intros Hin. apply in_map_iff in Hin. destruct Hin as (b & E & Hb). inv E.
    assert (b = a) by (apply U; auto; [apply Sub; right; auto | apply Sub; left; auto]). subst; auto.
  - inv ND. apply IHr; auto. intros x Hx. apply Sub; right; auto.
Qed.

(* proof/DurableProofs.v — proofs about model/Durable.v (property C03). *)
From Coq Require Import List ZArith Bool Lia Sorting.Sorted Permutation.
From Verif Require Import lib.Int64 model.Durable.
Import ListNotations.
Open Scope Z_scope.

(* ================= sets of samples ================= *)
Definition same_set (a b : list sample) : Prop := forall x, In x a <-> In x b.
Definition subset (a b : list sample) : Prop := forall x, In x a -> In x b.

Lemma same_set_refl a : same_set a a. Proof. firstorder. Qed.
Lemma same_set_sym a b : same_set a b -> same_set b a. Proof. firstorder. Qed.
Lemma same_set_trans a b c : same_set a b -> same_set b c -> same_set a c.
Proof. unfold same_set; intros H1 H2 x; rewrite H1; apply H2. Qed.

Lemma memZ_In x l : memZ x l = true <-> In x l.
Proof.
  unfold memZ. rewrite existsb_exists. split.
  - intros [y [Hy He]]. apply Z.eqb_eq in He. subst. exact Hy.
  - intros H. exists x. split; [exact H | apply Z.eqb_refl].
Qed.

Lemma memZ_false x l : memZ x l = false <-> ~ In x l.
Proof. rewrite <- memZ_In. destruct (memZ x l); split; congruence. Qed.

Lemma covered_app a b x : covered (a ++ b) x = covered a x || covered b x.
Proof. unfold covered. apply existsb_app. Qed.

(* ================= the fields [visible] reads ================= *)
Lemma visible_ext s s' :
  f_wal s = f_wal s' -> f_cp s = f_cp s' -> f_wbl s = f_wbl s' -> f_blk s = f_blk s' ->
  visible s = visible s'.
Proof.
  intros H1 H2 H3 H4.
  unfold visible, head_io, head_tombs, ooo, wal_samples, wal_recs, min_valid, live.
  rewrite H1, H2, H3, H4. reflexivity.
Qed.

(* ---- mechanism: tmp directory + rename is all-or-nothing ---- *)
(* writing into <ULID>.tmp-for-creation changes nothing a reopened database sees *)
Lemma tmpfill_invisible s b : visible (apply s (TmpFill b)) = visible s.
Proof. apply visible_ext; reflexivity. Qed.
(* neither does writing checkpoint.N.tmp *)
Lemma cptmp_invisible s rs : visible (apply s (CpTmpWrite rs)) = visible s.
Proof. apply visible_ext; reflexivity. Qed.
(* nor removing a directory already renamed to .tmp-for-deletion *)
Lemma delremove_invisible s id : visible (apply s (DelRemove id)) = visible s.
Proof. apply visible_ext; reflexivity. Qed.

(* a crash anywhere before the rename of a block write leaves the visible set untouched:
   every prefix of [TmpFill b; ...] that does not contain the rename *)
Lemma block_write_atomic s b :
  visible (durable s [TmpFill b]) = visible s.
Proof. simpl. apply tmpfill_invisible. Qed.

(* ================= durable / traces ================= *)
Lemma durable_app s a b : durable s (a ++ b) = durable (durable s a) b.
Proof. unfold durable. apply fold_left_app. Qed.

Lemma run_app c a b : run c (a ++ b) = fold_left (op_step c) b (run c a).
Proof. unfold run. apply fold_left_app. Qed.

Lemma trace_from_app c m a b :
  trace_from c m (a ++ b) = trace_from c m a ++ trace_from c (fold_left (op_step c) a m) b.
Proof.
  revert m. induction a as [|o a IH]; intros m; simpl; [reflexivity|].
  rewrite IH, app_assoc. reflexivity.
Qed.

Lemma durable_trace_from c m ops :
  durable (m_fs m) (trace_from c m ops) = m_fs (fold_left (op_step c) ops m).
Proof.
  revert m. induction ops as [|o r IH]; intros m; simpl; [reflexivity|].
  rewrite durable_app. rewrite <- IH. reflexivity.
Qed.

(* every prefix of the whole trace is: some complete operations, then a prefix of the next *)
Lemma prefix_decompose c ops k :
  (k <= length (fs_trace c ops))%nat ->
  exists i j, (i <= length ops)%nat /\
    durable (fs0 c) (firstn k (fs_trace c ops)) = crash_state c ops i j /\
    match nth_error ops i with
    | Some o => (j <= length (op_trace c (run c (firstn i ops)) o))%nat
    | None => j = O
    end.
Proof.
  unfold fs_trace, crash_state, run.
  assert (G : forall ops m k, (k <= length (trace_from c m ops))%nat ->
    exists i j, (i <= length ops)%nat /\
      durable (m_fs m) (firstn k (trace_from c m ops)) =
        (let m' := fold_left (op_step c) (firstn i ops) m in
         match nth_error ops i with
         | Some o => durable (m_fs m') (firstn j (op_trace c m' o))
         | None => m_fs m'
         end) /\
      match nth_error ops i with
      | Some o => (j <= length (op_trace c (fold_left (op_step c) (firstn i ops) m) o))%nat
      | None => j = O
      end).
  { clear ops k. induction ops as [|o r IH]; intros m k Hk.
    - exists O, O. simpl in *. destruct k; simpl; auto; try lia.
    - simpl in Hk. rewrite app_length in Hk.
      destruct (Nat.le_gt_cases k (length (op_trace c m o))) as [Hle|Hgt].
      + exists O, k. simpl. rewrite firstn_app.
        replace (k - length (op_trace c m o))%nat with O by lia. simpl. rewrite app_nil_r.
        repeat split; auto. lia.
      + destruct (IH (op_step c m o) (k - length (op_trace c m o))%nat ltac:(lia)) as [i [j [Hi [Hd Hj]]]].
        exists (S i), j. simpl. split; [lia|]. split; [|exact Hj].
        rewrite firstn_app, firstn_all2 by lia. rewrite durable_app.
        exact Hd. }
  intros Hk. destruct (G ops (m0 c) k Hk) as [i [j H]]. exists i, j. exact H.
Qed.

(* ================= the invariant at operation boundaries ================= *)
Definition cp_recs (s : fs) : list rec := match f_cp s with [] => [] | (_, rs) :: _ => rs end.

Record Inv (s : fs) : Prop := mkInv {
  i_wal_ne : f_wal s <> [];
  i_cp : f_cp s = [] \/ exists n rs, f_cp s = [(n, rs)] /\ forall p, In p (f_wal s) -> n < fst p;
  i_live : forall b, In b (f_blk s) -> ~ In (b_id b) (parents_of (f_blk s));
  i_nodup : NoDup (map b_id (f_blk s));
  i_range : forall b x, In b (f_blk s) -> In x (b_data b) -> b_mint b <= s_t x < b_maxt b;
  i_tmp : f_tmp s = [];
  i_del : f_del s = [];
  i_ooo : forall x, In x (ooo s) -> covered (head_tombs s) x = false
}.

Lemma filter_all {A} (f : A -> bool) l : (forall x, In x l -> f x = true) -> filter f l = l.
Proof.
  induction l as [|a l IH]; intros H; simpl; [reflexivity|].
  rewrite (H a (or_introl eq_refl)). f_equal. apply IH. intros x Hx. apply H. right. exact Hx.
Qed.

Lemma live_all s : Inv s -> live s = f_blk s.
Proof.
  intros I. unfold live. apply filter_all. intros b Hb.
  apply negb_true_iff. apply memZ_false. apply (i_live s I b Hb).
Qed.

Lemma wal_recs_inv s : Inv s -> wal_recs s = cp_recs s ++ flat_map snd (f_wal s).
Proof.
  intros I. unfold wal_recs, cp_recs. destruct (i_cp s I) as [H|[n [rs [H Hn]]]]; rewrite H; simpl.
  - reflexivity.
  - f_equal. f_equal. apply filter_all. intros p Hp. apply Z.ltb_lt. apply Hn. exact Hp.
Qed.

Lemma inv_fs0 c : Inv (fs0 c).
Proof.
  constructor.
  - simpl. discriminate.
  - left. reflexivity.
  - simpl. intros b [].
  - simpl. constructor.
  - simpl. intros b x [].
  - reflexivity.
  - reflexivity.
  - intros x. unfold ooo. simpl. destruct (c_ooo c); simpl; intros [].
Qed.

(* ================= the flat specification ================= *)
Definition matches (mint maxt : Z) (sel : list Z) (x : sample) : bool :=
  memZ (s_sid x) sel && (mint <=? s_t x) && (s_t x <=? maxt).

(* the live samples after an operation that returned: a commit adds the accepted samples, a
   deletion removes exactly the selected series' samples in [mint, maxt]; compactions, WAL
   truncation and checkpoints change nothing *)
Definition spec_step (l : list sample) (o : op) : list sample :=
  match o with
  | Commit acc => l ++ map fst acc
  | Delete mint maxt sel _ => filter (fun x => negb (matches mint maxt sel x)) l
  | _ => l
  end.
Definition spec (ops : list op) : list sample := fold_left spec_step ops [].
(* while the operation is in flight: what must still be there / what may be there *)
Definition step_lo (l : list sample) (o : op) : list sample :=
  match o with
  | Delete mint maxt sel _ => filter (fun x => negb (matches mint maxt sel x)) l
  | _ => l
  end.
Definition step_hi (l : list sample) (o : op) : list sample :=
  match o with
  | Commit acc => l ++ map fst acc
  | _ => l
  end.

Lemma spec_step_congr a b o : same_set a b -> same_set (spec_step a o) (spec_step b o).
Proof.
  intros H x. destruct o; simpl; try apply H.
  - rewrite !in_app_iff. rewrite (H x). tauto.
  - rewrite !filter_In. rewrite (H x). tauto.
Qed.

(* ================= well-formed operations ================= *)
Definition wf_op (s : fs) (o : op) : Prop :=
  match o with
  | Commit acc =>
      forall x f, In (x, f) acc ->
        covered (head_tombs s) x = false /\ (f = false -> min_valid s <= s_t x)
  | Delete mint maxt sel _ => forall x, In x (ooo s) -> matches mint maxt sel x = false
  | CutHead _ _ => True
  | TruncWAL mint => mint <= min_valid s
  | CutOOO => True
  | Merge ps _ =>
      let bs := filter (fun b => memZ (b_id b) ps) (f_blk s) in
      (* a merge either has only out-of-order parents or does not raise the in-order horizon;
         deleting the parents of an empty result does not lower it *)
      (flat_map blk_vis bs <> [] ->
       forallb b_ooo bs = true \/ list_max (map b_maxt bs) minInt64 <= min_valid s) /\
      (flat_map blk_vis bs = [] ->
       min_valid (mkFs (f_wal s) (f_cp s) (f_cptmp s) (f_wbl s)
                       (filter (fun b' => negb (memZ (b_id b') (map b_id bs))) (f_blk s)) [] []) = min_valid s)
  end.

(* ================= lists of segments ================= *)
Lemma app_last_flat {A} (l : list (Z * list A)) (x : A) :
  flat_map snd (app_last l x) = flat_map snd l ++ [x].
Proof.
  induction l as [|[i rs] l IH]; simpl; [reflexivity|].
  destruct l as [|q l'].
  - simpl. rewrite !app_nil_r. reflexivity.
  - transitivity (rs ++ flat_map snd (app_last (q :: l') x)); [reflexivity|].
    rewrite IH. simpl. rewrite app_assoc. reflexivity.
Qed.

Lemma app_last_fst {A} (l : list (Z * list A)) (x : A) :
  l <> [] -> map fst (app_last l x) = map fst l.
Proof.
  induction l as [|[i rs] l IH]; intros H; [congruence|].
  destruct l as [|q l'].
  - reflexivity.
  - change (app_last ((i, rs) :: q :: l') x) with ((i, rs) :: app_last (q :: l') x).
    simpl. f_equal. apply IH. discriminate.
Qed.

Lemma app_last_ne {A} (l : list (Z * list A)) (x : A) : app_last l x <> [].
Proof. destruct l as [|[i rs] [|q l']]; simpl; discriminate. Qed.

Lemma in_fst_app_last {A} (l : list (Z * list A)) (x : A) p :
  l <> [] -> In p (app_last l x) -> In (fst p) (map fst l).
Proof.
  intros H Hp. rewrite <- (app_last_fst l x H). apply in_map. exact Hp.
Qed.

(* ================= Commit ================= *)
Lemma apply_walwrite_recs s r : Inv s -> wal_recs (apply s (WalWrite r)) = wal_recs s ++ [r].
Proof.
  intros I. unfold wal_recs. simpl.
  destruct (i_cp s I) as [H|[n [rs [H Hn]]]]; rewrite H; simpl.
  - apply app_last_flat.
  - rewrite (filter_all _ (f_wal s)) by (intros p Hp; apply Z.ltb_lt; apply Hn; exact Hp).
    rewrite filter_all.
    + rewrite app_last_flat. rewrite app_assoc. reflexivity.
    + intros p Hp. apply Z.ltb_lt.
      apply (in_fst_app_last _ _ _ (i_wal_ne s I)) in Hp.
      apply in_map_iff in Hp. destruct Hp as [q [Hq Hin]]. rewrite <- Hq. apply Hn. exact Hin.
Qed.

Lemma apply_walwrite_blk s r : f_blk (apply s (WalWrite r)) = f_blk s. Proof. reflexivity. Qed.

Lemma min_valid_blk s s' : f_blk s = f_blk s' -> min_valid s = min_valid s'.
Proof. intros H. unfold min_valid, live. rewrite H. reflexivity. Qed.

Lemma live_blk s s' : f_blk s = f_blk s' -> live s = live s'.
Proof. intros H. unfold live. rewrite H. reflexivity. Qed.

Lemma inv_walwrite s r :
  Inv s -> (forall x, In x (ooo s) -> covered (rec_tombs r) x = false) -> Inv (apply s (WalWrite r)).
Proof.
  intros I Hr. constructor; try (simpl; apply I).
  - simpl. apply app_last_ne.
  - simpl. destruct (i_cp s I) as [H|[n [rs [H Hn]]]]; [left; exact H|].
    right. exists n, rs. split; [exact H|]. intros p Hp.
    apply (in_fst_app_last _ _ _ (i_wal_ne s I)) in Hp.
    apply in_map_iff in Hp. destruct Hp as [q [Hq Hin]]. rewrite <- Hq. apply Hn. exact Hin.
  - intros x Hx. unfold head_tombs. rewrite (apply_walwrite_recs s r I).
    rewrite flat_map_app. simpl. rewrite app_nil_r. rewrite covered_app.
    change (ooo (apply s (WalWrite r))) with (ooo s) in Hx.
    fold (head_tombs s). rewrite (i_ooo s I x Hx), (Hr x Hx). reflexivity.
Qed.

Lemma in_visible s x :
  In x (visible s) <->
  (exists b, In b (live s) /\ In x (b_data b) /\ covered (b_tomb b) x = false) \/
  ((In x (head_io s) \/ In x (ooo s)) /\ covered (head_tombs s) x = false).
Proof.
  unfold visible. rewrite in_app_iff, in_flat_map, filter_In, in_app_iff.
  split.
  - intros [[b [Hb Hx]]|[H1 H2]].
    + left. exists b. unfold blk_vis in Hx. apply filter_In in Hx. destruct Hx as [Hx Hc].
      apply negb_true_iff in Hc. auto.
    + right. apply negb_true_iff in H2. auto.
  - intros [[b [Hb [Hx Hc]]]|[H1 H2]].
    + left. exists b. split; [exact Hb|]. unfold blk_vis. apply filter_In. rewrite Hc. auto.
    + right. rewrite H2. auto.
Qed.

Lemma in_head_io s x :
  In x (head_io s) <-> In (x, false) (wal_samples s) /\ min_valid s <= s_t x.
Proof.
  unfold head_io. rewrite filter_In, in_map_iff. split.
  - intros [[[y f] [Hy Hin]] Hm]. simpl in Hy. subst y. apply filter_In in Hin.
    destruct Hin as [Hin Hf]. simpl in Hf. destruct f; [discriminate|].
    split; [exact Hin|]. apply Z.leb_le. exact Hm.
  - intros [Hin Hm]. split.
    + exists (x, false). split; [reflexivity|]. apply filter_In. auto.
    + apply Z.leb_le. exact Hm.
Qed.

Lemma wal_samples_walwrite s r :
  Inv s -> wal_samples (apply s (WalWrite r)) = wal_samples s ++ rec_samples r.
Proof.
  intros I. unfold wal_samples. rewrite (apply_walwrite_recs s r I).
  rewrite flat_map_app. simpl. rewrite app_nil_r. reflexivity.
Qed.

Lemma head_tombs_walwrite s r :
  Inv s -> head_tombs (apply s (WalWrite r)) = head_tombs s ++ rec_tombs r.
Proof.
  intros I. unfold head_tombs. rewrite (apply_walwrite_recs s r I).
  rewrite flat_map_app. simpl. rewrite app_nil_r. reflexivity.
Qed.

Lemma ooo_wblwrite s l : ooo (apply s (WblWrite l)) = ooo s ++ l.
Proof.
  unfold ooo. simpl. rewrite app_last_flat. rewrite concat_app. simpl. rewrite app_nil_r. reflexivity.
Qed.

Lemma inv_wblwrite s l :
  Inv s -> (forall x, In x l -> covered (head_tombs s) x = false) -> Inv (apply s (WblWrite l)).
Proof.
  intros I Hl. constructor; try (simpl; apply I).
  intros x Hx. rewrite ooo_wblwrite in Hx. apply in_app_iff in Hx.
  change (head_tombs (apply s (WblWrite l))) with (head_tombs s).
  destruct Hx as [Hx|Hx]; [apply (i_ooo s I x Hx) | apply Hl; exact Hx].
Qed.

(* the visible set after the samples record of a commit reached the WAL *)
Lemma visible_walwrite_samples s acc x :
  Inv s ->
  (forall y f, In (y, f) acc -> covered (head_tombs s) y = false /\ (f = false -> min_valid s <= s_t y)) ->
  (In x (visible (apply s (WalWrite (RSamples acc)))) <-> In x (visible s) \/ In (x, false) acc).
Proof.
  intros I W. rewrite !in_visible.
  rewrite (live_blk (apply s (WalWrite (RSamples acc))) s eq_refl).
  rewrite !in_head_io. rewrite (wal_samples_walwrite s _ I), (head_tombs_walwrite s _ I).
  rewrite (min_valid_blk (apply s (WalWrite (RSamples acc))) s eq_refl).
  change (ooo (apply s (WalWrite (RSamples acc)))) with (ooo s).
  simpl rec_tombs. rewrite app_nil_r. simpl rec_samples. rewrite in_app_iff.
  assert (HW : In (x, false) acc -> covered (head_tombs s) x = false /\ min_valid s <= s_t x).
  { intros H. destruct (W x false H) as [A B]. auto. }
  tauto.
Qed.

Lemma visible_wblwrite s l x :
  (forall y, In y l -> covered (head_tombs s) y = false) ->
  (In x (visible (apply s (WblWrite l))) <-> In x (visible s) \/ In x l).
Proof.
  intros W. rewrite !in_visible. rewrite ooo_wblwrite, in_app_iff.
  change (live (apply s (WblWrite l))) with (live s).
  change (head_io (apply s (WblWrite l))) with (head_io s).
  change (head_tombs (apply s (WblWrite l))) with (head_tombs s).
  specialize (W x). tauto.
Qed.

(* ================= what every operation guarantees ================= *)
Definition op_good (c : cfg) (m : mst) (o : op) : Prop :=
  let s := m_fs m in
  let tr := op_trace c m o in
  Inv (durable s tr) /\
  same_set (visible (durable s tr)) (spec_step (visible s) o) /\
  forall j, subset (step_lo (visible s) o) (visible (durable s (firstn j tr))) /\
            subset (visible (durable s (firstn j tr))) (step_hi (visible s) o).

Lemma in_ooo_part acc x :
  In x (map fst (filter (fun p : sample * bool => snd p) acc)) <-> In (x, true) acc.
Proof.
  rewrite in_map_iff. split.
  - intros [[y f] [Hy Hin]]. simpl in Hy. subst y. apply filter_In in Hin.
    destruct Hin as [Hin Hf]. simpl in Hf. subst f. exact Hin.
  - intros H. exists (x, true). split; [reflexivity|]. apply filter_In. auto.
Qed.

Lemma in_map_fst_flags (acc : list (sample * bool)) x :
  In x (map fst acc) <-> In (x, false) acc \/ In (x, true) acc.
Proof.
  rewrite in_map_iff. split.
  - intros [[y f] [Hy Hin]]. simpl in Hy. subst y. destruct f; auto.
  - intros [H|H]; eexists; split; try exact H; reflexivity.
Qed.

Lemma commit_good c m acc :
  Inv (m_fs m) -> wf_op (m_fs m) (Commit acc) -> op_good c m (Commit acc).
Proof.
  intros I W. unfold op_good. cbn [op_trace spec_step step_lo step_hi]. set (s := m_fs m) in *.
  unfold commit_trace. destruct acc as [|a0 acc0] eqn:Eacc.
  { cbn [durable fold_left]. split; [exact I|]. split.
    - intros x. simpl. rewrite app_nil_r. tauto.
    - intros j. rewrite firstn_nil. cbn [durable fold_left]. simpl. rewrite app_nil_r.
      split; intros x Hx; exact Hx. }
  rewrite <- Eacc in *. clear Eacc a0 acc0.
  set (l := map fst (filter (fun p : sample * bool => snd p) acc)).
  set (s1 := apply s (WalWrite (RSamples acc))).
  assert (I1 : Inv s1) by (apply inv_walwrite; [exact I | intros; reflexivity]).
  assert (V1 : forall x, In x (visible s1) <-> In x (visible s) \/ In (x, false) acc)
    by (intros x; apply visible_walwrite_samples; assumption).
  assert (Hl : forall y, In y l -> covered (head_tombs s1) y = false).
  { intros y Hy. unfold s1. rewrite (head_tombs_walwrite s _ I). simpl. rewrite app_nil_r.
    apply in_ooo_part in Hy. apply (W y true Hy). }
  assert (V2 : forall x, In x (visible (apply s1 (WblWrite l))) <-> In x (visible s) \/ In x (map fst acc)).
  { intros x. rewrite (visible_wblwrite s1 l x Hl), V1, in_map_fst_flags. unfold l. rewrite in_ooo_part. tauto. }
  destruct l as [|y0 l0] eqn:El.
  - (* no out-of-order sample: one step *)
    assert (Hnone : forall x, ~ In (x, true) acc).
    { intros x Hx. apply in_ooo_part in Hx. fold l in Hx. rewrite El in Hx. exact Hx. }
    cbn [durable fold_left]. fold s1. split; [exact I1|]. split.
    + intros x. rewrite V1, in_app_iff, in_map_fst_flags. specialize (Hnone x). tauto.
    + intros j. destruct j as [|j]; cbn [firstn durable fold_left].
      * split; intros x Hx; [exact Hx | apply in_app_iff; auto].
      * rewrite firstn_nil. fold s1. split; intros x Hx.
        -- apply V1. auto.
        -- apply V1 in Hx. rewrite in_app_iff, in_map_fst_flags. tauto.
  - rewrite <- El in *. cbn [durable fold_left]. fold s1. split; [apply inv_wblwrite; assumption|]. split.
    + intros x. rewrite V2, in_app_iff. tauto.
    + intros j. destruct j as [|[|j]]; cbn [firstn durable fold_left]; fold s1.
      * split; intros x Hx; [exact Hx | apply in_app_iff; auto].
      * split; intros x Hx.
        -- apply V1. auto.
        -- apply V1 in Hx. rewrite in_app_iff, in_map_fst_flags. tauto.
      * rewrite firstn_nil. cbn [fold_left]. split; intros x Hx.
        -- apply V2. auto.
        -- apply V2 in Hx. rewrite in_app_iff. exact Hx.
Qed.

(* ================= fresh block ids ================= *)
Lemma le_fold_max x l : In x l -> x <= fold_right Z.max 0 l.
Proof.
  induction l as [|a l IH]; intros H; [contradiction|]. simpl. destruct H as [H|H]; [subst; lia|].
  specialize (IH H). lia.
Qed.

Lemma fresh_gt_id s b : In b (f_blk s) -> b_id b < fresh s.
Proof.
  intros H. unfold fresh.
  assert (b_id b <= fold_right Z.max 0 (ids_of (f_blk s) ++ ids_of (f_tmp s) ++ ids_of (f_del s))).
  { apply le_fold_max. apply in_app_iff. left. unfold ids_of. apply in_app_iff. left. apply in_map. exact H. }
  lia.
Qed.

Lemma fresh_gt_parent s p : In p (parents_of (f_blk s)) -> p < fresh s.
Proof.
  intros H. unfold fresh.
  assert (p <= fold_right Z.max 0 (ids_of (f_blk s) ++ ids_of (f_tmp s) ++ ids_of (f_del s))).
  { apply le_fold_max. apply in_app_iff. left. unfold ids_of. apply in_app_iff. right. exact H. }
  lia.
Qed.

Lemma without_fresh id l : (forall b, In b l -> b_id b <> id) -> without id l = l.
Proof.
  intros H. unfold without. apply filter_all. intros b Hb. unfold has_id.
  apply negb_true_iff. apply Z.eqb_neq. apply H. exact Hb.
Qed.

Lemma with_id_fresh id l : (forall b, In b l -> b_id b <> id) -> with_id id l = [].
Proof.
  intros H. unfold with_id. induction l as [|a l IH]; [reflexivity|]. simpl.
  unfold has_id at 1. destruct (Z.eqb_spec (b_id a) id) as [E|E].
  - exfalso. apply (H a (or_introl eq_refl) E).
  - apply IH. intros b Hb. apply H. right. exact Hb.
Qed.

Definition mv_of (bs : list blk) : Z :=
  fold_right (fun b a => if b_ooo b then a else Z.max (b_maxt b) a) minInt64 bs.

Lemma min_valid_mv s : Inv s -> min_valid s = mv_of (f_blk s).
Proof. intros I. unfold min_valid. rewrite (live_all s I). reflexivity. Qed.

Lemma mv_of_app l b :
  mv_of (l ++ [b]) = if b_ooo b then mv_of l else Z.max (b_maxt b) (mv_of l).
Proof.
  induction l as [|a l IH]; simpl.
  - destruct (b_ooo b); [reflexivity|]. reflexivity.
  - rewrite IH. destruct (b_ooo a), (b_ooo b); try reflexivity. lia.
Qed.

Lemma mv_of_ge l : minInt64 <= mv_of l.
Proof. induction l as [|a l IH]; simpl; [lia|]. destruct (b_ooo a); lia. Qed.

Lemma list_min_le l d x : In x l -> list_min l d <= x.
Proof.
  induction l as [|a l IH]; intros H; [contradiction|]. simpl. destruct H as [H|H]; [subst; lia|].
  specialize (IH H). lia.
Qed.

Lemma parents_of_app a b : parents_of (a ++ b) = parents_of a ++ parents_of b.
Proof. unfold parents_of. apply flat_map_app. Qed.

Lemma NoDup_snoc {A} (l : list A) x : NoDup l -> ~ In x l -> NoDup (l ++ [x]).
Proof.
  intros H Hx. induction H as [|a l Ha Hl IH]; simpl.
  - constructor; [intros []|constructor].
  - constructor.
    + rewrite in_app_iff. intros [H1|[H1|[]]]; [contradiction|]. subst. apply Hx. left. reflexivity.
    + apply IH. intros H1. apply Hx. right. exact H1.
Qed.

(* adding a block with a fresh id and no parents to a good directory *)
Lemma inv_add_block s b :
  Inv s -> b_id b = fresh s -> b_parents b = [] ->
  (forall x, In x (b_data b) -> b_mint b <= s_t x < b_maxt b) ->
  Inv (mkFs (f_wal s) (f_cp s) (f_cptmp s) (f_wbl s) (f_blk s ++ [b]) [] (f_del s)).
Proof.
  intros I Hid Hp Hr. constructor; simpl; try apply I.
  - intros b' Hb'. rewrite parents_of_app. unfold parents_of at 2. simpl. rewrite Hp. simpl. rewrite app_nil_r.
    apply in_app_iff in Hb'. destruct Hb' as [Hb'|[Hb'|[]]].
    + apply (i_live s I b' Hb').
    + subst b'. intros Hin. apply fresh_gt_parent in Hin. lia.
  - rewrite map_app. simpl. apply NoDup_snoc.
    + apply I.
    + intros Hin. apply in_map_iff in Hin. destruct Hin as [b' [E Hb']]. apply fresh_gt_id in Hb'. lia.
  - intros b' x Hb' Hx. apply in_app_iff in Hb'. destruct Hb' as [Hb'|[Hb'|[]]].
    + apply (i_range s I b' x Hb' Hx).
    + subst b'. apply Hr. exact Hx.
  - reflexivity.
Qed.

Definition add_block (s : fs) (b : blk) : fs :=
  mkFs (f_wal s) (f_cp s) (f_cptmp s) (f_wbl s) (f_blk s ++ [b]) [] (f_del s).

Lemma write_block_state s b :
  Inv s -> b_id b = fresh s ->
  durable s [TmpFill b; BlkRename (b_id b)] = add_block s b.
Proof.
  intros I Hid. cbn [durable fold_left apply f_wal f_cp f_cptmp f_wbl f_blk f_tmp f_del].
  rewrite (i_tmp s I). unfold add_block. f_equal.
  - rewrite without_fresh.
    + f_equal. unfold with_id, without. simpl. unfold has_id. rewrite Z.eqb_refl. reflexivity.
    + intros b' Hb'. apply fresh_gt_id in Hb'. lia.
  - unfold without. simpl. unfold has_id. rewrite Z.eqb_refl. reflexivity.
Qed.

(* membership in the visible set of a directory satisfying the invariant *)
Lemma in_visible_inv s x :
  Inv s ->
  (In x (visible s) <->
   (exists b, In b (f_blk s) /\ In x (b_data b) /\ covered (b_tomb b) x = false) \/
   (((In (x, false) (wal_samples s) /\ mv_of (f_blk s) <= s_t x) \/ In x (ooo s)) /\
    covered (head_tombs s) x = false)).
Proof.
  intros I. rewrite in_visible, in_head_io, (live_all s I), (min_valid_mv s I). tauto.
Qed.

Lemma cut_head_good c m mint maxt :
  Inv (m_fs m) -> op_good c m (CutHead mint maxt).
Proof.
  intros I. unfold op_good. cbn [op_trace spec_step step_lo step_hi]. set (s := m_fs m) in *.
  unfold cut_head_trace.
  set (data := filter (fun x => (s_t x <? maxt) && negb (covered (head_tombs s) x)) (head_io s)).
  destruct data as [|d0 data0] eqn:Ed.
  { cbn [durable fold_left]. split; [exact I|]. split; [apply same_set_refl|].
    intros j. rewrite firstn_nil. cbn [durable fold_left]. split; intros x Hx; exact Hx. }
  rewrite <- Ed in *. clear Ed d0 data0. cbv zeta.
  set (b := mkBlk (fresh s) (list_min (map s_t data) mint) maxt false [] data []).
  assert (Hdata : forall x, In x data <->
            In (x, false) (wal_samples s) /\ mv_of (f_blk s) <= s_t x /\ s_t x < maxt /\ covered (head_tombs s) x = false).
  { intros x. unfold data. rewrite filter_In, in_head_io, (min_valid_mv s I), andb_true_iff, negb_true_iff, Z.ltb_lt. tauto. }
  assert (E : durable s [TmpFill b; BlkRename (b_id b)] = add_block s b) by (apply write_block_state; [exact I|reflexivity]).
  assert (I2 : Inv (add_block s b)).
  { apply inv_add_block; try reflexivity; [exact I|]. intros x Hx. simpl. split.
    - apply list_min_le. apply in_map. exact Hx.
    - apply Hdata in Hx. lia. }
  assert (V2 : same_set (visible (add_block s b)) (visible s)).
  { intros x. rewrite (in_visible_inv _ x I2), (in_visible_inv s x I).
    unfold add_block at 1 2 3. cbn [f_blk].
    change (wal_samples (add_block s b)) with (wal_samples s).
    change (ooo (add_block s b)) with (ooo s).
    change (head_tombs (add_block s b)) with (head_tombs s).
    rewrite mv_of_app. cbn [b_ooo b_maxt b].
    split.
    - intros [[b' [Hb' [Hx Hc]]]|H].
      + apply in_app_iff in Hb'. destruct Hb' as [Hb'|[Hb'|[]]].
        * left. exists b'. auto.
        * subst b'. cbn [b_data b] in Hx. apply Hdata in Hx. right. tauto.
      + right. destruct H as [[[H1 H2]|H1] H3]; [|tauto]. split; [|exact H3]. left. split; [exact H1|lia].
    - intros [[b' [Hb' [Hx Hc]]]|H].
      + left. exists b'. split; [apply in_app_iff; auto|auto].
      + destruct H as [[[H1 H2]|H1] H3]; [|tauto].
        destruct (Z.lt_ge_cases (s_t x) maxt) as [Hlt|Hge].
        * left. exists b. split; [apply in_app_iff; right; left; reflexivity|].
          split; [|reflexivity]. cbn [b_data b]. apply Hdata. tauto.
        * right. split; [|exact H3]. left. split; [exact H1|lia]. }
  change (b_id b) with (fresh s) in E. cbn [b_id b].
  rewrite E. split; [exact I2|]. split; [exact V2|].
  intros j. destruct j as [|[|j]]; cbn [firstn].
  - cbn [durable fold_left]. split; intros x Hx; exact Hx.
  - cbn [durable fold_left]. rewrite tmpfill_invisible. split; intros x Hx; exact Hx.
  - rewrite firstn_nil. rewrite E. split; intros x Hx; apply V2; exact Hx.
Qed.

(* ================= Delete ================= *)
Lemma covered_true tbs x : covered tbs x = true <-> exists tb, In tb tbs /\ covers tb x = true.
Proof. unfold covered. apply existsb_exists. Qed.

Lemma covered_mono t1 t2 x :
  (forall tb, In tb t1 -> In tb t2) -> covered t2 x = false -> covered t1 x = false.
Proof.
  intros H H2. destruct (covered t1 x) eqn:E; [|reflexivity].
  apply covered_true in E. destruct E as [tb [Hin Hc]].
  assert (covered t2 x = true) by (apply covered_true; exists tb; auto). congruence.
Qed.

Section DeleteProofs.
Variables (mint maxt : Z) (sel : list Z).
Let stones := map (fun i => (i, mint, maxt)) sel.

Lemma covered_stones x : covered stones x = matches mint maxt sel x.
Proof.
  apply eq_true_iff_eq. rewrite covered_true. unfold matches, stones.
  rewrite !andb_true_iff, memZ_In, !Z.leb_le. split.
  - intros [tb [Hin Hc]]. apply in_map_iff in Hin. destruct Hin as [i [E Hi]]. subst tb.
    unfold covers in Hc. rewrite !andb_true_iff, Z.eqb_eq, !Z.leb_le in Hc.
    destruct Hc as [[E1 E2] E3]. subst i. auto.
  - intros [[H1 H2] H3]. exists (s_sid x, mint, maxt). split.
    + apply in_map_iff. exists (s_sid x). auto.
    + unfold covers. rewrite !andb_true_iff, Z.eqb_eq, !Z.leb_le. auto.
Qed.

Lemma fold_min_le ts d t : In t ts -> fold_right Z.min d ts <= t.
Proof.
  induction ts as [|a l IH]; intros H; [contradiction|]. simpl. destruct H as [H|H]; [subst; lia|].
  specialize (IH H). lia.
Qed.
Lemma fold_max_ge ts d t : In t ts -> t <= fold_right Z.max d ts.
Proof.
  induction ts as [|a l IH]; intros H; [contradiction|]. simpl. destruct H as [H|H]; [subst; lia|].
  specialize (IH H). lia.
Qed.

Lemma head_stones_only s x :
  covered (head_stones s mint maxt sel) x = true -> matches mint maxt sel x = true.
Proof.
  intros H. apply covered_true in H. destruct H as [tb [Hin Hc]].
  unfold head_stones in Hin. apply in_flat_map in Hin. destruct Hin as [i [Hi Hin]].
  destruct (io_times s i) as [|t0 ts]; [contradiction|].
  cbv zeta in Hin.
  destruct (Z.max mint (fold_right Z.min maxInt64 (t0 :: ts)) <=? Z.min maxt (fold_right Z.max minInt64 (t0 :: ts))); [|contradiction].
  destruct Hin as [E|[]]. subst tb. unfold covers in Hc.
  rewrite !andb_true_iff, Z.eqb_eq, !Z.leb_le in Hc. destruct Hc as [[E1 E2] E3].
  unfold matches. rewrite !andb_true_iff, memZ_In, !Z.leb_le. subst i. repeat split; auto; lia.
Qed.

Lemma head_stones_cover s x :
  In x (head_io s) -> matches mint maxt sel x = true -> covered (head_stones s mint maxt sel) x = true.
Proof.
  intros Hx Hm. unfold matches in Hm. rewrite !andb_true_iff, memZ_In, !Z.leb_le in Hm.
  destruct Hm as [[H1 H2] H3].
  assert (Ht : In (s_t x) (io_times s (s_sid x))).
  { unfold io_times. apply in_map. apply filter_In. split; [exact Hx|apply Z.eqb_refl]. }
  apply covered_true.
  destruct (io_times s (s_sid x)) as [|t0 ts] eqn:E; [contradiction|].
  pose proof (fold_min_le (t0 :: ts) maxInt64 _ Ht) as Hlo.
  pose proof (fold_max_ge (t0 :: ts) minInt64 _ Ht) as Hhi.
  exists (s_sid x, Z.max mint (fold_right Z.min maxInt64 (t0 :: ts)), Z.min maxt (fold_right Z.max minInt64 (t0 :: ts))).
  split.
  - unfold head_stones. apply in_flat_map. exists (s_sid x). split; [exact H1|]. rewrite E. cbv zeta.
    destruct (Z.leb_spec (Z.max mint (fold_right Z.min maxInt64 (t0 :: ts))) (Z.min maxt (fold_right Z.max minInt64 (t0 :: ts)))); [left; reflexivity|lia].
  - unfold covers. rewrite !andb_true_iff, Z.eqb_eq, !Z.leb_le. repeat split; lia.
Qed.

Variable s : fs.
Hypothesis I : Inv s.
Hypothesis W : forall x, In x (ooo s) -> matches mint maxt sel x = false.
Let blks := filter (fun b => overlaps b mint maxt) (live s).
Let hs := head_stones s mint maxt sel.

Definition retomb (D : list Z) (b : blk) : blk :=
  if memZ (b_id b) D then set_tomb (b_tomb b ++ stones) b else b.

Definition step_of (tg : target) : list fsop :=
  match tg with
  | THead => [WalWrite (RTomb hs)]
  | TBlk id => map (fun b => BlkTomb id (b_tomb b ++ stones)) (with_id id blks)
  end.

Definition Dset (T : list target) : list Z :=
  flat_map (fun tg => match tg with TBlk id => map b_id (with_id id blks) | THead => [] end) T.
Definition Htomb (T : list target) : list tomb :=
  flat_map (fun tg => match tg with THead => hs | TBlk _ => [] end) T.

(* the state reached after the steps of the targets T, in any order and multiplicity *)
Record Track (t : fs) (T : list target) : Prop := mkTrack {
  t_inv : Inv t;
  t_blk : f_blk t = map (retomb (Dset T)) (f_blk s);
  t_tombs : head_tombs t = head_tombs s ++ Htomb T;
  t_samples : wal_samples t = wal_samples s;
  t_ooo : ooo t = ooo s
}.

Lemma retomb_id D b : b_id (retomb D b) = b_id b.
Proof. unfold retomb. destruct (memZ (b_id b) D); reflexivity. Qed.
Lemma retomb_parents D b : b_parents (retomb D b) = b_parents b.
Proof. unfold retomb. destruct (memZ (b_id b) D); reflexivity. Qed.
Lemma retomb_data D b : b_data (retomb D b) = b_data b.
Proof. unfold retomb. destruct (memZ (b_id b) D); reflexivity. Qed.
Lemma retomb_ooo D b : b_ooo (retomb D b) = b_ooo b.
Proof. unfold retomb. destruct (memZ (b_id b) D); reflexivity. Qed.
Lemma retomb_maxt D b : b_maxt (retomb D b) = b_maxt b.
Proof. unfold retomb. destruct (memZ (b_id b) D); reflexivity. Qed.
Lemma retomb_mint D b : b_mint (retomb D b) = b_mint b.
Proof. unfold retomb. destruct (memZ (b_id b) D); reflexivity. Qed.

Lemma mv_of_retomb D l : mv_of (map (retomb D) l) = mv_of l.
Proof. induction l as [|a l IH]; simpl; [reflexivity|]. rewrite retomb_ooo, retomb_maxt, IH. reflexivity. Qed.

Lemma track_start : Track s [].
Proof.
  constructor; simpl; auto.
  - rewrite <- (map_id (f_blk s)) at 1. apply map_ext. intros b. unfold retomb. reflexivity.
  - rewrite app_nil_r. reflexivity.
Qed.

Lemma unique_block b b' : In b (f_blk s) -> In b' (f_blk s) -> b_id b = b_id b' -> b = b'.
Proof.
  intros Hb Hb' E. pose proof (i_nodup s I) as N. revert Hb Hb'.
  induction (f_blk s) as [|a l IH]; [contradiction|]. simpl in N. inversion N as [|? ? Hn N']; subst.
  intros [H1|H1] [H2|H2].
  - congruence.
  - subst a. exfalso. apply Hn. rewrite E. apply in_map. exact H2.
  - subst a. exfalso. apply Hn. rewrite <- E. apply in_map. exact H1.
  - apply IH; assumption.
Qed.

Lemma blks_in b : In b blks -> In b (f_blk s) /\ overlaps b mint maxt = true.
Proof. unfold blks. rewrite (live_all s I), filter_In. tauto. Qed.

Lemma track_blk_step t T id b0 :
  Track t T -> In b0 (with_id id blks) ->
  Track (apply t (BlkTomb id (b_tomb b0 ++ stones))) (T ++ [TBlk id]).
Proof.
  intros Tr Hb0. unfold with_id in Hb0. apply filter_In in Hb0. destruct Hb0 as [Hb0 Hid].
  unfold has_id in Hid. apply Z.eqb_eq in Hid. destruct (blks_in b0 Hb0) as [Hin Hov].
  assert (EB : f_blk (apply t (BlkTomb id (b_tomb b0 ++ stones))) = map (retomb (Dset (T ++ [TBlk id]))) (f_blk s)).
  { cbn [apply f_blk]. rewrite (t_blk t T Tr), map_map. apply map_ext_in. intros b Hb.
    unfold has_id. rewrite retomb_id. unfold Dset. rewrite flat_map_app. simpl. rewrite app_nil_r.
    fold (Dset T). destruct (Z.eqb_spec (b_id b) id) as [E|E].
    - assert (b = b0) by (apply unique_block; auto; congruence). subst b0.
      unfold retomb at 2. replace (memZ (b_id b) (Dset T ++ map b_id (with_id id blks))) with true.
      + unfold set_tomb. rewrite retomb_id, retomb_mint, retomb_maxt, retomb_ooo, retomb_parents, retomb_data. reflexivity.
      + symmetry. apply memZ_In. apply in_app_iff. right. apply in_map. unfold with_id. apply filter_In.
        split; [exact Hb0|]. unfold has_id. apply Z.eqb_eq. exact E.
    - unfold retomb. replace (memZ (b_id b) (Dset T ++ map b_id (with_id id blks))) with (memZ (b_id b) (Dset T)); [reflexivity|].
      apply eq_true_iff_eq. rewrite !memZ_In, in_app_iff. split; [auto|]. intros [H|H]; [exact H|].
      apply in_map_iff in H. destruct H as [b' [E' Hb']]. unfold with_id in Hb'. apply filter_In in Hb'.
      destruct Hb' as [_ Hh]. unfold has_id in Hh. apply Z.eqb_eq in Hh. congruence. }
  pose proof (t_inv t T Tr) as It.
  constructor.
  - constructor; try (cbn [apply f_wal f_cp f_tmp f_del]; apply It).
    + rewrite EB. intros b Hb. apply in_map_iff in Hb. destruct Hb as [b' [E Hb']]. subst b.
      rewrite retomb_id. unfold parents_of. rewrite flat_map_concat_map, map_map.
      rewrite (map_ext _ b_parents) by (intros; apply retomb_parents). rewrite <- flat_map_concat_map.
      apply (i_live s I b' Hb').
    + rewrite EB, map_map. rewrite (map_ext _ b_id) by (intros; apply retomb_id). apply I.
    + rewrite EB. intros b x Hb Hx. apply in_map_iff in Hb. destruct Hb as [b' [E Hb']]. subst b.
      rewrite retomb_data in Hx. rewrite retomb_mint, retomb_maxt. apply (i_range s I b' x Hb' Hx).
  - exact EB.
  - change (head_tombs (apply t (BlkTomb id (b_tomb b0 ++ stones)))) with (head_tombs t).
    rewrite (t_tombs t T Tr). unfold Htomb. rewrite flat_map_app. simpl. rewrite !app_nil_r. reflexivity.
  - change (wal_samples (apply t (BlkTomb id (b_tomb b0 ++ stones)))) with (wal_samples t). apply Tr.
  - change (ooo (apply t (BlkTomb id (b_tomb b0 ++ stones)))) with (ooo t). apply Tr.
Qed.

Lemma Dset_nochange T id : with_id id blks = [] -> Dset (T ++ [TBlk id]) = Dset T.
Proof. intros H. unfold Dset. rewrite flat_map_app. simpl. rewrite H. simpl. rewrite app_nil_r. reflexivity. Qed.

Lemma track_blk_steps t T id l :
  Track t T -> (forall b, In b l -> In b (with_id id blks)) -> l <> [] ->
  Track (durable t (map (fun b => BlkTomb id (b_tomb b ++ stones)) l)) (T ++ [TBlk id]).
Proof.
  revert t T. induction l as [|b l IH]; intros t T Tr Hl Hne; [congruence|].
  change (durable t (map (fun b => BlkTomb id (b_tomb b ++ stones)) (b :: l)))
    with (durable (apply t (BlkTomb id (b_tomb b ++ stones))) (map (fun b => BlkTomb id (b_tomb b ++ stones)) l)).
  pose proof (track_blk_step t T id b Tr (Hl b (or_introl eq_refl))) as Tr1.
  destruct l as [|b' l'].
  - exact Tr1.
  - assert (Tr2 := IH _ _ Tr1 (fun x Hx => Hl x (or_intror Hx)) ltac:(discriminate)).
    (* the same target twice: same membership sets *)
    destruct Tr2 as [A B C D E]. constructor; auto.
    + rewrite B. apply map_ext. intros b0. unfold retomb.
      replace (memZ (b_id b0) (Dset ((T ++ [TBlk id]) ++ [TBlk id]))) with (memZ (b_id b0) (Dset (T ++ [TBlk id]))); [reflexivity|].
      apply eq_true_iff_eq. rewrite !memZ_In. unfold Dset. rewrite !flat_map_app. simpl. rewrite !app_nil_r.
      rewrite !in_app_iff. tauto.
    + rewrite C. unfold Htomb. rewrite !flat_map_app. simpl. rewrite !app_nil_r. reflexivity.
Qed.

Lemma track_head_step t T :
  Track t T -> Track (apply t (WalWrite (RTomb hs))) (T ++ [THead]).
Proof.
  intros Tr. pose proof (t_inv t T Tr) as It.
  constructor.
  - apply inv_walwrite; [exact It|]. intros x Hx. simpl. rewrite (t_ooo t T Tr) in Hx.
    destruct (covered hs x) eqn:E; [|reflexivity]. apply head_stones_only in E. rewrite (W x Hx) in E. discriminate.
  - cbn [apply f_blk]. rewrite (t_blk t T Tr). unfold Dset. rewrite flat_map_app. simpl. rewrite app_nil_r. reflexivity.
  - rewrite (head_tombs_walwrite t _ It), (t_tombs t T Tr). unfold Htomb. rewrite flat_map_app. simpl.
    rewrite !app_nil_r, app_assoc. reflexivity.
  - rewrite (wal_samples_walwrite t _ It). simpl. rewrite app_nil_r. apply Tr.
  - change (ooo (apply t (WalWrite (RTomb hs)))) with (ooo t). apply Tr.
Qed.

Lemma track_steps T0 t T :
  Track t T0 -> exists T', Track (durable t (flat_map step_of T)) T' /\
                           (forall tg, In tg T' <-> In tg T0 \/ (In tg T /\ step_of tg <> [])).
Proof.
  revert t T0. induction T as [|tg T IH]; intros t T0 Tr.
  - exists T0. split; [exact Tr|]. intros tg. simpl. tauto.
  - cbn [flat_map]. rewrite durable_app.
    destruct (step_of tg) as [|o ops] eqn:Es.
    + cbn [durable fold_left]. destruct (IH t T0 Tr) as [T' [Tr' HT']]. exists T'. split; [exact Tr'|].
      intros tg'. rewrite HT'. simpl. split; [tauto|]. intros [H|[[H|H] H2]]; auto. subst tg'. congruence.
    + assert (Tr1 : Track (durable t (step_of tg)) (T0 ++ [tg])).
      { destruct tg as [|id]; simpl in Es |- *.
        - apply track_head_step. exact Tr.
        - apply track_blk_steps; [exact Tr|auto|]. intros E. rewrite E in Es. discriminate. }
      rewrite Es in Tr1.
      destruct (IH _ _ Tr1) as [T' [Tr' HT']]. exists T'. split; [exact Tr'|].
      intros tg'. rewrite HT', in_app_iff. simpl. split.
      * intros [[H|[H|[]]]|[H H2]]; auto. subst tg'. right. split; [auto|]. rewrite Es. discriminate.
      * intros [H|[[H|H] H2]]; auto.
Qed.

(* visible set of a tracked state *)
Lemma track_visible t T x :
  Track t T ->
  (In x (visible t) <->
   (exists b, In b (f_blk s) /\ In x (b_data b) /\ covered (b_tomb (retomb (Dset T) b)) x = false) \/
   (((In (x, false) (wal_samples s) /\ mv_of (f_blk s) <= s_t x) \/ In x (ooo s)) /\
    covered (head_tombs s ++ Htomb T) x = false)).
Proof.
  intros Tr. rewrite (in_visible_inv t x (t_inv t T Tr)).
  rewrite (t_blk t T Tr), (t_tombs t T Tr), (t_samples t T Tr), (t_ooo t T Tr), mv_of_retomb.
  split.
  - intros [[b [Hb [Hx Hc]]]|H]; [|right; exact H]. left.
    apply in_map_iff in Hb. destruct Hb as [b' [E Hb']]. subst b. rewrite retomb_data in Hx. exists b'. auto.
  - intros [[b [Hb [Hx Hc]]]|H]; [|right; exact H]. left.
    exists (retomb (Dset T) b). split; [apply in_map; exact Hb|]. rewrite retomb_data. auto.
Qed.

Lemma retomb_tomb_covered D b x :
  covered (b_tomb (retomb D b)) x = covered (b_tomb b) x || (memZ (b_id b) D && matches mint maxt sel x).
Proof.
  unfold retomb. destruct (memZ (b_id b) D); simpl.
  - rewrite covered_app, covered_stones. reflexivity.
  - rewrite orb_false_r. reflexivity.
Qed.

Lemma Htomb_only T x : covered (Htomb T) x = true -> matches mint maxt sel x = true.
Proof.
  intros H. apply covered_true in H. destruct H as [tb [Hin Hc]]. unfold Htomb in Hin.
  apply in_flat_map in Hin. destruct Hin as [tg [_ Hin]]. destruct tg; [|contradiction].
  apply head_stones_only with (s := s). apply covered_true. exists tb. auto.
Qed.

Lemma track_upper t T x : Track t T -> In x (visible t) -> In x (visible s).
Proof.
  intros Tr H. rewrite (track_visible t T x Tr) in H. rewrite (in_visible_inv s x I).
  destruct H as [[b [Hb [Hx Hc]]]|[H1 H2]].
  - left. exists b. rewrite retomb_tomb_covered in Hc. apply orb_false_iff in Hc. tauto.
  - right. rewrite covered_app in H2. apply orb_false_iff in H2. tauto.
Qed.

Lemma track_lower t T x :
  Track t T -> In x (visible s) -> matches mint maxt sel x = false -> In x (visible t).
Proof.
  intros Tr H Hm. rewrite (track_visible t T x Tr). rewrite (in_visible_inv s x I) in H.
  destruct H as [[b [Hb [Hx Hc]]]|[H1 H2]].
  - left. exists b. rewrite retomb_tomb_covered, Hc, Hm, andb_false_r. auto.
  - right. split; [exact H1|]. rewrite covered_app, H2. simpl.
    destruct (covered (Htomb T) x) eqn:E; [|reflexivity]. apply Htomb_only in E. congruence.
Qed.

End DeleteProofs.

Lemma target_eqb_eq a b : target_eqb a b = true <-> a = b.
Proof.
  destruct a, b; simpl; split; intros H; try congruence; try discriminate.
  - apply Z.eqb_eq in H. congruence.
  - apply Z.eqb_eq. congruence.
Qed.

Lemma memT_In x l : memT x l = true <-> In x l.
Proof.
  unfold memT. rewrite existsb_exists. split.
  - intros [y [Hy E]]. apply target_eqb_eq in E. subst. exact Hy.
  - intros H. exists x. split; [exact H|]. apply target_eqb_eq. reflexivity.
Qed.

Lemma dedupT_In x l : In x (dedupT l) <-> In x l.
Proof.
  induction l as [|a l IH]; simpl; [tauto|]. rewrite filter_In, IH. split.
  - intros [H|[H _]]; auto.
  - intros [H|H]; auto. destruct (target_eqb a x) eqn:E.
    + apply target_eqb_eq in E. auto.
    + right. split; [exact H|]. reflexivity.
Qed.

Lemma sched_In order all x : In x (sched order all) <-> In x all.
Proof.
  unfold sched. rewrite in_app_iff, !filter_In, dedupT_In, memT_In, negb_true_iff. split.
  - intros [[_ H]|[H _]]; exact H.
  - intros H. destruct (memT x order) eqn:E.
    + left. split; [apply memT_In; exact E|exact H].
    + right. auto.
Qed.

Lemma Forall_firstn {A} (P : A -> Prop) l j : Forall P l -> Forall P (firstn j l).
Proof.
  revert j. induction l as [|a l IH]; intros j H; destruct j; simpl; auto.
  inversion H; subst. constructor; auto.
Qed.

Definition ok_step mint maxt sel s (o : fsop) : Prop :=
  o = WalWrite (RTomb (head_stones s mint maxt sel)) \/
  exists id b0, In b0 (with_id id (filter (fun b => overlaps b mint maxt) (live s))) /\
                o = BlkTomb id (b_tomb b0 ++ map (fun i => (i, mint, maxt)) sel).

Lemma track_any mint maxt sel s (I : Inv s)
      (W : forall x, In x (ooo s) -> matches mint maxt sel x = false) tr :
  forall t T0, Track mint maxt sel s t T0 -> Forall (ok_step mint maxt sel s) tr ->
  exists T', Track mint maxt sel s (durable t tr) T'.
Proof.
  induction tr as [|o tr IH]; intros t T0 Tr F.
  - exists T0. exact Tr.
  - inversion F as [|? ? Ho F']; subst. cbn [durable fold_left].
    destruct Ho as [Ho|[id [b0 [Hb0 Ho]]]]; subst o.
    + apply (IH _ (T0 ++ [THead])); [|exact F']. apply (track_head_step mint maxt sel s W); assumption.
    + apply (IH _ (T0 ++ [TBlk id])); [|exact F']. apply (track_blk_step mint maxt sel s I); assumption.
Qed.

Lemma delete_steps_ok mint maxt sel s T :
  Forall (ok_step mint maxt sel s) (flat_map (step_of mint maxt sel s) T).
Proof.
  induction T as [|tg T IH]; simpl; [constructor|]. apply Forall_app. split; [|exact IH].
  destruct tg as [|id]; simpl.
  - constructor; [left; reflexivity|constructor].
  - apply Forall_forall. intros o Ho. apply in_map_iff in Ho. destruct Ho as [b0 [E Hb0]].
    right. exists id, b0. split; [exact Hb0|]. symmetry. exact E.
Qed.

Lemma delete_good c m mint maxt sel order :
  Inv (m_fs m) -> wf_op (m_fs m) (Delete mint maxt sel order) -> op_good c m (Delete mint maxt sel order).
Proof.
  intros I W. unfold op_good. cbn [op_trace spec_step step_lo step_hi wf_op] in *. set (s := m_fs m) in *.
  set (blks := filter (fun b => overlaps b mint maxt) (live s)).
  set (hs := head_stones s mint maxt sel).
  set (all := map (fun b => TBlk (b_id b)) blks ++ (if memT THead order || negb (is_nil hs) then [THead] else [])).
  assert (E : delete_trace s mint maxt sel order = flat_map (step_of mint maxt sel s) (sched order all)) by reflexivity.
  rewrite E. clear E.
  pose proof (track_start mint maxt sel s I) as Tr0.
  destruct (track_steps mint maxt sel s I W [] s (sched order all) Tr0) as [T' [TrF HT']].
  split; [apply TrF|]. split.
  - intros x. rewrite filter_In, negb_true_iff. split.
    + intros Hx. split; [apply (track_upper mint maxt sel s I _ T' x TrF Hx)|].
      destruct (matches mint maxt sel x) eqn:Hm; [exfalso|reflexivity].
      rewrite (track_visible mint maxt sel s (durable s (flat_map (step_of mint maxt sel s) (sched order all))) T' x TrF) in Hx.
      destruct Hx as [[b [Hb [Hxb Hc]]]|[[[H1 H2]|H1] H3]].
      * rewrite retomb_tomb_covered, Hm, andb_true_r in Hc. apply orb_false_iff in Hc. destruct Hc as [_ Hc].
        apply memZ_false in Hc. apply Hc.
        assert (Hov : overlaps b mint maxt = true).
        { pose proof (i_range s I b x Hb Hxb) as R. unfold matches in Hm.
          rewrite !andb_true_iff, !Z.leb_le in Hm. unfold overlaps.
          rewrite andb_true_iff, Z.leb_le, Z.ltb_lt. lia. }
        assert (Hbl : In b blks) by (unfold blks; rewrite (live_all s I); apply filter_In; auto).
        assert (Hw : In b (with_id (b_id b) blks)).
        { unfold with_id. apply filter_In. split; [exact Hbl|]. unfold has_id. apply Z.eqb_refl. }
        assert (HinT : In (TBlk (b_id b)) T').
        { apply HT'. right. split.
          - apply sched_In. unfold all. apply in_app_iff. left. apply in_map_iff. exists b. auto.
          - simpl. fold blks. intros En. apply map_eq_nil in En. rewrite En in Hw. exact Hw. }
        unfold Dset. apply in_flat_map. exists (TBlk (b_id b)). split; [exact HinT|].
        fold blks. apply in_map. exact Hw.
      * assert (Hio : In x (head_io s)) by (apply in_head_io; rewrite (min_valid_mv s I); auto).
        pose proof (head_stones_cover mint maxt sel s x Hio Hm) as Hcov. fold hs in Hcov.
        assert (Hne : is_nil hs = false).
        { destruct hs; [simpl in Hcov; discriminate|reflexivity]. }
        assert (HinT : In THead T').
        { apply HT'. right. split.
          - apply sched_In. unfold all. apply in_app_iff. right. rewrite Hne, orb_true_r. left. reflexivity.
          - simpl. discriminate. }
        rewrite covered_app in H3. apply orb_false_iff in H3. destruct H3 as [_ H3].
        assert (covered (Htomb mint maxt sel s T') x = true); [|congruence].
        apply covered_true in Hcov. destruct Hcov as [tb [Htb Hc]]. apply covered_true. exists tb. split; [|exact Hc].
        unfold Htomb. apply in_flat_map. exists THead. split; [exact HinT|exact Htb].
      * rewrite (W x H1) in Hm. discriminate.
    + intros [Hx Hm]. apply (track_lower mint maxt sel s I _ T' x TrF Hx Hm).
  - intros j.
    destruct (track_any mint maxt sel s I W (firstn j (flat_map (step_of mint maxt sel s) (sched order all))) s [] Tr0
                (Forall_firstn _ _ j (delete_steps_ok mint maxt sel s _))) as [Tj Trj].
    split; intros x Hx.
    + apply filter_In in Hx. destruct Hx as [Hx Hm]. apply negb_true_iff in Hm.
      apply (track_lower mint maxt sel s I _ Tj x Trj Hx Hm).
    + apply (track_upper mint maxt sel s I _ Tj x Trj Hx).
Qed.

(* ================= TruncWAL: new segment, checkpoint, then truncation ================= *)
Lemma visible_recs_eq t t' :
  wal_recs t = wal_recs t' -> f_blk t = f_blk t' -> f_wbl t = f_wbl t' -> visible t = visible t'.
Proof.
  intros H1 H2 H3. unfold visible, head_io, head_tombs, ooo, wal_samples, min_valid, live.
  rewrite H1, H2, H3. reflexivity.
Qed.

Lemma last_idx_ge {A} (l : list (Z * A)) p : In p l -> fst p <= last_idx l.
Proof.
  unfold last_idx. induction l as [|a l IH]; intros H; [contradiction|]. simpl.
  destruct H as [H|H]; [subst; lia|]. specialize (IH H). lia.
Qed.

Lemma first_idx_le {A} (l : list (Z * A)) p : In p l -> first_idx l <= fst p.
Proof.
  unfold first_idx. destruct l as [|a l]; [contradiction|]. intros [H|H]; [subst|].
  - clear. induction l as [|b l IH]; simpl; lia.
  - revert H. generalize (fst a) as d. induction l as [|b l IH]; intros d H; [contradiction|]. simpl.
    destruct H as [H|H]; [subst; lia|]. specialize (IH d H). lia.
Qed.

Lemma wal_recs_newseg s : wal_recs (apply s WalNewSeg) = wal_recs s.
Proof.
  unfold wal_recs. simpl. unfold new_seg. destruct (max_cp (f_cp s)) as [[n rs]|].
  - rewrite filter_app, flat_map_app. simpl. destruct (n <? last_idx (f_wal s) + 1); simpl; rewrite app_nil_r; reflexivity.
  - rewrite flat_map_app. simpl. rewrite app_nil_r. reflexivity.
Qed.

Lemma inv_newseg s : Inv s -> Inv (apply s WalNewSeg).
Proof.
  intros I. constructor; try (simpl; apply I).
  - simpl. unfold new_seg. intros H. apply app_eq_nil in H. destruct H as [_ H]. discriminate.
  - simpl. destruct (i_cp s I) as [H|[n [rs [H Hn]]]]; [left; exact H|]. right. exists n, rs. split; [exact H|].
    intros p Hp. unfold new_seg in Hp. apply in_app_iff in Hp. destruct Hp as [Hp|[Hp|[]]]; [apply Hn; exact Hp|].
    subst p. simpl. destruct (f_wal s) as [|q l] eqn:E; [exfalso; apply (i_wal_ne s I E)|].
    pose proof (Hn q (or_introl eq_refl)). pose proof (last_idx_ge (q :: l) q (or_introl eq_refl)). lia.
  - intros x Hx. unfold head_tombs. rewrite wal_recs_newseg. apply (i_ooo s I x Hx).
Qed.

Definition InS (rs : list rec) (x : sample) (f : bool) : Prop := exists r, In r rs /\ In (x, f) (rec_samples r).
Definition InT (rs : list rec) (tb : tomb) : Prop := exists r, In r rs /\ In tb (rec_tombs r).

Lemma cp_filter_S mint A x f : InS (cp_filter mint A) x f <-> InS A x f /\ mint <= s_t x.
Proof.
  unfold InS, cp_filter. split.
  - intros [r [Hr Hx]]. apply in_map_iff in Hr. destruct Hr as [r0 [E Hr0]]. subst r.
    destruct r0 as [l|l]; simpl in Hx; [|contradiction]. apply filter_In in Hx. destruct Hx as [Hx Hm].
    simpl in Hm. apply Z.leb_le in Hm. split; [|exact Hm]. exists (RSamples l). auto.
  - intros [[r [Hr Hx]] Hm]. destruct r as [l|l]; simpl in Hx; [|contradiction].
    exists (RSamples (filter (fun p : sample * bool => mint <=? s_t (fst p)) l)). split.
    + apply in_map_iff. exists (RSamples l). auto.
    + simpl. apply filter_In. split; [exact Hx|]. simpl. apply Z.leb_le. exact Hm.
Qed.

Lemma cp_filter_T mint A tb : InT (cp_filter mint A) tb <-> InT A tb /\ mint <= snd tb.
Proof.
  unfold InT, cp_filter. split.
  - intros [r [Hr Hx]]. apply in_map_iff in Hr. destruct Hr as [r0 [E Hr0]]. subst r.
    destruct r0 as [l|l]; simpl in Hx; [contradiction|]. apply filter_In in Hx. destruct Hx as [Hx Hm].
    apply Z.leb_le in Hm. split; [|exact Hm]. exists (RTomb l). auto.
  - intros [[r [Hr Hx]] Hm]. destruct r as [l|l]; simpl in Hx; [contradiction|].
    exists (RTomb (filter (fun tb : tomb => mint <=? snd tb) l)). split.
    + apply in_map_iff. exists (RTomb l). auto.
    + simpl. apply filter_In. split; [exact Hx|]. apply Z.leb_le. exact Hm.
Qed.

Lemma in_wal_samples s x f : In (x, f) (wal_samples s) <-> InS (wal_recs s) x f.
Proof. unfold wal_samples, InS. apply in_flat_map. Qed.

Lemma covered_head s x :
  covered (head_tombs s) x = true <-> exists tb, InT (wal_recs s) tb /\ covers tb x = true.
Proof.
  rewrite covered_true. unfold head_tombs, InT. split.
  - intros [tb [Hin Hc]]. apply in_flat_map in Hin. exists tb. auto.
  - intros [tb [Hin Hc]]. exists tb. split; [apply in_flat_map; exact Hin|exact Hc].
Qed.

(* two logs that differ only below mint <= minValidTime give the same visible set *)
Lemma visible_recs_rel mint s t :
  Inv s -> mint <= min_valid s -> f_blk t = f_blk s -> f_wbl t = f_wbl s ->
  (forall x f, InS (wal_recs t) x f -> InS (wal_recs s) x f) ->
  (forall x f, InS (wal_recs s) x f -> mint <= s_t x -> InS (wal_recs t) x f) ->
  (forall tb, InT (wal_recs t) tb -> InT (wal_recs s) tb) ->
  (forall tb, InT (wal_recs s) tb -> mint <= snd tb -> InT (wal_recs t) tb) ->
  same_set (visible t) (visible s) /\ (forall x, In x (ooo t) -> covered (head_tombs t) x = false).
Proof.
  intros I Hm Eb Ew S1 S2 T1 T2.
  assert (Eo : ooo t = ooo s) by (unfold ooo; rewrite Ew; reflexivity).
  assert (El : live t = live s) by (apply live_blk; exact Eb).
  assert (Ev : min_valid t = min_valid s) by (apply min_valid_blk; exact Eb).
  assert (C1 : forall x, covered (head_tombs t) x = true -> covered (head_tombs s) x = true).
  { intros x H. apply covered_head in H. destruct H as [tb [H1 H2]]. apply covered_head. exists tb. auto. }
  assert (C2 : forall x, mint <= s_t x -> covered (head_tombs s) x = true -> covered (head_tombs t) x = true).
  { intros x Hx H. apply covered_head in H. destruct H as [tb [H1 H2]]. apply covered_head. exists tb.
    split; [|exact H2]. apply T2; [exact H1|]. destruct tb as [[i a] b]. unfold covers in H2.
    rewrite !andb_true_iff, !Z.leb_le in H2. simpl. lia. }
  assert (Co : forall x, In x (ooo s) -> covered (head_tombs t) x = false).
  { intros x Hx. destruct (covered (head_tombs t) x) eqn:E; [|reflexivity].
    apply C1 in E. rewrite (i_ooo s I x Hx) in E. discriminate. }
  split.
  - intros x. rewrite !in_visible, !in_head_io, !in_wal_samples, El, Ev, Eo. split.
    + intros [H|[[[H1 H2]|H1] H3]]; [left; exact H| |].
      * right. split; [left; split; [apply S1; exact H1|exact H2]|].
        destruct (covered (head_tombs s) x) eqn:E; [|reflexivity]. apply C2 in E; [congruence|lia].
      * right. split; [right; exact H1|]. apply (i_ooo s I x H1).
    + intros [H|[[[H1 H2]|H1] H3]]; [left; exact H| |].
      * right. split; [left; split; [apply S2; [exact H1|lia]|exact H2]|].
        destruct (covered (head_tombs t) x) eqn:E; [|reflexivity]. apply C1 in E. congruence.
      * right. split; [right; exact H1|]. apply Co. exact H1.
  - intros x Hx. rewrite Eo in Hx. apply Co. exact Hx.
Qed.

Lemma quot23_le a : godiv (a * 2) 3 <= Z.max a 0.
Proof.
  unfold godiv. pose proof (Z.quot_rem' (a * 2) 3) as E.
  destruct (Z.lt_ge_cases a 0) as [Hn|Hp].
  - pose proof (Z.rem_bound_pos_neg (a * 2) 3 ltac:(lia) ltac:(lia)). lia.
  - pose proof (Z.rem_bound_pos (a * 2) 3 ltac:(lia) ltac:(lia)). lia.
Qed.

Fixpoint drops {A} (R : list Z) (l : list (Z * A)) : list (Z * A) :=
  match R with [] => l | i :: R' => drops R' (drop_idx i l) end.

Lemma in_drops {A} R (l : list (Z * A)) p : In p (drops R l) <-> In p l /\ ~ In (fst p) R.
Proof.
  revert l. induction R as [|i R IH]; intros l; simpl; [tauto|].
  rewrite IH. unfold drop_idx. rewrite filter_In, negb_true_iff, Z.eqb_neq. split.
  - intros [[H1 H2] H3]. split; [exact H1|]. intros [E|E]; [congruence|contradiction].
  - intros [H1 H2]. split; [split; [exact H1|]|]; intros E; apply H2; auto.
Qed.

Lemma filter_drops {A} (f : Z * A -> bool) R (l : list (Z * A)) :
  (forall p, In (fst p) R -> f p = false) -> filter f (drops R l) = filter f l.
Proof.
  revert l. induction R as [|i R IH]; intros l H; simpl; [reflexivity|].
  rewrite IH by (intros p Hp; apply H; right; exact Hp).
  unfold drop_idx. induction l as [|a l IHl]; simpl; [reflexivity|].
  destruct (Z.eqb_spec (fst a) i) as [E|E]; simpl.
  - rewrite (H a) by (left; auto). exact IHl.
  - destruct (f a); [f_equal|]; exact IHl.
Qed.

Lemma durable_walremoves s R :
  durable s (map WalRemove R) =
  mkFs (drops R (f_wal s)) (f_cp s) (f_cptmp s) (f_wbl s) (f_blk s) (f_tmp s) (f_del s).
Proof.
  revert s. induction R as [|i R IH]; intros s; [destruct s; reflexivity|].
  cbn [map durable fold_left]. change (fold_left apply (map WalRemove R) (apply s (WalRemove i))) with (durable (apply s (WalRemove i)) (map WalRemove R)).
  rewrite IH. reflexivity.
Qed.

Lemma durable_cpremoves s Q :
  durable s (map CpRemove Q) =
  mkFs (f_wal s) (drops Q (f_cp s)) (f_cptmp s) (f_wbl s) (f_blk s) (f_tmp s) (f_del s).
Proof.
  revert s. induction Q as [|i Q IH]; intros s; [destruct s; reflexivity|].
  cbn [map durable fold_left]. change (fold_left apply (map CpRemove Q) (apply s (CpRemove i))) with (durable (apply s (CpRemove i)) (map CpRemove Q)).
  rewrite IH. reflexivity.
Qed.

Definition cp_shape (last : Z) (K : list rec) (l : list (Z * list rec)) : Prop :=
  l = [(last, K)] \/ exists n rs, l = [(n, rs); (last, K)] /\ n < last.

Lemma cp_shape_max last K l : cp_shape last K l -> max_cp l = Some (last, K).
Proof.
  intros [H|[n [rs [H Hn]]]]; subst l; simpl; [reflexivity|].
  destruct (Z.ltb_spec last n); [lia|reflexivity].
Qed.

Lemma cp_shape_drops last K Q l :
  (forall q, In q Q -> q < last) -> cp_shape last K l -> cp_shape last K (drops Q l).
Proof.
  revert l. induction Q as [|q Q IH]; intros l HQ Hs; simpl; [exact Hs|].
  apply IH; [intros q' Hq'; apply HQ; right; exact Hq'|].
  pose proof (HQ q (or_introl eq_refl)) as Hq.
  destruct Hs as [H|[n [rs [H Hn]]]]; subst l; unfold drop_idx; simpl.
  - destruct (Z.eqb_spec last q); [lia|]. left. reflexivity.
  - destruct (Z.eqb_spec n q), (Z.eqb_spec last q); try lia; simpl.
    + left. reflexivity.
    + right. exists n, rs. auto.
Qed.

Lemma InS_app a b x f : InS (a ++ b) x f <-> InS a x f \/ InS b x f.
Proof.
  unfold InS. split.
  - intros [r [Hr Hx]]. apply in_app_iff in Hr. destruct Hr; [left|right]; exists r; auto.
  - intros [[r [Hr Hx]]|[r [Hr Hx]]]; exists r; rewrite in_app_iff; auto.
Qed.
Lemma InT_app a b tb : InT (a ++ b) tb <-> InT a tb \/ InT b tb.
Proof.
  unfold InT. split.
  - intros [r [Hr Hx]]. apply in_app_iff in Hr. destruct Hr; [left|right]; exists r; auto.
  - intros [[r [Hr Hx]]|[r [Hr Hx]]]; exists r; rewrite in_app_iff; auto.
Qed.

Lemma firstn_two_maps {A B} (f g : A -> B) (R Q : list A) j :
  firstn j (map f R ++ map g Q) = map f (firstn j R) ++ map g (firstn (j - length R) Q).
Proof. rewrite firstn_app, !firstn_map, map_length. reflexivity. Qed.

Lemma in_firstn {A} (l : list A) j x : In x (firstn j l) -> In x l.
Proof. revert j. induction l as [|a l IH]; intros j H; destruct j; simpl in *; try contradiction. destruct H; auto. right. eapply IH. eauto. Qed.

Lemma first_idx_gt {A} (l : list (Z * A)) n : l <> [] -> (forall p, In p l -> n < fst p) -> n < first_idx l.
Proof.
  destruct l as [|a l]; [congruence|]. intros _ H. unfold first_idx.
  assert (Ha : n < fst a) by (apply H; left; reflexivity).
  assert (Hl : forall p, In p l -> n < fst p) by (intros p Hp; apply H; right; exact Hp).
  clear H. revert Ha. generalize (fst a) as d. induction l as [|b l IH]; intros d Hd; simpl; [exact Hd|].
  assert (n < fst b) by (apply Hl; left; reflexivity).
  specialize (IH (fun p Hp => Hl p (or_intror Hp)) d Hd). lia.
Qed.

Lemma trunc_good c m mint :
  Inv (m_fs m) -> wf_op (m_fs m) (TruncWAL mint) -> op_good c m (TruncWAL mint).
Proof.
  intros I Wf. unfold op_good. cbn [op_trace spec_step step_lo step_hi wf_op] in *. set (s := m_fs m) in *.
  cut (Inv (durable s (trunc_trace m mint)) /\
       forall j, same_set (visible (durable s (firstn j (trunc_trace m mint)))) (visible s)).
  { intros [A B]. split; [exact A|]. split.
    - rewrite <- (firstn_all (trunc_trace m mint)). apply B.
    - intros j. split; intros x Hx; apply (B j); exact Hx. }
  unfold trunc_trace. fold s.
  destruct (mint <=? m_trunc m).
  { split; [exact I|]. intros j. rewrite firstn_nil. apply same_set_refl. }
  destruct (f_wal s) as [|p0 W0] eqn:EW.
  { split; [exact I|]. intros j. rewrite firstn_nil. apply same_set_refl. }
  rewrite <- EW. set (W := f_wal s) in *.
  set (first := first_idx W). set (last1 := last_idx W - 1).
  set (s1 := apply s WalNewSeg).
  assert (I1 : Inv s1) by (apply inv_newseg; exact I).
  assert (V1 : visible s1 = visible s).
  { apply visible_recs_eq; try reflexivity. apply wal_recs_newseg. }
  assert (Short : Inv (durable s [WalNewSeg]) /\
                  forall j, same_set (visible (durable s (firstn j [WalNewSeg]))) (visible s)).
  { split; [exact I1|]. intros [|j]; cbn [firstn durable fold_left]; [apply same_set_refl|].
    rewrite firstn_nil. cbn [fold_left]. fold s1. rewrite V1. apply same_set_refl. }
  destruct (last1 <? 0) eqn:El1; [exact Short|].
  set (last := first + godiv ((last1 - first) * 2) 3).
  destruct (last <=? first) eqn:Elf; [exact Short|]. clear Short.
  apply Z.ltb_ge in El1. apply Z.leb_gt in Elf.
  assert (Hle : last <= last1).
  { unfold last in *. pose proof (quot23_le (last1 - first)). lia. }
  set (fb := match max_cp (f_cp s) with Some (n, rs) => (n + 1, rs) | None => (first, []) end).
  set (src := snd fb ++ flat_map snd (filter (fun p => (fst fb <=? fst p) && (fst p <=? last)) W)).
  set (K := cp_filter mint src).
  set (RL := filter (fun i => i <=? last) (map fst W)).
  set (QL := filter (fun n => n <? last) (map fst (f_cp s))).
  set (s3 := apply (apply s1 (CpTmpWrite K)) (CpRename last)).
  set (Bl := flat_map snd (filter (fun p : Z * list rec => last <? fst p) (f_wal s1))).
  (* membership in the checkpoint's source and in the segments kept *)
  assert (Msrc : forall r, In r src <-> In r (cp_recs s) \/ exists p, In p W /\ fst p <= last /\ In r (snd p)).
  { intros r. unfold src, fb, cp_recs. rewrite in_app_iff, in_flat_map.
    destruct (i_cp s I) as [H|[n [rs [H Hn]]]]; rewrite H; simpl.
    - split.
      + intros [[]|[p [Hp Hr]]]. right. apply filter_In in Hp. destruct Hp as [Hp Hc].
        apply andb_true_iff in Hc. rewrite !Z.leb_le in Hc. exists p. tauto.
      + intros [[]|[p [Hp [Hc Hr]]]]. right. exists p. split; [|exact Hr]. apply filter_In. split; [exact Hp|].
        apply andb_true_iff. rewrite !Z.leb_le. split; [apply first_idx_le; exact Hp|exact Hc].
    - destruct (Z.ltb_spec n n); [lia|]. simpl. split.
      + intros [Hr|[p [Hp Hr]]]; [left; exact Hr|]. right. apply filter_In in Hp. destruct Hp as [Hp Hc].
        apply andb_true_iff in Hc. rewrite !Z.leb_le in Hc. exists p. tauto.
      + intros [Hr|[p [Hp [Hc Hr]]]]; [left; exact Hr|]. right. exists p. split; [|exact Hr]. apply filter_In.
        split; [exact Hp|]. apply andb_true_iff. rewrite !Z.leb_le. pose proof (Hn p Hp). lia. }
  assert (MBl : forall r, In r Bl <-> exists p, In p W /\ last < fst p /\ In r (snd p)).
  { intros r. unfold Bl, s1. cbn [apply f_wal]. fold W. unfold new_seg. rewrite filter_app, flat_map_app, in_app_iff, !in_flat_map.
    split.
    - intros [[p [Hp Hr]]|[p [Hp Hr]]].
      + apply filter_In in Hp. destruct Hp as [Hp Hc]. apply Z.ltb_lt in Hc. exists p. auto.
      + simpl in Hp. destruct (last <? last_idx W + 1); [|contradiction]. destruct Hp as [Hp|[]]. subst p. contradiction.
    - intros [p [Hp [Hc Hr]]]. left. exists p. split; [|exact Hr]. apply filter_In. split; [exact Hp|]. apply Z.ltb_lt. exact Hc. }
  assert (Ms : forall r, In r (wal_recs s) <-> In r (cp_recs s) \/ exists p, In p W /\ In r (snd p)).
  { intros r. rewrite (wal_recs_inv s I), in_app_iff, in_flat_map. fold W. tauto. }
  (* the checkpoint directory after the rename *)
  assert (Shape3 : cp_shape last K (f_cp s3)).
  { unfold s3, s1. cbn [apply f_cp f_cptmp].
    destruct (i_cp s I) as [H|[n [rs [H Hn]]]]; rewrite H; unfold drop_idx; simpl.
    - left. reflexivity.
    - assert (n < last).
      { pose proof (first_idx_gt W n ltac:(rewrite EW; discriminate) Hn). fold first in H0. lia. }
      destruct (Z.eqb_spec n last); [lia|]. simpl. right. exists n, rs. auto. }
  (* every state after the rename: some segments <= last and some older checkpoints removed *)
  assert (Tail : forall R' Q', (forall i, In i R' -> i <= last) -> (forall q, In q Q' -> q < last) ->
            let t := durable (durable s3 (map WalRemove R')) (map CpRemove Q') in
            wal_recs t = K ++ Bl /\ f_blk t = f_blk s /\ f_wbl t = f_wbl s).
  { intros R' Q' HR HQ t. unfold t. rewrite durable_walremoves, durable_cpremoves. cbn [f_wal f_cp f_cptmp f_wbl f_blk f_tmp f_del].
    split; [|split; reflexivity].
    unfold wal_recs. cbn [f_cp f_wal].
    rewrite (cp_shape_max last K _ (cp_shape_drops last K Q' _ HQ Shape3)).
    f_equal. unfold Bl. f_equal. change (f_wal s3) with (f_wal s1).
    apply filter_drops. intros p Hp. apply Z.ltb_ge. apply HR. exact Hp. }
  assert (VT : forall t, wal_recs t = K ++ Bl -> f_blk t = f_blk s -> f_wbl t = f_wbl s ->
            same_set (visible t) (visible s) /\ (forall x, In x (ooo t) -> covered (head_tombs t) x = false)).
  { intros t Hr Hb Hw. apply (visible_recs_rel mint s t I Wf Hb Hw); rewrite Hr.
    - intros x f H. apply InS_app in H. destruct H as [H|[r [Hr' Hx]]].
      + apply cp_filter_S in H. destruct H as [[r [Hr' Hx]] _]. exists r. split; [|exact Hx].
        apply Ms. apply Msrc in Hr'. destruct Hr' as [H|[p [H1 [H2 H3]]]]; [left; exact H|right; exists p; auto].
      + exists r. split; [|exact Hx]. apply Ms. apply MBl in Hr'. destruct Hr' as [p [H1 [H2 H3]]]. right. exists p. auto.
    - intros x f [r [Hr' Hx]] Hm. apply InS_app. apply Ms in Hr'.
      destruct Hr' as [H|[p [H1 H3]]].
      + left. apply cp_filter_S. split; [|exact Hm]. exists r. split; [|exact Hx]. apply Msrc. left. exact H.
      + destruct (Z.le_gt_cases (fst p) last) as [Hc|Hc].
        * left. apply cp_filter_S. split; [|exact Hm]. exists r. split; [|exact Hx]. apply Msrc. right. exists p. auto.
        * right. exists r. split; [|exact Hx]. apply MBl. exists p. split; [exact H1|]. split; [lia|exact H3].
    - intros tb H. apply InT_app in H. destruct H as [H|[r [Hr' Hx]]].
      + apply cp_filter_T in H. destruct H as [[r [Hr' Hx]] _]. exists r. split; [|exact Hx].
        apply Ms. apply Msrc in Hr'. destruct Hr' as [H|[p [H1 [H2 H3]]]]; [left; exact H|right; exists p; auto].
      + exists r. split; [|exact Hx]. apply Ms. apply MBl in Hr'. destruct Hr' as [p [H1 [H2 H3]]]. right. exists p. auto.
    - intros tb [r [Hr' Hx]] Hm. apply InT_app. apply Ms in Hr'.
      destruct Hr' as [H|[p [H1 H3]]].
      + left. apply cp_filter_T. split; [|exact Hm]. exists r. split; [|exact Hx]. apply Msrc. left. exact H.
      + destruct (Z.le_gt_cases (fst p) last) as [Hc|Hc].
        * left. apply cp_filter_T. split; [|exact Hm]. exists r. split; [|exact Hx]. apply Msrc. right. exists p. auto.
        * right. exists r. split; [|exact Hx]. apply MBl. exists p. split; [exact H1|]. split; [lia|exact H3]. }
  assert (HRL : forall i, In i RL -> i <= last).
  { intros i Hi. unfold RL in Hi. apply filter_In in Hi. apply Z.leb_le. tauto. }
  assert (HQL : forall q, In q QL -> q < last).
  { intros q Hq. unfold QL in Hq. apply filter_In in Hq. apply Z.ltb_lt. tauto. }
  change ([CpTmpWrite K; CpRename last] ++ map WalRemove RL ++ map CpRemove QL)
    with (CpTmpWrite K :: CpRename last :: (map WalRemove RL ++ map CpRemove QL)).
  split.
  - (* the invariant at the end *)
    change (durable s (WalNewSeg :: CpTmpWrite K :: CpRename last :: (map WalRemove RL ++ map CpRemove QL)))
      with (durable s3 (map WalRemove RL ++ map CpRemove QL)).
    rewrite durable_app.
    destruct (Tail RL QL HRL HQL) as [Hr [Hb Hw]]. destruct (VT _ Hr Hb Hw) as [_ Hooo].
    revert Hooo Hr. rewrite durable_walremoves, durable_cpremoves. cbn [f_wal f_cp f_cptmp f_wbl f_blk f_tmp f_del].
    intros Hooo Hr.
    constructor; cbn [f_wal f_cp f_blk f_tmp f_del]; try apply I.
    + intros En. assert (Hin : In (last_idx W + 1, @nil rec) (drops RL (f_wal s3))).
      { apply in_drops. split.
        - change (f_wal s3) with (new_seg W). unfold new_seg. apply in_app_iff. right. left. reflexivity.
        - simpl. intros Hc. apply HRL in Hc. unfold last1 in Hle. lia. }
      rewrite En in Hin. exact Hin.
    + right. exists last, K. split.
      * unfold QL. change (f_cp s3) with (drop_idx last (f_cp s) ++ [(last, K)]).
        destruct (i_cp s I) as [H|[n [rs [H Hn]]]]; rewrite H; unfold drop_idx; simpl; [reflexivity|].
        assert (n < last).
        { pose proof (first_idx_gt W n ltac:(rewrite EW; discriminate) Hn). fold first in H0. lia. }
        destruct (Z.eqb_spec n last); [lia|]. destruct (Z.ltb_spec n last); [|lia]. simpl.
        unfold drop_idx. simpl. rewrite Z.eqb_refl. destruct (Z.eqb_spec last n); [lia|]. reflexivity.
      * intros p Hp. apply in_drops in Hp. destruct Hp as [Hp Hn].
        change (f_wal s3) with (new_seg W) in Hp. unfold new_seg in Hp. apply in_app_iff in Hp.
        destruct Hp as [Hp|[Hp|[]]].
        -- destruct (Z.le_gt_cases (fst p) last) as [Hc|Hc]; [|lia]. exfalso. apply Hn. unfold RL.
           apply filter_In. split; [apply in_map; exact Hp|]. apply Z.leb_le. exact Hc.
        -- subst p. simpl. unfold last1 in Hle. lia.
    + exact Hooo.
  - intros j. destruct j as [|[|[|j]]]; cbn [firstn].
    + apply same_set_refl.
    + cbn [durable fold_left]. fold s1. rewrite V1. apply same_set_refl.
    + cbn [durable fold_left]. fold s1. rewrite cptmp_invisible, V1. apply same_set_refl.
    + change (durable s (WalNewSeg :: CpTmpWrite K :: CpRename last :: firstn j (map WalRemove RL ++ map CpRemove QL)))
        with (durable s3 (firstn j (map WalRemove RL ++ map CpRemove QL))).
      rewrite firstn_two_maps, durable_app.
      destruct (Tail (firstn j RL) (firstn (j - length RL) QL)
                  (fun i Hi => HRL i (in_firstn _ _ _ Hi)) (fun q Hq => HQL q (in_firstn _ _ _ Hq))) as [Hr [Hb Hw]].
      apply (VT _ Hr Hb Hw).
Qed.

(* ================= writing several new blocks (CutOOO, Merge) ================= *)
Definition Above (s : fs) (k : Z) : Prop :=
  (forall b, In b (f_blk s) -> b_id b < k) /\ (forall p, In p (parents_of (f_blk s)) -> p < k).

Lemma above_fresh s : Above s (fresh s).
Proof. split; [apply fresh_gt_id|apply fresh_gt_parent]. Qed.

Lemma write_block_state' s b :
  f_tmp s = [] -> (forall b', In b' (f_blk s) -> b_id b' <> b_id b) ->
  durable s [TmpFill b; BlkRename (b_id b)] = add_block s b.
Proof.
  intros Ht Hid. cbn [durable fold_left apply f_wal f_cp f_cptmp f_wbl f_blk f_tmp f_del].
  rewrite Ht. unfold add_block. f_equal.
  - rewrite without_fresh by exact Hid.
    f_equal. unfold with_id, without. simpl. unfold has_id. rewrite Z.eqb_refl. reflexivity.
  - unfold without. simpl. unfold has_id. rewrite Z.eqb_refl. reflexivity.
Qed.

Lemma inv_add_block' s b k :
  Inv s -> Above s k -> b_id b = k ->
  (forall p, In p (b_parents b) -> p < k) ->
  (forall b', In b' (f_blk s) -> ~ In (b_id b') (b_parents b)) ->
  (forall x, In x (b_data b) -> b_mint b <= s_t x < b_maxt b) ->
  Inv (add_block s b).
Proof.
  intros I [A1 A2] Hid Hp Hnp Hr. constructor; simpl; try apply I.
  - intros b' Hb'. rewrite parents_of_app. unfold parents_of at 2. simpl. rewrite app_nil_r.
    rewrite in_app_iff. apply in_app_iff in Hb'. destruct Hb' as [Hb'|[Hb'|[]]].
    + intros [H|H]; [apply (i_live s I b' Hb' H)|apply (Hnp b' Hb' H)].
    + subst b'. intros [H|H]; [apply A2 in H; lia|apply Hp in H; lia].
  - rewrite map_app. simpl. apply NoDup_snoc; [apply I|].
    intros Hin. apply in_map_iff in Hin. destruct Hin as [b' [E Hb']]. apply A1 in Hb'. lia.
  - intros b' x Hb' Hx. apply in_app_iff in Hb'. destruct Hb' as [Hb'|[Hb'|[]]].
    + apply (i_range s I b' x Hb' Hx).
    + subst b'. apply Hr. exact Hx.
  - reflexivity.
Qed.

Lemma above_add_block s b k : Above s k -> b_id b = k -> (forall p, In p (b_parents b) -> p < k) -> Above (add_block s b) (k + 1).
Proof.
  intros [A1 A2] Hid Hp. split; simpl.
  - intros b' Hb'. apply in_app_iff in Hb'. destruct Hb' as [Hb'|[Hb'|[]]]; [apply A1 in Hb'; lia|subst; lia].
  - intros p Hp'. rewrite parents_of_app in Hp'. unfold parents_of at 2 in Hp'. simpl in Hp'. rewrite app_nil_r in Hp'.
    apply in_app_iff in Hp'. destruct Hp' as [H|H]; [apply A2 in H; lia|apply Hp in H; lia].
Qed.

(* a new out-of-order block holding samples of the WBL changes nothing visible *)
Lemma visible_add_ooo_block s b :
  Inv s -> Inv (add_block s b) -> b_ooo b = true -> b_tomb b = [] ->
  (forall x, In x (b_data b) -> In x (ooo s)) ->
  same_set (visible (add_block s b)) (visible s).
Proof.
  intros I I2 Ho Ht Hd x. rewrite (in_visible_inv _ x I2), (in_visible_inv s x I).
  unfold add_block at 1 2 3. cbn [f_blk].
  change (wal_samples (add_block s b)) with (wal_samples s).
  change (ooo (add_block s b)) with (ooo s).
  change (head_tombs (add_block s b)) with (head_tombs s).
  rewrite mv_of_app, Ho. split.
  - intros [[b' [Hb' [Hx Hc]]]|H]; [|right; exact H].
    apply in_app_iff in Hb'. destruct Hb' as [Hb'|[Hb'|[]]].
    + left. exists b'. auto.
    + subst b'. right. split; [right; apply Hd; exact Hx|]. apply (i_ooo s I x). apply Hd. exact Hx.
  - intros [[b' [Hb' [Hx Hc]]]|H]; [|right; exact H]. left. exists b'. split; [apply in_app_iff; auto|auto].
Qed.

Lemma range_start_bounds t w : 0 < w -> range_start t w <= t < range_start t w + w.
Proof.
  intros Hw. unfold range_start, godiv. destruct (Z.geb_spec t 0) as [Hp|Hn].
  - pose proof (Z.quot_rem' t w). pose proof (Z.rem_bound_pos t w ltac:(lia) Hw). lia.
  - pose proof (Z.quot_rem' (t - w + 1) w). pose proof (Z.rem_bound_pos_neg (t - w + 1) w Hw ltac:(lia)). lia.
Qed.

Lemma ins_In t l x : In x (ins t l) <-> t = x \/ In x l.
Proof.
  induction l as [|a l IH]; simpl; [tauto|].
  destruct (t <? a); simpl; [tauto|]. destruct (Z.eqb_spec t a); simpl; [subst; tauto|]. rewrite IH. tauto.
Qed.
Lemma sort_uniq_In l x : In x (sort_uniq l) <-> In x l.
Proof. unfold sort_uniq. induction l as [|a l IH]; simpl; [tauto|]. rewrite ins_In, IH. split; intros [H|H]; auto. Qed.

Definition wr (b : blk) : list fsop := [TmpFill b; BlkRename (b_id b)].

(* every prefix of a sequence of block writes: some complete writes, then possibly a filled tmp dir *)
Lemma prefix_writes bs j :
  exists k, firstn j (flat_map wr bs) = flat_map wr (firstn k bs) \/
            exists b, firstn j (flat_map wr bs) = flat_map wr (firstn k bs) ++ [TmpFill b].
Proof.
  revert j. induction bs as [|b bs IH]; intros j.
  - exists O. left. rewrite firstn_nil. reflexivity.
  - destruct j as [|[|j]].
    + exists O. left. reflexivity.
    + exists O. right. exists b. reflexivity.
    + destruct (IH j) as [k [H|[b' H]]]; exists (S k); [left|right; exists b']; simpl; rewrite H; reflexivity.
Qed.

Record Wrote (s t : fs) (k : Z) : Prop := mkWrote {
  w_inv : Inv t;
  w_vis : same_set (visible t) (visible s);
  w_ooo : ooo t = ooo s;
  w_wbl : f_wbl t = f_wbl s;
  w_above : Above t k;
  w_keep : forall b, In b (f_blk s) -> In b (f_blk t)
}.

Lemma ooo_blocks_written w all :
  0 < w -> forall starts s t k,
  Wrote s t k -> (forall x, In x all -> In x (ooo s)) ->
  let bs := ooo_blocks w all starts k in
  exists t', durable t (flat_map wr bs) = t' /\ Wrote s t' (k + Z.of_nat (length starts)) /\
             (forall b, In b bs -> In b (f_blk t')).
Proof.
  intros Hw. induction starts as [|r starts IH]; intros s t k Wr Hall; cbn [ooo_blocks flat_map].
  - exists t. cbn [durable fold_left]. simpl. rewrite Z.add_0_r. split; [reflexivity|]. split; [exact Wr|]. intros b0 [].
  - set (b := mkBlk k r (r + w) true [] (filter (fun x => range_start (s_t x) w =? r) all) []).
    rewrite durable_app. unfold wr at 1.
    assert (E : durable t [TmpFill b; BlkRename (b_id b)] = add_block t b).
    { apply write_block_state'; [apply (w_inv _ _ _ Wr)|]. intros b' Hb'. destruct (w_above _ _ _ Wr) as [A1 _]. apply A1 in Hb'. simpl. lia. }
    rewrite E.
    assert (I2 : Inv (add_block t b)).
    { apply (inv_add_block' t b k); try apply Wr; try reflexivity; simpl; try (intros; contradiction).
      - intros b' _ [].
      - intros x Hx. apply filter_In in Hx. destruct Hx as [_ Hx]. apply Z.eqb_eq in Hx.
        pose proof (range_start_bounds (s_t x) w Hw). lia. }
    assert (Wr2 : Wrote s (add_block t b) (k + 1)).
    { constructor.
      - exact I2.
      - eapply same_set_trans; [|apply (w_vis _ _ _ Wr)].
        apply visible_add_ooo_block; try reflexivity; [apply Wr|exact I2|].
        intros x Hx. simpl in Hx. apply filter_In in Hx. rewrite (w_ooo _ _ _ Wr). apply Hall. tauto.
      - change (ooo (add_block t b)) with (ooo t). apply Wr.
      - change (f_wbl (add_block t b)) with (f_wbl t). apply Wr.
      - apply above_add_block; try apply Wr; try reflexivity. simpl. intros p [].
      - intros b' Hb'. simpl. apply in_app_iff. left. apply (w_keep _ _ _ Wr). exact Hb'. }
    destruct (IH s (add_block t b) (k + 1) Wr2 Hall) as [t' [Et [Wr' Hin]]].
    exists t'. split; [exact Et|]. split.
    + replace (k + Z.of_nat (length (r :: starts))) with (k + 1 + Z.of_nat (length starts)) by (simpl length; lia). exact Wr'.
    + intros b' [Hb'|Hb'].
      * subst b'. rewrite <- Et.
        (* blocks already written are kept by the remaining writes *)
        destruct (IH (add_block t b) (add_block t b) (k + 1)) as [t2 [Et2 [Wr2' _]]].
        -- constructor; try reflexivity; [exact I2|apply same_set_refl|apply Wr2|auto].
        -- intros x Hx. change (ooo (add_block t b)) with (ooo t). rewrite (w_ooo _ _ _ Wr). apply Hall. exact Hx.
        -- rewrite Et2. apply (w_keep _ _ _ Wr2'). simpl. apply in_app_iff. right. left. reflexivity.
      * apply Hin. exact Hb'.
Qed.

(* ================= CutOOO ================= *)
Lemma visible_ooo_eq t t' :
  wal_recs t = wal_recs t' -> f_blk t = f_blk t' -> ooo t = ooo t' -> visible t = visible t'.
Proof.
  intros H1 H2 H3. unfold visible, head_io, head_tombs, wal_samples, min_valid, live.
  rewrite H1, H2, H3. reflexivity.
Qed.

Lemma ooo_newseg s : ooo (apply s WblNewSeg) = ooo s.
Proof. unfold ooo. simpl. unfold new_seg. rewrite flat_map_app, concat_app. simpl. rewrite app_nil_r. reflexivity. Qed.

Lemma durable_wblremoves s R :
  durable s (map WblRemove R) =
  mkFs (f_wal s) (f_cp s) (f_cptmp s) (drops R (f_wbl s)) (f_blk s) (f_tmp s) (f_del s).
Proof.
  revert s. induction R as [|i R IH]; intros s; [destruct s; reflexivity|].
  cbn [map durable fold_left]. change (fold_left apply (map WblRemove R) (apply s (WblRemove i))) with (durable (apply s (WblRemove i)) (map WblRemove R)).
  rewrite IH. reflexivity.
Qed.

Lemma ooo_blocks_firstn w all starts id k :
  firstn k (ooo_blocks w all starts id) = ooo_blocks w all (firstn k starts) id.
Proof.
  revert id k. induction starts as [|r starts IH]; intros id k; destruct k; simpl; try reflexivity.
  rewrite IH. reflexivity.
Qed.

Lemma ooo_blocks_has w all starts id r :
  In r starts -> exists b, In b (ooo_blocks w all starts id) /\ b_tomb b = [] /\
                           b_data b = filter (fun x => range_start (s_t x) w =? r) all.
Proof.
  revert id. induction starts as [|r0 starts IH]; intros id H; [contradiction|]. simpl.
  destruct H as [H|H].
  - subst r0. eexists. split; [left; reflexivity|]. split; reflexivity.
  - destruct (IH (id + 1) H) as [b [Hb Hr]]. exists b. split; [right; exact Hb|exact Hr].
Qed.

Lemma cutooo_good c m :
  0 < c_range c -> Inv (m_fs m) -> op_good c m CutOOO.
Proof.
  intros Hw I. unfold op_good. cbn [op_trace spec_step step_lo step_hi]. set (s := m_fs m) in *.
  cut (Inv (durable s (ooo_trace c s)) /\
       forall j, same_set (visible (durable s (firstn j (ooo_trace c s)))) (visible s)).
  { intros [A B]. split; [exact A|]. split.
    - rewrite <- (firstn_all (ooo_trace c s)). apply B.
    - intros j. split; intros x Hx; apply (B j); exact Hx. }
  unfold ooo_trace. destruct (c_ooo c); simpl negb; cbv iota.
  2:{ split; [exact I|]. intros j. rewrite firstn_nil. apply same_set_refl. }
  set (w := c_range c) in *. set (all := ooo s).
  set (starts := sort_uniq (map (fun x => range_start (s_t x) w) all)).
  set (bs := ooo_blocks w all starts (fresh s)).
  set (L := map fst (f_wbl s)).
  change (flat_map (fun b => [TmpFill b; BlkRename (b_id b)]) bs) with (flat_map wr bs).
  set (s1 := apply s WblNewSeg).
  assert (I1 : Inv s1).
  { constructor; try (simpl; apply I). intros x Hx. unfold s1 in Hx. rewrite ooo_newseg in Hx.
    change (head_tombs s1) with (head_tombs s). apply (i_ooo s I x Hx). }
  assert (V1 : visible s1 = visible s) by (apply visible_ooo_eq; try reflexivity; apply ooo_newseg).
  assert (Wr0 : Wrote s1 s1 (fresh s)).
  { constructor; try reflexivity; [exact I1|apply same_set_refl|apply (above_fresh s)|auto]. }
  assert (Hall : forall x, In x all -> In x (ooo s1)) by (intros x Hx; unfold s1; rewrite ooo_newseg; exact Hx).
  (* the state after the writes of the first k blocks *)
  assert (Pre : forall k, exists t, durable s1 (flat_map wr (firstn k bs)) = t /\ Wrote s1 t (fresh s + Z.of_nat (length (firstn k starts))) /\
                                  (forall b, In b (firstn k bs) -> In b (f_blk t))).
  { intros k. unfold bs. rewrite ooo_blocks_firstn. apply (ooo_blocks_written w all Hw (firstn k starts) s1 s1 (fresh s) Wr0 Hall). }
  destruct (Pre (length bs)) as [t' [Et' [Wr' Hin']]]. rewrite firstn_all in Et', Hin'.
  (* states while the old WBL segments are removed *)
  assert (Tail : forall R', let u := durable t' (map WblRemove R') in
            Inv u /\ same_set (visible u) (visible s)).
  { intros R' u. unfold u. rewrite durable_wblremoves.
    set (u' := mkFs (f_wal t') (f_cp t') (f_cptmp t') (drops R' (f_wbl t')) (f_blk t') (f_tmp t') (f_del t')).
    assert (Hsub : forall x, In x (ooo u') -> In x (ooo t')).
    { intros x Hx. unfold ooo in *. apply in_concat in Hx. destruct Hx as [l [Hl Hx]]. apply in_concat. exists l. split; [|exact Hx].
      apply in_flat_map in Hl. destruct Hl as [p [Hp Hl]]. apply in_flat_map. exists p. split; [|exact Hl].
      simpl in Hp. apply in_drops in Hp. tauto. }
    pose proof (w_inv _ _ _ Wr') as It.
    assert (Iu : Inv u').
    { constructor; try (simpl; apply It). intros x Hx. change (head_tombs u') with (head_tombs t'). apply (i_ooo t' It x). apply Hsub. exact Hx. }
    split; [exact Iu|].
    eapply same_set_trans; [|rewrite <- V1; apply (w_vis _ _ _ Wr')].
    intros x. rewrite (in_visible_inv u' x Iu), (in_visible_inv t' x It).
    change (f_blk u') with (f_blk t'). change (wal_samples u') with (wal_samples t'). change (head_tombs u') with (head_tombs t').
    split.
    - intros [H|[[H1|H1] H3]]; [left; exact H|right; auto|]. right. split; [right; apply Hsub; exact H1|exact H3].
    - intros [H|[[H1|H1] H3]]; [left; exact H|right; auto|].
      (* an out-of-order sample is in the block of its range *)
      left. rewrite (w_ooo _ _ _ Wr') in H1. unfold s1 in H1. rewrite ooo_newseg in H1. fold all in H1.
      assert (Hr : In (range_start (s_t x) w) starts).
      { unfold starts. apply sort_uniq_In. apply in_map_iff. exists x. auto. }
      destruct (ooo_blocks_has w all starts (fresh s) _ Hr) as [b [Hb [Htb Hd]]]. fold bs in Hb.
      exists b. split; [apply Hin'; exact Hb|]. split.
      + rewrite Hd. apply filter_In. split; [exact H1|apply Z.eqb_refl].
      + rewrite Htb. reflexivity. }
  split.
  - change (durable s (WblNewSeg :: flat_map wr bs ++ map WblRemove L)) with (durable s1 (flat_map wr bs ++ map WblRemove L)).
    rewrite durable_app, Et'. apply (Tail L).
  - intros [|j]; cbn [firstn]; [apply same_set_refl|].
    change (durable s (WblNewSeg :: firstn j (flat_map wr bs ++ map WblRemove L))) with (durable s1 (firstn j (flat_map wr bs ++ map WblRemove L))).
    rewrite firstn_app, durable_app.
    destruct (Nat.le_gt_cases (length (flat_map wr bs)) j) as [Hge|Hlt].
    + rewrite firstn_all2 by exact Hge. rewrite Et', firstn_map. apply (Tail (firstn (j - length (flat_map wr bs)) L)).
    + replace (j - length (flat_map wr bs))%nat with O by lia. cbn [firstn durable fold_left].
      destruct (prefix_writes bs j) as [k [E|[b E]]]; rewrite E.
      * destruct (Pre k) as [t [Et [Wr _]]]. rewrite Et. rewrite <- V1. apply (w_vis _ _ _ Wr).
      * rewrite durable_app. destruct (Pre k) as [t [Et [Wr _]]]. rewrite Et. cbn [durable fold_left].
        rewrite tmpfill_invisible. rewrite <- V1. apply (w_vis _ _ _ Wr).
Qed.

(* ================= Merge: the child block replaces its parents ================= *)
Lemma visible_live_eq t t' :
  wal_recs t = wal_recs t' -> live t = live t' -> ooo t = ooo t' -> visible t = visible t'.
Proof.
  intros H1 H2 H3. unfold visible, head_io, head_tombs, wal_samples, min_valid.
  rewrite H1, H2, H3. reflexivity.
Qed.

Lemma mv_of_split f l :
  mv_of l = Z.max (mv_of (filter f l)) (mv_of (filter (fun b => negb (f b)) l)).
Proof.
  induction l as [|a l IH]; simpl; [reflexivity|]. rewrite IH.
  destruct (f a); simpl; destruct (b_ooo a); lia.
Qed.

Lemma mv_of_le_max l : mv_of l <= list_max (map b_maxt l) minInt64.
Proof. induction l as [|a l IH]; simpl; [lia|]. destruct (b_ooo a); lia. Qed.

Lemma mv_of_all_ooo l : forallb b_ooo l = true -> mv_of l = minInt64.
Proof.
  induction l as [|a l IH]; simpl; [reflexivity|]. intros H. apply andb_true_iff in H. destruct H as [H1 H2].
  rewrite H1. apply IH. exact H2.
Qed.

Lemma list_max_ge l d x : In x l -> x <= list_max l d.
Proof.
  induction l as [|a l IH]; intros H; [contradiction|]. simpl. destruct H as [H|H]; [subst; lia|]. specialize (IH H). lia.
Qed.

Lemma filter_filter {A} (f g : A -> bool) l : filter f (filter g l) = filter (fun x => g x && f x) l.
Proof.
  induction l as [|a l IH]; simpl; [reflexivity|]. destruct (g a); simpl; [destruct (f a); rewrite IH; reflexivity|exact IH].
Qed.

Lemma filter_ext_in' {A} (f g : A -> bool) l : (forall x, In x l -> f x = g x) -> filter f l = filter g l.
Proof.
  induction l as [|a l IH]; intros H; simpl; [reflexivity|]. rewrite (H a (or_introl eq_refl)).
  rewrite IH by (intros x Hx; apply H; right; exact Hx). reflexivity.
Qed.

Lemma NoDup_map_filter {A B} (f : A -> B) (g : A -> bool) l : NoDup (map f l) -> NoDup (map f (filter g l)).
Proof.
  induction l as [|a l IH]; simpl; intros H; [constructor|]. inversion H as [|? ? Hn Hl]; subst.
  destruct (g a); simpl; [|apply IH; exact Hl]. constructor; [|apply IH; exact Hl].
  intros Hin. apply Hn. apply in_map_iff in Hin. destruct Hin as [x [E Hx]]. apply filter_In in Hx.
  apply in_map_iff. exists x. tauto.
Qed.

Lemma parents_of_filter_sub g l p : In p (parents_of (filter g l)) -> In p (parents_of l).
Proof.
  unfold parents_of. rewrite !in_flat_map. intros [b [Hb Hp]]. apply filter_In in Hb. exists b. tauto.
Qed.

(* dropping some blocks from a good directory leaves a good directory *)
Lemma inv_filter_blocks s g :
  Inv s -> Inv (mkFs (f_wal s) (f_cp s) (f_cptmp s) (f_wbl s) (filter g (f_blk s)) [] []).
Proof.
  intros I. constructor; simpl; try apply I; try reflexivity.
  - intros b Hb Hp. apply filter_In in Hb. apply parents_of_filter_sub in Hp. apply (i_live s I b); tauto.
  - apply NoDup_map_filter. apply I.
  - intros b x Hb Hx. apply filter_In in Hb. apply (i_range s I b x); tauto.
Qed.

Definition del_steps (tg : target) : list fsop :=
  match tg with TBlk p => [BlkToDel p; DelRemove p] | THead => [] end.

Section MergeProofs.
Variable s : fs.
Hypothesis I : Inv s.
Variable parents : list Z.
Let ps := filter (fun b => memZ (b_id b) parents) (f_blk s).
Let pids := map b_id ps.
Let data := flat_map blk_vis ps.
Let b := mkBlk (fresh s) (list_min (map b_mint ps) maxInt64) (list_max (map b_maxt ps) minInt64)
               (forallb b_ooo ps) pids data [].
Hypothesis Wf : forallb b_ooo ps = true \/ list_max (map b_maxt ps) minInt64 <= min_valid s.

Definition rest (D : list Z) : list blk := filter (fun b' => negb (memZ (b_id b') D)) (f_blk s).
(* the child is in place, the parents with ids in D are gone *)
Definition mstate (D : list Z) (del : list blk) : fs :=
  mkFs (f_wal s) (f_cp s) (f_cptmp s) (f_wbl s) (rest D ++ [b]) [] del.

Lemma in_ps b' : In b' (f_blk s) -> (In (b_id b') pids <-> In b' ps).
Proof.
  intros Hb'. unfold pids. rewrite in_map_iff. split.
  - intros [q [E Hq]]. assert (q = b').
    { unfold ps in Hq. apply filter_In in Hq. destruct Hq as [Hq _].
      pose proof (i_nodup s I) as N. revert Hq Hb' E. clear -N.
      induction (f_blk s) as [|a l IH]; [contradiction|]. simpl in N. inversion N as [|? ? Hn N']; subst.
      intros [H1|H1] [H2|H2] E.
      - congruence.
      - subst a. exfalso. apply Hn. rewrite E. apply in_map. exact H2.
      - subst a. exfalso. apply Hn. rewrite <- E. apply in_map. exact H1.
      - apply IH; assumption. }
    subst q. exact Hq.
  - intros H. exists b'. auto.
Qed.

Lemma fresh_not_pid : ~ In (fresh s) pids.
Proof.
  unfold pids, ps. intros H. apply in_map_iff in H. destruct H as [q [E Hq]]. apply filter_In in Hq.
  destruct Hq as [Hq _]. apply fresh_gt_id in Hq. lia.
Qed.

Lemma live_mstate D del : (forall d, In d D -> In d pids) -> live (mstate D del) = rest pids ++ [b].
Proof.
  intros HD. unfold live, mstate. cbn [f_blk]. rewrite filter_app. f_equal.
  - unfold rest. rewrite filter_filter. apply filter_ext_in'. intros b' Hb'.
    rewrite parents_of_app. unfold parents_of at 2. cbn [flat_map b_parents b]. rewrite app_nil_r.
    apply eq_true_iff_eq. rewrite andb_true_iff, !negb_true_iff, !memZ_false, in_app_iff. split.
    + intros [H1 H2] H3. apply H2. right. exact H3.
    + intros H. split.
      * intros Hd. apply H. apply HD. exact Hd.
      * intros [H1|H1]; [|apply H; exact H1]. apply parents_of_filter_sub in H1. apply (i_live s I b' Hb' H1).
  - simpl. cbn [b_id b]. rewrite parents_of_app. unfold parents_of at 2. cbn [flat_map b_parents b]. rewrite app_nil_r.
    replace (memZ (fresh s) (parents_of (rest D) ++ pids)) with false; [reflexivity|].
    symmetry. apply memZ_false. rewrite in_app_iff. intros [H|H].
    + unfold rest in H. apply parents_of_filter_sub in H. apply fresh_gt_parent in H. lia.
    + apply fresh_not_pid. exact H.
Qed.

Lemma mv_rest : mv_of (rest pids ++ [b]) = mv_of (f_blk s).
Proof.
  rewrite mv_of_app. cbn [b_ooo b_maxt b].
  assert (Er : rest pids = filter (fun b' => negb (memZ (b_id b') parents)) (f_blk s)).
  { unfold rest. apply filter_ext_in'. intros b' Hb'. f_equal. apply eq_true_iff_eq. rewrite !memZ_In, (in_ps b' Hb').
    unfold ps. rewrite filter_In, memZ_In. tauto. }
  rewrite (mv_of_split (fun b' => memZ (b_id b') parents) (f_blk s)). fold ps. rewrite <- Er.
  destruct (forallb b_ooo ps) eqn:Eo.
  - rewrite (mv_of_all_ooo ps Eo). pose proof (mv_of_ge (rest pids)). lia.
  - destruct Wf as [Hw|Hw]; [congruence|]. rewrite (min_valid_mv s I) in Hw.
    rewrite (mv_of_split (fun b' => memZ (b_id b') parents) (f_blk s)) in Hw. fold ps in Hw. rewrite <- Er in Hw.
    pose proof (mv_of_le_max ps). lia.
Qed.

Lemma visible_mstate D del :
  (forall d, In d D -> In d pids) -> same_set (visible (mstate D del)) (visible s).
Proof.
  intros HD x. rewrite in_visible, (in_visible_inv s x I), in_head_io.
  rewrite (live_mstate D del HD). unfold min_valid. rewrite (live_mstate D del HD). fold (mv_of (rest pids ++ [b])). rewrite mv_rest.
  change (wal_samples (mstate D del)) with (wal_samples s).
  change (ooo (mstate D del)) with (ooo s). change (head_tombs (mstate D del)) with (head_tombs s).
  split.
  - intros [[b' [Hb' [Hx Hc]]]|H]; [|right; exact H]. left.
    apply in_app_iff in Hb'. destruct Hb' as [Hb'|[Hb'|[]]].
    + unfold rest in Hb'. apply filter_In in Hb'. exists b'. tauto.
    + subst b'. cbn [b_data b] in Hx. unfold data in Hx. apply in_flat_map in Hx. destruct Hx as [q [Hq Hx]].
      unfold blk_vis in Hx. apply filter_In in Hx. destruct Hx as [Hx Hcq]. apply negb_true_iff in Hcq.
      exists q. unfold ps in Hq. apply filter_In in Hq. tauto.
  - intros [[b' [Hb' [Hx Hc]]]|H]; [|right; exact H]. left.
    destruct (memZ (b_id b') pids) eqn:Em.
    + apply memZ_In in Em. apply (in_ps b' Hb') in Em. exists b. split; [apply in_app_iff; right; left; reflexivity|].
      split; [|reflexivity]. cbn [b_data b]. unfold data. apply in_flat_map. exists b'. split; [exact Em|].
      unfold blk_vis. apply filter_In. rewrite Hc. auto.
    + exists b'. split; [|auto]. apply in_app_iff. left. unfold rest. apply filter_In. rewrite Em. auto.
Qed.

Definition del_ok (o : fsop) : Prop := exists p, In p pids /\ (o = BlkToDel p \/ o = DelRemove p).

Lemma mstate_steps tr : Forall del_ok tr -> forall D del, (forall d, In d D -> In d pids) ->
  exists D' del', (forall d, In d D' -> In d pids) /\ durable (mstate D del) tr = mstate D' del'.
Proof.
  induction tr as [|o tr IH]; intros F D del HD.
  - exists D, del. auto.
  - inversion F as [|? ? Ho F']; subst. destruct Ho as [p [Hp [Ho|Ho]]]; subst o; cbn [durable fold_left].
    + assert (E : apply (mstate D del) (BlkToDel p) = mstate (p :: D) (without p del ++ with_id p (rest D ++ [b]))).
      { unfold mstate. cbn [apply f_wal f_cp f_cptmp f_wbl f_blk f_tmp f_del]. f_equal.
        unfold without. rewrite filter_app. f_equal.
        - unfold rest. rewrite filter_filter. apply filter_ext_in'. intros b' _. simpl. unfold has_id.
          destruct (Z.eqb_spec (b_id b') p), (Z.eqb_spec p (b_id b')); try congruence; simpl; try reflexivity.
          + rewrite andb_false_r. reflexivity.
          + rewrite andb_true_r. reflexivity.
        - simpl. unfold has_id. cbn [b_id b]. destruct (Z.eqb_spec (fresh s) p); [|reflexivity].
          exfalso. apply fresh_not_pid. rewrite e. exact Hp. }
      change (fold_left apply tr (apply (mstate D del) (BlkToDel p))) with (durable (apply (mstate D del) (BlkToDel p)) tr).
      rewrite E. apply IH; [exact F'|]. intros d [Hd|Hd]; [subst; exact Hp|apply HD; exact Hd].
    + change (fold_left apply tr (apply (mstate D del) (DelRemove p))) with (durable (apply (mstate D del) (DelRemove p)) tr).
      change (apply (mstate D del) (DelRemove p)) with (mstate D (without p del)).
      apply IH; [exact F'|exact HD].
Qed.

Lemma del_steps_ok T : (forall p, In (TBlk p) T -> In p pids) -> Forall del_ok (flat_map del_steps T).
Proof.
  induction T as [|tg T IH]; intros H; simpl; [constructor|]. apply Forall_app. split.
  - destruct tg as [|p]; simpl; [constructor|]. assert (In p pids) by (apply H; left; reflexivity).
    constructor; [exists p; auto|]. constructor; [exists p; auto|constructor].
  - apply IH. intros p Hp. apply H. right. exact Hp.
Qed.

(* the complete deletion of the targets T, starting with empty tmp-for-deletion *)
Lemma mstate_full T : (forall p, In (TBlk p) T -> In p pids) -> forall D,
  durable (mstate D []) (flat_map del_steps T) =
  mstate (rev (flat_map (fun tg => match tg with TBlk p => [p] | THead => [] end) T) ++ D) [].
Proof.
  induction T as [|tg T IH]; intros HT D; [reflexivity|]. cbn [flat_map]. rewrite durable_app.
  assert (HT' : forall p, In (TBlk p) T -> In p pids) by (intros p Hp; apply HT; right; exact Hp).
  destruct tg as [|p]; cbn [del_steps].
  - cbn [durable fold_left]. rewrite (IH HT'). reflexivity.
  - assert (Hp : In p pids) by (apply HT; left; reflexivity).
    assert (E : durable (mstate D []) [BlkToDel p; DelRemove p] = mstate (p :: D) []).
    { cbn [durable fold_left]. unfold mstate. cbn [apply f_wal f_cp f_cptmp f_wbl f_blk f_tmp f_del]. f_equal.
      - unfold without. rewrite filter_app. f_equal.
        + unfold rest. rewrite filter_filter. apply filter_ext_in'. intros b' _. simpl. unfold has_id.
          destruct (Z.eqb_spec (b_id b') p), (Z.eqb_spec p (b_id b')); try congruence; simpl; try reflexivity.
          * rewrite andb_false_r. reflexivity.
          * rewrite andb_true_r. reflexivity.
        + simpl. unfold has_id. cbn [b_id b]. destruct (Z.eqb_spec (fresh s) p); [|reflexivity].
          exfalso. apply fresh_not_pid. rewrite e. exact Hp.
      - simpl. unfold without, with_id. rewrite filter_filter.
        rewrite (filter_ext_in' _ (fun _ => false)); [induction (rest D ++ [b]); simpl; auto|].
        intros x _. destruct (has_id p x); reflexivity. }
    rewrite E, (IH HT'). simpl. rewrite <- app_assoc. reflexivity.
Qed.

End MergeProofs.

Section EmptyMerge.
Variable s : fs.
Hypothesis I : Inv s.
Variable parents : list Z.
Let ps := filter (fun b => memZ (b_id b) parents) (f_blk s).
Let pids := map b_id ps.
Hypothesis Hempty : flat_map blk_vis ps = [].
Hypothesis Hmv : mv_of (rest s pids) = mv_of (f_blk s).

Definition estate (D : list Z) (del : list blk) : fs :=
  mkFs (f_wal s) (f_cp s) (f_cptmp s) (f_wbl s) (rest s D) [] del.

Lemma inv_estate D : Inv (estate D []).
Proof. apply (inv_filter_blocks s _ I). Qed.

Lemma mv_of_filter_le g l : mv_of (filter g l) <= mv_of l.
Proof. rewrite (mv_of_split g l). lia. Qed.

Lemma visible_estate D del :
  (forall d, In d D -> In d pids) -> same_set (visible (estate D del)) (visible s).
Proof.
  intros HD x.
  assert (E : visible (estate D del) = visible (estate D [])) by (apply visible_ext; reflexivity).
  rewrite E. rewrite (in_visible_inv _ x (inv_estate D)), (in_visible_inv s x I).
  change (f_blk (estate D [])) with (rest s D).
  change (wal_samples (estate D [])) with (wal_samples s).
  change (ooo (estate D [])) with (ooo s). change (head_tombs (estate D [])) with (head_tombs s).
  assert (Emv : mv_of (rest s D) = mv_of (f_blk s)).
  { pose proof (mv_of_filter_le (fun b' => negb (memZ (b_id b') D)) (f_blk s)) as H1. fold (rest s D) in H1.
    assert (H2 : rest s pids = filter (fun b' => negb (memZ (b_id b') pids)) (rest s D)).
    { unfold rest. rewrite filter_filter. apply filter_ext_in'. intros b' _.
      destruct (memZ (b_id b') pids) eqn:E1; destruct (memZ (b_id b') D) eqn:E2; simpl; try reflexivity.
      apply memZ_In in E2. apply HD in E2. apply memZ_In in E2. congruence. }
    pose proof (mv_of_filter_le (fun b' => negb (memZ (b_id b') pids)) (rest s D)) as H3. rewrite <- H2 in H3. lia. }
  rewrite Emv. split.
  - intros [[b' [Hb' Hx]]|H]; [|right; exact H]. left. exists b'. unfold rest in Hb'. apply filter_In in Hb'. tauto.
  - intros [[b' [Hb' [Hx Hc]]]|H]; [|right; exact H]. left. exists b'. split; [|auto].
    unfold rest. apply filter_In. split; [exact Hb'|]. apply negb_true_iff. apply memZ_false. intros Hd.
    apply HD in Hd. apply (in_ps s I parents b' Hb') in Hd.
    assert (Hin : In x (flat_map blk_vis ps)).
    { apply in_flat_map. exists b'. split; [exact Hd|]. unfold blk_vis. apply filter_In. rewrite Hc. auto. }
    rewrite Hempty in Hin. exact Hin.
Qed.

Definition edel_ok (o : fsop) : Prop := exists p, o = BlkToDel p \/ o = DelRemove p.

Lemma estate_steps tr : Forall edel_ok tr -> forall D del,
  exists D' del', (forall d, In d D' -> In d D \/ exists p, d = p /\ In (BlkToDel p) tr) /\
                  durable (estate D del) tr = estate D' del'.
Proof.
  induction tr as [|o tr IH]; intros F D del.
  - exists D, del. split; [auto|reflexivity].
  - inversion F as [|? ? Ho F']; subst. destruct Ho as [p [Ho|Ho]]; subst o; cbn [durable fold_left].
    + assert (E : apply (estate D del) (BlkToDel p) = estate (p :: D) (without p del ++ with_id p (rest s D))).
      { unfold estate. cbn [apply f_wal f_cp f_cptmp f_wbl f_blk f_tmp f_del]. f_equal.
        unfold without, rest. rewrite filter_filter. apply filter_ext_in'. intros b' _. simpl. unfold has_id.
        destruct (Z.eqb_spec (b_id b') p), (Z.eqb_spec p (b_id b')); try congruence; simpl; try reflexivity.
        - rewrite andb_false_r. reflexivity.
        - rewrite andb_true_r. reflexivity. }
      change (fold_left apply tr (apply (estate D del) (BlkToDel p))) with (durable (apply (estate D del) (BlkToDel p)) tr).
      rewrite E. destruct (IH F' (p :: D) (without p del ++ with_id p (rest s D))) as [D' [del' [H1 H2]]].
      exists D', del'. split; [|exact H2]. intros d Hd. destruct (H1 d Hd) as [[Hd'|Hd']|[q [Eq Hq]]].
      * right. exists p. split; [auto|left; reflexivity].
      * left. exact Hd'.
      * right. exists q. split; [exact Eq|right; exact Hq].
    + change (fold_left apply tr (apply (estate D del) (DelRemove p))) with (durable (apply (estate D del) (DelRemove p)) tr).
      change (apply (estate D del) (DelRemove p)) with (estate D (without p del)).
      destruct (IH F' D (without p del)) as [D' [del' [H1 H2]]]. exists D', del'. split; [|exact H2].
      intros d Hd. destruct (H1 d Hd) as [Hd'|[q [Eq Hq]]]; [left; exact Hd'|]. right. exists q. split; [exact Eq|right; exact Hq].
Qed.

Lemma estate_full T : forall D,
  durable (estate D []) (flat_map del_steps T) =
  estate (rev (flat_map (fun tg => match tg with TBlk p => [p] | THead => [] end) T) ++ D) [].
Proof.
  induction T as [|tg T IH]; intros D; [reflexivity|]. cbn [flat_map]. rewrite durable_app.
  destruct tg as [|p]; cbn [del_steps].
  - cbn [durable fold_left]. rewrite IH. reflexivity.
  - assert (E : durable (estate D []) [BlkToDel p; DelRemove p] = estate (p :: D) []).
    { cbn [durable fold_left]. unfold estate. cbn [apply f_wal f_cp f_cptmp f_wbl f_blk f_tmp f_del]. f_equal.
      - unfold without, rest. rewrite filter_filter. apply filter_ext_in'. intros b' _. simpl. unfold has_id.
        destruct (Z.eqb_spec (b_id b') p), (Z.eqb_spec p (b_id b')); try congruence; simpl; try reflexivity.
        + rewrite andb_false_r. reflexivity.
        + rewrite andb_true_r. reflexivity.
      - simpl. unfold without, with_id. rewrite filter_filter.
        rewrite (filter_ext_in' _ (fun _ => false)); [induction (rest s D); simpl; auto|].
        intros x _. destruct (has_id p x); reflexivity. }
    rewrite E, IH. simpl. rewrite <- app_assoc. reflexivity.
Qed.

Lemma edel_steps_ok T : Forall edel_ok (flat_map del_steps T).
Proof.
  induction T as [|tg T IH]; simpl; [constructor|]. apply Forall_app. split; [|exact IH].
  destruct tg as [|p]; simpl; [constructor|]. constructor; [exists p; auto|]. constructor; [exists p; auto|constructor].
Qed.

End EmptyMerge.

Lemma estate_nil s : f_tmp s = [] -> f_del s = [] -> s = estate s [] [].
Proof.
  intros Ht Hd. unfold estate, rest. rewrite filter_all by (intros; reflexivity).
  destruct s; simpl in *; subst; reflexivity.
Qed.

Lemma merge_good c m parents order :
  Inv (m_fs m) -> wf_op (m_fs m) (Merge parents order) -> op_good c m (Merge parents order).
Proof.
  intros I Wf. unfold op_good. cbn [op_trace spec_step step_lo step_hi wf_op] in *. set (s := m_fs m) in *.
  cut (Inv (durable s (merge_trace s parents order)) /\
       forall j, same_set (visible (durable s (firstn j (merge_trace s parents order)))) (visible s)).
  { intros [A B]. split; [exact A|]. split.
    - rewrite <- (firstn_all (merge_trace s parents order)). apply B.
    - intros j. split; intros x Hx; apply (B j); exact Hx. }
  unfold merge_trace.
  set (ps := filter (fun b => memZ (b_id b) parents) (f_blk s)) in *.
  set (data := flat_map blk_vis ps).
  destruct Wf as [Wf1 Wf2]. fold ps in Wf1, Wf2. fold data in Wf1, Wf2.
  set (pids := map b_id ps) in *.
  set (T := sched order (map (fun q => TBlk (b_id q)) ps)).
  assert (HT : forall p, In (TBlk p) T <-> In p pids).
  { intros p. unfold T. rewrite sched_In, in_map_iff. unfold pids. rewrite in_map_iff. split.
    - intros [q [E Hq]]. inversion E. exists q. auto.
    - intros [q [E Hq]]. exists q. split; [congruence|exact Hq]. }
  destruct data as [|d0 data0] eqn:Ed.
  { (* empty result: the parents are deleted *)
    change (flat_map (fun tg => match tg with TBlk p => [BlkToDel p; DelRemove p] | THead => [] end) T)
      with (flat_map del_steps T).
    specialize (Wf2 eq_refl).
    assert (Hmv : mv_of (rest s pids) = mv_of (f_blk s)).
    { rewrite <- (min_valid_mv s I), <- Wf2. symmetry.
      apply (min_valid_mv _ (inv_filter_blocks s _ I)). }
    assert (Es : s = estate s [] []) by (apply estate_nil; apply I).
    split.
    - rewrite Es at 1. rewrite (estate_full s T []). apply inv_estate. exact I.
    - intros j. rewrite Es at 1.
      destruct (estate_steps s (firstn j (flat_map del_steps T)) (Forall_firstn _ _ j (edel_steps_ok T)) [] []) as [D' [del' [HD' E']]].
      rewrite E'. apply (visible_estate s I parents Ed Hmv D' del').
      intros d Hd. destruct (HD' d Hd) as [[]|[p [Ep Hp]]]. subst d. apply in_firstn in Hp.
      apply in_flat_map in Hp. destruct Hp as [tg [Htg Hp]]. destruct tg as [|q]; [contradiction|].
      destruct Hp as [Hp|[Hp|[]]]; inversion Hp; subst. apply HT. exact Htg. }
  assert (Wf : forallb b_ooo ps = true \/ list_max (map b_maxt ps) minInt64 <= min_valid s)
    by (apply Wf1; discriminate).
  rewrite <- Ed. rewrite <- Ed in Wf1, Wf2. clear Ed d0 data0. cbv zeta.
  set (b := mkBlk (fresh s) (list_min (map b_mint ps) maxInt64) (list_max (map b_maxt ps) minInt64)
                  (forallb b_ooo ps) pids data []).
  change (flat_map (fun tg => match tg with TBlk p => [BlkToDel p; DelRemove p] | THead => [] end) T)
    with (flat_map del_steps T).
  assert (E0 : durable s [TmpFill b; BlkRename (b_id b)] = mstate s parents [] []).
  { rewrite (write_block_state s b I eq_refl). unfold add_block, mstate. fold ps. fold pids. fold data. fold b.
    rewrite (i_del s I). f_equal. f_equal. unfold rest. symmetry. apply filter_all. intros; reflexivity. }
  split.
  - rewrite durable_app, E0.
    rewrite (mstate_full s parents T (fun p Hp => proj1 (HT p) Hp) []). rewrite app_nil_r.
    set (Dfin := rev (flat_map (fun tg => match tg with TBlk p => [p] | THead => [] end) T)).
    assert (HD1 : forall p, In p pids -> In p Dfin).
    { intros p Hp. unfold Dfin. rewrite <- in_rev. apply in_flat_map. exists (TBlk p). split; [apply HT; exact Hp|left; reflexivity]. }
    set (sm := mkFs (f_wal s) (f_cp s) (f_cptmp s) (f_wbl s) (rest s Dfin) [] []).
    assert (Ism : Inv sm) by (apply (inv_filter_blocks s _ I)).
    change (mstate s parents Dfin []) with (add_block sm b).
    apply (inv_add_block' sm b (fresh s)); try exact Ism; try reflexivity.
    + destruct (above_fresh s) as [A1 A2]. split.
      * intros b' Hb'. simpl in Hb'. unfold rest in Hb'. apply filter_In in Hb'. apply A1. tauto.
      * intros p Hp. simpl in Hp. unfold rest in Hp. apply parents_of_filter_sub in Hp. apply A2. exact Hp.
    + cbn [b_parents b]. intros p Hp. unfold pids in Hp. apply in_map_iff in Hp. destruct Hp as [q [E Hq]].
      unfold ps in Hq. apply filter_In in Hq. destruct Hq as [Hq _]. apply fresh_gt_id in Hq. lia.
    + cbn [b_parents b]. intros b' Hb' Hp. simpl in Hb'. unfold rest in Hb'. apply filter_In in Hb'. destruct Hb' as [_ Hn].
      apply negb_true_iff in Hn. apply memZ_false in Hn. apply Hn. apply HD1. exact Hp.
    + cbn [b_data b_mint b_maxt b]. intros x Hx. unfold data in Hx. apply in_flat_map in Hx. destruct Hx as [q [Hq Hx]].
      unfold blk_vis in Hx. apply filter_In in Hx. destruct Hx as [Hx _].
      assert (Hqs : In q (f_blk s)) by (unfold ps in Hq; apply filter_In in Hq; tauto).
      pose proof (i_range s I q x Hqs Hx).
      pose proof (list_min_le (map b_mint ps) maxInt64 (b_mint q) (in_map _ _ _ Hq)).
      pose proof (list_max_ge (map b_maxt ps) minInt64 (b_maxt q) (in_map _ _ _ Hq)). lia.
  - intros j. destruct j as [|[|j]]; cbn [firstn app].
    + apply same_set_refl.
    + cbn [durable fold_left]. rewrite tmpfill_invisible. apply same_set_refl.
    + change (durable s (TmpFill b :: BlkRename (b_id b) :: firstn j (flat_map del_steps T)))
        with (durable (durable s [TmpFill b; BlkRename (b_id b)]) (firstn j (flat_map del_steps T))).
      rewrite E0.
      destruct (mstate_steps s parents (firstn j (flat_map del_steps T))
                  (Forall_firstn _ _ j (del_steps_ok s parents T (fun p Hp => proj1 (HT p) Hp))) [] [] (fun d Hd => match Hd with end))
        as [D' [del' [HD' E']]].
      rewrite E'. apply (visible_mstate s I parents Wf D' del' HD').
Qed.

(* ================= histories ================= *)
Definition wf_hist (c : cfg) (ops : list op) : Prop :=
  forall i o, nth_error ops i = Some o -> wf_op (m_fs (run c (firstn i ops))) o.

Lemma op_good_all c m o : 0 < c_range c -> Inv (m_fs m) -> wf_op (m_fs m) o -> op_good c m o.
Proof.
  intros Hw I W. destruct o.
  - apply commit_good; assumption.
  - apply delete_good; assumption.
  - apply cut_head_good; assumption.
  - apply trunc_good; assumption.
  - apply cutooo_good; assumption.
  - apply merge_good; assumption.
Qed.

Lemma spec_snoc ops o : spec (ops ++ [o]) = spec_step (spec ops) o.
Proof. unfold spec. rewrite fold_left_app. reflexivity. Qed.

Lemma run_snoc c ops o : run c (ops ++ [o]) = op_step c (run c ops) o.
Proof. unfold run. rewrite fold_left_app. reflexivity. Qed.

Lemma wf_hist_prefix c ops o : wf_hist c (ops ++ [o]) -> wf_hist c ops /\ wf_op (m_fs (run c ops)) o.
Proof.
  intros H. split.
  - intros i o' Hi. assert (Hlt : (i < length ops)%nat) by (apply nth_error_Some; congruence).
    specialize (H i o'). rewrite nth_error_app1 in H by exact Hlt. specialize (H Hi).
    rewrite firstn_app in H. replace (i - length ops)%nat with O in H by lia. simpl in H. rewrite app_nil_r in H. exact H.
  - specialize (H (length ops) o). rewrite nth_error_app2 in H by lia. rewrite Nat.sub_diag in H. specialize (H eq_refl).
    rewrite firstn_app, firstn_all, Nat.sub_diag in H. simpl in H. rewrite app_nil_r in H. exact H.
Qed.

(* after every complete, well-formed history the directory is good and a reopen shows exactly
   the acknowledged, undeleted samples *)
Lemma run_good c ops :
  0 < c_range c -> wf_hist c ops ->
  Inv (m_fs (run c ops)) /\ same_set (visible (m_fs (run c ops))) (spec ops).
Proof.
  intros Hw. induction ops as [|o ops IH] using rev_ind; intros W.
  - split; [apply inv_fs0|]. unfold run, spec. simpl. intros x. unfold visible, fs0. simpl.
    destruct (c_ooo c); simpl; tauto.
  - destruct (wf_hist_prefix c ops o W) as [W1 W2]. destruct (IH W1) as [I V].
    destruct (op_good_all c (run c ops) o Hw I W2) as [I' [V' _]].
    rewrite run_snoc, spec_snoc. unfold op_step. cbn [m_fs]. split; [exact I'|].
    eapply same_set_trans; [exact V'|]. apply spec_step_congr. exact V.
Qed.

Lemma step_lo_congr a b o x : same_set a b -> In x (step_lo a o) -> In x (step_lo b o).
Proof. intros H. destruct o; simpl; try apply H. rewrite !filter_In. rewrite (H x). tauto. Qed.
Lemma step_hi_congr a b o x : same_set a b -> In x (step_hi a o) -> In x (step_hi b o).
Proof. intros H. destruct o; simpl; try apply H. rewrite !in_app_iff. rewrite (H x). tauto. Qed.

Lemma wf_hist_firstn c ops i : wf_hist c ops -> wf_hist c (firstn i ops).
Proof.
  intros W k o Hk. assert (Hlt : (k < length (firstn i ops))%nat) by (apply nth_error_Some; congruence).
  rewrite firstn_length in Hlt.
  assert (E : firstn k (firstn i ops) = firstn k ops) by (rewrite firstn_firstn; f_equal; lia).
  rewrite E. apply W.
  rewrite <- (firstn_skipn i ops). rewrite nth_error_app1; [exact Hk|]. rewrite firstn_length. lia.
Qed.

(* THE MAIN THEOREM, in (operations completed, steps of the next one) form *)
Theorem crash_state_bounds c ops i j :
  0 < c_range c -> wf_hist c ops ->
  let R := recover (crash_state c ops i j) in
  match nth_error ops i with
  | Some o => subset (step_lo (spec (firstn i ops)) o) R /\ subset R (step_hi (spec (firstn i ops)) o)
  | None => same_set R (spec (firstn i ops))
  end.
Proof.
  intros Hw W R. unfold R, crash_state, recover.
  destruct (run_good c (firstn i ops) Hw (wf_hist_firstn c ops i W)) as [I V].
  destruct (nth_error ops i) as [o|] eqn:Eo.
  - destruct (op_good_all c (run c (firstn i ops)) o Hw I (W i o Eo)) as [_ [_ B]].
    destruct (B j) as [B1 B2]. split; intros x Hx.
    + apply B1. eapply step_lo_congr; [apply same_set_sym; exact V|exact Hx].
    + apply B2 in Hx. eapply step_hi_congr; [exact V|exact Hx].
  - exact V.
Qed.

(* ... and for an arbitrary prefix of the whole trace of persistence steps *)
Theorem crash_anywhere c ops k :
  0 < c_range c -> wf_hist c ops -> (k <= length (fs_trace c ops))%nat ->
  exists i, (i <= length ops)%nat /\
    let R := recover (durable (fs0 c) (firstn k (fs_trace c ops))) in
    match nth_error ops i with
    | Some o => subset (step_lo (spec (firstn i ops)) o) R /\ subset R (step_hi (spec (firstn i ops)) o)
    | None => same_set R (spec ops)
    end.
Proof.
  intros Hw W Hk. destruct (prefix_decompose c ops k Hk) as [i [j [Hi [E _]]]].
  exists i. split; [exact Hi|]. cbv zeta. rewrite E.
  pose proof (crash_state_bounds c ops i j Hw W) as H. cbv zeta in H.
  destruct (nth_error ops i) eqn:En; [exact H|].
  apply nth_error_None in En. rewrite firstn_all2 in H by exact En. exact H.
Qed.

(* ---- readable consequences ---- *)
Corollary acked_survive c ops i j o x :
  0 < c_range c -> wf_hist c ops -> nth_error ops i = Some o ->
  In x (spec (firstn i ops)) ->
  (forall mint maxt sel ord, o = Delete mint maxt sel ord -> matches mint maxt sel x = false) ->
  In x (recover (crash_state c ops i j)).
Proof.
  intros Hw W Ho Hx Hd. pose proof (crash_state_bounds c ops i j Hw W) as H. cbv zeta in H. rewrite Ho in H.
  destruct H as [H _]. apply H. destruct o; simpl; try exact Hx.
  apply filter_In. split; [exact Hx|]. rewrite (Hd _ _ _ _ eq_refl). reflexivity.
Qed.

Corollary nothing_invented c ops i j o x :
  0 < c_range c -> wf_hist c ops -> nth_error ops i = Some o ->
  In x (recover (crash_state c ops i j)) ->
  In x (spec (firstn i ops)) \/ exists acc, o = Commit acc /\ In x (map fst acc).
Proof.
  intros Hw W Ho Hx. pose proof (crash_state_bounds c ops i j Hw W) as H. cbv zeta in H. rewrite Ho in H.
  destruct H as [_ H]. apply H in Hx. destruct o; simpl in Hx; auto.
  apply in_app_iff in Hx. destruct Hx as [Hx|Hx]; [left; exact Hx|right; eexists; eauto].
Qed.

(* an acknowledged deletion stays applied: nothing it covered comes back unless committed again *)
Lemma spec_after_delete ops1 mint maxt sel ord ops2 x :
  In x (spec (ops1 ++ Delete mint maxt sel ord :: ops2)) -> matches mint maxt sel x = true ->
  exists acc, In (Commit acc) ops2 /\ In x (map fst acc).
Proof.
  unfold spec. rewrite fold_left_app. cbn [fold_left]. set (l0 := fold_left spec_step ops1 []).
  cbn [spec_step]. set (l1 := filter (fun y => negb (matches mint maxt sel y)) l0).
  assert (H1 : ~ (In x l1 /\ matches mint maxt sel x = true)).
  { unfold l1. rewrite filter_In. intros [[_ H] Hm]. rewrite Hm in H. discriminate. }
  clearbody l1. clear l0. revert l1 H1. induction ops2 as [|o ops2 IH]; intros l1 H1 Hx Hm; cbn [fold_left] in Hx.
  - exfalso. apply H1. auto.
  - destruct (In_dec (fun a b : sample => ltac:(decide equality; try apply Z.eq_dec; decide equality; apply Z.eq_dec)) x (spec_step l1 o)) as [Hin|Hnin].
    + destruct o; simpl in Hin; try (exfalso; apply H1; auto; fail).
      * apply in_app_iff in Hin. destruct Hin as [Hin|Hin]; [exfalso; apply H1; auto|].
        exists acc. split; [left; reflexivity|exact Hin].
      * apply filter_In in Hin. exfalso. apply H1. tauto.
    + destruct (IH (spec_step l1 o)) as [acc [Ha Hb]]; try assumption.
      * intros [Hc _]. contradiction.
      * exists acc. split; [right; exact Ha|exact Hb].
Qed.

(* ---- the unrestricted statement is false of the code as it is (finding) ---- *)
Definition bad_cfg : cfg := mkCfg 1000 true.
Definition bad_ops : list op :=
  [Commit [((1, 0, 1), false); ((1, 600, 2), false); ((1, 1100, 3), false); ((1, 1600, 4), false);
           ((1, 2050, 5), false); ((1, 2600, 6), false); ((1, 3200, 7), false); ((1, 3500, 8), false)];
   Commit [((1, 2100, 9), true); ((1, 3100, 10), true)];
   CutHead 0 1000; CutHead 1100 2000; TruncWAL 2000; CutOOO;
   Merge [1; 2; 3] [TBlk 3; TBlk 1; TBlk 2]].

Lemma refuted_mixed_merge :
  exists c ops x, 0 < c_range c /\ In x (spec ops) /\ ~ In x (recover (m_fs (run c ops))).
Proof.
  exists bad_cfg, bad_ops, (1, 2050, 5). split; [reflexivity|]. split.
  - vm_compute. tauto.
  - vm_compute. intros H. repeat (destruct H as [H|H]; [discriminate H|]). exact H.
Qed.

(* ---- non-vacuity: a well-formed history using every operation ---- *)
Definition ex_cfg : cfg := mkCfg 1000 true.
Definition ex_ops : list op :=
  [Commit [((1, 100, 1), false); ((2, 150, 2), false); ((1, 1200, 3), false); ((2, 1700, 4), false)];
   Commit [((2, 120, 5), true); ((1, 1800, 6), false)];
   Delete 100 200 [1] [THead];
   CutHead 100 1000; TruncWAL 1000; CutOOO;
   Merge [1; 2] [TBlk 1; TBlk 2];
   Commit [((1, 2900, 7), false)];
   Delete 0 5000 [2] [TBlk 3; THead]].

Ltac wf_commit :=
  let x := fresh "x" in let f := fresh "f" in let H := fresh "H" in let E := fresh "E" in
  intros x f H; simpl in H;
  repeat (destruct H as [E|H];
          [inversion E; subst; split; [vm_compute; reflexivity|intros F; first [discriminate F|vm_compute; discriminate]]|]);
  contradiction.
Ltac wf_delete :=
  let x := fresh "x" in let H := fresh "H" in
  intros x H; vm_compute in H; repeat (destruct H as [H|H]; [subst; vm_compute; reflexivity|]); contradiction.

Example ex_wf : wf_hist ex_cfg ex_ops.
Proof.
  intros i o H.
  destruct i as [|i]; [inversion H; subst o; clear H; cbn [wf_op]; wf_commit|].
  destruct i as [|i]; [inversion H; subst o; clear H; cbn [wf_op]; wf_commit|].
  destruct i as [|i]; [inversion H; subst o; clear H; cbn [wf_op]; wf_delete|].
  destruct i as [|i]; [inversion H; subst o; exact Logic.I|].
  destruct i as [|i]; [inversion H; subst o; clear H; cbn [wf_op]; vm_compute; discriminate|].
  destruct i as [|i]; [inversion H; subst o; exact Logic.I|].
  destruct i as [|i]; [inversion H; subst o; clear H; cbn [wf_op]; split; [intros _; right; vm_compute; discriminate|intros E; vm_compute in E; discriminate E]|].
  destruct i as [|i]; [inversion H; subst o; clear H; cbn [wf_op]; wf_commit|].
  destruct i as [|i]; [inversion H; subst o; clear H; cbn [wf_op]; wf_delete|].
  destruct i; discriminate H.
Qed.

Example ex_trace_length : length (fs_trace ex_cfg ex_ops) = 20%nat.
Proof. vm_compute. reflexivity. Qed.

Example ex_final : recover (m_fs (run ex_cfg ex_ops)) = [(1, 1200, 3); (1, 1800, 6); (1, 2900, 7)].
Proof. vm_compute. reflexivity. Qed.

(* proof/PromqlRangeProofs.v — proofs about model/PromqlRange.v (C27). *)
From Coq Require Import List ZArith Bool Lia Sorting.Sorted ZifyBool.
From Verif Require Import model.PromqlRange.
Import ListNotations.
Open Scope Z_scope.

(* ---------------------------------------------------------------------------------------- *)
(* lists ordered by strictly increasing timestamp                                            *)

Definition sortedT (l : list sample) : Prop := StronglySorted (fun a b => sT a < sT b) l.
Definition lt_all (c : Z) (l : list sample) : Prop := Forall (fun p => sT p < c) l.

Lemma sortedT_app : forall a b, sortedT (a ++ b) ->
  sortedT a /\ sortedT b /\ (forall x y, In x a -> In y b -> sT x < sT y).
Proof.
  induction a as [|x a IH]; simpl; intros b H.
  - repeat split; auto. constructor. intros ? ? [].
  - inversion H as [|? ? Hs Hf]; subst. destruct (IH _ Hs) as (Ha & Hb & Hab).
    rewrite Forall_app in Hf. destruct Hf as [Hfa Hfb].
    repeat split; auto.
    + constructor; auto.
    + intros x0 y [->|Hx] Hy.
      * rewrite Forall_forall in Hfb. auto.
      * auto.
Qed.

Lemma sortedT_cons_inv : forall x l, sortedT (x :: l) -> sortedT l /\ forall y, In y l -> sT x < sT y.
Proof. intros x l H. inversion H; subst. split; auto. now apply Forall_forall. Qed.

Lemma take_drop : forall f l, l = take_while f l ++ drop_while f l.
Proof. induction l as [|x l IH]; simpl; auto. destruct (f x); simpl; congruence. Qed.

Lemma take_while_all : forall f l, Forall (fun p => f p = true) (take_while f l).
Proof.
  induction l as [|x l IH]; simpl; auto. destruct (f x) eqn:E; auto.
Qed.

Lemma drop_while_head : forall f l y r, drop_while f l = y :: r -> f y = false.
Proof.
  induction l as [|x l IH]; simpl; intros y r H; try discriminate.
  destruct (f x) eqn:E; eauto. inversion H; subst; auto.
Qed.

Lemma filter_none : forall (p : sample -> bool) l, (forall x, In x l -> p x = false) -> filter p l = [].
Proof.
  induction l as [|x l IH]; simpl; intros H; auto.
  rewrite (H x) by auto. apply IH. auto.
Qed.

Lemma filter_all : forall (p : sample -> bool) l, (forall x, In x l -> p x = true) -> filter p l = l.
Proof.
  induction l as [|x l IH]; simpl; intros H; auto.
  rewrite (H x) by auto. f_equal. apply IH. auto.
Qed.

Lemma filter_filter : forall (p q : sample -> bool) l,
  filter p (filter q l) = filter (fun x => q x && p x) l.
Proof.
  induction l as [|x l IH]; simpl; auto.
  destruct (q x); simpl; [destruct (p x)|]; simpl; congruence.
Qed.

Lemma sortedT_filter : forall p l, sortedT l -> sortedT (filter p l).
Proof.
  induction l as [|x l IH]; simpl; intros H; auto.
  apply sortedT_cons_inv in H. destruct H as [Hs Hx].
  destruct (p x); [|apply IH; auto]. constructor; [apply IH; auto|].
  apply Forall_forall. intros y Hy. apply filter_In in Hy. apply Hx. tauto.
Qed.

(* a prefix-closed predicate: drop_while is a filter *)
Lemma drop_while_filter : forall f l, sortedT l ->
  (forall x y, sT x < sT y -> f y = true -> f x = true) ->
  drop_while f l = filter (fun p => negb (f p)) l.
Proof.
  induction l as [|x l IH]; simpl; intros Hs Hf; auto.
  apply sortedT_cons_inv in Hs. destruct Hs as [Hs Hx].
  destruct (f x) eqn:E; simpl; auto.
  f_equal. symmetry. apply filter_all. intros y Hy.
  destruct (f y) eqn:Ey; auto. assert (f x = true) by (apply (Hf x y); auto). congruence.
Qed.

(* two predicates whose elements are ordered: the filters concatenate *)
Lemma filter_split : forall (p q : sample -> bool) l, sortedT l ->
  (forall x y, In x l -> In y l -> p x = true -> q y = true -> sT x < sT y) ->
  filter p l ++ filter q l = filter (fun z => p z || q z) l.
Proof.
  induction l as [|x l IH]; simpl; intros Hs H; auto.
  apply sortedT_cons_inv in Hs. destruct Hs as [Hs Hx].
  assert (IH' := IH Hs (fun a b Ha Hb => H a b (or_intror Ha) (or_intror Hb))).
  destruct (p x) eqn:Ep, (q x) eqn:Eq; simpl.
  - exfalso. specialize (H x x (or_introl eq_refl) (or_introl eq_refl) Ep Eq). lia.
  - f_equal. exact IH'.
  - rewrite <- IH'. rewrite (filter_none p l); auto.
    intros y Hy. destruct (p y) eqn:Epy; auto.
    specialize (H y x (or_intror Hy) (or_introl eq_refl) Epy Eq). specialize (Hx y Hy). lia.
  - exact IH'.
Qed.

Lemma last_opt_none : forall l, last_opt l = None -> l = [].
Proof.
  induction l as [|x l IH]; simpl; auto. destruct l; try discriminate. intros H. specialize (IH H). discriminate.
Qed.

Lemma last_opt_some : forall l x, last_opt l = Some x ->
  In x l /\ (sortedT l -> forall y, In y l -> sT y <= sT x).
Proof.
  induction l as [|a l IH]; simpl; intros x H; try discriminate.
  destruct l as [|b l].
  - inversion H; subst. split; auto. intros _ y [->|[]]. lia.
  - destruct (IH x H) as [Hin Hmax]. split; auto.
    intros Hs y [->|Hy].
    + apply sortedT_cons_inv in Hs. destruct Hs as [_ Hx]. specialize (Hx x Hin). lia.
    + apply sortedT_cons_inv in Hs. destruct Hs as [Hs _]. auto.
Qed.

Lemma last_opt_app : forall l x, last_opt (l ++ [x]) = Some x.
Proof.
  induction l as [|a l IH]; simpl; auto. intros x.
  destruct (l ++ [x]) eqn:E.
  - destruct l; discriminate.
  - rewrite <- E. apply IH.
Qed.

(* ---------------------------------------------------------------------------------------- *)
(* the buffered iterator                                                                     *)

Definition head_ok (st : bit) (m : Z) : Prop :=
  match b_rest st with [] => True | y :: _ => b_last st = Some (sT y) /\ m <= sT y end.

(* after Seek(m): the series splits into a dropped prefix older than m - delta, the buffer
   (older than m) and the rest (from m on) *)
Definition Binv (s : list sample) (st : bit) (m : Z) : Prop :=
  exists pre, s = pre ++ b_buf st ++ b_rest st /\ lt_all (m - b_delta st) pre /\
              lt_all m (b_buf st) /\ head_ok st m.

(* before Seek(m): the freshly reset iterator, or any state left by an earlier Seek(m0), m0 <= m *)
Definition Bpre (s : list sample) (st : bit) (m : Z) : Prop :=
  exists pre, s = pre ++ b_buf st ++ b_rest st /\ lt_all (m - b_delta st) pre /\
              lt_all m (b_buf st) /\
              match b_rest st with
              | [] => True
              | y :: _ => match b_last st with None => b_buf st = [] | Some lt => lt = sT y end
              end.

Lemma lt_all_mono : forall c c' l, c <= c' -> lt_all c l -> lt_all c' l.
Proof. intros c c' l H. apply Forall_impl. intros; lia. Qed.

Lemma Bpre_reset : forall s delta m, Bpre s (b_reset s delta) m.
Proof. intros. exists []. simpl. repeat split; try constructor. destruct s; auto. Qed.

Lemma Binv_Bpre : forall s st m m', Binv s st m -> m <= m' -> Bpre s st m'.
Proof.
  intros s st m m' (pre & Hs & Hp & Hb & Hh) Hm. exists pre. repeat split; auto.
  - eapply lt_all_mono; [|exact Hp]. lia.
  - eapply lt_all_mono; [|exact Hb]. lia.
  - unfold head_ok in Hh. destruct (b_rest st); auto. destruct Hh as [-> _]. auto.
Qed.

Lemma ring_add_split : forall d buf x, exists dropped,
  buf ++ [x] = dropped ++ ring_add d buf x /\ lt_all (sT x - d) dropped.
Proof.
  intros. exists (take_while (fun p => sT p <? sT x - d) (buf ++ [x])). split.
  - apply take_drop.
  - eapply Forall_impl; [|apply take_while_all]. simpl. intros; lia.
Qed.

Lemma adv_inv : forall m d rest pre buf last,
  lt_all (m - d) pre -> lt_all m buf ->
  (forall x r, rest = x :: r -> sT x < m) ->
  let st' := b_adv m rest buf d last in
  b_delta st' = d /\
  exists pre', pre ++ buf ++ rest = pre' ++ b_buf st' ++ b_rest st' /\
               lt_all (m - d) pre' /\ lt_all m (b_buf st') /\ head_ok st' m.
Proof.
  intros m d rest. induction rest as [|x r IH]; intros pre buf last Hp Hb Hx; simpl.
  - split; auto. exists pre. unfold head_ok; simpl. auto.
  - assert (Hxm : sT x < m) by (eapply Hx; eauto).
    destruct (ring_add_split d buf x) as (dr & Heq & Hdr).
    assert (Hb' : lt_all m (ring_add d buf x)).
    { assert (Hall : lt_all m (buf ++ [x])).
      { apply Forall_app. split; auto. }
      rewrite Heq in Hall. apply Forall_app in Hall. tauto. }
    assert (Hp' : lt_all (m - d) (pre ++ dr)).
    { apply Forall_app. split; auto. eapply lt_all_mono; [|exact Hdr]. lia. }
    assert (Hsplit : pre ++ buf ++ x :: r = (pre ++ dr) ++ ring_add d buf x ++ r).
    { rewrite <- app_assoc. f_equal. rewrite app_assoc, <- Heq. rewrite <- app_assoc. reflexivity. }
    destruct r as [|y r'].
    + simpl. split; auto. exists (pre ++ dr). unfold head_ok; simpl. auto.
    + destruct (sT y >=? m) eqn:E.
      * simpl. split; auto. exists (pre ++ dr). unfold head_ok; simpl.
        repeat split; auto. lia.
      * specialize (IH (pre ++ dr) (ring_add d buf x) (Some (sT y)) Hp' Hb').
        destruct IH as [Hd (pre' & He & H1 & H2 & H3)].
        { intros x0 r0 Hr. inversion Hr; subst. lia. }
        split; auto. exists pre'. rewrite Hsplit. auto.
Qed.

Lemma seek_inv : forall s st m, sortedT s -> Bpre s st m ->
  Binv s (b_seek m st) m /\ b_delta (b_seek m st) = b_delta st.
Proof.
  intros s [rest buf d last] m Hs (pre & Heq & Hp & Hb & Hl). simpl in *.
  unfold b_seek; cbn [b_rest b_buf b_delta b_last].
  destruct rest as [|y r].
  - (* exhausted *)
    assert (Hres : (if opt_ge last m then mkB [] buf d last else mkB [] buf d last) = mkB [] buf d last)
      by (destruct (opt_ge last m); auto).
    simpl. rewrite Hres. split; auto. exists pre. unfold head_ok; simpl. auto.
  - destruct (opt_lt last (m - d)) eqn:Ej.
    + (* the seek jumps: the buffer is reset *)
      assert (Hbuf : lt_all (m - d) buf).
      { destruct last as [lt|]; simpl in *.
        - subst lt. apply Forall_forall. intros b Hb0.
          rewrite Heq in Hs. apply sortedT_app in Hs. destruct Hs as (_ & Hs & _).
          apply sortedT_app in Hs. destruct Hs as (_ & _ & Hlt).
          specialize (Hlt b y Hb0 (or_introl eq_refl)). lia.
        - subst buf. constructor. }
      pose proof (take_drop (fun p => sT p <? m - d) (y :: r)) as Htd.
      pose proof (take_while_all (fun p => sT p <? m - d) (y :: r)) as Hta.
      set (tk := take_while (fun p => sT p <? m - d) (y :: r)) in *.
      assert (Hpre' : lt_all (m - d) (pre ++ buf ++ tk)).
      { apply Forall_app. split; auto. apply Forall_app. split; auto.
        eapply Forall_impl; [|exact Hta]. simpl. intros; lia. }
      destruct (drop_while (fun p => sT p <? m - d) (y :: r)) as [|y' r'] eqn:Ed.
      * split; auto. exists (pre ++ buf ++ tk). unfold head_ok; simpl.
        repeat split; auto; try constructor.
        rewrite Heq, Htd. simpl. rewrite ?app_nil_r, <- ?app_assoc. reflexivity.
      * assert (Hs' : pre ++ buf ++ y :: r = (pre ++ buf ++ tk) ++ [] ++ y' :: r').
        { rewrite Htd. simpl. rewrite <- ?app_assoc. reflexivity. }
        destruct (sT y' >=? m) eqn:E.
        -- split; auto. exists (pre ++ buf ++ tk). unfold head_ok; simpl.
           split; [rewrite Heq; exact Hs'|]. split; [exact Hpre'|]. split; [constructor|].
           split; [reflexivity|lia].
        -- assert (Hhd : forall x0 r0, y' :: r' = x0 :: r0 -> sT x0 < m)
             by (intros x0 r0 Hr; inversion Hr; subst; lia).
           pose proof (adv_inv m d (y' :: r') (pre ++ buf ++ tk) [] (Some (sT y')) Hpre' (Forall_nil _) Hhd) as Hadv.
           cbv zeta in Hadv. destruct Hadv as [Hd (pre' & He & H1 & H2 & H3)].
           split; auto. exists pre'. split; [rewrite Heq, Hs'; exact He|]. rewrite Hd. auto.
    + (* no jump *)
      destruct last as [lt|]; simpl in Ej; try discriminate. subst lt.
      cbn [opt_ge]. destruct (sT y >=? m) eqn:E.
      * split; auto. exists pre. unfold head_ok; simpl. repeat split; auto. lia.
      * assert (Hhd : forall x0 r0, y :: r = x0 :: r0 -> sT x0 < m)
          by (intros x0 r0 Hr; inversion Hr; subst; lia).
        pose proof (adv_inv m d (y :: r) pre buf (Some (sT y)) Hp Hb Hhd) as Hadv.
        cbv zeta in Hadv. destruct Hadv as [Hd (pre' & He & H1 & H2 & H3)].
        split; auto. exists pre'. split; [rewrite Heq; exact He|]. rewrite Hd. auto.
Qed.

Lemma reduce_inv : forall s st m d', Binv s st m ->
  Binv s (b_reduce d' st) m /\
  b_delta (b_reduce d' st) = (if d' >? b_delta st then b_delta st else d').
Proof.
  intros s [rest buf d last] m d' (pre & Heq & Hp & Hb & Hh). unfold b_reduce; simpl in *.
  destruct (d' >? d) eqn:E.
  - split; auto. exists pre. auto.
  - destruct (last_opt buf) as [l|] eqn:El; simpl.
    + split; auto.
      pose proof (take_drop (fun p => sT p <? sT l - d') buf) as Htd.
      pose proof (take_while_all (fun p => sT p <? sT l - d') buf) as Hta.
      set (tk := take_while (fun p => sT p <? sT l - d') buf) in *.
      destruct (last_opt_some _ _ El) as [Hin _].
      assert (Hl : sT l < m). { unfold lt_all in Hb. rewrite Forall_forall in Hb. auto. }
      exists (pre ++ tk). unfold head_ok in *; simpl in *. repeat split; auto.
      * rewrite Heq. rewrite <- app_assoc. f_equal. rewrite app_assoc, <- Htd. reflexivity.
      * apply Forall_app. split.
        -- eapply lt_all_mono; [|exact Hp]. lia.
        -- eapply Forall_impl; [|exact Hta]. simpl. intros; lia.
      * rewrite Htd in Hb. apply Forall_app in Hb. tauto.
    + split; auto. exists pre. unfold head_ok in *; simpl in *. repeat split; auto.
      eapply lt_all_mono; [|exact Hp]. lia.
Qed.

(* ---------------------------------------------------------------------------------------- *)
(* matrixIterSlice: the incremental window                                                   *)

Lemma fl_bound : forall s pmint pm bound,
  sortedT s ->
  match last_opt (filter (in_window pmint pm) s) with Some l => sT l <= bound | None => True end ->
  forall p, In p s -> in_window pmint pm p = true -> sT p <= bound.
Proof.
  intros s pmint pm bound Hs Hl p Hp Hw.
  assert (Hin : In p (filter (in_window pmint pm) s)) by (apply filter_In; auto).
  destruct (last_opt (filter (in_window pmint pm) s)) as [l|] eqn:El.
  - destruct (last_opt_some _ _ El) as [_ Hmax].
    specialize (Hmax (sortedT_filter _ _ Hs) p Hin). lia.
  - apply last_opt_none in El. rewrite El in Hin. destruct Hin.
Qed.

Lemma sorted_rest_ge : forall (l : list sample) y r m, sortedT (y :: r) -> m <= sT y ->
  forall x, In x r -> m < sT x.
Proof.
  intros l y r m Hs Hm x Hx. apply sortedT_cons_inv in Hs. destruct Hs as [_ H]. specialize (H x Hx). lia.
Qed.

Lemma mis_core : forall s st range m pmint pm fl,
  sortedT s -> Bpre s st m -> 0 < range ->
  fl = filter (in_window pmint pm) s -> pmint <= m - range -> pm < m ->
  (range <= b_delta st \/ m - pm <= b_delta st) ->
  Binv s (fst (mis st (m - range) m fl)) m /\
  snd (mis st (m - range) m fl) = window_spec s (m - range) m /\
  b_delta (fst (mis st (m - range) m fl)) = b_delta st.
Proof.
  intros s st range m pmint pm fl Hs Hpre Hr Hfl Hpmint Hpm Hdelta.
  set (mint := m - range) in *.
  unfold mis.
  (* the retained part *)
  assert (HA : exists fl0 mintF,
    (match last_opt fl with
     | Some l => if sT l >? mint then (drop_while (fun p => sT p <=? mint) fl, sT l) else ([], mint)
     | None => ([], mint) end) = (fl0, mintF) /\
    fl0 = filter (fun p => in_window mint m p && (sT p <=? pm)) s /\
    mint <= mintF /\ (mintF = mint \/ mintF <= pm) /\
    (forall p, In p s -> is_stale p = false -> mint < sT p -> sT p <= pm -> sT p <= mintF)).
  { assert (Hcase : (exists l, last_opt fl = Some l /\ mint < sT l) \/
                    (forall p, In p s -> in_window pmint pm p = true -> sT p <= mint)).
    { destruct (last_opt fl) as [l|] eqn:El.
      - destruct (Z_lt_le_dec mint (sT l)) as [Hlt|Hle].
        + left. eauto.
        + right. apply fl_bound; auto. rewrite <- Hfl, El. exact Hle.
      - right. apply fl_bound; auto. rewrite <- Hfl, El. exact I. }
    destruct Hcase as [(l & El & Hlt)|Hnone].
    - rewrite El. replace (sT l >? mint) with true by lia.
      destruct (last_opt_some _ _ El) as [Hlin Hmax].
      assert (Hsfl : sortedT fl) by (rewrite Hfl; apply sortedT_filter; auto).
      specialize (Hmax Hsfl).
      assert (Hlw : in_window pmint pm l = true /\ In l s).
      { rewrite Hfl in Hlin. apply filter_In in Hlin. tauto. }
      destruct Hlw as [Hlw Hls].
      eexists _, _. split; [reflexivity|]. split; [|split; [lia|split]].
      + rewrite drop_while_filter; auto.
        * rewrite Hfl, filter_filter. apply filter_ext. intros x.
          unfold in_window. destruct (is_stale x); simpl; lia.
        * intros x y Hxy Hy. lia.
      + right. unfold in_window in Hlw. lia.
      + intros p Hp Hst H1 H2. apply Hmax. rewrite Hfl. apply filter_In. split; auto.
        unfold in_window. rewrite Hst. simpl. lia.
    - exists [], mint. split.
      + destruct (last_opt fl) as [l|] eqn:El; auto.
        replace (sT l >? mint) with false; auto.
        destruct (last_opt_some _ _ El) as [Hlin _]. rewrite Hfl in Hlin. apply filter_In in Hlin.
        destruct Hlin as [Hls Hlw]. specialize (Hnone l Hls Hlw). lia.
      + split; [|split; [lia|split; [auto|]]].
        * symmetry. apply filter_none. intros x Hx.
          destruct (in_window mint m x && (sT x <=? pm)) eqn:E; auto.
          assert (Hw : in_window pmint pm x = true).
          { unfold in_window in *. destruct (is_stale x); simpl in *; lia. }
          specialize (Hnone x Hx Hw). unfold in_window in E. lia.
        * intros p Hp Hst H1 H2.
          assert (Hw : in_window pmint pm p = true).
          { unfold in_window. rewrite Hst. simpl. lia. }
          specialize (Hnone p Hp Hw). lia. }
  destruct HA as (fl0 & mintF & -> & Hfl0 & HmF1 & HmF2 & HmF3).
  replace (mint =? m) with false by lia.
  destruct (seek_inv s st m Hs Hpre) as [(pre & Heq & Hp & Hb & Hh) Hd].
  set (st' := b_seek m st) in *.
  cbn [fst snd]. split; [exists pre; auto|]. split; [|exact Hd].
  assert (Hd0 : 0 <= b_delta st') by lia.
  (* the three parts of s *)
  pose proof Hs as Hs3. rewrite Heq in Hs3. apply sortedT_app in Hs3.
  destruct Hs3 as (_ & Hs3 & _). apply sortedT_app in Hs3. destruct Hs3 as (_ & Hsrest & _).
  assert (Hrest : forall x, In x (b_rest st') -> m <= sT x).
  { unfold head_ok in Hh. destruct (b_rest st') as [|y r]; [intros ? []|].
    destruct Hh as [_ Hm]. intros x [->|Hx]; auto.
    pose proof (sorted_rest_ge r y r m Hsrest Hm x Hx). lia. }
  assert (Hinpre : forall x, In x pre -> In x s) by (intros; rewrite Heq; apply in_or_app; auto).
  assert (Hinbuf : forall x, In x (b_buf st') -> In x s)
    by (intros; rewrite Heq; apply in_or_app; right; apply in_or_app; auto).
  unfold lt_all in Hp, Hb. rewrite Forall_forall in Hp, Hb.
  set (P2 := fun p => negb (is_stale p) && (mintF <? sT p) && (sT p <? m)).
  set (P3 := fun p => (sT p =? m) && negb (is_stale p)).
  assert (Hbufpart : filter (fun p => negb (is_stale p) && (sT p >? mintF)) (b_buf st') = filter P2 s).
  { transitivity (filter P2 (pre ++ b_buf st' ++ b_rest st')); [|rewrite <- Heq; reflexivity].
    rewrite !filter_app.
    rewrite (filter_none P2 pre), (filter_none P2 (b_rest st')).
    - rewrite app_nil_r. simpl. apply filter_ext_in. intros x Hx. specialize (Hb x Hx).
      unfold P2. destruct (is_stale x); simpl; lia.
    - intros x Hx. specialize (Hrest x Hx). unfold P2. destruct (is_stale x); simpl; lia.
    - intros x Hx. specialize (Hp x Hx). specialize (HmF3 x (Hinpre x Hx)).
      unfold P2. destruct (is_stale x) eqn:Est; simpl; auto.
      specialize (HmF3 eq_refl). rewrite Hd in Hp. lia. }
  assert (Hsought : (match b_rest st' with
                     | x :: _ => if (sT x =? m) && negb (is_stale x) then [x] else []
                     | [] => [] end) = filter P3 s).
  { transitivity (filter P3 (pre ++ b_buf st' ++ b_rest st')); [|rewrite <- Heq; reflexivity].
    rewrite !filter_app.
    rewrite (filter_none P3 pre), (filter_none P3 (b_buf st')).
    - simpl. destruct (b_rest st') as [|y r] eqn:Er; auto.
      simpl. fold (P3 y). rewrite (filter_none P3 r).
      + destruct (P3 y); auto.
      + intros x Hx. unfold head_ok in Hh. rewrite Er in Hh. destruct Hh as [_ Hm].
        pose proof (sorted_rest_ge r y r m Hsrest Hm x Hx). unfold P3. lia.
    - intros x Hx. specialize (Hb x Hx). unfold P3. lia.
    - intros x Hx. specialize (Hp x Hx). unfold P3. lia. }
  rewrite Hbufpart, Hsought, Hfl0.
  rewrite (filter_split P2 P3 s Hs).
  2:{ intros x y _ _ Hx Hy. unfold P2, P3 in *. lia. }
  rewrite filter_split; auto.
  - unfold window_spec. apply filter_ext_in. intros x Hx. specialize (HmF3 x Hx).
    unfold P2, P3, in_window. destruct (is_stale x); simpl; [lia|].
    specialize (HmF3 eq_refl). lia.
  - intros x y Hx _ Hpx Hpy. specialize (HmF3 x Hx).
    unfold P2, P3, in_window in *. destruct (is_stale x); simpl in *; [lia|].
    specialize (HmF3 eq_refl). lia.
Qed.

(* ---------------------------------------------------------------------------------------- *)
(* the step loop over one series                                                             *)

Definition RPre (s : list sample) (range interval : Z) (st : bit) (fl : list sample) (maxt : Z) : Prop :=
  Bpre s st maxt /\
  ((fl = [] /\ range <= b_delta st) \/
   (fl = window_spec s (maxt - interval - range) (maxt - interval) /\
    (range <= b_delta st \/ interval <= b_delta st))).

Lemma window_empty : forall s m, window_spec s m m = [].
Proof. intros. apply filter_none. intros x _. unfold in_window. lia. Qed.

Lemma seq_map_shift : forall {A} (f : nat -> A) n, map f (seq 1 n) = map (fun k => f (S k)) (seq 0 n).
Proof. intros. rewrite <- seq_shift, map_map. reflexivity. Qed.

Lemma range_loop_spec : forall s range offset interval,
  sortedT s -> 0 < range -> 0 < interval ->
  forall n first ts st fl, RPre s range interval st fl (ts - offset) ->
  range_loop range offset interval (Z.min range interval) true first n ts st fl =
  map (fun k => window_spec s (ts + Z.of_nat k * interval - offset - range)
                              (ts + Z.of_nat k * interval - offset)) (seq 0 n).
Proof.
  intros s range offset interval Hs Hr Hi. induction n as [|n IH]; intros first ts st fl [Hpre Hfl]; auto.
  cbn [range_loop]. rewrite orb_true_r.
  set (m := ts - offset) in *.
  assert (Hcore : Binv s (fst (mis st (m - range) m fl)) m /\
                  snd (mis st (m - range) m fl) = window_spec s (m - range) m /\
                  b_delta (fst (mis st (m - range) m fl)) = b_delta st).
  { destruct Hfl as [[-> Hd]|[-> Hd]].
    - apply (mis_core s st range m (m - range) (m - range)); auto; try lia.
      symmetry. apply window_empty.
    - apply (mis_core s st range m (m - interval - range) (m - interval)); auto; lia. }
  destruct (mis st (m - range) m fl) as [st' fl'] eqn:Emis. cbn [fst snd] in Hcore.
  destruct Hcore as (Hinv & Hfl' & Hd').
  assert (Hdd : range <= b_delta st' \/ interval <= b_delta st')
    by (rewrite Hd'; destruct Hfl as [[_ Hd]|[_ Hd]]; lia).
  cbn [seq map]. f_equal.
  - rewrite Hfl'. f_equal; lia.
  - rewrite seq_map_shift.
    erewrite map_ext; [apply IH|].
    + split.
      * assert (Hinv2 : Binv s (match fl' with [] => st' | _ :: _ => b_reduce (Z.min range interval) st' end) m).
        { destruct fl'; auto. apply reduce_inv; auto. }
        eapply Binv_Bpre; [exact Hinv2|lia].
      * right. split.
        -- rewrite Hfl'. f_equal; lia.
        -- destruct fl' as [|x fl'']; auto.
           destruct (reduce_inv s st' m (Z.min range interval) Hinv) as [_ ->].
           destruct (Z.min range interval >? b_delta st') eqn:E; auto. lia.
    + intros k. cbv beta. f_equal; lia.
Qed.

Theorem window_incremental : forall s range offset interval n start,
  sortedT s -> 0 < range -> 0 < interval ->
  range_windows s range offset interval true n start =
  map (fun k => let maxt := start + Z.of_nat k * interval - offset in
                window_spec s (maxt - range) maxt) (seq 0 n).
Proof.
  intros s range offset interval n start Hs Hr Hi. unfold range_windows.
  rewrite (range_loop_spec s range offset interval Hs Hr Hi n true start (b_reset s range) []).
  - apply map_ext. intros k. cbv zeta. f_equal; lia.
  - split; [apply Bpre_reset|]. left. simpl. split; auto. lia.
Qed.

(* ---------------------------------------------------------------------------------------- *)
(* the memoized iterator and vectorSelectorSingle                                            *)

Definition mhead_ok (st : mit) (m : Z) : Prop :=
  match m_rest st with [] => True | y :: _ => m_last st = Some (sT y) /\ m <= sT y end.

Definition prev_ok (delta m : Z) (pre : list sample) (prev : option sample) : Prop :=
  match prev with
  | Some p => exists pre0, pre = pre0 ++ [p]
  | None => lt_all (m - delta) pre
  end.

Definition Minv (delta : Z) (s : list sample) (st : mit) (m : Z) : Prop :=
  exists pre, s = pre ++ m_rest st /\ lt_all m pre /\ mhead_ok st m /\ prev_ok delta m pre (m_prev st).

Definition Mpre (delta : Z) (s : list sample) (st : mit) (m : Z) : Prop :=
  exists pre, s = pre ++ m_rest st /\ lt_all m pre /\ prev_ok delta m pre (m_prev st) /\
              match m_rest st with
              | [] => True
              | y :: _ => match m_last st with None => pre = [] | Some lt => lt = sT y end
              end.

Lemma prev_ok_mono : forall delta m m' pre prev, m <= m' -> prev_ok delta m pre prev -> prev_ok delta m' pre prev.
Proof. intros delta m m' pre [p|] Hm H; simpl in *; auto. eapply lt_all_mono; [|exact H]. lia. Qed.

Lemma Mpre_reset : forall delta s m, Mpre delta s (m_reset s) m.
Proof. intros. exists []. simpl. repeat split; try constructor. destruct s; auto. Qed.

Lemma Minv_Mpre : forall delta s st m m', Minv delta s st m -> m <= m' -> Mpre delta s st m'.
Proof.
  intros delta s st m m' (pre & Hs & Hp & Hh & Hpv) Hm. exists pre. repeat split; auto.
  - eapply lt_all_mono; [|exact Hp]. lia.
  - eapply prev_ok_mono; eauto.
  - unfold mhead_ok in Hh. destruct (m_rest st); auto. destruct Hh as [-> _]. auto.
Qed.

Lemma madv_inv : forall delta m rest pre last prev,
  lt_all m pre -> (forall x r, rest = x :: r -> sT x < m) -> prev_ok delta m pre prev ->
  let st' := m_adv m rest last prev in
  exists pre', pre ++ rest = pre' ++ m_rest st' /\ lt_all m pre' /\ mhead_ok st' m /\
               prev_ok delta m pre' (m_prev st').
Proof.
  intros delta m rest. induction rest as [|x r IH]; intros pre last prev Hp Hx Hpv; simpl.
  - exists pre. unfold mhead_ok; simpl. auto.
  - assert (Hxm : sT x < m) by (eapply Hx; eauto).
    assert (Hp' : lt_all m (pre ++ [x])) by (apply Forall_app; split; auto).
    assert (Hsplit : pre ++ x :: r = (pre ++ [x]) ++ r) by (rewrite <- app_assoc; reflexivity).
    destruct r as [|y r'].
    + exists (pre ++ [x]). unfold mhead_ok; simpl. repeat split; auto. exists pre; auto.
    + destruct (sT y >=? m) eqn:E.
      * exists (pre ++ [x]). unfold mhead_ok; simpl. repeat split; auto. lia. exists pre; auto.
      * destruct (IH (pre ++ [x]) (Some (sT y)) (Some x) Hp') as (pre' & He & H1 & H2 & H3).
        { intros x0 r0 Hr. inversion Hr; subst. lia. }
        { exists pre; auto. }
        exists pre'. rewrite Hsplit. auto.
Qed.

Lemma mseek_inv : forall delta s st m, 0 <= delta -> sortedT s -> Mpre delta s st m ->
  Minv delta s (m_seek delta m st) m.
Proof.
  intros delta s [rest last prev] m Hdl Hs (pre & Heq & Hp & Hpv & Hl). simpl in *.
  unfold m_seek; cbn [m_rest m_last m_prev].
  destruct rest as [|y r].
  - assert (Hres : (if opt_ge last m then mkM [] last prev else mkM [] last prev) = mkM [] last prev)
      by (destruct (opt_ge last m); auto).
    simpl. rewrite Hres. exists pre. unfold mhead_ok; simpl. auto.
  - destruct (opt_lt last (m - delta)) eqn:Ej.
    + assert (Hpre0 : lt_all (m - delta) pre).
      { destruct last as [lt|]; simpl in *.
        - subst lt. apply Forall_forall. intros b Hb0.
          rewrite Heq in Hs. apply sortedT_app in Hs. destruct Hs as (_ & _ & Hlt).
          specialize (Hlt b y Hb0 (or_introl eq_refl)). lia.
        - subst pre. constructor. }
      pose proof (take_drop (fun p => sT p <? m - delta) (y :: r)) as Htd.
      pose proof (take_while_all (fun p => sT p <? m - delta) (y :: r)) as Hta.
      set (tk := take_while (fun p => sT p <? m - delta) (y :: r)) in *.
      assert (Htk : lt_all (m - delta) (pre ++ tk)).
      { apply Forall_app. split; auto. eapply Forall_impl; [|exact Hta]. simpl. intros; lia. }
      assert (Htkm : lt_all m (pre ++ tk)) by (eapply lt_all_mono; [|exact Htk]; lia).
      destruct (drop_while (fun p => sT p <? m - delta) (y :: r)) as [|y' r'] eqn:Ed.
      * exists (pre ++ tk). unfold mhead_ok; simpl. repeat split; auto.
        rewrite Heq, Htd. rewrite ?app_nil_r, <- ?app_assoc. rewrite ?app_nil_r. reflexivity.
      * assert (Hs' : pre ++ y :: r = (pre ++ tk) ++ y' :: r').
        { rewrite Htd. rewrite <- ?app_assoc. reflexivity. }
        destruct (sT y' >=? m) eqn:E.
        -- exists (pre ++ tk). unfold mhead_ok; simpl.
           split; [rewrite Heq; exact Hs'|]. split; [exact Htkm|]. split; [split; [reflexivity|lia]|exact Htk].
        -- assert (Hhd : forall x0 r0, y' :: r' = x0 :: r0 -> sT x0 < m)
             by (intros x0 r0 Hr; inversion Hr; subst; lia).
           pose proof (madv_inv delta m (y' :: r') (pre ++ tk) (Some (sT y')) None Htkm Hhd Htk) as Hadv.
           cbv zeta in Hadv. destruct Hadv as (pre' & He & H1 & H2 & H3).
           exists pre'. split; [rewrite Heq, Hs'; exact He|]. auto.
    + destruct last as [lt|]; simpl in Ej; try discriminate. subst lt.
      cbn [opt_ge]. destruct (sT y >=? m) eqn:E.
      * exists pre. unfold mhead_ok; simpl. repeat split; auto. lia.
      * assert (Hhd : forall x0 r0, y :: r = x0 :: r0 -> sT x0 < m)
          by (intros x0 r0 Hr; inversion Hr; subst; lia).
        pose proof (madv_inv delta m (y :: r) pre (Some (sT y)) prev Hp Hhd Hpv) as Hadv.
        cbv zeta in Hadv. destruct Hadv as (pre' & He & H1 & H2 & H3).
        exists pre'. split; [rewrite Heq; exact He|]. auto.
Qed.

Lemma filter_le_pre : forall (pre : list sample) m, lt_all m pre -> filter (fun p => sT p <=? m) pre = pre.
Proof.
  intros pre m H. apply filter_all. unfold lt_all in H. rewrite Forall_forall in H.
  intros x Hx. specialize (H x Hx). lia.
Qed.

Lemma vss_spec : forall lookback delta s st ref,
  0 < lookback -> lookback - 1 <= delta -> sortedT s -> Mpre delta s st ref ->
  Minv delta s (fst (vss lookback delta ref st)) ref /\
  snd (vss lookback delta ref st) = select_spec lookback s ref.
Proof.
  intros lookback delta s st ref Hlb Hdl Hs Hpre.
  assert (Hinv := mseek_inv delta s st ref ltac:(lia) Hs Hpre).
  unfold vss. set (st' := m_seek delta ref st) in *. cbn [fst snd]. split; auto.
  destruct Hinv as (pre & Heq & Hp & Hh & Hpv).
  unfold select_spec. rewrite Heq at 1. rewrite filter_app, (filter_le_pre pre ref Hp).
  pose proof Hs as Hs2. rewrite Heq in Hs2. apply sortedT_app in Hs2. destruct Hs2 as (_ & Hsr & _).
  unfold mhead_ok in Hh.
  (* the part of the rest that is <= ref: the head if it is exactly at ref *)
  assert (Hrest : filter (fun p => sT p <=? ref) (m_rest st') =
                  match m_rest st' with
                  | y :: _ => if sT y >? ref then [] else [y]
                  | [] => [] end).
  { destruct (m_rest st') as [|y r]; auto. destruct Hh as [_ Hm].
    simpl. rewrite (filter_none _ r).
    - destruct (sT y <=? ref) eqn:E1, (sT y >? ref) eqn:E2; auto; lia.
    - intros x Hx. pose proof (sorted_rest_ge r y r ref Hsr Hm x Hx). lia. }
  rewrite Hrest.
  destruct (m_rest st') as [|y r].
  - rewrite app_nil_r.
    destruct (m_prev st') as [p|]; simpl in Hpv.
    + destruct Hpv as (pre0 & ->). rewrite last_opt_app.
      destruct (sT p <=? ref - lookback) eqn:E1, (ref - lookback <? sT p) eqn:E2; simpl; auto; try lia; destruct (is_stale p); auto.
    + destruct (last_opt pre) as [p|] eqn:El; auto.
      destruct (last_opt_some _ _ El) as [Hin _]. unfold lt_all in Hpv. rewrite Forall_forall in Hpv.
      specialize (Hpv p Hin). replace (ref - lookback <? sT p) with false by lia. reflexivity.
  - destruct Hh as [_ Hm]. destruct (sT y >? ref) eqn:Ey.
    + rewrite app_nil_r.
      destruct (m_prev st') as [p|]; simpl in Hpv.
      * destruct Hpv as (pre0 & ->). rewrite last_opt_app.
        destruct (sT p <=? ref - lookback) eqn:E1, (ref - lookback <? sT p) eqn:E2; simpl; auto; try lia; destruct (is_stale p); auto.
      * destruct (last_opt pre) as [p|] eqn:El; auto.
        destruct (last_opt_some _ _ El) as [Hin _]. unfold lt_all in Hpv. rewrite Forall_forall in Hpv.
        specialize (Hpv p Hin). replace (ref - lookback <? sT p) with false by lia. reflexivity.
    + rewrite last_opt_app. replace (ref - lookback <? sT y) with true by lia. simpl. destruct (is_stale y); reflexivity.
Qed.

Lemma sel_loop_spec : forall lookback delta s offset interval,
  0 < lookback -> lookback - 1 <= delta -> 0 <= interval -> sortedT s ->
  forall n ts st, Mpre delta s st (ts - offset) ->
  sel_loop lookback delta offset interval n ts st =
  map (fun k => select_spec lookback s (ts + Z.of_nat k * interval - offset)) (seq 0 n).
Proof.
  intros lookback delta s offset interval Hlb Hdl Hi Hs. induction n as [|n IH]; intros ts st Hpre; auto.
  cbn [sel_loop]. destruct (vss_spec lookback delta s st (ts - offset) Hlb Hdl Hs Hpre) as [Hinv Hres].
  destruct (vss lookback delta (ts - offset) st) as [st' r]. cbn [fst snd] in *.
  cbn [seq map]. f_equal.
  - rewrite Hres. f_equal. lia.
  - rewrite seq_map_shift. erewrite map_ext; [apply IH|].
    + eapply Minv_Mpre; [exact Hinv|lia].
    + intros k. cbv beta. f_equal. lia.
Qed.

Theorem selector_memo : forall lookback delta s offset interval n start,
  0 < lookback -> lookback - 1 <= delta -> 0 <= interval -> sortedT s ->
  sel_steps lookback delta s offset interval n start =
  map (fun k => select_spec lookback s (start + Z.of_nat k * interval - offset)) (seq 0 n).
Proof.
  intros. unfold sel_steps. apply sel_loop_spec; auto. apply Mpre_reset.
Qed.

(* ---------------------------------------------------------------------------------------- *)
(* the expression layer                                                                      *)

Lemma nth_map_seq : forall {A} (f : nat -> A) n k dflt, (k < n)%nat -> nth k (map f (seq 0 n)) dflt = f k.
Proof.
  intros A f n k dflt Hk. rewrite (nth_indep _ dflt (f 0%nat)) by (rewrite map_length, seq_length; auto).
  rewrite map_nth. f_equal. rewrite seq_nth; auto.
Qed.

Lemma repeat_map_const : forall {A} (f : nat -> A) v n, (forall k, f k = v) -> map f (seq 0 n) = repeat v n.
Proof.
  intros A f v n H. generalize 0%nat. induction n as [|n IH]; intros a; simpl; auto. rewrite H, IH. reflexivity.
Qed.

Lemma combine_map : forall {A B C} (a : A -> B) (b : A -> C) l,
  combine (map a l) (map b l) = map (fun x => (a x, b x)) l.
Proof. induction l; simpl; congruence. Qed.

Lemma combine_seq_map : forall {A} (g : nat -> A) n,
  combine (seq 0 (length (map g (seq 0 n)))) (map g (seq 0 n)) = map (fun k => (k, g k)) (seq 0 n).
Proof.
  intros. rewrite map_length, seq_length. rewrite <- (map_id (seq 0 n)) at 1. apply combine_map.
Qed.

(* ---- the aligned grid of a subquery -------------------------------------------------------- *)

Lemma sub_start_spec : forall p off range s, 0 < s ->
  exists q, sub_start p off range s = s * q /\
            p - off - range < s * q <= p - off - range + s.
Proof.
  intros p off range s Hs. unfold sub_start. set (x := p - off - range).
  pose proof (Z.quot_rem' x s) as Hqr.
  assert (Hr : - s < Z.rem x s < s).
  { destruct (Z_le_gt_dec 0 x) as [Hx|Hx].
    - pose proof (Z.rem_bound_pos x s Hx Hs). lia.
    - assert (Hx' : x <= 0) by lia. pose proof (Z.rem_bound_pos_neg x s Hs Hx'). lia. }
  destruct (s * (x ÷ s) <=? x) eqn:E.
  - exists (x ÷ s + 1). lia.
  - exists (x ÷ s). lia.
Qed.

Lemma in_grid : forall c s n u, In u (grid c s n) <-> exists j, (j < n)%nat /\ u = c + Z.of_nat j * s.
Proof.
  intros. unfold grid. rewrite in_map_iff. split.
  - intros (j & <- & Hj). apply in_seq in Hj. exists j. split; auto. lia.
  - intros (j & Hj & ->). exists j. split; auto. apply in_seq. lia.
Qed.

Lemma grid_sorted_from : forall c s n a, 0 < s ->
  StronglySorted Z.lt (map (fun k => c + Z.of_nat k * s) (seq a n)).
Proof.
  intros c s n. induction n as [|n IH]; intros a Hs; simpl; constructor; auto.
  apply Forall_forall. intros u Hu. apply in_map_iff in Hu. destruct Hu as (j & <- & Hj).
  apply in_seq in Hj. nia.
Qed.

Lemma grid_sorted : forall c s n, 0 < s -> StronglySorted Z.lt (grid c s n).
Proof. intros. apply grid_sorted_from; auto. Qed.

Lemma sortedZ_ext : forall l1 l2 : list Z, StronglySorted Z.lt l1 -> StronglySorted Z.lt l2 ->
  (forall u, In u l1 <-> In u l2) -> l1 = l2.
Proof.
  induction l1 as [|a l1 IH]; intros l2 H1 H2 H.
  - destruct l2 as [|b l2]; auto. exfalso. apply (H b). left; auto.
  - destruct l2 as [|b l2]; [exfalso; apply (H a); left; auto|].
    inversion H1 as [|? ? Hs1 Hf1]; subst. inversion H2 as [|? ? Hs2 Hf2]; subst.
    rewrite Forall_forall in Hf1, Hf2.
    assert (a = b).
    { destruct (proj1 (H a) (or_introl eq_refl)) as [->|Ha]; auto.
      destruct (proj2 (H b) (or_introl eq_refl)) as [->|Hb]; auto.
      specialize (Hf1 b Hb). specialize (Hf2 a Ha). lia. }
    subst b. f_equal. apply IH; auto.
    intros u. split; intros Hu.
    + destruct (proj1 (H u) (or_intror Hu)) as [->|]; auto. specialize (Hf1 u Hu). lia.
    + destruct (proj2 (H u) (or_intror Hu)) as [->|]; auto. specialize (Hf2 u Hu). lia.
Qed.

Lemma sortedZ_filter : forall (q : Z -> bool) l, StronglySorted Z.lt l -> StronglySorted Z.lt (filter q l).
Proof.
  induction l as [|x l IH]; simpl; intros H; auto. inversion H as [|? ? Hs Hf]; subst.
  destruct (q x); auto. constructor; auto.
  rewrite Forall_forall in *. intros y Hy. apply filter_In in Hy. apply Hf. tauto.
Qed.

Lemma num_steps_spec : forall c b s j, 0 < s -> (Z.of_nat j < Z.of_nat (num_steps c b s) <-> c + Z.of_nat j * s <= b).
Proof.
  intros c b s j Hs. unfold num_steps. destruct (b <? c) eqn:E.
  - simpl. split; [lia|]. intros. nia.
  - assert (Hb : 0 <= b - c) by lia.
    pose proof (Z.quot_rem' (b - c) s). pose proof (Z.rem_bound_pos (b - c) s Hb Hs).
    assert (0 <= (b - c) ÷ s) by (apply Z.quot_pos; lia).
    rewrite Z2Nat.id by lia. split; intros; nia.
Qed.

(* the points of a grid starting at the first multiple of s after x0 and reaching up to b0, that
   fall into a window (a, b] inside (x0, b0], are the points of the grid built for that window *)
Lemma grid_window : forall s x0 b0 a b c0 ck,
  0 < s -> x0 <= a -> b <= b0 ->
  (exists q, c0 = s * q /\ x0 < s * q <= x0 + s) ->
  (exists q, ck = s * q /\ a < s * q <= a + s) ->
  filter (fun u => (a <? u) && (u <=? b)) (grid c0 s (num_steps c0 b0 s)) =
  filter (fun u => (a <? u) && (u <=? b)) (grid ck s (num_steps ck b s)).
Proof.
  intros s x0 b0 a b c0 ck Hs Hx Hb (q0 & -> & Hq0) (qk & -> & Hqk).
  apply sortedZ_ext; try (apply sortedZ_filter; apply grid_sorted; auto).
  intros u. rewrite !filter_In, !in_grid. split.
  - intros [(j & Hj & ->) Hw].
    assert (Hge : qk <= q0 + Z.of_nat j) by nia.
    split; auto. exists (Z.to_nat (q0 + Z.of_nat j - qk)). split.
    + apply Nat2Z.inj_lt. apply num_steps_spec; auto. rewrite Z2Nat.id by lia. nia.
    + rewrite Z2Nat.id by lia. nia.
  - intros [(j & Hj & ->) Hw].
    assert (Hge : q0 <= qk + Z.of_nat j) by nia.
    split; auto. exists (Z.to_nat (qk + Z.of_nat j - q0)). split.
    + apply Nat2Z.inj_lt. apply num_steps_spec; auto. rewrite Z2Nat.id by lia. nia.
    + rewrite Z2Nat.id by lia. nia.
Qed.

Section ExprProofs.
Variables (Sel F G L : Type).
Variable matches : Sel -> L -> bool.
Variable l_eqb : L -> L -> bool.
Variable universe : list L.
Variable wf : F -> Z -> Z -> Z -> list sample -> option Z.
Variable pf : G -> Z -> list (list (L * Z)) -> list (L * Z).
Variable safe : G -> bool.
Variable safeF : F -> bool.
Variable lookback : Z.

Notation expr := (expr Sel F G).
Notation eval_instant := (eval_instant Sel F G L matches l_eqb universe wf pf lookback).
Notation eval_range := (eval_range Sel F G L matches l_eqb universe wf pf lookback).
Notation prep := (prep Sel F G safe safeF).
Notation preprocess := (preprocess Sel F G safe safeF).

(* functions that are not in AtModifierUnsafeFunctions do not look at the evaluation time *)
Hypothesis safe_ok : forall g, safe g = true -> forall t t' args, pf g t args = pf g t' args.
(* range functions that are not in AtModifierUnsafeFunctions see the evaluation time only
   through the window boundaries *)
Hypothesis safeF_ok : forall f, safeF f = true ->
  forall mint maxt t t' w, wf f mint maxt t w = wf f mint maxt t' w.
Hypothesis lookback_pos : 0 < lookback.

Definition wf_data (d : list (L * list sample)) : Prop := forall l s, In (l, s) d -> sortedT s.

Lemma filter_map_ext_in : forall {A B} (f g : A -> option B) l,
  (forall x, In x l -> f x = g x) -> filter_map f l = filter_map g l.
Proof.
  induction l as [|x l IH]; simpl; intros H; auto.
  rewrite (H x) by auto. rewrite IH by auto. reflexivity.
Qed.

Lemma assemble_spec : forall {A} (val : A -> Z) (d : list (L * list sample)) (keep : L -> bool)
    (run : list sample -> list (option A)) k,
  assemble L val (filter_map (fun '(l, s) => if keep l then Some (l, run s) else None) d) k =
  filter_map (fun '(l, s) => if keep l then option_map (fun x => (l, val x)) (nth k (run s) None) else None) d.
Proof.
  intros A val d keep run k. unfold assemble. induction d as [|[l s] d IH]; simpl; auto.
  destruct (keep l); simpl; auto. rewrite IH. destruct (nth k (run s) None); reflexivity.
Qed.

(* source expressions covered by the theorem: positive ranges and subquery steps, an @-modified
   range selector only under an at-modifier-safe function *)
Fixpoint okexpr (e : expr) : Prop :=
  match e with
  | EVec _ _ _ _ _ _ => True
  | ECall _ _ _ f _ range _ at_ => 0 < range /\ (at_ <> None -> safeF f = true)
  | ESub _ _ _ _ e1 range sstep _ => 0 < range /\ 0 < sstep /\ okexpr e1
  | EP0 _ _ _ _ => True
  | EP1 _ _ _ _ e1 => okexpr e1
  | EP2 _ _ _ _ e1 e2 => okexpr e1 /\ okexpr e2
  | EStepInv _ _ _ _ => False
  end.

Definition tk (start interval : Z) (k : nat) : Z := start + Z.of_nat k * interval.

Definition prep_ok (d : list (L * list sample)) (e e' : expr) (i w : bool) : Prop :=
  w = i /\
  (i = true -> forall t t', eval_instant d e t = eval_instant d e t') /\
  (forall start interval n, 0 < interval -> (i = false \/ n = 1%nat) ->
     eval_range d e' start interval n = map (fun k => eval_instant d e (tk start interval k)) (seq 0 n)).

Lemma grid_tk : forall start interval n, grid start interval n = map (tk start interval) (seq 0 n).
Proof. reflexivity. Qed.

(* an argument as PreprocessExpr leaves it: wrapped when it is step invariant *)
Lemma wrapped_spec : forall d e e' i w, prep_ok d e e' i w ->
  forall start interval n, 0 < interval ->
  eval_range d (if w then EStepInv _ _ _ e' else e') start interval n =
  map (fun k => eval_instant d e (tk start interval k)) (seq 0 n).
Proof.
  intros d e e' i w (Hw & Hinv & Hev) start interval n Hi. subst w. destruct i.
  - cbn [PromqlRange.eval_range]. rewrite (Hev start interval 1%nat Hi (or_intror eq_refl)). simpl.
    symmetry. apply repeat_map_const. intros k. apply Hinv; auto.
  - apply Hev; auto.
Qed.

Lemma range_loop_first : forall range offset interval sr refetch ts st fl,
  range_loop range offset interval sr refetch true 1 ts st fl =
  range_loop range offset interval sr true true 1 ts st fl.
Proof. intros. simpl. reflexivity. Qed.


Lemma assemble_map : forall {A} (val : A -> Z) (U : list L) (run : L -> list (option A)) k,
  assemble L val (map (fun l => (l, run l)) U) k =
  filter_map (fun l => option_map (fun x => (l, val x)) (nth k (run l) None)) U.
Proof.
  intros A val U run k. unfold assemble. induction U as [|l U IH]; simpl; auto.
  rewrite IH. destruct (nth k (run l) None); reflexivity.
Qed.

Lemma points_of_map : forall l (Fv : Z -> list (L * Z)) us,
  points_of L l_eqb l us (map Fv us) =
  filter_map (fun u => option_map (mkS u) (lookup L l_eqb l (Fv u))) us.
Proof.
  intros l Fv us. unfold points_of. induction us as [|u us IH]; simpl; auto.
  rewrite IH. reflexivity.
Qed.

Lemma window_filter_map : forall (g : Z -> option sample) us a b,
  window_spec (filter_map g us) a b =
  filter_map (fun u => match g u with
                       | Some p => if in_window a b p then Some p else None
                       | None => None end) us.
Proof.
  intros g us a b. unfold window_spec. induction us as [|u us IH]; simpl; auto.
  destruct (g u) as [p|]; simpl; auto. destruct (in_window a b p); simpl; rewrite IH; reflexivity.
Qed.

Lemma filter_map_filter : forall {B} (h : Z -> option B) (q : Z -> bool) us,
  (forall u, q u = false -> h u = None) -> filter_map h us = filter_map h (filter q us).
Proof.
  intros B h q us H. induction us as [|u us IH]; simpl; auto.
  destruct (q u) eqn:E; simpl; rewrite IH; auto. rewrite (H u E). reflexivity.
Qed.

Lemma sortedT_filter_map : forall (g : Z -> option sample) us,
  StronglySorted Z.lt us -> (forall u p, g u = Some p -> sT p = u) -> sortedT (filter_map g us).
Proof.
  intros g us Hs Hg. induction us as [|u us IH]; simpl; [constructor|].
  inversion Hs as [|? ? Hs' Hf]; subst. destruct (g u) as [p|] eqn:E; [|apply IH; auto].
  constructor; [apply IH; auto|]. rewrite Forall_forall in *. intros y Hy.
  assert (Hin : exists u', In u' us /\ g u' = Some y).
  { clear -Hy. induction us as [|v us IH]; simpl in Hy; [destruct Hy|].
    destruct (g v) as [pv|] eqn:Ev.
    - destruct Hy as [<-|Hy]; [exists v; split; auto; left; auto|].
      destruct (IH Hy) as (u' & ? & ?). exists u'. split; auto. right; auto.
    - destruct (IH Hy) as (u' & ? & ?). exists u'. split; auto. right; auto. }
  destruct Hin as (u' & Hu' & Hgu'). rewrite (Hg u p E), (Hg u' y Hgu'). apply Hf; auto.
Qed.

Lemma prep_spec : forall d, wf_data d -> forall e, okexpr e ->
  forall e' i w, prep e = (e', i, w) -> prep_ok d e e' i w.
Proof.
  intros d Hd. induction e as [m off at_|f m range off at_|f e1 IH1 range sstep off| g | g e1 IH1 | g e1 IH1 e2 IH2 | ];
    intros Hok e' i w Hprep; simpl in Hok; try contradiction.
  - (* vector selector *)
    simpl in Hprep. inversion Hprep; subst; clear Hprep. split; [reflexivity|]. split.
    + intros Hi t t'. destruct at_; [reflexivity|discriminate].
    + intros start interval n Hi Hn. cbn [PromqlRange.eval_range PromqlRange.eval_instant].
      apply map_ext_in. intros k Hk. apply in_seq in Hk.
      rewrite (assemble_spec sV d (matches m)). apply filter_map_ext_in. intros [l s] Hin.
      destruct (matches m l); auto. f_equal.
      rewrite selector_memo; auto; try lia; [|eapply Hd; eauto].
      rewrite nth_map_seq by lia. unfold tk. f_equal.
      destruct at_ as [a|]; simpl.
      * destruct Hn as [Hn|Hn]; [discriminate|]. subst n. assert (k = 0%nat) by lia. subst k. lia.
      * lia.
  - (* range function over a matrix selector *)
    destruct Hok as [Hrange Hsafe].
    simpl in Hprep. inversion Hprep; subst; clear Hprep. split; [reflexivity|]. split.
    + intros Hi t t'. destruct at_ as [a|]; [|discriminate]. simpl.
      apply filter_map_ext_in. intros [l s] Hin. destruct (matches m l); auto. f_equal.
      unfold apply_wf. destruct (window_spec s (a - off - range) (a - off)); auto.
    + assert (Hn' : forall n, (match at_ with Some _ => safeF f | None => false end) = false \/ n = 1%nat ->
                    at_ = None \/ n = 1%nat).
      { intros n [H|H]; auto. destruct at_; auto. rewrite Hsafe in H; discriminate. }
      intros start interval n Hi Hn0. apply Hn' in Hn0.
      assert (Hn : (match at_ with Some _ => true | None => false end) = false \/ n = 1%nat)
        by (destruct Hn0 as [->|]; auto).
      clear Hn0 Hn'. revert Hn.
      generalize dependent n. intros n Hn.
      cbn [PromqlRange.eval_range PromqlRange.eval_instant].
      apply map_ext_in. intros k Hk. apply in_seq in Hk.
      rewrite (assemble_spec (fun x => x) d (matches m)). apply filter_map_ext_in. intros [l s] Hin.
      destruct (matches m l); auto.
      assert (Hw : range_windows s range (match at_ with Some a => off + (start - a) | None => off end)
                     interval (match at_ with Some _ => false | None => true end) n start =
                   range_windows s range (match at_ with Some a => off + (start - a) | None => off end)
                     interval true n start).
      { destruct at_; auto. destruct Hn as [Hn|Hn]; [discriminate|]. subst n.
        unfold range_windows. apply range_loop_first. }
      rewrite Hw, window_incremental; auto; [|eapply Hd; eauto].
      unfold zip_wf. rewrite combine_seq_map, map_map, nth_map_seq by lia.
      cbv zeta. unfold tk, at_or.
      assert (Heqt : match at_ with Some a => a | None => start + Z.of_nat k * interval end - off =
                     start + Z.of_nat k * interval - match at_ with Some a => off + (start - a) | None => off end).
      { destruct at_ as [a|]; [|lia].
        destruct Hn as [Hn|Hn]; [discriminate|]. subst n. assert (k = 0%nat) by lia. subst k. lia. }
      rewrite Heqt.
      match goal with |- context [apply_wf ?a ?b ?c ?d ?e ?f ?g] => destruct (apply_wf a b c d e f g) end; reflexivity.
  - (* range function over a subquery *)
    destruct Hok as (Hrange & Hsstep & Hok1).
    simpl in Hprep. destruct (prep e1) as [[e1' i1] w1] eqn:E1.
    specialize (IH1 Hok1 e1' i1 w1 eq_refl).
    inversion Hprep; subst; clear Hprep. split; [reflexivity|]. split; [discriminate|].
    intros start interval n Hi _. cbn [PromqlRange.eval_range PromqlRange.eval_instant].
    set (cstart := sub_start start off range sstep).
    set (cn := num_steps cstart (start + Z.of_nat (Init.Nat.pred n) * interval - off) sstep).
    set (Fv := eval_instant d e1).
    assert (Hvs : eval_range d (if i1 then EStepInv Sel F G e1' else e1') cstart sstep cn =
                  map Fv (grid cstart sstep cn)).
    { assert (Hw1 : w1 = i1) by (destruct IH1; auto). rewrite <- Hw1.
      rewrite (wrapped_spec d e1 e1' i1 w1 IH1 cstart sstep cn Hsstep).
      unfold grid. rewrite map_map. reflexivity. }
    rewrite Hvs.
    apply map_ext_in. intros k Hk. apply in_seq in Hk.
    rewrite (assemble_map (fun x => x) universe). apply filter_map_ext_in. intros l _.
    assert (Htag : forall u p, option_map (mkS u) (lookup L l_eqb l (Fv u)) = Some p -> sT p = u).
    { intros u p H. destruct (lookup L l_eqb l (Fv u)); inversion H; reflexivity. }
    rewrite window_incremental; auto.
    2:{ rewrite points_of_map. apply sortedT_filter_map; auto. apply grid_sorted; auto. }
    unfold zip_wf. rewrite combine_seq_map, map_map, nth_map_seq by lia. cbv zeta. fold (tk start interval k).
    assert (Hwin : window_spec (points_of L l_eqb l (grid cstart sstep cn) (map Fv (grid cstart sstep cn)))
                     (tk start interval k - off - range) (tk start interval k - off) =
                   window_spec (points_of L l_eqb l
                      (grid (sub_start (tk start interval k) off range sstep) sstep
                         (num_steps (sub_start (tk start interval k) off range sstep) (tk start interval k - off) sstep))
                      (map Fv (grid (sub_start (tk start interval k) off range sstep) sstep
                         (num_steps (sub_start (tk start interval k) off range sstep) (tk start interval k - off) sstep))))
                     (tk start interval k - off - range) (tk start interval k - off)).
    { rewrite !points_of_map, !window_filter_map.
      set (q := fun u => (tk start interval k - off - range <? u) && (u <=? tk start interval k - off)).
      rewrite (filter_map_filter _ q (grid cstart sstep cn)).
      2:{ intros u Hq. destruct (lookup L l_eqb l (Fv u)); simpl; auto.
          unfold in_window, q in *. simpl. rewrite Hq. reflexivity. }
      rewrite (filter_map_filter _ q (grid (sub_start (tk start interval k) off range sstep) sstep _)).
      2:{ intros u Hq. destruct (lookup L l_eqb l (Fv u)); simpl; auto.
          unfold in_window, q in *. simpl. rewrite Hq. reflexivity. }
      f_equal. unfold q, cn.
      apply (grid_window sstep (start - off - range)); auto.
      - unfold tk. nia.
      - unfold tk. destruct n as [|n']; [lia|]. simpl Init.Nat.pred. nia.
      - destruct (sub_start_spec start off range sstep Hsstep) as (q0 & H1 & H2). exists q0. auto.
      - destruct (sub_start_spec (tk start interval k) off range sstep Hsstep) as (q0 & H1 & H2). exists q0. auto. }
    rewrite Hwin.
    match goal with |- context [apply_wf ?a ?b ?c ?d ?e ?f ?g] => destruct (apply_wf a b c d e f g) end; reflexivity.
  - (* zero-argument pointwise function *)
    simpl in Hprep. inversion Hprep; subst; clear Hprep. split; [reflexivity|]. split.
    + intros Hi t t'. simpl. apply safe_ok; auto.
    + intros start interval n Hi Hn. cbn [PromqlRange.eval_range PromqlRange.eval_instant].
      rewrite grid_tk, map_map. reflexivity.
  - (* one-argument pointwise function *)
    simpl in Hprep. destruct (prep e1) as [[e1' i1] w1] eqn:E1.
    specialize (IH1 Hok e1' i1 w1 eq_refl).
    destruct (safe g && i1) eqn:Es; inversion Hprep; subst; clear Hprep.
    + apply andb_prop in Es. destruct Es as [Hsg ->].
      destruct IH1 as (Hw1 & Hinv1 & Hev1). split; [reflexivity|]. split.
      * intros _ t t'. simpl. rewrite (Hinv1 eq_refl t t'). apply safe_ok; auto.
      * intros start interval n Hi [Hn|Hn]; [discriminate|]. subst n.
        cbn [PromqlRange.eval_range PromqlRange.eval_instant].
        rewrite (Hev1 start interval 1%nat Hi (or_intror eq_refl)). reflexivity.
    + split; [reflexivity|]. split; [discriminate|].
      intros start interval n Hi _. cbn [PromqlRange.eval_range PromqlRange.eval_instant].
      rewrite (wrapped_spec d e1 e1' i1 w1 IH1 start interval n Hi).
      rewrite grid_tk, combine_map, map_map. reflexivity.
  - (* two-argument pointwise function *)
    destruct Hok as [Hok1 Hok2].
    simpl in Hprep. destruct (prep e1) as [[e1' i1] w1] eqn:E1. destruct (prep e2) as [[e2' i2] w2] eqn:E2.
    specialize (IH1 Hok1 e1' i1 w1 eq_refl). specialize (IH2 Hok2 e2' i2 w2 eq_refl).
    destruct (safe g && i1 && i2) eqn:Es; inversion Hprep; subst; clear Hprep.
    + apply andb_prop in Es. destruct Es as [Es ->]. apply andb_prop in Es. destruct Es as [Hsg ->].
      destruct IH1 as (Hw1 & Hinv1 & Hev1). destruct IH2 as (Hw2 & Hinv2 & Hev2).
      split; [reflexivity|]. split.
      * intros _ t t'. simpl. rewrite (Hinv1 eq_refl t t'), (Hinv2 eq_refl t t'). apply safe_ok; auto.
      * intros start interval n Hi [Hn|Hn]; [discriminate|]. subst n.
        cbn [PromqlRange.eval_range PromqlRange.eval_instant].
        rewrite (Hev1 start interval 1%nat Hi (or_intror eq_refl)).
        rewrite (Hev2 start interval 1%nat Hi (or_intror eq_refl)). reflexivity.
    + split; [reflexivity|]. split; [discriminate|].
      intros start interval n Hi _. cbn [PromqlRange.eval_range PromqlRange.eval_instant].
      rewrite (wrapped_spec d e1 e1' i1 w1 IH1 start interval n Hi).
      rewrite (wrapped_spec d e2 e2' i2 w2 IH2 start interval n Hi).
      rewrite grid_tk, !combine_map, map_map. reflexivity.
Qed.

Theorem range_eq_instant : forall d e start interval n k,
  wf_data d -> okexpr e -> 0 < interval -> (k < n)%nat ->
  nth k (eval_range d (preprocess e) start interval n) [] =
  eval_instant d e (start + Z.of_nat k * interval).
Proof.
  intros d e start interval n k Hd Hok Hi Hk. unfold PromqlRange.preprocess.
  destruct (prep e) as [[e' i] w] eqn:E.
  pose proof (prep_spec d Hd e Hok e' i w E) as Hp.
  rewrite (wrapped_spec d e e' i w Hp start interval n Hi).
  rewrite nth_map_seq by auto. reflexivity.
Qed.

(* ---- offsets ------------------------------------------------------------------------------ *)
(* add an offset to every outermost selector / subquery *)
Fixpoint shift (dl : Z) (e : expr) : expr :=
  match e with
  | EVec _ _ _ m off at_ => EVec _ _ _ m (off + dl) at_
  | ECall _ _ _ f m range off at_ => ECall _ _ _ f m range (off + dl) at_
  | ESub _ _ _ f e1 range sstep off => ESub _ _ _ f e1 range sstep (off + dl)
  | EP0 _ _ _ g => EP0 _ _ _ g
  | EP1 _ _ _ g e1 => EP1 _ _ _ g (shift dl e1)
  | EP2 _ _ _ g e1 e2 => EP2 _ _ _ g (shift dl e1) (shift dl e2)
  | EStepInv _ _ _ e1 => EStepInv _ _ _ (shift dl e1)
  end.

(* no @ modifier at the shifted level, and no function of the evaluation time *)
Fixpoint shiftable (e : expr) : Prop :=
  match e with
  | EVec _ _ _ _ _ at_ => at_ = None
  | ECall _ _ _ f _ _ _ at_ => at_ = None /\ safeF f = true
  | ESub _ _ _ f _ _ _ _ => safeF f = true
  | EP0 _ _ _ g => safe g = true
  | EP1 _ _ _ g e1 => safe g = true /\ shiftable e1
  | EP2 _ _ _ g e1 e2 => safe g = true /\ shiftable e1 /\ shiftable e2
  | EStepInv _ _ _ e1 => shiftable e1
  end.

Lemma apply_wf_safe : forall f, safeF f = true -> forall mint maxt t t' w,
  apply_wf F wf f mint maxt t w = apply_wf F wf f mint maxt t' w.
Proof. intros f Hf mint maxt t t' w. unfold apply_wf. destruct w; auto. Qed.

Theorem offset_shift : forall d e dl t, shiftable e ->
  eval_instant d (shift dl e) t = eval_instant d e (t - dl).
Proof.
  intros d e dl t. induction e as [m off at_|f m range off at_|f e1 _ range sstep off| g | g e1 IH1 | g e1 IH1 e2 IH2 | e1 IH1];
    intros Hs; simpl in Hs.
  - subst at_. simpl. replace (t - (off + dl)) with (t - dl - off) by lia. reflexivity.
  - destruct Hs as [-> Hf]. simpl. replace (t - (off + dl)) with (t - dl - off) by lia.
    apply filter_map_ext_in. intros [l s] _. destruct (matches m l); auto. f_equal.
    apply apply_wf_safe; auto.
  - cbn [shift PromqlRange.eval_instant]. unfold sub_start.
    replace (t - (off + dl)) with (t - dl - off) by lia.
    apply filter_map_ext_in. intros l _. f_equal. apply apply_wf_safe; auto.
  - simpl. apply safe_ok; auto.
  - destruct Hs as [Hg Hs1]. simpl. rewrite IH1 by auto. apply safe_ok; auto.
  - destruct Hs as (Hg & Hs1 & Hs2). simpl. rewrite IH1, IH2 by auto. apply safe_ok; auto.
  - simpl. auto.
Qed.

End ExprProofs.

(* proof/SnapshotProofs.v — lemmas about model/Snapshot.v (property C23). *)
From Coq Require Import List ZArith Bool Lia.
From Verif Require Import model.Snapshot.
Import ListNotations.
Open Scope Z_scope.

(* ------------------------------------------------------------------ discard rules *)
Definition unusable (d : dstate) : Prop :=
  d_snap d = None \/
  exists s, d_snap d = Some s /\ (d_lastseg d < sn_idx s \/ sn_ok s = false \/ d_mm_ok d = false).

Lemma usable_unusable d : unusable d -> usable true d = None.
Proof.
  intros [H | (s & H & Hs)]; unfold usable; rewrite H; [reflexivity|].
  destruct Hs as [Hs | [Hs | Hs]].
  - apply Z.ltb_lt in Hs. now rewrite Hs.
  - rewrite Hs. now destruct (d_lastseg d <? sn_idx s).
  - rewrite Hs. destruct (d_lastseg d <? sn_idx s); [reflexivity|]. now destruct (sn_ok s).
Qed.

Lemma fallback add d : unusable d -> open add true d = open add false d.
Proof.
  intros H. unfold open, open_at. rewrite (usable_unusable d H). reflexivity.
Qed.

(* the snapshot option switched off is the WAL-only restart whatever is on disk *)
Lemma open_off add d : open add false d = open add true (mkD (d_mv d) (d_lastseg d) (d_cp d) (d_wal d) (d_mm d) (d_mm_ok d) None (d_ooo d) (d_blk d) (d_univ d)).
Proof. reflexivity. Qed.

(* ------------------------------------------------------------------ exemplars *)
Section Exemplars.
Variable add_ex : list (Z * sample) -> Z * sample -> list (Z * sample).
Hypothesis add_incl : forall st e x, In x (add_ex st e) -> In x st \/ x = e.

Definition wal_exemplar (d : dstate) (x : Z * sample) : Prop :=
  exists e, In e (d_wal d) /\ w_rec e = WEx (fst x) (snd x).

Lemma fold_add_incl l : forall st x, In x (fold_left add_ex l st) -> In x st \/ In x l.
Proof.
  induction l as [|e l IH]; intros st x H; cbn in *; [now left|].
  apply IH in H. destruct H as [H | H]; [|now right; right].
  apply add_incl in H. destruct H as [H | ->]; [now left | now right; left].
Qed.

Lemma replay_ex mv es : forall h x,
  In x (h_ex (fold_left (replay_entry add_ex mv) es h)) ->
  In x (h_ex h) \/ exists e, In e es /\ w_rec e = WEx (fst x) (snd x).
Proof.
  induction es as [|e es IH]; intros h x H; cbn in *; [now left|].
  apply IH in H. destruct H as [H | (e' & He' & Hr)]; [|right; exists e'; auto].
  unfold replay_entry in H. destruct (w_rec e) as [l y | l iv | l y] eqn:Hrec; cbn in H.
  - now left.
  - destruct (snd iv <? mv); cbn in H; now left.
  - destruct (ts y <? mv); cbn in H; [now left|].
    apply add_incl in H. destruct H as [H | ->]; [now left|].
    right. exists e. split; [now left|]. exact Hrec.
Qed.

(* every exemplar present after Init comes from the snapshot (if it is used) or from an exemplar
   record of the WAL *)
Lemma open_exemplars enabled d x :
  In x (h_ex (open add_ex enabled d)) ->
  (exists s, usable enabled d = Some s /\ In x (sn_ex s)) \/ wal_exemplar d x.
Proof.
  unfold open, open_at. destruct (usable enabled d) as [s|] eqn:Hu; intros H.
  - apply replay_ex in H. destruct H as [H | (e & He & Hr)].
    + left. exists s. split; [reflexivity|]. cbn in H.
      apply fold_add_incl in H. destruct H as [[] | H]. apply filter_In in H. tauto.
    + right. exists e. split; [|exact Hr]. apply filter_In in He. tauto.
  - apply replay_ex in H. destruct H as [[] | (e & He & Hr)].
    right. exists e. split; [|exact Hr]. apply filter_In in He. tauto.
Qed.

(* along a history: whatever a restart restores was in the exemplar storage before the shutdown
   (snapshot taken at this Close), or in the storage when an older snapshot was taken, or is
   logged in the WAL (i.e. was accepted by an appender before the shutdown) *)
Lemma restart_exemplars s ec eo x :
  In x (h_ex (s_head (step add_ex s (Restart ec eo)))) ->
  (ec = true /\ In x (h_ex (s_head s))) \/
  (exists sn, s_snap s = Some sn /\ In x (sn_ex sn)) \/
  (exists e, In e (s_wal s) /\ w_rec e = WEx (fst x) (snd x)).
Proof.
  cbn [step s_head]. intros H. apply open_exemplars in H.
  destruct H as [(sn & Hu & Hx) | (e & He & Hr)].
  - unfold usable in Hu. destruct eo; [|discriminate]. cbn [durable d_snap] in Hu.
    destruct (close ec s) as [sn'|] eqn:Hc; [|discriminate].
    assert (sn' = sn) as ->.
    { destruct (_ <? _); [discriminate|]. destruct (sn_ok sn'); [|discriminate]. cbn in Hu. congruence. }
    unfold close in Hc. destruct ec.
    + left. split; [reflexivity|]. inversion Hc; subst sn. exact Hx.
    + right. left. exists sn. auto.
  - right. right. exists e. auto.
Qed.
End Exemplars.

(* ------------------------------------------------------------------ the greedy "accepted in order" list *)
(* memSeries.append keeps a sample iff it is above the newest one: from a log of samples the
   accepted ones are the greedy strictly increasing subsequence *)
Fixpoint incr (lo : Z) (w : list sample) : list sample :=
  match w with
  | [] => []
  | x :: r => if lo <? ts x then x :: incr (ts x) r else incr lo r
  end.

Lemma incr_above w : forall lo x, In x (incr lo w) -> lo < ts x.
Proof.
  induction w as [|y r IH]; intros lo x H; cbn in H; [contradiction|].
  destruct (lo <? ts y) eqn:H1.
  - destruct H as [<- | H]; [now apply Z.ltb_lt|]. apply IH in H. apply Z.ltb_lt in H1. lia.
  - now apply IH.
Qed.

Lemma filter_id {A} (f : A -> bool) l : (forall x, In x l -> f x = true) -> filter f l = l.
Proof.
  induction l as [|a l IH]; intros H; cbn; [reflexivity|].
  rewrite (H a (or_introl eq_refl)). f_equal. apply IH. intros x Hx. apply H. now right.
Qed.

Lemma incr_raise w : forall lo lo', lo <= lo' -> incr lo' w = filter (fun x => lo' <? ts x) (incr lo w).
Proof.
  induction w as [|x r IH]; intros lo lo' Hle; cbn; [reflexivity|].
  destruct (lo <? ts x) eqn:H1; destruct (lo' <? ts x) eqn:H2; cbn; rewrite ?H2.
  - f_equal. symmetry. apply filter_id. intros y Hy. apply incr_above in Hy.
    apply Z.ltb_lt. apply Z.ltb_lt in H2. lia.
  - apply Z.ltb_ge in H2. apply IH. lia.
  - apply Z.ltb_lt in H2. apply Z.ltb_ge in H1. lia.
  - apply IH. lia.
Qed.

(* filtering the log by "t >= c" first does not change which of the remaining samples are accepted *)
Lemma incr_filter_ge c w : forall lo,
  filter (fun x => c <=? ts x) (incr lo w) = incr (Z.max lo (c - 1)) (filter (fun x => c <=? ts x) w).
Proof.
  induction w as [|x r IH]; intros lo; cbn; [reflexivity|].
  destruct (lo <? ts x) eqn:H1; destruct (c <=? ts x) eqn:H2; cbn; rewrite ?H2.
  - assert (Z.max lo (c - 1) <? ts x = true) as -> by (apply Z.ltb_lt; apply Z.ltb_lt in H1; apply Z.leb_le in H2; lia).
    f_equal. rewrite IH. f_equal. apply Z.leb_le in H2. lia.
  - rewrite IH. f_equal. apply Z.ltb_lt in H1. apply Z.leb_gt in H2. lia.
  - assert (Z.max lo (c - 1) <? ts x = false) as -> by (apply Z.ltb_ge; apply Z.ltb_ge in H1; lia).
    apply IH.
  - apply IH.
Qed.

Lemma last_dflt {A} (l : list A) d d' : l <> [] -> last l d = last l d'.
Proof.
  induction l as [|a l IH]; intros H; [congruence|].
  destruct l as [|b l]; [reflexivity|]. cbn [last] in *. apply IH. discriminate.
Qed.

(* the replay of a sample log into a series that has no head chunk yet and whose mmMaxTime is M
   (resetSeriesWithMMappedChunks) keeps exactly the samples >= minValidTime accepted above M *)
Lemma replay_fold mv mm M w : forall hc,
  mm_max mm = M -> (forall x, In x hc -> M < ts x) ->
  ms_hc (fold_left (replay_sample mv) w (mkMS mm M hc)) =
    hc ++ incr (last_ts hc M) (filter (fun x => mv <=? ts x) w)
  /\ ms_mm (fold_left (replay_sample mv) w (mkMS mm M hc)) = mm.
Proof.
  induction w as [|x r IH]; intros hc HM Hhc; cbn [fold_left filter].
  - cbn. now rewrite app_nil_r.
  - unfold replay_sample at 2 4. cbn [ms_mm ms_mmMax ms_hc].
    destruct (ts x <? mv) eqn:H1.
    + assert (mv <=? ts x = false) as -> by (apply Z.leb_gt; now apply Z.ltb_lt). now apply IH.
    + assert (mv <=? ts x = true) as -> by (apply Z.leb_le; now apply Z.ltb_ge).
      cbn [incr].
      assert (Hb : M <= last_ts hc M).
      { unfold last_ts. destruct hc as [|a hc']; [cbn; lia|].
        assert (In (last (a :: hc') (M, 0)) (a :: hc')) as Hin.
        { destruct (exists_last (l := a :: hc')) as (l' & z & Hz); [discriminate|]. rewrite Hz. rewrite last_last. apply in_or_app. right. now left. }
        apply Hhc in Hin. lia. }
      assert (Hn : newest_max (mkMS mm M hc) = last_ts hc M).
      { unfold newest_max. cbn [ms_hc ms_mm]. destruct hc as [|a hc']; [cbn; exact HM|].
        unfold last_ts. f_equal. apply last_dflt. discriminate. }
      rewrite Hn.
      destruct (ts x <=? M) eqn:H2.
      * assert (last_ts hc M <? ts x = false) as -> by (apply Z.ltb_ge; apply Z.leb_le in H2; lia). now apply IH.
      * destruct (ts x <=? last_ts hc M) eqn:H3.
        -- assert (last_ts hc M <? ts x = false) as -> by (apply Z.ltb_ge; now apply Z.leb_le). now apply IH.
        -- assert (last_ts hc M <? ts x = true) as -> by (apply Z.ltb_lt; now apply Z.leb_gt).
           specialize (IH (hc ++ [x]) HM).
           destruct IH as [IH1 IH2].
           { intros y Hy. apply in_app_or in Hy. destruct Hy as [Hy | [<- | []]]; [now apply Hhc|]. apply Z.leb_gt in H2. lia. }
           split; [|exact IH2]. rewrite IH1. rewrite <- app_assoc. cbn [app]. do 2 f_equal.
           unfold last_ts. now rewrite last_last.
Qed.

(* ------------------------------------------------------------------ one series: snapshot = WAL replay *)
Fixpoint sinc (lo : Z) (l : list sample) : Prop :=
  match l with [] => True | x :: r => lo < ts x /\ sinc (ts x) r end.

Lemma incr_sinc w : forall lo, sinc lo (incr lo w).
Proof.
  induction w as [|x r IH]; intros lo; cbn; [exact I|].
  destruct (lo <? ts x) eqn:H; [split; [now apply Z.ltb_lt | apply IH] | apply IH].
Qed.

Lemma sinc_weaken l : forall lo lo', lo' <= lo -> sinc lo l -> sinc lo' l.
Proof. destruct l as [|x r]; intros lo lo' H Hs; cbn in *; [exact I|]. destruct Hs; split; [lia | assumption]. Qed.

Lemma sinc_gt l : forall lo x, sinc lo l -> In x l -> lo < ts x.
Proof.
  induction l as [|y r IH]; intros lo x Hs Hx; cbn in *; [contradiction|].
  destruct Hs as [H1 H2]. destruct Hx as [<- | Hx]; [exact H1|]. specialize (IH _ _ H2 Hx). lia.
Qed.

Lemma sinc_app a : forall lo b, sinc lo (a ++ b) -> sinc lo a /\ sinc lo b /\ (forall x y, In x a -> In y b -> ts x < ts y).
Proof.
  induction a as [|z a IH]; intros lo b H; cbn in *.
  - repeat split; [exact H | intros x y []].
  - destruct H as [H1 H2]. destruct (IH _ _ H2) as (Ha & Hb & Hab).
    repeat split; try assumption.
    + apply sinc_weaken with (ts z); [lia | exact Hb].
    + intros x y [<- | Hx] Hy; [exact (sinc_gt b (ts z) y Hb Hy) | now apply Hab].
Qed.

Lemma sinc_le_last l : forall lo x d, sinc lo l -> In x l -> ts x <= ts (last l d).
Proof.
  induction l as [|y r IH]; intros lo x d Hs Hx; [contradiction|].
  destruct Hs as [H1 H2]. destruct r as [|z r'].
  - destruct Hx as [<- | []]. cbn. lia.
  - change (last (y :: z :: r') d) with (last (z :: r') d).
    destruct Hx as [Heq | Hx]; [subst y|now apply (IH (ts y))].
    assert (ts x < ts (last (z :: r') d)); [|lia].
    apply (sinc_gt (z :: r') (ts x)); [exact H2|].
    destruct (exists_last (l := z :: r')) as (l' & w & Hw); [discriminate|]. rewrite Hw, last_last. apply in_or_app. right. now left.
Qed.

Lemma incr_bound_irrelevant l : forall lo k, (forall x, In x l -> k < ts x) -> incr (Z.max lo k) l = incr lo l.
Proof.
  induction l as [|x r IH]; intros lo k H; cbn; [reflexivity|].
  assert (Hk : k < ts x) by (apply H; now left).
  destruct (lo <? ts x) eqn:H1.
  - assert (Z.max lo k <? ts x = true) as -> by (apply Z.ltb_lt; apply Z.ltb_lt in H1; lia). reflexivity.
  - assert (Z.max lo k <? ts x = false) as -> by (apply Z.ltb_ge; apply Z.ltb_ge in H1; lia).
    apply IH. intros y Hy. apply H. now right.
Qed.

Lemma attach_fold mm0 hc l : forall acc,
  (forall c, In c l -> hc = [] \/ cmax c < cmin hc) ->
  fold_left attach l (mkMS acc mm0 hc) = mkMS (acc ++ l) mm0 hc.
Proof.
  induction l as [|c l IH]; intros acc H; cbn [fold_left]; [now rewrite app_nil_r|].
  unfold attach at 2. cbn [ms_mm ms_mmMax ms_hc].
  assert ((if negb (is_nil hc) && (cmin hc <=? cmax c) then [] else hc) = hc) as ->.
  { destruct (H c (or_introl eq_refl)) as [-> | Hlt]; [reflexivity|].
    assert (cmin hc <=? cmax c = false) as -> by (apply Z.leb_gt; exact Hlt). now rewrite andb_false_r. }
  rewrite IH; [now rewrite <- app_assoc|]. intros c' Hc'. apply H. now right.
Qed.

Lemma filter_none {A} (f : A -> bool) l : (forall x, In x l -> f x = false) -> filter f l = [].
Proof.
  induction l as [|a l IH]; intros H; cbn; [reflexivity|].
  rewrite (H a (or_introl eq_refl)). apply IH. intros x Hx. apply H. now right.
Qed.

Lemma filter_filter_same {A} (f : A -> bool) l : filter f (filter f l) = filter f l.
Proof. apply filter_id. intros x Hx. apply filter_In in Hx. tauto. Qed.

Lemma in_chunk_le_cmax lo c x : sinc lo c -> In x c -> ts x <= cmax c.
Proof. intros Hs Hx. unfold cmax, last_ts. now apply (sinc_le_last c lo). Qed.

(* One series at a clean shutdown.  [old ++ keep] are its chunk files (oldest first; [old] lie
   entirely below minValidTime and are ignored by loadMmappedChunks, [keep] are loaded), [hc] is
   the snapshotted head chunk, [w] its sample records in the WAL.  Invariant of the running head:
   the chunks followed by the head chunk are exactly the samples memSeries.append accepted, i.e.
   the greedy increasing subsequence of the log.  Then the series restored from the snapshot and
   the series rebuilt by the WAL replay show the same in-order samples from minValidTime on. *)
Theorem series_equiv mv old keep hc w :
  concat (old ++ keep) ++ hc = incr minInt64 w ->
  (forall c, In c (old ++ keep) -> c <> []) ->
  (forall c, In c old -> cmax c < mv) ->
  (forall c, In c keep -> mv <= cmax c) ->
  let a := snap_series mv hc (old ++ keep) in
  let b := fold_left (replay_sample mv) w (wal_series mv (old ++ keep)) in
  ms_hc a = hc /\ ms_mm a = keep /\ ms_mm b = keep /\
  filter (fun x => mv <=? ts x) (io_samples a) = filter (fun x => mv <=? ts x) (io_samples b).
Proof.
  intros Hinv Hne Hold Hkeep a b.
  assert (Hload : load_chunks mv (old ++ keep) = keep).
  { unfold load_chunks. rewrite filter_app, filter_none, filter_id; [reflexivity| |].
    - intros c Hc. apply Z.leb_le. now apply Hkeep.
    - intros c Hc. apply Z.leb_gt. now apply Hold. }
  assert (Hs : sinc minInt64 (concat (old ++ keep) ++ hc)) by (rewrite Hinv; apply incr_sinc).
  rewrite concat_app in Hs. rewrite <- app_assoc in Hs.
  destruct (sinc_app _ _ _ Hs) as (Hso & Hs2 & Hlt_old).
  destruct (sinc_app _ _ _ Hs2) as (Hsk & Hsh & Hlt_keep).
  (* every sample of a kept chunk is below every head chunk sample, and <= the chunk's max *)
  assert (Hchunk : forall c x, In c keep -> In x c -> In x (concat keep)).
  { intros c x Hc Hx. apply in_concat. exists c. auto. }
  assert (Hcmax_in : forall c, In c keep -> In (last c (minInt64, 0)) (concat keep)).
  { intros c Hc. apply (Hchunk c); [exact Hc|].
    assert (c <> []) as Hn by (apply Hne; apply in_or_app; now right).
    destruct (exists_last Hn) as (l' & z & ->). rewrite last_last. apply in_or_app. right. now left. }
  (* path a *)
  assert (Ha : a = mkMS keep minInt64 hc).
  { unfold a, snap_series, snap_series_at. rewrite Hload. rewrite attach_fold; [reflexivity|].
    intros c Hc. destruct hc as [|y hc']; [now left|]. right.
    unfold cmax, last_ts, cmin, first_ts. apply Hlt_keep; [now apply Hcmax_in | now left]. }
  (* path b *)
  pose proof (replay_fold mv keep (mm_max keep) w [] eq_refl) as Hb.
  destruct Hb as [Hb1 Hb2]; [intros x []|].
  assert (Hb : ms_hc b = incr (mm_max keep) (filter (fun x => mv <=? ts x) w) /\ ms_mm b = keep).
  { unfold b, wal_series. rewrite Hload. split; [exact Hb1 | exact Hb2]. }
  destruct Hb as [Hbh Hbm].
  set (M := mm_max keep) in *.
  (* M is minInt64 or the timestamp of a kept sample *)
  assert (HM : M = minInt64 /\ keep = [] \/ exists z, In z (concat keep) /\ ts z = M /\ forall c x, In c keep -> In x c -> ts x <= M).
  { unfold M, mm_max. destruct keep as [|c0 k'] eqn:Hk; [left; auto|]. right. rewrite <- Hk in *.
    assert (Hl : In (last keep []) keep).
    { rewrite Hk. destruct (exists_last (l := c0 :: k')) as (l' & z & Hz); [discriminate|]. rewrite Hz, last_last. apply in_or_app. right. now left. }
    exists (last (last keep []) (minInt64, 0)). split; [now apply Hcmax_in|]. split; [reflexivity|].
    intros c x Hc Hx. unfold cmax, last_ts.
    (* x is in concat keep, and last of last chunk is the last element of concat keep *)
    assert (Hx' : In x (concat keep)) by (now apply (Hchunk c)).
    destruct (exists_last (l := keep)) as (l' & cz & Hz); [rewrite Hk; discriminate|].
    rewrite Hz in *. rewrite last_last. rewrite concat_app in Hx', Hsk. cbn [concat] in Hx', Hsk. rewrite app_nil_r in Hx', Hsk.
    destruct (sinc_app _ _ _ Hsk) as (_ & Hscz & Hltz).
    assert (cz <> []) as Hn by (apply Hne; apply in_or_app; right; apply in_or_app; right; now left).
    apply in_app_or in Hx'. destruct Hx' as [Hx' | Hx'].
    - assert (ts x < ts (last cz (minInt64, 0))); [|lia]. apply Hltz; [exact Hx'|].
      destruct (exists_last Hn) as (l'' & z & ->). rewrite last_last. apply in_or_app. right. now left.
    - now apply (sinc_le_last cz minInt64). }
  assert (HMlo : minInt64 <= M).
  { destruct HM as [[-> _] | (z & Hz & <- & _)]; [lia|].
    assert (minInt64 < ts z); [|lia]. apply (sinc_gt (concat old ++ concat keep ++ hc) minInt64); [exact Hs|].
    apply in_or_app. right. apply in_or_app. now left. }
  assert (Hhc_gt : forall y, In y hc -> M < ts y).
  { intros y Hy. destruct HM as [[-> _] | (z & Hz & <- & _)].
    - apply (sinc_gt (concat old ++ concat keep ++ hc) minInt64); [exact Hs|]. apply in_or_app. right. apply in_or_app. now right.
    - now apply Hlt_keep. }
  (* the replayed head chunk *)
  assert (Hrep : incr M (filter (fun x => mv <=? ts x) w) = filter (fun x => mv <=? ts x) hc).
  { rewrite <- (incr_bound_irrelevant _ M (mv - 1)).
    2:{ intros x Hx. apply filter_In in Hx. destruct Hx as [_ Hx]. apply Z.leb_le in Hx. lia. }
    rewrite <- incr_filter_ge. rewrite (incr_raise w minInt64 M HMlo). rewrite <- Hinv.
    rewrite concat_app, <- app_assoc. rewrite !filter_app.
    rewrite (filter_none _ (filter _ (concat old))).
    2:{ intros x Hx. apply filter_In in Hx. destruct Hx as [Hx _]. apply in_concat in Hx. destruct Hx as (c & Hc & Hx).
        apply Z.leb_gt. assert (ts x <= cmax c); [|specialize (Hold c Hc); lia].
        apply (in_chunk_le_cmax minInt64); [|exact Hx].
        (* sinc of a chunk of old *)
        clear - Hso Hc. revert Hso. generalize minInt64. induction old as [|c1 o IH]; intros lo Hso; [contradiction|].
        cbn in Hso. destruct (sinc_app _ _ _ Hso) as (H1 & H2 & _). destruct Hc as [-> | Hc]; [exact H1 | now apply (IH Hc lo)]. }
    rewrite (filter_none _ (filter _ (concat keep))).
    2:{ intros x Hx. apply filter_In in Hx. destruct Hx as [Hx Hx2]. apply Z.ltb_lt in Hx2.
        apply in_concat in Hx. destruct Hx as (c & Hc & Hx).
        destruct HM as [[_ Hk] | (z & _ & _ & Hle)]; [rewrite Hk in Hc; contradiction|].
        specialize (Hle c x Hc Hx). lia. }
    cbn [app]. f_equal. apply filter_id. intros y Hy. apply Z.ltb_lt. now apply Hhc_gt. }
  rewrite Ha. cbn [ms_hc ms_mm]. repeat split; try assumption.
  unfold io_samples. rewrite Hbm, Hbh, Hrep. cbn [ms_mm ms_hc].
  rewrite !filter_app, filter_filter_same. reflexivity.
Qed.

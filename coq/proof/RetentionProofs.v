(* proof/RetentionProofs.v — lemmas and proofs about model/Retention.v (property C09). *)
From Coq Require Import List ZArith Bool Lia Sorting.Sorted Sorting.Permutation RelationClasses.
From Verif Require Import lib.Int64 model.Retention.
Import ListNotations.
Open Scope Z_scope.

(* ---------- generic list facts ---------- *)

Lemma memZ_In x l : memZ x l = true <-> In x l.
Proof.
  unfold memZ. rewrite existsb_exists. split.
  - intros [y [Hy He]]. apply Z.eqb_eq in He. now subst.
  - intros H. exists x. split; [assumption | apply Z.eqb_refl].
Qed.

Lemma memZ_false x l : memZ x l = false <-> ~ In x l.
Proof.
  rewrite <- memZ_In. destruct (memZ x l); split; intros H; congruence.
Qed.

Lemma NoDup_map_inj {A B} (f : A -> B) l x y :
  NoDup (map f l) -> In x l -> In y l -> f x = f y -> x = y.
Proof.
  induction l as [|a l IH]; simpl; intros Hnd Hx Hy Hf; [contradiction|].
  inversion Hnd as [|? ? Hni Hnd']; subst.
  destruct Hx as [Hx|Hx], Hy as [Hy|Hy]; subst.
  - reflexivity.
  - exfalso. apply Hni. rewrite Hf. now apply in_map.
  - exfalso. apply Hni. rewrite <- Hf. now apply in_map.
  - now apply IH.
Qed.

Lemma drop_until_suffix {A} (p : A -> bool) l : exists k, drop_until p l = skipn k l.
Proof.
  induction l as [|x r [k Hk]]; simpl.
  - now exists 0%nat.
  - destruct (p x).
    + now exists 0%nat.
    + exists (S k). exact Hk.
Qed.

Lemma drop_until_in {A} (p : A -> bool) l :
  (forall l1 x l2, l = l1 ++ x :: l2 -> p x = true -> forall y, In y l2 -> p y = true) ->
  forall y, In y (drop_until p l) <-> In y l /\ p y = true.
Proof.
  induction l as [|x r IH]; intros Hmono y; simpl.
  - tauto.
  - destruct (p x) eqn:Hpx.
    + split.
      * intros Hin. split; [exact Hin|]. destruct Hin as [->|Hin]; [exact Hpx|].
        eapply (Hmono [] x r); eauto.
      * intros [H _]. exact H.
    + rewrite IH.
      * split; [tauto|]. intros [[->|Hin] Hp]; [congruence|tauto].
      * intros l1 z l2 -> Hz w Hw. eapply (Hmono (x :: l1) z l2); eauto.
Qed.

(* ---------- sortedness ---------- *)

Definition newer_eq (a b : block) : Prop := b_maxt b <= b_maxt a.

Lemma sorted_desc_SS o : sorted_desc o = true -> StronglySorted newer_eq o.
Proof.
  intros H. apply Sorted_StronglySorted.
  - intros a b c Hab Hbc. unfold newer_eq in *. lia.
  - induction o as [|a r IH]; [constructor|].
    simpl in H. destruct r as [|b r'].
    + constructor; constructor.
    + apply andb_true_iff in H as [Hab Hr]. constructor.
      * apply IH. exact Hr.
      * constructor. unfold newer_eq. lia.
Qed.

Lemma SS_app_le l1 l2 :
  StronglySorted newer_eq (l1 ++ l2) -> forall x y, In x l1 -> In y l2 -> b_maxt y <= b_maxt x.
Proof.
  induction l1 as [|a l1 IH]; simpl; intros H x y Hx Hy; [contradiction|].
  inversion H as [|? ? Hss Hall]; subst.
  destruct Hx as [->|Hx].
  - rewrite Forall_forall in Hall. apply (Hall y). apply in_or_app. now right.
  - eapply IH; eauto.
Qed.

Lemma SS_skipn k l : StronglySorted newer_eq l -> StronglySorted newer_eq (skipn k l).
Proof.
  revert l. induction k as [|k IH]; intros l H; simpl; [exact H|].
  destruct l as [|a l]; [constructor|]. inversion H; subst. now apply IH.
Qed.

(* ---------- time retention ---------- *)

(* m is the newest MaxTime of bs *)
Definition is_newest (bs : list block) (m : Z) : Prop :=
  (exists x, In x bs /\ b_maxt x = m) /\ forall x, In x bs -> b_maxt x <= m.

Definition span_ok (bs : list block) : Prop :=
  forall x y, In x bs -> In y bs -> int64 (b_maxt x - b_maxt y).

Lemma time_exact c bs o m b :
  Permutation o bs -> sorted_desc o = true -> NoDup (map b_id bs) ->
  0 < c_dur c -> span_ok bs -> is_newest bs m -> In b bs ->
  (In (b_id b) (beyond_time c o) <-> c_dur c <= m - b_maxt b).
Proof.
  intros Hperm Hsort Hnd Hdur Hspan [[x [Hx Hxm]] Hub] Hb.
  assert (Hin : forall z, In z o <-> In z bs).
  { intros z. split; intros Hz; [eapply Permutation_in; eauto | eapply Permutation_in; [apply Permutation_sym|]; eauto]. }
  destruct o as [|b0 rest].
  { exfalso. apply Hin in Hb. exact Hb. }
  pose proof (sorted_desc_SS _ Hsort) as HSS.
  inversion HSS as [|? ? HSSr Hall]; subst. rewrite Forall_forall in Hall.
  assert (Hm : b_maxt b0 = b_maxt x).
  { assert (In b0 bs) by (apply Hin; now left).
    pose proof (Hub b0 H). apply Hin in Hx. destruct Hx as [->|Hx]; [reflexivity|].
    pose proof (Hall x Hx). unfold newer_eq in *. lia. }
  unfold beyond_time. assert (Hd0 : (c_dur c =? 0) = false) by (apply Z.eqb_neq; lia).
  rewrite Hd0.
  set (p := fun b1 : block => c_dur c <=? sub64 (b_maxt b0) (b_maxt b1)).
  assert (Hp : forall y, In y rest -> (p y = true <-> c_dur c <= b_maxt x - b_maxt y)).
  { intros y Hy. unfold p, sub64. rewrite wrap64_id.
    - rewrite Z.leb_le, Hm. tauto.
    - apply Hspan; apply Hin; [now left | now right]. }
  assert (Hmono : forall l1 z l2, rest = l1 ++ z :: l2 -> p z = true -> forall y, In y l2 -> p y = true).
  { intros l1 z l2 E Hz y Hy.
    assert (Hzr : In z rest) by (rewrite E; apply in_or_app; right; now left).
    assert (Hyr : In y rest) by (rewrite E; apply in_or_app; right; now right).
    apply Hp; [exact Hyr|]. apply Hp in Hz; [|exact Hzr].
    rewrite E in HSSr.
    assert (HSS2 : StronglySorted newer_eq (z :: l2)).
    { replace (z :: l2) with (skipn (length l1) (l1 ++ z :: l2)).
      - now apply SS_skipn.
      - rewrite skipn_app, skipn_all, Nat.sub_diag. reflexivity. }
    inversion HSS2 as [|? ? _ Hall2]; subst. rewrite Forall_forall in Hall2.
    pose proof (Hall2 y Hy) as Hle. unfold newer_eq in Hle. lia. }
  rewrite in_map_iff. split.
  - intros [b' [Hid Hb']]. apply drop_until_in in Hb'; [|exact Hmono]. destruct Hb' as [Hb'r Hpb'].
    assert (b' = b).
    { eapply (NoDup_map_inj b_id bs); eauto. apply Hin. now right. }
    subst b'. now apply Hp.
  - intros Hle. exists b. split; [reflexivity|]. apply drop_until_in; [exact Hmono|].
    apply Hin in Hb. destruct Hb as [<-|Hb].
    + exfalso. lia.
    + split; [exact Hb|]. apply Hp; [exact Hb|]. lia.
Qed.

(* ---------- size retention ---------- *)

Lemma sum_sizes_nonneg bs : (forall b, In b bs -> 0 <= b_size b) -> 0 <= sum_sizes bs.
Proof.
  induction bs as [|a r IH]; simpl; intros H; [lia|].
  assert (0 <= b_size a) by (apply H; now left).
  assert (0 <= sum_sizes r) by (apply IH; intros; apply H; now right). lia.
Qed.

Lemma size_scan_suffix m acc bs : exists k, size_scan m acc bs = skipn k bs.
Proof.
  revert acc. induction bs as [|b r IH]; intros acc; simpl.
  - now exists 0%nat.
  - destruct (m <? add64 acc (b_size b)).
    + now exists 0%nat.
    + destruct (IH (add64 acc (b_size b))) as [k Hk]. now exists (S k).
Qed.

Lemma size_scan_spec m bs : forall acc,
  0 <= acc -> (forall b, In b bs -> 0 <= b_size b) -> acc + sum_sizes bs <= maxInt64 ->
  exists k, (k <= length bs)%nat /\ size_scan m acc bs = skipn k bs /\
    (forall j, (1 <= j <= k)%nat -> acc + sum_sizes (firstn j bs) <= m) /\
    ((k < length bs)%nat -> m < acc + sum_sizes (firstn (S k) bs)).
Proof.
  induction bs as [|b r IH]; intros acc Hacc Hsz Hsum.
  - exists 0%nat. simpl. repeat split; try lia.
  - simpl in Hsum.
    assert (Hb : 0 <= b_size b) by (apply Hsz; now left).
    assert (Hr : forall b', In b' r -> 0 <= b_size b') by (intros; apply Hsz; now right).
    pose proof (sum_sizes_nonneg r Hr) as Hrn.
    assert (Hadd : add64 acc (b_size b) = acc + b_size b).
    { unfold add64. apply wrap64_id. unfold int64, minInt64 in *. unfold maxInt64 in *. lia. }
    cbn [size_scan]. rewrite Hadd. destruct (m <? acc + b_size b) eqn:Hcmp.
    + apply Z.ltb_lt in Hcmp. exists 0%nat. simpl. repeat split; try lia.
    + apply Z.ltb_ge in Hcmp.
      destruct (IH (acc + b_size b)) as [k [Hk [Hscan [Hin Hout]]]]; try lia; [exact Hr|].
      exists (S k). simpl. repeat split.
      * lia.
      * exact Hscan.
      * intros j Hj. destruct j as [|j]; [lia|]. simpl.
        destruct j as [|j].
        -- simpl. lia.
        -- specialize (Hin (S j)). assert (H1 : (1 <= S j <= k)%nat) by lia. specialize (Hin H1). lia.
      * intros Hlt. assert (H1 : (k < length r)%nat) by lia. specialize (Hout H1).
        change (firstn (S (S k)) (b :: r)) with (b :: firstn (S k) r). simpl sum_sizes. simpl in Hout. lia.
Qed.

Lemma size_prefix c o :
  0 < eff_max_bytes c -> (forall b, In b o -> 0 <= b_size b) -> 0 <= c_head c ->
  c_head c + sum_sizes o <= maxInt64 ->
  exists k, (k <= length o)%nat /\ beyond_size c o = map b_id (skipn k o) /\
    (forall j, (1 <= j <= k)%nat -> c_head c + sum_sizes (firstn j o) <= eff_max_bytes c) /\
    ((k < length o)%nat -> eff_max_bytes c < c_head c + sum_sizes (firstn (S k) o)).
Proof.
  intros Hm Hsz Hh Hsum.
  destruct (size_scan_spec (eff_max_bytes c) o (c_head c) Hh Hsz Hsum) as [k [Hk [Hscan [Hin Hout]]]].
  exists k. repeat split; try assumption.
  unfold beyond_size. destruct o as [|b r].
  - now rewrite skipn_nil.
  - assert (E : (eff_max_bytes c <=? 0) = false) by (apply Z.leb_gt; lia).
    rewrite E, Hscan. reflexivity.
Qed.

(* size retention disabled *)
Lemma size_disabled c o : eff_max_bytes c <= 0 -> beyond_size c o = [].
Proof.
  intros H. unfold beyond_size. destruct o; [reflexivity|].
  assert (E : (eff_max_bytes c <=? 0) = true) by (apply Z.leb_le; lia). now rewrite E.
Qed.

Lemma time_disabled c o : c_dur c = 0 -> beyond_time c o = [].
Proof. intros H. unfold beyond_time. destruct o; [reflexivity|]. now rewrite H. Qed.

(* ---------- both are suffixes of the sorted slice ---------- *)

Lemma beyond_time_suffix c o : exists k, beyond_time c o = map b_id (skipn k o).
Proof.
  unfold beyond_time. destruct o as [|b0 rest].
  - now exists 0%nat.
  - destruct (c_dur c =? 0).
    + exists (length (b0 :: rest)). now rewrite skipn_all.
    + destruct (drop_until_suffix (fun b => c_dur c <=? sub64 (b_maxt b0) (b_maxt b)) rest) as [k Hk].
      exists (S k). now rewrite Hk.
Qed.

Lemma beyond_size_suffix c o : exists k, beyond_size c o = map b_id (skipn k o).
Proof.
  unfold beyond_size. destruct o as [|b0 rest].
  - now exists 0%nat.
  - destruct (eff_max_bytes c <=? 0).
    + exists (length (b0 :: rest)). now rewrite skipn_all.
    + destruct (size_scan_suffix (eff_max_bytes c) (c_head c) (b0 :: rest)) as [k Hk].
      exists k. now rewrite Hk.
Qed.

Lemma in_skipn_le {A} (x : A) k1 k2 l : (k1 <= k2)%nat -> In x (skipn k2 l) -> In x (skipn k1 l).
Proof.
  revert k1 k2. induction l as [|a l IH]; intros k1 k2 Hle Hin.
  - rewrite skipn_nil in Hin. contradiction.
  - destruct k1 as [|k1], k2 as [|k2]; simpl in *; try lia; auto.
    + right. apply (IH 0%nat k2); [lia | exact Hin].
    + apply (IH k1 k2); [lia | exact Hin].
Qed.

Lemma retention_suffix c o :
  exists k, forall i, In i (beyond_time c o ++ beyond_size c o) <-> In i (map b_id (skipn k o)).
Proof.
  destruct (beyond_time_suffix c o) as [k1 H1], (beyond_size_suffix c o) as [k2 H2].
  rewrite H1, H2. exists (Nat.min k1 k2). intros i. rewrite in_app_iff, !in_map_iff.
  destruct (Nat.le_ge_cases k1 k2) as [Hle|Hle].
  - rewrite Nat.min_l by exact Hle. split.
    + intros [[x [Hi Hx]]|[x [Hi Hx]]]; exists x; split; auto. eapply in_skipn_le; eauto.
    + intros H. now left.
  - rewrite Nat.min_r by exact Hle. split.
    + intros [[x [Hi Hx]]|[x [Hi Hx]]]; exists x; split; auto. eapply in_skipn_le; eauto.
    + intros H. now right.
Qed.

Lemma retention_oldest_first c o b b' :
  sorted_desc o = true -> NoDup (map b_id o) -> In b o -> In b' o ->
  In (b_id b) (beyond_time c o ++ beyond_size c o) ->
  ~ In (b_id b') (beyond_time c o ++ beyond_size c o) ->
  b_maxt b <= b_maxt b'.
Proof.
  intros Hsort Hnd Hb Hb' Hdel Hkept.
  destruct (retention_suffix c o) as [k Hk].
  apply Hk in Hdel. rewrite Hk in Hkept.
  apply in_map_iff in Hdel as [x [Hid Hx]].
  assert (x = b).
  { eapply (NoDup_map_inj b_id o); eauto. rewrite <- (firstn_skipn k o). apply in_or_app. now right. }
  subst x.
  assert (Hb'f : In b' (firstn k o)).
  { rewrite <- (firstn_skipn k o) in Hb'. apply in_app_or in Hb' as [H|H]; [exact H|].
    exfalso. apply Hkept. now apply in_map. }
  pose proof (sorted_desc_SS _ Hsort) as HSS. rewrite <- (firstn_skipn k o) in HSS.
  eapply SS_app_le; eauto.
Qed.

(* ---------- reloadBlocks ---------- *)

Lemma insert_mint_in b x l : In x (insert_mint b l) <-> x = b \/ In x l.
Proof.
  induction l as [|a r IH]; simpl.
  - intuition.
  - destruct (b_mint b <? b_mint a); simpl; [intuition|]. rewrite IH. intuition.
Qed.

Lemma sort_mint_in x l : In x (sort_mint l) <-> In x l.
Proof.
  induction l as [|a r IH]; simpl; [tauto|].
  rewrite insert_mint_in, IH. intuition.
Qed.

Lemma parent_in_deletable c disk o blk p :
  In blk (loadable disk) -> In p (b_parents blk) -> In p (reload_deletable c disk o).
Proof.
  intros Hb Hp. unfold reload_deletable. apply in_or_app. right.
  unfold parents_of. apply in_flat_map. eauto.
Qed.

Lemma parents_removed c disk o loaded dirs blk p :
  reload c disk o = ROk loaded dirs -> In blk (loadable disk) -> In p (b_parents blk) ->
  ~ In p dirs /\ ~ In p (map b_id loaded).
Proof.
  unfold reload. intros H Hb Hp.
  destruct (filter _ (corrupted disk)); [|discriminate]. inversion H; subst; clear H.
  pose proof (parent_in_deletable c disk o blk p Hb Hp) as Hd. apply memZ_In in Hd.
  split.
  - intros Hin. apply filter_In in Hin as [_ Hn]. rewrite Hd in Hn. discriminate.
  - intros Hin. apply in_map_iff in Hin as [x [Hid Hx]]. rewrite sort_mint_in in Hx.
    apply filter_In in Hx as [_ Hn]. rewrite Hid, Hd in Hn. discriminate.
Qed.

(* what a successful reload leaves: exactly the loadable blocks that are not deletable, and
   exactly the directories that are not deletable *)
Lemma reload_exact c disk o loaded dirs :
  reload c disk o = ROk loaded dirs ->
  (forall b, In b loaded <-> In b (loadable disk) /\ ~ In (b_id b) (reload_deletable c disk o)) /\
  (forall i, In i dirs <-> In i (map d_id disk) /\ ~ In i (reload_deletable c disk o)).
Proof.
  unfold reload. intros H.
  destruct (filter _ (corrupted disk)); [|discriminate]. inversion H; subst; clear H. split.
  - intros b. rewrite sort_mint_in, filter_In, negb_true_iff, memZ_false. tauto.
  - intros i. rewrite filter_In, negb_true_iff, memZ_false. tauto.
Qed.

Lemma in_reload_deletable c disk o i :
  In i (reload_deletable c disk o) <->
  (In i (map b_id (loadable disk)) /\ In i (deletable_ids c o)) \/ In i (parents_of (loadable disk)).
Proof.
  unfold reload_deletable. rewrite in_app_iff, filter_In, memZ_In. tauto.
Qed.

Lemma in_deletable_ids c o i :
  In i (deletable_ids c o) <->
  (exists b, In b o /\ b_del b = true /\ b_id b = i) \/ In i (beyond_time c o ++ beyond_size c o).
Proof.
  unfold deletable_ids. rewrite in_app_iff, in_map_iff. split.
  - intros [[b [Hid Hb]]|H]; [left|now right]. apply filter_In in Hb as [Hb Hd]. eauto.
  - intros [[b [Hb [Hd Hid]]]|H]; [left|now right]. exists b. split; [exact Hid|]. apply filter_In. tauto.
Qed.

(* a failed reload (corrupted block without a loaded child) changes nothing; head never changes *)
Lemma reload_state_head {H} c o (s : dbstate H) : s_head (reload_state c o s) = s_head s.
Proof. unfold reload_state. destruct (reload c (s_disk s) o); reflexivity. Qed.

Lemma reload_state_err {H} c o (s : dbstate H) bad :
  reload c (s_disk s) o = RErr bad -> reload_state c o s = s.
Proof. unfold reload_state. intros ->. reflexivity. Qed.

(* ---------- a valid order always exists (the theorems quantify over a non-empty set) ---------- *)

Lemma insert_desc_perm b l : Permutation (insert_desc b l) (b :: l).
Proof.
  induction l as [|x r IH]; simpl; [reflexivity|].
  destruct (b_maxt x <? b_maxt b); [reflexivity|].
  rewrite IH. apply perm_swap.
Qed.

Lemma sort_desc_perm bs : Permutation (sort_desc bs) bs.
Proof.
  induction bs as [|b r IH]; simpl; [constructor|].
  rewrite insert_desc_perm. now constructor.
Qed.

Lemma sorted_desc_cons a b r :
  sorted_desc (a :: b :: r) = (b_maxt b <=? b_maxt a) && sorted_desc (b :: r).
Proof. reflexivity. Qed.

Lemma insert_desc_sorted b l : sorted_desc l = true -> sorted_desc (insert_desc b l) = true.
Proof.
  induction l as [|x r IH]; intros Hs; [reflexivity|].
  cbn [insert_desc]. destruct (b_maxt x <? b_maxt b) eqn:E.
  - rewrite sorted_desc_cons, Hs, andb_true_r. apply Z.leb_le. apply Z.ltb_lt in E. lia.
  - apply Z.ltb_ge in E.
    destruct r as [|y r'].
    + cbn. rewrite andb_true_r. apply Z.leb_le. lia.
    + rewrite sorted_desc_cons in Hs. apply andb_true_iff in Hs as [Hyx Hr].
      specialize (IH Hr). cbn [insert_desc] in *.
      destruct (b_maxt y <? b_maxt b) eqn:E2.
      * rewrite sorted_desc_cons, IH, andb_true_r. apply Z.leb_le. lia.
      * rewrite sorted_desc_cons, IH, andb_true_r. exact Hyx.
Qed.

Lemma sort_desc_sorted bs : sorted_desc (sort_desc bs) = true.
Proof.
  induction bs as [|b r IH]; [reflexivity|]. simpl. now apply insert_desc_sorted.
Qed.

(* ---------- size retention, independent of the tie order ---------- *)

Definition newer_or_tied (b x : block) : bool := b_maxt b <=? b_maxt x.
Definition strictly_newer (b x : block) : bool := b_maxt b <? b_maxt x.

Lemma sum_sizes_app l1 l2 : sum_sizes (l1 ++ l2) = sum_sizes l1 + sum_sizes l2.
Proof. induction l1 as [|a l1 IH]; simpl; [reflexivity|]. rewrite IH. lia. Qed.

Lemma sum_filter_perm p l l' :
  Permutation l l' -> sum_sizes (filter p l) = sum_sizes (filter p l').
Proof.
  induction 1 as [|x l l' _ IH|x y l|l l' l'' _ IH1 _ IH2]; simpl.
  - reflexivity.
  - destruct (p x); simpl; lia.
  - destruct (p x), (p y); simpl; lia.
  - lia.
Qed.

Lemma sum_filter_le p l : (forall b, In b l -> 0 <= b_size b) -> 0 <= sum_sizes (filter p l) <= sum_sizes l.
Proof.
  induction l as [|a l IH]; simpl; intros H; [lia|].
  assert (0 <= b_size a) by (apply H; now left).
  assert (0 <= sum_sizes (filter p l) <= sum_sizes l) by (apply IH; intros; apply H; now right).
  destruct (p a); simpl; lia.
Qed.

Lemma filter_all {A} (p : A -> bool) l : (forall x, In x l -> p x = true) -> filter p l = l.
Proof.
  induction l as [|a l IH]; simpl; intros H; [reflexivity|].
  rewrite (H a) by now left. f_equal. apply IH. intros; apply H; now right.
Qed.

Lemma filter_none {A} (p : A -> bool) l : (forall x, In x l -> p x = false) -> filter p l = [].
Proof.
  induction l as [|a l IH]; simpl; intros H; [reflexivity|].
  rewrite (H a) by now left. apply IH. intros; apply H; now right.
Qed.

Lemma size_tie_independent c bs o b :
  Permutation o bs -> sorted_desc o = true -> NoDup (map b_id bs) ->
  0 < eff_max_bytes c -> (forall x, In x bs -> 0 <= b_size x) -> 0 <= c_head c ->
  c_head c + sum_sizes bs <= maxInt64 -> In b bs ->
  (c_head c + sum_sizes (filter (newer_or_tied b) bs) <= eff_max_bytes c ->
     ~ In (b_id b) (beyond_size c o)) /\
  (eff_max_bytes c < c_head c + sum_sizes (filter (strictly_newer b) bs) + b_size b ->
     In (b_id b) (beyond_size c o)).
Proof.
  intros Hperm Hsort Hnd Hm Hsz Hh Hsum Hb.
  assert (Hin : forall z, In z o <-> In z bs).
  { intros z. split; intros Hz; [eapply Permutation_in; eauto | eapply Permutation_in; [apply Permutation_sym|]; eauto]. }
  assert (Hszo : forall x, In x o -> 0 <= b_size x) by (intros; apply Hsz; now apply Hin).
  assert (Hndo : NoDup (map b_id o)).
  { eapply Permutation_NoDup; [|exact Hnd]. apply Permutation_map. now apply Permutation_sym. }
  assert (Hsumo : sum_sizes o = sum_sizes bs).
  { pose proof (sum_filter_perm (fun _ => true) o bs Hperm) as E.
    rewrite !filter_all in E by reflexivity. exact E. }
  assert (Hbo : In b o) by now apply Hin.
  destruct (size_prefix c o Hm Hszo Hh ltac:(lia)) as [k [Hk [Hbs [Hwithin Hbeyond]]]].
  pose proof (sorted_desc_SS _ Hsort) as HSS.
  rewrite Hbs. split.
  - (* everything at least as new as b fits: b is kept *)
    intros Hfit Hdel.
    apply in_map_iff in Hdel as [x [Hid Hx]].
    assert (x = b).
    { eapply (NoDup_map_inj b_id o); eauto. rewrite <- (firstn_skipn k o). apply in_or_app. now right. }
    subst x.
    assert (Hklt : (k < length o)%nat).
    { destruct (Nat.lt_ge_cases k (length o)) as [H|H]; [exact H|]. rewrite skipn_all2 in Hx by exact H. contradiction. }
    specialize (Hbeyond Hklt).
    assert (Hall : forall x, In x (firstn (S k) o) -> newer_or_tied b x = true).
    { intros x Hxin. unfold newer_or_tied. apply Z.leb_le.
      rewrite <- (firstn_skipn k o) in HSS.
      destruct (skipn k o) as [|y rest] eqn:Esk; [contradiction|].
      assert (Hfs : firstn (S k) o = firstn k o ++ [y]).
      { rewrite <- (firstn_skipn k o) at 1. rewrite Esk.
        rewrite firstn_app, firstn_firstn, Nat.min_r by lia.
        rewrite firstn_length, Nat.min_l by lia.
        replace (S k - k)%nat with 1%nat by lia. reflexivity. }
      rewrite Hfs in Hxin. apply in_app_or in Hxin as [Hxin|[<-|[]]].
      - eapply SS_app_le; eauto.
      - destruct Hx as [<-|Hx]; [lia|].
        assert (HSSy : StronglySorted newer_eq (y :: rest)).
        { replace (y :: rest) with (skipn (length (firstn k o)) (firstn k o ++ y :: rest)).
          - now apply SS_skipn.
          - rewrite skipn_app, skipn_all, Nat.sub_diag. reflexivity. }
        inversion HSSy as [|? ? _ Hfa]; subst. rewrite Forall_forall in Hfa.
        apply (Hfa b Hx). }
    assert (Hle : sum_sizes (firstn (S k) o) <= sum_sizes (filter (newer_or_tied b) o)).
    { rewrite <- (firstn_skipn (S k) o) at 2. rewrite filter_app, sum_sizes_app.
      rewrite (filter_all _ _ Hall).
      assert (0 <= sum_sizes (filter (newer_or_tied b) (skipn (S k) o)) <= sum_sizes (skipn (S k) o)).
      { apply sum_filter_le. intros z Hz. apply Hszo. rewrite <- (firstn_skipn (S k) o). apply in_or_app. now right. }
      lia. }
    rewrite (sum_filter_perm _ o bs Hperm) in Hle. lia.
  - (* what is strictly newer than b, plus b, does not fit: b is deleted *)
    intros Hover.
    destruct (in_dec Z.eq_dec (b_id b) (map b_id (skipn k o))) as [Hd|Hnd']; [exact Hd|]. exfalso.
    assert (Hbf : In b (firstn k o)).
    { rewrite <- (firstn_skipn k o) in Hbo. apply in_app_or in Hbo as [H|H]; [exact H|].
      exfalso. apply Hnd'. now apply in_map. }
    apply in_split in Hbf as [l1 [l2 E]].
    assert (Eo : o = l1 ++ b :: (l2 ++ skipn k o)).
    { rewrite <- (firstn_skipn k o) at 1. rewrite E, <- app_assoc. reflexivity. }
    assert (Hlen : (S (length l1) <= k)%nat).
    { assert (length (firstn k o) = length (l1 ++ b :: l2)) by now rewrite E.
      rewrite firstn_length, app_length in H. simpl in H. lia. }
    assert (Hpre : firstn (S (length l1)) o = l1 ++ [b]).
    { rewrite Eo at 1. rewrite firstn_app, firstn_all2 by lia.
      replace (S (length l1) - length l1)%nat with 1%nat by lia. reflexivity. }
    pose proof (Hwithin (S (length l1)) ltac:(lia)) as Hw. rewrite Hpre, sum_sizes_app in Hw. simpl in Hw.
    assert (Hsn : sum_sizes (filter (strictly_newer b) o) <= sum_sizes l1).
    { rewrite Eo at 1. rewrite filter_app, sum_sizes_app.
      assert (Hnone : filter (strictly_newer b) (b :: l2 ++ skipn k o) = []).
      { apply filter_none. intros x Hxin. unfold strictly_newer. apply Z.ltb_ge.
        destruct Hxin as [<-|Hxin]; [lia|].
        rewrite Eo in HSS.
        assert (HSSb : StronglySorted newer_eq (b :: l2 ++ skipn k o)).
        { replace (b :: l2 ++ skipn k o) with (skipn (length l1) (l1 ++ b :: l2 ++ skipn k o)).
          - now apply SS_skipn.
          - rewrite skipn_app, skipn_all, Nat.sub_diag. reflexivity. }
        inversion HSSb as [|? ? _ Hfa]; subst. rewrite Forall_forall in Hfa. apply (Hfa x Hxin). }
      rewrite Hnone. simpl.
      assert (0 <= sum_sizes (filter (strictly_newer b) l1) <= sum_sizes l1).
      { apply sum_filter_le. intros z Hz. apply Hszo. rewrite Eo. apply in_or_app. now left. }
      lia. }
    rewrite (sum_filter_perm _ o bs Hperm) in Hsn. lia.
Qed.

Lemma sum_tied_split b bs :
  NoDup bs -> In b bs -> (forall x, In x bs -> b_maxt x = b_maxt b -> x = b) ->
  sum_sizes (filter (newer_or_tied b) bs) = sum_sizes (filter (strictly_newer b) bs) + b_size b.
Proof.
  induction bs as [|a r IH]; intros Hnd Hb Huniq; [contradiction|].
  inversion Hnd as [|? ? Hni Hnd']; subst.
  assert (Hext : forall l, (forall x, In x l -> b_maxt x <> b_maxt b) ->
                           filter (newer_or_tied b) l = filter (strictly_newer b) l).
  { intros l Hl. apply filter_ext_in. intros x Hx. specialize (Hl x Hx).
    unfold newer_or_tied, strictly_newer.
    destruct (b_maxt b <=? b_maxt x) eqn:E1, (b_maxt b <? b_maxt x) eqn:E2; try reflexivity;
      [apply Z.leb_le in E1; apply Z.ltb_ge in E2; lia | apply Z.leb_gt in E1; apply Z.ltb_lt in E2; lia]. }
  destruct Hb as [->|Hb].
  - simpl. unfold newer_or_tied at 1, strictly_newer at 1. rewrite Z.leb_refl, Z.ltb_irrefl. simpl.
    rewrite Hext; [lia|]. intros x Hx Heq. apply Hni. rewrite <- (Huniq x (or_intror Hx) Heq). exact Hx.
  - assert (Hne : b_maxt a <> b_maxt b).
    { intros Heq. apply Hni. rewrite (Huniq a (or_introl eq_refl) Heq). exact Hb. }
    simpl. unfold newer_or_tied at 1, strictly_newer at 1.
    specialize (IH Hnd' Hb (fun x Hx => Huniq x (or_intror Hx))).
    destruct (b_maxt b <=? b_maxt a) eqn:E1, (b_maxt b <? b_maxt a) eqn:E2; simpl; lia.
Qed.

Lemma size_exact_no_tie c bs o b :
  Permutation o bs -> sorted_desc o = true -> NoDup (map b_id bs) ->
  0 < eff_max_bytes c -> (forall x, In x bs -> 0 <= b_size x) -> 0 <= c_head c ->
  c_head c + sum_sizes bs <= maxInt64 -> In b bs ->
  (forall x, In x bs -> b_maxt x = b_maxt b -> x = b) ->
  (In (b_id b) (beyond_size c o) <->
   eff_max_bytes c < c_head c + sum_sizes (filter (strictly_newer b) bs) + b_size b).
Proof.
  intros Hperm Hsort Hnd Hm Hsz Hh Hsum Hb Huniq.
  destruct (size_tie_independent c bs o b Hperm Hsort Hnd Hm Hsz Hh Hsum Hb) as [Hkeep Hdel].
  assert (Hndb : NoDup bs) by (eapply NoDup_map_inv; eauto).
  rewrite (sum_tied_split b bs Hndb Hb Huniq) in Hkeep.
  split; [|exact Hdel]. intros Hin.
  destruct (Z.lt_ge_cases (eff_max_bytes c) (c_head c + sum_sizes (filter (strictly_newer b) bs) + b_size b)) as [H|H]; [exact H|].
  exfalso. apply Hkeep; [lia | exact Hin].
Qed.

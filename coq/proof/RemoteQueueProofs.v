(* proof/RemoteQueueProofs.v — proofs about model/RemoteQueue.v (property C40). *)
From Coq Require Import List ZArith Bool Lia.
From Verif Require Import model.RemoteQueue.
Import ListNotations.
Open Scope Z_scope.

(* ---------------------------------------------------------------- generic list lemmas *)

Lemma upd_length : forall A k (f : A -> A) l, length (upd k f l) = length l.
Proof. intros A k f l; revert k; induction l as [|x l IH]; intros [|k]; simpl; auto. Qed.

Lemma nth_error_upd : forall A k j (f : A -> A) l,
  nth_error (upd k f l) j = if Nat.eqb j k then option_map f (nth_error l k) else nth_error l j.
Proof.
  intros A k j f l; revert k j; induction l as [|x l IH]; intros k j.
  - simpl. destruct (Nat.eqb j k); destruct k, j; reflexivity.
  - destruct k, j; simpl; auto.
Qed.

Lemma nth_error_repeat : forall A (x y : A) n k, nth_error (repeat x n) k = Some y -> y = x.
Proof. intros A x y n k H. apply nth_error_In in H. apply repeat_spec in H. exact H. Qed.

Lemma fr_app : forall r a b, fr r (a ++ b) = fr r a ++ fr r b.
Proof. intros; apply filter_app. Qed.

Lemma fr_none : forall r l, (forall x, In x l -> i_ref x <> r) -> fr r l = [].
Proof.
  intros r l; induction l as [|x l IH]; intros H; simpl; auto.
  destruct (Z.eqb_spec (i_ref x) r) as [E|E].
  - exfalso. apply (H x); simpl; auto.
  - apply IH. intros y Hy. apply H; simpl; auto.
Qed.

Lemma fr_In : forall r l x, In x (fr r l) <-> In x l /\ i_ref x = r.
Proof. intros. unfold fr. rewrite filter_In. rewrite Z.eqb_eq. tauto. Qed.

Lemma nodup_by_ref : forall l, (forall r, NoDup (fr r l)) -> NoDup l.
Proof.
  induction l as [|x l IH]; intros H; constructor.
  - intro Hin. specialize (H (i_ref x)). simpl in H. rewrite Z.eqb_refl in H.
    inversion H as [|? ? Hn _]; subst. apply Hn. apply fr_In. auto.
  - apply IH. intros r. specialize (H r). simpl in H.
    destruct (i_ref x =? r); auto. inversion H; auto.
Qed.

Lemma map_inj_on : forall A B (f : A -> B) m, NoDup (map f m) ->
  forall x y, In x m -> In y m -> f x = f y -> x = y.
Proof.
  induction m as [|a m IH]; simpl; intros Hnd x y Hx Hy E; [tauto|].
  inversion Hnd as [|? ? Hn Hnd']; subst.
  destruct Hx as [->|Hx], Hy as [->|Hy]; auto.
  - exfalso. apply Hn. rewrite E. apply in_map. auto.
  - exfalso. apply Hn. rewrite <- E. apply in_map. auto.
Qed.

Lemma NoDup_map_incl : forall A B (f : A -> B) l m,
  NoDup l -> incl l m -> NoDup (map f m) -> NoDup (map f l).
Proof.
  induction l as [|x l IH]; intros m Hl Hi Hm; simpl; constructor.
  - inversion Hl as [|? ? Hn _]; subst. intro Hin. apply in_map_iff in Hin.
    destruct Hin as [y [E Hy]]. assert (y = x).
    { apply (map_inj_on _ _ f m Hm); auto. apply Hi; simpl; auto. apply Hi; simpl; auto. }
    subst. auto.
  - inversion Hl; subst. apply IH with m; auto. intros y Hy. apply Hi. simpl; auto.
Qed.

Lemma NoDup_snoc : forall A (l : list A) a, NoDup l -> ~ In a l -> NoDup (l ++ [a]).
Proof.
  induction l as [|x l IH]; intros a Hnd Hin; simpl.
  - constructor; auto.
  - inversion Hnd; subst. constructor.
    + rewrite in_app_iff. simpl. intros [H|[H|[]]]; auto. subst. apply Hin. simpl; auto.
    + apply IH; auto. intro H. apply Hin. simpl; auto.
Qed.

Lemma NoDup_app_left : forall A (a b : list A), NoDup (a ++ b) -> NoDup a.
Proof.
  induction a as [|x a IH]; intros b H; simpl in *; constructor; inversion H; subst.
  - intro Hin. apply H2. apply in_or_app; auto.
  - eapply IH; eauto.
Qed.

Lemma aget_filter_key : forall V (p : Z -> bool) k (l : list (Z * V)),
  aget k (filter (fun e => p (fst e)) l) = if p k then aget k l else None.
Proof.
  intros V p k l; induction l as [|[k' v] l IH]; simpl.
  - destruct (p k); auto.
  - destruct (p k') eqn:Ep; simpl.
    + destruct (Z.eqb_spec k' k) as [->|Ne]; [rewrite Ep; auto | exact IH].
    + destruct (Z.eqb_spec k' k) as [->|Ne]; [rewrite Ep in IH |- *; exact IH | exact IH].
Qed.

(* ---------------------------------------------------------------- the pipeline *)

Section Proofs.
  Variable relab : labels -> option labels.
  Variables (bsz nbq : nat) (ext : labels).

  (* the code as it is now (after fix dca118dfcb): old_flush = false *)
  Notation step := (step relab bsz nbq ext false).
  Notation run := (run relab bsz nbq ext false).
  Notation init := (init).

  Lemma run_snoc : forall n0 ops o, run n0 (ops ++ [o]) = step (run n0 ops) o.
  Proof. intros. unfold RemoteQueue.run. rewrite fold_left_app. reflexivity. Qed.

  (* ---------------- W: shape of the shards (unconditional) ---------------- *)

  Definition wf_shard (sf : bool) (sh : shard) : Prop :=
    (sf = false -> sh_fl sh = FNone /\ sh_exit sh = false)
    /\ q_closed (sh_q sh) = (match sh_fl sh with FClosed => true | _ => false end)
    /\ (sh_exit sh = true -> sh_infl sh = None /\ q_chan (sh_q sh) = [] /\ sh_fl sh = FClosed)
    /\ (sh_fl sh <> FNone -> q_batch (sh_q sh) = []).

  Definition W (s : st) : Prop :=
    (0 < length (shards s))%nat
    /\ forall k sh, nth_error (shards s) k = Some sh -> wf_shard (soft s) sh.

  Ltac wfin H1 H3 H4 :=
    simpl; auto; try discriminate; try congruence;
    try (let E := fresh "E" in intros E; try discriminate;
         first [ solve [destruct (H1 E) as [? ?]; auto; congruence]
               | solve [destruct (H3 E) as [? [? ?]]; auto; congruence]
               | solve [apply H4; auto; congruence]
               | congruence ]).

  Ltac wsplit := split; [|split; [|split]].

  Lemma wf_weaken : forall sf sh, wf_shard sf sh -> wf_shard true sh.
  Proof. intros sf sh [_ H]. split; [discriminate | exact H]. Qed.

  Lemma wf_new : forall sf, wf_shard sf sh_new.
  Proof. intros; wsplit; simpl; auto; try discriminate; congruence. Qed.

  Lemma wf_take : forall sf sh, wf_shard sf sh -> wf_shard sf (sh_take sh).
  Proof.
    intros sf sh Hwf. pose proof Hwf as [H1 [H2 [H3 H4]]]. unfold sh_take, runner_idle.
    destruct (sh_exit sh) eqn:Ex; simpl; [exact Hwf|].
    destruct (sh_infl sh) eqn:Ei; simpl; [exact Hwf|].
    unfold q_recv. destruct (q_chan (sh_q sh)) as [|b r] eqn:Ec.
    - destruct (q_closed (sh_q sh)) eqn:Ecl; [|exact Hwf].
      wsplit; simpl.
      + intros E. destruct (H1 E) as [F _]. rewrite F in H2. congruence.
      + rewrite Ecl. exact H2.
      + intros _. repeat split; auto. destruct (sh_fl sh); auto; discriminate.
      + exact H4.
    - wsplit; wfin H1 H3 H4.
  Qed.

  Lemma wf_timer : forall sf sh, wf_shard sf sh -> wf_shard sf (sh_timer sh).
  Proof.
    intros sf sh Hwf. pose proof Hwf as [H1 [H2 [H3 H4]]]. unfold sh_timer, runner_idle.
    destruct (sh_exit sh) eqn:Ex; simpl; [exact Hwf|].
    destruct (sh_infl sh) eqn:Ei; simpl; [exact Hwf|].
    unfold q_timer. destruct (q_chan (sh_q sh)) as [|b r] eqn:Ec.
    - destruct (q_closed (sh_q sh)) eqn:Ecl.
      + simpl. wsplit; wfin H1 H3 H4.
      + destruct (q_batch (sh_q sh)); wsplit; wfin H1 H3 H4.
    - destruct b; wsplit; wfin H1 H3 H4.
  Qed.

  Lemma wf_done : forall sf sh, wf_shard sf sh ->
    wf_shard sf (mkSh (sh_q sh) None (sh_exit sh) (sh_fl sh)).
  Proof.
    intros sf sh [H1 [H2 [H3 H4]]]. wsplit; simpl; auto.
    intros E. destruct (H3 E) as [_ [A B]]. auto.
  Qed.

  Lemma wf_flushpush : forall sh, wf_shard true sh -> wf_shard true (sh_flushpush nbq false sh).
  Proof.
    intros sh Hwf. pose proof Hwf as [H1 [H2 [H3 H4]]]. unfold sh_flushpush.
    destruct (sh_fl sh) eqn:Ef; try exact Hwf.
    unfold q_tryflush. destruct (q_batch (sh_q sh)) eqn:Eb.
    - wsplit; wfin H1 H3 H4.
    - destruct (Nat.ltb _ _); wsplit; wfin H1 H3 H4.
  Qed.

  Lemma wf_flushclose : forall sh, wf_shard true sh -> wf_shard true (sh_flushclose sh).
  Proof.
    intros sh Hwf. pose proof Hwf as [H1 [H2 [H3 H4]]]. unfold sh_flushclose.
    destruct (sh_fl sh) eqn:Ef; try exact Hwf.
    wsplit; wfin H1 H3 H4.
  Qed.

  Lemma W_upd : forall s k f,
    W s -> (forall sh, wf_shard (soft s) sh -> wf_shard (soft s) (f sh)) ->
    (0 < length (upd k f (shards s)))%nat
    /\ forall j sh, nth_error (upd k f (shards s)) j = Some sh -> wf_shard (soft s) sh.
  Proof.
    intros s k f [Hn Hw] Hf. split; [rewrite upd_length; auto|].
    intros j sh. rewrite nth_error_upd. destruct (Nat.eqb j k).
    - destruct (nth_error (shards s) k) eqn:E; simpl; [|discriminate].
      intros [= <-]. apply Hf. eapply Hw; eauto.
    - apply Hw.
  Qed.

  Lemma shard_of_lt : forall n r, (0 < n)%nat -> (shard_of n r < n)%nat.
  Proof.
    intros n r Hn. unfold shard_of.
    assert (0 <= r mod Z.of_nat n < Z.of_nat n) by (apply Z.mod_pos_bound; lia). lia.
  Qed.

  Lemma W_same : forall s s', shards s' = shards s -> soft s' = soft s -> W s -> W s'.
  Proof. unfold W; intros s s' E1 E2; rewrite E1, E2; auto. Qed.

  Lemma W_local : forall s s' k f,
    W s -> shards s' = upd k f (shards s) -> soft s' = soft s ->
    (forall sh, wf_shard (soft s) sh -> wf_shard (soft s) (f sh)) -> W s'.
  Proof.
    intros s s' k f HW E1 E2 Hf. unfold W. rewrite E1, E2. apply W_upd; auto.
  Qed.

  Lemma W_step : forall s o, W s -> W (step s o) /\ (panicked s = false -> panicked (step s o) = false).
  Proof.
    intros s o HW.
    destruct o as [ref raw seg|idx|ref t old| |k|k|k oc| |k|k| |n]; simpl.
    - unfold do_store. destruct (relab _); (split; [apply (W_same s); auto | auto]).
    - unfold do_reset. split; [apply (W_same s); auto | auto].
    - unfold do_lookup. destruct (pend s); [split; auto|].
      destruct old; [split; [apply (W_same s); auto | auto]|].
      destruct (aget ref _); [split; [apply (W_same s); auto | auto]|].
      destruct (memZ ref _); (split; [apply (W_same s); auto | auto]).
    - unfold do_enqueue. destruct (pend s) as [x|]; [|split; auto].
      destruct (soft s) eqn:Es; [split; auto|].
      destruct (nth_error (shards s) _) as [sh|] eqn:En; [|split; auto].
      pose proof HW as [Hn Hw]. pose proof (Hw _ _ En) as Hsh. rewrite Es in Hsh.
      destruct Hsh as [H1 [H2 [H3 H4]]]. destruct (H1 eq_refl) as [Hfl Hex].
      unfold q_append. rewrite H2, Hfl.
      assert (Hloc : forall q', q_closed q' = false ->
                W (mkSt (tab s) None
                     (upd (shard_of (length (shards s)) (i_ref x))
                          (fun h => mkSh q' (sh_infl h) (sh_exit h) (sh_fl h)) (shards s))
                     false (log s) (nextid s) (n_old s) (n_dropped s) (n_unint s)
                     (n_failed s) (panicked s) (fed s) (lossy s) (flushrace s))).
      { intros q' Hq'. split; simpl; [rewrite upd_length; auto|].
        intros j sh'. rewrite nth_error_upd. destruct (Nat.eqb j _).
        - rewrite En. simpl. intros [= <-]. wsplit; simpl; auto.
          + rewrite Hq', Hfl. auto.
          + intros E; congruence.
          + intros E; congruence.
        - intros E0. pose proof (Hw _ _ E0) as X. rewrite Es in X. exact X. }
      destruct (Nat.eqb _ bsz).
      + destruct (Nat.ltb _ nbq); [|split; auto].
        split; [|simpl; auto]. apply Hloc. reflexivity.
      + split; [|simpl; auto]. apply Hloc. reflexivity.
    - split; [|simpl; auto]. eapply W_local; eauto; simpl; auto. intros; apply wf_take; auto.
    - split; [|simpl; auto]. eapply W_local; eauto; simpl; auto. intros; apply wf_timer; auto.
    - unfold do_send. destruct (nth_error (shards s) k) as [sh|] eqn:En; [|split; auto].
      destruct (sh_infl sh) as [b|]; [|split; auto].
      destruct oc; (split; [|simpl; auto]).
      + eapply W_local; eauto; simpl; auto. intros; apply wf_done; auto.
      + apply (W_same s); auto.
      + eapply W_local; eauto; simpl; auto. intros; apply wf_done; auto.
    - split; [|simpl; auto]. destruct HW as [Hn Hw]. split; simpl; auto.
      intros k sh E. eapply wf_weaken; eauto.
    - destruct (soft s) eqn:Es; [|split; auto].
      split; [|simpl; auto]. eapply W_local; eauto; simpl; auto.
      rewrite Es. intros; apply wf_flushpush; auto.
    - destruct (soft s) eqn:Es; [|split; auto].
      split; [|simpl; auto]. eapply W_local; eauto; simpl; auto.
      rewrite Es. intros; apply wf_flushclose; auto.
    - destruct (soft s && negb (all_exited (shards s))) eqn:E; [|split; auto].
      split; [|simpl; auto]. destruct HW as [Hn Hw]. split; simpl; [rewrite map_length; auto|].
      intros k sh Hk. apply nth_error_In in Hk. apply in_map_iff in Hk. destruct Hk as [sh0 [<- _]].
      unfold sh_hard. wsplit; simpl; auto; discriminate.
    - destruct (soft s && all_exited (shards s) && Nat.ltb 0 n) eqn:E; [|split; auto].
      apply andb_prop in E. destruct E as [_ E]. apply Nat.ltb_lt in E.
      split; [|simpl; auto]. split; simpl; [rewrite repeat_length; auto|].
      intros k sh Hk. apply nth_error_repeat in Hk. subst. apply wf_new.
  Qed.

  Lemma W_init : forall n0, (0 < n0)%nat -> W (init n0).
  Proof.
    intros n0 H. split; simpl; [rewrite repeat_length; auto|].
    intros k sh Hk. apply nth_error_repeat in Hk. subst. apply wf_new.
  Qed.

  Lemma W_run : forall n0 ops, (0 < n0)%nat -> W (run n0 ops) /\ panicked (run n0 ops) = false.
  Proof.
    intros n0 ops H. induction ops as [|o ops IH] using rev_ind.
    - split; [apply W_init; auto | reflexivity].
    - rewrite run_snoc. destruct IH as [IW IP]. destruct (W_step (run n0 ops) o IW) as [A B]. auto.
  Qed.

  (* ---------------- Inv: exactness, while nothing is abandoned and no flush race ---------------- *)

  Definition pipe_at (shs : list shard) (k : nat) : list item :=
    match nth_error shs k with Some sh => pipe sh | None => [] end.
  Definition plist (p : option item) : list item := match p with Some x => [x] | None => [] end.

  Record InvC (shs : list shard) (fd dl : list item) (p : option item) : Prop := {
    ic_aff : forall k sh x, nth_error shs k = Some sh -> In x (pipe sh) -> shard_of (length shs) (i_ref x) = k;
    ic_exact : forall r, fr r fd = fr r dl ++ fr r (pipe_at shs (shard_of (length shs) r)) ++ fr r (plist p)
  }.

  Definition Inv (s : st) : Prop := InvC (shards s) (fed s) (delivered (log s)) (pend s).

  Lemma pipe_at_upd : forall shs k f j,
    (forall sh, nth_error shs k = Some sh -> pipe (f sh) = pipe sh) ->
    pipe_at (upd k f shs) j = pipe_at shs j.
  Proof.
    intros shs k f j H. unfold pipe_at. rewrite nth_error_upd.
    destruct (Nat.eqb_spec j k) as [->|Ne]; auto.
    destruct (nth_error shs k) eqn:E; simpl; auto.
  Qed.

  Lemma invc_local : forall shs fd dl p k f,
    InvC shs fd dl p ->
    (forall sh, nth_error shs k = Some sh -> pipe (f sh) = pipe sh) ->
    InvC (upd k f shs) fd dl p.
  Proof.
    intros shs fd dl p k f [Ha He] Hf. split; rewrite upd_length.
    - intros j sh x. rewrite nth_error_upd. destruct (Nat.eqb_spec j k) as [->|Ne].
      + destruct (nth_error shs k) as [sh0|] eqn:E; simpl; [|discriminate].
        intros [= <-]. rewrite (Hf sh0 eq_refl). apply Ha; auto.
      + apply Ha.
    - intros r. rewrite pipe_at_upd; auto.
  Qed.

  Lemma invc_enqueue : forall shs fd dl x sh f,
    InvC shs fd dl (Some x) -> (0 < length shs)%nat ->
    nth_error shs (shard_of (length shs) (i_ref x)) = Some sh ->
    pipe (f sh) = pipe sh ++ [x] ->
    InvC (upd (shard_of (length shs) (i_ref x)) f shs) fd dl None.
  Proof.
    intros shs fd dl x sh f [Ha He] Hn En Hp. split; rewrite upd_length.
    - intros j sh' y. rewrite nth_error_upd.
      destruct (Nat.eqb_spec j (shard_of (length shs) (i_ref x))) as [->|Ne].
      + rewrite En. simpl. intros [= <-]. rewrite Hp. intros Hin. apply in_app_or in Hin.
        destruct Hin as [Hin|[<-|[]]]; auto. eapply Ha; eauto.
      + apply Ha.
    - intros r. rewrite (He r). unfold pipe_at. rewrite nth_error_upd.
      destruct (Nat.eqb_spec (shard_of (length shs) r) (shard_of (length shs) (i_ref x))) as [Eq|Ne].
      + rewrite Eq, En. simpl option_map. cbv iota. rewrite Hp, fr_app. simpl plist.
        change (fr r []) with (@nil item). rewrite app_nil_r. reflexivity.
      + simpl plist. assert (fr r [x] = []) as ->.
        { apply fr_none. intros y [<-|[]] E. apply Ne. rewrite E. reflexivity. }
        reflexivity.
  Qed.

  Lemma invc_send_ok : forall shs fd dl p k sh f b,
    InvC shs fd dl p -> nth_error shs k = Some sh -> pipe sh = b ++ pipe (f sh) ->
    InvC (upd k f shs) fd (dl ++ b) p.
  Proof.
    intros shs fd dl p k sh f b [Ha He] En Hp. split; rewrite upd_length.
    - intros j sh' y. rewrite nth_error_upd. destruct (Nat.eqb_spec j k) as [->|Ne].
      + rewrite En. simpl. intros [= <-] Hin. apply (Ha k sh); auto. rewrite Hp. apply in_or_app; auto.
      + apply Ha.
    - intros r. rewrite (He r), fr_app. unfold pipe_at. rewrite nth_error_upd.
      destruct (Nat.eqb_spec (shard_of (length shs) r) k) as [Eq|Ne].
      + rewrite Eq, En. simpl option_map. cbv iota. rewrite Hp, fr_app.
        rewrite <- !app_assoc. reflexivity.
      + assert (fr r b = []) as ->.
        { apply fr_none. intros y Hy E. apply Ne. rewrite <- E. apply (Ha k sh); auto.
          rewrite Hp. apply in_or_app; auto. }
        rewrite app_nil_r. reflexivity.
  Qed.

  Lemma invc_lookup : forall shs fd dl x, InvC shs fd dl None -> InvC shs (fd ++ [x]) dl (Some x).
  Proof.
    intros shs fd dl x [Ha He]. split; auto.
    intros r. rewrite fr_app, (He r). simpl plist. simpl (fr r []). rewrite app_nil_r, <- app_assoc. reflexivity.
  Qed.

  Lemma invc_start : forall shs fd dl p n,
    InvC shs fd dl p -> (forall k sh, nth_error shs k = Some sh -> pipe sh = []) ->
    InvC (repeat sh_new n) fd dl p.
  Proof.
    intros shs fd dl p n [Ha He] Hempty. split.
    - intros k sh x Hk. apply nth_error_repeat in Hk. subst. simpl. tauto.
    - intros r. rewrite (He r).
      assert (forall shs', (forall k sh, nth_error shs' k = Some sh -> pipe sh = []) ->
                forall k, pipe_at shs' k = []) as Hz.
      { intros shs' H k. unfold pipe_at. destruct (nth_error shs' k) eqn:E; auto. eapply H; eauto. }
      rewrite (Hz shs Hempty). rewrite Hz; auto.
      intros k sh Hk. apply nth_error_repeat in Hk. subst. reflexivity.
  Qed.

  (* shard-local steps leave the shard's pipe as it is *)
  Lemma pipe_take : forall sf sh, wf_shard sf sh -> pipe (sh_take sh) = pipe sh.
  Proof.
    intros sf sh [H1 [H2 [H3 H4]]]. unfold sh_take, runner_idle.
    destruct (sh_exit sh) eqn:Ex; simpl; auto.
    destruct (sh_infl sh) eqn:Ei; simpl; auto.
    unfold q_recv. destruct (q_chan (sh_q sh)) as [|b r] eqn:Ec.
    - destruct (q_closed (sh_q sh)); auto.
      unfold pipe, infl_list, eff_batch. simpl. rewrite Ei, Ec. reflexivity.
    - unfold pipe, infl_list, eff_batch. simpl. rewrite Ei, Ec. simpl. rewrite app_assoc. reflexivity.
  Qed.

  Lemma pipe_timer : forall sf sh, wf_shard sf sh -> stale_take sh = false -> pipe (sh_timer sh) = pipe sh.
  Proof.
    intros sf sh [H1 [H2 [H3 H4]]] Hst. unfold sh_timer. unfold stale_take in Hst.
    destruct (runner_idle sh) eqn:Eidle; simpl; auto.
    unfold runner_idle in Eidle. apply andb_prop in Eidle. destruct Eidle as [Ex Ei].
    destruct (sh_infl sh) eqn:Ei'; [discriminate|].
    unfold q_timer. destruct (q_chan (sh_q sh)) as [|b r] eqn:Ec.
    - destruct (q_closed (sh_q sh)) eqn:Ecl.
      + unfold pipe, infl_list, eff_batch. simpl. rewrite Ei', Ec. reflexivity.
      + destruct (sh_fl sh) eqn:Ef; try discriminate.
        * destruct (q_batch (sh_q sh)) eqn:Eb; unfold pipe, infl_list, eff_batch; simpl;
            rewrite ?Ei', ?Ec, ?Ef, ?Eb; simpl; rewrite ?app_nil_r; reflexivity.
        * simpl in Hst. destruct (q_batch (sh_q sh)) eqn:Eb; [|discriminate].
          unfold pipe, infl_list, eff_batch; simpl. rewrite ?Ei', ?Ec, ?Ef. reflexivity.
    - destruct b; unfold pipe, infl_list, eff_batch; simpl; rewrite ?Ei', ?Ec; simpl;
        rewrite ?app_assoc; reflexivity.
  Qed.

  Lemma pipe_flushpush : forall sh, pipe (sh_flushpush nbq false sh) = pipe sh.
  Proof.
    intros sh. unfold sh_flushpush. destruct (sh_fl sh) eqn:Ef; auto.
    unfold q_tryflush. destruct (q_batch (sh_q sh)) eqn:Eb.
    - unfold pipe, infl_list, eff_batch; simpl. rewrite Ef, Eb. reflexivity.
    - destruct (Nat.ltb _ _); unfold pipe, infl_list, eff_batch; simpl; rewrite ?Ef, ?Eb; auto.
      rewrite concat_app. simpl. rewrite !app_nil_r. reflexivity.
  Qed.

  Lemma pipe_flushclose : forall sh, pipe (sh_flushclose sh) = pipe sh.
  Proof.
    intros sh. unfold sh_flushclose. destruct (sh_fl sh) eqn:Ef; auto.
    unfold pipe, infl_list, eff_batch; simpl. rewrite Ef. reflexivity.
  Qed.

  Lemma exited_pipe_empty : forall sf sh, wf_shard sf sh -> sh_exit sh = true -> pipe sh = [].
  Proof.
    intros sf sh [H1 [H2 [H3 H4]]] Ex. destruct (H3 Ex) as [A [B C]].
    unfold pipe, infl_list, eff_batch. rewrite A, B, C. reflexivity.
  Qed.

  Lemma delivered_snoc : forall lg b oc,
    delivered (lg ++ [(b, oc)]) = delivered lg ++ match oc with Ok => b | _ => [] end.
  Proof.
    intros. unfold delivered. rewrite flat_map_app. simpl. rewrite app_nil_r. reflexivity.
  Qed.

  Lemma step_inv : forall s o, W s -> Inv s ->
    lossy (step s o) = false -> flushrace (step s o) = false -> Inv (step s o).
  Proof.
    intros s o HW HI. pose proof HW as [Hn Hw]. unfold Inv in *.
    destruct o as [ref raw seg|idx|ref t old| |k|k|k oc| |k|k| |n]; simpl.
    - unfold do_store. destruct (relab _); simpl; auto.
    - unfold do_reset. simpl; auto.
    - unfold do_lookup. destruct (pend s) eqn:Ep; [intros _ _; rewrite Ep; exact HI|].
      destruct old; simpl; [auto|].
      destruct (aget ref _); simpl.
      + intros _ _. apply invc_lookup. exact HI.
      + destruct (memZ ref _); simpl; auto.
    - unfold do_enqueue. destruct (pend s) as [x|] eqn:Ep; [|intros _ _; rewrite Ep; exact HI].
      destruct (soft s) eqn:Es; [rewrite Ep; auto|].
      destruct (nth_error (shards s) _) as [sh|] eqn:En; [|rewrite Ep; auto].
      pose proof (Hw _ _ En) as Hsh.
      destruct Hsh as [H1 [H2 [H3 H4]]]. destruct (H1 eq_refl) as [Hfl Hex].
      unfold q_append. rewrite H2, Hfl.
      destruct (Nat.eqb _ bsz).
      + destruct (Nat.ltb _ nbq); [|rewrite Ep; auto]. simpl. intros _ _.
        eapply invc_enqueue; eauto.
        unfold pipe, infl_list, eff_batch; simpl. rewrite Hfl. rewrite concat_app. simpl.
        rewrite !app_nil_r. rewrite <- !app_assoc. reflexivity.
      + simpl. intros _ _. eapply invc_enqueue; eauto.
        unfold pipe, infl_list, eff_batch; simpl. rewrite Hfl. rewrite <- !app_assoc. reflexivity.
    - intros _ _. apply invc_local; auto. intros sh E. eapply pipe_take; eauto.
    - unfold do_timer. simpl. intros _ Hfr. apply orb_false_elim in Hfr. destruct Hfr as [_ Hfr].
      apply invc_local; auto. intros sh E. rewrite E in Hfr. eapply pipe_timer; eauto.
    - unfold do_send. destruct (nth_error (shards s) k) as [sh|] eqn:En; auto.
      destruct (sh_infl sh) as [b|] eqn:Ei; auto.
      destruct oc; simpl.
      + intros _ _. rewrite delivered_snoc. eapply invc_send_ok; eauto.
        unfold pipe, infl_list; simpl. rewrite Ei. reflexivity.
      + intros _ _. rewrite delivered_snoc, app_nil_r. auto.
      + discriminate.
    - auto.
    - destruct (soft s); simpl; auto. intros _ _. apply invc_local; auto.
      intros; apply pipe_flushpush.
    - destruct (soft s); simpl; auto. intros _ _. apply invc_local; auto.
      intros; apply pipe_flushclose.
    - destruct (soft s && negb (all_exited (shards s))); simpl; auto. discriminate.
    - destruct (soft s && all_exited (shards s) && Nat.ltb 0 n) eqn:E; simpl; auto.
      intros _ _. apply andb_prop in E. destruct E as [E _]. apply andb_prop in E. destruct E as [_ E].
      eapply invc_start; eauto. intros j sh Ej. eapply exited_pipe_empty; eauto.
      unfold all_exited in E. rewrite forallb_forall in E. apply E. eapply nth_error_In; eauto.
  Qed.

  Lemma lossy_mono : forall s o, lossy s = true -> lossy (step s o) = true.
  Proof.
    intros s o H. destruct o; simpl; auto.
    - unfold do_store. destruct (relab _); auto.
    - unfold do_lookup. destruct (pend s); auto. destruct old; auto.
      destruct (aget _ _); auto. destruct (memZ _ _); auto.
    - unfold do_enqueue. destruct (pend s); auto. destruct (soft s); auto.
      destruct (nth_error _ _); auto. destruct (q_append _ _ _ _) as [q' []]; auto.
    - unfold do_send. destruct (nth_error _ _); auto. destruct (sh_infl _); auto. destruct oc; auto.
    - destruct (soft s); auto.
    - destruct (soft s); auto.
    - destruct (soft s && _); auto.
    - destruct (soft s && _ && _); auto.
  Qed.

  Lemma flushrace_mono : forall s o, flushrace s = true -> flushrace (step s o) = true.
  Proof.
    intros s o H. destruct o; simpl; auto.
    - unfold do_store. destruct (relab _); auto.
    - unfold do_lookup. destruct (pend s); auto. destruct old; auto.
      destruct (aget _ _); auto. destruct (memZ _ _); auto.
    - unfold do_enqueue. destruct (pend s); auto. destruct (soft s); auto.
      destruct (nth_error _ _); auto. destruct (q_append _ _ _ _) as [q' []]; auto.
    - rewrite H. reflexivity.
    - unfold do_send. destruct (nth_error _ _); auto. destruct (sh_infl _); auto. destruct oc; auto.
    - destruct (soft s); auto.
    - destruct (soft s); auto.
    - destruct (soft s && _); auto.
    - destruct (soft s && _ && _); auto.
  Qed.

  Lemma Inv_init : forall n0, Inv (init n0).
  Proof.
    intros n0. split; simpl.
    - intros k sh x Hk. apply nth_error_repeat in Hk. subst. simpl. tauto.
    - intros r. unfold pipe_at. destruct (nth_error _ _) eqn:E; auto.
      apply nth_error_repeat in E. subst. reflexivity.
  Qed.

  Lemma Inv_run : forall n0 ops, (0 < n0)%nat ->
    lossy (run n0 ops) = false -> flushrace (run n0 ops) = false -> Inv (run n0 ops).
  Proof.
    intros n0 ops Hn. induction ops as [|o ops IH] using rev_ind; intros HL HF.
    - apply Inv_init.
    - rewrite run_snoc in *. destruct (W_run n0 ops Hn) as [HW _].
      apply step_inv; auto. apply IH.
      + destruct (lossy (run n0 ops)) eqn:E; auto. rewrite (lossy_mono _ o E) in HL. discriminate.
      + destruct (flushrace (run n0 ops)) eqn:E; auto. rewrite (flushrace_mono _ o E) in HF. discriminate.
  Qed.

  (* ---------------- ids: positions in the feed ---------------- *)

  Ltac case_step :=
    repeat match goal with
           | |- context [match ?x with _ => _ end] => destruct x eqn:?; simpl
           end.

  Lemma fed_step : forall s o,
    (fed (step s o) = fed s /\ nextid s <= nextid (step s o))
    \/ (exists x, fed (step s o) = fed s ++ [x] /\ i_id x = nextid s /\ nextid (step s o) = nextid s + 1).
  Proof.
    intros s o. destruct o; simpl;
      unfold do_store, do_reset, do_lookup, do_enqueue, do_timer, do_send, do_soft, set_tab, set_shards;
      case_step; try (left; split; [reflexivity | lia]).
    right. eexists. split; [reflexivity|]. simpl. split; [reflexivity | lia].
  Qed.

  Definition FedInv (s : st) : Prop :=
    NoDup (map i_id (fed s)) /\ Forall (fun x => i_id x < nextid s) (fed s).

  Lemma FedInv_run : forall n0 ops, FedInv (run n0 ops).
  Proof.
    intros n0 ops. induction ops as [|o ops IH] using rev_ind.
    - split; simpl; constructor.
    - rewrite run_snoc. destruct IH as [Hnd Hlt].
      destruct (fed_step (run n0 ops) o) as [[E1 E2]|[x [E1 [E2 E3]]]].
      + split; rewrite E1; auto. eapply Forall_impl; [|exact Hlt]. simpl. intros; lia.
      + split; rewrite E1.
        * rewrite map_app. simpl. apply NoDup_snoc; auto.
          intro Hin. apply in_map_iff in Hin. destruct Hin as [y [Ey Hy]].
          rewrite Forall_forall in Hlt. specialize (Hlt y Hy). lia.
        * apply Forall_app. split.
          -- eapply Forall_impl; [|exact Hlt]. simpl. intros; lia.
          -- constructor; [lia|constructor].
  Qed.

  (* droppedSamplesTotal accounts for every sample Append did not accept *)
  Lemma accounting_run : forall n0 ops, let s := run n0 ops in
    nextid s = Z.of_nat (length (fed s)) + n_old s + n_dropped s + n_unint s.
  Proof.
    intros n0 ops. induction ops as [|o ops IH] using rev_ind; [reflexivity|].
    simpl in *. rewrite run_snoc. remember (run n0 ops) as s. clear Heqs.
    destruct o; simpl;
      unfold do_store, do_reset, do_lookup, do_enqueue, do_timer, do_send, do_soft, set_tab, set_shards;
      case_step; rewrite ?app_length; simpl; try lia.
  Qed.

  (* ---------------- provenance: what is sent stems from a stored, kept series ---------------- *)

  Definition prov (ops : list op) (x : item) : Prop :=
    exists raw seg, In (OStore (i_ref x) raw seg) ops /\ relab (add_ext ext raw) = Some (i_lbl x).

  Definition phys (sh : shard) : list item :=
    infl_list sh ++ concat (q_chan (sh_q sh)) ++ q_batch (sh_q sh).

  Record K (ops : list op) (s : st) : Prop := {
    k_tab : forall r l, aget r (t_lbl (tab s)) = Some l ->
            exists raw seg, In (OStore r raw seg) ops /\ relab (add_ext ext raw) = Some l;
    k_fed : forall x, In x (fed s) -> prov ops x;
    k_phys : forall sh x, In sh (shards s) -> In x (phys sh) -> In x (fed s);
    k_log : forall x, In x (attempted (log s)) -> In x (fed s);
    k_pend : forall x, pend s = Some x -> In x (fed s)
  }.

  Lemma in_upd : forall A k (f : A -> A) l y, In y (upd k f l) -> In y l \/ exists x, In x l /\ y = f x.
  Proof.
    intros A k f l; revert k; induction l as [|a l IH]; intros [|k] y; simpl; auto.
    - intros [<-|H]; eauto.
    - intros [<-|H]; auto. destruct (IH _ _ H) as [H'|[x [Hx ->]]]; eauto.
  Qed.

  Lemma prov_mono : forall ops o x, prov ops x -> prov (ops ++ [o]) x.
  Proof. intros ops o x [raw [seg [H1 H2]]]. exists raw, seg. split; auto. apply in_or_app; auto. Qed.

  Ltac incl_tac :=
    unfold phys, infl_list; simpl; intros ?y; rewrite ?concat_app; simpl; rewrite ?app_nil_r;
    rewrite ?in_app_iff; simpl; rewrite ?app_nil_r; rewrite ?in_app_iff; simpl; tauto.

  Lemma phys_take : forall sh, incl (phys (sh_take sh)) (phys sh).
  Proof.
    intros sh. unfold sh_take. destruct (negb (runner_idle sh)) eqn:Ei; [apply incl_refl|].
    unfold runner_idle in Ei. destruct (sh_exit sh); [discriminate|].
    destruct (sh_infl sh) eqn:Einf; [discriminate|].
    unfold q_recv. destruct (q_chan (sh_q sh)) eqn:Ec.
    - destruct (q_closed (sh_q sh)); [|apply incl_refl]. unfold phys, infl_list; simpl. rewrite Einf, Ec. apply incl_refl.
    - unfold phys, infl_list; simpl. rewrite Einf, Ec. incl_tac.
  Qed.

  Lemma phys_timer : forall sh, incl (phys (sh_timer sh)) (phys sh).
  Proof.
    intros sh. unfold sh_timer. destruct (negb (runner_idle sh)) eqn:Ei; [apply incl_refl|].
    unfold runner_idle in Ei. destruct (sh_exit sh); [discriminate|].
    destruct (sh_infl sh) eqn:Einf; [discriminate|].
    unfold q_timer. destruct (q_chan (sh_q sh)) as [|b r] eqn:Ec.
    - destruct (q_closed (sh_q sh)).
      + unfold phys, infl_list; simpl. rewrite Einf, Ec. apply incl_refl.
      + destruct (q_batch (sh_q sh)) eqn:Eb; unfold phys, infl_list; simpl; rewrite ?Einf, ?Ec, ?Eb; incl_tac.
    - destruct b; unfold phys, infl_list; simpl; rewrite ?Einf, ?Ec; incl_tac.
  Qed.

  Lemma phys_done : forall sh, incl (phys (mkSh (sh_q sh) None (sh_exit sh) (sh_fl sh))) (phys sh).
  Proof. intros sh. incl_tac. Qed.

  Lemma phys_flushpush : forall sh, incl (phys (sh_flushpush nbq false sh)) (phys sh).
  Proof.
    intros sh. unfold sh_flushpush. destruct (sh_fl sh); try apply incl_refl.
    unfold q_tryflush. destruct (q_batch (sh_q sh)) eqn:Eb; [apply incl_refl|].
    destruct (Nat.ltb _ _); [|apply incl_refl].
    unfold phys, infl_list; simpl. rewrite Eb. incl_tac.
  Qed.

  Lemma phys_flushclose : forall sh, incl (phys (sh_flushclose sh)) (phys sh).
  Proof.
    intros sh. unfold sh_flushclose. destruct (sh_fl sh); try apply incl_refl. incl_tac.
  Qed.

  Lemma K_same : forall ops o s s',
    K ops s -> t_lbl (tab s') = t_lbl (tab s) -> fed s' = fed s -> shards s' = shards s -> log s' = log s -> pend s' = pend s ->
    K (ops ++ [o]) s'.
  Proof.
    intros ops o s s' [K1 K2 K3 K4 K5] E1 E2 E3 E4 E5. split; rewrite ?E1, ?E2, ?E3, ?E4, ?E5; auto.
    - intros r l H. destruct (K1 r l H) as [raw [seg [A B]]]. exists raw, seg. split; auto. apply in_or_app; auto.
    - intros x H. apply prov_mono; auto.
  Qed.

  Lemma K_local : forall ops o s s' k f,
    K ops s -> t_lbl (tab s') = t_lbl (tab s) -> fed s' = fed s -> shards s' = upd k f (shards s) -> log s' = log s ->
    pend s' = pend s -> (forall sh, incl (phys (f sh)) (phys sh)) ->
    K (ops ++ [o]) s'.
  Proof.
    intros ops o s s' k f [K1 K2 K3 K4 K5] E1 E2 E3 E4 E5 Hf. split; rewrite ?E1, ?E2, ?E3, ?E4, ?E5; auto.
    - intros r l H. destruct (K1 r l H) as [raw [seg [A B]]]. exists raw, seg. split; auto. apply in_or_app; auto.
    - intros x H. apply prov_mono; auto.
    - intros sh x Hsh Hx. destruct (in_upd _ _ _ _ _ Hsh) as [H|[sh0 [H ->]]].
      + eapply K3; eauto.
      + eapply K3; eauto. apply Hf; auto.
  Qed.

  Lemma attempted_snoc : forall lg b oc, attempted (lg ++ [(b, oc)]) = attempted lg ++ b.
  Proof. intros. unfold attempted. rewrite flat_map_app. simpl. rewrite app_nil_r. reflexivity. Qed.

  Lemma K_step : forall ops s o, K ops s -> K (ops ++ [o]) (step s o).
  Proof.
    intros ops s o HK. pose proof HK as [K1 K2 K3 K4 K5].
    destruct o as [ref raw seg|idx|ref t old| |k|k|k oc| |k|k| |n]; simpl.
    - unfold do_store. destruct (relab (add_ext ext raw)) as [l|] eqn:Er.
      + split; simpl; auto.
        * intros r l'. destruct (Z.eqb_spec ref r) as [->|Ne].
          -- intros [= <-]. exists raw, seg. split; auto. apply in_or_app; simpl; auto.
          -- intros H. destruct (K1 r l' H) as [raw' [seg' [A B]]]. exists raw', seg'. split; auto. apply in_or_app; auto.
        * intros x H. apply prov_mono; auto.
      + eapply K_same; eauto.
    - unfold do_reset. split; simpl; auto.
      + intros r l.
        rewrite (aget_filter_key labels
                   (fun k => negb match aget k (t_seg (tab s)) with Some v => v <? idx | None => false end)).
        destruct (negb _); [|discriminate].
        intros H. destruct (K1 r l H) as [raw' [seg' [A B]]]. exists raw', seg'. split; auto. apply in_or_app; auto.
      + intros x H. apply prov_mono; auto.
    - unfold do_lookup. destruct (pend s) eqn:Ep; [eapply K_same; eauto|].
      destruct old; [split; simpl; auto; try discriminate|].
      { intros r l H. destruct (K1 r l H) as [raw' [seg' [A B]]]. exists raw', seg'. split; auto. apply in_or_app; auto. }
      { intros x H. apply prov_mono; auto. }
      destruct (aget ref (t_lbl (tab s))) as [l|] eqn:El.
      + split; simpl.
        * intros r l' H. destruct (K1 r l' H) as [raw' [seg' [A B]]]. exists raw', seg'. split; auto. apply in_or_app; auto.
        * intros x Hx. apply in_app_or in Hx. destruct Hx as [Hx|[<-|[]]]; [apply prov_mono; auto|].
          destruct (K1 ref l El) as [raw' [seg' [A B]]]. exists raw', seg'. simpl. split; auto. apply in_or_app; auto.
        * intros sh x Hsh Hx. apply in_or_app. left. eapply K3; eauto.
        * intros x Hx. apply in_or_app. left. auto.
        * intros x [= <-]. apply in_or_app. right. simpl; auto.
      + destruct (memZ ref _); (split; simpl; auto; try discriminate);
          try (intros r l H; destruct (K1 r l H) as [raw' [seg' [A B]]]; exists raw', seg'; split; auto; apply in_or_app; auto);
          try (intros x H; apply prov_mono; auto).
    - unfold do_enqueue. destruct (pend s) as [x|] eqn:Ep; [|eapply K_same; eauto].
      destruct (soft s); [eapply K_same; eauto|].
      destruct (nth_error (shards s) _) as [sh|] eqn:En; [|eapply K_same; eauto].
      assert (Hx : In x (fed s)) by (apply K5; auto).
      assert (Hsh : In sh (shards s)) by (eapply nth_error_In; eauto).
      destruct (q_append bsz nbq (sh_q sh) x) as [q' res] eqn:Eq.
      destruct res; [|eapply K_same; eauto|eapply K_same; eauto].
      assert (Hq : incl (concat (q_chan q') ++ q_batch q') ((concat (q_chan (sh_q sh)) ++ q_batch (sh_q sh)) ++ [x])).
      { unfold q_append in Eq. destruct (q_closed (sh_q sh)); [discriminate|].
        destruct (Nat.eqb _ bsz).
        - destruct (Nat.ltb _ nbq); [|discriminate]. inversion Eq; subst; simpl.
          intros y. rewrite ?concat_app. simpl. rewrite ?app_nil_r. rewrite ?in_app_iff. simpl. rewrite ?in_app_iff. simpl. tauto.
        - inversion Eq; subst; simpl. intros y. rewrite ?in_app_iff. simpl. tauto. }
      split; simpl; auto; try discriminate.
      + intros r l H. destruct (K1 r l H) as [raw' [seg' [A B]]]. exists raw', seg'. split; auto. apply in_or_app; auto.
      + intros y H. apply prov_mono; auto.
      + intros sh' y Hin Hy. destruct (in_upd _ _ _ _ _ Hin) as [H|[sh0 [H ->]]]; [eapply K3; eauto|].
        unfold phys, infl_list in Hy. simpl in Hy. apply in_app_or in Hy. destruct Hy as [Hy|Hy].
        * eapply K3; eauto. unfold phys, infl_list. apply in_or_app; auto.
        * apply Hq in Hy. apply in_app_or in Hy. destruct Hy as [Hy|[<-|[]]]; auto.
          (* the updated shard is the one at index k, but in_upd only says some shard: f ignores h's queue *)
          eapply (K3 sh); eauto. unfold phys. apply in_or_app; right; auto.
    - eapply K_local; eauto; simpl; auto. apply phys_take.
    - eapply K_local; eauto; simpl; auto. apply phys_timer.
    - unfold do_send. destruct (nth_error (shards s) k) as [sh|] eqn:En; [|eapply K_same; eauto].
      destruct (sh_infl sh) as [b|] eqn:Ei; [|eapply K_same; eauto].
      assert (Hb : forall y, In y b -> In y (fed s)).
      { intros y Hy. eapply (K3 sh); eauto. eapply nth_error_In; eauto.
        unfold phys, infl_list. rewrite Ei. apply in_or_app; auto. }
      assert (Hl : forall oc' y, In y (attempted (log s ++ [(b, oc')])) -> In y (fed s)).
      { intros oc' y. rewrite attempted_snoc. intros Hy. apply in_app_or in Hy. destruct Hy; auto. }
      destruct oc; (split; simpl; eauto);
        try (intros r l H; destruct (K1 r l H) as [raw' [seg' [A B]]]; exists raw', seg'; split; auto; apply in_or_app; auto);
        try (intros y H; apply prov_mono; auto);
        try (intros sh' y Hin Hy; destruct (in_upd _ _ _ _ _ Hin) as [H|[sh0 [H ->]]]; [eapply K3; eauto|];
             eapply K3; eauto; apply (phys_done sh0); auto).
    - eapply K_same; eauto.
    - destruct (soft s); [|eapply K_same; eauto]. eapply K_local; eauto; simpl; auto. apply phys_flushpush.
    - destruct (soft s); [|eapply K_same; eauto]. eapply K_local; eauto; simpl; auto. apply phys_flushclose.
    - destruct (soft s && negb (all_exited (shards s))); [|eapply K_same; eauto].
      split; simpl; auto.
      + intros r l H. destruct (K1 r l H) as [raw' [seg' [A B]]]. exists raw', seg'. split; auto. apply in_or_app; auto.
      + intros y H. apply prov_mono; auto.
      + intros sh y Hin. apply in_map_iff in Hin. destruct Hin as [sh0 [<- _]]. simpl. tauto.
    - destruct (soft s && all_exited (shards s) && Nat.ltb 0 n); [|eapply K_same; eauto].
      split; simpl; auto.
      + intros r l H. destruct (K1 r l H) as [raw' [seg' [A B]]]. exists raw', seg'. split; auto. apply in_or_app; auto.
      + intros y H. apply prov_mono; auto.
      + intros sh y Hin. apply repeat_spec in Hin. subst. simpl. tauto.
  Qed.

  Lemma K_run : forall n0 ops, K ops (run n0 ops).
  Proof.
    intros n0 ops. induction ops as [|o ops IH] using rev_ind.
    - split; simpl; try tauto; try discriminate.
      intros sh x Hin. apply repeat_spec in Hin. subst. simpl. tauto.
    - rewrite run_snoc. apply K_step; auto.
  Qed.

  (* ---------------- the flush/timer race cannot happen any more ---------------- *)

  Lemma stale_take_false : forall sf sh, wf_shard sf sh -> stale_take sh = false.
  Proof.
    intros sf sh [_ [_ [_ H4]]]. unfold stale_take.
    destruct (runner_idle sh); simpl; auto.
    destruct (sh_fl sh) eqn:Ef; simpl; auto.
    destruct (q_chan (sh_q sh)); simpl; auto.
    rewrite H4; [reflexivity | congruence].
  Qed.

  Lemma flushrace_step : forall s o, W s -> flushrace s = false -> flushrace (step s o) = false.
  Proof.
    intros s o [Hn Hw] H. destruct o; simpl; auto.
    - unfold do_store. destruct (relab _); auto.
    - unfold do_lookup. destruct (pend s); auto. destruct old; auto.
      destruct (aget _ _); auto. destruct (memZ _ _); auto.
    - unfold do_enqueue. destruct (pend s); auto. destruct (soft s); auto.
      destruct (nth_error _ _); auto. destruct (q_append _ _ _ _) as [q' []]; auto.
    - rewrite H. simpl. destruct (nth_error (shards s) k) eqn:E; auto.
      eapply stale_take_false. eapply Hw; eauto.
    - unfold do_send. destruct (nth_error _ _); auto. destruct (sh_infl _); auto. destruct oc; auto.
    - destruct (soft s); auto.
    - destruct (soft s); auto.
    - destruct (soft s && _); auto.
    - destruct (soft s && _ && _); auto.
  Qed.

  Lemma flushrace_run : forall n0 ops, (0 < n0)%nat -> flushrace (run n0 ops) = false.
  Proof.
    intros n0 ops Hn. induction ops as [|o ops IH] using rev_ind; [reflexivity|].
    rewrite run_snoc. apply flushrace_step; auto. apply W_run; auto.
  Qed.

  (* ---------------- the theorems ---------------- *)

  Theorem no_panic : forall n0 ops, (0 < n0)%nat -> panicked (run n0 ops) = false.
  Proof. intros. apply W_run; auto. Qed.

  Lemma quiescent_outstanding : forall s r, quiescent s = true -> outstanding s r = [].
  Proof.
    intros s r H. unfold quiescent in H. apply andb_prop in H. destruct H as [Hp Hs].
    unfold outstanding, pend_list, pipe_of. destruct (pend s); [discriminate|].
    destruct (nth_error (shards s) _) as [sh|] eqn:E; auto.
    rewrite forallb_forall in Hs. specialize (Hs sh (nth_error_In _ _ E)).
    destruct (pipe sh); [reflexivity | discriminate].
  Qed.

  Theorem per_series_exact : forall n0 ops r, (0 < n0)%nat ->
    let s := run n0 ops in
    lossy s = false ->
    fr r (fed s) = fr r (delivered (log s)) ++ outstanding s r
    /\ (quiescent s = true -> fr r (fed s) = fr r (delivered (log s))).
  Proof.
    intros n0 ops r Hn s HL. pose proof (flushrace_run n0 ops Hn) as HF. pose proof (Inv_run n0 ops Hn HL HF) as [Ha He].
    assert (E : fr r (fed s) = fr r (delivered (log s)) ++ outstanding s r) by (apply (He r)).
    split; auto. intros Hq. rewrite E, (quiescent_outstanding s r Hq), app_nil_r. reflexivity.
  Qed.

  Theorem one_shard_per_series : forall n0 ops, (0 < n0)%nat ->
    let s := run n0 ops in
    lossy s = false ->
    forall k sh x, nth_error (shards s) k = Some sh -> In x (pipe sh) ->
                   shard_of (length (shards s)) (i_ref x) = k.
  Proof.
    intros n0 ops Hn s HL. pose proof (flushrace_run n0 ops Hn) as HF. pose proof (Inv_run n0 ops Hn HL HF) as [Ha He]. exact Ha.
  Qed.

  Theorem delivered_in_order_once : forall n0 ops, (0 < n0)%nat ->
    let s := run n0 ops in
    lossy s = false ->
    NoDup (map i_id (fed s))
    /\ incl (delivered (log s)) (fed s)
    /\ NoDup (map i_id (delivered (log s)))
    /\ forall r, exists rest, fr r (fed s) = fr r (delivered (log s)) ++ rest.
  Proof.
    intros n0 ops Hn s HL.
    assert (Hex : forall r, fr r (fed s) = fr r (delivered (log s)) ++ outstanding s r).
    { intros r. apply (per_series_exact n0 ops r Hn HL). }
    destruct (FedInv_run n0 ops) as [Hnd _]. fold s in Hnd.
    assert (Hincl : incl (delivered (log s)) (fed s)).
    { intros x Hx. assert (In x (fr (i_ref x) (fed s))).
      { rewrite Hex. apply in_or_app. left. apply fr_In. auto. }
      apply fr_In in H. tauto. }
    split; [exact Hnd|]. split; [exact Hincl|]. split.
    - apply NoDup_map_incl with (m := fed s); auto.
      apply nodup_by_ref. intros r.
      assert (NoDup (fr r (fed s))).
      { unfold fr. apply NoDup_filter. eapply NoDup_map_inv; eauto. }
      rewrite Hex in H. eapply NoDup_app_left; eauto.
    - intros r. eexists. apply Hex.
  Qed.

  Lemma all_ok_attempted : forall lg, all_ok lg = true -> attempted lg = delivered lg.
  Proof.
    induction lg as [|[b oc] lg IH]; simpl; auto.
    destruct oc; simpl; try discriminate. intros H. unfold attempted, delivered in *. simpl.
    f_equal. apply IH; auto.
  Qed.

  Theorem no_dup_without_failure : forall n0 ops, (0 < n0)%nat ->
    let s := run n0 ops in
    all_ok (log s) = true -> lossy s = false ->
    NoDup (map i_id (attempted (log s))).
  Proof.
    intros n0 ops Hn s Hok HL. rewrite all_ok_attempted; auto.
    apply (delivered_in_order_once n0 ops Hn HL).
  Qed.

  Theorem sent_provenance : forall n0 ops x,
    In x (attempted (log (run n0 ops))) ->
    In x (fed (run n0 ops))
    /\ exists raw seg, In (OStore (i_ref x) raw seg) ops /\ relab (add_ext ext raw) = Some (i_lbl x).
  Proof.
    intros n0 ops x Hx. destruct (K_run n0 ops) as [K1 K2 K3 K4 K5].
    split; [apply K4; auto|]. apply K2. apply K4. auto.
  Qed.

  Theorem dropped_never_sent : forall n0 ops r,
    (forall raw seg, In (OStore r raw seg) ops -> relab (add_ext ext raw) = None) ->
    forall x, In x (attempted (log (run n0 ops))) -> i_ref x <> r.
  Proof.
    intros n0 ops r Hdrop x Hx E. destruct (sent_provenance n0 ops x Hx) as [_ [raw [seg [A B]]]].
    rewrite E in A. rewrite (Hdrop _ _ A) in B. discriminate.
  Qed.

  Theorem append_accounting : forall n0 ops, let s := run n0 ops in
    nextid s = Z.of_nat (length (fed s)) + n_old s + n_dropped s + n_unint s.
  Proof. exact accounting_run. Qed.

  (* ---------------- FlushAndShutdown retries until the partial batch is on the channel ---------------- *)

  (* tryEnqueueingBatch on a full channel changes nothing and leaves the flush goroutine where it
     was (FNone): the step stays enabled, i.e. FlushAndShutdown must try again ... *)
  Lemma flush_full_is_noop : forall sh,
    sh_fl sh = FNone -> q_batch (sh_q sh) <> [] -> (nbq <= length (q_chan (sh_q sh)))%nat ->
    sh_flushpush nbq false sh = sh.
  Proof.
    intros [[b c cl] infl ex fl] Hf Hb Hc. simpl in *. subst fl. unfold sh_flushpush, q_tryflush. simpl.
    destruct b as [|x b]; [congruence|].
    assert (Nat.ltb (length c) nbq = false) as -> by (apply Nat.ltb_ge; exact Hc). reflexivity.
  Qed.

  (* ... and the channel is not closed before a try has succeeded (or found nothing to flush) *)
  Lemma close_needs_flush : forall sh, sh_fl sh = FNone -> sh_flushclose sh = sh.
  Proof. intros sh H. unfold sh_flushclose. rewrite H. reflexivity. Qed.

  (* as soon as the channel has room the try succeeds: the partial batch is handed over whole *)
  Lemma flush_succeeds_with_room : forall sh,
    sh_fl sh = FNone -> (length (q_chan (sh_q sh)) < nbq)%nat ->
    let sh' := sh_flushpush nbq false sh in
    sh_fl sh' = FPushed /\ q_batch (sh_q sh') = [] /\ pipe sh' = pipe sh.
  Proof.
    intros sh Hf Hc sh'. split; [|split]; [| |apply pipe_flushpush].
    - unfold sh', sh_flushpush, q_tryflush. rewrite Hf.
      destruct (q_batch (sh_q sh)); simpl; auto. apply Nat.ltb_lt in Hc. rewrite Hc. reflexivity.
    - unfold sh', sh_flushpush, q_tryflush. rewrite Hf.
      destruct (q_batch (sh_q sh)) eqn:Eb; simpl; auto. apply Nat.ltb_lt in Hc. rewrite Hc. reflexivity.
  Qed.

  (* in every reachable state a closed queue has no partial batch left behind, and a queue whose
     flush has not succeeded yet is still open *)
  Theorem closed_only_after_flush : forall n0 ops k sh, (0 < n0)%nat ->
    nth_error (shards (run n0 ops)) k = Some sh ->
    (q_closed (sh_q sh) = true -> sh_fl sh = FClosed /\ q_batch (sh_q sh) = [])
    /\ (sh_fl sh = FNone -> q_closed (sh_q sh) = false).
  Proof.
    intros n0 ops k sh Hn Hk. destruct (W_run n0 ops Hn) as [[_ Hw] _].
    destruct (Hw _ _ Hk) as [_ [H2 [_ H4]]]. split.
    - intros Hc. rewrite Hc in H2. destruct (sh_fl sh) eqn:Ef; try discriminate.
      split; auto. apply H4. discriminate.
    - intros Hf. rewrite Hf in H2. exact H2.
  Qed.
End Proofs.

(* ---------------- witnesses ---------------- *)

Definition relab_id (l : labels) : option labels := Some l.

(* batch size 3, one channel slot, one shard: the timer fires between tryEnqueueingBatch and the
   clearing of q.batch *)
Definition ops_race : list op :=
  [OStore 7 [(1, 1)] 0; OLookup 7 100 false; OEnqueue; OLookup 7 101 false; OEnqueue;
   OSoft; OFlushPush 0; OTake 0; OSend 0 Ok; OTimer 0; OSend 0 Ok; OFlushClose 0; OTake 0].

(* the code before fix dca118dfcb (old_flush = true) sent both samples twice ... *)
Lemma no_dup_old_refuted :
  exists ops, let s := run relab_id 3 1 [] true 1 ops in
    all_ok (log s) = true /\ lossy s = false /\ quiescent s = true
    /\ map i_id (attempted (log s)) = [0; 1; 0; 1].
Proof. exists ops_race. vm_compute. repeat split. Qed.

(* ... the same interleaving on the code as it is now *)
Lemma race_regression :
  let s := run relab_id 3 1 [] false 1 ops_race in
    all_ok (log s) = true /\ lossy s = false /\ quiescent s = true /\ flushrace s = false
    /\ map i_id (attempted (log s)) = [0; 1].
Proof. vm_compute. repeat split. Qed.

(* two shards, batches of two: a recoverable failure retried in place, a reshard to three shards *)
Definition ops_nv : list op :=
  [OStore 1 [(1, 1)] 0; OStore 2 [(1, 2)] 0; OStore 9 [(1, 3); (5, 1)] 0;
   OLookup 1 10 false; OEnqueue; OLookup 2 11 false; OEnqueue; OLookup 1 12 false; OEnqueue;
   OLookup 9 13 false; OLookup 5 14 false; OLookup 1 15 true;
   OTimer 1; OSend 1 Recoverable; OSend 1 Ok;
   OSoft; OEnqueue; OFlushPush 0; OFlushPush 1; OFlushClose 0; OFlushClose 1;
   OTake 0; OSend 0 Ok; OTake 0; OTake 1; OStart 3;
   OLookup 1 16 false; OEnqueue; OTimer 1; OSend 1 Ok].

(* relabelling drops the series carrying label 5 *)
Definition relab_nv (l : labels) : option labels :=
  match lget 5 l with Some _ => None | None => Some l end.

Lemma nonvacuous :
  let s := run relab_nv 2 1 [(4, 7)] false 2 ops_nv in
  lossy s = false /\ flushrace s = false /\ quiescent s = true /\ panicked s = false
  /\ map i_id (delivered (log s)) = [0; 2; 1; 6]
  /\ map i_id (attempted (log s)) = [0; 2; 0; 2; 1; 6]
  /\ map i_lbl (delivered (log s)) = [[(1, 1); (4, 7)]; [(1, 1); (4, 7)]; [(1, 2); (4, 7)]; [(1, 1); (4, 7)]]
  /\ length (shards s) = 3%nat
  /\ (n_old s, n_dropped s, n_unint s) = (1, 1, 1).
Proof. vm_compute. repeat split. Qed.

(* ---------------- every request carries between 1 and MaxSamplesPerSend samples ---------------- *)

Section BatchBound.
  Variable relab : labels -> option labels.
  Variables (bsz nbq : nat) (ext : labels).
  Hypothesis bsz_pos : (0 < bsz)%nat.

  Notation step := (step relab bsz nbq ext false).
  Notation run := (run relab bsz nbq ext false).

  Definition bok (b : list item) : Prop := (0 < length b <= bsz)%nat.

  Definition Bsh (sh : shard) : Prop :=
    Forall bok (q_chan (sh_q sh)) /\ (length (q_batch (sh_q sh)) < bsz)%nat
    /\ (forall b, sh_infl sh = Some b -> bok b).

  Definition BI (s : st) : Prop :=
    (forall sh, In sh (shards s) -> Bsh sh) /\ batches_ok bsz (log s) = true.

  Ltac bsplit := split; [|split].
  Ltac binfl := let b' := fresh "b" in let E := fresh "E" in intros b' E; try discriminate; inversion E; subst; auto.

  Lemma B_new : Bsh sh_new.
  Proof. bsplit; simpl; auto; discriminate. Qed.

  Lemma B_take : forall sh, Bsh sh -> Bsh (sh_take sh).
  Proof.
    intros sh HB. pose proof HB as [H1 [H2 H3]]. unfold sh_take.
    destruct (negb (runner_idle sh)); auto.
    unfold q_recv. destruct (q_chan (sh_q sh)) as [|b r] eqn:Ec.
    - destruct (q_closed (sh_q sh)); auto. bsplit; simpl; auto; try discriminate; rewrite ?Ec; auto.
    - inversion H1; subst. bsplit; simpl; auto. binfl.
  Qed.

  Lemma B_timer : forall sh, Bsh sh -> Bsh (sh_timer sh).
  Proof.
    intros sh HB. pose proof HB as [H1 [H2 H3]]. unfold sh_timer.
    destruct (negb (runner_idle sh)); auto.
    unfold q_timer. destruct (q_chan (sh_q sh)) as [|b r] eqn:Ec.
    - destruct (q_closed (sh_q sh)).
      + bsplit; simpl; auto; try discriminate; rewrite ?Ec; auto.
      + destruct (q_batch (sh_q sh)) as [|x l] eqn:Eb; bsplit; simpl; auto; try discriminate; try lia.
        binfl. unfold bok. simpl in *. lia.
    - inversion H1; subst. destruct b; bsplit; simpl; auto; try discriminate.
      binfl.
  Qed.

  Lemma B_done : forall sh, Bsh sh -> Bsh (mkSh (sh_q sh) None (sh_exit sh) (sh_fl sh)).
  Proof. intros sh [H1 [H2 H3]]. bsplit; simpl; auto; discriminate. Qed.

  Lemma B_flushpush : forall sh, Bsh sh -> Bsh (sh_flushpush nbq false sh).
  Proof.
    intros sh HB. pose proof HB as [H1 [H2 H3]]. unfold sh_flushpush.
    destruct (sh_fl sh); auto.
    unfold q_tryflush. destruct (q_batch (sh_q sh)) as [|x l] eqn:Eb.
    - bsplit; simpl; auto. rewrite Eb; simpl; lia.
    - destruct (Nat.ltb _ _).
      + bsplit; simpl; auto; try lia. apply Forall_app. split; auto.
        constructor; auto. unfold bok. simpl in *. lia.
      + bsplit; simpl; auto. rewrite Eb. auto.
  Qed.

  Lemma B_flushclose : forall sh, Bsh sh -> Bsh (sh_flushclose sh).
  Proof.
    intros sh HB. pose proof HB as [H1 [H2 H3]]. unfold sh_flushclose.
    destruct (sh_fl sh); auto. bsplit; simpl; auto; lia.
  Qed.

  Lemma BI_local : forall s s' k f,
    BI s -> shards s' = upd k f (shards s) -> log s' = log s -> (forall sh, Bsh sh -> Bsh (f sh)) -> BI s'.
  Proof.
    intros s s' k f [H1 H2] E1 E2 Hf. split; rewrite ?E1, ?E2; auto.
    intros sh Hin. destruct (in_upd _ _ _ _ _ Hin) as [H|[sh0 [H ->]]]; auto.
  Qed.

  Lemma BI_same : forall s s', BI s -> shards s' = shards s -> log s' = log s -> BI s'.
  Proof. intros s s' [H1 H2] E1 E2. split; rewrite ?E1, ?E2; auto. Qed.

  Lemma batches_ok_snoc : forall lg b oc, batches_ok bsz lg = true -> bok b -> batches_ok bsz (lg ++ [(b, oc)]) = true.
  Proof.
    intros lg b oc H [Hb1 Hb2]. unfold batches_ok in *. rewrite forallb_app, H. simpl.
    apply Nat.ltb_lt in Hb1. apply Nat.leb_le in Hb2. rewrite Hb1, Hb2. reflexivity.
  Qed.

  Lemma BI_step : forall s o, BI s -> BI (step s o).
  Proof.
    intros s o HB. pose proof HB as [H1 H2].
    destruct o as [ref raw seg|idx|ref t old| |k|k|k oc| |k|k| |n]; simpl.
    - unfold do_store. destruct (relab _); eapply BI_same; eauto.
    - eapply BI_same; eauto.
    - unfold do_lookup. destruct (pend s); auto. destruct old; [eapply BI_same; eauto|].
      destruct (aget _ _); [eapply BI_same; eauto|]. destruct (memZ _ _); eapply BI_same; eauto.
    - unfold do_enqueue. destruct (pend s) as [x|]; auto. destruct (soft s); auto.
      destruct (nth_error (shards s) _) as [sh|] eqn:En; auto.
      pose proof (H1 sh (nth_error_In _ _ En)) as [C1 [C2 C3]].
      unfold q_append. destruct (q_closed (sh_q sh)); [eapply BI_same; eauto|].
      destruct (Nat.eqb (length (q_batch (sh_q sh) ++ [x])) bsz) eqn:El.
      + destruct (Nat.ltb _ nbq); auto. split; simpl; auto.
        intros sh' Hin. destruct (in_upd _ _ _ _ _ Hin) as [H|[sh0 [H ->]]]; auto.
        destruct (H1 sh0 H) as [D1 [D2 D3]]. bsplit; simpl; auto.
        apply Forall_app. split; auto. constructor; auto. apply Nat.eqb_eq in El. unfold bok. lia.
      + split; simpl; auto.
        intros sh' Hin. destruct (in_upd _ _ _ _ _ Hin) as [H|[sh0 [H ->]]]; auto.
        destruct (H1 sh0 H) as [D1 [D2 D3]]. bsplit; simpl; auto.
        apply Nat.eqb_neq in El. rewrite app_length in *. simpl in *. lia.
    - eapply BI_local; eauto; simpl; auto. apply B_take.
    - eapply BI_local; eauto; simpl; auto. apply B_timer.
    - unfold do_send. destruct (nth_error (shards s) k) as [sh|] eqn:En; auto.
      destruct (sh_infl sh) as [b|] eqn:Ei; auto.
      assert (Hb : bok b). { destruct (H1 sh (nth_error_In _ _ En)) as [_ [_ C3]]. auto. }
      destruct oc; split; simpl; try (apply batches_ok_snoc; auto); auto;
        intros sh' Hin; destruct (in_upd _ _ _ _ _ Hin) as [H|[sh0 [H ->]]]; auto; apply B_done; auto.
    - eapply BI_same; eauto.
    - destruct (soft s); auto. eapply BI_local; eauto; simpl; auto. apply B_flushpush.
    - destruct (soft s); auto. eapply BI_local; eauto; simpl; auto. apply B_flushclose.
    - destruct (soft s && negb (all_exited (shards s))); auto. split; simpl; auto.
      intros sh Hin. apply in_map_iff in Hin. destruct Hin as [sh0 [<- _]].
      bsplit; simpl; auto; discriminate.
    - destruct (soft s && all_exited (shards s) && Nat.ltb 0 n); auto. split; simpl; auto.
      intros sh Hin. apply repeat_spec in Hin. subst. apply B_new.
  Qed.

  Theorem batch_bound : forall n0 ops, batches_ok bsz (log (run n0 ops)) = true.
  Proof.
    intros n0 ops. assert (BI (run n0 ops)) as [_ H]; auto.
    induction ops as [|o ops IH] using rev_ind.
    - split; simpl; auto. intros sh Hin. apply repeat_spec in Hin. subst. apply B_new.
    - unfold RemoteQueue.run. rewrite fold_left_app. simpl. apply BI_step. exact IH.
  Qed.
End BatchBound.

(* proof/LabelsXMerge.v — Builder.Labels: the sorted merge of stringlabels/dedupelabels equals
   the filter + append + sort of slicelabels on every well-formed builder state. *)
From Coq Require Import List ZArith Bool Lia.
From Verif Require Import model.LabelsX proof.LabelsXProofs.
Import ListNotations.
Open Scope Z_scope.

(* ---- weakly sorted name lists (b.del after slices.Sort; duplicates allowed) *)
Fixpoint wsorted (l : list str) : bool :=
  match l with
  | a :: ((b :: _) as t) => negb (str_ltb b a) && wsorted t
  | _ => true
  end.
Lemma wsorted_tail a t : wsorted (a :: t) = true -> wsorted t = true.
Proof. destruct t; simpl; auto. intros H. apply andb_prop in H. tauto. Qed.
Lemma mem_ins_s k x l : mem k (ins_s x l) = str_eqb x k || mem k l.
Proof.
  induction l as [|y t IH]; simpl; [rewrite str_eqb_sym; auto|].
  destruct (str_ltb x y); simpl; [rewrite (str_eqb_sym k x); auto|].
  fold (mem k (ins_s x t)). rewrite IH. fold (mem k t). rewrite (str_eqb_sym k y).
  destruct (str_eqb x k), (str_eqb y k); auto.
Qed.
Lemma ltb_false_trans z h n : str_ltb z n = true -> str_ltb h n = false -> str_ltb z h = true.
Proof.
  intros H1 H2. destruct (str_eqb h n) eqn:E.
  - apply str_eqb_eq in E. subst. auto.
  - eapply str_ltb_trans; [exact H1|]. apply str_total; auto.
Qed.
Lemma ins_s_wsorted x l : wsorted l = true -> wsorted (ins_s x l) = true.
Proof.
  induction l as [|y t IH]; intros Hs; simpl; auto.
  destruct (str_ltb x y) eqn:E.
  - change (negb (str_ltb y x) && wsorted (y :: t) = true). rewrite Hs, (str_ltb_asym _ _ E). auto.
  - pose proof (IH (wsorted_tail _ _ Hs)) as IH'. destruct t as [|z t']; simpl.
    + rewrite E. auto.
    + simpl in IH'. simpl in Hs. apply andb_prop in Hs. destruct Hs as [Hyz Hs].
      destruct (str_ltb x z) eqn:E2.
      * rewrite E. simpl. exact IH'.
      * rewrite Hyz. simpl. exact IH'.
Qed.
Lemma sort_strs_spec l : wsorted (sort_strs l) = true /\ forall k, mem k (sort_strs l) = mem k l.
Proof.
  unfold sort_strs.
  assert (G : forall l acc, wsorted acc = true ->
     wsorted (fold_left (fun acc x => ins_s x acc) l acc) = true /\
     forall k, mem k (fold_left (fun acc x => ins_s x acc) l acc) = mem k l || mem k acc).
  { induction l0 as [|x t IH]; intros acc Ha; simpl; auto.
    destruct (IH (ins_s x acc) (ins_s_wsorted x acc Ha)) as [A B]. split; auto.
    intros k. rewrite B, mem_ins_s. fold (mem k t). rewrite (str_eqb_sym k x).
    destruct (str_eqb x k), (mem k t); auto. }
  destruct (G l [] eq_refl) as [A B]. split; auto. intros k. rewrite B. apply orb_false_r.
Qed.

(* ---- drop_lt on a weakly sorted list *)
Lemma wsorted_ge_all x t : wsorted (x :: t) = true -> forall z, mem z t = true -> str_ltb z x = false.
Proof.
  revert x. induction t as [|y t IH]; intros x Hs z Hz; [discriminate|].
  simpl in Hs. apply andb_prop in Hs. destruct Hs as [Hxy Hs]. apply negb_true_iff in Hxy.
  unfold mem in Hz. simpl in Hz. apply orb_prop in Hz. destruct Hz as [Hz|Hz].
  - apply str_eqb_eq in Hz. subst. auto.
  - specialize (IH y Hs z Hz). destruct (str_ltb z x) eqn:E; auto.
    rewrite (ltb_false_trans z y x E Hxy) in IH. discriminate.
Qed.
Lemma drop_lt_spec dl n : wsorted dl = true ->
  wsorted (drop_lt dl n) = true /\
  (forall k, str_ltb k n = false -> mem k (drop_lt dl n) = mem k dl) /\
  (match drop_lt dl n with x :: _ => str_eqb x n | [] => false end) = mem n dl.
Proof.
  induction dl as [|x t IH]; intros Hs; simpl; auto.
  destruct (str_ltb x n) eqn:E.
  - destruct (IH (wsorted_tail _ _ Hs)) as (A & B & C). split; auto. split.
    + intros k Hk. rewrite B by auto. fold (mem k t). destruct (str_eqb k x) eqn:E2; auto.
      apply str_eqb_eq in E2. subst. congruence.
    + rewrite C. fold (mem n t). rewrite str_eqb_sym, (str_ltb_neq _ _ E). auto.
  - split; auto. split; auto. fold (mem n t). rewrite (str_eqb_sym n x).
    destruct (str_eqb x n) eqn:E2; auto. simpl.
    destruct (mem n t) eqn:M; auto. pose proof (wsorted_ge_all x t Hs n M) as G.
    rewrite (str_total x n E E2) in G. discriminate.
Qed.

(* ---- ll_emit_lt = takeWhile / dropWhile *)
Fixpoint tw (n : str) (ad : list label) : list label :=
  match ad with x :: t => if str_ltb (fst x) n then x :: tw n t else [] | [] => [] end.
Fixpoint dw (n : str) (ad : list label) : list label :=
  match ad with x :: t => if str_ltb (fst x) n then dw n t else ad | [] => [] end.
Lemma ll_emit_lt_spec ad n : forall buf, ll_emit_lt ad n buf = (dw n ad, buf ++ tw n ad).
Proof.
  induction ad as [|x t IH]; intros buf; simpl; [rewrite app_nil_r; auto|].
  destruct (str_ltb (fst x) n); [rewrite IH, <- app_assoc; auto | rewrite app_nil_r; auto].
Qed.
Lemma tw_dw n ad : tw n ad ++ dw n ad = ad.
Proof. induction ad as [|x t IH]; simpl; auto. destruct (str_ltb (fst x) n); simpl; [rewrite IH|]; auto. Qed.

Lemma dd_merge_buf base : forall dl ad buf, dd_merge base dl ad buf = buf ++ dd_merge base dl ad [].
Proof.
  induction base as [|[k v] rest IH]; intros dl ad buf; [reflexivity|].
  cbn [dd_merge]. destruct (match drop_lt dl k with x :: _ => str_eqb x k | [] => false end); [apply IH|].
  rewrite !ll_emit_lt_spec. destruct (dw k ad) as [|y ad'']; cbn [app].
  - rewrite IH, (IH _ _ (tw k ad ++ _)), <- !app_assoc. reflexivity.
  - destruct (str_eqb (fst y) k); rewrite IH, (IH _ _ (tw k ad ++ _)), <- !app_assoc; reflexivity.
Qed.

Lemma dd_merge_cons k v rest dl ad :
  dd_merge ((k, v) :: rest) dl ad [] =
  let dl' := drop_lt dl k in
  if (match dl' with x :: _ => str_eqb x k | [] => false end) then dd_merge rest dl' ad []
  else match dw k ad with
       | y :: ad'' => if str_eqb (fst y) k then tw k ad ++ [y] ++ dd_merge rest dl' ad'' []
                      else tw k ad ++ [(k, v)] ++ dd_merge rest dl' (dw k ad) []
       | [] => tw k ad ++ [(k, v)] ++ dd_merge rest dl' [] []
       end.
Proof.
  cbn [dd_merge]. cbv zeta. destruct (match drop_lt dl k with x :: _ => str_eqb x k | [] => false end); auto.
  rewrite ll_emit_lt_spec. cbn [app]. destruct (dw k ad) as [|y ad'']; [rewrite dd_merge_buf, <- app_assoc; auto|].
  destruct (str_eqb (fst y) k); rewrite dd_merge_buf, <- app_assoc; auto.
Qed.

(* ---- sortedness helpers *)
Lemma has_name_lkp ls k : has_name k ls = match lkp ls k with Some _ => true | None => false end.
Proof. induction ls as [|[n v] t IH]; simpl; auto. destruct (str_eqb n k); auto. Qed.

Lemma sorted_app a : forall b, strictly_sorted a = true -> strictly_sorted b = true ->
  (forall k1 k2, has_name k1 a = true -> has_name k2 b = true -> str_ltb k1 k2 = true) ->
  strictly_sorted (a ++ b) = true.
Proof.
  induction a as [|x t IH]; intros b Ha Hb H; simpl; auto.
  pose proof (IH b (sorted_tail _ _ Ha) Hb) as IH'.
  assert (S' : strictly_sorted (t ++ b) = true).
  { apply IH'. intros k1 k2 H1 H2. apply H; auto. rewrite has_name_cons, H1. apply orb_true_r. }
  destruct (t ++ b) as [|y r] eqn:E; auto.
  change (str_ltb (fst x) (fst y) && strictly_sorted (y :: r) = true). rewrite S', andb_true_r.
  destruct t as [|y' t'].
  - simpl in E. subst b. apply H; [rewrite has_name_cons, str_eqb_refl; auto | rewrite has_name_cons, str_eqb_refl; auto].
  - simpl in E. inversion E; subst. apply (sorted_head _ _ _ Ha).
Qed.
Lemma tw_lt n ad k : has_name k (tw n ad) = true -> str_ltb k n = true.
Proof.
  induction ad as [|x t IH]; simpl; [discriminate|]. destruct (str_ltb (fst x) n) eqn:E; [|discriminate].
  rewrite has_name_cons. intros H. apply orb_prop in H. destruct H as [H|H]; auto.
  apply str_eqb_eq in H. subst. auto.
Qed.
Lemma tw_sorted n ad : strictly_sorted ad = true -> strictly_sorted (tw n ad) = true.
Proof.
  induction ad as [|x t IH]; intros Hs; simpl; auto. destruct (str_ltb (fst x) n); auto.
  pose proof (IH (sorted_tail _ _ Hs)) as IH'. destruct t as [|y t']; simpl in *; auto.
  destruct (str_ltb (fst y) n); auto. apply andb_prop in Hs. destruct Hs as [-> _]. exact IH'.
Qed.
Lemma dw_sorted n ad : strictly_sorted ad = true -> strictly_sorted (dw n ad) = true.
Proof.
  induction ad as [|x t IH]; intros Hs; simpl; auto. destruct (str_ltb (fst x) n); auto.
  apply IH. eapply sorted_tail; eauto.
Qed.
Lemma dw_head n ad : match dw n ad with y :: _ => str_ltb (fst y) n = false | [] => True end.
Proof. induction ad as [|x t IH]; simpl; auto. destruct (str_ltb (fst x) n) eqn:E; auto. Qed.
(* names of a strictly sorted list are above its head *)
Lemma sorted_ge_head y t k : strictly_sorted (y :: t) = true -> has_name k (y :: t) = true ->
  str_eqb (fst y) k = true \/ str_ltb (fst y) k = true.
Proof.
  intros Hs H. rewrite has_name_cons in H. apply orb_prop in H. destruct H as [H|H]; auto.
  right. eapply sorted_lt_all; eauto.
Qed.
Lemma lkp_below ls n k : strictly_sorted ls = true ->
  (match ls with y :: _ => str_ltb n (fst y) = true \/ n = fst y | [] => True end) ->
  str_ltb k n = true -> lkp ls k = None.
Proof.
  intros Hs Hh Hk. apply lkp_none. destruct (has_name k ls) eqn:E; auto. exfalso.
  destruct ls as [|y t]; [discriminate|].
  destruct (sorted_ge_head y t k Hs E) as [H|H].
  - apply str_eqb_eq in H. subst k. destruct Hh as [Hh|Hh].
    + pose proof (str_ltb_asym _ _ Hh). congruence.
    + subst n. rewrite str_ltb_irrefl in Hk. discriminate.
  - destruct Hh as [Hh|Hh].
    + pose proof (str_ltb_trans _ _ _ Hh H) as T. pose proof (str_ltb_asym _ _ T). congruence.
    + subst n. pose proof (str_ltb_asym _ _ H). congruence.
Qed.

(* ---- the merge denotes the same map as the specification, and is strictly sorted *)
Definition mspec (base : list label) (dl : list str) (ad : list label) (k : str) : option str :=
  if has_name k ad then lkp ad k else if mem k dl then None else lkp base k.

Lemma sorted_cons_all (x : label) T : strictly_sorted T = true ->
  (forall k, has_name k T = true -> str_ltb (fst x) k = true) -> strictly_sorted (x :: T) = true.
Proof.
  intros Hs H. destruct T as [|y t]; auto.
  change (str_ltb (fst x) (fst y) && strictly_sorted (y :: t) = true). rewrite Hs, andb_true_r.
  apply H. rewrite has_name_cons, str_eqb_refl. auto.
Qed.

Lemma assemble pre (x : label) T : strictly_sorted pre = true ->
  (forall k, has_name k pre = true -> str_ltb k (fst x) = true) -> strictly_sorted T = true ->
  (forall k, has_name k T = true -> str_ltb (fst x) k = true) ->
  strictly_sorted (pre ++ [x] ++ T) = true /\
  forall k, lkp (pre ++ [x] ++ T) k =
            match lkp pre k with Some w => Some w | None => if str_eqb (fst x) k then Some (snd x) else lkp T k end.
Proof.
  intros Hp Hlt Ht Hgt. split.
  - apply sorted_app; auto. { apply sorted_cons_all; auto. }
    intros k1 k2 H1 H2. cbn [app] in H2. rewrite has_name_cons in H2. apply orb_prop in H2. destruct H2 as [H2|H2].
    + apply str_eqb_eq in H2. subst. auto.
    + eapply str_ltb_trans; [apply Hlt; eauto | apply Hgt; auto].
  - intros k. rewrite lkp_app. destruct (lkp pre k); auto. destruct x as [n v]. reflexivity.
Qed.

Lemma dd_merge_spec base : forall dl ad, strictly_sorted base = true -> wsorted dl = true -> strictly_sorted ad = true ->
  strictly_sorted (dd_merge base dl ad []) = true /\ forall k, lkp (dd_merge base dl ad []) k = mspec base dl ad k.
Proof.
  induction base as [|[n v] rest IH]; intros dl ad Hb Hd Ha.
  - cbn [dd_merge app]. split; auto. intros k. unfold mspec. destruct (has_name k ad) eqn:E; auto.
    rewrite (lkp_none ad k E). destruct (mem k dl); auto.
  - rewrite dd_merge_cons. cbv zeta.
    destruct (drop_lt_spec dl n Hd) as (W' & Mem' & Flag). rewrite Flag. set (dl' := drop_lt dl n) in *.
    pose proof (sorted_tail _ _ Hb) as Hrest.
    assert (Hn_rest : has_name n rest = false).
    { pose proof (sorted_nodup _ Hb) as N. simpl in N. apply andb_prop in N. destruct N as [N _]. apply negb_true_iff in N. exact N. }
    assert (Hgt_rest : forall k, has_name k rest = true -> str_ltb n k = true) by (apply (sorted_lt_all (n, v) rest Hb)).
    assert (MF : forall k, str_eqb n k = false ->
              (if mem k dl' then None else lkp rest k) = (if mem k dl then @None str else lkp rest k)).
    { intros k E. destruct (str_ltb k n) eqn:Lt.
      - assert (lkp rest k = None) as ->; [|destruct (mem k dl'), (mem k dl); auto].
        apply lkp_none. destruct (has_name k rest) eqn:Hk; auto.
        pose proof (str_ltb_asym _ _ (Hgt_rest k Hk)). congruence.
      - rewrite (Mem' k Lt). auto. }
    destruct (mem n dl) eqn:Mn.
    + destruct (IH dl' ad Hrest W' Ha) as (S & L). split; auto. intros k. rewrite L. unfold mspec.
      destruct (has_name k ad); auto. cbn [lkp]. destruct (str_eqb n k) eqn:E.
      * apply str_eqb_eq in E. subst k. rewrite Mn, (lkp_none rest n Hn_rest). destruct (mem n dl'); auto.
      * apply MF; auto.
    + pose proof (tw_dw n ad) as Split. pose proof (dw_head n ad) as Hhead.
      pose proof (tw_sorted n ad Ha) as Spre. pose proof (dw_sorted n ad Ha) as Spost.
      assert (Hpre : forall k, has_name k (tw n ad) = true -> str_ltb k n = true) by (intros k; apply tw_lt).
      assert (Hpre_none : forall k, str_ltb k n = false -> lkp (tw n ad) k = None).
      { intros k Hk. apply lkp_none. destruct (has_name k (tw n ad)) eqn:E; auto. rewrite (Hpre k E) in Hk. discriminate. }
      (* what every sub-case needs: names of the recursive result are above n *)
      assert (NT : forall adT, strictly_sorted adT = true -> (forall k, has_name k adT = true -> str_ltb n k = true) ->
                   let T := dd_merge rest dl' adT [] in
                   strictly_sorted T = true /\ (forall k, lkp T k = mspec rest dl' adT k) /\
                   (forall k, has_name k T = true -> str_ltb n k = true)).
      { intros adT SA GA T. destruct (IH dl' adT Hrest W' SA) as (S & L). split; auto. split; auto.
        intros k Hk. rewrite has_name_lkp, L in Hk. unfold mspec in Hk.
        destruct (has_name k adT) eqn:E; [apply GA; auto|]. destruct (mem k dl'); [discriminate|].
        apply Hgt_rest. rewrite has_name_lkp. exact Hk. }
      assert (ADK : forall k, has_name k ad = has_name k (tw n ad) || has_name k (dw n ad)) by (intros k; rewrite <- Split at 1; apply has_name_app).
      assert (ADL : forall k, lkp ad k = match lkp (tw n ad) k with Some w => Some w | None => lkp (dw n ad) k end) by (intros k; rewrite <- Split at 1; apply lkp_app).
      destruct (dw n ad) as [|y ad''] eqn:Edw.
      * (* nothing left in add *)
        destruct (NT [] eq_refl ltac:(discriminate)) as (ST & LT & GT).
        destruct (assemble (tw n ad) (n, v) _ Spre Hpre ST GT) as (S & Lk). split; auto.
        intros k. rewrite Lk. unfold mspec. rewrite ADK, ADL. cbn [fst snd lkp has_name existsb]. rewrite orb_false_r.
        rewrite (has_name_lkp (tw n ad) k). destruct (lkp (tw n ad) k); auto.
        destruct (str_eqb n k) eqn:E.
        -- apply str_eqb_eq in E. subst k. rewrite Mn. auto.
        -- rewrite LT. unfold mspec. cbn [has_name existsb]. apply MF; auto.
      * pose proof (sorted_tail _ _ Spost) as Sad''.
        destruct (str_eqb (fst y) n) eqn:Ey.
        -- (* replaced by the pending addition y *)
           apply str_eqb_eq in Ey.
           assert (GA : forall k, has_name k ad'' = true -> str_ltb n k = true) by (rewrite <- Ey; apply (sorted_lt_all y ad'' Spost)).
           destruct (NT ad'' Sad'' GA) as (ST & LT & GT).
           destruct (assemble (tw n ad) y _ Spre ltac:(rewrite Ey; exact Hpre) ST ltac:(rewrite Ey; exact GT)) as (S & Lk). split; auto.
           intros k. rewrite Lk. unfold mspec. rewrite ADK, ADL, Ey. rewrite (has_name_lkp (tw n ad) k).
           destruct (lkp (tw n ad) k); auto. cbn [orb]. rewrite has_name_cons. destruct y as [yn yv]. cbn [fst snd lkp] in *. subst yn.
           destruct (str_eqb n k) eqn:E; auto. cbn [orb]. rewrite LT. unfold mspec.
           destruct (has_name k ad''); auto; try (cbn [lkp]; rewrite ?E; apply MF; auto).
        -- (* kept; the remaining additions are all above n *)
           assert (Hny : str_ltb n (fst y) = true) by (apply str_total; auto).
           assert (GA : forall k, has_name k (y :: ad'') = true -> str_ltb n k = true).
           { intros k Hk. destruct (sorted_ge_head y ad'' k Spost Hk) as [H|H].
             - apply str_eqb_eq in H. subst. auto.
             - eapply str_ltb_trans; eauto. }
           destruct (NT (y :: ad'') Spost GA) as (ST & LT & GT).
           destruct (assemble (tw n ad) (n, v) _ Spre Hpre ST GT) as (S & Lk). split; auto.
           intros k. rewrite Lk. unfold mspec. rewrite ADK, ADL. cbn [fst snd]. rewrite (has_name_lkp (tw n ad) k).
           destruct (lkp (tw n ad) k); auto. cbn [orb].
           destruct (str_eqb n k) eqn:E.
           ++ apply str_eqb_eq in E. subst k. destruct (has_name n (y :: ad'')) eqn:Hn.
              ** pose proof (GA n Hn) as C. rewrite str_ltb_irrefl in C. discriminate.
              ** rewrite Mn. cbn [lkp]. rewrite str_eqb_refl. auto.
           ++ rewrite LT. unfold mspec. destruct (has_name k (y :: ad'')); auto. cbn [lkp]. rewrite E. apply MF; auto.
Qed.

(* a strictly sorted list is determined by the map it denotes *)
Lemma sorted_ext a : forall b, strictly_sorted a = true -> strictly_sorted b = true ->
  (forall k, lkp a k = lkp b k) -> a = b.
Proof.
  induction a as [|[n v] a IH]; intros [|[m w] b] Ha Hb H; auto.
  - specialize (H m). simpl in H. rewrite str_eqb_refl in H. discriminate.
  - specialize (H n). simpl in H. rewrite str_eqb_refl in H. discriminate.
  - assert (n = m).
    { destruct (str_eqb n m) eqn:E; [apply str_eqb_eq; auto|]. exfalso.
      destruct (str_ltb n m) eqn:Lt.
      - destruct (sorted_gt_lkp _ n Hb Lt) as [Hb' _].
        assert (X : lkp ((n, v) :: a) n = None) by (rewrite H; exact Hb').
        simpl in X. rewrite str_eqb_refl in X. discriminate.
      - pose proof (str_total _ _ Lt E) as Gt. pose proof (H m) as Hm.
        destruct (sorted_gt_lkp _ m Ha Gt) as [Ha' _].
        assert (X : lkp ((m, w) :: b) m = None) by (rewrite <- H; exact Ha').
        simpl in X. rewrite str_eqb_refl in X. discriminate. }
    subst m. pose proof (H n) as Hn. simpl in Hn. rewrite str_eqb_refl in Hn. inversion Hn; subst w.
    f_equal. apply IH; [eapply sorted_tail; eauto | eapply sorted_tail; eauto|].
    intros k. specialize (H k). simpl in H. destruct (str_eqb n k) eqn:E; auto.
    apply str_eqb_eq in E. subst k.
    pose proof (sorted_nodup _ Ha) as Na. pose proof (sorted_nodup _ Hb) as Nb. simpl in Na, Nb.
    apply andb_prop in Na, Nb. destruct Na as [Na _], Nb as [Nb _]. apply negb_true_iff in Na, Nb.
    rewrite !lkp_none; auto.
Qed.

Lemma sl_blabels_body base add del : (del <> [] \/ add <> []) ->
  sl_blabels base add del =
  (let res := filter (fun l => negb (mem (fst l) del || has_name (fst l) add)) base in
   match add with [] => res | _ => sort_labels (res ++ add) end).
Proof. intros H. unfold sl_blabels. destruct del, add; auto. destruct H; congruence. Qed.
Lemma dd_blabels_body base add del : (del <> [] \/ add <> []) ->
  dd_blabels base add del = dd_merge base (sort_strs del) (sort_labels add) [].
Proof. intros H. unfold dd_blabels. destruct del, add; auto. destruct H; congruence. Qed.

(* Builder.Labels: stringlabels/dedupelabels (sorted merge) = slicelabels (filter, append, sort)
   on every builder state reachable from a sorted base *)
Lemma merge_eq_filter_sort (b : bst) : binv b ->
  dd_blabels (bbase b) (badd b) (bdel b) = sl_blabels (bbase b) (badd b) (bdel b).
Proof.
  destruct b as [base del add]. unfold binv, bbase, badd, bdel. cbn [b_base b_del b_add].
  intros (Hnd & Hne & Hso & Hemp).
  destruct del as [|d0 del'] eqn:Ed; [destruct add as [|a0 add'] eqn:Eadd; [reflexivity|]|].
  - rewrite <- Eadd in *. assert (NE : @nil str <> [] \/ add <> []) by (right; subst; discriminate).
    rewrite dd_blabels_body, sl_blabels_body by auto.
    pose proof (blabels_body base add [] Hnd Hne Hso Hemp) as B. cbv zeta in B. destruct B as (S1 & _ & L1).
    destruct (sort_labels_spec add Hnd) as (SA & LA & HA). destruct (sort_strs_spec (@nil str)) as (WD & MD).
    destruct (dd_merge_spec base (sort_strs []) (sort_labels add) Hso WD SA) as (S2 & L2).
    cbv zeta. apply sorted_ext; auto. intros k. rewrite L2, L1. unfold mspec. rewrite HA, LA, MD. reflexivity.
  - rewrite <- Ed in *. assert (NE : del <> [] \/ add <> []) by (left; subst; discriminate).
    rewrite dd_blabels_body, sl_blabels_body by auto.
    pose proof (blabels_body base add del Hnd Hne Hso Hemp) as B. cbv zeta in B. destruct B as (S1 & _ & L1).
    destruct (sort_labels_spec add Hnd) as (SA & LA & HA). destruct (sort_strs_spec del) as (WD & MD).
    destruct (dd_merge_spec base (sort_strs del) (sort_labels add) Hso WD SA) as (S2 & L2).
    cbv zeta. apply sorted_ext; auto. intros k. rewrite L2, L1. unfold mspec. rewrite HA, LA, MD. reflexivity.
Qed.

(* hence the three builds' Builder.Labels coincide (stringlabels up to its encoding) on every
   builder state reachable by any operation sequence from a sorted base *)
Lemma binv_steps base ops : strictly_sorted base = true -> binv (fold_left bstep ops (b_reset_sl base)).
Proof. intros Hs. destruct (sim_steps ops _ _ (sim_reset base Hs)) as (I1 & _). exact I1. Qed.

Lemma builder_all_builds_equal base ops : strictly_sorted base = true ->
  let b := fold_left bstep ops (b_reset_sl base) in
  all_short (bbase b) -> all_short (badd b) ->
  l_blabels I_dedupe (bbase b) (badd b) (bdel b) = l_blabels I_slice (bbase b) (badd b) (bdel b) /\
  l_blabels I_string (enc (bbase b)) (badd b) (bdel b) = Ok (enc (sl_blabels (bbase b) (badd b) (bdel b))).
Proof.
  intros Hs b Hb Ha. pose proof (binv_steps base ops Hs) as I1. fold b in I1.
  pose proof (merge_eq_filter_sort b I1) as E. cbn [l_blabels I_dedupe I_slice I_string]. split.
  - rewrite E. reflexivity.
  - rewrite st_blabels_enc by auto. rewrite E. reflexivity.
Qed.

(* proof/IsolationSeries.v — per-series facts for C05: ring/sample alignment is preserved by
   the commit steps, and the stopAfter computation returns exactly the longest visible prefix. *)
From Coq Require Import List ZArith Bool Arith Lia.
From Verif Require Import model.Isolation proof.IsolationProofs.
Import ListNotations.
Open Scope Z_scope.

(* ================================================================ samples of a series *)

Lemma rev_eq_cons {A} (l : list A) c before : rev l = c :: before -> l = rev before ++ [c].
Proof. intros H. rewrite <- (rev_involutive l), H. reflexivity. Qed.

Lemma rev_eq_nil {A} (l : list A) : rev l = [] -> l = [].
Proof. intros H. rewrite <- (rev_involutive l), H. reflexivity. Qed.

Lemma all_samples_push mm hd cut x r r' :
  all_samples (mkSer mm (push_sample hd cut x) r) = all_samples (mkSer mm hd r') ++ [x].
Proof.
  unfold all_samples, chunks_of, push_sample. cbn [m_mm m_hd].
  destruct (rev hd) as [|c before] eqn:E.
  - apply rev_eq_nil in E. subst hd. rewrite ?concat_app. simpl. rewrite ?app_nil_r. reflexivity.
  - apply rev_eq_cons in E. subst hd. destruct cut.
    + rewrite ?concat_app. simpl. rewrite ?app_nil_r, <- ?app_assoc. reflexivity.
    + rewrite ?concat_app. simpl. rewrite ?app_nil_r, <- ?app_assoc. reflexivity.
Qed.

Lemma ser_mmap_samples s : all_samples (ser_mmap s) = all_samples s /\ m_txs (ser_mmap s) = m_txs s.
Proof.
  unfold ser_mmap, all_samples, chunks_of. destruct (rev (m_hd s)) as [|c before] eqn:E; auto.
  apply rev_eq_cons in E. cbn [m_mm m_hd m_txs]. rewrite E. rewrite <- app_assoc. auto.
Qed.

(* ================================================================ the per-series invariant *)

Definition owners_ok (last : Z) (s : mseries) : Prop :=
  Forall (fun x => 1 <= s_owner x <= last) (all_samples s).

(* P id : "id is visible to every open reader, now and for every reader created later" *)
Definition ser_inv (P : Z -> Prop) (s : mseries) : Prop :=
  wf_ring (m_txs s) /\
  exists pre win, all_samples s = pre ++ win /\ map s_owner win = ring_contents (m_txs s) /\
                  Forall (fun x => P (s_owner x)) pre.

Lemma ser_inv_new P : ser_inv P ser_new.
Proof. split; [apply wf_ring_new|]. exists [], []. repeat split; auto. Qed.

Lemma ser_inv_weaken (P Q : Z -> Prop) s : (forall id, P id -> Q id) -> ser_inv P s -> ser_inv Q s.
Proof.
  intros HPQ (Hwf & pre & win & H1 & H2 & H3). split; auto. exists pre, win. repeat split; auto.
  eapply Forall_impl; [|exact H3]. intros x. apply HPQ.
Qed.

Lemma ser_cleanup_inv P last s b :
  ser_inv P s -> owners_ok last s -> (forall id, 1 <= id < b -> P id) ->
  exists s', ser_cleanup s b = Some s' /\ ser_inv P s' /\ all_samples s' = all_samples s.
Proof.
  intros (Hwf & pre & win & H1 & H2 & H3) Hown Hb. unfold ser_cleanup.
  destruct (ring_cleanup_spec (m_txs s) b Hwf) as (r' & Hr & Hwf' & Hc). rewrite Hr.
  eexists. split; [reflexivity|]. split; [|reflexivity].
  split; [exact Hwf'|]. cbn [m_txs].
  destruct (dropwhile_split s_owner (fun x => x <? b) win) as (w1 & w2 & Hw & Hw2 & Hw1).
  exists (pre ++ w1), w2. unfold all_samples, chunks_of in *. cbn [m_mm m_hd]. repeat split.
  - rewrite H1, Hw, app_assoc. reflexivity.
  - rewrite Hc, <- H2. exact Hw2.
  - apply Forall_app. split; auto.
    unfold owners_ok, all_samples, chunks_of in Hown. rewrite H1, Hw in Hown.
    apply Forall_app in Hown. destruct Hown as [_ Hown]. apply Forall_app in Hown. destruct Hown as [Hown _].
    rewrite Forall_forall in *. intros x Hx. apply Hb. specialize (Hw1 x Hx). specialize (Hown x Hx).
    apply Z.ltb_lt in Hw1. lia.
Qed.

Lemma ser_apply_inv P last s id b t v cut :
  ser_inv P s -> owners_ok last s -> 1 <= id <= last -> (forall i, 1 <= i < b -> P i) ->
  exists s', ser_apply s id b t v cut = Some s' /\ ser_inv P s' /\ owners_ok last s' /\
             (all_samples s' = all_samples s \/ all_samples s' = all_samples s ++ [mkS t v id]).
Proof.
  intros Hinv Hown Hid Hb. unfold ser_apply.
  destruct (match last_t s with None => true | Some lt => t >? lt end).
  - destruct Hinv as (Hwf & pre & win & H1 & H2 & H3).
    destruct (ring_add_spec (m_txs s) id Hwf) as (r1 & Hr1 & Hwf1 & Hc1). rewrite Hr1.
    set (s1 := mkSer (m_mm s) (push_sample (m_hd s) cut (mkS t v id)) r1).
    assert (Hs1 : all_samples s1 = all_samples s ++ [mkS t v id]).
    { unfold s1. rewrite (all_samples_push _ _ _ _ r1 (m_txs s)). destruct s; reflexivity. }
    assert (Hinv1 : ser_inv P s1).
    { split; [exact Hwf1|]. exists pre, (win ++ [mkS t v id]). repeat split; auto.
      - rewrite Hs1, H1, app_assoc. reflexivity.
      - unfold s1. cbn [m_txs]. rewrite Hc1, map_app, H2. reflexivity. }
    assert (Hown1 : owners_ok last s1).
    { unfold owners_ok. rewrite Hs1. apply Forall_app. split; auto. }
    destruct (ser_cleanup_inv P last s1 b Hinv1 Hown1 Hb) as (s' & Hs' & Hinv' & Hsam).
    unfold ser_cleanup in Hs'. fold s1.
    change (m_txs s1) with r1 in Hs'. change (m_mm s1) with (m_mm s) in Hs'.
    change (m_hd s1) with (push_sample (m_hd s) cut (mkS t v id)) in Hs'.
    unfold s1. cbn [m_txs m_mm m_hd]. rewrite Hs'.
    eexists. split; [reflexivity|]. split; [exact Hinv'|]. split.
    + unfold owners_ok. rewrite Hsam. exact Hown1.
    + right. rewrite Hsam. exact Hs1.
  - destruct (ser_cleanup_inv P last s b Hinv Hown Hb) as (s' & Hs' & Hinv' & Hsam).
    unfold ser_cleanup in Hs'. rewrite Hs'.
    eexists. split; [reflexivity|]. split; [exact Hinv'|]. split.
    + unfold owners_ok. rewrite Hsam. exact Hown.
    + left. exact Hsam.
Qed.

(* ================================================================ reading *)

Lemma nth_error_concat_split {A} (cs : list (list A)) ix c :
  nth_error cs ix = Some c ->
  concat cs = concat (firstn ix cs) ++ c ++ concat (skipn (S ix) cs).
Proof.
  intros H. destruct (nth_error_split cs ix H) as (l1 & l2 & -> & Hl).
  assert (Hf : firstn ix (l1 ++ c :: l2) = l1).
  { rewrite firstn_app, Hl, Nat.sub_diag, firstn_all2 by lia. simpl. apply app_nil_r. }
  assert (Hs : skipn (S ix) (l1 ++ c :: l2) = l2).
  { replace (l1 ++ c :: l2) with ((l1 ++ [c]) ++ l2) by (rewrite <- app_assoc; reflexivity).
    rewrite skipn_app. rewrite (skipn_all2 (l1 ++ [c])) by (rewrite app_length; simpl; lia).
    rewrite app_length. simpl length. replace (S ix - (length l1 + 1))%nat with 0%nat by lia. reflexivity. }
  rewrite Hf, Hs, concat_app. simpl. reflexivity.
Qed.

Lemma chunks_firstn {A} (cs : list (list A)) p :
  concat (map (fun ix => firstn (p - length (concat (firstn ix cs))) (nth ix cs [])) (seq 0 (length cs))) =
  firstn p (concat cs).
Proof.
  induction cs as [|c cs IH] using rev_ind.
  - simpl. rewrite firstn_nil. reflexivity.
  - rewrite app_length. simpl length. rewrite Nat.add_1_r, seq_S, map_app.
    rewrite (concat_app (map _ (seq 0 (length cs)))). cbn [map concat plus]. rewrite app_nil_r.
    rewrite (concat_app cs [c]). cbn [concat]. rewrite app_nil_r. rewrite (firstn_app p (concat cs) c).
    f_equal.
    + rewrite <- IH. f_equal. apply map_ext_in. intros ix Hix. apply in_seq in Hix.
      rewrite firstn_app. replace (ix - length cs)%nat with 0%nat by lia. simpl. rewrite app_nil_r.
      rewrite app_nth1 by lia. reflexivity.
    + rewrite firstn_app, Nat.sub_diag, firstn_all. simpl. rewrite app_nil_r.
      rewrite app_nth2, Nat.sub_diag by lia. reflexivity.
Qed.

Lemma read_chunks_map rd s (g : nat -> list sample) ixs :
  (forall ix, In ix ixs -> read_chunk rd s ix = Some (g ix)) ->
  read_chunks rd s ixs = Some (concat (map g ixs)).
Proof.
  induction ixs as [|ix ixs IH]; intros H; simpl; auto.
  rewrite (H ix (or_introl eq_refl)), IH; auto. intros. apply H. right. assumption.
Qed.

Lemma takewhile_map_len (vis : Z -> bool) (ent : sample -> bool) (win : list sample) :
  (forall x, In x win -> vis (s_owner x) = ent x) ->
  length (takewhile vis (map s_owner win)) = length (takewhile ent win).
Proof.
  induction win as [|x win IH]; intros H; simpl; auto.
  rewrite (H x (or_introl eq_refl)). destruct (ent x); simpl; auto.
  f_equal. apply IH. intros. apply H. right. assumption.
Qed.

(* The heart of C05: for a series whose ring is aligned with its newest samples, and whose
   older samples are all visible to the reader, memSeries.iterator over all chunks yields
   exactly the longest prefix of samples the reader is entitled to. *)
Lemma read_series_spec rd s pre win :
  wf_ring (m_txs s) ->
  all_samples s = pre ++ win ->
  map s_owner win = ring_contents (m_txs s) ->
  Forall (fun x => entitled rd x = true) pre ->
  (forall x, In x win -> visible rd (s_owner x) = entitled rd x) ->
  read_series rd s = Some (takewhile (entitled rd) (all_samples s)).
Proof.
  intros Hwf Hall Hwin Hpre Hvis.
  set (q := length (takewhile (entitled rd) win)).
  set (p := (length pre + q)%nat).
  assert (HT : takewhile (entitled rd) (all_samples s) = firstn p (all_samples s)).
  { rewrite (takewhile_firstn (entitled rd) (all_samples s)). f_equal.
    rewrite Hall, takewhile_app_all by exact Hpre. rewrite app_length. reflexivity. }
  rewrite HT. unfold read_series, all_samples.
  rewrite <- chunks_firstn.
  apply read_chunks_map. intros ix Hix. apply in_seq in Hix.
  unfold read_chunk.
  destruct (nth_error (chunks_of s) ix) as [c|] eqn:Ec.
  2:{ apply nth_error_None in Ec. lia. }
  rewrite (nth_error_nth _ _ [] Ec).
  pose proof (nth_error_concat_split _ _ _ Ec) as Hsplit.
  assert (Hcount : r_count (m_txs s) = length win).
  { rewrite <- length_contents, <- Hwin, map_length. reflexivity. }
  assert (Htot : total_len (chunks_of s) = (length pre + length win)%nat).
  { unfold total_len. fold (all_samples s). rewrite Hall, app_length. reflexivity. }
  assert (Htot2 : total_len (chunks_of s) =
                  (total_len (firstn ix (chunks_of s)) + length c + length (concat (skipn (S ix) (chunks_of s))))%nat).
  { unfold total_len. rewrite Hsplit at 1. rewrite !app_length. lia. }
  set (prev := total_len (firstn ix (chunks_of s))) in *.
  set (after := length (concat (skipn (S ix) (chunks_of s)))) in *.
  fold (total_len (firstn ix (chunks_of s))). fold prev.
  set (n := Z.of_nat (r_count (m_txs s)) - (Z.of_nat (total_len (chunks_of s)) - (Z.of_nat prev + Z.of_nat (length c)))).
  assert (Hn : n = Z.of_nat prev + Z.of_nat (length c) - Z.of_nat (length pre)) by (unfold n; lia).
  assert (Hnle : (Z.to_nat n <= r_count (m_txs s))%nat) by lia.
  rewrite (scan_ring (visible rd) (m_txs s) (Z.to_nat n) Hwf Hnle).
  cbv zeta.
  assert (Hq : length (takewhile (visible rd) (ring_contents (m_txs s))) = q).
  { rewrite <- Hwin. apply takewhile_map_len. exact Hvis. }
  rewrite Hq.
  destruct (Nat.ltb_spec q (Z.to_nat n)) as [Hlt|Hge].
  - f_equal. f_equal. unfold p. lia.
  - f_equal. symmetry. apply firstn_all2. unfold p. lia.
Qed.

(* proof/CompactRaceProofs.v — invariants of model/CompactRace.v and the C06 theorems. *)
From Coq Require Import List ZArith Bool Lia.
From Verif Require Import model.CompactRace.
Import ListNotations.
Open Scope Z_scope.

Ltac inv H := inversion H; subst; clear H.

Lemma guard_some b s s' : guard b s = Some s' -> b = true /\ s' = s.
Proof. unfold guard; destruct b; intros H; inv H; auto. Qed.

Lemma in_blocks_samples x bs : In x (blocks_samples bs) <-> exists b, In b bs /\ In x (b_samples b).
Proof. unfold blocks_samples; rewrite in_flat_map; tauto. Qed.

Lemma in_ooo_samples x om : In x (ooo_samples om) <-> exists c, In c om /\ In x (oc_samples c).
Proof. unfold ooo_samples; rewrite in_flat_map; tauto. Qed.

Lemma blocks_samples_app a b : blocks_samples (a ++ b) = blocks_samples a ++ blocks_samples b.
Proof. unfold blocks_samples; apply flat_map_app. Qed.

Lemma memZ_true x l : memZ x l = true <-> In x l.
Proof.
  unfold memZ; rewrite existsb_exists; split.
  - intros (y & Hy & E); apply Z.eqb_eq in E; subst; auto.
  - intros H; exists x; split; auto; apply Z.eqb_refl.
Qed.

Lemma sample_eqb_eq a b : sample_eqb a b = true <-> a = b.
Proof.
  unfold sample_eqb; destruct a, b; simpl; rewrite !andb_true_iff, !Z.eqb_eq; split.
  - intros [[? ?] ?]; subst; auto.
  - intros H; inv H; auto.
Qed.

Lemma mem_sample_true x l : mem_sample x l = true <-> In x l.
Proof.
  unfold mem_sample; rewrite existsb_exists; split.
  - intros (y & Hy & E); apply sample_eqb_eq in E; subst; auto.
  - intros H; exists x; split; auto; apply sample_eqb_eq; auto.
Qed.

Lemma ooo_samples_map L om :
  ooo_samples (map (fun c => mkOC (Some L) (oc_samples c)) om) = ooo_samples om.
Proof. unfold ooo_samples; induction om; simpl; auto; rewrite IHom; auto. Qed.

Lemma in_block_range_true lo hi x : in_block_range lo hi x = true <-> lo <= s_t x < hi.
Proof. unfold in_block_range; rewrite andb_true_iff, Z.leb_le, Z.ltb_lt; tauto. Qed.

Lemma in_range_true lo hi x : in_range lo hi x = true <-> lo <= s_t x <= hi.
Proof. unfold in_range; rewrite andb_true_iff, !Z.leb_le; tauto. Qed.

Lemma block_wf_overlap b x lo hi :
  block_wf b = true -> In x (b_samples b) -> lo <= s_t x <= hi -> block_overlaps lo hi b = true.
Proof.
  unfold block_wf, block_overlaps; intros W I R.
  rewrite forallb_forall in W; apply W in I; apply in_block_range_true in I.
  rewrite andb_true_iff, Z.leb_le, Z.ltb_lt; lia.
Qed.

Lemma find_q_some s q x : find_q s q = Some x -> In x (queriers s) /\ q_id x = q.
Proof. unfold find_q; intros H; apply find_some in H; destruct H as [? E]; apply Z.eqb_eq in E; auto. Qed.

Lemma in_others s q x : In x (others s q) <-> In x (queriers s) /\ q_id x <> q.
Proof.
  unfold others; rewrite filter_In, negb_true_iff, Z.eqb_neq; tauto.
Qed.

Lemma all_done_spec s : all_done s = true -> forall x, In x (queriers s) -> q_stage x = Done.
Proof.
  unfold all_done; rewrite forallb_forall; intros H x I; apply H in I; destruct (q_stage x); auto; discriminate.
Qed.

Section Invariant.
Variable C : list sample.

Definition head_lb (s : state) : Z := match pc s with MinSet _ hm0 => hm0 | _ => head_mint s end.

Definition cov_head (s : state) (T : Z) : Prop :=
  forall x, In x (head_ino s) -> s_t x < T -> In x (blocks_samples (db_blocks s)).
Definition cov_ooo (s : state) : Prop :=
  forall x, In x (ooo_samples (ooo_mem s)) -> In x (blocks_samples (db_blocks s)).
Definition all_ref (s : state) (L : Z) : Prop := forall c, In c (ooo_mem s) -> oc_ref c = Some L.
Definition blocks_ok (bs : list block) : Prop :=
  forall b, In b bs -> block_wf b = true /\ forall y, In y (b_samples b) -> In y C.
Definition awaited_q (s : state) (T hm0 : Z) : Prop :=
  forall x f, In x (queriers s) -> q_stage x = Done -> q_from x = Some f -> q_maxt x < hm0 \/ T <= f.
Definition oawaited_q (s : state) (L : Z) : Prop :=
  forall x r, In x (queriers s) -> q_stage x = Done -> q_oooref x = Some r -> L <= r.
Definition gen_ok (s : state) (L : Z) : Prop := gc_ref s < L \/ L = 0.

Definition pc_fact (s : state) : Prop :=
  match pc s with
  | Idle => trunc_flag s = false
  | HWritten bs T => trunc_flag s = false /\ blocks_ok bs /\
      (forall x, In x (head_ino s) -> s_t x < T -> In x (blocks_samples bs))
  | HReloaded T => trunc_flag s = false /\ cov_head s T
  | TimePub T => trunc_flag s = false /\ cov_head s T /\ trunc_time s = T /\ head_mint s < T
  | FlagSet T => trunc_flag s = true /\ cov_head s T /\ trunc_time s = T /\ head_mint s < T
  | Awaited T hm0 => trunc_flag s = true /\ cov_head s T /\ trunc_time s = T /\ head_mint s < T /\
      hm0 = head_mint s /\ awaited_q s T hm0
  | MinSet T hm0 => trunc_flag s = true /\ cov_head s T /\ trunc_time s = T /\ head_mint s = T /\
      awaited_q s T hm0
  | Truncated T => trunc_flag s = true /\ trunc_time s = T
  | OStarted L => trunc_flag s = false /\ all_ref s L /\ gen_ok s L
  | OWritten L bs => trunc_flag s = false /\ all_ref s L /\ gen_ok s L /\ blocks_ok bs /\
      (forall x, In x (ooo_samples (ooo_mem s)) -> In x (blocks_samples bs))
  | OReloaded L => trunc_flag s = false /\ all_ref s L /\ gen_ok s L /\ cov_ooo s
  | GcPub L => trunc_flag s = false /\ all_ref s L /\ gc_ref s = L /\ cov_ooo s
  | OAwaited L => trunc_flag s = false /\ all_ref s L /\ gc_ref s = L /\ cov_ooo s /\ oawaited_q s L
  | OTruncated L => trunc_flag s = false
  | BWritten b ps => trunc_flag s = false /\ blocks_ok [b] /\
      (forall b' y, In b' (db_blocks s) -> memZ (b_id b') ps = true -> In y (b_samples b') -> In y (b_samples b))
  | BReloaded => trunc_flag s = false
  (* the invariant below is about traces without stale-/selected-series compaction (no_view):
     its program-counter states are unreachable there *)
  | VWritten _ _ | VReloaded _ | VAwaited _ _ => False
  end.

(* a committed sample is reachable by a querier created now *)
Definition covered (s : state) (x : sample) : Prop :=
  In x (blocks_samples (db_blocks s))
  \/ (In x (head_ino s) /\ head_mint s <= s_t x /\ (trunc_flag s = true -> trunc_time s <= s_t x))
  \/ (exists c, In c (ooo_mem s) /\ In x (oc_samples c) /\ chunk_visible (gc_ref s) c = true).

(* a committed sample of the range is reachable by the open querier q *)
Definition safe (s : state) (q : querier) : Prop :=
  forall y, In y C -> q_mint q <= s_t y <= q_maxt q ->
    In y (blocks_samples (q_blocks q))
    \/ (exists f, q_from q = Some f /\ In y (head_ino s) /\ f <= s_t y)
    \/ (exists r c, q_oooref q = Some r /\ In c (ooo_mem s) /\ chunk_visible r c = true /\ In y (oc_samples c)).

Definition mid_ok (s : state) (x : querier) : Prop :=
  q_blocks x = filter (block_overlaps (q_mint x) (q_maxt x)) (db_blocks s)
  /\ q_hm x <= head_mint s
  /\ q_gc x = gc_ref s
  /\ (q_ooo x = false -> forall y, In y (ooo_samples (ooo_mem s)) -> ~ (q_mint x <= s_t y <= q_maxt x))
  /\ q_hashead x = ((q_hm x <=? q_maxt x) || q_ooo x)
  /\ (q_stage x = Opened -> q_hashead x = true /\ In (q_id x, q_mint x, q_maxt x) (iso s)).

Definition done_ok (s : state) (x : querier) : Prop :=
  (forall y, In y (blocks_samples (q_blocks x)) -> In y C)
  /\ safe s x
  /\ (forall f, q_from x = Some f -> exists lo, lo <= f /\ In (q_id x, lo, q_maxt x) (iso s))
  /\ (forall r, q_oooref x = Some r -> In (q_id x, r) (ooo_reads s) /\ r <= gc_ref s).

Definition q_ok (s : state) (x : querier) : Prop :=
  match q_stage x with Done => done_ok s x | _ => mid_ok s x end.

Record Inv (s : state) : Prop := mkInv {
  i_sub_head : forall x, In x (head_ino s) -> In x C;
  i_sub_ooo : forall x, In x (ooo_samples (ooo_mem s)) -> In x C;
  i_blocks : blocks_ok (db_blocks s);
  i_cov : forall x, In x C -> covered s x;
  i_hlb : forall x, In x (head_ino s) -> head_lb s <= s_t x;
  i_oor : forall x, In x (ooo_samples (ooo_mem s)) -> ooo_mint s <= s_t x <= ooo_maxt s;
  i_pc : pc_fact s;
  i_qs : forall x, In x (queriers s) -> q_ok s x
}.

(* ---- frame lemmas: q_ok only depends on some components ---------------------------------- *)

Lemma q_ok_frame s s' x :
  head_ino s' = head_ino s -> head_mint s' = head_mint s -> ooo_mem s' = ooo_mem s ->
  db_blocks s' = db_blocks s -> gc_ref s' = gc_ref s -> iso s' = iso s -> ooo_reads s' = ooo_reads s ->
  q_ok s x -> q_ok s' x.
Proof.
  intros E1 E2 E3 E4 E5 E6 E7. unfold q_ok, mid_ok, done_ok, safe.
  rewrite E1, E2, E3, E4, E5, E6, E7. auto.
Qed.

Lemma covered_frame s s' x :
  head_ino s' = head_ino s -> head_mint s' = head_mint s -> ooo_mem s' = ooo_mem s ->
  db_blocks s' = db_blocks s -> gc_ref s' = gc_ref s -> trunc_flag s' = trunc_flag s ->
  trunc_time s' = trunc_time s -> covered s x -> covered s' x.
Proof.
  intros E1 E2 E3 E4 E5 E6 E7. unfold covered. rewrite E1, E2, E3, E4, E5, E6, E7. auto.
Qed.


Lemma pc_fact_frame s s' :
  pc s' = pc s -> head_ino s' = head_ino s -> head_mint s' = head_mint s -> ooo_mem s' = ooo_mem s ->
  db_blocks s' = db_blocks s -> gc_ref s' = gc_ref s -> trunc_flag s' = trunc_flag s ->
  trunc_time s' = trunc_time s -> queriers s' = queriers s -> pc_fact s -> pc_fact s'.
Proof.
  intros E0 E1 E2 E3 E4 E5 E6 E7 E8. unfold pc_fact, cov_head, cov_ooo, all_ref, awaited_q, oawaited_q, gen_ok.
  rewrite E0, E1, E2, E3, E4, E5, E6, E7, E8. auto.
Qed.

(* s' differs from s only in fields the invariant does not read (to_close, closing, closed,
   pending, failed) *)
Lemma inv_frame s s' :
  pc s' = pc s -> head_ino s' = head_ino s -> head_mint s' = head_mint s -> ooo_mem s' = ooo_mem s ->
  ooo_mint s' = ooo_mint s -> ooo_maxt s' = ooo_maxt s ->
  db_blocks s' = db_blocks s -> gc_ref s' = gc_ref s -> trunc_flag s' = trunc_flag s ->
  trunc_time s' = trunc_time s -> queriers s' = queriers s -> iso s' = iso s -> ooo_reads s' = ooo_reads s ->
  Inv s -> Inv s'.
Proof.
  intros E0 E1 E2 E3 E3a E3b E4 E5 E6 E7 E8 E9 E10 I. destruct I.
  constructor.
  - rewrite E1; auto.
  - rewrite E3; auto.
  - rewrite E4; auto.
  - intros x Hx. eapply covered_frame; eauto.
  - unfold head_lb. rewrite E0, E1, E2. auto.
  - rewrite E3, E3a, E3b; auto.
  - eapply pc_fact_frame; eauto.
  - rewrite E8. intros x Hx. eapply q_ok_frame; eauto.
Qed.

(* only the program counter changes *)
Lemma inv_set_pc s p :
  Inv s -> pc_fact (set_pc s p) ->
  (forall x, In x (head_ino s) -> head_lb (set_pc s p) <= s_t x) ->
  Inv (set_pc s p).
Proof.
  intros I PF HL. destruct I. constructor; cbn; auto.
  all: try (intros x Hx; eapply covered_frame; [..|apply i_cov0; auto]; reflexivity).
  all: try (intros x Hx; eapply q_ok_frame; [..|apply i_qs0; auto]; reflexivity).
Qed.

Lemma hlb_nonminset s : (forall T h, pc s <> MinSet T h) -> head_lb s = head_mint s.
Proof. unfold head_lb; destruct (pc s); auto. intros H; exfalso; eapply H; eauto. Qed.

End Invariant.

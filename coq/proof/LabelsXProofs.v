(* proof/LabelsXProofs.v — lemmas about model/LabelsX.v (C39). *)
From Coq Require Import List ZArith Bool Lia.
From Verif Require Import model.LabelsX.
Import ListNotations.
Open Scope Z_scope.

(* ------------------------------------------------------------ byte-string order *)
Lemma str_cmp_refl a : str_cmp a a = Eq.
Proof. induction a as [|x a IH]; simpl; auto. rewrite Z.compare_refl. exact IH. Qed.

Lemma str_cmp_eq a : forall b, str_cmp a b = Eq -> a = b.
Proof.
  induction a as [|x a IH]; intros [|y b] H; simpl in H; try discriminate; auto.
  destruct (x ?= y) eqn:E; try discriminate. apply Z.compare_eq in E. subst. f_equal. auto.
Qed.

Lemma str_cmp_antisym a : forall b, str_cmp b a = CompOpp (str_cmp a b).
Proof.
  induction a as [|x a IH]; intros [|y b]; simpl; auto.
  rewrite (Z.compare_antisym x y). destruct (x ?= y); simpl; auto.
Qed.

Lemma str_cmp_lt_trans a : forall b c, str_cmp a b = Lt -> str_cmp b c = Lt -> str_cmp a c = Lt.
Proof.
  induction a as [|x a IH]; intros [|y b] [|z c] H1 H2; simpl in *; try discriminate; auto.
  destruct (x ?= y) eqn:E1; try discriminate; destruct (y ?= z) eqn:E2; try discriminate.
  - apply Z.compare_eq in E1, E2. subst. rewrite Z.compare_refl. eauto.
  - apply Z.compare_eq in E1. subst. rewrite E2. auto.
  - apply Z.compare_eq in E2. subst. rewrite E1. auto.
  - assert (x ?= z = Lt) as ->; auto. rewrite Z.compare_lt_iff in *. lia.
Qed.

Lemma str_eqb_eq a b : str_eqb a b = true <-> a = b.
Proof.
  unfold str_eqb. split.
  - destruct (str_cmp a b) eqn:E; try discriminate. intros _. apply str_cmp_eq; auto.
  - intros ->. rewrite str_cmp_refl. auto.
Qed.
Lemma str_eqb_refl a : str_eqb a a = true.
Proof. apply str_eqb_eq. auto. Qed.
Lemma str_eqb_neq a b : str_eqb a b = false <-> a <> b.
Proof. rewrite <- str_eqb_eq. destruct (str_eqb a b); split; congruence. Qed.
Lemma str_eqb_sym a b : str_eqb a b = str_eqb b a.
Proof. unfold str_eqb. rewrite (str_cmp_antisym a b). destruct (str_cmp a b); auto. Qed.

Lemma str_ltb_irrefl a : str_ltb a a = false.
Proof. unfold str_ltb. rewrite str_cmp_refl. auto. Qed.
Lemma str_ltb_trans a b c : str_ltb a b = true -> str_ltb b c = true -> str_ltb a c = true.
Proof.
  unfold str_ltb. destruct (str_cmp a b) eqn:E1; try discriminate. destruct (str_cmp b c) eqn:E2; try discriminate.
  intros _ _. rewrite (str_cmp_lt_trans _ _ _ E1 E2). auto.
Qed.
Lemma str_ltb_asym a b : str_ltb a b = true -> str_ltb b a = false.
Proof. unfold str_ltb. rewrite (str_cmp_antisym a b). destruct (str_cmp a b); simpl; congruence. Qed.
(* totality *)
Lemma str_total a b : str_ltb a b = false -> str_eqb a b = false -> str_ltb b a = true.
Proof. unfold str_ltb, str_eqb. rewrite (str_cmp_antisym a b). destruct (str_cmp a b); simpl; congruence. Qed.
Lemma str_ltb_neq a b : str_ltb a b = true -> str_eqb a b = false.
Proof. unfold str_ltb, str_eqb. destruct (str_cmp a b); congruence. Qed.
(* the first byte decides when it differs: Get/Has' early exit *)
Lemma first_byte_gt c k n0 t : c > n0 -> str_ltb (n0 :: t) (c :: k) = true.
Proof. intros H. unfold str_ltb. simpl. assert (n0 ?= c = Lt) as -> by (apply Z.compare_lt_iff; lia). auto. Qed.
Lemma first_byte_ne c k n0 t : c <> n0 -> str_eqb (c :: k) (n0 :: t) = false.
Proof. intros H. apply str_eqb_neq. congruence. Qed.

(* ------------------------------------------------------------ the stringlabels codec *)
(* pure encoders, equal to the res-valued ones below 2^24 *)
Definition esz (v : Z) : str :=
  if v <? 255 then [v] else [255; v mod 256; (v / 256) mod 256; (v / 65536) mod 256].
Definition enc_str (s : str) : str := esz (zlen s) ++ s.
Definition enc_label (l : label) : str := enc_str (fst l) ++ enc_str (snd l).
Definition enc (ls : list label) : str := flat_map enc_label ls.

Definition short (s : str) : Prop := zlen s < two24.
Definition all_short (ls : list label) : Prop := Forall (fun l : label => short (fst l) /\ short (snd l)) ls.

Ltac lia2 := unfold short in *; unfold two24, zlen, label, str in *; lia.

Lemma zlen_nonneg {A} (l : list A) : 0 <= zlen l.
Proof. unfold zlen. lia. Qed.

Lemma encode_size_esz v : v < two24 -> encode_size v = Ok (esz v).
Proof.
  intros H. unfold encode_size, encode_size_gen, esz. destruct (v <? 255); auto.
  destruct (Z.ltb_spec v two24); auto. lia2.
Qed.
Lemma encode_size_old_esz v : v <= two24 -> encode_size_old v = Ok (esz v).
Proof.
  intros H. unfold encode_size_old, encode_size_gen, esz. destruct (v <? 255); auto.
  destruct (Z.leb_spec v two24); auto. lia2.
Qed.
(* the fixed code rejects every length the three size bytes cannot hold *)
Lemma encode_size_too_long v : two24 <= v -> encode_size v = Panic.
Proof.
  intros H. unfold encode_size, encode_size_gen.
  destruct (Z.ltb_spec v 255); [lia2|]. destruct (Z.ltb_spec v two24); [lia2|]. reflexivity.
Qed.
Lemma encode_str_too_long s : two24 <= zlen s -> encode_str s = Panic.
Proof. intros H. unfold encode_str. rewrite encode_size_too_long by auto. reflexivity. Qed.
Lemma encode_str_enc s : zlen s < two24 -> encode_str s = Ok (enc_str s).
Proof. intros H. unfold encode_str. rewrite encode_size_esz by auto. reflexivity. Qed.
Lemma encode_label_enc l : zlen (fst l) < two24 -> zlen (snd l) < two24 -> encode_label l = Ok (enc_label l).
Proof. intros H1 H2. unfold encode_label. rewrite !encode_str_enc by auto. reflexivity. Qed.
Lemma encode_labels_enc ls : all_short ls -> encode_labels ls = Ok (enc ls).
Proof.
  induction 1 as [|l ls [H1 H2] _ IH]; simpl; auto.
  rewrite encode_label_enc by lia2. rewrite IH. reflexivity.
Qed.

Lemma decode_size_esz v r : 0 <= v < two24 -> decode_size (esz v ++ r) = Ok (v, r).
Proof.
  intros H. unfold esz. destruct (Z.ltb_spec v 255).
  - simpl. destruct (Z.eqb_spec v 255); [lia|]. reflexivity.
  - cbn [app decode_size]. rewrite Z.eqb_refl. f_equal. f_equal.
    unfold two24 in H. rewrite (Z.mod_small (v / 65536) 256) by (split; [apply Z.div_pos; lia | apply Z.div_lt_upper_bound; lia]).
    pose proof (Z.div_mod v 256 ltac:(lia)). pose proof (Z.div_mod (v / 256) 256 ltac:(lia)).
    assert (v / 65536 = v / 256 / 256) by (rewrite Z.div_div by lia; reflexivity). lia.
Qed.

Lemma take_app s r : take (zlen s) (s ++ r) = Ok (s, r).
Proof.
  unfold take, zlen. rewrite app_length, Nat2Z.id.
  destruct (Z.ltb_spec (Z.of_nat (length s + length r)) (Z.of_nat (length s))); [lia|].
  rewrite firstn_app, Nat.sub_diag, firstn_all, skipn_app, Nat.sub_diag, skipn_all. simpl. rewrite app_nil_r. reflexivity.
Qed.
Lemma skip_app s r : skip (zlen s) (s ++ r) = r.
Proof. unfold skip, zlen. rewrite Nat2Z.id, skipn_app, Nat.sub_diag, skipn_all. reflexivity. Qed.

Lemma decode_string_enc s r : short s -> decode_string (enc_str s ++ r) = Ok (s, r).
Proof.
  intros H. unfold decode_string, enc_str. rewrite <- app_assoc, decode_size_esz by (pose proof (zlen_nonneg s); lia2).
  simpl. apply take_app.
Qed.

Lemma esz_nonempty v : esz v <> [].
Proof. unfold esz. destruct (v <? 255); discriminate. Qed.
Lemma esz_length v : (1 <= length (esz v))%nat.
Proof. unfold esz. destruct (v <? 255); simpl; lia. Qed.
Lemma enc_str_length s : (length s + 1 <= length (enc_str s))%nat.
Proof. unfold enc_str. rewrite app_length. pose proof (esz_length (zlen s)). lia. Qed.
Lemma enc_label_length l : (2 <= length (enc_label l))%nat.
Proof. unfold enc_label. rewrite app_length. pose proof (enc_str_length (fst l)). pose proof (enc_str_length (snd l)). lia. Qed.
Lemma enc_cons l ls : enc (l :: ls) = enc_str (fst l) ++ enc_str (snd l) ++ enc ls.
Proof. unfold enc. simpl. unfold enc_label. rewrite app_assoc. reflexivity. Qed.
Lemma enc_cons_nonempty l ls : exists x d, enc (l :: ls) = x :: d.
Proof.
  rewrite enc_cons. unfold enc_str at 1. destruct (esz (zlen (fst l))) eqn:E; [destruct (esz_nonempty _ E)|].
  simpl. eauto.
Qed.
Lemma enc_cons_length l ls : (length (enc ls) + 2 <= length (enc (l :: ls)))%nat.
Proof. rewrite enc_cons, !app_length. pose proof (enc_str_length (fst l)). pose proof (enc_str_length (snd l)). lia. Qed.

(* abs o repr = id: iterating the encoded form yields exactly the entries *)
Lemma st_range_enc ls : all_short ls -> forall fuel, (length (enc ls) <= fuel)%nat -> st_range_f fuel (enc ls) = Ok ls.
Proof.
  induction 1 as [|l ls [H1 H2] Hs IH]; intros fuel Hf.
  - destruct fuel; reflexivity.
  - destruct (enc_cons_nonempty l ls) as (x & d & E). pose proof (enc_cons_length l ls) as Hl.
    destruct fuel as [|f]; [rewrite E in Hf; simpl in Hf; lia|].
    rewrite E. cbn [st_range_f]. rewrite <- E, enc_cons.
    rewrite decode_string_enc by auto. cbn [bind]. rewrite decode_string_enc by auto. cbn [bind].
    rewrite IH by lia. destruct l; reflexivity.
Qed.

Lemma range_of_new_labels ls d : all_short ls -> encode_labels ls = Ok d -> st_range d = Ok ls.
Proof.
  intros H E. rewrite encode_labels_enc in E by auto. inversion E; subst. apply st_range_enc; auto.
Qed.

(* injectivity of the representation: data equality is label-list equality *)
Lemma enc_inj a b : all_short a -> all_short b -> enc a = enc b -> a = b.
Proof.
  intros Ha Hb E. pose proof (st_range_enc a Ha _ (Nat.le_refl _)) as R1.
  pose proof (st_range_enc b Hb _ (Nat.le_refl _)) as R2. rewrite E in R1. congruence.
Qed.

(* Len *)
Lemma st_len_enc ls : all_short ls -> forall fuel c, (length (enc ls) <= fuel)%nat -> st_len_f fuel (enc ls) c = Ok (c + zlen ls).
Proof.
  induction 1 as [|l ls [H1 H2] Hs IH]; intros fuel c Hf.
  - destruct fuel; simpl; f_equal; unfold zlen; simpl; lia.
  - destruct (enc_cons_nonempty l ls) as (x & d & E). pose proof (enc_cons_length l ls) as Hl.
    destruct fuel as [|f]; [rewrite E in Hf; simpl in Hf; lia|].
    rewrite E. cbn [st_len_f]. rewrite <- E, enc_cons. unfold enc_str. rewrite <- !app_assoc.
    unfold short in *. pose proof (zlen_nonneg (fst l)). pose proof (zlen_nonneg (snd l)).
    rewrite decode_size_esz by lia2. cbn [bind]. rewrite skip_app, decode_size_esz by lia2. cbn [bind].
    rewrite skip_app, IH by lia. f_equal. unfold zlen. simpl length. lia.
Qed.

(* the 2^24 boundary in the code before the fix: sizeWhenEncoded accepted a length that
   encodeSize cannot write *)
Lemma len_2pow24_corrupts s r : zlen s = two24 ->
  encode_str_old s = Ok (enc_str s) /\ decode_string (enc_str s ++ r) = Ok ([], s ++ r).
Proof.
  intros H. split; [unfold encode_str_old; rewrite encode_size_old_esz by lia2; reflexivity|].
  unfold decode_string, enc_str. rewrite H, <- app_assoc. change (esz two24) with [255; 0; 0; 0].
  cbn [app decode_size Z.eqb Pos.eqb bind Z.mul Z.add]. unfold take.
  destruct (Z.ltb_spec (zlen (s ++ r)) 0); [pose proof (zlen_nonneg (s ++ r)); lia|]. reflexivity.
Qed.

(* ------------------------------------------------------------ lookups on the encoded form *)
Fixpoint lkp (ls : list label) (n : str) : option str :=
  match ls with [] => None | (k, v) :: t => if str_eqb k n then Some v else lkp t n end.
Fixpoint find_tail (ls : list label) (n : str) : option str :=
  match ls with [] => None | (k, v) :: t => if str_eqb k n then Some (enc_str v ++ enc t) else find_tail t n end.

Lemma sorted_tail a t : strictly_sorted (a :: t) = true -> strictly_sorted t = true.
Proof. destruct t; simpl; auto. intros H. apply andb_prop in H. tauto. Qed.
Lemma sorted_head a b t : strictly_sorted (a :: b :: t) = true -> str_ltb (fst a) (fst b) = true.
Proof. simpl. intros H. apply andb_prop in H. tauto. Qed.

Lemma sorted_gt_lkp ls : forall name, strictly_sorted ls = true ->
  match ls with [] => True | a :: _ => str_ltb name (fst a) = true end -> lkp ls name = None /\ find_tail ls name = None.
Proof.
  induction ls as [|[k v] t IH]; intros name Hs Hlt; simpl; auto.
  simpl in Hlt. rewrite str_eqb_sym, (str_ltb_neq _ _ Hlt).
  apply IH; [eapply sorted_tail; eauto|]. destruct t as [|b t']; auto.
  apply sorted_head in Hs. simpl in Hs. eapply str_ltb_trans; eauto.
Qed.

Lemma st_find_enc ls n0 nt : all_short ls -> nonempty_names ls = true -> strictly_sorted ls = true ->
  forall fuel, (length (enc ls) <= fuel)%nat ->
  st_find_f fuel (enc ls) (n0 :: nt) n0 = Ok (find_tail ls (n0 :: nt)).
Proof.
  induction 1 as [|l ls [H1 H2] Hs IH]; intros Hne Hso fuel Hf.
  - destruct fuel; reflexivity.
  - destruct (enc_cons_nonempty l ls) as (x & d & E). pose proof (enc_cons_length l ls) as Hl.
    destruct fuel as [|f]; [rewrite E in Hf; simpl in Hf; lia|].
    rewrite E. cbn [st_find_f]. rewrite <- E, enc_cons. destruct l as [k v]. cbn [fst snd] in *.
    simpl in Hne. destruct k as [|c k']; [discriminate|].
    unfold enc_str at 1. rewrite <- app_assoc.
    pose proof (zlen_nonneg (c :: k')). rewrite decode_size_esz by lia2. cbn [bind].
    change ((c :: k') ++ enc_str v ++ enc ls) with (c :: (k' ++ enc_str v ++ enc ls)). cbv iota beta.
    change (c :: (k' ++ enc_str v ++ enc ls)) with ((c :: k') ++ enc_str v ++ enc ls).
    pose proof (sorted_tail _ _ Hso) as Hso'.
    cbn [find_tail].
    destruct (Z.eqb_spec c n0) as [->|Hc].
    + rewrite take_app. cbn [bind]. destruct (str_eqb (n0 :: k') (n0 :: nt)); [reflexivity|].
      unfold enc_str at 1. rewrite <- app_assoc. pose proof (zlen_nonneg v).
      rewrite decode_size_esz by lia2. cbn [bind]. rewrite skip_app. apply IH; auto; lia.
    + rewrite (first_byte_ne c k' n0 nt Hc).
      destruct (Z.gtb_spec c n0) as [Hgt|Hle].
      * f_equal. symmetry. apply sorted_gt_lkp; auto. destruct ls as [|b t]; auto.
        apply sorted_head in Hso. simpl in Hso. eapply str_ltb_trans; [|exact Hso]. apply first_byte_gt. lia.
      * rewrite skip_app. unfold enc_str at 1. rewrite <- app_assoc. pose proof (zlen_nonneg v).
        rewrite decode_size_esz by lia2. cbn [bind]. rewrite skip_app. apply IH; auto; lia.
Qed.

Lemma find_tail_lkp ls name : all_short ls ->
  match find_tail ls name with
  | Some r1 => exists v r, lkp ls name = Some v /\ decode_string r1 = Ok (v, r)
  | None => lkp ls name = None
  end.
Proof.
  induction 1 as [|[k v] ls [H1 H2] Hs IH]; simpl; auto.
  destruct (str_eqb k name); auto. exists v, (enc ls). split; auto. apply decode_string_enc; auto.
Qed.

(* Get / Has on the encoded form are the map's lookup *)
Lemma st_get_enc ls name : all_short ls -> nonempty_names ls = true -> strictly_sorted ls = true ->
  st_get (enc ls) name = Ok (match lkp ls name with Some v => v | None => [] end).
Proof.
  intros Hs Hne Hso. destruct name as [|n0 nt].
  - simpl. assert (lkp ls [] = None) as ->; auto.
    clear Hs Hso. induction ls as [|[k v] t IH]; simpl in *; auto.
    destruct k; [discriminate|]. simpl. auto.
  - unfold st_get. rewrite st_find_enc by auto. cbn [bind].
    pose proof (find_tail_lkp ls (n0 :: nt) Hs) as F. destruct (find_tail ls (n0 :: nt)).
    + destruct F as (v & r & -> & ->). reflexivity.
    + rewrite F. reflexivity.
Qed.
Lemma st_has_enc ls name : all_short ls -> nonempty_names ls = true -> strictly_sorted ls = true ->
  st_has (enc ls) name = Ok (match lkp ls name with Some _ => true | None => false end).
Proof.
  intros Hs Hne Hso. destruct name as [|n0 nt].
  - simpl. assert (lkp ls [] = None) as ->; auto.
    clear Hs Hso. induction ls as [|[k v] t IH]; simpl in *; auto.
    destruct k; [discriminate|]. simpl. auto.
  - unfold st_has. rewrite st_find_enc by auto. cbn [bind].
    pose proof (find_tail_lkp ls (n0 :: nt) Hs) as F. destruct (find_tail ls (n0 :: nt)).
    + destruct F as (v & r & -> & _). reflexivity.
    + rewrite F. reflexivity.
Qed.

(* ------------------------------------------------------------ Builder.Labels: byte level = entry level *)
Lemma enc_app a b : enc (a ++ b) = enc a ++ enc b.
Proof. unfold enc. apply flat_map_app. Qed.
Lemma enc_one l : enc [l] = enc_label l.
Proof. unfold enc. simpl. apply app_nil_r. Qed.
Lemma all_short_tail l ls : all_short (l :: ls) -> all_short ls.
Proof. intros H. inversion H; auto. Qed.
Lemma encode_label_short l : short (fst l) /\ short (snd l) -> encode_label l = Ok (enc_label l).
Proof. intros [H1 H2]. apply encode_label_enc; lia2. Qed.

Lemma emit_lt_enc ad : all_short ad -> forall n buf,
  emit_lt ad n (enc buf) = Ok (fst (ll_emit_lt ad n buf), enc (snd (ll_emit_lt ad n buf)))
  /\ all_short (fst (ll_emit_lt ad n buf)).
Proof.
  induction 1 as [|x t Hx Ht IH]; intros n buf; simpl.
  - split; auto. constructor.
  - destruct (str_ltb (fst x) n).
    + rewrite encode_label_short by auto. cbn [bind]. rewrite <- enc_one, <- enc_app. apply IH.
    + split; auto. constructor; auto.
Qed.
Lemma emit_all_enc ad : all_short ad -> forall buf, emit_all ad (enc buf) = Ok (enc (buf ++ ad)).
Proof.
  induction 1 as [|x t Hx Ht IH]; intros buf; simpl.
  - rewrite app_nil_r. auto.
  - rewrite encode_label_short by auto. cbn [bind]. rewrite <- enc_one, <- enc_app, IH, <- app_assoc. reflexivity.
Qed.

Lemma raw_copy k v rest : firstn (length (enc ((k, v) :: rest)) - length (enc rest)) (enc ((k, v) :: rest)) = enc_label (k, v).
Proof.
  change ((k, v) :: rest) with ([(k, v)] ++ rest). rewrite enc_app, enc_one, app_length.
  replace (length (enc_label (k, v)) + length (enc rest) - length (enc rest))%nat with (length (enc_label (k, v)) + 0)%nat by lia.
  rewrite firstn_app_2. simpl. apply app_nil_r.
Qed.

Lemma st_merge_enc base : all_short base -> forall dl ad buf fuel, all_short ad -> (length (enc base) <= fuel)%nat ->
  st_merge_f fuel (enc base) dl ad (enc buf) = Ok (enc (dd_merge base dl ad buf)).
Proof.
  induction 1 as [|[k v] rest [H1 H2] Hs IH]; intros dl ad buf fuel Had Hf.
  - destruct fuel; simpl; apply emit_all_enc; auto.
  - destruct (enc_cons_nonempty (k, v) rest) as (x & d & E). pose proof (enc_cons_length (k, v) rest) as Hl.
    destruct fuel as [|f]; [rewrite E in Hf; simpl in Hf; lia|].
    rewrite E. cbn [st_merge_f]. rewrite <- E. rewrite enc_cons at 1. cbn [fst snd] in *.
    rewrite decode_string_enc by auto. cbn [bind]. rewrite decode_string_enc by auto. cbn [bind].
    cbn [dd_merge].
    destruct (match drop_lt dl k with x0 :: _ => str_eqb x0 k | [] => false end).
    + apply IH; auto; lia.
    + destruct (emit_lt_enc ad Had k buf) as [-> Had'].
      destruct (ll_emit_lt ad k buf) as [ad' buf'] eqn:El. cbn [fst snd bind] in *.
      rewrite raw_copy.
      destruct ad' as [|y ad''].
      * rewrite <- enc_one, <- enc_app. apply IH; auto; lia.
      * destruct (str_eqb (fst y) k).
        -- inversion Had'; subst. rewrite encode_label_short by auto. cbn [bind].
           rewrite <- enc_one, <- enc_app. apply IH; auto; lia.
        -- rewrite <- enc_one, <- enc_app. apply IH; auto; lia.
Qed.

Lemma sort_labels_short ls : all_short ls -> all_short (sort_labels ls).
Proof.
  unfold sort_labels. intros H.
  assert (G : forall l acc, all_short l -> all_short acc -> all_short (fold_left (fun acc x => ins x acc) l acc)).
  { induction l as [|x l IH]; intros acc Hl Ha; simpl; auto.
    inversion Hl; subst. apply IH; auto. clear IH Hl.
    induction Ha as [|y t Hy Ht IHa]; simpl. { constructor; auto. }
    destruct (str_ltb (fst x) (fst y)); constructor; auto; try (constructor; auto). }
  apply G; auto. constructor.
Qed.

(* Builder.Labels of the stringlabels build on an encoded base = encoding of the entry-level merge *)
Lemma st_blabels_enc base add del : all_short base -> all_short add ->
  st_blabels (enc base) add del = Ok (enc (dd_blabels base add del)).
Proof.
  intros Hb Ha. unfold st_blabels, dd_blabels.
  destruct del, add; auto; rewrite encode_labels_enc by auto; cbn [bind];
    change (@nil Z) with (enc []); apply st_merge_enc; auto; apply sort_labels_short; auto.
Qed.

(* ------------------------------------------------------------ sorting *)
Lemma mem_app k a b : mem k (a ++ b) = mem k a || mem k b.
Proof. unfold mem. apply existsb_app. Qed.
Lemma has_name_app k a b : has_name k (a ++ b) = has_name k a || has_name k b.
Proof. unfold has_name. apply existsb_app. Qed.
Lemma has_name_cons k x l : has_name k (x :: l) = str_eqb (fst x) k || has_name k l.
Proof. reflexivity. Qed.
Lemma lkp_none ls k : has_name k ls = false -> lkp ls k = None.
Proof.
  induction ls as [|[n v] t IH]; simpl; auto. intros H. apply orb_false_elim in H. destruct H as [-> H]. auto.
Qed.
Lemma lkp_some ls k : has_name k ls = true -> exists v, lkp ls k = Some v.
Proof.
  induction ls as [|[n v] t IH]; simpl; [discriminate|]. destruct (str_eqb n k); eauto.
Qed.
Lemma lkp_app a b k : lkp (a ++ b) k = match lkp a k with Some v => Some v | None => lkp b k end.
Proof. induction a as [|[n v] t IH]; simpl; auto. destruct (str_eqb n k); auto. Qed.

Lemma has_name_ins k x l : has_name k (ins x l) = str_eqb (fst x) k || has_name k l.
Proof.
  induction l as [|y t IH]; simpl; auto. destruct (str_ltb (fst x) (fst y)); simpl; auto.
  rewrite IH. destruct (str_eqb (fst x) k), (str_eqb (fst y) k); auto.
Qed.
Lemma lkp_ins k x l : has_name (fst x) l = false ->
  lkp (ins x l) k = if str_eqb (fst x) k then Some (snd x) else lkp l k.
Proof.
  destruct x as [n v]. cbn [fst snd]. induction l as [|[m w] t IH]; simpl; auto. intros H.
  apply orb_false_elim in H. destruct H as [Hm H]. cbn [fst].
  destruct (str_ltb n m); simpl; auto. rewrite IH by auto.
  destruct (str_eqb n k) eqn:E1, (str_eqb m k) eqn:E2; auto.
  apply str_eqb_eq in E1, E2. subst. rewrite str_eqb_refl in Hm. discriminate.
Qed.
Lemma ins_sorted x l : strictly_sorted l = true -> has_name (fst x) l = false -> strictly_sorted (ins x l) = true.
Proof.
  induction l as [|y t IH]; intros Hs Hn; simpl; auto.
  rewrite has_name_cons in Hn. apply orb_false_elim in Hn. destruct Hn as [Hy Hn].
  destruct (str_ltb (fst x) (fst y)) eqn:E.
  - change (str_ltb (fst x) (fst y) && strictly_sorted (y :: t) = true). rewrite E, Hs. auto.
  - assert (Hyx : str_ltb (fst y) (fst x) = true) by (apply str_total; auto; rewrite str_eqb_sym; auto).
    pose proof (IH (sorted_tail _ _ Hs) Hn) as IH'.
    destruct t as [|z t']; simpl.
    + rewrite Hyx. auto.
    + simpl in IH'. destruct (str_ltb (fst x) (fst z)) eqn:E2.
      * rewrite Hyx. exact IH'.
      * rewrite (sorted_head _ _ _ Hs). exact IH'.
Qed.

Lemma sort_fold l : forall acc, nodup_names l = true -> strictly_sorted acc = true ->
  (forall k, has_name k l = true -> has_name k acc = false) ->
  let r := fold_left (fun acc x => ins x acc) l acc in
  strictly_sorted r = true /\
  (forall k, lkp r k = match lkp l k with Some v => Some v | None => lkp acc k end) /\
  (forall k, has_name k r = has_name k l || has_name k acc).
Proof.
  induction l as [|x t IH]; intros acc Hnd Hs Hdis r; subst r.
  - simpl. auto.
  - cbn [fold_left]. simpl in Hnd. apply andb_prop in Hnd. destruct Hnd as [Hx Hnd]. apply negb_true_iff in Hx.
    assert (Hxa : has_name (fst x) acc = false) by (apply Hdis; rewrite has_name_cons, str_eqb_refl; auto).
    destruct (IH (ins x acc) Hnd (ins_sorted x acc Hs Hxa)) as (S1 & S2 & S3).
    { intros k Hk. rewrite has_name_ins. rewrite Hdis by (rewrite has_name_cons, Hk; apply orb_true_r).
      destruct (str_eqb (fst x) k) eqn:E; auto. apply str_eqb_eq in E. subst. congruence. }
    split; [exact S1|]. split; intros k.
    + rewrite S2, lkp_ins by auto. destruct x as [n v]. cbn [fst snd lkp] in *.
      destruct (str_eqb n k) eqn:E; auto. apply str_eqb_eq in E. subst. rewrite (lkp_none t k Hx). auto.
    + rewrite S3, has_name_ins, has_name_cons. destruct (str_eqb (fst x) k), (has_name k t); auto.
Qed.

Lemma sort_labels_spec l : nodup_names l = true ->
  strictly_sorted (sort_labels l) = true /\ (forall k, lkp (sort_labels l) k = lkp l k) /\
  (forall k, has_name k (sort_labels l) = has_name k l).
Proof.
  intros H. destruct (sort_fold l [] H eq_refl (fun _ _ => eq_refl)) as (A & B & C). unfold sort_labels.
  split; auto. split; intros k.
  - rewrite B. destruct (lkp l k); auto.
  - rewrite C. apply orb_false_r.
Qed.

(* a strictly sorted list has unique names *)
Lemma sorted_lt_all a t : strictly_sorted (a :: t) = true -> forall k, has_name k t = true -> str_ltb (fst a) k = true.
Proof.
  revert a. induction t as [|b t IH]; intros a Hs k Hk; [discriminate|].
  rewrite has_name_cons in Hk. pose proof (sorted_head _ _ _ Hs) as Hab.
  destruct (str_eqb (fst b) k) eqn:E.
  - apply str_eqb_eq in E. subst. auto.
  - simpl in Hk. eapply str_ltb_trans; [exact Hab|]. apply IH; auto. eapply sorted_tail; eauto.
Qed.
Lemma sorted_nodup l : strictly_sorted l = true -> nodup_names l = true.
Proof.
  induction l as [|a t IH]; intros Hs; simpl; auto. rewrite (IH (sorted_tail _ _ Hs)), andb_true_r.
  apply negb_true_iff. destruct (has_name (fst a) t) eqn:E; auto.
  pose proof (sorted_lt_all a t Hs _ E) as H. rewrite str_ltb_irrefl in H. discriminate.
Qed.

(* filtering by name *)
Lemma filter_sorted (p : label -> bool) l : strictly_sorted l = true -> strictly_sorted (filter p l) = true.
Proof.
  induction l as [|a t IH]; intros Hs; simpl; auto. pose proof (IH (sorted_tail _ _ Hs)) as IH'.
  destruct (p a); auto. destruct (filter p t) as [|b t'] eqn:E; auto.
  change (str_ltb (fst a) (fst b) && strictly_sorted (b :: t') = true). rewrite IH', andb_true_r.
  apply (sorted_lt_all a t Hs). assert (In b (filter p t)) as Hin by (rewrite E; left; auto).
  apply filter_In in Hin. destruct Hin as [Hin _]. unfold has_name. apply existsb_exists. exists b. split; auto. apply str_eqb_refl.
Qed.
Lemma lkp_filter (q : str -> bool) l k : lkp (filter (fun x => q (fst x)) l) k = if q k then lkp l k else None.
Proof.
  induction l as [|[n v] t IH]; simpl; [destruct (q k); auto|]. cbn [fst].
  destruct (q n) eqn:Q; simpl; destruct (str_eqb n k) eqn:E; auto;
    try (apply str_eqb_eq in E; subst; rewrite ?IH, ?Q; auto).
Qed.
Lemma has_name_filter (q : str -> bool) l k : has_name k (filter (fun x => q (fst x)) l) = q k && has_name k l.
Proof.
  induction l as [|[n v] t IH]; simpl; [rewrite andb_false_r; auto|]. cbn [fst].
  destruct (q n) eqn:Q; simpl; rewrite IH; destruct (str_eqb n k) eqn:E; simpl; auto;
    try (apply str_eqb_eq in E; subst; rewrite ?Q; simpl; auto); try (destruct (q k); auto).
Qed.

(* ------------------------------------------------------------ Builder = map semantics (list level) *)
Definition bst := bstate I_slice.
Definition mkBs (base : list label) (del : list str) (add : list label) : bst := mkB I_slice base del add.
Definition bbase (b : bst) : list label := b_base I_slice b.
Definition bdel (b : bst) : list str := b_del I_slice b.
Definition badd (b : bst) : list label := b_add I_slice b.
Definition no_empty_vals (l : list label) : bool := forallb (fun x => match snd x with [] => false | _ => true end) l.

(* the map a Builder denotes, and which names are pending additions *)
Definition bview (b : bst) (k : str) : option str :=
  if has_name k (badd b) then lkp (badd b) k else if mem k (bdel b) then None else lkp (bbase b) k.
Definition badded (b : bst) (k : str) : bool := has_name k (badd b).
Definition binv (b : bst) : Prop :=
  nodup_names (badd b) = true /\ no_empty_vals (badd b) = true /\ strictly_sorted (bbase b) = true /\
  (forall x, In x (bbase b) -> snd x = [] -> mem (fst x) (bdel b) = true).

Lemma forallb_ins (p : label -> bool) x l : forallb p (ins x l) = p x && forallb p l.
Proof.
  induction l as [|y t IH]; simpl; auto. destruct (str_ltb (fst x) (fst y)); simpl; auto.
  rewrite IH. destruct (p x), (p y); auto.
Qed.
Lemma forallb_sort (p : label -> bool) l : forallb p (sort_labels l) = forallb p l.
Proof.
  unfold sort_labels. assert (G : forall l acc, forallb p (fold_left (fun acc x => ins x acc) l acc) = forallb p l && forallb p acc).
  { induction l0 as [|x t IH]; intros acc; simpl; auto. rewrite IH, forallb_ins. destruct (p x), (forallb p t); auto. }
  rewrite G. simpl. apply andb_true_r.
Qed.

Lemma blabels_body base add del :
  nodup_names add = true -> no_empty_vals add = true -> strictly_sorted base = true ->
  (forall x, In x base -> snd x = [] -> mem (fst x) del = true) ->
  let res := filter (fun l => negb (mem (fst l) del || has_name (fst l) add)) base in
  let r := match add with [] => res | _ => sort_labels (res ++ add) end in
  strictly_sorted r = true /\ no_empty_vals r = true /\
  forall k, lkp r k = if has_name k add then lkp add k else if mem k del then None else lkp base k.
Proof.
  intros Hnd Hne Hso Hemp res r.
  assert (Sres : strictly_sorted res = true) by (apply filter_sorted; auto).
  assert (Eres : no_empty_vals res = true).
  { apply forallb_forall. intros x Hx. apply filter_In in Hx. destruct Hx as [Hin Hp].
    destruct (snd x) eqn:E; auto. rewrite (Hemp x Hin E) in Hp. discriminate. }
  assert (Lres : forall k, lkp res k = if negb (mem k del || has_name k add) then lkp base k else None).
  { intros k. apply (lkp_filter (fun n => negb (mem n del || has_name n add))). }
  assert (Hres : forall k, has_name k res = negb (mem k del || has_name k add) && has_name k base).
  { intros k. apply (has_name_filter (fun n => negb (mem n del || has_name n add))). }
  assert (Fin : forall k, (match lkp res k with Some v => Some v | None => lkp add k end)
                          = if has_name k add then lkp add k else if mem k del then None else lkp base k).
  { intros k. rewrite Lres. destruct (has_name k add) eqn:A.
    - rewrite orb_true_r. reflexivity.
    - rewrite orb_false_r, (lkp_none add k A). destruct (mem k del); simpl; auto. destruct (lkp base k); auto. }
  destruct add as [|a add'].
  - subst r. split; auto. split; auto. intros k. rewrite <- Fin. simpl. destruct (lkp res k); auto.
  - assert (ND : nodup_names (res ++ a :: add') = true).
    { clear - Sres Hnd Hres. pose proof (sorted_nodup _ Sres) as N.
      assert (D : forall k, has_name k res = true -> has_name k (a :: add') = false).
      { intros k Hk. rewrite Hres in Hk. apply andb_prop in Hk. destruct Hk as [Hk _].
        apply negb_true_iff, orb_false_elim in Hk. tauto. }
      revert Hnd N D. generalize (a :: add') as ad, res as rs. intros ad rs.
      induction rs as [|x t IH]; intros Hnd N D; simpl; auto.
      simpl in N. apply andb_prop in N. destruct N as [N1 N2]. rewrite IH; auto.
      - rewrite andb_true_r, has_name_app. apply negb_true_iff in N1. rewrite N1.
        rewrite (D (fst x)); auto. rewrite has_name_cons, str_eqb_refl. auto.
      - intros k Hk. apply D. rewrite has_name_cons, Hk. apply orb_true_r. }
    destruct (sort_labels_spec _ ND) as (S1 & S2 & _). subst r. split; auto. split.
    + unfold no_empty_vals. rewrite forallb_sort, forallb_app. apply andb_true_intro. split; [exact Eres | exact Hne].
    + intros k. rewrite S2, lkp_app. apply Fin.
Qed.

Lemma sl_blabels_spec (b : bst) : binv b ->
  let r := sl_blabels (bbase b) (badd b) (bdel b) in
  strictly_sorted r = true /\ no_empty_vals r = true /\ forall k, lkp r k = bview b k.
Proof.
  destruct b as [base del add]. unfold binv, bview, bbase, badd, bdel. cbn [b_base b_del b_add].
  intros (Hnd & Hne & Hso & Hemp).
  pose proof (blabels_body base add del Hnd Hne Hso Hemp) as B. cbv zeta in B.
  unfold sl_blabels. destruct del as [|d del'].
  - destruct add as [|a add']; [|exact B].
    split; auto. split; auto.
    apply forallb_forall. intros x Hx. destruct (snd x) eqn:E; auto. specialize (Hemp x Hx E). discriminate.
  - destruct add; exact B.
Qed.

(* ---- the specification: a map and the set of names with a pending addition *)
Definition upd {A} (f : str -> A) (n : str) (x : A) : str -> A := fun k => if str_eqb n k then x else f k.
Definition spec_state := ((str -> option str) * (str -> bool))%type.
Definition spec_del (s : spec_state) (n : str) : spec_state := (upd (fst s) n None, upd (snd s) n false).
Definition spec_step (s : spec_state) (o : op) : spec_state :=
  match o with
  | OBSet n [] => spec_del s n                                   (* Set(n, "") = Del(n) *)
  | OBSet n v => (upd (fst s) n (Some v), upd (snd s) n true)
  | OBDel ns => fold_left spec_del ns s
  | OBKeep ns => (fun k => if snd s k || mem k ns then fst s k else None, snd s)
  | _ => s
  end.
Definition spec_init (base : list label) : spec_state :=
  (fun k => match lkp base k with Some [] => None | o => o end, fun _ => false).

Definition b_keep_sl (b : bst) (ns : list str) : bst :=
  mkBs (bbase b) (bdel b ++ map fst (filter (fun l => negb (mem (fst l) ns)) (bbase b))) (badd b).
Definition b_reset_sl (base : list label) : bst :=
  mkBs base (map fst (filter (fun l => match snd l with [] => true | _ => false end) base)) [].
Definition bstep (b : bst) (o : op) : bst :=
  match o with
  | OBSet n v => b_set I_slice b n v
  | OBDel ns => b_delete I_slice b ns
  | OBKeep ns => b_keep_sl b ns
  | _ => b
  end.
Lemma b_keep_slice b ns : b_keep I_slice b ns = Ok (b_keep_sl b ns).
Proof. reflexivity. Qed.
Lemma b_reset_slice base : b_reset I_slice base = Ok (b_reset_sl base).
Proof. reflexivity. Qed.

Definition sim (b : bst) (s : spec_state) : Prop :=
  binv b /\ (forall k, bview b k = fst s k) /\ (forall k, badded b k = snd s k).

Lemma nodup_filter_q (q : str -> bool) l : nodup_names l = true -> nodup_names (filter (fun x => q (fst x)) l) = true.
Proof.
  induction l as [|x t IH]; simpl; auto. intros H. apply andb_prop in H. destruct H as [H1 H2].
  destruct (q (fst x)) eqn:Q; simpl; auto. rewrite IH by auto. rewrite andb_true_r.
  rewrite (has_name_filter q). apply negb_true_iff in H1. rewrite H1. rewrite andb_false_r. auto.
Qed.
Lemma no_empty_filter (p : label -> bool) l : no_empty_vals l = true -> no_empty_vals (filter p l) = true.
Proof.
  unfold no_empty_vals. intros H. apply forallb_forall. intros x Hx. apply filter_In in Hx.
  rewrite forallb_forall in H. apply H. tauto.
Qed.
Lemma mem_sym_cons k n l : mem k (n :: l) = str_eqb n k || mem k l.
Proof. unfold mem. simpl. rewrite str_eqb_sym. reflexivity. Qed.

Ltac unf := unfold sim, binv in *; unfold bview, badded, b_keep_sl, b_reset_sl in *; unfold mkBs in *;
  unfold bbase, bdel, badd in *; cbn [b_del1 b_set b_base b_del b_add spec_step spec_del spec_init fst snd] in *.

Lemma sim_del1 b s n : sim b s -> sim (b_del1 I_slice b n) (spec_del s n).
Proof.
  destruct b as [base del add]. intros ((Hnd & Hne & Hso & Hemp) & Hv & Ha).
  unf.
  pose proof (has_name_filter (fun m => negb (str_eqb m n)) add) as HF.
  pose proof (fun k => lkp_filter (fun m => negb (str_eqb m n)) add k) as LF. cbv beta in HF, LF.
  split; [|split].
  - split; [apply (nodup_filter_q (fun m => negb (str_eqb m n))); auto|].
    split; [apply no_empty_filter; auto|]. split; auto.
    intros x Hx E. rewrite mem_app, (Hemp x Hx E). auto.
  - intros k. rewrite HF, LF, mem_app. unfold upd. rewrite <- Hv. rewrite (str_eqb_sym n k).
    change (mem k [n]) with (str_eqb k n || false). destruct (str_eqb k n); simpl.
    + rewrite orb_true_r. reflexivity.
    + rewrite !orb_false_r. reflexivity.
  - intros k. rewrite HF. unfold upd. rewrite <- Ha, (str_eqb_sym n k). destruct (str_eqb k n); auto.
Qed.
Lemma sim_delete ns : forall b s, sim b s -> sim (b_delete I_slice b ns) (fold_left spec_del ns s).
Proof.
  unfold b_delete. induction ns as [|n t IH]; intros b s H; simpl; auto. apply IH. apply sim_del1; auto.
Qed.

Lemma set_in_none add n v : has_name n add = false -> set_in add n v = None.
Proof.
  induction add as [|a t IH]; simpl; auto. intros H. apply orb_false_elim in H. destruct H as [-> H].
  rewrite IH; auto.
Qed.
Lemma set_in_some add n v : has_name n add = true -> v <> [] -> nodup_names add = true -> no_empty_vals add = true ->
  exists add', set_in add n v = Some add' /\ (forall k, has_name k add' = has_name k add) /\
               (forall k, lkp add' k = if str_eqb n k then Some v else lkp add k) /\
               nodup_names add' = true /\ no_empty_vals add' = true.
Proof.
  intros H Hv. induction add as [|[m w] t IH]; simpl in *; [discriminate|]. intros Hnd Hne.
  apply andb_prop in Hnd, Hne. destruct Hnd as [N1 N2], Hne as [E1 E2]. cbn [fst snd] in *.
  destruct (str_eqb m n) eqn:E.
  - apply str_eqb_eq in E. subst m. exists ((n, v) :: t). split; auto. split; [intros k; reflexivity|].
    split; [intros k; simpl; destruct (str_eqb n k); auto|]. split; simpl; [rewrite N1, N2; auto|].
    cbn [snd]. rewrite E2. destruct v; [congruence|auto].
  - simpl in H. destruct (IH H N2 E2) as (t' & -> & A & B & C & D). exists ((m, w) :: t'). split; auto.
    split; [intros k; simpl; rewrite A; auto|].
    split; [intros k; simpl; rewrite B; destruct (str_eqb m k) eqn:E3, (str_eqb n k) eqn:E4; auto;
            apply str_eqb_eq in E3, E4; subst; rewrite str_eqb_refl in E; discriminate|].
    split; simpl; cbn [fst snd]; [rewrite A, N1, C; auto | rewrite E1, D; auto].
Qed.

Lemma sim_set b s n v : sim b s -> sim (b_set I_slice b n v) (spec_step s (OBSet n v)).
Proof.
  destruct v as [|c v']; [apply (sim_delete [n])|].
  destruct b as [base del add]. intros ((Hnd & Hne & Hso & Hemp) & Hv & Ha).
  unf.
  destruct (has_name n add) eqn:Hn.
  - destruct (set_in_some add n (c :: v') Hn ltac:(discriminate) Hnd Hne) as (add' & -> & A & B & C & D).
    cbn [b_base b_del b_add]. split; [|split].
    + repeat split; auto.
    + intros k. rewrite A, B. unfold upd. rewrite <- Hv. destruct (str_eqb n k) eqn:E; auto.
      apply str_eqb_eq in E. subst. rewrite Hn. auto.
    + intros k. rewrite A. unfold upd. rewrite <- Ha. destruct (str_eqb n k) eqn:E; auto.
      apply str_eqb_eq in E. subst. auto.
  - rewrite (set_in_none add n _ Hn). cbn [b_base b_del b_add]. split; [|split].
    + split.
      { clear - Hnd Hn. induction add as [|a t IH]; simpl in *; auto.
        apply andb_prop in Hnd. destruct Hnd as [N1 N2]. apply orb_false_elim in Hn. destruct Hn as [H1 H2].
        rewrite IH by auto. rewrite andb_true_r, has_name_app. apply negb_true_iff in N1. rewrite N1. simpl.
        rewrite str_eqb_sym, H1. auto. }
      split; [unfold no_empty_vals; rewrite forallb_app; apply andb_true_intro; split; [exact Hne | reflexivity]|]. split; auto.
    + intros k. rewrite has_name_app, lkp_app. unfold upd. rewrite <- Hv. simpl. rewrite orb_false_r.
      destruct (str_eqb n k) eqn:E.
      * apply str_eqb_eq in E. subst. rewrite Hn, (lkp_none add k Hn). simpl. auto.
      * rewrite orb_false_r. destruct (has_name k add) eqn:Hk; auto.
        destruct (lkp_some add k Hk) as (w & ->). auto.
    + intros k. rewrite has_name_app. unfold upd. rewrite <- Ha. simpl. rewrite orb_false_r.
      destruct (str_eqb n k); auto using orb_true_r, orb_false_r.
Qed.

Lemma mem_map_filter (p : str -> bool) base k :
  mem k (map fst (filter (fun l : label => p (fst l)) base)) = p k && has_name k base.
Proof.
  induction base as [|[m w] t IH]; [simpl; rewrite andb_false_r; auto|].
  cbn [filter fst]. rewrite has_name_cons. cbn [fst]. destruct (p m) eqn:P.
  - cbn [map fst]. rewrite mem_sym_cons, IH. destruct (str_eqb m k) eqn:E; simpl; auto.
    apply str_eqb_eq in E; subst. rewrite P. auto.
  - rewrite IH. destruct (str_eqb m k) eqn:E; simpl; auto. apply str_eqb_eq in E; subst. rewrite P. auto.
Qed.

Lemma sim_keep b s ns : sim b s -> sim (b_keep_sl b ns) (spec_step s (OBKeep ns)).
Proof.
  destruct b as [base del add]. intros ((Hnd & Hne & Hso & Hemp) & Hv & Ha).
  unf.
  split; [|split]; auto.
  - repeat split; auto. intros x Hx E. rewrite mem_app, (Hemp x Hx E). auto.
  - intros k. rewrite mem_app, (mem_map_filter (fun m => negb (mem m ns))). rewrite <- Hv, <- Ha.
    destruct (has_name k add); simpl; auto. destruct (mem k ns); simpl.
    + rewrite orb_false_r. reflexivity.
    + destruct (mem k del); simpl; auto. destruct (has_name k base) eqn:Hb; auto. apply lkp_none; auto.
Qed.

Lemma sim_steps ops : forall b s, sim b s -> sim (fold_left bstep ops b) (fold_left spec_step ops s).
Proof.
  induction ops as [|o t IH]; intros b s H; simpl; auto. apply IH.
  destruct o; try exact H; [apply sim_set | apply sim_delete | apply sim_keep]; exact H.
Qed.

Lemma mem_empties base k : strictly_sorted base = true ->
  mem k (map fst (filter (fun l : label => match snd l with [] => true | _ => false end) base))
  = match lkp base k with Some [] => true | _ => false end.
Proof.
  induction base as [|[m w] t IH]; intros Hs; [reflexivity|]. specialize (IH (sorted_tail _ _ Hs)).
  pose proof (sorted_nodup _ Hs) as Hn. simpl in Hn. apply andb_prop in Hn. destruct Hn as [Hn _]. apply negb_true_iff in Hn.
  cbn [filter snd lkp]. destruct w as [|c w'].
  - cbn [map fst]. rewrite mem_sym_cons, IH. destruct (str_eqb m k); simpl; auto.
  - rewrite IH. destruct (str_eqb m k) eqn:E; auto. apply str_eqb_eq in E; subst. rewrite (lkp_none t k Hn). auto.
Qed.
Lemma sim_reset base : strictly_sorted base = true -> sim (b_reset_sl base) (spec_init base).
Proof.
  intros Hs. unf.
  split; [|split]; auto.
  - repeat split; auto. intros x Hx E.
    unfold mem. apply existsb_exists. exists (fst x). split; [|apply str_eqb_refl].
    apply in_map. apply filter_In. split; auto. destruct x as [xn xv]. simpl in E |- *. subst xv. reflexivity.
  - intros k. simpl. rewrite mem_empties by auto. destruct (lkp base k) as [[|]|]; auto.
Qed.

(* every Builder operation sequence on a sorted base: Labels() is the canonical (strictly
   name-sorted, no empty values) list of exactly the specified map *)
Lemma builder_map_semantics base ops : strictly_sorted base = true ->
  let b := fold_left bstep ops (b_reset_sl base) in
  let r := sl_blabels (bbase b) (badd b) (bdel b) in
  strictly_sorted r = true /\ no_empty_vals r = true /\
  forall k, lkp r k = fst (fold_left spec_step ops (spec_init base)) k.
Proof.
  intros Hs b r. destruct (sim_steps ops _ _ (sim_reset base Hs)) as (I1 & V & _). fold b in I1, V.
  destruct (sl_blabels_spec b I1) as (A & B & C). fold r in A, B, C.
  split; auto. split; auto. intros k. rewrite C. apply V.
Qed.

(* ------------------------------------------------------------ statements used by props/C39.v *)
Lemma sl_get_lkp ls k : sl_get ls k = match lkp ls k with Some v => v | None => [] end.
Proof. induction ls as [|[n v] t IH]; simpl; auto. destruct (str_eqb n k); auto. Qed.
Lemma sl_has_lkp ls k : sl_has ls k = match lkp ls k with Some _ => true | None => false end.
Proof.
  unfold sl_has. induction ls as [|[n v] t IH]; simpl; auto. destruct (str_eqb n k); auto.
Qed.

Lemma string_abs ls : all_short ls ->
  exists d, encode_labels ls = Ok d /\ st_range d = Ok ls /\ st_len d = Ok (zlen ls).
Proof.
  intros H. exists (enc ls). split; [apply encode_labels_enc; auto|]. split.
  - apply st_range_enc; auto.
  - unfold st_len. rewrite st_len_enc; auto.
Qed.
Lemma string_inj a b da db : all_short a -> all_short b -> encode_labels a = Ok da -> encode_labels b = Ok db ->
  (da = db <-> a = b).
Proof.
  intros Ha Hb Ea Eb. rewrite encode_labels_enc in Ea, Eb by auto. inversion Ea; inversion Eb; subst.
  split; [apply enc_inj; auto | intros ->; auto].
Qed.
Lemma wf_split ls : wf_labels ls = true -> strictly_sorted ls = true /\ nonempty_names ls = true.
Proof. unfold wf_labels. intros H. apply andb_prop in H. exact H. Qed.
Lemma string_lookup ls d name : all_short ls -> wf_labels ls = true -> encode_labels ls = Ok d ->
  st_get d name = Ok (match lkp ls name with Some v => v | None => [] end) /\
  st_has d name = Ok (match lkp ls name with Some _ => true | None => false end).
Proof.
  intros Hs Hw E. destruct (wf_split _ Hw). rewrite encode_labels_enc in E by auto. inversion E; subst.
  split; [apply st_get_enc | apply st_has_enc]; auto.
Qed.

(* New / FromStrings / FromMap: both builds yield the same iteration, length and lookups *)
Lemma nonempty_names_sort ls : nonempty_names (sort_labels ls) = nonempty_names ls.
Proof. apply forallb_sort. Qed.
Lemma new_observations ls : all_short ls -> nodup_names ls = true -> nonempty_names ls = true ->
  exists d, st_new ls = Ok d /\
    st_range d = Ok (sort_labels ls) /\ st_len d = Ok (zlen (sort_labels ls)) /\
    wf_labels (sort_labels ls) = true /\
    (forall k, lkp (sort_labels ls) k = lkp ls k) /\
    (forall k, st_get d k = Ok (sl_get (sort_labels ls) k) /\ st_has d k = Ok (sl_has (sort_labels ls) k)).
Proof.
  intros Hs Hn Hne. pose proof (sort_labels_short ls Hs) as Hs'.
  destruct (sort_labels_spec ls Hn) as (S1 & S2 & _).
  assert (W : wf_labels (sort_labels ls) = true) by (unfold wf_labels; rewrite S1, nonempty_names_sort, Hne; auto).
  destruct (string_abs _ Hs') as (d & E & R & Ln). exists d. unfold st_new. split; auto. split; auto. split; auto.
  split; auto. split; auto. intros k. rewrite sl_get_lkp, sl_has_lkp. apply string_lookup; auto.
Qed.

Lemma len_2pow24_old_refuted : exists s e, zlen s = two24 /\ encode_str_old s = Ok e /\ decode_string e = Ok ([], s).
Proof.
  exists (rep two24 120). exists (enc_str (rep two24 120)).
  assert (H : zlen (rep two24 120) = two24).
  { unfold zlen, rep. rewrite repeat_length. apply Z2Nat.id. unfold two24. lia. }
  destruct (len_2pow24_corrupts _ [] H) as [A B]. rewrite !app_nil_r in B. auto.
Qed.

Definition s_a : str := [97].  Definition s_b : str := [98].  Definition s_1 : str := [49].  Definition s_2 : str := [50].
(* outside the ScratchBuilder protocol the builds differ by design: Add; Assign(empty); Labels *)
Lemma any_sequence_refuted : exists ops tS tL,
  protocol_ok ops = false /\ run I_string [] [] ops = Ok tS /\ run I_slice [] [] ops = Ok tL /\
  map o_range (t_regs tS) <> map o_range (t_regs tL).
Proof.
  exists [OSAdd s_a s_1; OSAssign 3; OSLabels 0]. eexists. eexists.
  split; [reflexivity|]. split; [vm_compute; reflexivity|]. split; [vm_compute; reflexivity|].
  vm_compute. discriminate.
Qed.
(* inside the protocol, Builder.Range after Builder.Labels iterates the pending additions in a
   build-dependent order (sorted in place by stringlabels/dedupelabels only) *)
Lemma builder_range_order_differs : exists ops tS tL,
  protocol_ok ops = true /\ run I_string [] [] ops = Ok tS /\ run I_slice [] [] ops = Ok tL /\
  t_events tS <> t_events tL /\ map o_range (t_regs tS) = map o_range (t_regs tL).
Proof.
  exists [OBSet s_b s_1; OBSet s_a s_2; OBLabels 0; OBRange]. eexists. eexists.
  split; [reflexivity|]. split; [vm_compute; reflexivity|]. split; [vm_compute; reflexivity|].
  split; vm_compute; [discriminate | reflexivity].
Qed.

Lemma scratch_sort adds : nodup_names adds = true ->
  strictly_sorted (sort_labels adds) = true /\ (forall k, lkp (sort_labels adds) k = lkp adds k) /\
  (forall k, has_name k (sort_labels adds) = has_name k adds).
Proof. apply sort_labels_spec. Qed.

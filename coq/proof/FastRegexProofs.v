(* proof/FastRegexProofs.v — proofs about model/FastRegex.v (property C17). *)
From Coq Require Import List ZArith Bool Lia.
From Verif Require Import lib.Regex lib.RegexProofs model.FastRegex.
Import ListNotations.
Open Scope Z_scope.

(* ---- induction principle for the nested syntax tree *)
Section ReInd.
Variable P : re -> Prop.
Hypothesis H_nomatch : P RNoMatch.
Hypothesis H_empty : forall f, P (REmpty f).
Hypothesis H_lit : forall f rs, P (RLit f rs).
Hypothesis H_class : forall f rg, P (RClass f rg).
Hypothesis H_any : P RAny.
Hypothesis H_anynl : P RAnyNotNL.
Hypothesis H_beg : P RBeginText.
Hypothesis H_end : P REndText.
Hypothesis H_cap : forall r, P r -> P (RCapture r).
Hypothesis H_star : forall r, P r -> P (RStar r).
Hypothesis H_plus : forall r, P r -> P (RPlus r).
Hypothesis H_quest : forall r, P r -> P (RQuest r).
Hypothesis H_rep : forall mn mx r, P r -> P (RRepeat mn mx r).
Hypothesis H_concat : forall l, Forall P l -> P (RConcat l).
Hypothesis H_alt : forall l, Forall P l -> P (RAlt l).

Fixpoint re_ind' (r : re) : P r :=
  match r with
  | RNoMatch => H_nomatch
  | REmpty f => H_empty f
  | RLit f rs => H_lit f rs
  | RClass f rg => H_class f rg
  | RAny => H_any
  | RAnyNotNL => H_anynl
  | RBeginText => H_beg
  | REndText => H_end
  | RCapture x => H_cap x (re_ind' x)
  | RStar x => H_star x (re_ind' x)
  | RPlus x => H_plus x (re_ind' x)
  | RQuest x => H_quest x (re_ind' x)
  | RRepeat mn mx x => H_rep mn mx x (re_ind' x)
  | RConcat l => H_concat l ((fix go (l : list re) : Forall P l :=
                                match l with
                                | [] => Forall_nil P
                                | x :: t => Forall_cons x (re_ind' x) (go t)
                                end) l)
  | RAlt l => H_alt l ((fix go (l : list re) : Forall P l :=
                          match l with
                          | [] => Forall_nil P
                          | x :: t => Forall_cons x (re_ind' x) (go t)
                          end) l)
  end.
End ReInd.

(* ---- basic string facts *)
Lemma str_eqb_eq : forall a b, str_eqb a b = true <-> a = b.
Proof.
  induction a as [| x a IH]; destruct b as [| y b]; simpl; split; intros H; try discriminate; auto.
  - apply andb_true_iff in H. destruct H as [H1 H2]. apply Z.eqb_eq in H1. apply IH in H2. congruence.
  - inversion H; subst. rewrite Z.eqb_refl. simpl. now apply IH.
Qed.

Lemma mem_str_In : forall s l, mem_str s l = true <-> In s l.
Proof.
  intros s l. unfold mem_str. rewrite existsb_exists. split.
  - intros (x & Hx & E). apply str_eqb_eq in E. now subst.
  - intros H. exists s. split; auto. now apply str_eqb_eq.
Qed.

Lemma is_prefix_spec : forall p s, is_prefix p s = true <-> exists r, s = p ++ r.
Proof.
  induction p as [| x p IH]; intros s; simpl.
  - split; eauto.
  - destruct s as [| y s].
    + split; [discriminate | intros (r & Hr); discriminate].
    + rewrite andb_true_iff, Z.eqb_eq, IH. split.
      * intros (-> & r & ->). eauto.
      * intros (r & Hr). inversion Hr; subst. eauto.
Qed.

Lemma skipn_app_len {A} (p r : list A) : skipn (length p) (p ++ r) = r.
Proof. induction p; simpl; auto. Qed.

Section P.
Variable F : rune -> rune -> bool.
Notation CM := (CM F).

Definition ML (b e : bool) (r : re) (s : str) : Prop := CM b e (lower r) s.

(* ---- the language of literals, concatenations, alternations *)
Lemma lit_cs_spec : forall rs b e s,
  CM b e (ccat_list (map (fun c => CChr (PLit false c)) rs)) s <-> s = rs.
Proof.
  induction rs as [| x rs IH]; intros b e s; simpl.
  - split; [apply CM_eps_inv | intros ->; constructor].
  - split.
    + intros H. apply CM_cat_inv in H. destruct H as (s1 & s2 & -> & H1 & H2).
      apply CM_chr_inv in H1. destruct H1 as (c & -> & Hc). simpl in Hc.
      rewrite orb_false_r in Hc. apply Z.eqb_eq in Hc. subst c.
      apply IH in H2. now subst.
    + intros ->. change (x :: rs) with ([x] ++ rs). apply CM_cat.
      * constructor. simpl. now rewrite Z.eqb_refl.
      * now apply IH.
Qed.

Lemma ML_concat_cons b e x t s :
  ML b e (RConcat (x :: t)) s <->
  exists s1 s2, s = s1 ++ s2 /\ ML b (e && isnil s2) x s1 /\ ML (b && isnil s1) e (RConcat t) s2.
Proof.
  unfold ML. simpl. split.
  - apply CM_cat_inv.
  - intros (s1 & s2 & -> & H1 & H2). now apply CM_cat.
Qed.

Lemma ML_concat_nil b e s : ML b e (RConcat []) s <-> s = [].
Proof. unfold ML. simpl. split; [apply CM_eps_inv | intros ->; constructor]. Qed.

Lemma ML_alt_cons b e x t s : ML b e (RAlt (x :: t)) s <-> ML b e x s \/ ML b e (RAlt t) s.
Proof.
  unfold ML. simpl. split.
  - apply CM_alt_inv.
  - intros [H | H]; [now apply CM_altl | now apply CM_altr].
Qed.

Lemma ML_alt_nil b e s : ML b e (RAlt []) s <-> False.
Proof. unfold ML. simpl. split; [apply CM_none_inv | tauto]. Qed.

(* ---- findSetMatches: case-sensitive results are exactly the language *)
Definition fsm_ok (r : re) : Prop :=
  forall base ms, fsm r base = (ms, true) -> ms <> [] ->
  exists ms', ms = map (app base) ms' /\ forall b e s, ML b e r s <-> In s ms'.

Lemma range_runes_spec lo hi c : In c (range_runes lo hi) <-> lo <= c <= hi.
Proof.
  unfold range_runes. rewrite in_map_iff. split.
  - intros (k & <- & Hk). apply in_seq in Hk. lia.
  - intros H. exists (Z.to_nat (c - lo)). split; [lia |]. apply in_seq. lia.
Qed.

Lemma fsm_ok_class f rg : fsm_ok (RClass f rg).
Proof.
  intros base ms H Hne. simpl in H.
  destruct (_ >? max_set_matches); [inversion H; subst; congruence |].
  inversion H; subst. clear H.
  exists (flat_map (fun p => map (fun c => [c]) (range_runes (fst p) (snd p))) rg). split.
  - clear Hne. induction rg as [| p rg IH]; simpl; auto.
    rewrite map_app, map_map. f_equal. apply IH.
  - intros b e s. unfold ML. simpl. rewrite in_flat_map. split.
    + intros H. apply CM_chr_inv in H. destruct H as (c & -> & Hc). simpl in Hc.
      unfold in_ranges in Hc. apply existsb_exists in Hc. destruct Hc as (p & Hp & Hc).
      exists p. split; auto. apply in_map_iff. exists c. split; auto.
      apply range_runes_spec. lia.
    + intros (p & Hp & Hs). apply in_map_iff in Hs. destruct Hs as (c & <- & Hc).
      apply range_runes_spec in Hc. constructor. simpl. unfold in_ranges.
      apply existsb_exists. exists p. split; auto. lia.
Qed.

(* -- alternation loop *)
Lemma alt_loop_const : forall l base acc cs ms cs',
  alt_loop fsm l base false acc cs = (ms, cs') -> ms <> [] -> cs = cs'.
Proof.
  induction l as [| x t IH]; intros base acc cs ms cs' H Hne; simpl in H.
  - now inversion H.
  - destruct (fsm x base) as [found c].
    destruct (isnil found); [inversion H; subst; congruence |].
    destruct (too_many acc found); [inversion H; subst; congruence |].
    destruct (negb (Bool.eqb cs c)); [inversion H; subst; congruence |].
    eapply IH; eauto.
Qed.

Lemma alt_loop_ok : forall l base first acc' ms,
  Forall fsm_ok l ->
  alt_loop fsm l base first (map (app base) acc') (if first then false else true) = (ms, true) ->
  ms <> [] ->
  exists ms', ms = map (app base) ms' /\
              forall b e s, (In s acc' \/ ML b e (RAlt l) s) <-> In s ms'.
Proof.
  induction l as [| x t IH]; intros base first acc' ms HF H Hne; simpl in H.
  - inversion H; subst. exists acc'. split; auto. intros b e s. rewrite ML_alt_nil. tauto.
  - inversion HF as [| ? ? Hx Ht]; subst.
    destruct (fsm x base) as [found c] eqn:Ef.
    destruct (isnil found) eqn:En; [inversion H; subst; congruence |].
    destruct (too_many _ found); [inversion H; subst; congruence |].
    remember (if first then c else (if first then false else true)) as cs' eqn:Ecs'.
    destruct (negb (Bool.eqb cs' c)) eqn:Ec; [inversion H; subst; congruence |].
    apply negb_false_iff, eqb_prop in Ec.
    assert (Hcs : cs' = true) by (eapply alt_loop_const; eauto).
    assert (Hc : c = true) by congruence. rewrite Hc in Ef. rewrite Hcs in H. clear Ecs' Ec.
    destruct (Hx base found Ef) as (f' & -> & Hf').
    { intros ->. discriminate. }
    rewrite <- map_app in H.
    destruct (IH base false (acc' ++ f') ms Ht H Hne) as (ms' & -> & Hms').
    exists ms'. split; auto. intros b e s. specialize (Hms' b e s). specialize (Hf' b e s).
    rewrite ML_alt_cons. rewrite in_app_iff in Hms'. tauto.
Qed.

(* -- concatenation loops *)
Lemma inner_loop_const : forall g bs j0 nm mcs nm' mcs',
  inner_loop g false bs j0 nm mcs = Some (nm', mcs') -> mcs = mcs'.
Proof.
  induction bs as [| b bs IH]; intros j0 nm mcs nm' mcs' H; simpl in H.
  - now inversion H.
  - destruct (g b) as [m c]. destruct (isnil m); [discriminate |].
    destruct (too_many nm m); [discriminate |].
    destruct (negb (Bool.eqb mcs c)); [discriminate |]. eapply IH; eauto.
Qed.

Lemma inner_loop_const' : forall g i0 bs nm mcs nm' mcs',
  inner_loop g i0 bs false nm mcs = Some (nm', mcs') -> mcs = mcs'.
Proof.
  induction bs as [| b bs IH]; intros nm mcs nm' mcs' H; simpl in H.
  - now inversion H.
  - destruct (g b) as [m c]. destruct (isnil m); [discriminate |].
    destruct (too_many nm m); [discriminate |]. rewrite andb_false_r in H.
    destruct (negb (Bool.eqb mcs c)); [discriminate |]. eapply IH; eauto.
Qed.

Lemma cat_loop_const : forall l ms mcs res cs,
  cat_loop fsm l false ms mcs = (res, cs) -> res <> [] -> mcs = cs.
Proof.
  induction l as [| x t IH]; intros ms mcs res cs H Hne; simpl in H.
  - now inversion H.
  - destruct (inner_loop (fsm x) false ms true [] mcs) as [[nm mcs'] |] eqn:E;
      [| inversion H; subst; congruence].
    apply inner_loop_const in E. subst. eapply IH; eauto.
Qed.

(* one sub-expression x appended to every current match *)
Lemma inner_loop_ok : forall x base i0, fsm_ok x ->
  forall Q j0 N mcs nm,
  inner_loop (fsm x) i0 (map (app base) Q) j0 (map (app base) N) mcs = Some (nm, true) ->
  exists N', nm = map (app base) N' /\
    (Q = [] \/ exists X', X' <> [] /\ forall b e s, ML b e x s <-> In s X') /\
    forall s, In s N' <-> In s N \/ exists p q, In p Q /\ ML true true x q /\ s = p ++ q.
Proof.
  intros x base i0 Hx. induction Q as [| p Q IH]; intros j0 N mcs nm H; simpl in H.
  - inversion H; subst. exists N. split; auto. split; auto. intros s. split; auto.
    intros [H1 | (p & q & [] & _)]; auto.
  - destruct (fsm x (base ++ p)) as [m c] eqn:Ef.
    destruct (isnil m) eqn:En; [discriminate |].
    destruct (too_many _ m); [discriminate |].
    remember (if i0 && j0 then c else mcs) as mcs1 eqn:Emcs1.
    destruct (negb (Bool.eqb mcs1 c)) eqn:Ec; [discriminate |].
    apply negb_false_iff, eqb_prop in Ec.
    assert (Hcs : mcs1 = true) by (eapply inner_loop_const'; eauto).
    assert (Hc : c = true) by congruence. rewrite Hc in Ef. clear Emcs1 Ec.
    destruct (Hx (base ++ p) m Ef) as (m' & -> & Hm').
    { intros ->. discriminate. }
    assert (E : map (app (base ++ p)) m' = map (app base) (map (app p) m')).
    { rewrite map_map. apply map_ext. intros a. now rewrite app_assoc. }
    rewrite E, <- map_app in H.
    destruct (IH false (N ++ map (app p) m') mcs1 nm H) as (N' & -> & _ & HN').
    exists N'. split; auto. split.
    { right. exists m'. split; auto. intros ->. discriminate. }
    intros s. rewrite HN', in_app_iff, in_map_iff. split.
    + intros [[H1 | (q & <- & Hq)] | (p' & q & Hp' & Hq & ->)]; auto.
      * right. exists p, q. split; [now left |]. split; auto. now apply Hm'.
      * right. exists p', q. split; [now right | auto].
    + intros [H1 | (p' & q & [<- | Hp'] & Hq & ->)]; auto.
      * left. right. exists q. split; auto. now apply (Hm' true true).
      * right. exists p', q. auto.
Qed.

Lemma cat_loop_ok : forall l base i0 P mcs ms,
  Forall fsm_ok l -> P <> [] ->
  cat_loop fsm l i0 (map (app base) P) mcs = (ms, true) -> ms <> [] ->
  exists ms' T', ms = map (app base) ms' /\
    (forall b e s, ML b e (RConcat l) s <-> In s T') /\
    forall s, In s ms' <-> exists p q, In p P /\ In q T' /\ s = p ++ q.
Proof.
  induction l as [| x t IH]; intros base i0 P mcs ms HF HP H Hne; simpl in H.
  - inversion H; subst. exists P, [[]]. split; auto. split.
    + intros b e s. rewrite ML_concat_nil. simpl. split; [intros ->; auto | intros [<- | []]; auto].
    + intros s. split.
      * intros Hs. exists s, []. rewrite app_nil_r. simpl. auto.
      * intros (p & q & Hp & [<- | []] & ->). now rewrite app_nil_r.
  - inversion HF as [| ? ? Hx Ht]; subst.
    destruct (inner_loop (fsm x) i0 (map (app base) P) true [] mcs) as [[nm mcs'] |] eqn:E;
      [| inversion H; subst; congruence].
    assert (mcs' = true) by (eapply cat_loop_const; eauto). subst mcs'.
    change (@nil str) with (map (app base) []) in E.
    destruct (inner_loop_ok x base i0 Hx P true [] mcs nm E) as (N' & -> & [HP' | (X' & HX' & HX)] & HN');
      [congruence |].
    assert (HN'ne : N' <> []).
    { destruct P as [| p0 P]; [congruence |]. destruct X' as [| q0 X']; [congruence |].
      intros EN. assert (In (p0 ++ q0) N') as Hin.
      { apply HN'. right. exists p0, q0. split; [now left |]. split; auto. apply HX. now left. }
      rewrite EN in Hin. destruct Hin. }
    destruct (IH base false N' true ms Ht HN'ne H Hne) as (ms' & T' & -> & HT' & Hms').
    exists ms', (flat_map (fun q1 => map (app q1) T') X'). split; auto. split.
    + intros b e s. rewrite ML_concat_cons, in_flat_map. split.
      * intros (s1 & s2 & -> & H1 & H2). exists s1. split; [now apply HX in H1 |].
        apply in_map_iff. exists s2. split; auto. now apply HT' in H2.
      * intros (q1 & Hq1 & Hs). apply in_map_iff in Hs. destruct Hs as (q2 & <- & Hq2).
        exists q1, q2. split; auto. split; [now apply HX | now apply HT'].
    + intros s. rewrite Hms'. split.
      * intros (p2 & q2 & Hp2 & Hq2 & ->). apply HN' in Hp2.
        destruct Hp2 as [[] | (p & q & Hp & Hq & ->)].
        exists p, (q ++ q2). split; auto. split; [| now rewrite app_assoc].
        apply in_flat_map. exists q. split; [now apply HX in Hq |].
        apply in_map_iff. eauto.
      * intros (p & q & Hp & Hq & ->). apply in_flat_map in Hq. destruct Hq as (q1 & Hq1 & Hq).
        apply in_map_iff in Hq. destruct Hq as (q2 & <- & Hq2).
        exists (p ++ q1), q2. split; [| split; [auto | now rewrite app_assoc]].
        apply HN'. right. exists p, q1. split; auto. split; auto. now apply HX.
Qed.

Theorem fsm_correct : forall r, fsm_ok r.
Proof.
  induction r using re_ind'; try (intros base ms H Hne; simpl in H; inversion H; subst; congruence).
  - (* REmpty *)
    intros base ms H Hne. simpl in H. destruct (isnil base); inversion H; subst.
    exists [[]]. simpl. rewrite app_nil_r. split; auto.
    intros b e s. unfold ML. simpl. split.
    + intros H1. apply CM_eps_inv in H1. auto.
    + intros [<- | []]. constructor.
  - (* RLit *)
    intros base ms H Hne. simpl in H. inversion H; subst. destruct f; [discriminate |].
    exists [rs]. split; auto. intros b e s. unfold ML. simpl. rewrite lit_cs_spec.
    split; [intros ->; auto | intros [<- | []]; auto].
  - apply fsm_ok_class.
  - (* RCapture *)
    intros base ms H Hne. simpl in H. destruct (IHr base ms H Hne) as (ms' & -> & Hms').
    exists ms'. split; auto.
  - (* RConcat *)
    intros base ms H0 Hne. simpl in H0. destruct (isnil l); [inversion H0; subst; congruence |].
    replace [base] with (map (app base) [[]]) in H0 by (simpl; now rewrite app_nil_r).
    destruct (cat_loop_ok l base true [[]] false ms H) as (ms' & T' & -> & HT' & Hms'); auto.
    { discriminate. }
    exists ms'. split; auto. intros b e s. rewrite HT', Hms'. split.
    + intros Hs. exists [], s. simpl. auto.
    + intros (p & q & [<- | []] & Hq & ->). auto.
  - (* RAlt *)
    intros base ms H0 Hne. simpl in H0.
    change (@nil str) with (map (app base) []) in H0.
    destruct (alt_loop_ok l base true [] ms H H0 Hne) as (ms' & -> & Hms').
    exists ms'. split; auto. intros b e s. specialize (Hms' b e s). simpl in Hms'. tauto.
Qed.

(* ---- the case-sensitive fragment: no FoldCase flag anywhere, literals non-empty *)
Fixpoint wf_csb (r : re) : bool :=
  match r with
  | REmpty f => negb f
  | RLit f rs => negb f && negb (isnil rs)
  | RClass f _ => negb f
  | RCapture x | RStar x | RPlus x | RQuest x | RRepeat _ _ x => wf_csb x
  | RConcat l | RAlt l => forallb wf_csb l
  | _ => true
  end.

Definition fsm_cs_ok (r : re) : Prop :=
  wf_csb r = true -> forall base ms c, fsm r base = (ms, c) -> ms <> [] -> c = true.

Lemma fsm_cs : forall r, fsm_cs_ok r.
Proof.
  induction r using re_ind'; intros Hwf base ms c H0 Hne; simpl in H0;
    try (inversion H0; subst; congruence).
  - destruct (isnil base); inversion H0; subst; [congruence |]. simpl in Hwf. now rewrite Hwf.
  - inversion H0; subst. simpl in Hwf. apply andb_true_iff in Hwf. tauto.
  - destruct (_ >? _); inversion H0; subst; [congruence |]. exact Hwf.
  - eapply IHr; eauto.
  - (* concat *)
    destruct l as [| x t]; simpl in H0; [inversion H0; subst; congruence |].
    destruct (fsm x base) as [m cx] eqn:Ex.
    destruct (isnil m) eqn:En; [inversion H0; subst; congruence |].
    destruct (too_many [] m); [inversion H0; subst; congruence |].
    destruct (negb (Bool.eqb cx cx)); [inversion H0; subst; congruence |].
    simpl in H0. simpl in Hwf. apply andb_true_iff in Hwf. destruct Hwf as [Hx Ht].
    inversion H as [| ? ? Hx' Ht']; subst.
    assert (cx = true). { eapply Hx'; eauto. intros ->. discriminate. }
    subst cx. symmetry. eapply cat_loop_const; eauto.
  - (* alt *)
    destruct l as [| x t]; simpl in H0; [inversion H0; subst; congruence |].
    destruct (fsm x base) as [m cx] eqn:Ex.
    destruct (isnil m) eqn:En; [inversion H0; subst; congruence |].
    destruct (too_many [] m); [inversion H0; subst; congruence |].
    destruct (negb (Bool.eqb cx cx)); [inversion H0; subst; congruence |].
    simpl in Hwf. apply andb_true_iff in Hwf. destruct Hwf as [Hx Ht].
    inversion H as [| ? ? Hx' Ht']; subst.
    assert (cx = true). { eapply Hx'; eauto. intros ->. discriminate. }
    subst cx. symmetry. eapply alt_loop_const; eauto.
Qed.

(* ---- wildcards *)
Lemma star_chr_spec : forall p s b e,
  CM b e (CStar (CChr p)) s <-> forallb (cp_match F p) s = true.
Proof.
  induction s as [| c s IH]; intros b e; simpl.
  - split; auto. intros _. constructor.
  - split.
    + intros H. apply CM_star_inv in H. destruct H as [H | (s1 & s2 & Hs & Hn & H1 & H2)]; [discriminate |].
      apply CM_chr_inv in H1. destruct H1 as (c' & -> & Hc). simpl in Hs. inversion Hs; subst.
      rewrite Hc. simpl. now apply IH in H2.
    + intros H. apply andb_true_iff in H. destruct H as [Hc Hs].
      change (c :: s) with ([c] ++ s). apply CM_star1; [discriminate | now constructor | now apply IH].
Qed.

Lemma plus_chr_spec : forall p s b e,
  CM b e (CCat (CChr p) (CStar (CChr p))) s <-> s <> [] /\ forallb (cp_match F p) s = true.
Proof.
  intros p s b e. split.
  - intros H. apply CM_cat_inv in H. destruct H as (s1 & s2 & -> & H1 & H2).
    apply CM_chr_inv in H1. destruct H1 as (c & -> & Hc). apply star_chr_spec in H2.
    split; [discriminate |]. simpl. now rewrite Hc.
  - intros [Hn H]. destruct s as [| c s]; [congruence |]. simpl in H.
    apply andb_true_iff in H. destruct H as [Hc Hs].
    change (c :: s) with ([c] ++ s). apply CM_cat; [now constructor | now apply star_chr_spec].
Qed.

Lemma quest_chr_spec : forall p s b e,
  CM b e (CAlt (CChr p) CEps) s <-> s = [] \/ exists c, s = [c] /\ cp_match F p c = true.
Proof.
  intros p s b e. split.
  - intros H. apply CM_alt_inv in H. destruct H as [H | H].
    + right. now apply CM_chr_inv in H.
    + left. now apply CM_eps_inv in H.
  - intros [-> | (c & -> & Hc)]; [apply CM_altr; constructor | apply CM_altl; now constructor].
Qed.

Lemma forallb_notnl s : forallb (fun c => negb (c =? 10)) s = negb (memZ 10 s).
Proof.
  unfold memZ. induction s as [| c s IH]; [reflexivity |].
  cbn [forallb existsb]. rewrite IH, negb_orb, (Z.eqb_sym 10 c). reflexivity.
Qed.

(* ---- more string facts *)
Lemma isnil_app {A} (a b : list A) : isnil (a ++ b) = isnil a && isnil b.
Proof. destruct a; auto. Qed.

Lemma is_suffix_spec p s : is_suffix p s = true <-> exists r, s = r ++ p.
Proof.
  unfold is_suffix. rewrite is_prefix_spec. split.
  - intros (r & Hr). exists (rev r). rewrite <- (rev_involutive s), Hr, rev_app_distr.
    now rewrite rev_involutive.
  - intros (r & ->). exists (rev r). now rewrite rev_app_distr.
Qed.

Lemma drop_suffix_app p r : drop_suffix p (r ++ p) = r.
Proof.
  unfold drop_suffix. rewrite app_length.
  replace (length r + length p - length p)%nat with (length r + 0)%nat by lia.
  rewrite firstn_app_2. simpl. now rewrite app_nil_r.
Qed.

Lemma contains_lr_spec lf rt sub : forall s pre,
  contains_lr lf rt sub pre s = true <->
  exists a b, s = a ++ sub ++ b /\ lf (rev pre ++ a) = true /\ rt b = true.
Proof.
  induction s as [| c t IH]; intros pre; simpl.
  - rewrite orb_false_r. split.
    + intros H. apply andb_true_iff in H. destruct H as [H Hr].
      apply andb_true_iff in H. destruct H as [Hp Hl].
      apply is_prefix_spec in Hp. destruct Hp as (r & Hr').
      symmetry in Hr'. apply app_eq_nil in Hr'. destruct Hr'; subst. simpl in *.
      exists [], []. simpl. rewrite app_nil_r. auto.
    + intros (a & b & Hs & Hl & Hr). symmetry in Hs. apply app_eq_nil in Hs. destruct Hs as [-> Hs].
      apply app_eq_nil in Hs. destruct Hs as [-> ->]. simpl. rewrite app_nil_r in Hl.
      now rewrite Hl, Hr.
  - rewrite orb_true_iff, IH. split.
    + intros [H | (a & b & -> & Hl & Hr)].
      * apply andb_true_iff in H. destruct H as [H Hr].
        apply andb_true_iff in H. destruct H as [Hp Hl].
        apply is_prefix_spec in Hp. destruct Hp as (r & Hr'). rewrite Hr' in Hr.
        rewrite skipn_app_len in Hr. exists [], r. simpl. rewrite app_nil_r. auto.
      * exists (c :: a), b. simpl in Hl. rewrite <- app_assoc in Hl. simpl in Hl. auto.
    + intros (a & b & Hs & Hl & Hr). destruct a as [| c' a].
      * left. simpl in Hs. rewrite app_nil_r in Hl. rewrite Hs.
        assert (E : is_prefix sub (sub ++ b) = true) by (apply is_prefix_spec; eauto).
        rewrite E, Hl, skipn_app_len, Hr. reflexivity.
      * right. simpl in Hs. inversion Hs; subst. exists a, b. simpl. rewrite <- app_assoc. simpl. auto.
Qed.

(* ---- concatenation of two lists of sub-expressions *)
Ltac bool_eq :=
  rewrite ?isnil_app; cbn [isnil app];
  repeat match goal with |- context [isnil ?l] => destruct (isnil l) end;
  repeat match goal with |- context [andb ?b _] => is_var b; destruct b end;
  reflexivity.
Ltac flags H :=
  match goal with
  | |- ?M ?b1 ?e1 ?r ?s =>
      match type of H with
      | _ ?b2 ?e2 _ _ =>
          let E1 := fresh in let E2 := fresh in
          assert (E1 : b2 = b1) by bool_eq; assert (E2 : e2 = e1) by bool_eq;
          exact (eq_ind e2 (fun e' => M b1 e' r s) (eq_ind b2 (fun b' => M b' e2 r s) H b1 E1) e1 E2)
      end
  end.

Lemma ML_concat_app : forall l1 l2 b e s,
  ML b e (RConcat (l1 ++ l2)) s <->
  exists s1 s2, s = s1 ++ s2 /\ ML b (e && isnil s2) (RConcat l1) s1 /\ ML (b && isnil s1) e (RConcat l2) s2.
Proof.
  induction l1 as [| x l1 IH]; intros l2 b e s.
  - simpl. split.
    + intros H. exists [], s. split; auto. split; [now apply ML_concat_nil | flags H].
    + intros (s1 & s2 & -> & H1 & H2). apply ML_concat_nil in H1. subst. simpl. flags H2.
  - simpl. rewrite ML_concat_cons. split.
    + intros (a & r & -> & Ha & Hr). apply IH in Hr. destruct Hr as (r1 & r2 & -> & H1 & H2).
      exists (a ++ r1), r2. rewrite app_assoc. split; auto. split.
      * apply ML_concat_cons. exists a, r1. split; auto. split; [flags Ha | flags H1].
      * flags H2.
    + intros (s1 & s2 & -> & H1 & H2). apply ML_concat_cons in H1.
      destruct H1 as (a & r1 & -> & Ha & H1).
      exists a, (r1 ++ s2). rewrite app_assoc. split; auto. split; [flags Ha |].
      apply IH. exists r1, s2. split; auto. split; [flags H1 | flags H2].
Qed.
End P.

(* ================= the StringMatcher layer ================= *)
Ltac bool_eq :=
  rewrite ?isnil_app; cbn [isnil app];
  repeat match goal with |- context [isnil ?l] => destruct (isnil l) end;
  repeat match goal with |- context [andb ?b _] => is_var b; destruct b end;
  reflexivity.
Ltac flags H :=
  match goal with
  | |- ?M ?b1 ?e1 ?r ?s =>
      match type of H with
      | _ ?b2 ?e2 _ _ =>
          let E1 := fresh in let E2 := fresh in
          assert (E1 : b2 = b1) by bool_eq; assert (E2 : e2 = e1) by bool_eq;
          exact (eq_ind e2 (fun e' => M b1 e' r s) (eq_ind b2 (fun b' => M b' e2 r s) H b1 E1) e1 E2)
      end
  end.


Section SM.
Variable F : rune -> rune -> bool.
Variable NL TL : bytes -> bytes.
Notation smm := (smm F NL).
Notation ML := (ML F).

Definition optm (o : option sm) (s : str) : Prop :=
  match o with Some m => smm m s = true | None => s = [] end.

(* left part, one of the fixed strings, right part *)
Definition T3 (lft : option sm) (matches : list str) (rgt : option sm) (s : str) : Prop :=
  exists s1 s2 s3, s = s1 ++ s2 ++ s3 /\ optm lft s1 /\ In s2 matches /\ optm rgt s3.

Lemma prefix_sem (g : str -> bool) p s :
  is_prefix p s && g (skipn (length p) s) = true <-> exists r, s = p ++ r /\ g r = true.
Proof.
  rewrite andb_true_iff, is_prefix_spec. split.
  - intros ((r & ->) & Hg). rewrite skipn_app_len in Hg. eauto.
  - intros (r & -> & Hg). rewrite skipn_app_len. eauto.
Qed.

Lemma suffix_sem (g : str -> bool) p s :
  is_suffix p s && g (drop_suffix p s) = true <-> exists r, s = r ++ p /\ g r = true.
Proof.
  rewrite andb_true_iff, is_suffix_spec. split.
  - intros ((r & ->) & Hg). rewrite drop_suffix_app in Hg. eauto.
  - intros (r & -> & Hg). rewrite drop_suffix_app. eauto.
Qed.

Lemma assemble_correct lft rgt matches M :
  assemble lft rgt matches true = Some M ->
  forall s, smm M s = true <-> T3 lft matches rgt s.
Proof.
  intros H s. unfold assemble in H. destruct matches as [| m1 mt]; [discriminate |].
  unfold T3. destruct lft as [lf |], rgt as [rt |].
  - inversion H; subst. cbn [FastRegex.smm]. rewrite existsb_exists. split.
    + intros (sub & Hin & Hc). apply contains_lr_spec in Hc. destruct Hc as (a & b & -> & Ha & Hb).
      exists a, sub, b. simpl in Ha. auto.
    + intros (s1 & s2 & s3 & -> & H1 & H2 & H3). exists s2. split; auto.
      apply contains_lr_spec. exists s1, s3. simpl. auto.
  - assert (E : forall M', (M' = SSuffix lf m1 true /\ mt = [] \/ M' = SContains (Some lf) (m1 :: mt) None) ->
                smm M' s = true <->
                exists s1 s2 s3, s = s1 ++ s2 ++ s3 /\ smm lf s1 = true /\ In s2 (m1 :: mt) /\ s3 = []).
    { intros M' [[-> ->] | ->]; cbn [FastRegex.smm].
      - rewrite (suffix_sem (smm lf)). split.
        + intros (r & -> & Hr). exists r, m1, []. rewrite app_nil_r. simpl. auto.
        + intros (s1 & s2 & s3 & -> & H1 & [<- | []] & ->). rewrite app_nil_r. eauto.
      - rewrite existsb_exists. split.
        + intros (sub & Hin & Hc). apply (suffix_sem (smm lf)) in Hc. destruct Hc as (r & -> & Hr).
          exists r, sub, []. rewrite app_nil_r. auto.
        + intros (s1 & s2 & s3 & -> & H1 & H2 & ->). exists s2. split; auto.
          apply (suffix_sem (smm lf)). rewrite app_nil_r. eauto. }
    apply E. destruct mt; simpl in H; inversion H; auto.
  - assert (E : forall M', (M' = SPrefix true m1 rt /\ mt = [] \/ M' = SContains None (m1 :: mt) (Some rt)) ->
                smm M' s = true <->
                exists s1 s2 s3, s = s1 ++ s2 ++ s3 /\ s1 = [] /\ In s2 (m1 :: mt) /\ smm rt s3 = true).
    { intros M' [[-> ->] | ->]; cbn [FastRegex.smm].
      - rewrite (prefix_sem (smm rt)). split.
        + intros (r & -> & Hr). exists [], m1, r. simpl. auto.
        + intros (s1 & s2 & s3 & -> & -> & [<- | []] & H3). simpl. eauto.
      - rewrite existsb_exists. split.
        + intros (sub & Hin & Hc). apply (prefix_sem (smm rt)) in Hc. destruct Hc as (r & -> & Hr).
          exists [], sub, r. simpl. auto.
        + intros (s1 & s2 & s3 & -> & -> & H2 & H3). exists s2. split; auto.
          apply (prefix_sem (smm rt)). simpl. eauto. }
    apply E. destruct mt; simpl in H; inversion H; auto.
  - inversion H; subst. cbn [FastRegex.smm].
    change (SEqual m1 true :: map (fun m : str => SEqual m true) mt)
      with (map (fun m : str => SEqual m true) (m1 :: mt)).
    rewrite existsb_exists. split.
    + intros (x & Hin & Hx). apply in_map_iff in Hin. destruct Hin as (m & <- & Hm).
      cbn [FastRegex.smm] in Hx. apply str_eqb_eq in Hx. subst.
      exists [], s, []. simpl. rewrite app_nil_r. auto.
    + intros (s1 & s2 & s3 & -> & -> & H2 & ->). cbn [app]. rewrite app_nil_r.
      exists (SEqual s2 true). split; [apply in_map_iff; eauto |]. cbn [FastRegex.smm]. now apply str_eqb_eq.
Qed.

Ltac flags' H := flags H.

Lemma ML_concat_single b e x s : ML b e (RConcat [x]) s <-> ML b e x s.
Proof.
  rewrite ML_concat_cons. split.
  - intros (s1 & s2 & -> & H1 & H2). apply ML_concat_nil in H2. subst. rewrite app_nil_r. flags' H1.
  - intros H. exists s, []. rewrite app_nil_r. split; auto. split; [flags' H | now apply ML_concat_nil].
Qed.

Lemma strip_lower : forall r, lower (strip r) = lower r.
Proof. induction r; simpl; auto. Qed.

Lemma ML_strip b e r s : ML b e (strip r) s <-> ML b e r s.
Proof. unfold FastRegexProofs.ML. now rewrite strip_lower. Qed.

Lemma wf_strip : forall r, wf_csb r = true -> wf_csb (strip r) = true.
Proof. induction r; simpl; auto. Qed.

Definition p_ok (p : re * option sm) : Prop :=
  wf_csb (fst p) = true /\
  forall mm, snd p = Some mm -> forall b e s, smm mm s = true <-> ML b e (fst p) s.
Definition ps_ok (ps : list (re * option sm)) : Prop := Forall p_ok ps.

Lemma split_last_correct ps1 mid rgt :
  ps_ok ps1 ->
  (let '(xl, ml) := last ps1 (RNoMatch, None) in
   let rw := is_wild_op xl in
   if rw && is_none ml then None
   else Some (if rw then ml else None, if rw then removelast ps1 else ps1)) = Some (rgt, mid) ->
  ps_ok mid /\
  forall b e s, ML b e (RConcat (map fst ps1)) s <->
    exists s2 s3, s = s2 ++ s3 /\ ML b (e && isnil s3) (RConcat (map fst mid)) s2 /\ optm rgt s3.
Proof.
  intros Hok H. destruct (last ps1 (RNoMatch, None)) as [xl ml] eqn:El.
  destruct (is_wild_op xl) eqn:Ew.
  - destruct ml as [m |]; simpl in H; [| discriminate]. inversion H; subst.
    assert (Hne : ps1 <> []). { intros ->. simpl in El. inversion El. }
    pose proof (app_removelast_last (RNoMatch, None) Hne) as E. rewrite El in E.
    assert (Hok' : ps_ok (removelast ps1) /\ p_ok (xl, Some m)).
    { unfold ps_ok in *. rewrite E in Hok. apply Forall_app in Hok. destruct Hok as [H1 H2].
      inversion H2; auto. }
    destruct Hok' as [Hm Hl]. split; auto.
    intros b e s. rewrite E at 1. rewrite map_app, ML_concat_app. simpl.
    destruct Hl as [_ Hl]. specialize (Hl m eq_refl). simpl in Hl. split.
    + intros (s2 & s3 & -> & H2 & H3). rewrite ML_concat_single in H3.
      exists s2, s3. split; auto. split; auto. now apply Hl in H3.
    + intros (s2 & s3 & -> & H2 & H3). exists s2, s3. split; auto. split; auto.
      rewrite ML_concat_single. now apply Hl.
  - simpl in H. inversion H; subst. split; auto. intros b e s. split.
    + intros H1. exists s, []. rewrite app_nil_r. simpl. split; auto. split; auto. flags' H1.
    + intros (s2 & s3 & -> & H2 & H3). simpl in H3. subst. rewrite app_nil_r. flags' H2.
Qed.

Lemma split_wild_correct ps lft mid rgt :
  ps_ok ps -> split_wild ps = Some (lft, mid, rgt) ->
  ps_ok mid /\
  forall b e s, ML b e (RConcat (map fst ps)) s <->
    exists s1 s2 s3, s = s1 ++ s2 ++ s3 /\ optm lft s1 /\
      ML (b && isnil s1) (e && isnil s3) (RConcat (map fst mid)) s2 /\ optm rgt s3.
Proof.
  intros Hok H. destruct ps as [| [x0 m0] rest]; [discriminate |].
  unfold split_wild in H.
  destruct (is_wild_op x0) eqn:Ew.
  - destruct m0 as [m |]; simpl in H; [| discriminate].
    inversion Hok as [| ? ? H0 Hrest]; subst.
    destruct (last rest (RNoMatch, None)) as [xl ml] eqn:El.
    destruct (is_wild_op xl && is_none ml) eqn:Eb; [discriminate |].
    inversion H; subst.
    destruct (split_last_correct rest (if is_wild_op xl then removelast rest else rest)
                (if is_wild_op xl then ml else None) Hrest) as [Hm Hsem].
    { rewrite El. cbv beta iota zeta. rewrite Eb. reflexivity. }
    split; auto. intros b e s. simpl. rewrite ML_concat_cons.
    destruct H0 as [_ H0]. specialize (H0 m eq_refl). simpl in H0. split.
    + intros (s1 & s' & -> & H1 & H2). apply Hsem in H2. destruct H2 as (s2 & s3 & -> & H2 & H3).
      exists s1, s2, s3. split; auto. split; [now apply H0 in H1 | auto].
    + intros (s1 & s2 & s3 & -> & H1 & H2 & H3). exists s1, (s2 ++ s3). split; auto.
      split; [now apply H0 |]. apply Hsem. eauto.
  - cbn [andb] in H.
    destruct (last ((x0, m0) :: rest) (RNoMatch, None)) as [xl ml] eqn:El.
    destruct (is_wild_op xl && is_none ml) eqn:Eb; [discriminate |].
    inversion H; subst.
    destruct (split_last_correct ((x0, m0) :: rest)
                (if is_wild_op xl then removelast ((x0, m0) :: rest) else (x0, m0) :: rest)
                (if is_wild_op xl then ml else None) Hok) as [Hm Hsem].
    { rewrite El. cbv beta iota zeta. rewrite Eb. reflexivity. }
    split; auto. intros b e s. rewrite Hsem. split.
    + intros (s2 & s3 & -> & H2 & H3). exists [], s2, s3. simpl. split; auto. split; auto.
      split; auto. flags' H2.
    + intros (s1 & s2 & s3 & -> & H1 & H2 & H3). simpl in H1. subst s1. simpl.
      exists s2, s3. split; auto. split; auto. flags' H2.
Qed.

Lemma map_app_nil (l : list str) : map (app []) l = l.
Proof.
  induction l as [| a l IH]; [reflexivity |].
  change (map (app []) (a :: l)) with (a :: map (app []) l). now rewrite IH.
Qed.

Lemma lit_of_some a f rs : lit_of a = Some (f, rs) -> a = RLit f rs.
Proof. destruct a; simpl; intros H; inversion H; auto. Qed.

Lemma ML_lit_cs b e rs s : ML b e (RLit false rs) s <-> s = rs.
Proof. unfold FastRegexProofs.ML. simpl. apply lit_cs_spec. Qed.

Lemma ML_pair b e a c s :
  ML b e (RConcat [a; c]) s <->
  exists t1 t2, s = t1 ++ t2 /\ ML b (e && isnil t2) a t1 /\ ML (b && isnil t1) e c t2.
Proof.
  rewrite ML_concat_cons. split.
  - intros (t1 & t2 & -> & H1 & H2). rewrite ML_concat_single in H2. eauto.
  - intros (t1 & t2 & -> & H1 & H2). exists t1, t2. rewrite ML_concat_single. auto.
Qed.

Lemma wf_mid mid : ps_ok mid -> wf_csb (RConcat (map fst mid)) = true.
Proof.
  intros H. simpl. induction H as [| p l [Hp _] _ IH]; simpl; auto. now rewrite Hp.
Qed.

Lemma refine_mid_correct lft mid rgt lft' rgt' matches mcs :
  ps_ok mid -> refine_mid lft mid rgt = (lft', rgt', matches, mcs) -> matches <> [] ->
  mcs = true /\
  forall b e s,
    (exists s1 s2 s3, s = s1 ++ s2 ++ s3 /\ optm lft s1 /\
       ML (b && isnil s1) (e && isnil s3) (RConcat (map fst mid)) s2 /\ optm rgt s3)
    <-> T3 lft' matches rgt' s.
Proof.
  intros Hok H Hne. unfold refine_mid in H.
  destruct (fsm (RConcat (map fst mid)) []) as [ms0 c0] eqn:Ef.
  destruct (isnil ms0) eqn:En.
  - (* no fixed set: the literal + matcher special cases *)
    destruct ms0; [| discriminate].
    destruct mid as [| [a ma] [| [c mc] [| ? ?]]]; try (inversion H; subst; congruence).
    inversion Hok as [| ? ? [Hwa Ha] Hok']; subst. inversion Hok' as [| ? ? [Hwc Hc] _]; subst.
    simpl in Hwa, Ha, Hwc, Hc.
    destruct rgt as [rt |].
    + (* rgt is set: only the second special case can apply *)
      destruct lft as [lf |]; [destruct (lit_of a) as [[? ?] |]; inversion H; subst; congruence |].
      assert (H' : (match lit_of c with
                    | Some (f, rs) => match ma with
                                      | Some _ => (ma, Some rt, [rs], negb f)
                                      | None => (None, Some rt, [], c0) end
                    | None => (None, Some rt, [], c0) end) = (lft', rgt', matches, mcs)).
      { destruct (lit_of a) as [[? ?] |]; exact H. }
      clear H. destruct (lit_of c) as [[f rs] |] eqn:Elc; [| inversion H'; subst; congruence].
      destruct ma as [m |]; inversion H'; subst; [| congruence].
      apply lit_of_some in Elc. subst c. simpl in Hwc. apply andb_true_iff in Hwc.
      destruct Hwc as [Hf _]. apply negb_true_iff in Hf. subst f. split; auto.
      intros b e s. unfold T3. simpl. split.
      * intros (s1 & s2 & s3 & -> & -> & H2 & H3). apply ML_pair in H2.
        destruct H2 as (t1 & t2 & -> & H1 & H2). apply ML_lit_cs in H2. subst t2.
        exists t1, rs, s3. simpl. rewrite <- app_assoc. split; auto. split; [now apply (Ha m eq_refl) in H1 | auto].
      * intros (s1 & s2 & s3 & -> & H1 & [<- | []] & H3). exists [], (s1 ++ rs), s3. simpl.
        rewrite <- app_assoc. split; auto. split; auto. split; auto.
        apply ML_pair. exists s1, rs. split; auto. split; [now apply (Ha m eq_refl) | now apply ML_lit_cs].
    + destruct (lit_of a) as [[f rs] |] eqn:Ela.
      * (* first special case: literal prefix *)
        destruct mc as [m |]; inversion H; subst; [| congruence].
        apply lit_of_some in Ela. subst a. simpl in Hwa. apply andb_true_iff in Hwa.
        destruct Hwa as [Hf _]. apply negb_true_iff in Hf. subst f. split; auto.
        intros b e s. unfold T3. simpl. split.
        -- intros (s1 & s2 & s3 & -> & H1 & H2 & ->). apply ML_pair in H2.
           destruct H2 as (t1 & t2 & -> & H2 & H3). apply ML_lit_cs in H2. subst t1.
           exists s1, rs, t2. rewrite app_nil_r. split; auto. split; auto. split; auto.
           now apply (Hc m eq_refl) in H3.
        -- intros (s1 & s2 & s3 & -> & H1 & [<- | []] & H3). exists s1, (rs ++ s3), [].
           rewrite app_nil_r. split; auto. split; auto. split; auto.
           apply ML_pair. exists rs, s3. split; auto. split; [now apply ML_lit_cs | now apply (Hc m eq_refl)].
      * (* second special case: literal suffix, lft must be unset *)
        destruct lft as [lf |]; [inversion H; subst; congruence |].
        destruct (lit_of c) as [[f rs] |] eqn:Elc; [| inversion H; subst; congruence].
        destruct ma as [m |]; inversion H; subst; [| congruence].
        apply lit_of_some in Elc. subst c. simpl in Hwc. apply andb_true_iff in Hwc.
        destruct Hwc as [Hf _]. apply negb_true_iff in Hf. subst f. split; auto.
        intros b e s. unfold T3. simpl. split.
        -- intros (s1 & s2 & s3 & -> & -> & H2 & ->). apply ML_pair in H2.
           destruct H2 as (t1 & t2 & -> & H1 & H2). apply ML_lit_cs in H2. subst t2.
           exists t1, rs, []. simpl. rewrite <- app_assoc. split; auto. split; [now apply (Ha m eq_refl) in H1 | auto].
        -- intros (s1 & s2 & s3 & -> & H1 & [<- | []] & ->). exists [], (s1 ++ rs), []. simpl.
           rewrite !app_nil_r. split; auto. split; auto. split; auto.
           apply ML_pair. exists s1, rs. split; auto. split; [now apply (Ha m eq_refl) | now apply ML_lit_cs].
  - (* a fixed set of strings in the middle *)
    assert (H' : (lft, rgt, ms0, c0) = (lft', rgt', matches, mcs)).
    { destruct mid as [| [a ma] [| [c mc] [| ? ?]]]; exact H. }
    inversion H'; subst. clear H H'.
    assert (Hc0 : mcs = true).
    { eapply (fsm_cs (RConcat (map fst mid))); eauto. now apply wf_mid. }
    subst mcs. split; auto.
    destruct (fsm_correct F (RConcat (map fst mid)) [] matches Ef Hne) as (ms' & -> & Hms').
    rewrite map_app_nil. intros b e s. unfold T3. split.
    + intros (s1 & s2 & s3 & -> & H1 & H2 & H3). apply Hms' in H2. eauto 10.
    + intros (s1 & s2 & s3 & -> & H1 & H2 & H3). exists s1, s2, s3. split; auto. split; auto.
      split; auto. now apply Hms'.
Qed.

Lemma concat_logic_correct ps M :
  ps_ok ps -> concat_logic ps = Some M ->
  forall b e s, smm M s = true <-> ML b e (RConcat (map fst ps)) s.
Proof.
  intros Hok H b e s.
  destruct ps as [| [x0 m0] [| p1 rest]].
  - simpl in H. inversion H; subst. simpl. rewrite ML_concat_nil. destruct s; simpl; split; congruence.
  - simpl in H. subst m0. inversion Hok as [| ? ? [_ H0] _]; subst. simpl.
    rewrite ML_concat_single. now apply (H0 M eq_refl).
  - assert (H' : match split_wild ((x0, m0) :: p1 :: rest) with
                 | None => None
                 | Some (lft, mid, rgt) =>
                     let '(lft', rgt', matches, mcs) := refine_mid lft mid rgt in
                     assemble lft' rgt' matches mcs
                 end = Some M) by exact H.
    clear H. destruct (split_wild ((x0, m0) :: p1 :: rest)) as [[[lft mid] rgt] |] eqn:Es; [| discriminate].
    destruct (split_wild_correct _ _ _ _ Hok Es) as [Hmid Hsem].
    destruct (refine_mid lft mid rgt) as [[[lft' rgt'] matches] mcs] eqn:Er.
    assert (Hne : matches <> []). { intros ->. destruct lft', rgt'; discriminate. }
    destruct (refine_mid_correct _ _ _ _ _ _ _ Hmid Er Hne) as [-> Hsem'].
    rewrite (assemble_correct _ _ _ _ H'), Hsem. symmetry. apply Hsem'.
Qed.

Definition smi_ok (r : re) : Prop :=
  wf_csb r = true -> forall M, smi r = Some M -> forall b e s, smm M s = true <-> ML b e r s.

Lemma forallb_const_true (s : str) : forallb (fun _ : rune => true) s = true.
Proof. induction s; auto. Qed.

Lemma smi_correct : forall r, smi_ok r.
Proof.
  induction r using re_ind'; intros Hwf M HM b e s; simpl in HM; try discriminate.
  - (* REmpty *)
    inversion HM; subst. unfold FastRegexProofs.ML. simpl. destruct s; simpl; split; intros H; try discriminate; try constructor.
    apply CM_eps_inv in H. discriminate.
  - (* RLit *)
    inversion HM; subst. simpl in Hwf. apply andb_true_iff in Hwf. destruct Hwf as [Hf _].
    apply negb_true_iff in Hf. subst f. cbn [FastRegex.smm negb]. rewrite str_eqb_eq, ML_lit_cs.
    split; congruence.
  - (* RCapture *)
    apply (IHr Hwf M HM).
  - (* RStar *)
    unfold FastRegexProofs.ML. destruct r; try discriminate; inversion HM; subst; simpl.
    + rewrite star_chr_spec. simpl. rewrite forallb_const_true. tauto.
    + rewrite star_chr_spec. simpl. rewrite forallb_notnl. tauto.
  - (* RPlus *)
    unfold FastRegexProofs.ML. destruct r; try discriminate; inversion HM; subst; simpl.
    + rewrite plus_chr_spec. simpl. rewrite forallb_const_true. destruct s; simpl; split; intros H; try discriminate; auto.
      * destruct H; congruence.
      * split; [discriminate | auto].
    + rewrite plus_chr_spec. simpl. rewrite forallb_notnl. destruct s; simpl; split; intros H; try discriminate; auto.
      * destruct H; congruence.
      * split; [discriminate | auto].
      * tauto.
  - (* RQuest *)
    unfold FastRegexProofs.ML. destruct r; try discriminate; inversion HM; subst; simpl; rewrite quest_chr_spec; simpl.
    + destruct s as [| c [| c' s]]; split; intros H; auto.
      * right. eauto.
      * discriminate.
      * destruct H as [H | (c0 & H & _)]; discriminate.
    + destruct s as [| c [| c' s]]; split; intros H; auto.
      * right. eauto.
      * destruct H as [H | (c0 & H & Hc)]; [discriminate |]. inversion H; subst. exact Hc.
      * discriminate.
      * destruct H as [H | (c0 & H & _)]; discriminate.
  - (* RConcat *)
    simpl in Hwf.
    assert (Hok : ps_ok (map (fun x => (strip x, smi x)) l)).
    { unfold ps_ok. clear HM. induction H as [| x l Hx _ IH]; simpl; constructor.
      - simpl in Hwf. apply andb_true_iff in Hwf. destruct Hwf as [Hwx _]. split; simpl.
        + now apply wf_strip.
        + intros mm Hmm b' e' s'. rewrite ML_strip. now apply Hx.
      - apply IH. simpl in Hwf. apply andb_true_iff in Hwf. tauto. }
    rewrite (concat_logic_correct _ _ Hok HM b e s).
    unfold FastRegexProofs.ML. simpl. rewrite !map_map. simpl.
    replace (map (fun x => lower (strip x)) l) with (map lower l); [reflexivity |].
    apply map_ext. intros a. now rewrite strip_lower.
  - (* RAlt *)
    simpl in Hwf. destruct (all_some (map smi l)) as [ms |] eqn:Ea; [| discriminate].
    inversion HM; subst. cbn [FastRegex.smm]. clear HM.
    revert ms Ea. induction H as [| x l Hx _ IH]; intros ms Ea; simpl in Ea.
    + inversion Ea; subst. simpl. rewrite ML_alt_nil. split; [discriminate | tauto].
    + simpl in Hwf. apply andb_true_iff in Hwf. destruct Hwf as [Hwx Hwl].
      destruct (smi x) as [mx |] eqn:Ex; [| discriminate].
      destruct (all_some (map smi l)) as [ms' |] eqn:Ea'; [| discriminate].
      inversion Ea; subst. simpl. rewrite ML_alt_cons, orb_true_iff, (IH Hwl ms' eq_refl).
      rewrite (Hx Hwx mx Ex b e s). tauto.
Qed.
End SM.

Lemma fsm_top_exact : forall F r ms,
  fsm r [] = (ms, true) -> ms <> [] -> forall s, Matches F r s <-> In s ms.
Proof.
  intros F r ms H Hne s. destruct (fsm_correct F r [] ms H Hne) as (ms' & -> & Hms').
  rewrite map_app_nil. apply Hms'.
Qed.
